/-
  Proofs/CounterVCAll.lean — VInv is preserved by every other step; PReachable → VInv; the product
  run projects onto the acceptor run and onto `VC.run` of the mapped atomics.
-/
import NsyncVerif.Proofs.CounterVCStep

namespace Counter

open NsyncVerif

theorem vinv_nocas {p : PState} {s' : State} {t : Tid} {ev : Ev}
    (hr : Reachable p.s) (hv : VInv p) (hs : step p.s (.thr t ev) = .ok s')
    (hno : casOf p.s (.thr t ev) = none) :
    VInv { s := s', m := vstep p.m (.thr t ev), zeroClock := p.zeroClock, zeroIdx := p.zeroIdx,
           adds := p.adds } := by
  have hi := inv_of_reachable hr
  have hs' : stepThr p.s t ev = .ok s' := hs
  have f := facts_stepThr hi hs'
  have g := vcfacts_stepThr hi hs'
  have mono : ∀ u, VC.Clock.le (p.m.vc u) ((vstep p.m (.thr t ev)).vc u) := fun u => vstep_mono _ _ u
  -- the history is unchanged, or this is the initialising store
  have hh : (s'.sh.hist = p.s.sh.hist ∧ s'.sh.value = p.s.sh.value)
      ∨ (p.s.sh.created = false ∧ ∃ v, s'.sh.hist = [v]) := by
    rcases f.hist with h1 | ⟨d, v, new, h1, h2, _⟩ | ⟨v, _, h1, h2, _⟩
    · exact Or.inl ⟨h1.1, h1.2.2.1⟩
    · subst h2; rw [casOf_of h1] at hno; cases hno
    · exact Or.inr ⟨h1, v, h2⟩
  have hchain : p.s.sh.created = true → ∀ c, VC.Clock.le c (p.m.relc .value) →
      VC.Clock.le c ((vstep p.m (.thr t ev)).relc .value) := fun hc c h => vstep_chain p.m g hc c h
  have hnocas : ∀ d v x n ob, p.s.pc t = .aCas d v → ev ≠ .cas .ar .value x n ob true := by
    intro d v x n ob h1 h2; subst h2; rw [casOf_of h1] at hno; cases hno
  -- an acquire load of `value` by t imports the release clock of `value`
  have hacq : ∀ obs, ev = .ld .acq .value obs →
      VC.Clock.le (p.m.relc .value) ((vstep p.m (.thr t ev)).vc t) := by
    intro obs he; subst he
    exact VC.acq_sees_relc p.m ⟨t, .ld, .acq, .value⟩ rfl (Or.inl rfl)
  have hzi : p.zeroIdx ≤ p.adds.length := by
    rcases hv.zi with ⟨h1, _⟩ | ⟨i, h1, h2⟩
    · omega
    · have : i < p.adds.length := by
        rcases Nat.lt_or_ge i p.adds.length with h' | h'
        · exact h'
        · rw [List.getElem?_eq_none h'] at h2; cases h2
      omega
  refine ⟨?_, ?_, ?_, ?_, hv.zi, ?_, ?_, ?_, ?_⟩
  · intro hc'
    show s'.sh.hist.length = p.adds.length + 1
    cases hc : p.s.sh.created with
    | true =>
      rcases hh with ⟨h1, _⟩ | ⟨h1, _⟩
      · rw [h1]; exact hv.len hc
      · rw [hc] at h1; cases h1
    | false =>
      rcases g.crt hc' with h1 | ⟨h1, _⟩
      · rw [hc] at h1; cases h1
      · rw [h1, (hv.nil hc).1]; rfl
  · intro hc'
    apply hv.nil
    cases hc : p.s.sh.created with
    | false => rfl
    | true => rw [g.crt' hc] at hc'; cases hc'
  · intro c hc
    have hcr : p.s.sh.created = true := by
      cases hcc : p.s.sh.created with
      | true => rfl
      | false => rw [(hv.nil hcc).1] at hc; cases hc
    exact hchain hcr c (hv.chain c hc)
  · show VC.Clock.le p.zeroClock _
    cases hcc : p.s.sh.created with
    | true => exact hchain hcc _ hv.zc
    | false => rw [(hv.nil hcc).2]; exact bot_le _
  · intro u hu
    have old : ∀ w, seenZero (p.s.pc w) = true →
        VC.Clock.le p.zeroClock ((vstep p.m (.thr t ev)).vc w) ∧ s'.sh.value = 0 ∧ s'.sh.waited = true
        ∧ sawUpTo { s := s', m := vstep p.m (.thr t ev), zeroClock := p.zeroClock, zeroIdx := p.zeroIdx,
                    adds := p.adds } w p.zeroIdx := by
      intro w hw
      obtain ⟨h1, h2, h3, h4⟩ := hv.seen w hw
      exact ⟨VC.Clock.le_trans h1 (mono w), f.zst h3 h2, f.wtd h3,
        sawUpTo_mono (p := p) (mono w) ⟨[], by simp⟩ hzi h4⟩
    by_cases hut : u = t
    · subst hut
      rcases g.seen hu with h1 | ⟨obs, h1, h2, h3, h4⟩
      · exact old u h1
      · -- the edge: u's own acquire load of `value`, which observed 0
        have hw := hv.past u h4
        exact ⟨VC.Clock.le_trans hv.zc (hacq obs h1), f.zst hw h3, f.wtd hw,
          fun j c _ hc => sawAll hv (hacq obs h1) j c hc⟩
    · rw [f.others u hut] at hu; exact old u hu
  · intro u hu
    by_cases hut : u = t
    · subst hut
      rcases g.past hu with h1 | h1
      · exact f.wtd (hv.past u h1)
      · exact h1
    · rw [f.others u hut] at hu; exact f.wtd (hv.past u hu)
  · intro u i hu
    have old : ∀ w, pcIdx (p.s.pc w) = some i →
        sawUpTo { s := s', m := vstep p.m (.thr t ev), zeroClock := p.zeroClock, zeroIdx := p.zeroIdx,
                  adds := p.adds } w i := by
      intro w hw
      have hlt := pcIdx_lt hi hw
      have hcr : p.s.sh.created = true := by
        cases hcc : p.s.sh.created with
        | true => rfl
        | false => rw [(hi.sh.hnil hcc).1] at hlt; cases hlt
      have := hv.len hcr
      exact sawUpTo_mono (p := p) (mono w) ⟨[], by simp⟩ (by omega) (hv.idx w i hw)
    by_cases hut : u = t
    · subst hut
      rcases g.idx i hu with h1 | ⟨_, d, v, new, h1, h2⟩
      · exact old u h1
      · exact absurd h2 (hnocas d v v new v h1)
    · rw [f.others u hut] at hu; exact old u hu
  · intro u w hu
    have old : ∀ z, pcVal (p.s.pc z) = some w → ∃ k, s'.sh.hist[k]? = some w ∧
        sawUpTo { s := s', m := vstep p.m (.thr t ev), zeroClock := p.zeroClock, zeroIdx := p.zeroIdx,
                  adds := p.adds } z k := by
      intro z hz
      obtain ⟨k, hk1, hk2⟩ := hv.val z w hz
      have hlt : k < p.s.sh.hist.length := by
        rcases Nat.lt_or_ge k p.s.sh.hist.length with h' | h'
        · exact h'
        · rw [List.getElem?_eq_none h'] at hk1; cases hk1
      have hcr : p.s.sh.created = true := by
        cases hcc : p.s.sh.created with
        | true => rfl
        | false => rw [(hi.sh.hnil hcc).1] at hlt; cases hlt
      have := hv.len hcr
      refine ⟨k, ?_, sawUpTo_mono (p := p) (mono z) ⟨[], by simp⟩ (by omega) hk2⟩
      rcases hh with ⟨h1, _⟩ | ⟨h1, _⟩
      · rw [h1]; exact hk1
      · rw [hcr] at h1; cases h1
    by_cases hut : u = t
    · subst hut
      rcases g.val w hu with h1 | ⟨h1, h2, h3⟩
      · exact old u h1
      · -- acquire load of the current value: it is the last element of the history, and the
        -- reader now dominates every add so far
        have hl := hv.len h3
        have hlast := hi.sh.last h3
        rw [List.getLast?_eq_getElem?, hl, Nat.add_sub_cancel, ← h2] at hlast
        refine ⟨p.adds.length, ?_, ?_⟩
        · rcases hh with ⟨h4, _⟩ | ⟨h4, _⟩
          · rw [h4]; exact hlast
          · rw [h3] at h4; cases h4
        · intro j c _ hc
          exact sawAll hv (hacq w h1) j c hc
    · rw [f.others u hut] at hu; exact old u hu

theorem vinv_tick {p : PState} {s' : State} {ns : Nat} (hv : VInv p) (hs : step p.s (.tick ns) = .ok s') :
    VInv { s := s', m := p.m, zeroClock := p.zeroClock, zeroIdx := p.zeroIdx, adds := p.adds } := by
  simp only [step] at hs
  split at hs
  · cases hs
    exact ⟨hv.len, hv.nil, hv.chain, hv.zc, hv.zi, hv.seen, hv.past, hv.idx, hv.val⟩
  · cases hs

theorem pstep_s {p p' : PState} {e : Event} (h : pstep p e = .ok p') : step p.s e = .ok p'.s := by
  unfold pstep at h
  split at h
  · cases h
  · rename_i s' hs; cases h; exact hs

theorem vinv_step {p p' : PState} {e : Event} (hr : Reachable p.s) (hv : VInv p)
    (h : pstep p e = .ok p') : VInv p' := by
  unfold pstep at h
  split at h
  · cases h
  · rename_i s' hs
    cases h
    cases e with
    | tick ns => exact vinv_tick hv hs
    | thr t ev =>
      cases hc : casOf p.s (.thr t ev) with
      | none => simp only []; exact vinv_nocas hr hv hs hc
      | some t' =>
        obtain ⟨h1, d, v, x, n, ob, hpc, hev⟩ := casOf_some hc
        subst h1 hev
        simp only []
        exact vinv_cas hr hv hs hpc

theorem vinv_init : VInv pinit := by
  refine ⟨?_, ?_, ?_, ?_, Or.inl ⟨rfl, rfl⟩, ?_, ?_, ?_, ?_⟩
  · intro h; cases h
  · intro _; exact ⟨rfl, rfl⟩
  · intro c hc; cases hc
  · exact bot_le _
  · intro t h; cases h
  · intro t h; cases h
  · intro t i h; cases h
  · intro t v h; cases h

theorem prun_s {p p' : PState} {evs : List Event} (h : prun p evs = .ok p') : run p.s evs = .ok p'.s := by
  induction evs generalizing p with
  | nil => simp only [prun] at h; cases h; rfl
  | cons e es ih =>
    simp only [prun] at h
    split at h
    · rename_i p1 h1
      simp only [run, pstep_s h1]
      exact ih h
    · cases h

/-- the machine component of the product is `VC.run` over the mapped atomics of the trace -/
theorem prun_m {p p' : PState} {evs : List Event} (h : prun p evs = .ok p') :
    p'.m = VC.run p.m (evs.filterMap evVC) := by
  induction evs generalizing p with
  | nil => simp only [prun] at h; cases h; rfl
  | cons e es ih =>
    simp only [prun] at h
    split at h
    · rename_i p1 h1
      rw [ih h]
      have hm : p1.m = vstep p.m e := by
        unfold pstep at h1
        split at h1
        · cases h1
        · cases h1; rfl
      rw [hm]
      unfold vstep
      cases he : evVC e with
      | none => simp [he]
      | some a => simp [he, VC.run]
    · cases h

/-- every accepted trace of the acceptor is a run of the product (the ghosts never block) -/
theorem prun_total {p : PState} {s' : State} {evs : List Event} (h : run p.s evs = .ok s') :
    ∃ p', prun p evs = .ok p' ∧ p'.s = s' := by
  induction evs generalizing p with
  | nil => simp only [run] at h; cases h; exact ⟨p, rfl, rfl⟩
  | cons e es ih =>
    simp only [run] at h
    split at h
    · rename_i s1 h1
      have : ∃ p1, pstep p e = .ok p1 ∧ p1.s = s1 := by
        unfold pstep; rw [h1]; exact ⟨_, rfl, rfl⟩
      obtain ⟨p1, hp1, hp2⟩ := this
      subst hp2
      obtain ⟨p', h2, h3⟩ := ih h
      exact ⟨p', by simp only [prun, hp1]; exact h2, h3⟩
    · cases h

theorem preachable_s {p : PState} (h : PReachable p) : Reachable p.s := by
  obtain ⟨evs, he⟩ := h
  exact ⟨evs, prun_s he⟩

theorem preachable_step {p p' : PState} {e : Event} (hr : PReachable p) (h : pstep p e = .ok p') :
    PReachable p' := by
  obtain ⟨evs, he⟩ := hr
  refine ⟨evs ++ [e], ?_⟩
  have : ∀ (p0 : PState) (l : List Event), prun p0 l = .ok p → prun p0 (l ++ [e]) = .ok p' := by
    intro p0 l
    induction l generalizing p0 with
    | nil => intro h0; simp only [prun] at h0; cases h0; simp [prun, h]
    | cons x xs ih =>
      intro h0
      simp only [prun, List.cons_append] at h0 ⊢
      split at h0
      · rename_i p1 hp1; exact ih _ h0
      · cases h0
  exact this _ _ he

theorem vinv_of_preachable {p : PState} (h : PReachable p) : VInv p := by
  obtain ⟨evs, he⟩ := h
  have : ∀ (l : List Event) (p0 : PState), PReachable p0 → VInv p0 → prun p0 l = .ok p → VInv p := by
    intro l
    induction l with
    | nil => intro p0 _ hv h; simp only [prun] at h; cases h; exact hv
    | cons x xs ih =>
      intro p0 hr hv h
      simp only [prun] at h
      split at h
      · rename_i p1 h1
        exact ih p1 (preachable_step hr h1) (vinv_step (preachable_s hr) hv h1) h
      · cases h
  exact this evs pinit ⟨[], rfl⟩ vinv_init he

end Counter
