import NsyncVerif.Proofs.MuCInv6Scan
/-
  MuC, ring invariant: a record on no list changes its contents; a record is queued at either end of
  mu->waiters (nsync_maybe_merge_conditions_ + make_last / make_first); a waiter removes itself
  (nsync_remove_from_mu_queue_ from mu_try_acquire_after_timeout_or_cancel).
-/
namespace NsyncVerif.MuC

/-- The contents of record `k`, which is on no list, change. -/
theorem Inv6.reset {s s1 : State} (k : Wid) (h : Inv6 s) (hnq : ¬ Queued s k) (hq : s1.queue = s.queue) (hpc : s1.pc = s.pc)
    (hca : s1.cargs = s.cargs) (hwr : ∀ x, x ≠ k → s1.wr x = s.wr x) (hl : (s1.wr k).lnk = false)
    (hc : CondOk s.cargs (s1.wr k).cond) : Inv6 s1 := by
  have hQ : ∀ x, Queued s1 x ↔ Queued s x := fun x => by simp only [Queued, hq, hpc]
  have hcg : ∀ l, (∀ x, x ∈ l → Queued s x) → Chain s.wr l → Chain s1.wr l := by
    intro l hl' hch
    refine chain_congr (fun x hx => ?_) (fun x hx => ?_) hch <;>
      rw [hwr x (fun e => hnq (e ▸ hl' x hx))]
  refine ⟨?_, ?_, ?_, ?_, ?_⟩
  · rw [hq]; exact hcg _ (fun x hx => Or.inl hx) h.cq
  · intro u sc hu
    rw [hpc] at hu
    have hm : ∀ x, x ∈ sc.lists → Queued s x := fun x hx => Or.inr ⟨u, sc, hu, hx⟩
    refine ⟨hcg _ (fun x hx => hm x (by simp [Scan.lists, hx])) (h.cs u sc hu).1,
            hcg _ (fun x hx => hm x ?_) (h.cs u sc hu).2⟩
    simp only [Scan.lists, List.mem_append] at hx ⊢
    rcases hx with a | a
    · exact Or.inl (Or.inr a)
    · exact Or.inr a
  · intro x hx
    by_cases e : x = k
    · subst e; rw [hl] at hx; cases hx
    · rw [hwr x e] at hx; exact (hQ x).2 (h.off x hx)
  · intro x
    rw [hca]
    by_cases e : x = k
    · subst e; exact hc
    · rw [hwr x e]; exact h.cwr x
  · intro u c hu; rw [hca]; rw [hpc] at hu; exact h.cmw u c hu

/-- … and `t`, whose record it is, moves on. -/
theorem Inv6.resetPc {s : State} (t : Tid) (k : Wid) (p : PC) (rec : WRec) (h : Inv6 s) (hnq : ¬ Queued s k)
    (hl : rec.lnk = false) (hc : CondOk s.cargs rec.cond) (hsc : p.scan? = none) (hst : (s.pc t).scan? = none)
    (hmw : ∀ c, p.mw = some c → ∃ c0, (s.pc t).mw = some c0 ∧ c.cond = c0.cond) :
    Inv6 { setPc s t p with wr := setFn s.wr k rec } := by
  have h1 : Inv6 { s with wr := setFn s.wr k rec } :=
    Inv6.reset k h hnq rfl rfl rfl (by intro x hx; simp [setFn, hx]) (by simpa [setFn] using hl) (by simpa [setFn] using hc)
  refine Inv6.local t h1 rfl (fun x => ⟨rfl, rfl⟩) rfl (by intro u hu; simp [setFn, hu]) (by simp [hsc, hst]) ?_
  intro c hc'
  simp only [setPc_pc, setFn_same] at hc'
  exact hmw c hc'

theorem chain_single {wr : Wid → WRec} {k : Wid} (h : (wr k).lnk = false) : Chain wr [k] := h

/-- Record `k`, on no list, is queued at the back (`first`) or at the front of mu->waiters by `t`. -/
theorem Inv6.enqueue {s1 : State} (t : Tid) (k : Wid) (p : PC) (first : Prop) [Decidable first] (h : Inv6 s1)
    (hnd : ∀ u, (s1.queue ++ (s1.pc u).priv).Nodup) (hk : ¬ Queued s1 k) (hsc : p.scan? = none) (hst : (s1.pc t).scan? = none)
    (hmw : ∀ c, p.mw = some c → ∃ c0, (s1.pc t).mw = some c0 ∧ c.cond = c0.cond) :
    Inv6 (setPc (if first then enqLast s1 k else enqFirst s1 k) t p) := by
  have hkq : k ∉ s1.queue := fun e => hk (Or.inl e)
  have hkl : (s1.wr k).lnk = false := by
    cases e : (s1.wr k).lnk with
    | false => rfl
    | true => exact absurd (h.off k e) hk
  have hqnd : s1.queue.Nodup := (List.nodup_append.mp (hnd t)).1
  -- the merged state
  have key : ∀ (p' n' : Option Wid) (newq : List Wid),
      (Chain (mergeLinks s1 p' n').wr newq) →
      (∀ a, p' = some a → a = k ∨ a ∈ s1.queue) →
      (∀ x, x ∈ newq ↔ x = k ∨ x ∈ s1.queue) →
      Inv6 (setPc { mergeLinks s1 p' n' with queue := newq } t p) := by
    intro p' n' newq hch hp' hmem
    have hscan : ∀ u, ((setPc { mergeLinks s1 p' n' with queue := newq } t p).pc u).scan? = (s1.pc u).scan? := by
      intro u
      by_cases e : u = t
      · subst e; simp [hsc, hst]
      · simp [setFn, e]
    have hQ : ∀ x, Queued (setPc { mergeLinks s1 p' n' with queue := newq } t p) x ↔ x = k ∨ Queued s1 x := by
      intro x
      simp only [Queued, hscan]
      show (x ∈ newq ∨ _) ↔ _
      rw [hmem]
      constructor
      · rintro ((a | a) | a)
        · exact Or.inl a
        · exact Or.inr (Or.inl a)
        · exact Or.inr (Or.inr a)
      · rintro (a | a | a)
        · exact Or.inl (Or.inl a)
        · exact Or.inl (Or.inr a)
        · exact Or.inr a
    refine ⟨hch, ?_, ?_, ?_, ?_⟩
    · intro u sc hu
      rw [hscan] at hu
      have hndu := hnd u
      simp only [PC.priv, hu] at hndu
      have hdj := (List.nodup_append.mp hndu).2.2
      have hno : ∀ a, p' = some a → a ∉ sc.lists := by
        intro a ha e
        rcases hp' a ha with rfl | hq
        · exact hk (Or.inr ⟨u, sc, hu, e⟩)
        · exact hdj a hq a e rfl
      refine ⟨chain_mergeLinks_other (fun a ha e => hno a ha (by simp [Scan.lists, e])) (h.cs u sc hu).1,
              chain_mergeLinks_other (fun a ha e => hno a ha ?_) (h.cs u sc hu).2⟩
      simp only [Scan.lists, List.mem_append] at e ⊢
      rcases e with a' | a'
      · exact Or.inl (Or.inr a')
      · exact Or.inr a'
    · intro x hx
      rw [hQ]
      by_cases e : p' = some x
      · rcases hp' x e with a | a
        · exact Or.inl a
        · exact Or.inr (Or.inl a)
      · have : ((mergeLinks s1 p' n').wr x).lnk = true := hx
        rw [mergeLinks_wr_other _ _ _ x e] at this
        exact Or.inr (h.off x this)
    · intro x
      have : ((mergeLinks s1 p' n').wr x).cond = (s1.wr x).cond := mergeLinks_cond _ _ _ x
      show CondOk (mergeLinks s1 p' n').cargs ((mergeLinks s1 p' n').wr x).cond
      rw [this, mergeLinks_cargs]; exact h.cwr x
    · intro u c hu
      show CondOk (mergeLinks s1 p' n').cargs c.cond
      rw [mergeLinks_cargs]
      by_cases e : u = t
      · subst e
        simp only [setPc_pc, setFn_same] at hu
        obtain ⟨c0, h0, e0⟩ := hmw c hu
        rw [e0]; exact h.cmw u c0 h0
      · have hu' : (s1.pc u).mw = some c := by simpa [setFn, e] using hu
        exact h.cmw u c hu'
  by_cases hfirst : first
  · simp only [hfirst, if_true, enqLast]
    refine key _ _ _ ?_ ?_ ?_
    · have := chain_append_merge (s := s1) (l1 := s1.queue) (l2 := [k])
        (List.nodup_append.mpr ⟨hqnd, by simp, by intro a ha b hb e; simp at hb; subst hb; subst e; exact hkq ha⟩)
        h.cq (chain_single hkl) h.ce
      simpa using this
    · intro a ha; exact Or.inr (List.mem_of_getLast? ha)
    · intro x; simp [or_comm]
  · simp only [hfirst, if_false, enqFirst]
    refine key _ _ _ ?_ ?_ ?_
    · have := chain_append_merge (s := s1) (l1 := [k]) (l2 := s1.queue)
        (List.nodup_append.mpr ⟨by simp, hqnd, by intro a ha b hb e; simp at ha; subst ha; subst e; exact hkq hb⟩)
        (chain_single hkl) h.cq h.ce
      simpa using this
    · intro a ha; cases ha; exact Or.inl rfl
    · intro x; simp

theorem Inv6.enqLast {s1 : State} (t : Tid) (k : Wid) (p : PC) (h : Inv6 s1)
    (hnd : ∀ u, (s1.queue ++ (s1.pc u).priv).Nodup) (hk : ¬ Queued s1 k) (hsc : p.scan? = none) (hst : (s1.pc t).scan? = none)
    (hmw : ∀ c, p.mw = some c → ∃ c0, (s1.pc t).mw = some c0 ∧ c.cond = c0.cond) :
    Inv6 (setPc (MuC.enqLast s1 k) t p) := by
  have := Inv6.enqueue t k p True h hnd hk hsc hst hmw
  simpa using this

theorem Inv6.enqFirst {s1 : State} (t : Tid) (k : Wid) (p : PC) (h : Inv6 s1)
    (hnd : ∀ u, (s1.queue ++ (s1.pc u).priv).Nodup) (hk : ¬ Queued s1 k) (hsc : p.scan? = none) (hst : (s1.pc t).scan? = none)
    (hmw : ∀ c, p.mw = some c → ∃ c0, (s1.pc t).mw = some c0 ∧ c.cond = c0.cond) :
    Inv6 (setPc (MuC.enqFirst s1 k) t p) := by
  have := Inv6.enqueue t k p False h hnd hk hsc hst hmw
  simpa using this

/-! ### self-removal -/

theorem predNext_append (l1 : List Wid) (k : Wid) (l2 : List Wid) (prev : Option Wid) (hk : k ∉ l1) :
    predNext (l1 ++ k :: l2) k prev = (l1.getLast?.or prev, l2.head?) := by
  induction l1 generalizing prev with
  | nil => simp [predNext]
  | cons x l1 ih =>
    have hx : x ≠ k := fun e => hk (by simp [e])
    have hk' : k ∉ l1 := fun e => hk (List.mem_cons_of_mem _ e)
    simp only [List.cons_append, predNext, hx, if_false]
    rw [ih (some x) hk']
    cases l1 with
    | nil => simp
    | cons y r =>
      have : ((y :: r).getLast?).isSome = true := by simp
      cases hg : (y :: r).getLast? with
      | none => rw [hg] at this; cases this
      | some z => simp [hg]

theorem Inv6.selfRemove {s : State} (t : Tid) (k : Wid) (p : PC) (h : Inv6 s) (h4 : Inv4 s) (hk : k ∈ s.queue)
    (hsc : p.scan? = none) (hst : (s.pc t).scan? = none)
    (hmw : ∀ c, p.mw = some c → ∃ c0, (s.pc t).mw = some c0 ∧ c.cond = c0.cond) :
    Inv6 (setPc (dequeue s k) t p) := by
  obtain ⟨l1, l2, hq⟩ := List.append_of_mem hk
  have hqnd : s.queue.Nodup := by
    have := h4.nd t; simp only [allOf, List.append_assoc] at this; exact (List.nodup_append.mp this).1
  have hnd' := hqnd; rw [hq] at hnd'
  have hk1 : k ∉ l1 := fun e => (List.nodup_append.mp hnd').2.2 k e k (by simp) rfl
  have hk2 : k ∉ l2 := (List.nodup_cons.mp (List.nodup_append.mp hnd').2.1).1
  have hpn : predNext s.queue k none = (l1.getLast?, l2.head?) := by
    rw [hq, predNext_append l1 k l2 none hk1]; simp
  have her : s.queue.erase k = l1 ++ l2 := by
    rw [hq, List.erase_append_right _ hk1]; simp
  have hdq : dequeue s k = { removeLinks s l1.getLast? k l2.head? with queue := l1 ++ l2 } := by
    simp only [dequeue, hpn, her]
  rw [hdq]
  obtain ⟨c1, c2⟩ := chain_remove hnd' (by rw [← hq]; exact h.cq) h.ce
  have hscan : ∀ u, ((setPc { removeLinks s l1.getLast? k l2.head? with queue := l1 ++ l2 } t p).pc u).scan? = (s.pc u).scan? := by
    intro u
    by_cases e : u = t
    · subst e; simp [hsc, hst]
    · simp [setFn, e]
  have hQ : ∀ x, x ≠ k → Queued s x → Queued (setPc { removeLinks s l1.getLast? k l2.head? with queue := l1 ++ l2 } t p) x := by
    intro x hxk hx
    simp only [Queued, hscan]
    rcases hx with a | a
    · left
      show x ∈ l1 ++ l2
      rw [hq] at a
      simp only [List.mem_append, List.mem_cons] at a ⊢
      rcases a with a | a | a
      · exact Or.inl a
      · exact absurd a hxk
      · exact Or.inr a
    · exact Or.inr a
  refine ⟨c1, ?_, ?_, ?_, ?_⟩
  · intro u sc hu
    rw [hscan] at hu
    have hkn : k ∉ sc.lists := fun e => h4.not_in_priv hk u (mem_priv_iff.2 ⟨sc, hu, e⟩)
    have hpn' : ∀ a, l1.getLast? = some a → a ∉ sc.lists := by
      intro a ha e
      have : a ∈ s.queue := by rw [hq]; exact List.mem_append_left _ (List.mem_of_getLast? ha)
      exact h4.not_in_priv this u (mem_priv_iff.2 ⟨sc, hu, e⟩)
    refine ⟨chain_removeLinks_other (fun e => hkn (by simp [Scan.lists, e])) (fun a ha e => hpn' a ha (by simp [Scan.lists, e])) (h.cs u sc hu).1,
            chain_removeLinks_other (fun e => hkn ?_) (fun a ha e => hpn' a ha ?_) (h.cs u sc hu).2⟩
    all_goals
      (simp only [Scan.lists, List.mem_append] at e ⊢
       rcases e with a' | a'
       · exact Or.inl (Or.inr a')
       · exact Or.inr a')
  · intro x hx
    have hx' : ((removeLinks s l1.getLast? k l2.head?).wr x).lnk = true := hx
    by_cases hxk : x = k
    · subst hxk; rw [c2] at hx'; cases hx'
    · by_cases hxp : l1.getLast? = some x
      · left; show x ∈ l1 ++ l2
        exact List.mem_append_left _ (List.mem_of_getLast? hxp)
      · rw [removeLinks_wr_other _ _ _ _ x hxk hxp] at hx'
        exact hQ x hxk (h.off x hx')
  · intro x
    show CondOk (removeLinks s l1.getLast? k l2.head?).cargs ((removeLinks s l1.getLast? k l2.head?).wr x).cond
    rw [removeLinks_cond, removeLinks_cargs]; exact h.cwr x
  · intro u c hu
    show CondOk (removeLinks s l1.getLast? k l2.head?).cargs c.cond
    rw [removeLinks_cargs]
    by_cases e : u = t
    · subst e
      simp only [setPc_pc, setFn_same] at hu
      obtain ⟨c0, h0, e0⟩ := hmw c hu
      rw [e0]; exact h.cmw u c0 h0
    · have hu' : (s.pc u).mw = some c := by simpa [setFn, e] using hu
      exact h.cmw u c hu'

end NsyncVerif.MuC
