/-
Layer `Dll` (C17): under the documented contract no operation dereferences `NULL`
(every pointer the C code reads or writes through is an element of one of the rings involved).
-/
import NsyncVerif.Proofs.DllSpec

namespace Dll

theorem remove_no_null {H : Heap} {l e : Addr} {xs : List Addr} (hr : Repr H l xs) (he : e ∈ xs) :
    ∀ a ∈ removeDerefs H l e, a ∈ xs ∧ a ≠ 0 := by
  obtain ⟨hring, hlast⟩ := hr.ring (List.ne_nil_of_mem he)
  have h1 := hring.next_mem he
  have h2 := hring.prev_mem he
  have hl := List.mem_of_getLast? hlast
  intro a ha
  have : a ∈ xs := by
    simp only [removeDerefs, List.mem_append, List.mem_cons] at ha
    split at ha <;> simp at ha <;> grind
  exact ⟨this, hring.ne_zero this⟩

theorem splice_no_null {H : Heap} {p n : Addr} {ps ns : List Addr}
    (hp : Ring H ps) (hn : Ring H ns) (hpm : p ∈ ps) (hnm : n ∈ ns) :
    ∀ a ∈ spliceAfterDerefs H p n, (a ∈ ps ∨ a ∈ ns) ∧ a ≠ 0 := by
  have h1 := hp.next_mem hpm
  have h2 := hn.prev_mem hnm
  intro a ha
  have : a ∈ ps ∨ a ∈ ns := by
    simp only [spliceAfterDerefs, List.mem_cons] at ha
    grind
  exact ⟨this, this.elim (fun h => hp.ne_zero h) (fun h => hn.ne_zero h)⟩

theorem makeFirst_no_null {H : Heap} {l e : Addr} {xs es : List Addr}
    (hr : Repr H l xs) (he : Ring H es) (hem : e ∈ es) :
    ∀ a ∈ makeFirstDerefs H l e, (a ∈ xs ∨ a ∈ es) ∧ a ≠ 0 := by
  intro a ha
  unfold makeFirstDerefs at ha
  split at ha
  · split at ha
    · simp only [List.mem_singleton] at ha
      subst ha
      exact ⟨Or.inr hem, he.ne_zero hem⟩
    · rename_i hl0
      have hxs : xs ≠ [] := fun h => hl0 (hr.handle_eq_zero_iff.mpr h)
      obtain ⟨hring, hlast⟩ := hr.ring hxs
      exact splice_no_null hring he (List.mem_of_getLast? hlast) hem a ha
  · simp at ha

theorem makeLast_no_null {H : Heap} {l e : Addr} {xs es : List Addr}
    (hr : Repr H l xs) (he : Ring H es) (hem : e ∈ es) :
    ∀ a ∈ makeLastDerefs H l e, (a ∈ xs ∨ a ∈ es) ∧ a ≠ 0 := by
  intro a ha
  unfold makeLastDerefs at ha
  split at ha
  · simp only [List.mem_cons] at ha
    rcases ha with rfl | ha
    · exact ⟨Or.inr hem, he.ne_zero hem⟩
    · exact makeFirst_no_null hr he (he.next_mem hem) a ha
  · simp at ha

theorem traversal_no_null {H : Heap} {l : Addr} {xs : List Addr} (hr : Repr H l xs) :
    (∀ a ∈ firstDerefs l, a ≠ 0) ∧
    (∀ e ∈ xs, ∀ a ∈ nextDerefs l e, a ≠ 0) ∧
    (∀ e ∈ xs, ∀ a ∈ prevDerefs H l e, a ≠ 0) := by
  refine ⟨?_, ?_, ?_⟩
  · intro a ha
    simp only [firstDerefs] at ha
    split at ha <;> simp at ha
    subst ha; assumption
  · intro e he a ha
    simp only [nextDerefs] at ha
    split at ha <;> simp at ha
    subst ha
    exact fun h => hr.zero_not_mem (h ▸ he)
  · intro e he a ha
    have hl : l ≠ 0 := fun h => List.ne_nil_of_mem he (hr.handle_eq_zero_iff.mp h)
    have he0 : e ≠ 0 := fun h => hr.zero_not_mem (h ▸ he)
    simp only [prevDerefs, List.mem_cons] at ha
    rcases ha with rfl | ha
    · exact hl
    · split at ha <;> simp at ha
      subst ha; exact he0

end Dll
