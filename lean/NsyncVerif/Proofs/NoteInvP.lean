/-
  Layer `Note`, invariant P (creation-time paths): the ghost list `ancEver n` is exactly the chain
  of creation-time parents of `n` (`cparent`), and the ghost `pathMin n` — what `nsync_note_new`
  is meant to store in `expiry_time` — is the minimum, over that chain, of the deadlines passed to
  `nsync_note_new` (`ownDl`).
-/
import NsyncVerif.Proofs.NoteInvX2

set_option linter.unusedSimpArgs false

namespace Note

/-- Minimum of a list of deadlines (`none` = `nsync_time_no_deadline`, the top element). -/
def Dl.minList : List Dl → Dl
  | [] => none
  | d :: ds => Dl.min d (Dl.minList ds)

/-- The deadlines passed to `nsync_note_new` for `n` and for the notes on its creation-time path
    to the root. -/
def State.pathDeadlines (s : State) (n : NoteId) : List Dl := (s.ancEver n).map s.ownDl

theorem Dl.min_none_right (a : Dl) : Dl.min a none = a := by
  cases a <;> simp [Dl.min, Dl.lt]

theorem Dl.min_cases (a b : Dl) : Dl.min a b = a ∨ Dl.min a b = b := by
  unfold Dl.min; split
  · right; rfl
  · left; rfl

/-- `Dl.min a b` is below both arguments. -/
theorem Dl.min_le_left (a b : Dl) : Dl.lt a (Dl.min a b) = false := by
  unfold Dl.min; split
  · next h =>
    cases a <;> cases b <;> simp_all [Dl.lt]
    omega
  · cases a <;> simp [Dl.lt]

theorem Dl.min_le_right (a b : Dl) : Dl.lt b (Dl.min a b) = false := by
  unfold Dl.min; split
  · cases b <;> simp [Dl.lt]
  · next h => simpa using h

theorem Dl.lt_trans_false {a b c : Dl} (h1 : Dl.lt b a = false) (h2 : Dl.lt c b = false) :
    Dl.lt c a = false := by
  cases a <;> cases b <;> cases c <;> simp_all [Dl.lt]
  omega

/-- The minimum of a non-empty list is one of its elements … -/
theorem Dl.minList_mem {l : List Dl} (h : l ≠ []) : Dl.minList l ∈ l := by
  induction l with
  | nil => exact absurd rfl h
  | cons d ds ih =>
    simp only [Dl.minList]
    cases ds with
    | nil => simp [Dl.minList, Dl.min_none_right]
    | cons d' ds' =>
      rcases Dl.min_cases d (Dl.minList (d' :: ds')) with h1 | h1
      · rw [h1]; exact List.mem_cons_self
      · rw [h1]; exact List.mem_cons_of_mem _ (ih (by simp))

/-- … and no element is smaller. -/
theorem Dl.minList_le {l : List Dl} {d : Dl} (h : d ∈ l) : Dl.lt d (Dl.minList l) = false := by
  induction l with
  | nil => cases h
  | cons x xs ih =>
    simp only [Dl.minList]
    rcases List.mem_cons.mp h with h | h
    · subst h; exact Dl.min_le_left _ _
    · exact Dl.lt_trans_false (Dl.min_le_right _ _) (ih h)

/-- `cparent` is written once, by the `malloc` that creates the note. -/
theorem step_cparent {s s' : State} {e : Event} (hs : step s e = .ok s') (n : NoteId)
    (hn : (s.notes n).allocated = true) : s'.cparent n = s.cparent n := by
  cases e
  all_goals step_cases hs
  all_goals (try rfl)
  all_goals (try (simp; done))
  all_goals (repeat' split)
  all_goals (try (simp; done))
  · rename_i k hfresh
    have hne : n ≠ k := fun h => by subst h; simp [hn] at hfresh
    simp [upd_apply, hne]

structure InvP (s : State) : Prop where
  /-- the creation-time parent is an allocated note -/
  par : ∀ n p, (s.notes n).allocated = true → s.cparent n = some p → (s.notes p).allocated = true
  /-- the creation-time path of a note: the note, then the path of its creation-time parent -/
  path : ∀ n, (s.notes n).allocated = true → s.ancEver n = n :: s.ancOf (s.cparent n)
  /-- the ghost minimum is the minimum of the creation deadlines over that path -/
  min : ∀ n, (s.notes n).allocated = true → s.pathMin n = Dl.minList (s.pathDeadlines n)

theorem InvP.init : InvP Note.init := by
  refine ⟨?_, ?_, ?_⟩ <;> simp [Note.init, NoteRec.blank]

theorem step_invP {s s' : State} {e : Event} (hS : InvS s) (hP : InvP s)
    (hs : step s e = .ok s') : InvP s' := by
  have hst := step_stable hs
  -- the deadlines along the path of an old note are unchanged
  have hmap : ∀ n, (s.notes n).allocated = true →
      (s.ancEver n).map s'.ownDl = (s.ancEver n).map s.ownDl := by
    intro n _
    apply List.map_congr_left
    intro a ha
    exact (hst.ghost a (hS.anc n a ha)).1
  refine ⟨?_, ?_, ?_⟩
  · intro n p hn hc
    cases h0 : (s.notes n).allocated with
    | true =>
      rw [step_cparent hs n h0] at hc
      exact hst.alloc p (hP.par n p h0 hc)
    | false =>
      rcases step_alloc hs n hn with h | ⟨a, par, dl, _, hpc, _, _, _, _, _, _, _, hcp⟩
      · rw [h0] at h; cases h
      · rw [hcp] at hc
        have hcl := hS.claim a
        rw [hpc] at hcl
        exact hst.alloc p (hcl p hc)
  · intro n hn
    cases h0 : (s.notes n).allocated with
    | true =>
      rw [(hst.ghost n h0).2.1, step_cparent hs n h0, hP.path n h0]
      cases hc : s.cparent n with
      | none => rfl
      | some p =>
        simp only [State.ancOf]
        rw [(hst.ghost p (hP.par n p h0 hc)).2.1]
    | false =>
      rcases step_alloc hs n hn with h | ⟨a, par, dl, _, hpc, _, _, _, han, _, _, _, hcp⟩
      · rw [h0] at h; cases h
      · rw [han, hcp]
        cases par with
        | none => rfl
        | some p =>
          have hc := hS.claim a
          rw [hpc] at hc
          simp only [State.ancOf]
          rw [(hst.ghost p (hc p rfl)).2.1]
  · intro n hn
    unfold State.pathDeadlines
    cases h0 : (s.notes n).allocated with
    | true =>
      rw [(hst.ghost n h0).2.2, (hst.ghost n h0).2.1, hmap n h0]
      exact hP.min n h0
    | false =>
      rcases step_alloc hs n hn with h | ⟨a, par, dl, _, hpc, _, _, hod, han, hpm, _⟩
      · rw [h0] at h; cases h
      · rw [hpm, han]
        simp only [List.map_cons, Dl.minList, hod]
        cases par with
        | none => simp [State.ancOf, State.minOf, Dl.minList, Dl.min_none_right]
        | some p =>
          have hc := hS.claim a
          rw [hpc] at hc
          have hp := hc p rfl
          simp only [State.ancOf, State.minOf]
          rw [hmap p hp, hP.min p hp]
          rfl

theorem Reachable.invP {s : State} (h : Reachable s) : InvP s := by
  refine Reachable.induction (P := InvP) InvP.init ?_ s h
  intro s e s' hr hP hs
  exact step_invP hr.inv.2.2.1 hP hs

end Note
