import NsyncVerif.Proofs.MuCInv11
/-
  MuC, Inv11: tactics for local steps; loads.
-/
namespace NsyncVerif.MuC

macro "pc11" heq:ident : tactic => `(tactic|
  (try rw [$heq:ident]
   (simp_all [PC.rKeep, PC.srKeep, PC.unl, PC.woken, PC.timedOut, pcShare, PC.waitRec, PC.hlRec, PC.mtOld, Ret.w?, setFn, loopPc, finPc,
      Ret.pc, SL.entry, SL.fromWait, SL.woken, PC.ok, MW.ok, MW.inner, Ret.ok, SL.okL]) <;> grind))

/-- `s'.word.desig → s.word.desig` for the word updates that keep or clear MU_DESIG_WAKER -/
macro "word_desig" : tactic => `(tactic|
  first
  | (simp; done)
  | (simp_all [acqWord, addWord, relUncWord, relNwWord, subWord, enqWord, mwEnqWord, mtAcqWord]; done)
  | (simp_all [acqWord, addWord, relUncWord, relNwWord, subWord, enqWord, mwEnqWord, mtAcqWord] <;>
      (repeat' split) <;> simp_all))

macro "inv11_local" t:ident h1:ident h:ident heq:ident : tactic => `(tactic|
  (have hok := ($h1).pcok $t
   rw [$heq:ident] at hok
   refine Inv11.localPc $t $h ?_ ?_ (by simp) (by simp) ?_ (by intro u; simp) ?_ ?_ ?_
   · intro k
     exact (queued_same (t := $t) (by simp) (by intro u hu; simp [setFn, hu])
        (by rw [$heq:ident]; simp [setFn, PC.scan?, loopPc, finPc, Ret.pc] <;> (repeat' split) <;> simp [PC.scan?]) k).1
   · intro x _; (simp [setFn]) <;> (try split) <;> simp_all
   · intro u hu; simp [setFn, hu]
   · word_desig
   · intro old ho
     first
     | (left; revert ho; pc11 $heq)
     | (right; revert ho; pc11 $heq)
   · pc11 $heq))


/-- As `inv11_local`, for a step on which `t` may stop being responsible: the goals about `t` remain. -/
macro "inv11_loc2" t:ident h1:ident h:ident heq:ident : tactic => `(tactic|
  (have hok := ($h1).pcok $t
   rw [$heq:ident] at hok
   refine Inv11.local $t $h ?_ ?_ (by simp) (by first | (simp; done) | (intro a; simp at a; exact a.1)) ?_ (by intro u hu; first | (simp; done) | simp [setFn, hu]) ?_ ?_ ?_ ?_
   · intro k
     exact (queued_same (t := $t) (by simp) (by intro u hu; simp [setFn, hu])
        (by rw [$heq:ident]; simp [setFn, PC.scan?, loopPc, finPc, Ret.pc] <;> (repeat' split) <;> simp [PC.scan?]) k).1
   · intro x _; (simp [setFn]) <;> (try split) <;> simp_all
   · intro u hu; simp [setFn, hu]
   · intro hdd; left; revert hdd; word_desig
   · intro old ho
     first
     | (left; revert ho; pc11 $heq)
     | (right; revert ho; pc11 $heq)))

macro "ld_case11" t:ident h1:ident h:ident heq:ident hs:ident : tactic => `(tactic|
  (try dsimp only at $hs:ident
   try simp only [ldWord, ldWaiting] at $hs:ident
   repeat' split at $hs:ident
   all_goals first
     | (cases $hs:ident; done)
     | (cases $hs:ident; inv11_local $t $h1 $h $heq)
     | (cases $hs:ident; split <;> inv11_local $t $h1 $h $heq)))

theorem inv11_stepLd {s s' : State} {t : Tid} {o : Ord} {loc : Loc} {obs : Nat} (h1 : Inv1 s) (h3 : Inv3 s) (h : Inv11 s)
    (hs : stepLd s t o loc obs = .ok s') : Inv11 s' := by
  unfold stepLd at hs
  split at hs
  all_goals first
    | (rename_i heq; ld_case11 t h1 h heq hs)
    | skip
  rename_i c old heq
  dsimp only at hs
  repeat' split at hs
  all_goals first
    | (cases hs; done)
    | (cases hs; inv11_local t h1 h heq)
    | skip
  rename_i k hk _ _ _ _ hmem
  cases hs
  have hlo : LnkOnly s (setPc (dequeue s k) t (PC.mtRmLd c old)) := lnkOnly_removeLinks _ _ _ _
  have hsc : ∀ u, ((setPc (dequeue s k) t (PC.mtRmLd c old)).pc u).scan? = (s.pc u).scan? := by
    intro u; by_cases hu : u = t
    · subst hu; simp [heq, PC.scan?]
    · simp [dequeue, setFn, hu]
  have hQsub : ∀ x, Queued (setPc (dequeue s k) t (PC.mtRmLd c old)) x → Queued s x := by
    intro x hx
    refine queued_mono (s := s) ?_ hsc hx
    intro y hy; simp [dequeue] at hy; exact List.mem_of_mem_erase hy
  have hheld : s.held t = none := h1.held_none (by rw [heq]; simp)
  refine Inv11.local t h hQsub (fun x _ => (hlo x).2.2.2.2.1) (by simp [dequeue]) (by simp [dequeue])
    (by intro u hu; simp [dequeue, setFn, hu]) (by intro u _; simp [dequeue]) (by intro a; left; simpa [dequeue] using a) ?_ ?_ ?_
  · intro o' ho; left; simpa [heq, PC.mtOld] using ho
  · right
    rintro (a | a | ⟨k', a, _, b⟩)
    · rw [heq] at a; simp [PC.unl] at a
    · rw [heq] at a; simp [PC.woken] at a
    · rw [heq] at a; simp only [PC.waitRec, hk, Option.some.injEq] at a
      subst a
      exact absurd (Or.inl hmem) b
  · intro _ _; right; left
    simp [shareOf, tshare, dequeue, hheld, pcShare]

end NsyncVerif.MuC
