/-
  Layer `CvFix` (cv.c with the repair of F3; adapted from the `Cv` file of the same name): structural invariant — transitions that leave every record's status alone.
-/
import NsyncVerif.Proofs.CvFixInvARel

namespace NsyncVerif.CvFix

/-- Status-preserving change of the records. -/
def RecSame (a b : Rec) : Prop :=
  b.stat = a.stat ∧ (a.stat = .queued ∨ a.stat = .prep → b.waiting = true) ∧ (a.stat ≠ .idle → b.owner = a.owner)

theorem RecSame.refl {a : Rec} (h : a.stat = .queued ∨ a.stat = .prep → a.waiting = true) : RecSame a a := ⟨rfl, h, fun _ => rfl⟩

/-- One thread gets a new frame (same side of the spinlock, same private list), records keep their
    status, the queue and the cv word are untouched. -/
theorem invA_frame {s s' : State} {t : Tid} (hi : InvA s) (hword : s'.word = s.word) (hhold : s'.holder = s.holder)
    (hq : s'.queue = s.queue) (hthr : ∀ u, u ≠ t → s'.thr u = s.thr u)
    (h1 : (s'.thr t).loc.holds = (s.thr t).loc.holds) (h2 : (s'.thr t).list = (s.thr t).list)
    (h3 : s.holder = some t → (s'.thr t).old.spin = false ∧ ((s'.thr t).old.ne = true ↔ s.queue ≠ []))
    (hrec : ∀ q, RecSame (s.recs q) (s'.recs q)) (ht : TInvA s' t)
    (hb : (s'.thr t).bcast = true →
      ((s'.thr t).loc = .sRcLd ∨ (s'.thr t).loc = .sRcCas ∨ (s'.thr t).loc = .sRel) → s.queue = []) :
    InvA s' := by
  obtain ⟨a1, a2, a3, a4, a5, a6, a7, a8, a9, a10, a11, a12⟩ := hi
  constructor
  · rw [hword, hhold]; exact a1
  · intro u
    rw [hhold]
    by_cases hu : u = t
    · subst hu; rw [h1]; exact a2 u
    · rw [hthr u hu]; exact a2 u
  · intro u e
    rw [hhold] at e
    rw [hq]
    by_cases hu : u = t
    · subst hu; exact h3 e
    · rw [hthr u hu]; exact a3 u e
  · rw [hhold, hword, hq]; exact a4
  · rw [hq]; exact a5
  · intro r; rw [hq, (hrec r).1]; exact a6 r
  · intro r e; rw [(hrec r).1] at e; exact (hrec r).2.1 (.inl e)
  · intro u
    by_cases hu : u = t
    · subst hu; rw [h2]; exact a8 u
    · rw [hthr u hu]; exact a8 u
  · intro u r
    rw [(hrec r).1]
    by_cases hu : u = t
    · subst hu; rw [h2]; exact a9 u r
    · rw [hthr u hu]; exact a9 u r
  · intro u
    by_cases hu : u = t
    · subst hu; exact ht
    · refine tinvA_other (a10 u) (hthr u hu) ?_ ?_
      · intro q _ hq'
        exact RecOK.of_stat ((hrec q).2.2 hq') (hrec q).1 hq'
      · intro _ q e; rw [(hrec q).1]; exact e
  · intro u hb1 hb2
    rw [hq]
    by_cases hu : u = t
    · subst hu; exact hb hb1 hb2
    · rw [hthr u hu] at hb1 hb2; exact a11 u hb1 hb2
  · intro r e; rw [(hrec r).1] at e; exact (hrec r).2.1 (.inr e)

/-- No thread's frame changes, records keep their status. -/
theorem invA_recs {s s' : State} (hi : InvA s) (hword : s'.word = s.word) (hhold : s'.holder = s.holder)
    (hq : s'.queue = s.queue) (hthr : s'.thr = s.thr) (hrec : ∀ q, RecSame (s.recs q) (s'.recs q)) : InvA s' := by
  refine invA_frame (t := 0) hi hword hhold hq (fun u _ => by rw [hthr]) (by rw [hthr]) (by rw [hthr])
    (fun e => by rw [hthr]; exact hi.old 0 e) hrec ?_ (by rw [hthr]; exact hi.bq 0)
  refine tinvA_other (hi.thr 0) (by rw [hthr]) ?_ ?_
  · intro q _ hq'
    exact RecOK.of_stat ((hrec q).2.2 hq') (hrec q).1 hq'
  · intro _ q e; rw [(hrec q).1]; exact e

end NsyncVerif.CvFix
