/- Proofs/CounterFactsAll.lean — StepFacts for every step, induction principle for Reachable, record-ownership invariant. -/
import NsyncVerif.Proofs.CounterInvAll
import NsyncVerif.Proofs.CounterFactsA
import NsyncVerif.Proofs.CounterFactsB
import NsyncVerif.Proofs.CounterFactsM

namespace Counter

theorem facts_stepThr {s s' : State} {t : Tid} {e : Ev} (hi : Inv s) (h : stepThr s t e = .ok s') :
    StepFacts s t e s' := by
  cases hpc : s.pc t with
  | idle  => exact facts_idle hi hpc h
  | newMalloc a0 => exact facts_newMalloc hi hpc h
  | newStore a0 => exact facts_newStore hi hpc h
  | newRet a0 => exact facts_newRet hi hpc h
  | fLockCall  => exact facts_fLockCall hi hpc h
  | fLockWait  => exact facts_fLockWait hi hpc h
  | fHeld  => exact facts_fHeld hi hpc h
  | fUnlockWait  => exact facts_fUnlockWait hi hpc h
  | fFree  => exact facts_fFree hi hpc h
  | fRet  => exact facts_fRet hi hpc h
  | valLoad  => exact facts_valLoad hi hpc h
  | valRet a0 => exact facts_valRet hi hpc h
  | azLoad  => exact facts_azLoad hi hpc h
  | azRet a0 => exact facts_azRet hi hpc h
  | aLockCall a0 => exact facts_aLockCall hi hpc h
  | aLockWait a0 => exact facts_aLockWait hi hpc h
  | aLoad a0 => exact facts_aLoad hi hpc h
  | aCas a0 a1 => exact facts_aCas hi hpc h
  | aLoadWaited a0 a1 a2 => exact facts_aLoadWaited hi hpc h
  | aHeld a0 a1 a2 a3 => exact facts_aHeld hi hpc h
  | aPost a0 a1 a2 a3 => exact facts_aPost hi hpc h
  | aUnlockWait a0 a1 a2 => exact facts_aUnlockWait hi hpc h
  | aRet a0 a1 a2 => exact facts_aRet hi hpc h
  | w0Store a0 => exact facts_w0Store hi hpc h
  | w0Load a0 => exact facts_w0Load hi hpc h
  | wInit a0 => exact facts_wInit hi hpc h
  | wEnqLockCall a0 a1 => exact facts_wEnqLockCall hi hpc h
  | wEnqLockWait a0 a1 => exact facts_wEnqLockWait hi hpc h
  | wEnqLoad a0 a1 => exact facts_wEnqLoad hi hpc h
  | wEnqStore a0 a1 a2 => exact facts_wEnqStore hi hpc h
  | wEnqUnlockCall a0 a1 a2 => exact facts_wEnqUnlockCall hi hpc h
  | wEnqUnlockWait a0 a1 a2 => exact facts_wEnqUnlockWait hi hpc h
  | wLoopStore a0 a1 => exact facts_wLoopStore hi hpc h
  | wLoopLoad a0 a1 => exact facts_wLoopLoad hi hpc h
  | wPdEnter a0 a1 => exact facts_wPdEnter hi hpc h
  | wPdWait a0 a1 a2 => exact facts_wPdWait hi hpc h
  | wDeqLockCall a0 a1 a2 => exact facts_wDeqLockCall hi hpc h
  | wDeqLockWait a0 a1 a2 => exact facts_wDeqLockWait hi hpc h
  | wDeqLoadV a0 a1 a2 => exact facts_wDeqLoadV hi hpc h
  | wDeqLoadW a0 a1 a2 a3 => exact facts_wDeqLoadW hi hpc h
  | wDeqStore a0 a1 a2 a3 => exact facts_wDeqStore hi hpc h
  | wDeqUnlockCall a0 a1 a2 a3 => exact facts_wDeqUnlockCall hi hpc h
  | wDeqUnlockWait a0 a1 a2 a3 => exact facts_wDeqUnlockWait hi hpc h
  | wFinalLoad a0 => exact facts_wFinalLoad hi hpc h
  | wRet a0 a1 => exact facts_wRet hi hpc h

theorem Reachable.induct {P : State → Prop} (h0 : P init)
    (hstep : ∀ s e s', Reachable s → P s → step s e = .ok s' → P s') {s : State} (h : Reachable s) : P s := by
  obtain ⟨evs, he⟩ := h
  have : ∀ (l : List Event) (s0 : State), Reachable s0 → P s0 → run s0 l = .ok s → P s := by
    intro l
    induction l with
    | nil => intro s0 _ hp h; simp only [run] at h; cases h; exact hp
    | cons x xs ih =>
      intro s0 hr hp h
      simp only [run] at h
      split at h
      · rename_i s1 hs1; exact ih s1 (reachable_step hr hs1) (hstep _ _ _ hr hp hs1) h
      · cases h
  exact this evs init ⟨[], rfl⟩ h0 he

/-- every live record is referred to by the program counter of its owner -/
def RecsInv (s : State) : Prop :=
  ∀ k, (s.sh.nw k).live = true → pcNw (s.pc (s.sh.nw k).owner) = some k

theorem recs_step {s s' : State} {e : Event} (hi : Inv s) (hr : RecsInv s) (h : step s e = .ok s') :
    RecsInv s' := by
  cases e with
  | tick ns =>
    simp only [step] at h
    split at h
    · cases h; exact hr
    · cases h
  | thr t ev =>
    have f := facts_stepThr hi h
    intro k hk
    rcases f.recs k hk with ⟨h1, h2, h3⟩ | ⟨h1, h2⟩
    · rw [h2]
      by_cases ho : (s.sh.nw k).owner = t
      · rw [ho]; apply h3; rw [← ho]; exact hr k h1
      · rw [f.others _ ho]; exact hr k h1
    · rw [h1]; exact h2

theorem recs_of_reachable {s : State} (h : Reachable s) : RecsInv s := by
  refine Reachable.induct (P := RecsInv) ?_ ?_ h
  · intro k hk; simp [init, Shared.init] at hk
  · intro s e s' hr hp hs; exact recs_step (inv_of_reachable hr) hp hs

end Counter
