/-
  Layer `Note`, invariant family S: the claim of the acting thread after its step.
-/
import NsyncVerif.Proofs.NoteInvS

set_option linter.unusedSimpArgs false

namespace Note

theorem dlFrom_of_ntime {s : State} (hS : InvS s) {n : NoteId}
    (hn : (s.notes n).allocated = true) {e : Nat} (he : (s.notes n).ntime = some e) (h0 : e ≠ 0) :
    DlFrom s n e := by
  unfold NoteRec.ntime at he
  split at he
  · simp at he; exact absurd he.symm h0
  · rcases hS.expiry n e hn he with h | ⟨h, _⟩
    · exact h
    · exact absurd h h0

theorem caused_of_deadline {s : State} {n : NoteId} {nt : Dl} {v : Nat}
    (h1 : ∀ e, nt = some e → e ≠ 0 → DlFrom s n e) (h2 : nt.pos) (h3 : nt.leNow v = true)
    (hv : v = s.now) : Caused s n := by
  cases nt with
  | none => simp [Dl.leNow] at h3
  | some e =>
    have h0 : e ≠ 0 := fun h => h2 (by rw [h])
    obtain ⟨a, ha, hd⟩ := h1 e rfl h0
    simp only [Dl.leNow, decide_eq_true_eq] at h3
    exact ⟨a, ha, Or.inr ⟨e, hd, hv ▸ h3⟩⟩

/-- The new program counter's claim holds already in the old state (so that it holds in the new
    one by stability), except where the step itself creates the fact (malloc, call of notify). -/
theorem SClaim.actor0 {s s' : State} {e : Event} (hS : InvS s)
    (hs : Note.step s e = .ok s') (a : Tid) (ha : e.actor = some a) :
    SClaim s (s'.pc a) ∨ SClaim s' (s'.pc a) := by
  have hc := hS.claim a
  cases e
  all_goals step_cases hs
  all_goals simp only [Event.actor, Option.some.injEq, reduceCtorEq] at ha
  all_goals (try subst ha)
  all_goals (try (rw [‹s.pc _ = _›] at hc))
  all_goals (try (simp only [setPc_pc, upd_same, afterDeadline_pc, afterNotify_pc, childReturn_pc,
    childWakeNext_pc, childScanStart_pc, acquire_f_children, freeLoopStart_pc, enterChild_pc, leave_pc, addUser_pc, markCalled_pc,
    markFreeing_pc, setAfter_pc, pushObs_pc, publish_pc, delUser_pc]))
  all_goals (try (left; simp [SClaim, DKS]; done))
  all_goals (try (left; simp_all [SClaim, NKS]; done))
  all_goals (try (left; exact SClaim.afterDeadlinePc hS hc.1))
  all_goals (try (left; exact SClaim.afterNotifyPc hS hc.1))
  all_goals (try (left; exact SClaim.childReturnPc hc))
  all_goals (try (left; exact SClaim.childWakeNextPc hS hc (by simp)))
  all_goals (try (left; exact SClaim.childLoopStartPc hS hc))
  all_goals (try (left; exact SClaim.freeLoopStartPc hS (by simpa using hc.1)))
  -- free: children list of a state that differs by lock/disconnecting only
  all_goals (try (left; exact SClaim.freeLoopStartPc' hS (by simp) hc.1))
  all_goals (try (left; exact SClaim.freeLoopStartPc' hS (by simp) (fun _ h => by cases h)))
  -- call nsync_note_new with a parent
  all_goals (try (left; intro p hp; cases hp; exact (by assumption : s.Live _).1))
  -- call nsync_note_notify
  all_goals (try (
    right
    exact ⟨⟨by simp, by simpa using (by assumption : s.Live _).1⟩, by simp, by simp⟩))
  -- the load under the lock in nsync_note_notified_deadline_
  all_goals (try (
    left
    obtain ⟨_, hkn⟩ := (by assumption : _ = Site.dlLd2 ∧ _)
    subst hkn
    exact ⟨hc.1, fun _ e he h0 => dlFrom_of_ntime hS (by assumption) he h0, by simp⟩))
  -- free: the parent is read
  all_goals (try (
    left
    refine ⟨fun p hp => ?_, by simp⟩
    cases hp
    exact hS.parent _ _ (by assumption)))
  -- the loops move to the next child
  all_goals (try (
    left
    refine SClaim.chdMove hS hc rfl ?_
    intro c hc'
    simp only [CPos.child, Option.some.injEq] at hc'
    subst hc'; assumption))
  all_goals (try (
    left
    exact ⟨hc.1, fun _ => hS.children _ _ (by assumption)⟩))
  -- the deadline has passed: notify
  all_goals (try (
    left
    exact ⟨hc.1, caused_of_deadline (hc.2.1 rfl) (hc.2.2 rfl) (by assumption) (by assumption)⟩))
  -- nsync_note_new finds the parent notified
  all_goals (try (
    left
    obtain ⟨h1, h2, h3, _⟩ := hc
    refine ⟨h1, h2, h3, fun _ => hS.caused_of_notified h2 (notified_of_ntime (by assumption))⟩))
  -- nsync_note_new: positions after the load / the store
  all_goals (try (
    left
    obtain ⟨h1, h2, h3, _⟩ := hc
    exact ⟨h1, h2, h3, fun hp => by cases hp⟩))
  -- malloc
  · rename_i k hfresh
    right
    refine ⟨?_, by simp, by simp⟩
    intro p hp
    subst hp
    have hp := hc p rfl
    have hne : p ≠ k := fun e => by subst e; simp [hp] at hfresh
    refine ⟨by simp, by simp [hne, hp], ?_, by simp⟩
    simp [State.ancOf, upd_apply, hne]

end Note
