import NsyncVerif.Proofs.MuCFairSpin4
set_option linter.unusedSimpArgs false
/-
  MuC, fair termination, step C: `scan_loop_exit`, and every spinlock region together (`spinlock_released`).
-/
namespace NsyncVerif.MuC

variable {cfg : Cfg} {s0 : State}

/-- The scan loop of unlock_slow with `testing_conditions` off (the spinlock is kept). -/
def PC.scanLoop : PC → Bool
  | .usRcLd _ sc _ | .usRcCas _ sc _ _ => !sc.tc
  | _ => false

theorem scanLoop_spin {p : PC} (h : p.scanLoop = true) : p.spin = true := by
  cases p <;> simp [PC.scanLoop] at h <;> simp [PC.spin, h]

theorem spin_cases {p : PC} (h : p.spin = true) : p.spinS = true ∨ p.scanLoop = true := by
  cases p <;> simp [PC.spin] at h <;> simp [PC.spinS, PC.scanLoop, h]

def loopRk (s : State) : PC → Nat
  | .usRcLd _ sc _ => 2 * scanMu s sc + 1
  | .usRcCas _ sc _ _ => 2 * scanMu s sc
  | _ => 0

theorem data_step_queue {s s' : State} {e : Event} (h : step cfg s e = .ok s') (hd : e.isData = true) :
    s'.queue = s.queue := by
  cases e <;> simp [Event.isData] at hd
  · simp only [step] at h; split at h
    · cases h; rfl
    · cases h
  · simp only [step] at h; split at h
    · cases h; rfl
    · cases h

/-- Step C, the scan loop.  A thread in the scan loop of unlock_slow with `testing_conditions` off reaches the final
    load of unlock_slow (`usFinLd`) — at most `2·(|mu->waiters| + |new_waiters|) + 1` own steps —, provided no CAS on a
    `remove_count` fails.  No hypothesis on the word: the loop does not touch it, and nobody else touches mu->waiters
    (`queue_frame`). -/
theorem scan_loop_exit (x : Exec cfg s0) (hf : WeakFair x) (hr : Reachable cfg s0) (u : Tid) (i : Nat)
    (hin : ((x.ρ i).pc u).scanLoop = true)
    (hrc : ∀ j e, i ≤ j → x.σ j = some e → e.rcFail = false) :
    ∃ j, i ≤ j ∧ ((x.ρ j).pc u).scanLoop = true ∧ RMoves x u j ∧ ∃ r f, (x.ρ (j + 1)).pc u = .usFinLd r f := by
  let R : Nat → Prop := fun j => i ≤ j ∧ ((x.ρ j).pc u).scanLoop = true
  let rk : Nat → Nat := fun j => loopRk (x.ρ j) ((x.ρ j).pc u)
  have key := fair_exit_t x hf u R rk
    (fun j hj => by
      obtain ⟨_, hj⟩ := hj
      cases hp : (x.ρ j).pc u <;> simp [PC.scanLoop, hp] at hj <;> simp)
    (fun j hj hnm => by
      have hpc := not_rmoves_frame x hnm
      have h3 := reachable_inv3 (x.reach hr j)
      have h1 := reachable_inv1 (x.reach hr j)
      have hsp : (x.ρ j).sp = some u := (h3.own u).2 (scanLoop_spin hj.2)
      have hq : (x.ρ (j + 1)).queue = (x.ρ j).queue := by
        cases he : x.σ j with
        | none => rw [x.next_none he]
        | some e =>
          by_cases ht : e.tid = some u
          · have hd : e.isData = true := by
              cases hd : e.isData with
              | true => rfl
              | false => exact absurd ⟨e, he, ht, hd⟩ hnm
            exact data_step_queue (x.next_some he) hd
          · exact queue_frame h1 h3 hsp (x.next_some he) ht
      refine ⟨⟨by omega, by rw [hpc]; exact hj.2⟩, ?_⟩
      show loopRk _ _ ≤ loopRk _ _
      rw [hpc]
      cases hp : (x.ρ j).pc u <;> simp [loopRk, scanMu, hq])
    (fun j hj ⟨e, he, ht, hd⟩ hj' => by
      have hs := x.next_some he
      have hj1 := hj.2
      have hij : i ≤ j := hj.1
      have hj2 := hj'.2
      show loopRk _ _ < loopRk _ _
      cases hp : (x.ρ j).pc u <;> simp [PC.scanLoop, hp] at hj1
      case usRcLd r sc k =>
        obtain ⟨⟨old, a⟩, b⟩ := own_usRcLd hs ht hd hp
        simp [a, loopRk, scanMu, b]
      case usRcCas r sc k old =>
        rcases own_usRcCas hs ht hd hp hj1 with ⟨f, a⟩ | ⟨sc', k', a, _, c⟩ | a
        · rw [a] at hj2; simp [PC.scanLoop] at hj2
        · simp only [a, loopRk]; omega
        · rw [hrc j e hij he] at a; cases a)
  obtain ⟨j, hij, hRj, ⟨e, he, ht, hd⟩, hn⟩ := key (rk i) i (Nat.le_refl _) ⟨Nat.le_refl _, hin⟩
  refine ⟨j, hij, hRj.2, ⟨e, he, ht, hd⟩, ?_⟩
  have hs := x.next_some he
  have hj1 := hRj.2
  cases hp : (x.ρ j).pc u <;> simp [PC.scanLoop, hp] at hj1
  case usRcLd r sc k =>
    obtain ⟨⟨old, a⟩, _⟩ := own_usRcLd hs ht hd hp
    exact absurd ⟨by omega, by rw [a]; simp [PC.scanLoop, hj1]⟩ hn
  case usRcCas r sc k old =>
    rcases own_usRcCas hs ht hd hp hj1 with ⟨f, a⟩ | ⟨sc', k', a, b, _⟩ | a
    · exact ⟨r, f, a⟩
    · exact absurd ⟨by omega, by rw [a]; simp [PC.scanLoop, b]⟩ hn
    · rw [hrc j e (by omega) he] at a; cases a

/-- A step of the thread that leaves the simple regions gives the spinlock up (it does not enter the scan loop). -/
theorem own_spinS_exit {s s' : State} {e : Event} {t : Tid} (h3 : Inv3 s) (hs : step cfg s e = .ok s') (ht : e.tid = some t)
    (hd : e.isData = false) (hin : (s.pc t).spinS = true) (hout : (s'.pc t).spinS = false) : (s'.pc t).spin = false := by
  cases hp : s.pc t <;> simp [PC.spinS, hp] at hin
  case lsSt c => obtain ⟨c', a⟩ := own_lsSt hs ht hd hp; rw [a] at hout; simp [PC.spinS] at hout
  case lsRelLd c => obtain ⟨a, _⟩ := own_lsRelLd hs ht hd hp; rw [a] at hout; simp [PC.spinS] at hout
  case lsRelCas c old =>
    rcases own_lsRelCas hs ht hd hp with ⟨_, a⟩ | ⟨_, a, _⟩
    · rw [a]; rfl
    · rw [a] at hout; simp [PC.spinS] at hout
  case usRelLd r sc => obtain ⟨a, _⟩ := own_usRelLd hs ht hd hp; rw [a] at hout; simp [PC.spinS] at hout
  case usRelCas r sc old =>
    rcases own_usRelCas h3 hs ht hd hp with ⟨_, a⟩ | ⟨_, a, _⟩
    · exact a
    · rw [a] at hout; simp [PC.spinS] at hout
  case usFinLd r f => obtain ⟨a, _⟩ := own_usFinLd hs ht hd hp; rw [a] at hout; simp [PC.spinS] at hout
  case usFinCas r f old =>
    rcases own_usFinCas hs ht hd hp with ⟨_, a⟩ | ⟨_, a, _⟩
    · rw [a]; cases f.wake <;> cases r <;> rfl
    · rw [a] at hout; simp [PC.spinS] at hout
  case mwRelLd c => obtain ⟨⟨a0, a⟩, _⟩ := own_mwRelLd hs ht hd hp; rw [a] at hout; simp [PC.spinS] at hout
  case mwRelCas c old a0 =>
    cases e <;> simp only [Event.tid, Option.some.injEq, reduceCtorEq] at ht
    all_goals subst ht
    case cas t o loc exp new obs ok =>
      simp only [step, stepCas, hp] at hs
      rcases casWord_ok hs with ⟨_, _, rfl⟩ | ⟨_, _, rfl⟩
      · split <;> simp [PC.spin]
      · simp [PC.spinS] at hout
    all_goals first
      | (simp [Event.isData] at hd; done)
      | (simp [step, stepCall, stepRet, stepLd, stepSt, stepCond, hp] at hs)
  case mtLdW c old => rcases own_mtLdW hs ht hd hp with a | a <;> (rw [a] at hout; simp [PC.spinS] at hout)
  case mtLdRc c old => rcases own_mtLdRc hs ht hd hp with a | a <;> (rw [a] at hout; simp [PC.spinS] at hout)
  case mtRmLd c old => obtain ⟨rc, a⟩ := own_mtRmLd hs ht hd hp; rw [a] at hout; simp [PC.spinS] at hout
  case mtRmCas c old rc => rcases own_mtRmCas hs ht hd hp with a | ⟨a, _⟩ <;> (rw [a] at hout; simp [PC.spinS] at hout)
  case mtStW c old => have a := own_mtStW hs ht hd hp; rw [a] at hout; simp [PC.spinS] at hout
  case mtStRel c old ok => obtain ⟨c', a⟩ := own_mtStRel hs ht hd hp; rw [a]; rfl

/-- STEP C, all regions: the owner of MU_SPINLOCK, facing a word nobody else changes and no failing `remove_count` CAS,
    gives the spinlock up. -/
theorem spinlock_released (x : Exec cfg s0) (hf : WeakFair x) (hr : Reachable cfg s0) (u : Tid) (i : Nat)
    (hin : (x.ρ i).sp = some u)
    (hquiet : ∀ j, i ≤ j → ¬ RMoves x u j → (x.ρ (j + 1)).word = (x.ρ j).word)
    (hrc : ∀ j e, i ≤ j → x.σ j = some e → e.rcFail = false) :
    ∃ j, i ≤ j ∧ (x.ρ j).sp ≠ some u := by
  have own : ∀ j, (x.ρ j).sp = some u ↔ ((x.ρ j).pc u).spin = true := fun j => (reachable_inv3 (x.reach hr j)).own u
  have fromS : ∀ i', i ≤ i' → ((x.ρ i').pc u).spinS = true → ∃ j, i ≤ j ∧ (x.ρ j).sp ≠ some u := by
    intro i' hi' hS
    obtain ⟨j, hj, hinj, ⟨e, he, ht, hd⟩, hout⟩ := spin_region_exit x hf hr u i' hS (fun j hj => hquiet j (by omega))
      (fun j e hj => hrc j e (by omega))
    have hns := own_spinS_exit (reachable_inv3 (x.reach hr j)) (x.next_some he) ht hd hinj hout
    refine ⟨j + 1, by omega, fun hsp => ?_⟩
    rw [(own _).1 hsp] at hns; cases hns
  rcases spin_cases ((own i).1 hin) with a | a
  · exact fromS i (Nat.le_refl _) a
  · obtain ⟨j, hj, _, _, r, f, hp⟩ := scan_loop_exit x hf hr u i a hrc
    exact fromS (j + 1) (by omega) (by rw [hp]; rfl)

end NsyncVerif.MuC
