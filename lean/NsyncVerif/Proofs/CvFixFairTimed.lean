/-
  Layer `CvFix`, liveness, timed waits (towards clause (a) of `C05_fair_return_full`): the clock
  never goes back (`now_mono`), and a waiter asleep in the semaphore wait of cv.c (no note) whose
  deadline has passed leaves the semaphore wait (`timed_sleeper_wakes`).
-/
import NsyncVerif.Props.C05Fair

namespace NsyncVerif.CvFix

theorem now_mono {cfg : Config} {s s' : State} {e : Event} (hs : step cfg s e = .ok s') :
    s.now ≤ s'.now := by
  have htr := step_tr hs
  cases htr with
  | tick ns h => exact h
  | acq t0 exp new obs o n hl hexp hw he ho hn hnew => rw [afterAcquire_now]; exact Nat.le_refl _
  | _ => exact Nat.le_refl _

variable {cfg : Config} {s0 : State}

theorem exec_now_mono (x : Exec cfg s0) (j : Nat) : ∀ d, (x.ρ j).now ≤ (x.ρ (j + d)).now := by
  intro d
  induction d with
  | zero => exact Nat.le_refl _
  | succ d ih =>
    have : (x.ρ (j + d)).now ≤ (x.ρ (j + d + 1)).now := by
      cases hs : x.σ (j + d) with
      | none => rw [x.next_none hs]; exact Nat.le_refl _
      | some e => exact now_mono (x.next_some hs)
    exact Nat.le_trans ih this

/-- While the thread stays in the semaphore wait `wSemRet`, its deadline stays the same. -/
theorem semRet_stays (x : Exec cfg s0) {t : Tid} {j : Nat} {dl : Option Nat}
    (hl : ((x.ρ j).thr t).loc = .wSemRet) (hd : ((x.ρ j).thr t).dl = dl)
    (hall : ∀ j', j ≤ j' → ((x.ρ j').thr t).loc.asleep = true) :
    ∀ d, ((x.ρ (j + d)).thr t).loc = .wSemRet ∧ ((x.ρ (j + d)).thr t).dl = dl := by
  intro d
  induction d with
  | zero => exact ⟨hl, hd⟩
  | succ d ih =>
    obtain ⟨h1, h2⟩ := ih
    have hw : inWait ((x.ρ (j + d)).thr t) = true := by simp [inWait, waitLive, h1]
    obtain ⟨a, k, _⟩ := exec_wait_step x hw
    have hsl := hall (j + d + 1) (by omega)
    have hni : ((x.ρ (j + d + 1)).thr t).loc ≠ .idle := by
      intro h; rw [h] at hsl; cases hsl
    refine ⟨?_, (k.2.1 hni).1.trans h2⟩
    rcases a with ⟨a, _⟩ | a
    · exact a.trans h1
    · unfold WSucc at a
      rw [h1] at a
      rcases a with ⟨a, _⟩ | a <;> rw [a] at hsl <;> cases hsl

/-- A waiter asleep in the semaphore wait of cv.c (`wSemRet`: no cancel note) whose deadline has
    passed leaves the semaphore wait (`SemFair`): with ETIMEDOUT (`sem_outcome := ETIMEDOUT`, next
    cv.c:249) or with 0 (next cv.c:282). -/
theorem timed_sleeper_wakes (x : Exec cfg s0) (hy : WaitHyps x) {t : Tid} {j d : Nat}
    (hl : ((x.ρ j).thr t).loc = .wSemRet) (hd : ((x.ρ j).thr t).dl = some d)
    (hnow : d ≤ (x.ρ j).now) :
    ∃ j1, j ≤ j1 ∧ ((x.ρ j1).thr t).loc = .wSemRet ∧ ((x.ρ j1).thr t).dl = some d ∧
      ((((x.ρ (j1 + 1)).thr t).loc = .wChk ∧ ((x.ρ (j1 + 1)).thr t).semOut = .timedOut) ∨
       ((x.ρ (j1 + 1)).thr t).loc = .wTail) := by
  have hw : inWait ((x.ρ j).thr t) = true := by simp [inWait, waitLive, hl]
  have hsl : ((x.ρ j).thr t).loc.asleep = true →
      ∃ j', j ≤ j' ∧ ((x.ρ j').thr t).loc.asleep = false := by
    intro _
    apply Classical.byContradiction
    intro hn
    have hall : ∀ j', j ≤ j' → ((x.ρ j').thr t).loc.asleep = true := by
      intro j' hj'
      cases h : ((x.ρ j').thr t).loc.asleep
      · exact absurd ⟨j', hj', h⟩ hn
      · rfl
    apply hy.sem t j
    intro j' hj'
    obtain ⟨d', rfl⟩ : ∃ d', j' = j + d' := ⟨j' - j, by omega⟩
    obtain ⟨h1, h2⟩ := semRet_stays x hl hd hall d'
    refine ⟨hall _ hj', .inr ⟨d, ?_, Nat.le_trans hnow (exec_now_mono x j d')⟩⟩
    rw [(invC_reachable (x.reach hy.reach (j + d')) t).semRet h1, h2]
  obtain ⟨j1, h1, ⟨f1, _, f3, _⟩, _, hs, _, _⟩ := hop x hy hw (by rw [hl]; rfl) hsl
  refine ⟨j1, h1, f1.trans hl, f3.trans hd, ?_⟩
  unfold WSucc at hs
  rw [f1.trans hl] at hs
  exact hs

/-- A live wait whose record is neither queued nor self-removed is covered by a wake-up. -/
theorem covered_of {s : State} {t : Tid} (hi : Inv s) (hl : waitLive (s.thr t) = true)
    (hq : (s.recs (s.thr t).r).stat ≠ .queued) (hs : (s.recs (s.thr t).r).stat ≠ .selfOut) :
    Covered s t := by
  refine ⟨hl, ?_⟩
  have hlv := ((hi.a.thr t).live hl).2.2
  cases hst : (s.recs (s.thr t).r).stat with
  | idle => rw [hst] at hlv; cases hlv
  | prep => rw [hst] at hlv; cases hlv
  | queued => exact absurd hst hq
  | listed u => exact .inl ⟨u, rfl⟩
  | xfer => exact .inr (.inr rfl)
  | woken => exact .inr (.inl rfl)
  | selfOut => exact absurd hst hs

/-- … in particular if `waiting = 0` is seen at a program point at which the record cannot be
    self-removed. -/
theorem covered_of_waiting0 {s : State} {t : Tid} (hi : Inv s) (hl : waitLive (s.thr t) = true)
    (hw : (s.recs (s.thr t).r).waiting = false)
    (hloc : (s.thr t).loc = .wChk ∨ (s.thr t).loc = .wChk2 ∨ (s.thr t).loc = .wCmp) :
    Covered s t := by
  apply covered_of hi hl
  · intro hq; rw [hi.a.qWait _ hq] at hw; cases hw
  · intro hs
    have := (hi.b.thr t).soLoc hl hs
    rcases hloc with h | h | h <;> rw [h] at this <;> simp at this

/-- Step (2) of the timeout path: a waiter whose semaphore wait has timed out (it is at cv.c:249,
    `wChk`) takes the spinlock, re-checks `waiting` and `remove_count` (cv.c:259-260) and starts to
    remove itself (`wRmLd`) — unless a waker got there first, and then its call returns 0. -/
theorem timedout_removes_or_returns (x : Exec cfg s0) (hy : WaitHyps x) {t : Tid} {j : Nat}
    (hl : ((x.ρ j).thr t).loc = .wChk) :
    (∃ j', j ≤ j' ∧ x.σ j' = some (.retWait t .ok)) ∨
    (∃ j', j ≤ j' ∧ ((x.ρ j').thr t).loc = .wRmLd) := by
  have hinv := x.inv hy.reach
  have cov : ∀ j1, j ≤ j1 → Covered (x.ρ j1) t → ∃ j', j ≤ j' ∧ x.σ j' = some (.retWait t .ok) := by
    intro j1 h1 hc
    obtain ⟨j', h2, h3⟩ := covered_returns x hy hc
    exact ⟨j', by omega, h3⟩
  -- cv.c:249
  have hw : inWait ((x.ρ j).thr t) = true := by simp [inWait, waitLive, hl]
  have hr : Ready (x.ρ j) t := by refine ⟨?_, ?_, ?_⟩ <;> simp [hl, Loc.foreign, Loc.asleep]
  obtain ⟨j1, h1, ⟨f1, _⟩, _, hs1, _, _⟩ := hop_ready x hy.weak hw hr
  have hl1 := f1.trans hl
  unfold WSucc at hs1
  rw [hl1] at hs1
  have hwl1 : waitLive ((x.ρ j1).thr t) = true := by simp [waitLive, hl1]
  rcases hs1 with ⟨hw0, _⟩ | ⟨_, hsp, hcont⟩
  · exact .inl (cov j1 h1 (covered_of_waiting0 (hinv j1) hwl1 hw0 (.inl hl1)))
  -- the test-and-set loop
  have hw2 : inWait ((x.ρ (j1 + 1)).thr t) = true := by simp [inWait, waitLive, hsp, hcont]
  obtain ⟨j2, h2, _, _, _, _, _, hc2⟩ := hop_spin x hy.toHyps hw2 (by rw [hsp]; rfl)
  rcases hc2 with ⟨hc, _⟩ | ⟨_, hl2⟩
  · rw [hcont] at hc; cases hc
  -- cv.c:259
  have hw3 : inWait ((x.ρ j2).thr t) = true := by simp [inWait, waitLive, hl2]
  have hr3 : Ready (x.ρ j2) t := by refine ⟨?_, ?_, ?_⟩ <;> simp [hl2, Loc.foreign, Loc.asleep]
  obtain ⟨j3, h3, ⟨f3, _⟩, _, hs3, _, _⟩ := hop_ready x hy.weak hw3 hr3
  have hl3 := f3.trans hl2
  unfold WSucc at hs3
  rw [hl3] at hs3
  have hwl3 : waitLive ((x.ρ j3).thr t) = true := by simp [waitLive, hl3]
  rcases hs3 with ⟨hw0, _⟩ | ⟨_, hl4⟩
  · exact .inl (cov j3 (by omega) (covered_of_waiting0 (hinv j3) hwl3 hw0 (.inr (.inl hl3))))
  -- cv.c:260
  have hw4 : inWait ((x.ρ (j3 + 1)).thr t) = true := by simp [inWait, waitLive, hl4]
  have hr4 : Ready (x.ρ (j3 + 1)) t := by refine ⟨?_, ?_, ?_⟩ <;> simp [hl4, Loc.foreign, Loc.asleep]
  obtain ⟨j5, h5, ⟨f5, _⟩, _, hs5, _, _⟩ := hop_ready x hy.weak hw4 hr4
  have hl5 := f5.trans hl4
  unfold WSucc at hs5
  rw [hl5] at hs5
  have hwl5 : waitLive ((x.ρ j5).thr t) = true := by simp [waitLive, hl5]
  rcases hs5 with ⟨_, hl6⟩ | ⟨hne, _⟩
  · exact .inr ⟨j5 + 1, by omega, hl6⟩
  · left
    apply cov j5 (by omega)
    apply covered_of (hinv j5) hwl5
    · intro hq
      have := ((hinv j5).b.thr t).svQ (by simp [savedLoc, hl5]) hq
      simp [this] at hne
    · intro hs
      have := ((hinv j5).b.thr t).soLoc hwl5 hs
      rw [hl5] at this; simp at this

end NsyncVerif.CvFix
