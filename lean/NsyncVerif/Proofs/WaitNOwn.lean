/-
  Proofs/WaitNOwn.lean — ownership of the waiter records: the live records are exactly the records of
  the frames of the calls in flight that have not freed / returned, each owned by its caller, and the
  record at index i belongs to object i of the call.
-/
import NsyncVerif.Proofs.WaitNQuiet2

set_option linter.unusedSimpArgs false

namespace WaitN

structure Own (s : State) : Prop where
  own : ∀ (t : Tid) (r : Rid), inCall (s.pc t) = true → (s.fr t).frees = 0 → r ∈ (s.fr t).recs →
          (s.rcd r).live = true ∧ (s.rcd r).owner = t
  back : ∀ (r : Rid), (s.rcd r).live = true →
          inCall (s.pc (s.rcd r).owner) = true ∧ (s.fr (s.rcd r).owner).frees = 0 ∧ r ∈ (s.fr (s.rcd r).owner).recs
  idx : ∀ (t : Tid) (i : Nat) (r : Rid), inCall (s.pc t) = true → (s.fr t).frees = 0 → (s.fr t).recs[i]? = some r →
          (s.fr t).objs[i]? = some (s.rcd r).obj

theorem own_init : Own init :=
  ⟨fun _ _ h => by simp [init, inCall] at h, fun _ h => by simp [init] at h, fun _ _ _ h => by simp [init, inCall] at h⟩

theorem own_quiet {s s' : State} (q : Quiet s s') (h : Own s) : Own s' := by
  constructor
  · intro t r hc hf hr
    rw [q.inCall] at hc; rw [q.frees] at hf; rw [q.recs] at hr
    rw [q.live, q.owner]; exact h.own t r hc hf hr
  · intro r hl
    rw [q.live] at hl
    rw [q.owner, q.inCall, q.frees, q.recs]; exact h.back r hl
  · intro t i r hc hf hr
    rw [q.inCall] at hc; rw [q.frees] at hf; rw [q.recs] at hr
    rw [q.objs, q.robj]; exact h.idx t i r hc hf hr

/-- frees = 0 at the program points where records are initialised, freed, or the stack frame returns -/
theorem frees_of_linv_init {i : Nat} {f : Frame} (h : LInv (.wInit i) f) : f.frees = 0 := h.1.frees
theorem frees_of_linv_free {f : Frame} (h : LInv .wFree f) : f.frees = 0 := h.1.frees
theorem frees_of_linv_ret {r : Nat} {f : Frame} (h : LInv (.wRet r) f) (hh : f.heap.isSome = false) : f.frees = 0 := by
  rcases h.2 with h | h
  · exact h.1.frees
  · rw [h.1.frees, h.1.mallocs]
    have := h.1.heap
    rw [hh] at this
    simp at this
    simp [this]

theorem own_structural {s s' : State} {t : Tid} (hl : LInv (s.pc t) (s.fr t)) (st : Structural s s' t) (h : Own s) :
    Own s' := by
  cases st with
  | call mu dl objs nested hpc hne hk hs =>
    subst hs
    constructor
    · intro u r hc hf hr
      by_cases hu : u = t
      · subst hu; simp [Frame.new, Frame.empty] at hr
      · simp [hu] at hc hf hr ⊢; exact h.own u r hc hf hr
    · intro r hlive
      simp only [setPc_rcd, setFr_rcd] at hlive ⊢
      have hb := h.back r hlive
      have hne : (s.rcd r).owner ≠ t := by
        intro heq; rw [heq, hpc] at hb; simp [inCall] at hb
      simpa [hne] using hb
    · intro u i r hc hf hr
      by_cases hu : u = t
      · subst hu; simp [Frame.new, Frame.empty] at hr
      · simp [hu] at hc hf hr ⊢; exact h.idx u i r hc hf hr
  | init i r oid hpc hoid hdead hi hs =>
    subst hs
    have hfr : (s.fr t).frees = 0 := frees_of_linv_init (hpc ▸ hl)
    have hct : inCall (s.pc t) = true := by rw [hpc]; rfl
    have hcn : inCall (if oid.isCv = true then PC.wEnqCv i (CvEnqSt.spin SpinSt.ld) else PC.wEnq i EnqSt.lockCall) = true := by
      split <;> rfl
    constructor
    · intro u r' hc hf hr
      by_cases hu : u = t
      · subst hu
        simp only [setPc_fr, setFr_fr, if_true, List.mem_append, List.mem_singleton] at hr
        simp only [setPc_rcd, setFr_rcd, setRec_rcd]
        rcases hr with hr | hr
        · have := h.own u r' hct hfr hr
          have hne : r' ≠ r := by intro heq; rw [heq, hdead] at this; simp at this
          simpa [hne] using this
        · subst hr; simp
      · simp only [setPc_pc, setPc_fr, setFr_fr, hu, if_false] at hc hf hr
        simp only [setPc_rcd, setFr_rcd, setRec_rcd]
        have := h.own u r' hc hf hr
        have hne : r' ≠ r := by intro heq; rw [heq, hdead] at this; simp at this
        simpa [hne] using this
    · intro r' hlive
      simp only [setPc_rcd, setFr_rcd, setRec_rcd] at hlive ⊢
      by_cases hr : r' = r
      · subst hr; simp [hcn]; exact hfr
      · simp only [hr, if_false] at hlive ⊢
        have hb := h.back r' hlive
        by_cases ho : (s.rcd r').owner = t
        · rw [ho] at hb ⊢
          simp [hcn, hb.2.1, hb.2.2]
        · simpa [ho] using hb
    · intro u i' r' hc hf hr
      by_cases hu : u = t
      · subst hu
        simp only [setPc_fr, setFr_fr, if_true] at hr hf ⊢
        simp only [setPc_rcd, setFr_rcd, setRec_rcd]
        by_cases hi' : i' < (s.fr u).recs.length
        · rw [List.getElem?_append_left hi'] at hr
          have hlv := h.own u r' hct hfr (List.mem_of_getElem? hr)
          have hne : r' ≠ r := by intro heq; rw [heq, hdead] at hlv; simp at hlv
          simpa [hne] using h.idx u i' r' hct hfr hr
        · have hi'' : (s.fr u).recs.length ≤ i' := Nat.le_of_not_lt hi'
          rw [List.getElem?_append_right hi''] at hr
          have : i' = (s.fr u).recs.length := by
            rcases Nat.lt_or_ge (i' - (s.fr u).recs.length) 1 with h' | h'
            · omega
            · rw [List.getElem?_eq_none (by simpa using h')] at hr; cases hr
          subst this
          simp at hr; subst hr
          simp [← hi, hoid]
      · simp only [setPc_pc, setPc_fr, setFr_fr, hu, if_false] at hc hf hr ⊢
        simp only [setPc_rcd, setFr_rcd, setRec_rcd]
        have hlv := h.own u r' hc hf (List.mem_of_getElem? hr)
        have hne : r' ≠ r := by intro heq; rw [heq, hdead] at hlv; simp at hlv
        simpa [hne] using h.idx u i' r' hc hf hr
  | free hpc hs =>
    subst hs
    have hfr : (s.fr t).frees = 0 := frees_of_linv_free (hpc ▸ hl)
    have hct : inCall (s.pc t) = true := by rw [hpc]; rfl
    constructor
    · intro u r hc hf hr
      by_cases hu : u = t
      · subst hu; simp at hf
      · simp only [setPc_pc, setPc_fr, setFr_fr, kill_fr, kill_pc, hu, if_false] at hc hf hr
        simp only [setPc_rcd, setFr_rcd, kill_rcd]
        have := h.own u r hc hf hr
        have hnm : r ∉ (s.fr t).recs := by
          intro hm; have := (h.own t r hct hfr hm).2; simp_all
        simpa [hnm] using this
    · intro r hlive
      simp only [setPc_rcd, setFr_rcd, kill_rcd] at hlive ⊢
      by_cases hm : r ∈ (s.fr t).recs
      · simp [hm] at hlive
      · simp only [hm, if_false] at hlive ⊢
        have hb := h.back r hlive
        have hne : (s.rcd r).owner ≠ t := by intro heq; rw [heq] at hb; exact hm hb.2.2
        simpa [hne] using hb
    · intro u i r hc hf hr
      by_cases hu : u = t
      · subst hu; simp at hf
      · simp only [setPc_pc, setPc_fr, setFr_fr, kill_fr, kill_pc, hu, if_false] at hc hf hr ⊢
        simp only [setPc_rcd, setFr_rcd, kill_rcd]
        have := h.idx u i r hc hf hr
        simpa using this
  | ret r0 hpc hs =>
    subst hs
    have hct : inCall (s.pc t) = true := by rw [hpc]; rfl
    constructor
    · intro u r hc hf hr
      by_cases hu : u = t
      · subst hu; simp [inCall] at hc
      · simp only [setPc_pc, setPc_fr, setFr_fr, kill_fr, kill_pc, hu, if_false] at hc hf hr
        simp only [setPc_rcd, setFr_rcd, kill_rcd]
        have := h.own u r hc hf hr
        have hnm : r ∉ (if (s.fr t).heap.isSome = true then [] else (s.fr t).recs) := by
          split
          · simp
          · rename_i hh
            have hfr := frees_of_linv_ret (hpc ▸ hl) (by simpa using hh)
            intro hm; have := (h.own t r hct hfr hm).2; simp_all
        simpa [hnm] using this
    · intro r hlive
      simp only [setPc_rcd, setFr_rcd, kill_rcd] at hlive ⊢
      by_cases hm : r ∈ (if (s.fr t).heap.isSome = true then [] else (s.fr t).recs)
      · simp [hm] at hlive
      · simp only [hm, if_false] at hlive ⊢
        have hb := h.back r hlive
        have hne : (s.rcd r).owner ≠ t := by
          intro heq; rw [heq] at hb
          apply hm
          split
          · rename_i hh
            -- heap case: frees = 1 at wRet contradicts frees = 0
            have hl' : LInv (.wRet r0) (s.fr t) := hpc ▸ hl
            rcases hl'.2 with hfresh | hpost
            · rw [hfresh.1.heap] at hh; simp at hh
            · have h1 := hpost.1.frees; have h2 := hpost.1.mallocs; have h3 := hpost.1.heap
              rw [hh] at h3; simp at h3
              rw [h2] at h1; simp [h3] at h1; rw [h1] at hb; simp at hb
          · exact hb.2.2
        simpa [hne] using hb
    · intro u i r hc hf hr
      by_cases hu : u = t
      · subst hu; simp [inCall] at hc
      · simp only [setPc_pc, setPc_fr, setFr_fr, kill_fr, kill_pc, hu, if_false] at hc hf hr ⊢
        simp only [setPc_rcd, setFr_rcd, kill_rcd]
        have := h.idx u i r hc hf hr
        simpa using this

theorem own_of_reachable {s : State} (h : Reachable s) : Own s := by
  refine reachable_induction (P := Own) own_init ?_ h
  intro s s' e hr ih hs
  cases e with
  | tick ns =>
    simp only [step] at hs
    split at hs
    · cases hs; exact ⟨ih.own, ih.back, ih.idx⟩
    · simp at hs
  | thr t ev =>
    simp only [step] at hs
    rcases quiet_or_structural hs with q | st
    · exact own_quiet q ih
    · exact own_structural (linv_of_reachable hr t) st ih

end WaitN
