/-
  Layer `Cv`: protocol invariant — transitions that change one record (part 2: wait_n records and
  the waker's store).
-/
import NsyncVerif.Proofs.CvInvBRec

namespace NsyncVerif.Cv

theorem invB_enqSt {s : State} (hi : InvB s) (ha : InvA s) (t : Tid) (r : Rid) (hl : (s.thr t).loc = .nLocked)
    (hm : r.isMucv = false) (hst : (s.recs r).stat = .idle) :
    InvB ({ s with queue := s.queue ++ [r] }.setRec r
            { s.recs r with waiting := true, stat := .queued, pub := false, unl := [], posted := false }
          |>.setThr t { s.thr t with r := r, mine := r :: (s.thr t).mine, old := { (s.thr t).old with ne := true }, loc := .nEnqRel }) := by
  tB_facts hl
  refine invB_one (t := t) (r := r) hi ha (fun u hu => by simp [hu]) (fun q hq => by simp [hq]) (by simp)
    id hi.nobad (fun u hu ho v hv => by simp at hv)
    (by simp) (by simp) (by simp) (by simp) (by simp) (by simp [hm]) (fun u hu ho hni => absurd hst hni) ?_
  constructor <;> simp [savedLoc, waitLive, waitPrep, Loc.afterLoop] <;> (try simp_all)
  intro q hq hs
  have hne : q ≠ r := fun e => by subst e; simp at hs
  have := b9 q hq (by simpa [hne] using hs)
  simp at this

theorem invB_deqLdQueued {s : State} (hi : InvB s) (ha : InvA s) (t : Tid) (r : Rid) (hl : (s.thr t).loc = .nLocked)
    (hr : r ∈ (s.thr t).mine) (hst : (s.recs r).stat = .queued) :
    InvB ({ s with queue := s.queue.erase r }.setRec r
            { s.recs r with stat := .selfOut, unl := (s.recs r).unl ++ [Unl.self] }
          |>.setThr t { s.thr t with r := r, loc := .nDeqSt, old := if (s.queue.erase r).isEmpty then { (s.thr t).old with ne := false } else (s.thr t).old }) := by
  tB_facts hl
  obtain ⟨hm, hown, _, _⟩ := (ha.thr t).mine r hr
  refine invB_one (t := t) (r := r) hi ha (fun u hu => by simp [hu]) (fun q hq => by simp [hq]) (by simp)
    id hi.nobad (fun u hu ho => absurd (hown.symm.trans ho) (Ne.symm hu))
    (by simp) (by simp) (by simp) (by simp) (by simp [hm]) (by simp [hm])
    (fun u hu ho => absurd (hown.symm.trans ho) (Ne.symm hu)) ?_
  constructor <;> simp [savedLoc, waitLive, waitPrep, Loc.afterLoop] <;> (try simp_all)
  intro q hq hs
  by_cases hne : q = r
  · exact hne.symm
  · have := b9 q hq (by simpa [hne] using hs); simp at this

theorem invB_deqLdF3 {s : State} (hi : InvB s) (ha : InvA s) (t : Tid) (r : Rid) (u : Tid)
    (hl : (s.thr t).loc = .nLocked) (hr : r ∈ (s.thr t).mine) (hst : (s.recs r).stat = .listed u) :
    InvB ({ s with f3 := true }.setRec r { s.recs r with unl := (s.recs r).unl ++ [Unl.self] }
          |>.setThr t { s.thr t with r := r, loc := .nDeqSt, old := if s.queue.isEmpty then { (s.thr t).old with ne := false } else (s.thr t).old }) := by
  tB_facts hl
  obtain ⟨hm, hown, _, _⟩ := (ha.thr t).mine r hr
  refine invB_one (t := t) (r := r) hi ha (fun u hu => by simp [hu]) (fun q hq => by simp [hq]) (by simp)
    (fun _ => rfl) hi.nobad (fun u hu ho => absurd (hown.symm.trans ho) (Ne.symm hu))
    (by simp [hm]) (by simp [hst]) (by simp [hst]) (by simp [hst]) (by simp [hm]) (by simp [hm])
    (fun u hu ho => absurd (hown.symm.trans ho) (Ne.symm hu)) ?_
  constructor <;> simp [savedLoc, waitLive, waitPrep, Loc.afterLoop] <;> (try simp_all)
  intro q hq hs
  by_cases hne : q = r
  · exact hne.symm
  · have := b9 q hq (by simpa [hne] using hs); simp at this

/-- cv_dequeue never finds `waiting != 0` on a record that is neither queued nor on a waker's list. -/
theorem deqLdBad_impossible {s : State} (hi : InvB s) (ha : InvA s) (t : Tid) (r : Rid)
    (hl : (s.thr t).loc = .nLocked) (hr : r ∈ (s.thr t).mine) (hw : (s.recs r).waiting = true)
    (hst : (s.recs r).stat ≠ .queued) (hst2 : ∀ u, (s.recs r).stat ≠ .listed u) : False := by
  obtain ⟨hm, hown, hni, hnp⟩ := (ha.thr t).mine r hr
  cases h : (s.recs r).stat with
  | idle => exact hni h
  | prep => exact hnp h
  | queued => exact hst h
  | listed u => exact hst2 u h
  | xfer => have := hi.xferM r h; rw [hm] at this; cases this
  | woken => have := hi.wokenW r h; rw [hw] at this; cases this
  | selfOut => have := ((hi.thr t).mineS r hr h).1; rw [hl] at this; simp at this

theorem invB_deqSt {s : State} (hi : InvB s) (ha : InvA s) (t : Tid) (r : Rid) (hl : (s.thr t).loc = .nDeqSt)
    (hr : r = (s.thr t).r) :
    InvB (s.setRec r { s.recs r with waiting := false } |>.setThr t { s.thr t with loc := .nDeqRel }) := by
  subst hr
  tB_facts hl
  obtain ⟨hmem, hnq⟩ := (ha.thr t).nDeq (.inl hl)
  obtain ⟨hm, hown, hni, hnp⟩ := (ha.thr t).mine _ hmem
  refine invB_one (t := t) (r := (s.thr t).r) hi ha (fun u hu => by simp [hu]) (fun q hq => by simp [hq]) (by simp)
    id hi.nobad (fun u hu ho => absurd (hown.symm.trans ho) (Ne.symm hu))
    ?_ (by simp) (by simpa using hi.xferM _) (by simpa using hi.unlQ _) (by simp [hm]) (by simp [hm])
    (fun u hu ho => absurd (hown.symm.trans ho) (Ne.symm hu)) ?_
  · intro u hu hc
    simp at hu
    have := b14 (.inl trivial) u hu
    rcases hc with hc | hc
    · rw [hm] at hc; cases hc
    · simp at hc; rw [this] at hc; cases hc
  · constructor <;> simp [savedLoc, waitLive, waitPrep, Loc.afterLoop] <;> (try simp_all)
    intro q hq hs
    by_cases hne : q = (s.thr t).r
    · exact hne.symm
    · have := b9 q hq (by simpa [hne] using hs); exact this

theorem invB_relDeq {s : State} (hi : InvB s) (ha : InvA s) (t : Tid) (n : Word) (hl : (s.thr t).loc = .nDeqRel) :
    InvB ({ s with word := n, holder := none }.setRec (s.thr t).r
            { s.recs (s.thr t).r with stat := match (s.recs (s.thr t).r).stat with | .listed u => RStat.listed u | _ => RStat.idle }
          |>.setThr t { s.thr t with loc := .nOut, mine := (s.thr t).mine.erase (s.thr t).r }) := by
  tB_facts hl
  obtain ⟨hmem, hnq⟩ := (ha.thr t).nDeq (.inr hl)
  obtain ⟨hm, hown, hni, hnp⟩ := (ha.thr t).mine _ hmem
  have hnd := (ha.thr t).mineNd
  have hst : ∀ v, (match (s.recs (s.thr t).r).stat with | .listed u => RStat.listed u | _ => RStat.idle) = .listed v →
      (s.recs (s.thr t).r).stat = .listed v := by
    intro v; cases (s.recs (s.thr t).r).stat <;> simp
  refine invB_one (t := t) (r := (s.thr t).r) hi ha (fun u hu => by simp [hu]) (fun q hq => by simp [hq]) (by simp)
    id hi.nobad (fun u hu ho => absurd (hown.symm.trans ho) (Ne.symm hu))
    ?_ ?_ ?_ ?_ (by simp [hm]) (by simp [hm])
    (fun u hu ho => absurd (hown.symm.trans ho) (Ne.symm hu)) ?_
  · intro u hu hc
    simp at hu
    simpa using hi.lWait _ u (hst u hu) hc
  · simp; cases (s.recs (s.thr t).r).stat <;> simp
  · simp; cases (s.recs (s.thr t).r).stat <;> simp
  · simp; cases (s.recs (s.thr t).r).stat <;> simp
  · constructor <;> simp [savedLoc, waitLive, waitPrep, Loc.afterLoop] <;> (try simp_all)
    intro q hq hs
    have hne : q ≠ (s.thr t).r := fun e => by subst e; exact (List.Nodup.mem_erase_iff hnd).mp hq |>.1 rfl
    have := b9 q (List.mem_of_mem_erase hq) (by simpa [hne] using hs)
    exact absurd this.symm hne

theorem invB_wake {s : State} (hi : InvB s) (ha : InvA s) (t : Tid) (r : Rid) (hl : (s.thr t).loc = .wwStore)
    (hr : (s.thr t).list.head? = some r) :
    InvB (s.setRec r { s.recs r with waiting := false, stat := match (s.recs r).stat with | .listed _ => .woken | st => st }
          |>.setThr t { s.thr t with list := (s.thr t).list.tail, cur := some (r, (s.recs r).enqSeq), loc := .wwV }) := by
  tB_facts hl
  obtain ⟨rest, hlist⟩ : ∃ rest, (s.thr t).list = r :: rest := by
    cases h : (s.thr t).list with
    | nil => rw [h] at hr; simp at hr
    | cons a b => rw [h] at hr; simp at hr; subst hr; exact ⟨b, rfl⟩
  have hst : (s.recs r).stat = .listed t := (ha.lMem t r).mp (by rw [hlist]; simp)
  have htd : (s.thr t).todo = [] := by
    cases h : (s.thr t).todo with
    | nil => rfl
    | cons a l => have := b12 (by simp [h]); simp at this
  have hmine : (s.thr t).mine = [] := (ha.thr t).mine0 (by simp [inWaitN, hl])
  simp only [hst]
  refine invB_one (t := t) (r := r) hi ha (fun u hu => by simp [hu]) (fun q hq => by simp [hq]) (by simp)
    id hi.nobad (fun u hu ho v hv => by simp at hv)
    (by simp) (by simp) (by simp) (by simp) (by simp) (by simpa using hi.unl1 r) ?_ ?_
  · intro u hu ho hni
    refine ⟨by simp [hst], by simp [hst], ?_⟩
    intro hs hur
    have := ((hi.thr u).svL hs t (by rw [hur]; exact hst)).2 (by rw [htd]; simp)
    unfold SvOK
    rw [hur]
    simp
    rw [hur] at this; exact this
  · constructor <;> simp [savedLoc, waitLive, waitPrep, Loc.afterLoop, htd, hmine]

end NsyncVerif.Cv
