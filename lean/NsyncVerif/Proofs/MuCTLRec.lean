import NsyncVerif.Proofs.MuCTLWord3
/-
  MuC, facts about one step: the record fields `waiting`, `l_type`, condition (`RecTL`).
-/
namespace NsyncVerif.MuC

macro "rec_simp" : tactic => `(tactic|
  simp_all [PC.wakeL, PC.limbo, PC.enqPend, PC.ws, SL.ws, Ret.ws, PC.lsRec, PC.waitRec, Ret.w?, PC.ok, setFn, loopPc, finPc, Ret.pc, mwLoop_eq, afterFin_eq, afterWakes_eq,
      SL.entry, SL.fromWait, SL.woken])

macro "rec_fld" : tactic => `(tactic|
  first
  | (intro k; rec_simp; done)
  | (intro k; rec_simp <;> grind)
  | (intro k; (repeat' split) <;> rec_simp <;> grind))

macro "rec_tl" : tactic => `(tactic| (refine ⟨?_, ?_, ?_, ?_⟩ <;> rec_fld))

theorem recTL_ld {s s' : State} {t : Tid} {o : Ord} {loc : Loc} {obs : Nat} (h1 : Inv1 s)
    (h : stepLd s t o loc obs = .ok s') : RecTL s s' t := by
  have hok := h1.pcok t
  walk_ld h => rec_tl

theorem recTL_st {s s' : State} {t : Tid} {o : Ord} {loc : Loc} {new obs : Nat} (h1 : Inv1 s)
    (h : stepSt s t o loc new obs = .ok s') : RecTL s s' t := by
  have hok := h1.pcok t
  walk_st h => rec_tl

theorem recTL_call {s s' : State} {t : Tid} {a : Api} (h : stepCall s t a = .ok s') : RecTL s s' t := by
  walk_call h a => rec_tl

theorem recTL_ret {s s' : State} {t : Tid} {a : Api} {res : Res} (h : stepRet s t a res = .ok s') : RecTL s s' t := by
  walk_ret h => rec_tl

theorem recTL_sem {cfg : Cfg} {s s' : State} {e : Event} {t : Tid}
    (he : match e with
      | .semPEnter u _ | .semPRet u _ | .semPdEnter u _ _ | .semPdRet u _ _ | .semV u _ | .noteSeen u | .noteNotify u => u = t
      | _ => False)
    (h : step cfg s e = .ok s') : RecTL s s' t := by
  cases e <;> simp only at he <;> subst he
  all_goals walk_sem h => rec_tl

end NsyncVerif.MuC
