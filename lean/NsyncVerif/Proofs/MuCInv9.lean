import NsyncVerif.Proofs.MuCInv8Step
/-
  MuC: who waits on which record (I_wait).  Every record on mu->waiters, on an unlocker's private lists
  or on a wake list belongs to a thread inside a wait loop (`PC.waitRec`); a thread in a wait loop
  whose record still has `waiting` set finds it on one of those lists; a thread at a semaphore wait
  whose record has `waiting` clear has a post pending; MU_WAITING is set while anything is queued.
-/
namespace NsyncVerif.MuC

def Ret.w? : Ret → Option Wid
  | .ul _ _ => none
  | .mw c => c.w

def Ret.wmode : Ret → Mode
  | .ul l _ => l
  | .mw c => c.l

/-- The record the thread has queued and on which it has not yet seen `waiting = 0` (nor removed it
    from the queue itself). -/
def PC.waitRec : PC → Option Wid
  | .lsRelLd c | .lsRelCas c _ | .lsWaitLd c | .lsPEnter c | .lsPRet c => c.w
  | .usLd r | .usCasUnc r _ | .usCasGrab r _ | .usRelLd r _ | .usRelCas r _ _ | .usEval r _ | .usRcLd r _ _ | .usRcCas r _ _ _
  | .usReLd r _ | .usReCas r _ _ | .usFinLd r _ | .usFinCas r _ _ | .usWakeSt r _ _ | .usWakeV r _ _ => r.w?
  | .mwRelLd c | .mwRelCas c _ _ | .mwSem c | .mwPdRet c _ | .mwNotify c | .mwLd244 c => c.w
  | .mwWaitLd c | .mwLd255 c => c.w
  | .mtLd c | .mtCasAcq c _ | .mtCasWW c _ | .mtLdWk c _ | .mtLdW c _ | .mtLdRc c _ => c.w
  | .mtStRel c _ ok => if ok then none else c.w
  | _ => none

/-- The mode in which the waiting thread wants the mutex. -/
def PC.wmode : PC → Mode
  | .lsRelLd c | .lsRelCas c _ | .lsWaitLd c | .lsPEnter c | .lsPRet c => c.l
  | .usLd r | .usCasUnc r _ | .usCasGrab r _ | .usRelLd r _ | .usRelCas r _ _ | .usEval r _ | .usRcLd r _ _ | .usRcCas r _ _ _
  | .usReLd r _ | .usReCas r _ _ | .usFinLd r _ | .usFinCas r _ _ | .usWakeSt r _ _ | .usWakeV r _ _ => r.wmode
  | .mwRelLd c | .mwRelCas c _ _ | .mwSem c | .mwPdRet c _ | .mwNotify c | .mwLd244 c
  | .mwWaitLd c | .mwLd255 c
  | .mtLd c | .mtCasAcq c _ | .mtCasWW c _ | .mtLdWk c _ | .mtLdW c _ | .mtLdRc c _ | .mtStRel c _ _ => c.l
  | _ => .W

/-- The record whose semaphore the thread is waiting on. -/
def PC.pwait : PC → Option Wid
  | .lsPEnter c | .lsPRet c => c.w
  | .mwSem c | .mwPdRet c _ => c.w
  | _ => none

/-- Between the store `waiting := 1` and the enqueue CAS of mu_wait, or after the thread has removed its record
    itself (mu_wait.c:100): the record, on no list, and the mode it was prepared for. -/
def PC.limboL : PC → Option (Wid × Mode)
  | .mwRcLd c | .mwEnqLd c | .mwEnqCas c _ | .mtRmLd c _ | .mtRmCas c _ _ | .mtStW c _ => c.w.map (fun k => (k, c.l))
  | .mtStRel c _ true => c.w.map (fun k => (k, c.l))
  | _ => none

/-- The thread has taken its record off the queue itself and cleared `waiting` (mu_wait.c:100-101). -/
def PC.hlRec : PC → Option Wid
  | .mtStRel c _ true => c.w
  | .mwLd255 c | .mwWaitLd c => if c.hl then c.w else none
  | _ => none

theorem hlRec_mem_ws {p : PC} {k : Wid} (h : p.hlRec = some k) : k ∈ p.ws := by
  cases p with
  | mtStRel c old ok => cases ok <;> simp_all [PC.hlRec, PC.ws]
  | mwLd255 c | mwWaitLd c => simp only [PC.hlRec] at h; split at h <;> simp_all [PC.ws]
  | _ => simp [PC.hlRec] at h

structure Inv9 (s : State) : Prop where
  hlf : ∀ t k, (s.pc t).hlRec = some k → (s.wr k).waiting = false
  lim : ∀ t k l, (s.pc t).limboL = some (k, l) → (s.wr k).lType = l
  w4 : ∀ k, Queued s k → s.word.waiting = true
  w4p : ∀ t, (s.pc t).enqPend = true → s.word.waiting = true
  w4m : ∀ t old, (s.pc t).mtOld = some old → ∀ k, Queued s k → old.waiting = true
  own : ∀ k, (Queued s k ∨ ∃ u, k ∈ (s.pc u).wakeL) → ∃ t, (s.pc t).waitRec = some k
  lt : ∀ t k, (s.pc t).waitRec = some k → (s.wr k).lType = (s.pc t).wmode
  w3 : ∀ t k, (s.pc t).waitRec = some k → (s.wr k).waiting = true → Queued s k ∨ ∃ u, k ∈ (s.pc u).wakeL
  w1 : ∀ t k, (s.pc t).pwait = some k → (s.wr k).waiting = false →
        (s.wr k).sem ≠ 0 ∨ ∃ u r rest, s.pc u = .usWakeV r k rest

theorem ret_w_mem {r : Ret} {k : Wid} (h : r.w? = some k) : k ∈ r.ws := by
  cases r <;> simp_all [Ret.w?, Ret.ws]

theorem waitRec_mem_ws {p : PC} {k : Wid} (h : p.waitRec = some k) : k ∈ p.ws := by
  cases p <;> simp only [PC.waitRec] at h <;> first
    | (cases h; done)
    | (simp [PC.ws, SL.ws, h]; done)
    | (simp only [PC.ws]; exact ret_w_mem h)
    | (split at h <;> simp_all [PC.ws])

theorem limboL_mem_ws {p : PC} {k : Wid} {l : Mode} (h : p.limboL = some (k, l)) : k ∈ p.ws := by
  cases p with
  | mtStRel c old ok =>
    cases ok with
    | false => simp [PC.limboL] at h
    | true =>
      simp only [PC.limboL, Option.map_eq_some_iff, Prod.mk.injEq] at h
      obtain ⟨a, ha, rfl, _⟩ := h
      simp [PC.ws, ha]
  | mwRcLd c | mwEnqLd c | mwEnqCas c _ | mtRmLd c _ | mtRmCas c _ _ | mtStW c _ =>
    simp only [PC.limboL, Option.map_eq_some_iff, Prod.mk.injEq] at h
    obtain ⟨a, ha, rfl, _⟩ := h
    simp [PC.ws, ha]
  | _ => simp [PC.limboL] at h

theorem pwait_waitRec {p : PC} {k : Wid} (h : p.pwait = some k) : p.waitRec = some k := by
  cases p <;> simp [PC.pwait] at h <;> simp [PC.waitRec, h]

/-- Two threads do not wait on the same record. -/
theorem waitRec_unique {s : State} (h4 : Inv4 s) {t u : Tid} {k : Wid} (ht : (s.pc t).waitRec = some k)
    (hu : (s.pc u).waitRec = some k) : t = u := by
  have a := h4.own t k (waitRec_mem_ws ht)
  have b := h4.own u k (waitRec_mem_ws hu)
  rw [a] at b; cases b; rfl

/-- The record is on mu->waiters, on an unlocker's private lists, or on a wake list. -/
def Listed (s : State) (k : Wid) : Prop := Queued s k ∨ ∃ u, k ∈ (s.pc u).wakeL

/-- A step of `t`: records move between the lists, or `t`'s own record leaves them; no `waiting` /
    `l_type` changes, semaphores do not drop to 0. -/
theorem Inv9.step {s s' : State} (t : Tid) (h4 : Inv4 s) (h : Inv9 s)
    (hLsub : ∀ k, Listed s' k → Listed s k)
    (hQsub : ∀ k, Queued s' k → Queued s k)
    (hLkeep : ∀ k, Listed s k → (s.pc t).waitRec ≠ some k → Listed s' k)
    (hwr : ∀ x, (s'.wr x).waiting = (s.wr x).waiting ∧ (s'.wr x).lType = (s.wr x).lType ∧
      ((s.wr x).sem ≠ 0 → (s'.wr x).sem ≠ 0))
    (hw : s.word.waiting = true → s'.word.waiting = true)
    (hpc : ∀ u, u ≠ t → s'.pc u = s.pc u)
    (hwv : ∀ r k rest, s.pc t = .usWakeV r k rest → s'.pc t = .usWakeV r k rest)
    (henq : (s'.pc t).enqPend = true → (s.pc t).enqPend = true ∨ s'.word.waiting = true)
    (hmt : ∀ old, (s'.pc t).mtOld = some old → (s.pc t).mtOld = some old ∨ s.word = old)
    (hrec : ((s'.pc t).waitRec = (s.pc t).waitRec ∧ ((s.pc t).waitRec ≠ none → (s'.pc t).wmode = (s.pc t).wmode) ∧
        (∀ k, (s.pc t).waitRec = some k → Listed s k → Listed s' k)) ∨
      ((s'.pc t).waitRec = none ∧ ∀ k, (s.pc t).waitRec = some k → (s.wr k).waiting = false) ∨
      ((s'.pc t).waitRec = none ∧ ∀ k, (s.pc t).waitRec = some k → ¬ Listed s' k))
    (hpw : ∀ k, (s'.pc t).pwait = some k → (s.pc t).pwait = some k ∨ (s.wr k).waiting = true)
    (hlim : ∀ k l, (s'.pc t).limboL = some (k, l) → (s.pc t).limboL = some (k, l) ∨
      ((s.pc t).waitRec = some k ∧ (s.pc t).wmode = l))
    (hhl : ∀ k, (s'.pc t).hlRec = some k → (s.pc t).hlRec = some k ∨ (s.wr k).waiting = false) : Inv9 s' := by
  refine ⟨?_, ?_, ?_, ?_, ?_, ?_, ?_, ?_, ?_⟩
  · intro u k hu
    rw [(hwr k).1]
    by_cases e : u = t
    · subst e
      rcases hhl k hu with a | a
      · exact h.hlf u k a
      · exact a
    · rw [hpc u e] at hu; exact h.hlf u k hu
  · intro u k l hu
    rw [(hwr k).2.1]
    by_cases e : u = t
    · subst e
      rcases hlim k l hu with a | ⟨a, b⟩
      · exact h.lim u k l a
      · rw [← b]; exact h.lt u k a
    · rw [hpc u e] at hu; exact h.lim u k l hu
  · intro k hk; exact hw (h.w4 k (hQsub k hk))
  · intro u hu
    by_cases e : u = t
    · subst e
      rcases henq hu with a | a
      · exact hw (h.w4p u a)
      · exact a
    · rw [hpc u e] at hu; exact hw (h.w4p u hu)
  · intro u old ho k hk
    have hk' := hQsub k hk
    by_cases e : u = t
    · subst e
      rcases hmt old ho with a | a
      · exact h.w4m u old a k hk'
      · rw [← a]; exact h.w4 k hk'
    · rw [hpc u e] at ho; exact h.w4m u old ho k hk'
  · intro k hk
    have hk0 : Listed s k := hLsub k hk
    obtain ⟨u, hu⟩ := h.own k hk0
    by_cases e : u = t
    · subst e
      rcases hrec with ⟨a, _, _⟩ | ⟨_, b⟩ | ⟨_, b⟩
      · exact ⟨u, by rw [a]; exact hu⟩
      · exfalso
        have hwf := b k hu
        rcases hk0 with q | ⟨v, hv⟩
        · have := h4.wait k q; rw [hwf] at this; cases this
        · have := (h4.wk v k hv).1; rw [hwf] at this; cases this
      · exact absurd hk (b k hu)
    · exact ⟨u, by rw [hpc u e]; exact hu⟩
  · intro u k hu
    rw [(hwr k).2.1]
    by_cases e : u = t
    · subst e
      rcases hrec with ⟨a, b, _⟩ | ⟨a, _⟩ | ⟨a, _⟩
      · rw [a] at hu
        rw [b (by rw [hu]; simp)]; exact h.lt u k hu
      · rw [a] at hu; cases hu
      · rw [a] at hu; cases hu
    · rw [hpc u e] at hu ⊢; exact h.lt u k hu
  · intro u k hu hwt
    rw [(hwr k).1] at hwt
    by_cases e : u = t
    · subst e
      rcases hrec with ⟨a, _, c⟩ | ⟨a, _⟩ | ⟨a, _⟩
      · rw [a] at hu; exact c k hu (h.w3 u k hu hwt)
      · rw [a] at hu; cases hu
      · rw [a] at hu; cases hu
    · rw [hpc u e] at hu
      refine hLkeep k (h.w3 u k hu hwt) ?_
      intro ht
      exact e (waitRec_unique h4 hu ht)
  · intro u k hu hwf
    rw [(hwr k).1] at hwf
    have key : (s.wr k).sem ≠ 0 ∨ ∃ v r rest, s.pc v = .usWakeV r k rest := by
      by_cases e : u = t
      · subst e
        rcases hpw k hu with a | a
        · exact h.w1 u k a hwf
        · rw [a] at hwf; cases hwf
      · rw [hpc u e] at hu; exact h.w1 u k hu hwf
    rcases key with a | ⟨v, r, rest, hv⟩
    · exact Or.inl ((hwr k).2.2 a)
    · right
      by_cases e : v = t
      · subst e; exact ⟨v, r, rest, hwv r k rest hv⟩
      · exact ⟨v, r, rest, by rw [hpc v e]; exact hv⟩

/-- A step of `t` that changes neither the lists nor `waiting` / `l_type` / the semaphore of any record. -/
theorem Inv9.local {s s' : State} (t : Tid) (h4 : Inv4 s) (h : Inv9 s)
    (hQ : ∀ k, Queued s' k ↔ Queued s k)
    (hwr : ∀ x, (s'.wr x).waiting = (s.wr x).waiting ∧ (s'.wr x).lType = (s.wr x).lType ∧
      ((s.wr x).sem ≠ 0 → (s'.wr x).sem ≠ 0))
    (hw : s.word.waiting = true → s'.word.waiting = true)
    (hpc : ∀ u, u ≠ t → s'.pc u = s.pc u)
    (hwk : (s'.pc t).wakeL = (s.pc t).wakeL)
    (hwv : ∀ r k rest, s.pc t = .usWakeV r k rest → s'.pc t = .usWakeV r k rest)
    (henq : (s'.pc t).enqPend = true → (s.pc t).enqPend = true ∨ s'.word.waiting = true)
    (hmt : ∀ old, (s'.pc t).mtOld = some old → (s.pc t).mtOld = some old ∨ s.word = old)
    (hrec : ((s'.pc t).waitRec = (s.pc t).waitRec ∧ ((s.pc t).waitRec ≠ none → (s'.pc t).wmode = (s.pc t).wmode)) ∨
      ((s'.pc t).waitRec = none ∧ ∀ k, (s.pc t).waitRec = some k → (s.wr k).waiting = false))
    (hpw : ∀ k, (s'.pc t).pwait = some k → (s.pc t).pwait = some k ∨ (s.wr k).waiting = true)
    (hlim : ∀ k l, (s'.pc t).limboL = some (k, l) → (s.pc t).limboL = some (k, l) ∨
      ((s.pc t).waitRec = some k ∧ (s.pc t).wmode = l))
    (hhl : ∀ k, (s'.pc t).hlRec = some k → (s.pc t).hlRec = some k ∨ (s.wr k).waiting = false) : Inv9 s' := by
  have hwk' : ∀ u, (s'.pc u).wakeL = (s.pc u).wakeL := by
    intro u; by_cases e : u = t
    · subst e; exact hwk
    · rw [hpc u e]
  have hL : ∀ k, Listed s' k ↔ Listed s k := by
    intro k; simp only [Listed, hQ, hwk']
  refine Inv9.step t h4 h (fun k => (hL k).1) (fun k => (hQ k).1) (fun k hk _ => (hL k).2 hk) hwr hw hpc hwv henq hmt ?_ hpw hlim hhl
  rcases hrec with ⟨a, b⟩ | c
  · exact Or.inl ⟨a, b, fun k _ hk => (hL k).2 hk⟩
  · exact Or.inr (Or.inl c)

/-- The general form: `t` acts; the contents of at most one record `kx`, on which no other thread
    waits, change arbitrarily; records may enter the lists only as `t`'s new wait record. -/
theorem Inv9.core {s s' : State} (t : Tid) (kx : Option Wid) (h4 : Inv4 s) (h : Inv9 s)
    (hw4 : ∀ k, Queued s' k → s'.word.waiting = true)
    (hw4p : ∀ u, (s'.pc u).enqPend = true → s'.word.waiting = true)
    (hw4m : ∀ u old, (s'.pc u).mtOld = some old → ∀ k, Queued s' k → old.waiting = true)
    (hLsub : ∀ x, Listed s' x → Listed s x ∨ (s'.pc t).waitRec = some x)
    (hLkeep : ∀ x, Listed s x → (s.pc t).waitRec ≠ some x → kx ≠ some x → Listed s' x)
    (hwr : ∀ x, kx ≠ some x → (s'.wr x).waiting = (s.wr x).waiting ∧ (s'.wr x).lType = (s.wr x).lType ∧
      ((s.wr x).sem ≠ 0 → (s'.wr x).sem ≠ 0))
    (hkx : ∀ u, u ≠ t → ∀ x, kx = some x → (s.pc u).waitRec ≠ some x)
    (hpc : ∀ u, u ≠ t → s'.pc u = s.pc u)
    (hownt : ∀ x, (s.pc t).waitRec = some x → Listed s' x → (s'.pc t).waitRec = some x)
    (hltt : ∀ x, (s'.pc t).waitRec = some x → (s'.wr x).lType = (s'.pc t).wmode)
    (hw3t : ∀ x, (s'.pc t).waitRec = some x → (s'.wr x).waiting = true → Listed s' x)
    (hw1t : ∀ x, (s'.pc t).pwait = some x → (s'.wr x).waiting = false →
      (s'.wr x).sem ≠ 0 ∨ ∃ u r rest, s'.pc u = .usWakeV r x rest)
    (hw1o : ∀ r x rest, s.pc t = .usWakeV r x rest → (s'.wr x).sem ≠ 0 ∨ s'.pc t = .usWakeV r x rest)
    (hlimt : ∀ k l, (s'.pc t).limboL = some (k, l) → (s'.wr k).lType = l)
    (hkxl : ∀ u, u ≠ t → ∀ x l, (s.pc u).limboL = some (x, l) → kx ≠ some x)
    (hhlt : ∀ k, (s'.pc t).hlRec = some k → (s'.wr k).waiting = false)
    (hkxh : ∀ u, u ≠ t → ∀ x, (s.pc u).hlRec = some x → kx ≠ some x) : Inv9 s' := by
  have hne : ∀ u, u ≠ t → ∀ x, (s.pc u).waitRec = some x → kx ≠ some x := fun u hu x hx e => hkx u hu x e hx
  refine ⟨?_, ?_, hw4, hw4p, hw4m, ?_, ?_, ?_, ?_⟩
  · intro u k hu
    by_cases e : u = t
    · subst e; exact hhlt k hu
    · rw [hpc u e] at hu
      rw [(hwr k (hkxh u e k hu)).1]; exact h.hlf u k hu
  · intro u k l hu
    by_cases e : u = t
    · subst e; exact hlimt k l hu
    · rw [hpc u e] at hu
      rw [(hwr k (hkxl u e k l hu)).2.1]; exact h.lim u k l hu
  · intro x hx
    rcases hLsub x hx with a | a
    · obtain ⟨u, hu⟩ := h.own x a
      by_cases e : u = t
      · subst e; exact ⟨u, hownt x hu hx⟩
      · exact ⟨u, by rw [hpc u e]; exact hu⟩
    · exact ⟨t, a⟩
  · intro u x hu
    by_cases e : u = t
    · subst e; exact hltt x hu
    · rw [hpc u e] at hu ⊢
      rw [(hwr x (hne u e x hu)).2.1]; exact h.lt u x hu
  · intro u x hu hwt
    by_cases e : u = t
    · subst e; exact hw3t x hu hwt
    · rw [hpc u e] at hu
      rw [(hwr x (hne u e x hu)).1] at hwt
      exact hLkeep x (h.w3 u x hu hwt) (fun ht => e (waitRec_unique h4 hu ht)) (hne u e x hu)
  · intro u x hu hwf
    by_cases e : u = t
    · subst e; exact hw1t x hu hwf
    · rw [hpc u e] at hu
      have hx := hne u e x (pwait_waitRec hu)
      rw [(hwr x hx).1] at hwf
      rcases h.w1 u x hu hwf with a | ⟨v, r, rest, hv⟩
      · exact Or.inl ((hwr x hx).2.2 a)
      · by_cases ev : v = t
        · subst ev
          rcases hw1o r x rest hv with b | b
          · exact Or.inl b
          · exact Or.inr ⟨v, r, rest, b⟩
        · exact Or.inr ⟨v, r, rest, by rw [hpc v ev]; exact hv⟩

/-- Only semaphores change (never to 0 for a record somebody waits on at a P), or `t` alone moves on
    without touching lists or wait records. -/
theorem Inv9.sem_step {s s' : State} (t : Tid) (h : Inv9 s)
    (hq : s'.queue = s.queue) (hw : s'.word = s.word)
    (hwr : ∀ x, (s'.wr x).waiting = (s.wr x).waiting ∧ (s'.wr x).lType = (s.wr x).lType)
    (hpc : ∀ u, u ≠ t → s'.pc u = s.pc u)
    (hsc : (s'.pc t).scan? = (s.pc t).scan?) (hwk : (s'.pc t).wakeL = (s.pc t).wakeL)
    (henq : (s'.pc t).enqPend = (s.pc t).enqPend) (hmt : (s'.pc t).mtOld = (s.pc t).mtOld)
    (hrec : (s'.pc t).waitRec = (s.pc t).waitRec) (hwm : (s.pc t).waitRec ≠ none → (s'.pc t).wmode = (s.pc t).wmode)
    (hlm : (s'.pc t).limboL = (s.pc t).limboL) (hhl : (s'.pc t).hlRec = (s.pc t).hlRec)
    (hw1 : ∀ u x, (s'.pc u).pwait = some x → (s'.wr x).waiting = false →
      (s'.wr x).sem ≠ 0 ∨ ∃ v r rest, s'.pc v = .usWakeV r x rest) : Inv9 s' := by
  have hsc' : ∀ u, (s'.pc u).scan? = (s.pc u).scan? := by
    intro u; by_cases e : u = t
    · subst e; exact hsc
    · rw [hpc u e]
  have hwk' : ∀ u, (s'.pc u).wakeL = (s.pc u).wakeL := by
    intro u; by_cases e : u = t
    · subst e; exact hwk
    · rw [hpc u e]
  have hQ := queued_congr hq hsc'
  have hL : ∀ k, Listed s' k ↔ Listed s k := by intro k; simp only [Listed, hQ, hwk']
  have hp : ∀ {α : Type} (f : PC → α), f (s'.pc t) = f (s.pc t) → ∀ u, f (s'.pc u) = f (s.pc u) := by
    intro α f hf u; by_cases e : u = t
    · subst e; exact hf
    · rw [hpc u e]
  refine ⟨?_, ?_, ?_, ?_, ?_, ?_, ?_, ?_, hw1⟩
  · intro u k hu; rw [hp PC.hlRec hhl u] at hu; rw [(hwr k).1]; exact h.hlf u k hu
  · intro u k l hu; rw [hp PC.limboL hlm u] at hu; rw [(hwr k).2]; exact h.lim u k l hu
  · intro k hk; rw [hw]; exact h.w4 k ((hQ k).1 hk)
  · intro u hu; rw [hp PC.enqPend henq u] at hu; rw [hw]; exact h.w4p u hu
  · intro u old ho k hk; rw [hp PC.mtOld hmt u] at ho; exact h.w4m u old ho k ((hQ k).1 hk)
  · intro k hk
    obtain ⟨u, hu⟩ := h.own k ((hL k).1 hk)
    exact ⟨u, by rw [hp PC.waitRec hrec u]; exact hu⟩
  · intro u k hu
    rw [hp PC.waitRec hrec u] at hu
    rw [(hwr k).2]
    by_cases e : u = t
    · subst e; rw [hwm (by rw [hu]; simp)]; exact h.lt u k hu
    · rw [hpc u e]; exact h.lt u k hu
  · intro u k hu hwt
    rw [hp PC.waitRec hrec u] at hu
    rw [(hwr k).1] at hwt
    exact (hL k).2 (h.w3 u k hu hwt)

theorem inv9_init : Inv9 init := by
  refine ⟨?_, ?_, ?_, ?_, ?_, ?_, ?_, ?_, ?_⟩
  · intro t k hk; simp [init, PC.hlRec] at hk
  · intro t k l hk; simp [init, PC.limboL] at hk
  · intro k hk; simp [Queued, init, PC.scan?] at hk
  · intro t ht; simp [init, PC.enqPend] at ht
  · intro t old ho; simp [init, PC.mtOld] at ho
  · rintro k (hk | ⟨u, hu⟩)
    · simp [Queued, init, PC.scan?] at hk
    · simp [init, PC.wakeL] at hu
  · intro t k hk; simp [init, PC.waitRec] at hk
  · intro t k hk; simp [init, PC.waitRec] at hk
  · intro t k hk; simp [init, PC.pwait] at hk

end NsyncVerif.MuC
