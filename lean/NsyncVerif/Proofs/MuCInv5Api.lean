import NsyncVerif.Proofs.MuCInv5Cas2
/-
  MuC, MU_CONDITION hint: remaining steps; the invariant in every reachable state.
-/
namespace NsyncVerif.MuC

theorem inv5_stepCasC {s s' : State} {t : Tid} {o : Ord} {loc : Loc} {exp new obs : Nat} {ok : Bool}
    (h3 : Inv3 s) (h4 : Inv4 s) (h : Inv5 s)
    (hp : match s.pc t with
      | .usFinCas _ _ _ | .mwEnqCas _ _ | .mtCasAcq _ _ => True
      | _ => False)
    (hs : stepCas s t o loc exp new obs ok = .ok s') : Inv5 s' := by
  unfold stepCas at hs
  split at hs
  all_goals try (rename_i heq; rw [heq] at hp; exact False.elim hp)
  all_goals try (rename_i hne; split at hp <;> first | exact False.elim hp | (exfalso; simp_all; done))
  · -- usFinCas: MU_CONDITION is cleared only when no waiter is left
    rename_i r f old heq
    rcases casWord_ok hs with ⟨hw, -, rfl⟩ | ⟨-, -, rfl⟩
    · rw [afterFin_eq]
      have hsc : ∀ x, (finPc r x).scan? = none := by
        intro x; cases x <;> cases r <;> rfl
      have hmto : ∀ x, (finPc r x).mtOld = none := by
        intro x; cases x <;> cases r <;> rfl
      have hlco : ∀ x, (finPc r x).limboC = none := by
        intro x; cases x <;> cases r <;> rfl
      have hQ : ∀ k, Queued (setPc (if f.late = true then { s with word := finWord f old, sp := none, wOwner := none }
          else { s with word := finWord f old, sp := none }) t (finPc r f.wake)) k ↔ Queued s k := by
        intro k
        refine queued_same (t := t) (by split <;> simp) (by intro u hu; split <;> simp [setFn, hu]) ?_ k
        simp only [setPc_pc, setFn_same, heq]; rw [hsc]; rfl
      cases hce : f.cEmpty with
      | false =>
        refine Inv5.local t h (fun k hk => (hQ k).1 hk) (by intro x; split <;> simp) ?_ (by intro u hu; split <;> simp [setFn, hu]) ?_ ?_
        · intro hc; split <;> simp [finWord, hce, ← hw, hc]
        · intro o' ho; simp [hmto] at ho
        · intro k c hl; simp [hlco] at hl
      | true =>
        -- nothing is queued
        have hq0 : s.queue = [] := by
          have := h4.finq t f (by rw [heq]; rfl)
          rw [hce] at this
          exact List.isEmpty_iff.mp this.symm
        have hnone : ∀ k, ¬ Queued s k := by
          rintro k (hk | ⟨u, sc, h1, h2⟩)
          · rw [hq0] at hk; cases hk
          · have := h4.uniq u t (unl_of_scan h1) (by rw [heq]; rfl)
            subst this; rw [heq] at h1; simp [PC.scan?] at h1
        refine ⟨fun k hk => absurd ((hQ k).1 hk) (hnone k), fun u o' _ k hk => absurd ((hQ k).1 hk) (hnone k), ?_⟩
        intro u k c hl
        by_cases hu : u = t
        · subst hu; simp [hlco] at hl
        · have : (s.pc u).limboC = some (k, c) := by split at hl <;> simpa [setFn, hu] using hl
          have := h.h3 u k c this
          split <;> simpa using this
    · inv5_local t h heq
  · -- mwEnqCas: the enqueue CAS sets MU_CONDITION when the waiter has a condition
    rename_i c old heq
    split at hs
    · cases hs
    · rename_i k hcw
      have hok3 := h3.ok3 t; rw [heq] at hok3
      rcases casWord_ok hs with ⟨hw, -, rfl⟩ | ⟨-, -, rfl⟩
      · -- the spinlock was free: nobody is inside mu_try_acquire_after_timeout_or_cancel with the lock
        have hnomt : ∀ u o', (s.pc u).mtOld = some o' → False := by
          intro u o' ho
          have hsp : (s.pc u).spin = true := by
            cases hpc : s.pc u <;> rw [hpc] at ho <;> simp [PC.mtOld] at ho <;> rfl
          have h1 := (h3.own u).2 hsp
          have h2 := h3.bit; rw [hw, hok3, h1] at h2; cases h2
        have hkc : (s.wr k).cond = c.cond := h.h3 t k c.cond (by rw [heq]; simp [PC.limboC, hcw])
        have hwrc : ∀ x, ((setPc (if c.first = true then enqLast { s with word := mwEnqWord c.cond.isSome old, sp := some t } k
              else enqFirst { s with word := mwEnqWord c.cond.isSome old, sp := some t } k) t
              (PC.mwRelLd { c with hadW := old.waiting, first := false })).wr x).cond = (s.wr x).cond := by
          intro x; split <;> simp [enqLast, enqFirst, cond_of_merge]
        have hwd : (setPc (if c.first = true then enqLast { s with word := mwEnqWord c.cond.isSome old, sp := some t } k
              else enqFirst { s with word := mwEnqWord c.cond.isSome old, sp := some t } k) t
              (PC.mwRelLd { c with hadW := old.waiting, first := false })).word = mwEnqWord c.cond.isSome old := by
          split <;> simp [enqLast, enqFirst]
        have hQ : ∀ x, Queued (setPc (if c.first = true then enqLast { s with word := mwEnqWord c.cond.isSome old, sp := some t } k
              else enqFirst { s with word := mwEnqWord c.cond.isSome old, sp := some t } k) t
              (PC.mwRelLd { c with hadW := old.waiting, first := false })) x → x = k ∨ Queued s x := by
          intro x hx
          rcases hx with hx | ⟨u, sc, h1, h2⟩
          · have : x = k ∨ x ∈ s.queue := by
              split at hx <;> simp [enqLast, enqFirst] at hx
              · rcases hx with e | e
                · exact Or.inr e
                · exact Or.inl e
              · exact hx
            rcases this with e | e
            · exact Or.inl e
            · exact Or.inr (Or.inl e)
          · right; right; refine ⟨u, sc, ?_, h2⟩
            by_cases hu : u = t
            · subst hu; simp [PC.scan?] at h1
            · split at h1 <;> simpa [enqLast, enqFirst, setFn, hu] using h1
        refine ⟨?_, ?_, ?_⟩
        · intro x hx hc
          rw [hwd]; rw [hwrc] at hc
          rcases hQ x hx with e | e
          · subst e
            rw [hkc] at hc
            cases hcc : c.cond with
            | none => exact absurd hcc hc
            | some cd => simp [mwEnqWord]
          · simp [mwEnqWord, ← hw, h.h1 x e hc]
        · intro u o' ho
          by_cases hu : u = t
          · subst hu; simp [PC.mtOld] at ho
          · exfalso
            have : (s.pc u).mtOld = some o' := by split at ho <;> simpa [enqLast, enqFirst, setFn, hu] using ho
            exact hnomt u o' this
        · intro u k' c' hl
          by_cases hu : u = t
          · subst hu
            simp only [setPc_pc, setFn_same, PC.limboC, hcw, Option.map_some, Option.some.injEq, Prod.mk.injEq] at hl
            rw [hwrc, ← hl.1, ← hl.2]; exact hkc
          · have : (s.pc u).limboC = some (k', c') := by split at hl <;> simpa [enqLast, enqFirst, setFn, hu] using hl
            rw [hwrc]; exact h.h3 u k' c' this
      · inv5_local t h heq
  · -- mtCasAcq: `old_word` is the current word
    rename_i c old heq
    rcases casWord_ok hs with ⟨hw, -, rfl⟩ | ⟨-, -, rfl⟩
    · refine Inv5.local t h ?_ (by intro x; simp) (by simp [mtAcqWord, ← hw]) (by intro u hu; simp [setFn, hu]) ?_ ?_
      · intro k hk
        exact (queued_same (t := t) (by simp) (by intro u hu; simp [setFn, hu]) (by simp [heq, PC.scan?]) k).1 hk
      · intro o' ho; right; simp [PC.mtOld] at ho; rw [hw, ho]
      · intro k c' hl; simp [PC.limboC] at hl
    · inv5_local t h heq

end NsyncVerif.MuC
