/-
  Proofs/SemWaitInvQ2c.lean — preservation of the invariant by the effects of a thread step: `q3` (the owner's program point).
-/
import NsyncVerif.Proofs.SemWaitInvAux

namespace SemWait
set_option maxHeartbeats 400000
set_option linter.unusedVariables false

theorem q_q3c {cfg : Config} {s s' : State} {t : Tid} (hc : cfg.noReread = false) (ha : InvA s) (hq : InvQ s) (he : Eff cfg s t s') :
    ∀ u r, s'.post u = some r → enqNL (s'.pc (s'.rcd r).owner) = true := by
  have q1 := hq.q1
  have q3 := hq.q3
  have i1 := ha.i1
  have i4 := ha.i4
  have i5 := ha.i5
  have h1 := ha.h1
  eff_cases he
  case nop  =>
    clear ha hq; clear q1 i1 i4 i5 h1; grind [enqNL, protoMode, ndNext, nfNext]
  case semV j =>
    clear ha hq; clear q1 i1 i4 i5 h1; grind [enqNL, protoMode, ndNext, nfNext]
  case semP j c hu hs =>
    clear ha hq; clear q1 i1 i4 i5 h1; grind [enqNL, protoMode, ndNext, nfNext]
  case lock k hp hl =>
    clear ha hq; clear q1 i1 i4 i5 h1; grind [enqNL, protoMode, ndNext, nfNext]
  case unlock k hp hl hpost hfq =>
    clear ha hq; clear q1 i1 i4 i5 h1; grind [enqNL, protoMode, ndNext, nfNext]
  case setFlag k hp hl hk hf hd =>
    clear ha hq; clear q1 i1 i4 i5 h1; grind [enqNL, protoMode, ndNext, nfNext]
  case born k p hp hk hfr hne hl hf htp =>
    clear ha hq; clear q1 i1 i4 i5 h1; grind [enqNL, protoMode, ndNext, nfNext]
  case pop r tl hp hqu hl hf hpost =>
    have h0 := q3_pop ha hq hp hqu hl
    revert h0
    proj_simp
    intro h0 u' r' h'
    obtain ⟨a, b, c, d, e, f, g⟩ := h0 u' r' h'
    exact f
  case postDead r j hp hpost hlive =>
    have h0 := q3_posted (cfg := cfg) (j := j) hq hpost
    revert h0
    proj_simp
    intro h0 u' r' h'
    obtain ⟨a, b, c, d, e, f, g⟩ := h0 u' r' h'
    exact f
  case postBound r j hp hpost hlive hsem =>
    have h0 := q3_posted (cfg := cfg) (j := j) hq hpost
    revert h0
    proj_simp
    intro h0 u' r' h'
    obtain ⟨a, b, c, d, e, f, g⟩ := h0 u' r' h'
    exact f
  case postBind r j hp hpost hlive hsem huser =>
    clear ha hq; clear q1 i1 i4 i5 h1; grind [enqNL, protoMode, ndNext, nfNext]
  case newNote k ex hp hk =>
    clear ha hq; clear q1 h1; grind [enqNL, protoMode, enqNL_enq, enq_hasNw, hasNw_inCall]
  case inherit k p hp hk hfr hne =>
    clear ha hq; clear q1 i1 i4 i5 h1; grind [enqNL, protoMode, ndNext, nfNext]
  case call n dl hpc hk hpost hl =>
    clear ha hq; clear q1 i1 i4 i5 h1; grind [enqNL, protoMode, ndNext, nfNext]
  case openEnd u hpc hf hl hpost hqu =>
    clear ha hq; cases u <;> (clear q1 i1 i4 i5 h1; grind [enqNL, protoMode, ndNext, nfNext])
  case nd_ld0_set u hpc hf =>
    clear ha hq; cases u <;> (clear q1 i1 i4 i5 h1; grind [enqNL, protoMode, ndNext, nfNext])
  case nd_ld0_clr u hpc hf =>
    clear ha hq; cases u <;> (clear q1 i1 i4 i5 h1; grind [enqNL, protoMode, ndNext, nfNext])
  case nd_lk u hpc hl =>
    clear ha hq; cases u <;> (clear q1 i5 h1; grind [enqNL, protoMode])
  case nd_ld1 u hpc =>
    clear ha hq; cases u <;> (clear q1 i1 i4 i5 h1; grind [enqNL, protoMode, ndNext, nfNext])
  case nd_ulk_done u obs hpc hl hob =>
    clear ha hq; cases u <;> (clear q1 i1 i4 i5 h1; grind [enqNL, protoMode, ndNext, nfNext])
  case nd_ulk_now u obs hpc hl hob =>
    clear ha hq; cases u <;> (clear q1 i1 i4 i5 h1; grind [enqNL, protoMode, ndNext, nfNext])
  case nd_now_exp u hpc hx =>
    clear ha hq; cases u <;> (clear q1 i1 i4 i5 h1; grind [enqNL, protoMode, ndNext, nfNext])
  case nd_now_ok u hpc hx =>
    clear ha hq; cases u <;> (clear q1 i1 i4 i5 h1; grind [enqNL, protoMode, ndNext, nfNext])
  case nf_lk u hpc hl =>
    clear ha hq; cases u <;> (clear q1 i5 h1; grind [enqNL, protoMode])
  case nf_ld_ulk u hpc hf =>
    clear ha hq; cases u <;> (clear q1 i1 i4 i5 h1; grind [enqNL, protoMode, ndNext, nfNext])
  case nf_ld_open u hpc hf =>
    clear ha hq; cases u <;> (clear q1 i1 i4 i5 h1; grind [enqNL, protoMode, ndNext, nfNext])
  case nf_ulk u hpc hl =>
    clear ha hq; cases u <;> (clear q1 i1 i4 i5 h1; grind [enqNL, protoMode, ndNext, nfNext])
  case m_init r hpc hlive =>
    clear ha hq; clear q1 i5 h1; grind [enqNL, protoMode]
  case m_lk1 hpc hl =>
    clear ha hq; clear q1 i5 h1; grind [enqNL, protoMode]
  case m_ld49_enq r hpc hen hnw =>
    clear ha hq; clear q1 i1 i4 i5 h1; grind [enqNL, protoMode, ndNext, nfNext]
  case m_ld49_no hpc hen =>
    clear ha hq; clear q1 i1 i4 i5 h1; grind [enqNL, protoMode, ndNext, nfNext]
  case m_ulk1 b hpc hl =>
    clear ha hq; clear q1 i1 i4 i5 h1; grind [enqNL, protoMode, ndNext, nfNext]
  case m_pdEnterBound j hpc hsem =>
    clear ha hq; clear q1 i1 i4 i5 h1; grind [enqNL, protoMode, ndNext, nfNext]
  case m_pdEnterBind j hpc hsem huser =>
    clear ha hq; clear q1 i1 i4 i5 h1; grind [enqNL, protoMode, ndNext, nfNext]
  case m_tmoNear j hpc hx hn =>
    clear ha hq; clear q1 i1 i4 i5 h1; grind [enqNL, protoMode, ndNext, nfNext]
  case m_tmoFar j hpc hx hn =>
    clear ha hq; clear q1 i1 i4 i5 h1; grind [enqNL, protoMode, ndNext, nfNext]
  case m_p0 j c hpc hs =>
    clear ha hq; clear q1 i1 i4 i5 h1; grind [enqNL, protoMode, ndNext, nfNext]
  case m_lk2 hpc hl =>
    clear ha hq; clear q1 i5 h1; grind [enqNL, protoMode]
  case m_ld68_rm r hpc htp hnw hm =>
    clear ha hq; clear q1 i4 i5 h1; grind [enqNL, protoMode]
  case m_ld68_no hpc htp =>
    clear ha hq; clear q1 i1 i4 i5 h1; grind [enqNL, protoMode, ndNext, nfNext]
  case m_ulk2 hpc hl =>
    clear ha hq; clear q1 i1 i4 i5 h1; grind [enqNL, protoMode, ndNext, nfNext]
  case m_ret hpc =>
    clear ha hq; clear q1 i5 h1; grind [enqNL, protoMode]

end SemWait
