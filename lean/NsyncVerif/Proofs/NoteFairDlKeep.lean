/-
  Layer `Note`, fair termination of `nsync_note_wait` with a finite deadline: the phases of the
  wait (`ph2`: before / at / inside / after the wait loop of `nsync_wait_n`; only a P that returns 0
  leads back to the `ready_time` load), and the deadline of a sleep is never later than the
  deadline of the wait (`PC.sleepOk`).
-/
import NsyncVerif.Proofs.NoteFairFull

set_option linter.unusedSimpArgs false

namespace Note

def DK.kph : DK → Nat
  | .ready1 _ => 3
  | .ready2 _ _ => 1
  | _ => 0

def NK.kph : NK → Nat
  | .ofDeadline k => k.kph
  | .ofApi => 0

/-- Phase of a `nsync_note_wait`: 3 before the wait loop, 2 at its `ready_time` load, 1 inside it,
    0 after it (and for every other call). -/
def ph2 : PC → Nat
  | .dl .ld1 _ _ (.ready2 _ _) => 2
  | .dl _ _ _ k => k.kph
  | .nfy _ _ _ k => k.kph
  | .chd _ _ top => top.k.kph
  | .wt0 .ncall _ _ | .wt0 .newRec _ _ => 3
  | .wt p _ _ _ =>
    (match p with
     | .eLockCall | .eLockRet | .eLd | .eSt _ | .eUnlockCall | .eUnlockRet => 3
     | .pdEnter _ | .pdRet _ => 1
     | _ => 0)
  | _ => 0

/-- The deadline of the sleep is the minimum of the deadline of the wait and something. -/
def PC.sleepOk : PC → Prop
  | .wt (.pdEnter m) _ wdl _ | .wt (.pdRet m) _ wdl _ => ∃ nt, m = Dl.min wdl nt
  | _ => True

theorem sleepOk_afterDeadlinePc (n : NoteId) (nt : Dl) (k : DK) :
    (afterDeadlinePc n nt k).sleepOk := by
  cases k <;> simp only [afterDeadlinePc] <;> (repeat' split) <;>
    first | trivial | exact ⟨_, rfl⟩

theorem sleepOk_afterNotifyPc (n : NoteId) (k : NK) : (afterNotifyPc n k).sleepOk := by
  cases k with
  | ofApi => trivial
  | ofDeadline k => exact sleepOk_afterDeadlinePc n (some 0) k

theorem sleepOk_childReturnPc (f : Frame) (rest : List Frame) (top : Top) :
    (childReturnPc f rest top).sleepOk := by
  unfold childReturnPc
  cases rest with
  | cons g r => trivial
  | nil => cases top.par <;> trivial

theorem sleepOk_childLoopStartPc (cs : List NoteId) (f : Frame) (rest : List Frame) (top : Top) :
    (childLoopStartPc cs f rest top).sleepOk := by cases cs <;> trivial

theorem sleepOk_childWakeNextPc (s : State) (f : Frame) (rest : List Frame) (top : Top) :
    (childWakeNextPc s f rest top).sleepOk := by
  unfold childWakeNextPc
  split
  · trivial
  · exact sleepOk_childLoopStartPc _ _ _ _

theorem sleepOk_freeLoopStartPc (cs : List NoteId) (n : NoteId) (par : Option NoteId) :
    (freeLoopStartPc cs n par).sleepOk := by cases cs <;> trivial

theorem ph2_afterDeadlinePc (n : NoteId) (nt : Dl) (k : DK) : ph2 (afterDeadlinePc n nt k) ≤ k.kph := by
  cases k <;> simp only [afterDeadlinePc] <;> (repeat' split) <;> simp [ph2, DK.kph, NK.kph]

theorem ph2_afterNotifyPc (n : NoteId) (k : NK) : ph2 (afterNotifyPc n k) ≤ k.kph := by
  cases k with
  | ofApi => simp [afterNotifyPc, ph2, NK.kph]
  | ofDeadline k => exact ph2_afterDeadlinePc n (some 0) k

theorem ph2_childReturnPc (f : Frame) (rest : List Frame) (top : Top) :
    ph2 (childReturnPc f rest top) = top.k.kph := by
  unfold childReturnPc
  cases rest with
  | cons g r => rfl
  | nil => cases top.par <;> rfl

theorem ph2_childLoopStartPc (cs : List NoteId) (f : Frame) (rest : List Frame) (top : Top) :
    ph2 (childLoopStartPc cs f rest top) = top.k.kph := by cases cs <;> rfl

theorem ph2_childWakeNextPc (s : State) (f : Frame) (rest : List Frame) (top : Top) :
    ph2 (childWakeNextPc s f rest top) = top.k.kph := by
  unfold childWakeNextPc
  split
  · rfl
  · exact ph2_childLoopStartPc _ _ _ _

theorem ph2_freeLoopStartPc (cs : List NoteId) (n : NoteId) (par : Option NoteId) :
    ph2 (freeLoopStartPc cs n par) = 0 := by cases cs <;> rfl

theorem kph_le_dl (p : DPos) (n : NoteId) (nt : Dl) (k : DK) : k.kph ≤ ph2 (.dl p n nt k) := by
  cases p <;> cases k <;> simp [ph2, DK.kph]

theorem ph2_dl_ld1 (n : NoteId) (nt nt' : Dl) (k : DK) :
    ph2 (.dl .lockCall n nt' k) ≤ ph2 (.dl .ld1 n nt k) := by
  cases k <;> simp [ph2, DK.kph]

/-- The P of the wait loop returned 0. -/
def Spurious (s : State) (e : Event) (t : Tid) : Prop :=
  ∃ sem d n wdl r, e = .pdRet t sem false ∧ s.pc t = .wt (.pdRet d) n wdl r

/-- What an own step keeps. -/
def KeepDl (s s' : State) (e : Event) (t : Tid) : Prop :=
  ((s.pc t).sleepOk → (s'.pc t).sleepOk) ∧ (ph2 (s'.pc t) ≤ ph2 (s.pc t) ∨ Spurious s e t)

macro "kdl_simp" : tactic => `(tactic| (
  simp only [KeepDl, setPc_pc, upd_same, afterDeadline_pc, afterNotify_pc, childReturn_pc,
    childWakeNext_pc, childScanStart_pc, freeLoopStart_pc, enterChild_pc, leave_pc, addUser_pc,
    markCalled_pc, markFreeing_pc, setAfter_pc, pushObs_pc, publish_pc, delUser_pc, modRec_pc,
    modNote_pc, markBorn_pc, setNow_pc, allocNote_pc, acquire_pc, release_pc, incDisc_pc,
    decDisc_pc, setWaiters_pc, setAdopted_pc, setExpiry_pc, setNotified_pc, markFreed_pc,
    eraseChild_pc, clearParent_pc, link_pc, unlink_pc, newExpiry_pc] at *))

macro "kdl_close" : tactic => `(tactic| (
  refine ⟨?_, ?_⟩
  · intro hso
    rw [‹Note.State.pc _ _ = _›] at hso
    first
      | exact sleepOk_afterDeadlinePc _ _ _
      | exact sleepOk_afterNotifyPc _ _
      | exact sleepOk_childReturnPc _ _ _
      | exact sleepOk_childLoopStartPc _ _ _ _
      | exact sleepOk_childWakeNextPc _ _ _ _
      | exact sleepOk_freeLoopStartPc _ _ _
      | exact hso
      | trivial
  · left
    rw [‹Note.State.pc _ _ = _›]
    try simp only [ph2_childReturnPc, ph2_childLoopStartPc, ph2_childWakeNextPc,
      ph2_freeLoopStartPc]
    first
      | (simp [ph2, DK.kph, NK.kph]; done)
      | exact Nat.le_trans (ph2_afterDeadlinePc _ _ _) (kph_le_dl _ _ _ _)
      | exact ph2_afterNotifyPc _ _
      | (rename_i dk _; cases dk <;> simp [ph2, DK.kph, NK.kph]; done)))

theorem kdl_lockRet {s s' : State} {t : Tid}  (hs : step s (.lockRet t) = .ok s')
    (hp : s.pc t ≠ .idle) : KeepDl s s' (.lockRet t) t := by
  step_cases hs
  all_goals kdl_simp
  all_goals (try (exact absurd ‹s.pc t = PC.idle› hp))
  all_goals (try (kdl_close; done))

theorem kdl_lockCall {s s' : State} {t : Tid} {k : NoteId} (hs : step s (.lockCall t k) = .ok s')
    (hp : s.pc t ≠ .idle) : KeepDl s s' (.lockCall t k) t := by
  step_cases hs
  all_goals kdl_simp
  all_goals (try (exact absurd ‹s.pc t = PC.idle› hp))
  all_goals (try (kdl_close; done))

theorem kdl_unlockCall {s s' : State} {t : Tid} {k : NoteId} (hs : step s (.unlockCall t k) = .ok s')
    (hp : s.pc t ≠ .idle) : KeepDl s s' (.unlockCall t k) t := by
  step_cases hs
  all_goals kdl_simp
  all_goals (try (exact absurd ‹s.pc t = PC.idle› hp))
  all_goals (try (kdl_close; done))

theorem kdl_unlockRet {s s' : State} {t : Tid}  (hs : step s (.unlockRet t) = .ok s')
    (hp : s.pc t ≠ .idle) : KeepDl s s' (.unlockRet t) t := by
  step_cases hs
  all_goals kdl_simp
  all_goals (try (exact absurd ‹s.pc t = PC.idle› hp))
  all_goals (try (kdl_close; done))

theorem kdl_tryCall {s s' : State} {t : Tid} {k : NoteId} (hs : step s (.tryCall t k) = .ok s')
    (hp : s.pc t ≠ .idle) : KeepDl s s' (.tryCall t k) t := by
  step_cases hs
  all_goals kdl_simp
  all_goals (try (exact absurd ‹s.pc t = PC.idle› hp))
  all_goals (try (kdl_close; done))

theorem kdl_tryRet {s s' : State} {t : Tid} {ok : Bool} (hs : step s (.tryRet t ok) = .ok s')
    (hp : s.pc t ≠ .idle) : KeepDl s s' (.tryRet t ok) t := by
  step_cases hs
  all_goals kdl_simp
  all_goals (try (exact absurd ‹s.pc t = PC.idle› hp))
  all_goals (try (kdl_close; done))

theorem kdl_waitCall {s s' : State} {t : Tid} {k : NoteId} (hs : step s (.waitCall t k) = .ok s')
    (hp : s.pc t ≠ .idle) : KeepDl s s' (.waitCall t k) t := by
  step_cases hs
  all_goals kdl_simp
  all_goals (try (exact absurd ‹s.pc t = PC.idle› hp))
  all_goals (try (kdl_close; done))

theorem kdl_waitRet {s s' : State} {t : Tid}  (hs : step s (.waitRet t) = .ok s')
    (hp : s.pc t ≠ .idle) : KeepDl s s' (.waitRet t) t := by
  step_cases hs
  all_goals kdl_simp
  all_goals (try (exact absurd ‹s.pc t = PC.idle› hp))
  all_goals (try (kdl_close; done))

theorem kdl_ld {s s' : State} {t : Tid} {site : Site} {ord : Ord} {k : NoteId} {obs : Nat} (hs : step s (.ld t site ord k obs) = .ok s')
    (hp : s.pc t ≠ .idle) : KeepDl s s' (.ld t site ord k obs) t := by
  step_cases hs
  all_goals kdl_simp
  all_goals (try (exact absurd ‹s.pc t = PC.idle› hp))
  all_goals (try (kdl_close; done))
  · refine ⟨fun _ => trivial, Or.inl ?_⟩
    rw [‹s.pc t = _›]
    exact ph2_dl_ld1 _ _ _ _

theorem kdl_stNote {s s' : State} {t : Tid} {site : Site} {ord : Ord} {k : NoteId} {new obs : Nat} (hs : step s (.stNote t site ord k new obs) = .ok s')
    (hp : s.pc t ≠ .idle) : KeepDl s s' (.stNote t site ord k new obs) t := by
  step_cases hs
  all_goals kdl_simp
  all_goals (try (exact absurd ‹s.pc t = PC.idle› hp))
  all_goals (try (kdl_close; done))

theorem kdl_stW {s s' : State} {t : Tid} {site : Site} {ord : Ord} {r : Rid} {new obs : Nat} (hs : step s (.stW t site ord r new obs) = .ok s')
    (hp : s.pc t ≠ .idle) : KeepDl s s' (.stW t site ord r new obs) t := by
  step_cases hs
  all_goals kdl_simp
  all_goals (try (exact absurd ‹s.pc t = PC.idle› hp))
  all_goals (try (kdl_close; done))

theorem kdl_ret {s s' : State} {t : Tid} {r : ApiRet} (hs : step s (.ret t r) = .ok s')
    (hp : s.pc t ≠ .idle) : KeepDl s s' (.ret t r) t := by
  step_cases hs
  all_goals kdl_simp
  all_goals (try (exact absurd ‹s.pc t = PC.idle› hp))
  all_goals (try (kdl_close; done))

theorem kdl_waitnCall {s s' : State} {t : Tid} {d : Dl} (hs : step s (.waitnCall t d) = .ok s')
    (hp : s.pc t ≠ .idle) : KeepDl s s' (.waitnCall t d) t := by
  step_cases hs
  all_goals kdl_simp
  all_goals (try (exact absurd ‹s.pc t = PC.idle› hp))
  all_goals (try (kdl_close; done))

theorem kdl_waitnRet {s s' : State} {t : Tid} {rd : Nat} (hs : step s (.waitnRet t rd) = .ok s')
    (hp : s.pc t ≠ .idle) : KeepDl s s' (.waitnRet t rd) t := by
  step_cases hs
  all_goals kdl_simp
  all_goals (try (exact absurd ‹s.pc t = PC.idle› hp))
  all_goals (try (kdl_close; done))

theorem kdl_now {s s' : State} {t : Tid} {v : Nat} (hs : step s (.now t v) = .ok s')
    (hp : s.pc t ≠ .idle) : KeepDl s s' (.now t v) t := by
  step_cases hs
  all_goals kdl_simp
  all_goals (try (exact absurd ‹s.pc t = PC.idle› hp))
  all_goals (try (kdl_close; done))

theorem kdl_semV {s s' : State} {t : Tid} {sem : Nat} (hs : step s (.semV t sem) = .ok s')
    (hp : s.pc t ≠ .idle) : KeepDl s s' (.semV t sem) t := by
  step_cases hs
  all_goals kdl_simp
  all_goals (try (exact absurd ‹s.pc t = PC.idle› hp))
  all_goals (try (kdl_close; done))

theorem kdl_pdEnter {s s' : State} {t : Tid} {sem : Nat} {d : Dl} (hs : step s (.pdEnter t sem d) = .ok s')
    (hp : s.pc t ≠ .idle) : KeepDl s s' (.pdEnter t sem d) t := by
  step_cases hs
  all_goals kdl_simp
  all_goals (try (exact absurd ‹s.pc t = PC.idle› hp))
  all_goals (try (kdl_close; done))

theorem kdl_pdRet {s s' : State} {t : Tid} {sem : Nat} {b : Bool} (hs : step s (.pdRet t sem b) = .ok s')
    (hp : s.pc t ≠ .idle) : KeepDl s s' (.pdRet t sem b) t := by
  step_cases hs
  all_goals kdl_simp
  all_goals (try (exact absurd ‹s.pc t = PC.idle› hp))
  all_goals (try (kdl_close; done))
  · refine ⟨fun _ => trivial, Or.inr ?_⟩
    cases b with
    | true => exact absurd rfl ‹¬ true = true›
    | false => exact ⟨_, _, _, _, _, rfl, ‹s.pc t = _›⟩

theorem kdl_malloc {s s' : State} {t : Tid} {res : Option NoteId} (hs : step s (.malloc t res) = .ok s')
    (hp : s.pc t ≠ .idle) : KeepDl s s' (.malloc t res) t := by
  step_cases hs
  all_goals kdl_simp
  all_goals (try (exact absurd ‹s.pc t = PC.idle› hp))
  all_goals (try (kdl_close; done))

theorem kdl_free {s s' : State} {t : Tid} {k : NoteId} (hs : step s (.free t k) = .ok s')
    (hp : s.pc t ≠ .idle) : KeepDl s s' (.free t k) t := by
  step_cases hs
  all_goals kdl_simp
  all_goals (try (exact absurd ‹s.pc t = PC.idle› hp))
  all_goals (try (kdl_close; done))

theorem own_keepDl {s s' : State} {e : Event} {t : Tid} (hs : step s e = .ok s')
    (ha : e.actor = some t) (hp : s.pc t ≠ .idle) : KeepDl s s' e t := by
  cases e <;> simp only [Event.actor, Option.some.injEq, reduceCtorEq] at ha <;> subst ha
  · exfalso
    cases hpc : s.pc _ with
    | idle => exact hp hpc
    | _ => simp [step, hpc] at hs
  · exact kdl_ret hs hp
  · exact kdl_ld hs hp
  · exact kdl_stNote hs hp
  · exact kdl_stW hs hp
  · exact kdl_lockCall hs hp
  · exact kdl_lockRet hs hp
  · exact kdl_unlockCall hs hp
  · exact kdl_unlockRet hs hp
  · exact kdl_tryCall hs hp
  · exact kdl_tryRet hs hp
  · exact kdl_waitCall hs hp
  · exact kdl_waitRet hs hp
  · exact kdl_waitnCall hs hp
  · exact kdl_waitnRet hs hp
  · exact kdl_now hs hp
  · exact kdl_semV hs hp
  · exact kdl_pdEnter hs hp
  · exact kdl_pdRet hs hp
  · exact kdl_malloc hs hp
  · exact kdl_free hs hp

end Note
