import NsyncVerif.Proofs.MuCInv12Resp
/-
  MuC, Inv12: initial state, client data accesses, environment events; reachability.
-/
namespace NsyncVerif.MuC

theorem inv12_init : Inv12 init := by
  refine ⟨?_, ?_, ?_, ?_, ?_, ?_, ?_, ?_⟩
  · intro h; simp [init, Word.zero] at h
  · intro h; simp [init, Word.zero] at h
  · intro h; simp [init, Word.zero] at h
  · intro t old ho; simp [init, PC.mtOld] at ho
  · intro t old ho; simp [init, PC.mtOld] at ho
  · intro t; simp [init, PC.ok12]
  · intro t k hk; simp [init, PC.lsRec] at hk
  · rintro _ (⟨k, hk, _⟩ | ⟨t, ht⟩)
    · simp [Queued, init, PC.scan?] at hk
    · simp [init, PC.enqPend] at ht

/-- Nothing the invariant speaks about changes. -/
theorem Inv12.env {s s' : State} (h : Inv12 s) (hq : s'.queue = s.queue)
    (hwr : ∀ x, (s'.wr x).cond = (s.wr x).cond ∧ (s'.wr x).lType = (s.wr x).lType) (hd : s'.data = s.data) (hpc : s'.pc = s.pc)
    (hh : s'.held = s.held) (hw : s'.word = s.word) (hnv : s'.nwViol = s.nwViol) (hwo : s'.wOwner = s.wOwner) : Inv12 s' := by
  have hQ : ∀ k, Queued s' k ↔ Queued s k := fun k => queued_congr hq (by intro u; rw [hpc]) k
  have hWJ : ∀ u, WJ s u → WJ s' u := by
    rintro u (b | ⟨k, b1, b2, b3, b4⟩)
    · left; rw [hpc]; exact b
    · right; exact ⟨k, by rw [hpc]; exact b1, by rw [hpc]; exact b2, by rw [hpc]; exact b3, fun e => b4 ((hQ k).1 e)⟩
  have hR : ∀ u, RespT s u → RespT s' u := by
    rintro u (b | (b | b | ⟨k, b1, b2, b3⟩) | b)
    · left; simpa [shareOf, hpc, hh] using b
    · right; left; left; rw [hpc]; exact b
    · right; left; right; left; rw [hpc]; exact b
    · right; left; right; right; exact ⟨k, by rw [hpc]; exact b1, by rw [hpc]; exact b2, fun e => b3 ((hQ k).1 e)⟩
    · right; right; rw [hpc]; exact b
  refine ⟨?_, ?_, ?_, ?_, ?_, ?_, ?_, ?_⟩
  · intro a
    rw [hw] at a
    rcases h.ww a with ⟨u, b⟩ | ⟨k, b1, b2, b3⟩
    · exact Or.inl ⟨u, hWJ u b⟩
    · exact Or.inr ⟨k, (hQ k).2 b1, by rw [(hwr k).2]; exact b2, by rw [(hwr k).1, hd]; exact b3⟩
  · intro a ⟨v, c1, c2⟩
    rw [hw] at a
    rcases h.wws a ⟨v, by rw [← hwo]; exact c1, by rw [← hpc]; exact c2⟩ with ⟨u, b⟩ | ⟨k, b1, b2, b3⟩
    · exact Or.inl ⟨u, hWJ u b⟩
    · exact Or.inr ⟨k, (hQ k).2 b1, by rw [(hwr k).2]; exact b2, by rw [(hwr k).1]; exact b3⟩
  · intro a
    rw [hw] at a
    obtain ⟨u, c, b1, b2⟩ := h.lw a
    exact ⟨u, c, by rw [hpc]; exact b1, b2⟩
  · intro u old a; rw [hpc] at a; rw [hw]; exact h.mtw u old a
  · intro u old a b; rw [hpc] at a; rw [hw]; exact h.mtlw u old a b
  · intro u; rw [hpc]; exact h.ok u
  · intro u k a; rw [hpc] at a; rw [(hwr k).1]; exact h.rcn u k a
  · intro a b
    have b0 : NeedN s := by
      rcases b with ⟨k, b1, b2⟩ | ⟨u, b⟩
      · exact Or.inl ⟨k, (hQ k).1 b1, by rw [← (hwr k).1]; exact b2⟩
      · exact Or.inr ⟨u, by rw [← hpc]; exact b⟩
    obtain ⟨w, c⟩ := h.nm (by rw [← hnv]; exact a) b0
    exact ⟨w, hR w c⟩

theorem inv12_dataW {s : State} {t : Tid} {x : Nat} {v : Int} (a : Invs s) (h : Inv12 s) (ht : s.held t = some .W) :
    Inv12 { s with data := setFn s.data x v } := by
  have hc : ClientW s := by
    refine ⟨t, (a.i1.lock.wown t).2 (by simp [shareOf, tshare, ht]), ?_⟩
    rw [a.i1.hidle t (by rw [ht]; simp)]; rfl
  have hWJ : ∀ u, WJ s u → WJ { s with data := setFn s.data x v } u := fun u b => b
  have key : s.word.ww = true → (∃ u, WJ { s with data := setFn s.data x v } u) ∨ WB0 { s with data := setFn s.data x v } := by
    intro b
    rcases h.wws b hc with ⟨u, c⟩ | ⟨k, c1, c2, c3⟩
    · exact Or.inl ⟨u, hWJ u c⟩
    · exact Or.inr ⟨k, c1, c2, c3⟩
  refine ⟨?_, ?_, h.lw, h.mtw, h.mtlw, h.ok, h.rcn, ?_⟩
  · intro b
    rcases key b with c | ⟨k, c1, c2, c3⟩
    · exact Or.inl c
    · refine Or.inr ⟨k, c1, c2, ?_⟩
      have : ({ s with data := setFn s.data x v } : State).wr k = s.wr k := rfl
      rw [this, c3]; rfl
  · intro b _; exact key b
  · intro _ _
    exact ⟨t, Or.inl (by simp [shareOf, tshare, ht])⟩

theorem inv12_step {cfg : Cfg} {s s' : State} {e : Event} (a : Invs s) (a' : Invs s') (h : Inv12 s)
    (hs : step cfg s e = .ok s') : Inv12 s' := by
  cases e with
  | call t _ | ret t _ _ | ld t _ _ _ | st t _ _ _ _ | cas t _ _ _ _ _ _ | cond t _ _ _
  | semPEnter t _ | semPRet t _ | semPdEnter t _ _ | semPdRet t _ _ | semV t _ | noteSeen t | noteNotify t =>
    exact inv12_of_tl a a' (step_tl (t := t) a.i1 a.i3 hs rfl (by intro u x v e; cases e) (by intro u x v e; cases e)) h
  | envV k =>
    simp only [step] at hs; cases hs
    exact h.env (by simp) (by intro x; simp) (by simp) (by simp) (by simp) (by simp) (by simp) (by simp)
  | envSem k n =>
    simp only [step] at hs
    split at hs
    · cases hs; exact h.env rfl (by intro x; simp [setFn]; split <;> simp_all) rfl rfl rfl rfl rfl rfl
    · cases hs
  | dataW t x v =>
    simp only [step] at hs
    split at hs
    · rename_i ht; cases hs; exact inv12_dataW a h ht
    · cases hs
  | dataR t x v =>
    simp only [step] at hs
    split at hs
    · cases hs; exact h
    · cases hs
  | tick n =>
    simp only [step] at hs
    split at hs
    · cases hs; exact h.env rfl (fun _ => ⟨rfl, rfl⟩) rfl rfl rfl rfl rfl rfl
    · cases hs

theorem reachable_Inv12 {cfg : Cfg} {s : State} (h : Reachable cfg s) : Inv12 s :=
  reachable_induction (P := Inv12) inv12_init
    (fun _ _ _ hr hp hs => inv12_step (reachable_invs hr) (reachable_invs (reachable_step hr hs)) hp hs) s h

end NsyncVerif.MuC
