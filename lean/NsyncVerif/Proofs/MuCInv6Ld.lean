import NsyncVerif.Proofs.MuCInv6Enq
/-
  MuC, ring invariant: load and store steps.
-/
namespace NsyncVerif.MuC

theorem Inv4.nd_prefix {s : State} (h4 : Inv4 s) (u : Tid) : (s.queue ++ (s.pc u).priv).Nodup := by
  have := h4.nd u
  simp only [allOf] at this
  exact (List.nodup_append.mp this).1

theorem inv6_stepLd {s s' : State} {t : Tid} {o : Ord} {loc : Loc} {obs : Nat} (h4 : Inv4 s) (h : Inv6 s)
    (hs : stepLd s t o loc obs = .ok s') : Inv6 s' := by
  unfold stepLd at hs
  split at hs
  all_goals first
    | (rename_i heq; ld_case6 t h heq hs)
    | skip
  -- mtLdRc: the waiter removes itself
  rename_i c old heq
  dsimp only at hs
  repeat' split at hs
  all_goals first
    | (cases hs; done)
    | (cases hs; inv6_local t h heq)
    | skip
  rename_i k hk _ _ _ _ hmem
  cases hs
  refine Inv6.selfRemove t k _ h h4 hmem (by simp [PC.scan?]) (by rw [heq]; simp [PC.scan?]) ?_
  intro c' hc'
  rw [heq]
  simp only [PC.mw, Option.some.injEq] at hc' ⊢
  exact ⟨c, rfl, by rw [hc']⟩

theorem inv6_stepSt {s s' : State} {t : Tid} {o : Ord} {loc : Loc} {new obs : Nat} (h4 : Inv4 s) (h : Inv6 s)
    (hs : stepSt s t o loc new obs = .ok s') : Inv6 s' := by
  unfold stepSt at hs
  split at hs
  · -- lsSt: the record is reset and queued
    rename_i c heq
    dsimp only at hs
    repeat' split at hs
    all_goals first
      | (cases hs; done)
      | skip
    iterate 2
      · rename_i k _ _ _ _ _ hcw hown hwait _
        simp only [Bool.not_eq_true] at hwait
        cases hs
        have hnq : ¬ Queued s k := fun e => by have := h4.wait k e; rw [hwait] at this; cases this
        first
        | refine Inv6.enqLast t k _ (Inv6.reset k h hnq rfl rfl rfl (by intro x hx; simp [setFn, hx]) (by simp [setFn])
            (by intro cd hcd; simp [setFn] at hcd)) (fun u => h4.nd_prefix u) hnq (by simp [PC.scan?]) (by
              show (s.pc t).scan? = none
              rw [heq]; simp [PC.scan?]) ?_
        | refine Inv6.enqFirst t k _ (Inv6.reset k h hnq rfl rfl rfl (by intro x hx; simp [setFn, hx]) (by simp [setFn])
            (by intro cd hcd; simp [setFn] at hcd)) (fun u => h4.nd_prefix u) hnq (by simp [PC.scan?]) (by
              show (s.pc t).scan? = none
              rw [heq]; simp [PC.scan?]) ?_
        intro c' hc'
        refine ⟨c', ?_, rfl⟩
        show (s.pc t).mw = some c'
        rw [heq]
        simpa [PC.mw] using hc'
    iterate 2
      · rename_i k _ _ _ _ _ k' hcw hkk hwait _
        simp only [Bool.not_eq_true] at hwait
        cases hs
        have hnq : ¬ Queued s k := fun e => by have := h4.wait k e; rw [hwait] at this; cases this
        first
        | refine Inv6.enqLast t k _ (Inv6.reset k h hnq rfl rfl rfl (by intro x hx; simp [setFn, hx]) (by simp [setFn])
            (by intro cd hcd; simp [setFn] at hcd)) (fun u => h4.nd_prefix u) hnq (by simp [PC.scan?]) (by
              show (s.pc t).scan? = none
              rw [heq]; simp [PC.scan?]) ?_
        | refine Inv6.enqFirst t k _ (Inv6.reset k h hnq rfl rfl rfl (by intro x hx; simp [setFn, hx]) (by simp [setFn])
            (by intro cd hcd; simp [setFn] at hcd)) (fun u => h4.nd_prefix u) hnq (by simp [PC.scan?]) (by
              show (s.pc t).scan? = none
              rw [heq]; simp [PC.scan?]) ?_
        intro c' hc'
        refine ⟨c', ?_, rfl⟩
        show (s.pc t).mw = some c'
        rw [heq]
        simpa [PC.mw] using hc'
  · rename_i heq; ld_case6 t h heq hs
  · -- mwStW: the record, on no list, gets the condition of the call
    rename_i c heq
    dsimp only at hs
    repeat' split at hs
    all_goals first
      | (cases hs; done)
      | skip
    · rename_i k _ _ _ _ _ hcw hown hwait
      simp only [Bool.not_eq_true] at hwait
      cases hs
      have hnq : ¬ Queued s k := fun e => by have := h4.wait k e; rw [hwait] at this; cases this
      have hcm : CondOk s.cargs c.cond := h.cmw t c (by rw [heq]; rfl)
      refine Inv6.resetPc t k _ _ h hnq rfl hcm (by simp [PC.scan?]) (by rw [heq]; simp [PC.scan?]) ?_
      intro c' hc'
      exact ⟨c, by simp [heq, PC.mw], by simp [PC.mw] at hc'; rw [← hc']⟩
    · rename_i k _ _ _ _ _ k' hcw hkk hwait
      simp only [Bool.not_eq_true] at hwait
      cases hs
      have hnq : ¬ Queued s k := fun e => by have := h4.wait k e; rw [hwait] at this; cases this
      have hcm : CondOk s.cargs c.cond := h.cmw t c (by rw [heq]; rfl)
      refine Inv6.resetPc t k _ _ h hnq rfl hcm (by simp [PC.scan?]) (by rw [heq]; simp [PC.scan?]) ?_
      intro c' hc'
      exact ⟨c, by simp [heq, PC.mw], by simp [PC.mw] at hc'; rw [← hc']⟩
  · rename_i heq; ld_case6 t h heq hs
  · rename_i heq; ld_case6 t h heq hs
  · cases hs

end NsyncVerif.MuC
