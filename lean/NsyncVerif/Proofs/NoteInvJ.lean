/-
  Layer `Note`, invariant J (delivery): a notified note with children has a thread inside
  `note_notify_child` on it, past the store of the flag.  This file: the definitions, how an
  activation ends (`step_active`: only by leaving WAIT_FOR_NO_CHILDREN with an EMPTY list — since the
  repair of F4 it scans again when `children_adopted` ended the wait), and the preservation of the
  invariant given that the adoption step of `nsync_note_free` never appends to an empty list of a
  notified parent (`step_invJ'`).  That this never happens on the repaired code (F7: the note being
  freed is itself still on that list) is `Proofs/NoteFixJ.lean` (`Reachable.invJ`); `ReachableH`
  (the hypothesis needed before the repair: no adoption under an already notified parent at all)
  is kept for the corollaries.
-/
import NsyncVerif.Proofs.NoteInvJ0

set_option linter.unusedSimpArgs false

namespace Note

/-- The thread has an activation of `note_notify_child` on `p` that has stored the flag of `p`. -/
def Active (pc : PC) (p : NoteId) : Prop :=
  match pc with
  | .chd pos (f :: rest) _ => (f.note = p ∧ pos.stored = true) ∨ p ∈ rest.map Frame.note
  | _ => False

/-- The step is the adoption (note.c:215-218) of a child under a parent whose flag is already set. -/
def AdoptsUnderNotified (s : State) (e : Event) : Prop :=
  ∃ t n p c nx, e = .lockRet t ∧ s.pc t = .fr .lockChildRet n (some p) c nx ∧
    (s.notes c).disconnecting = 0 ∧ (s.notes p).notified = true

/-- States reachable without ever adopting a child under a notified parent. -/
inductive ReachableH : State → Prop
  | init : ReachableH Note.init
  | step {s s' : State} {e : Event} : ReachableH s → step s e = .ok s' →
      ¬ AdoptsUnderNotified s e → ReachableH s'

theorem ReachableH.reachable {s : State} (h : ReachableH s) : Reachable s := by
  induction h with
  | init => exact Reachable.start
  | step _ hs _ ih => exact ih.next hs

theorem active_childReturnPc (f : Frame) (rest : List Frame) (top : Top) (p : NoteId) :
    Active (Note.childReturnPc f rest top) p ↔ p ∈ rest.map Frame.note := by
  unfold Note.childReturnPc
  cases rest with
  | cons g gs => simp [Active, eq_comm]
  | nil => cases top.par <;> simp [Active]

theorem active_childLoopStartPc (cs : List NoteId) (f : Frame) (rest : List Frame) (top : Top)
    (p : NoteId) :
    Active (Note.childLoopStartPc cs f rest top) p ↔ f.note = p ∨ p ∈ rest.map Frame.note := by
  cases cs <;> simp [Note.childLoopStartPc, Active]

theorem active_childWakeNextPc (s : State) (f : Frame) (rest : List Frame) (top : Top)
    (p : NoteId) :
    Active (Note.childWakeNextPc s f rest top) p ↔ f.note = p ∨ p ∈ rest.map Frame.note := by
  unfold Note.childWakeNextPc
  split
  · simp [Active]
  · exact active_childLoopStartPc _ f rest top p

theorem active_afterDeadlinePc (n : NoteId) (nt : Dl) (dk : DK) (p : NoteId) :
    ¬ Active (Note.afterDeadlinePc n nt dk) p := by
  cases dk <;> simp only [Note.afterDeadlinePc] <;> (try split) <;> (try split) <;> simp [Active]

theorem active_freeLoopStartPc (cs : List NoteId) (n : NoteId) (par : Option NoteId) (p : NoteId) :
    ¬ Active (Note.freeLoopStartPc cs n par) p := by
  cases cs <;> simp [Note.freeLoopStartPc, Active]

theorem Active.move {pos pos' : CPos} {stk : List Frame} {top : Top} {p : NoteId}
    (hs : pos'.stored = true) (h : Active (.chd pos stk top) p) : Active (.chd pos' stk top) p := by
  cases stk with
  | nil => exact h
  | cons f rest =>
    rcases h with h | h
    · exact Or.inl ⟨h.1, hs⟩
    · exact Or.inr h

theorem Active.push {pos pos' : CPos} {stk : List Frame} {top : Top} {p : NoteId} (g : Frame)
    (hs : pos.stored = true) (h : Active (.chd pos stk top) p) :
    Active (.chd pos' (g :: stk) top) p := by
  cases stk with
  | nil => exact absurd h (by simp [Active])
  | cons f rest =>
    right
    rcases h with h | h
    · simp [h.1]
    · simp only [List.map_cons, List.mem_cons]; exact Or.inr h

/-- An activation past the store ends only by leaving WAIT_FOR_NO_CHILDREN, i.e. with an empty
    children list. -/
theorem step_active {s s' : State} {e : Event} (hs : step s e = .ok s') (a : Tid)
    (ha : e.actor = some a) (p : NoteId) (hp : Active (s.pc a) p) :
    Active (s'.pc a) p ∨ (s.notes p).children = [] := by
  cases e
  all_goals step_cases hs
  all_goals simp only [Event.actor, Option.some.injEq, reduceCtorEq] at ha
  all_goals (try subst ha)
  all_goals (try (rw [‹s.pc _ = _›] at hp))
  all_goals (try (simp [Active] at hp; done))
  all_goals (try (simp only [setPc_pc, upd_same, afterDeadline_pc, afterNotify_pc, childReturn_pc,
    childWakeNext_pc, childScanStart_pc, freeLoopStart_pc, enterChild_pc, leave_pc, addUser_pc, markCalled_pc,
    markFreeing_pc, setAfter_pc, pushObs_pc, publish_pc, delUser_pc]))
  all_goals (try (left; simpa [Active] using hp; done))
  -- early return from `ld`: the head had not stored, only outer activations count
  all_goals (try (
    left
    rw [active_childReturnPc]
    simpa [Active] using hp))
  -- after the store / a wake-up: same stack
  all_goals (try (
    left
    rw [active_childWakeNextPc]
    simp only [Active, CPos.stored] at hp
    rcases hp with hp | hp
    · exact Or.inl hp.1
    · exact Or.inr hp))
  all_goals (try (
    left
    rw [active_childWakeNextPc]
    simp only [Active, CPos.stored] at hp
    rcases hp with hp | hp
    · simp at hp
    · exact Or.inr hp))
  -- another scan after WAIT_FOR_NO_CHILDREN: same stack
  all_goals (try (
    left
    rw [active_childLoopStartPc]
    simp only [Active, CPos.stored] at hp
    rcases hp with hp | hp
    · exact Or.inl hp.1
    · exact Or.inr hp))
  -- positions with a general stack
  all_goals (try (left; exact Active.move rfl hp))
  all_goals (try (left; exact Active.push _ rfl hp))
  -- leaving WAIT_FOR_NO_CHILDREN
  all_goals (try (
    simp only [Active, CPos.stored] at hp
    rcases hp with hp | hp
    · right; rw [← hp.1]; assumption
    · left; rw [active_childReturnPc]; exact hp))

/-- A flag is set by a thread that thereby has an activation past the store on the note — or by
    `nsync_note_new` on the note it is creating (parent already notified, note.c/7). -/
theorem step_flag_active {s s' : State} {e : Event} (hs : step s e = .ok s') (n : NoteId)
    (hn : (s'.notes n).notified = true) :
    (s.notes n).notified = true ∨ (∃ a, e.actor = some a ∧ Active (s'.pc a) n) ∨
    (∃ a p dl, e.actor = some a ∧ s.pc a = .newP .st n p dl) := by
  cases e
  all_goals step_cases hs
  all_goals (try (left; exact hn))
  all_goals (try (left; simpa using hn))
  all_goals (repeat' split at hn)
  all_goals (try (left; simpa using hn))
  all_goals (first
    | (simp only [childWakeNext_f_notified, setNotified_f_notified] at hn
       split at hn
       · next h =>
         right; left
         have hk := (by assumption : _ = Site.childSt ∧ _ ∧ _ ∧ _).2.2.1
         refine ⟨_, rfl, ?_⟩
         simp only [childWakeNext_pc, upd_same]
         rw [active_childWakeNextPc]
         left; rw [← hk, h]
       · left; exact hn)
    | (simp only [setPc_notes, markBorn_notes, setNotified_f_notified] at hn
       split at hn
       · next h => subst h; right; right; exact ⟨_, _, _, rfl, by assumption⟩
       · left; exact hn)
    | (simp only [setPc_notes, allocNote_f] at hn
       split at hn
       · simp [NoteRec.blank] at hn
       · left; exact hn))

/-- The delivery invariant. -/
def InvJ (s : State) : Prop :=
  ∀ p, (s.notes p).notified = true → (s.notes p).children ≠ [] → ∃ t, Active (s.pc t) p

/-- Preservation, given that the adoption step (note.c: `nsync_note_free` appends a child of the
    note being freed to `parent->children`) never appends to an EMPTY list of a notified parent.
    Since the repair of F7 this is a fact (`Proofs/NoteFixJ.lean`: the note being freed is itself
    still on that list); `ReachableH` assumes it away. -/
theorem step_invJ' {s s' : State} {e : Event} (hr : Reachable s) (hJ : InvJ s)
    (hs : step s e = .ok s')
    (hno : ∀ t n p c nx, e = .lockRet t → s.pc t = .fr .lockChildRet n (some p) c nx →
      (s.notes c).disconnecting = 0 → (s.notes p).notified = true → (s.notes p).children ≠ []) :
    InvJ s' := by
  intro p hn hch
  rcases step_flag_active hs p hn with hn0 | ⟨a, _, hact⟩ | ⟨a, q, dl, ha, hpc⟩
  · -- the flag was already set
    by_cases hch0 : (s.notes p).children = []
    · -- the list was empty: who added a child?
      exfalso
      obtain ⟨c, hc⟩ := List.exists_mem_of_ne_nil _ hch
      rcases step_children' hs p c hc with h | ⟨a, dl, _, _, hpos⟩ | ⟨a, n, nx, he, hpc, hd⟩
      · rw [hch0] at h; cases h
      · -- nsync_note_new links only under an un-notified parent
        unfold NoteRec.ntime Dl.pos at hpos
        simp [hn0] at hpos
      · exact hno a n p c nx he hpc hd hn0 hch0
    · obtain ⟨t, ht⟩ := hJ p hn0 hch0
      by_cases ha : e.actor = some t
      · rcases step_active hs t ha p ht with h | h
        · exact ⟨t, h⟩
        · exact absurd h hch0
      · exact ⟨t, by rw [step_pc_other hs t ha]; exact ht⟩
  · exact ⟨a, hact⟩
  · -- the note is still being created: it has no children, and this step adds none
    exfalso
    have hch0 : (s.notes p).children = [] :=
      hr.creating_no_children (t := a) (by rw [hpc]; simp)
    obtain ⟨c, hc⟩ := List.exists_mem_of_ne_nil _ hch
    rcases step_children' hs p c hc with h | ⟨a', dl', ha', hpc', _⟩ | ⟨a', n, nx, he, hpc', _⟩
    · rw [hch0] at h; cases h
    · rw [ha] at ha'; cases ha'; rw [hpc] at hpc'; cases hpc'
    · subst he
      simp only [Event.actor, Option.some.injEq] at ha
      subst ha; rw [hpc] at hpc'; cases hpc'

theorem step_invJ {s s' : State} {e : Event} (hr : Reachable s) (hJ : InvJ s)
    (hs : step s e = .ok s') (hno : ¬ AdoptsUnderNotified s e) : InvJ s' :=
  step_invJ' hr hJ hs (fun t n p c nx he hpc hd hn _ => hno ⟨t, n, p, c, nx, he, hpc, hd, hn⟩)

theorem ReachableH.invJ {s : State} (h : ReachableH s) : InvJ s := by
  induction h with
  | init => intro p hn; simp [Note.init, NoteRec.blank] at hn
  | step hprev hs hno ih => exact step_invJ hprev.reachable ih hs hno

theorem Reachable.invT {s : State} (h : Reachable s) : InvT s := by
  refine Reachable.induction (P := InvT) InvT.init ?_ s h
  intro s e s' hr hT hs
  have h6 := hr.inv6
  exact step_invT h6.2.2.1 h6.2.2.2.2.1 hT hs

end Note
