/-
  Layer `Note`, invariant family L: preservation of the order facts, and the agreement between
  the abstract mutexes and the program counters (`LockInv`).
-/
import NsyncVerif.Proofs.NoteInvL2

set_option linter.unusedSimpArgs false

namespace Note

theorem step_invL {s s' : State} {e : Event} (hS : InvS s) (hN : InvN s) (hL : InvL s)
    (hs : Note.step s e = .ok s') : InvL s' := by
  have hst := step_stable hs
  refine ⟨?_, ?_, ?_, ?_⟩
  · intro t
    by_cases ha : e.actor = some t
    · exact LClaim.stable hS hs (LClaim.actor0 hS hL hN hs t ha)
    · rw [step_pc_other hs t ha]; exact LClaim.stable hS hs (hL.claim t)
  · -- antisymmetry
    intro a b hab hba
    rcases step_ghost hs b with ⟨hb, _, _⟩ | ⟨hb0, hb1⟩
    · rcases step_ghost hs a with ⟨ha, _, _⟩ | ⟨ha0, ha1⟩
      · rw [hb] at hab; rw [ha] at hba; exact hL.anti a b hab hba
      · -- a is fresh
        rw [hb] at hab
        have := hS.anc b a hab
        rw [ha0] at this; cases this
    · -- b is fresh
      rcases step_ghost hs a with ⟨ha, _, _⟩ | ⟨ha0, ha1⟩
      · rw [ha] at hba
        have := hS.anc a b hba
        rw [hb0] at this; cases this
      · -- both fresh: the same note
        rcases step_alloc hs a ha1 with h | ⟨t, par, dl, he, _⟩
        · rw [ha0] at h; cases h
        · rcases step_alloc hs b hb1 with h | ⟨t', par', dl', he', _⟩
          · rw [hb0] at h; cases h
          · rw [he] at he'; cases he'; rfl
  · -- children
    intro p c hc
    rcases step_children hs p c hc with h | ⟨a, dl, _, hpc⟩ | ⟨a, n, nx, _, hpc⟩
    · exact hL.children p c h
    · have hcl := hS.claim a
      rw [hpc] at hcl
      intro hpc'
      subst hpc'
      have := congrArg List.length hcl.2.2.1
      simp at this
    · have hcl := hL.claim a
      rw [hpc] at hcl
      exact (Lt.trans hL (hcl.2.1 p rfl) (hcl.2.2 rfl)).2
  · -- parent
    intro p c hc
    rcases step_parent hs p c hc with h | ⟨a, dl, _, hpc⟩ | ⟨a, n, nx, _, hpc⟩
    · exact hL.parent p c h
    · have hcl := hS.claim a
      rw [hpc] at hcl
      intro hpc'
      subst hpc'
      have := congrArg List.length hcl.2.2.1
      simp at this
    · have hcl := hL.claim a
      rw [hpc] at hcl
      exact (Lt.trans hL (hcl.2.1 p rfl) (hcl.2.2 rfl)).2

/-- The five invariant families hold in every reachable state. -/
theorem Reachable.inv5 {s : State} (h : Reachable s) :
    InvA s ∧ InvN s ∧ InvS s ∧ InvX s ∧ InvL s := by
  refine Reachable.induction (P := fun s => InvA s ∧ InvN s ∧ InvS s ∧ InvX s ∧ InvL s)
    ⟨InvA.init, InvN.init, InvS.init, InvX.init, InvL.init⟩ ?_ s h
  intro s e s' _ hi hs
  exact ⟨step_invA hi.1 hs, step_invN hi.1 hi.2.1 hs, step_invS hi.2.2.1 hs,
    step_invX hi.1 hi.2.1 hi.2.2.2.1 hs, step_invL hi.2.2.1 hi.2.1 hi.2.2.2.2 hs⟩

end Note
