/-
  Proofs/WaitNQUpd3.lean — `QI` under: pop by a note / counter waker, its post, the dequeue mark, record
  birth and death.
-/
import NsyncVerif.Proofs.WaitNQUpd2

set_option linter.unusedSimpArgs false
set_option linter.unusedVariables false

namespace WaitN

/-- a note / counter waker pops the head of the queue, clears `waiting`, and owes a post -/
theorem qi_pop {s : State} {o : ObjId} {r : Rid} {tl : List Rid} {t : Tid} {x : Unl} (h : QI s)
    (hq : (s.obj o).queue = r :: tl) (hcv : o.isCv = false) (hl : (s.obj o).lock = some t)
    (hpost : s.post t = none) (hmc : s.mc t = .none) (hopn : opn (s.pc t) = true) (hwk : wk (s.pc t) = none) :
    QI (((s.setObj o { s.obj o with queue := tl }).setRec r { s.rcd r with waiting := false, unl := x }).setPost t (some r)) := by
  have hr1 := h.q1 o r (by rw [hq]; simp)
  have hnd := h.q2 o
  rw [hq] at hnd
  have hrtl : r ∉ tl := (List.nodup_cons.1 hnd).1
  have hnp : ∀ u c l, wk (s.pc u) = some (c, l) → r ∉ pend (s.post u) l := by
    intro u c l hw hm
    exact ((h.q4 u c l hw).2.2 r hm).2.2.2.2 o (by rw [hq]; simp)
  constructor
  · intro o' r' hr'
    simp only [setPost_obj, setRec_obj, setObj_obj, setPost_rcd, setRec_rcd, setObj_rcd] at hr' ⊢
    by_cases ho : o' = o
    · subst ho
      simp only [if_true] at hr'
      have hne : r' ≠ r := fun hh => by subst hh; exact hrtl hr'
      simp only [hne, if_false]; exact h.q1 _ r' (by rw [hq]; exact List.mem_cons_of_mem _ hr')
    · simp only [ho, if_false] at hr'
      have := h.q1 o' r' hr'
      by_cases hrr : r' = r
      · subst hrr; exact absurd (this.2.1.symm.trans hr1.2.1) (fun e => ho e)
      · simpa [hrr] using this
  · intro o'
    simp only [setPost_obj, setRec_obj, setObj_obj]
    split
    · exact (List.nodup_cons.1 hnd).2
    · exact h.q2 o'
  · intro r' h1 h2
    simp only [setPost_rcd, setRec_rcd, setObj_rcd, setPost_obj, setRec_obj, setObj_obj, setPost_pc, setRec_pc,
      setObj_pc, setPost_post] at h1 h2 ⊢
    by_cases hrr : r' = r
    · subst hrr; simp at h2
    · simp only [hrr, if_false] at h1 h2 ⊢
      rcases h.q3 r' h1 h2 with h3 | ⟨u, c, l, h3, h4⟩
      · left; split
        · rename_i ho; rw [ho, hq] at h3
          rcases List.mem_cons.1 h3 with h3 | h3
          · exact absurd h3 hrr
          · exact h3
        · exact h3
      · right
        refine ⟨u, c, l, h3, ?_⟩
        by_cases hu : u = t
        · subst hu; rw [hwk] at h3; cases h3
        · simpa [hu] using h4
  · intro u c l hw
    simp only [setPost_pc, setRec_pc, setObj_pc, setPost_post, setPost_rcd, setRec_rcd, setObj_rcd, setPost_obj,
      setRec_obj, setObj_obj] at hw ⊢
    have hu : u ≠ t := fun hh => by subst hh; rw [hwk] at hw; cases hw
    simp only [hu, if_false]
    obtain ⟨a1, a2, a3⟩ := h.q4 u c l hw
    refine ⟨a1, a2, fun r' hr' => ?_⟩
    have hrr : r' ≠ r := fun hh => by subst hh; exact hnp u c l hw hr'
    obtain ⟨b1, b2, b3, b4, b5⟩ := a3 r' hr'
    simp only [hrr, if_false]
    refine ⟨b1, b2, b3, b4, fun o' => ?_⟩
    split
    · intro hm; exact b5 o (by rw [hq]; exact List.mem_cons_of_mem _ hm)
    · exact b5 o'
  · intro u u' c l c' l' hne h1 h2
    simp only [setPost_pc, setRec_pc, setObj_pc, setPost_post] at h1 h2 ⊢
    have hu : u ≠ t := fun hh => by subst hh; rw [hwk] at h1; cases h1
    have hu' : u' ≠ t := fun hh => by subst hh; rw [hwk] at h2; cases h2
    simp only [hu, hu', if_false]
    exact h.q4d u u' c l c' l' hne h1 h2
  · intro u r' hpo
    simp only [setPost_post, setPost_pc, setRec_pc, setObj_pc, setPost_rcd, setRec_rcd, setObj_rcd, setPost_obj,
      setRec_obj, setObj_obj] at hpo ⊢
    by_cases hu : u = t
    · subst hu
      simp only [if_true] at hpo
      cases hpo
      right
      simp only [if_true]
      refine ⟨hr1.1, hr1.2.2.2, by rw [hr1.2.1]; exact hcv, ?_, trivial⟩
      rw [hr1.2.1]; simp [hl]
    · simp only [hu, if_false] at hpo
      rcases h.q5 u r' hpo with h1 | ⟨a1, a2, a3, a4, a5⟩
      · exact .inl h1
      · right
        have hrr : r' ≠ r := by
          intro hh; subst hh
          rw [hr1.2.1, hl] at a4; cases a4; exact hu rfl
        simp only [hrr, if_false]
        refine ⟨a1, a2, a3, ?_, a5⟩
        split
        · rename_i ho; rw [ho] at a4; exact a4
        · exact a4
  · intro u hpo
    simp only [setPost_post, setPost_mc, setRec_mc, setObj_mc, setPost_pc, setRec_pc, setObj_pc] at hpo ⊢
    by_cases hu : u = t
    · subst hu; exact ⟨hmc, hopn⟩
    · simp only [hu, if_false] at hpo; exact h.q6 u hpo
  · intro o' hcv'
    simp only [setPost_obj, setRec_obj, setObj_obj]
    split
    · rename_i ho; subst ho; intro _ _; simp [hl]
    · exact h.q7 o' hcv'
  · intro n
    simp only [setPost_obj, setRec_obj, setObj_obj]
    split
    · rename_i ho; intro hd; have := h.q8 n (by rw [ho]; exact hd); rw [ho, hq] at this; cases this
    · exact h.q8 n
  · intro o'
    simp only [setPost_obj, setRec_obj, setObj_obj]
    split
    · rename_i ho; subst ho; intro hk; have := (h.q9 _ hk).1; rw [hq] at this; cases this
    · exact h.q9 o'
  · intro c
    simp only [setPost_obj, setRec_obj, setObj_obj]
    split
    · rename_i ho; rw [← ho]; exact h.q10 c
    · exact h.q10 c
  · exact h.q11

/-- the post of a note / counter waker -/
theorem qi_postDone {s : State} {t : Tid} (h : QI s) (hwk : wk (s.pc t) = none) : QI (s.setPost t none) := by
  constructor
  · exact h.q1
  · exact h.q2
  · intro r h1 h2
    rcases h.q3 r h1 h2 with h3 | ⟨u, c, l, h3, h4⟩
    · exact .inl h3
    · right; refine ⟨u, c, l, h3, ?_⟩
      have hu : u ≠ t := fun hh => by subst hh; rw [hwk] at h3; cases h3
      simpa [hu] using h4
  · intro u c l hw
    have hu : u ≠ t := fun hh => by subst hh; simp only [setPost_pc] at hw; rw [hwk] at hw; cases hw
    simp only [setPost_post, hu, if_false]
    exact h.q4 u c l hw
  · intro u u' c l c' l' hne h1 h2
    have hu : u ≠ t := fun hh => by subst hh; simp only [setPost_pc] at h1; rw [hwk] at h1; cases h1
    have hu' : u' ≠ t := fun hh => by subst hh; simp only [setPost_pc] at h2; rw [hwk] at h2; cases h2
    simp only [setPost_post, hu, hu', if_false]
    exact h.q4d u u' c l c' l' hne h1 h2
  · intro u r hpo
    simp only [setPost_post] at hpo
    split at hpo
    · cases hpo
    · exact h.q5 u r hpo
  · intro u hpo
    simp only [setPost_post] at hpo
    split at hpo
    · exact absurd rfl hpo
    · exact h.q6 u hpo
  · exact h.q7
  · exact h.q8
  · exact h.q9
  · exact h.q10
  · exact h.q11

/-- the owner's dequeue call on record r is over -/
theorem qi_setDeqd {s : State} {r : Rid} (h : QI s) (hw : (s.rcd r).waiting = false)
    (hp : ∀ u, s.post u = some r → (wk (s.pc u)).isSome = true) :
    QI (s.setRec r { s.rcd r with deqd := true }) := by
  have hnq : ∀ o, r ∉ (s.obj o).queue := fun o hm => by have := (h.q1 o r hm).2.2.1; rw [hw] at this; cases this
  have hnp : ∀ u c l, wk (s.pc u) = some (c, l) → r ∉ pend (s.post u) l := fun u c l hwk hm => by
    have := ((h.q4 u c l hwk).2.2 r hm).2.2.1; rw [hw] at this; cases this
  constructor
  · intro o r' hr'
    have hne : r' ≠ r := fun hh => by subst hh; exact hnq o hr'
    simp only [setRec_rcd, hne, if_false]; exact h.q1 o r' hr'
  · exact h.q2
  · intro r' h1 h2
    simp only [setRec_rcd, setRec_obj, setRec_pc, setRec_post] at h1 h2 ⊢
    by_cases hrr : r' = r
    · subst hrr; simp only [if_true] at h2; rw [hw] at h2; cases h2
    · simp only [hrr, if_false] at h1 h2 ⊢; exact h.q3 r' h1 h2
  · intro u c l hwk
    obtain ⟨a1, a2, a3⟩ := h.q4 u c l hwk
    refine ⟨a1, a2, fun r' hr' => ?_⟩
    have hrr : r' ≠ r := fun hh => by subst hh; exact hnp u c l hwk hr'
    simp only [setRec_rcd, setRec_obj, hrr, if_false]; exact a3 r' hr'
  · exact h.q4d
  · intro u r' hpo
    simp only [setRec_post, setRec_pc, setRec_rcd, setRec_obj] at hpo ⊢
    by_cases hrr : r' = r
    · subst hrr; exact .inl (hp u hpo)
    · simp only [hrr, if_false]; exact h.q5 u r' hpo
  · exact h.q6
  · exact h.q7
  · exact h.q8
  · exact h.q9
  · exact h.q10
  · exact h.q11

/-- a dead record is (re)initialised -/
theorem qi_init {s : State} {r : Rid} {t : Tid} {o : ObjId} (h : QI s) (hdead : (s.rcd r).live = false) :
    QI (s.setRec r { live := true, waiting := false, owner := t, obj := o, unl := .none, deqd := false }) := by
  have hnq : ∀ o', r ∉ (s.obj o').queue := fun o' hm => by have := (h.q1 o' r hm).1; rw [hdead] at this; cases this
  have hnp : ∀ u c l, wk (s.pc u) = some (c, l) → r ∉ pend (s.post u) l := fun u c l hwk hm => by
    have := ((h.q4 u c l hwk).2.2 r hm).1; rw [hdead] at this; cases this
  constructor
  · intro o' r' hr'
    have hne : r' ≠ r := fun hh => by subst hh; exact hnq o' hr'
    simp only [setRec_rcd, hne, if_false]; exact h.q1 o' r' hr'
  · exact h.q2
  · intro r' h1 h2
    simp only [setRec_rcd, setRec_obj, setRec_pc, setRec_post] at h1 h2 ⊢
    by_cases hrr : r' = r
    · subst hrr; simp at h2
    · simp only [hrr, if_false] at h1 h2 ⊢; exact h.q3 r' h1 h2
  · intro u c l hwk
    obtain ⟨a1, a2, a3⟩ := h.q4 u c l hwk
    refine ⟨a1, a2, fun r' hr' => ?_⟩
    have hrr : r' ≠ r := fun hh => by subst hh; exact hnp u c l hwk hr'
    simp only [setRec_rcd, setRec_obj, hrr, if_false]; exact a3 r' hr'
  · exact h.q4d
  · intro u r' hpo
    simp only [setRec_post, setRec_pc, setRec_rcd, setRec_obj] at hpo ⊢
    rcases h.q5 u r' hpo with h1 | ⟨a1, a2, a3, a4, a5⟩
    · exact .inl h1
    · have hrr : r' ≠ r := fun hh => by subst hh; rw [hdead] at a1; cases a1
      right; simp only [hrr, if_false]; exact ⟨a1, a2, a3, a4, a5⟩
  · exact h.q6
  · exact h.q7
  · exact h.q8
  · exact h.q9
  · exact h.q10
  · exact h.q11

/-- records whose dequeue calls are over die -/
theorem qi_kill {s : State} {l : List Rid} (h : QI s) (hd : ∀ r ∈ l, (s.rcd r).deqd = true ∨ (s.rcd r).live = false) :
    QI (s.kill l) := by
  have key : ∀ r, (s.rcd r).live = true → (s.rcd r).deqd = false → r ∉ l := by
    intro r h1 h2 hm
    rcases hd r hm with h3 | h3
    · rw [h2] at h3; cases h3
    · rw [h1] at h3; cases h3
  constructor
  · intro o r hr
    have := h.q1 o r hr
    simp only [kill_rcd, kill_obj, key r this.1 this.2.2.2, if_false]; exact this
  · exact h.q2
  · intro r h1 h2
    simp only [kill_rcd, kill_obj, kill_pc, kill_post] at h1 h2 ⊢
    by_cases hm : r ∈ l
    · simp [hm] at h1
    · simp only [hm, if_false] at h1 h2 ⊢; exact h.q3 r h1 h2
  · intro u c l' hwk
    obtain ⟨a1, a2, a3⟩ := h.q4 u c l' hwk
    refine ⟨a1, a2, fun r hr => ?_⟩
    have := a3 r hr
    simp only [kill_rcd, kill_obj, key r this.1 this.2.2.2.1, if_false]; exact this
  · exact h.q4d
  · intro u r hpo
    simp only [kill_post, kill_pc, kill_rcd, kill_obj] at hpo ⊢
    rcases h.q5 u r hpo with h1 | ⟨a1, a2, a3, a4, a5⟩
    · exact .inl h1
    · right; simp only [key r a1 a2, if_false]; exact ⟨a1, a2, a3, a4, a5⟩
  · exact h.q6
  · exact h.q7
  · exact h.q8
  · exact h.q9
  · exact h.q10
  · exact h.q11

end WaitN
