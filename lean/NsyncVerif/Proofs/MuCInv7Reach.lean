import NsyncVerif.Proofs.MuCInv7Ret
/-
  MuC, MU_ALL_FALSE: condition evaluations, the remaining steps; the invariant in every reachable state.
-/
namespace NsyncVerif.MuC

theorem condFalse_of_sameSem {s : State} {d : Nat → Int} {k x : Wid} (h : SameSem (s.wr k).cond (s.wr x).cond) (hk : CondFalse s d k) :
    CondFalse s d x := by
  obtain ⟨a, b, ha, hb, e⟩ := h
  obtain ⟨c, hc, hev⟩ := hk
  rw [ha] at hc; cases hc
  exact ⟨b, hb, by rw [← evalCond_sem e d]; exact hev⟩

theorem inv7_stepCond {s s' : State} {t : Tid} {fn : CFn} {k : Nat} {res : Bool}
    (h1 : Inv1 s) (h4 : Inv4 s) (h4' : Inv4 s') (h6 : Inv6 s) (h : Inv7 s)
    (hs : stepCond s t fn k res = .ok s') : Inv7 s' := by
  unfold stepCond at hs
  dsimp only at hs
  split at hs
  · rename_i c heq
    repeat' split at hs
    all_goals first
      | (cases hs; done)
      | (cases hs; rw [mwLoop_eq]; simp only [loopPc]; split <;> inv7_local t h heq)
  · rename_i r sc heq
    have hok1 := h1.pcok t; rw [heq] at hok1
    split at hs
    · cases hs
    · rename_i k' rest htodo
      split at hs
      · cases hs
      · rename_i cd hcd
        split at hs
        · cases hs
        · split at hs
          · cases hs
          · rename_i hres
            simp only [Decidable.not_not] at hres
            obtain ⟨hf, p, hpc, hsc⟩ := afterEval_frame hs hok1.2.1
            obtain ⟨hlo, hperm⟩ := afterEval_lists hs
            have hwk := afterEval_wake hs
            have hpt : ScanPc r sc.late (s'.pc t) := by rw [hpc]; simpa using hsc
            have hlate : sc.late = true := hok1.2.1 hok1.2.2.1
            have hchain : Chain s.wr (sc.passed ++ k' :: rest) := by
              rw [← htodo]; exact (h6.cs t sc (by rw [heq]; rfl)).2
            have hat := afterEval_saf (G := fun x => CondFalse s s.data x) hs (h.sc t sc (by rw [heq]; rfl)) hlate (by
              intro hfalse k2 rest2 htodo2 x hx
              rw [htodo] at htodo2
              simp only [List.cons.injEq] at htodo2
              obtain ⟨rfl, rfl⟩ := htodo2
              have hkf : CondFalse s s.data k' := ⟨cd, hcd, by rw [← hres, hfalse]⟩
              obtain ⟨sk, h1', _, h3'⟩ := skipPast_sound hchain
              rw [h1'] at hx
              simp only [List.mem_append, List.mem_cons] at hx
              rcases hx with hx | rfl | hx
              · exact Or.inl hx
              · exact Or.inr hkf
              · exact Or.inr (condFalse_of_sameSem (h3' x hx) hkf))
            refine Inv7.scan_step t h h4' hat (fun x => (hlo x).2.2.2.2.1)
              (by rw [hf.data]) (by rw [hf.secStart]) (by rw [hf.nwViol]) (by rw [hf.held])
              (by rw [hf.word]; exact id) (by intro u hu; rw [hpc]; simp [setFn, hu]) ?_ ?_
              (by intro x hx; rw [heq] at hx; exact hwk x hx) (Or.inl ?_) ?_ (scanPc_mtOld hpt) ?_ (scanPc_enqPend hpt) ?_
            · refine hperm.trans ?_
              simp [allOf, heq, PC.priv, PC.scan?, PC.wakeL]
            · intro u hu
              cases e : (s.pc u).unl with
              | false => rfl
              | true => exact absurd (h4.uniq u t e (by rw [heq]; rfl)) hu
            · rw [scanPc_susp hpt, heq]; simp [PC.susp]
            · rw [scanPc_firstW hpt, heq]; rfl
            · rw [scanPc_mwPost hpt, heq]; rfl
            · rw [scanPc_nonLate hpt, hlate]; simp
  · cases hs

theorem inv7_step {cfg : Cfg} {s s' : State} {e : Event} (h1 : Inv1 s) (h1' : Inv1 s') (h3 : Inv3 s) (h4 : Inv4 s) (h4' : Inv4 s')
    (h5 : Inv5 s) (h6 : Inv6 s) (h : Inv7 s) (hs : step cfg s e = .ok s') : Inv7 s' := by
  cases e with
  | call t a => exact inv7_stepCall h1 h5 h hs
  | ret t a res => exact inv7_stepRet h1 h hs
  | ld t o loc obs => exact inv7_stepLd h hs
  | st t o loc new obs => exact inv7_stepSt h1 h1' h3 h4 h hs
  | cas t o loc exp new obs ok =>
    have hs' : stepCas s t o loc exp new obs ok = .ok s' := hs
    cases hpc : s.pc t <;>
      first
      | exact inv7_stepCasA h1 h3 h4 h4' h5 h (by rw [hpc]; trivial) hs'
      | exact inv7_stepCasB h (by rw [hpc]; trivial) hs'
      | exact inv7_stepCasC h1 h1' h3 h4 h5 h (by rw [hpc]; trivial) hs'
      | (simp [stepCas, hpc] at hs')
  | cond t fn k res => exact inv7_stepCond h1 h4 h4' h6 h hs
  | semPEnter t k =>
    simp only [step] at hs
    split at hs
    · rename_i heq; ld_case7 t h heq hs
    · cases hs
  | semPRet t k =>
    simp only [step] at hs
    split at hs
    · rename_i heq; ld_case7 t h heq hs
    · cases hs
  | semPdEnter t k dl =>
    simp only [step] at hs
    split at hs
    · rename_i heq; ld_case7 t h heq hs
    · cases hs
  | semPdRet t k timedout =>
    simp only [step] at hs
    split at hs
    · rename_i heq; ld_case7 t h heq hs
    · cases hs
  | semV t k =>
    simp only [step] at hs
    split at hs
    · rename_i r k' rest heq
      split at hs
      · cases hs
      · cases hs
        rw [afterFin_eq]
        have hf7 := h.fst t; rw [heq] at hf7
        refine Inv7.local t h ?_ (by intro x hx; simpa using hx) (by intro x _; simp [semPost, setFn]; split <;> simp_all) (by simp) (by simp)
          (Or.inl ⟨by rw [heq]; simp [PC.susp], ?_⟩) (by intro haf; left; simpa using haf) (by intro u hu; simp [setFn, hu])
          (by simp [finPc_scan]) (by simp [finPc_reScan]) (by simp [finPc_finOf]) (by simp [finPc_mtOld])
          (by intro c hc; simp only [semPost_pc, setPc_pc, setFn_same, finPc_mwPost] at hc; exact hf7 c (by simpa [PC.mwPost] using hc))
          (by simp [finPc_enqPend]) (by simp [finPc_nonLate]) (by intro hcb; left; simpa using hcb)
        · intro x hx
          refine (queued_same (t := t) (by simp) (by intro u hu; simp [setFn, hu]) ?_ x).1 hx
          simp only [semPost_pc, setPc_pc, setFn_same, heq, finPc_scan]; rfl
        · intro d hd
          refine refData_congr (secOpen_congr (by simp) ?_) (by simp) (by simp) hd
          intro u
          by_cases hu : u = t
          · subst hu; simp only [semPost_pc, setPc_pc, setFn_same, finPc_firstW, heq]; rfl
          · simp [setFn, hu]
    · cases hs
  | envV k =>
    simp only [step] at hs; cases hs
    exact h.env (by simp) (by intro x; simp [semPost, setFn]; split <;> simp_all) (by simp) (by simp) (by simp) (by simp) (by simp) (by simp)
  | envSem k n =>
    simp only [step] at hs
    split at hs
    · cases hs; exact h.env rfl (by intro x; simp [setFn]; split <;> simp_all) rfl rfl rfl rfl rfl rfl
    · cases hs
  | dataW t x v =>
    simp only [step] at hs
    split at hs
    · rename_i ht; cases hs; exact inv7_dataW h1 h ht
    · cases hs
  | dataR t x v =>
    simp only [step] at hs
    split at hs
    · cases hs; exact h
    · cases hs
  | tick n =>
    simp only [step] at hs
    split at hs
    · cases hs; exact h.env rfl (fun _ => rfl) rfl rfl rfl rfl rfl rfl
    · cases hs
  | noteSeen t =>
    simp only [step] at hs
    split at hs
    · rename_i heq; ld_case7 t h heq hs
    · cases hs
  | noteNotify t =>
    simp only [step] at hs
    split at hs
    · rename_i heq; ld_case7 t h heq hs
    · rename_i heq; ld_case7 t h heq hs
    · cases hs

theorem reachable_inv_all {cfg : Cfg} {s : State} (h : Reachable cfg s) :
    Inv1 s ∧ Inv3 s ∧ Inv4 s ∧ Inv5 s ∧ Inv6 s ∧ Inv7 s :=
  reachable_induction (P := fun s => Inv1 s ∧ Inv3 s ∧ Inv4 s ∧ Inv5 s ∧ Inv6 s ∧ Inv7 s)
    ⟨inv1_init, inv3_init, inv4_init, inv5_init, inv6_init, inv7_init⟩
    (fun _ _ _ _ hp hs =>
      have h1' := inv1_step hp.1 hs
      have h4' := inv4_step hp.1 hp.2.1 hp.2.2.1 hs
      ⟨h1', inv3_step hp.1 hp.2.1 hs, h4', inv5_step hp.1 hp.2.1 hp.2.2.1 h4' hp.2.2.2.1 hs,
       inv6_step hp.1 hp.2.1 hp.2.2.1 hp.2.2.2.2.1 hs,
       inv7_step hp.1 h1' hp.2.1 hp.2.2.1 h4' hp.2.2.2.1 hp.2.2.2.2.1 hp.2.2.2.2.2 hs⟩) s h

theorem reachable_inv7 {cfg : Cfg} {s : State} (h : Reachable cfg s) : Inv7 s := (reachable_inv_all h).2.2.2.2.2

end NsyncVerif.MuC
