/-
  Layer `Note`, waiter records: how the acting thread moves between the phases of
  `nsync_note_wait` (`rid`, `loopRid`, `mustQ`) and into the positions of the wake loop.
-/
import NsyncVerif.Proofs.NoteRelW1

set_option linter.unusedSimpArgs false

namespace Note

/-! ### Equations of the phase functions -/

@[simp] theorem rid_idle  : PC.idle.rid = none := rfl
@[simp] theorem loopRid_idle  : PC.idle.loopRid = none := rfl
@[simp] theorem mustQ_idle  : PC.idle.mustQ = none := rfl
@[simp] theorem rid_newMalloc (p : Option NoteId) (d : Dl) : (PC.newMalloc p d).rid = none := rfl
@[simp] theorem loopRid_newMalloc (p : Option NoteId) (d : Dl) : (PC.newMalloc p d).loopRid = none := rfl
@[simp] theorem mustQ_newMalloc (p : Option NoteId) (d : Dl) : (PC.newMalloc p d).mustQ = none := rfl
@[simp] theorem rid_newRetNull (p : Option NoteId) : (PC.newRetNull p).rid = none := rfl
@[simp] theorem loopRid_newRetNull (p : Option NoteId) : (PC.newRetNull p).loopRid = none := rfl
@[simp] theorem mustQ_newRetNull (p : Option NoteId) : (PC.newRetNull p).mustQ = none := rfl
@[simp] theorem rid_dl (p : DPos) (n : NoteId) (nt : Dl) (k : DK) : (PC.dl p n nt k).rid = k.rid.map (fun r => (r, n)) := rfl
@[simp] theorem loopRid_dl (p : DPos) (n : NoteId) (nt : Dl) (k : DK) : (PC.dl p n nt k).loopRid = k.loopRid := rfl
@[simp] theorem rid_nfy (p : NPos) (n : NoteId) (par : Option NoteId) (k : NK) : (PC.nfy p n par k).rid = k.rid.map (fun r => (r, n)) := rfl
@[simp] theorem loopRid_nfy (p : NPos) (n : NoteId) (par : Option NoteId) (k : NK) : (PC.nfy p n par k).loopRid = k.loopRid := rfl
@[simp] theorem mustQ_nfy (p : NPos) (n : NoteId) (par : Option NoteId) (k : NK) : (PC.nfy p n par k).mustQ = none := rfl
@[simp] theorem rid_chd (p : CPos) (stk : List Frame) (top : Top) : (PC.chd p stk top).rid = top.k.rid.map (fun r => (r, top.n)) := rfl
@[simp] theorem loopRid_chd (p : CPos) (stk : List Frame) (top : Top) : (PC.chd p stk top).loopRid = top.k.loopRid := rfl
@[simp] theorem mustQ_chd (p : CPos) (stk : List Frame) (top : Top) : (PC.chd p stk top).mustQ = none := rfl
@[simp] theorem rid_newP (p : NewPos) (n par : NoteId) (d : Dl) : (PC.newP p n par d).rid = none := rfl
@[simp] theorem loopRid_newP (p : NewPos) (n par : NoteId) (d : Dl) : (PC.newP p n par d).loopRid = none := rfl
@[simp] theorem mustQ_newP (p : NewPos) (n par : NoteId) (d : Dl) : (PC.newP p n par d).mustQ = none := rfl
@[simp] theorem rid_retNew (n : NoteId) (par : Option NoteId) : (PC.retNew n par).rid = none := rfl
@[simp] theorem loopRid_retNew (n : NoteId) (par : Option NoteId) : (PC.retNew n par).loopRid = none := rfl
@[simp] theorem mustQ_retNew (n : NoteId) (par : Option NoteId) : (PC.retNew n par).mustQ = none := rfl
@[simp] theorem rid_retIs (n : NoteId) (b : Bool) : (PC.retIs n b).rid = none := rfl
@[simp] theorem loopRid_retIs (n : NoteId) (b : Bool) : (PC.retIs n b).loopRid = none := rfl
@[simp] theorem mustQ_retIs (n : NoteId) (b : Bool) : (PC.retIs n b).mustQ = none := rfl
@[simp] theorem rid_retNotify (n : NoteId) : (PC.retNotify n).rid = none := rfl
@[simp] theorem loopRid_retNotify (n : NoteId) : (PC.retNotify n).loopRid = none := rfl
@[simp] theorem mustQ_retNotify (n : NoteId) : (PC.retNotify n).mustQ = none := rfl
@[simp] theorem rid_retExpiry (n : NoteId) : (PC.retExpiry n).rid = none := rfl
@[simp] theorem loopRid_retExpiry (n : NoteId) : (PC.retExpiry n).loopRid = none := rfl
@[simp] theorem mustQ_retExpiry (n : NoteId) : (PC.retExpiry n).mustQ = none := rfl
@[simp] theorem rid_fr (p : FPos) (n : NoteId) (par : Option NoteId) (c : NoteId) (nx : Option NoteId) : (PC.fr p n par c nx).rid = none := rfl
@[simp] theorem loopRid_fr (p : FPos) (n : NoteId) (par : Option NoteId) (c : NoteId) (nx : Option NoteId) : (PC.fr p n par c nx).loopRid = none := rfl
@[simp] theorem mustQ_fr (p : FPos) (n : NoteId) (par : Option NoteId) (c : NoteId) (nx : Option NoteId) : (PC.fr p n par c nx).mustQ = none := rfl
@[simp] theorem rid_wt0 (p : W0Pos) (n : NoteId) (d : Dl) : (PC.wt0 p n d).rid = none := rfl
@[simp] theorem loopRid_wt0 (p : W0Pos) (n : NoteId) (d : Dl) : (PC.wt0 p n d).loopRid = none := rfl
@[simp] theorem mustQ_wt0 (p : W0Pos) (n : NoteId) (d : Dl) : (PC.wt0 p n d).mustQ = none := rfl
@[simp] theorem rid_wt (p : WPos) (n : NoteId) (d : Dl) (r : Rid) : (PC.wt p n d r).rid = some (r, n) := rfl
@[simp] theorem loopRid_wt (p : WPos) (n : NoteId) (d : Dl) (r : Rid) : (PC.wt p n d r).loopRid = bif p.inLoop then some r else none := rfl
@[simp] theorem mustQ_dl (p : DPos) (n : NoteId) (nt : Dl) (k : DK) :
    (PC.dl p n nt k).mustQ = if p.late = true ∧ nt.pos then k.loopRid else none := rfl
@[simp] theorem mustQ_wt (p : WPos) (n : NoteId) (d : Dl) (r : Rid) :
    (PC.wt p n d r).mustQ = bif p.sleeps then some r else none := rfl
@[simp] theorem DK.rid_isNotified : DK.isNotified.rid = none := rfl
@[simp] theorem DK.rid_notifyApi : DK.notifyApi.rid = none := rfl
@[simp] theorem DK.rid_newSelf (p : Option NoteId) (d : Dl) : (DK.newSelf p d).rid = none := rfl
@[simp] theorem DK.rid_ready1 (d : Dl) : (DK.ready1 d).rid = none := rfl
@[simp] theorem DK.rid_ready2 (r : Rid) (d : Dl) : (DK.ready2 r d).rid = some r := rfl
@[simp] theorem DK.rid_dequeue (r : Rid) (d : Dl) : (DK.dequeue r d).rid = some r := rfl
@[simp] theorem NK.rid_ofApi : NK.ofApi.rid = none := rfl
@[simp] theorem NK.rid_ofDeadline (k : DK) : (NK.ofDeadline k).rid = k.rid := rfl
@[simp] theorem DK.loopRid_isNotified : DK.isNotified.loopRid = none := rfl
@[simp] theorem DK.loopRid_notifyApi : DK.notifyApi.loopRid = none := rfl
@[simp] theorem DK.loopRid_newSelf (p : Option NoteId) (d : Dl) : (DK.newSelf p d).loopRid = none := rfl
@[simp] theorem DK.loopRid_ready1 (d : Dl) : (DK.ready1 d).loopRid = none := rfl
@[simp] theorem DK.loopRid_ready2 (r : Rid) (d : Dl) : (DK.ready2 r d).loopRid = some r := rfl
@[simp] theorem DK.loopRid_dequeue (r : Rid) (d : Dl) : (DK.dequeue r d).loopRid = none := rfl
@[simp] theorem NK.loopRid_ofApi : NK.ofApi.loopRid = none := rfl
@[simp] theorem NK.loopRid_ofDeadline (k : DK) : (NK.ofDeadline k).loopRid = k.loopRid := rfl

/-! ### The phases at the targets of the control transfers -/

@[simp] theorem rid_afterDeadlinePc (n : NoteId) (nt : Dl) (k : DK) :
    (afterDeadlinePc n nt k).rid = k.rid.map (fun r => (r, n)) := by
  cases k <;> simp only [afterDeadlinePc] <;> (try split) <;> (try split) <;> rfl

@[simp] theorem rid_afterNotifyPc (n : NoteId) (k : NK) :
    (afterNotifyPc n k).rid = k.rid.map (fun r => (r, n)) := by
  cases k with
  | ofApi => rfl
  | ofDeadline dk => exact rid_afterDeadlinePc n (some 0) dk

@[simp] theorem rid_childReturnPc (f : Frame) (rest : List Frame) (top : Top) :
    (childReturnPc f rest top).rid = top.k.rid.map (fun r => (r, top.n)) := by
  unfold childReturnPc
  cases rest with
  | cons g gs => rfl
  | nil => cases top.par <;> rfl

@[simp] theorem rid_childLoopStartPc (cs : List NoteId) (f : Frame) (rest : List Frame)
    (top : Top) : (childLoopStartPc cs f rest top).rid = top.k.rid.map (fun r => (r, top.n)) := by
  cases cs <;> rfl

@[simp] theorem rid_childWakeNextPc (s : State) (f : Frame) (rest : List Frame) (top : Top) :
    (childWakeNextPc s f rest top).rid = top.k.rid.map (fun r => (r, top.n)) := by
  unfold childWakeNextPc
  split
  · rfl
  · exact rid_childLoopStartPc _ f rest top

@[simp] theorem rid_freeLoopStartPc (cs : List NoteId) (n : NoteId) (par : Option NoteId) :
    (freeLoopStartPc cs n par).rid = none := by
  cases cs <;> rfl

theorem loopRid_afterDeadlinePc {n : NoteId} {nt : Dl} {k : DK} {r : Rid}
    (h : (afterDeadlinePc n nt k).loopRid = some r) : k.loopRid = some r := by
  cases k <;> simp only [afterDeadlinePc] at h <;> (try split at h) <;> (try split at h) <;>
    simp_all [PC.loopRid, DK.loopRid, NK.loopRid, WPos.inLoop]

theorem loopRid_afterNotifyPc {n : NoteId} {k : NK} {r : Rid}
    (h : (afterNotifyPc n k).loopRid = some r) : k.loopRid = some r := by
  cases k with
  | ofApi => simp [afterNotifyPc, PC.loopRid] at h
  | ofDeadline dk => exact loopRid_afterDeadlinePc (nt := some 0) h

@[simp] theorem loopRid_childReturnPc (f : Frame) (rest : List Frame) (top : Top) :
    (childReturnPc f rest top).loopRid = top.k.loopRid := by
  unfold childReturnPc
  cases rest with
  | cons g gs => rfl
  | nil => cases top.par <;> rfl

@[simp] theorem loopRid_childLoopStartPc (cs : List NoteId) (f : Frame) (rest : List Frame)
    (top : Top) : (childLoopStartPc cs f rest top).loopRid = top.k.loopRid := by
  cases cs <;> rfl

@[simp] theorem loopRid_childWakeNextPc (s : State) (f : Frame) (rest : List Frame) (top : Top) :
    (childWakeNextPc s f rest top).loopRid = top.k.loopRid := by
  unfold childWakeNextPc
  split
  · rfl
  · exact loopRid_childLoopStartPc _ f rest top

@[simp] theorem loopRid_freeLoopStartPc (cs : List NoteId) (n : NoteId) (par : Option NoteId) :
    (freeLoopStartPc cs n par).loopRid = none := by
  cases cs <;> rfl

theorem mustQ_afterDeadlinePc {n : NoteId} {nt : Dl} {k : DK} {r : Rid}
    (h : (afterDeadlinePc n nt k).mustQ = some r) : k.loopRid = some r ∧ nt.pos := by
  cases k <;> simp only [afterDeadlinePc] at h <;> (try split at h) <;> (try split at h) <;>
    simp_all [WPos.sleeps]
  exact Dl.pos_of_min_pos ‹_›

theorem mustQ_afterNotifyPc (n : NoteId) (k : NK) : (afterNotifyPc n k).mustQ = none := by
  cases k with
  | ofApi => rfl
  | ofDeadline dk =>
    cases h : (afterDeadlinePc n (some 0) dk).mustQ with
    | none => simpa [afterNotifyPc] using h
    | some r => exact absurd rfl (mustQ_afterDeadlinePc h).2

@[simp] theorem mustQ_childReturnPc (f : Frame) (rest : List Frame) (top : Top) :
    (childReturnPc f rest top).mustQ = none := by
  unfold childReturnPc
  cases rest with
  | cons g gs => rfl
  | nil => cases top.par <;> rfl

@[simp] theorem mustQ_childLoopStartPc (cs : List NoteId) (f : Frame) (rest : List Frame)
    (top : Top) : (childLoopStartPc cs f rest top).mustQ = none := by
  cases cs <;> rfl

@[simp] theorem mustQ_childWakeNextPc (s : State) (f : Frame) (rest : List Frame) (top : Top) :
    (childWakeNextPc s f rest top).mustQ = none := by
  unfold childWakeNextPc
  split
  · rfl
  · exact mustQ_childLoopStartPc _ f rest top

@[simp] theorem mustQ_freeLoopStartPc (cs : List NoteId) (n : NoteId) (par : Option NoteId) :
    (freeLoopStartPc cs n par).mustQ = none := by
  cases cs <;> rfl

theorem loopRid_rid {pc : PC} {r : Rid} (h : pc.loopRid = some r) : ∃ n, pc.rid = some (r, n) := by
  cases pc with
  | dl pos n nt k =>
    cases k <;> simp [PC.loopRid, DK.loopRid] at h
    subst h; exact ⟨n, rfl⟩
  | nfy pos n par k =>
    cases k with
    | ofApi => simp [PC.loopRid, NK.loopRid] at h
    | ofDeadline k =>
      cases k <;> simp [PC.loopRid, NK.loopRid, DK.loopRid] at h
      subst h; exact ⟨n, rfl⟩
  | chd pos stk top =>
    obtain ⟨n, par, k⟩ := top
    cases k with
    | ofApi => simp [PC.loopRid, NK.loopRid] at h
    | ofDeadline k =>
      cases k <;> simp [PC.loopRid, NK.loopRid, DK.loopRid] at h
      subst h; exact ⟨n, rfl⟩
  | wt p n wdl r' =>
    cases p <;> simp [PC.loopRid, WPos.inLoop] at h
    all_goals (subst h; exact ⟨n, rfl⟩)
  | _ => simp [PC.loopRid] at h

theorem mustQ_loopRid {pc : PC} {r : Rid} (h : pc.mustQ = some r) : pc.loopRid = some r := by
  cases pc with
  | dl pos n nt k =>
    simp only [mustQ_dl] at h
    split at h
    · exact h
    · cases h
  | wt p n wdl r' =>
    cases p <;> simp [WPos.sleeps] at h
    all_goals (subst h; rfl)
  | _ => simp at h

/-! ### The acting thread -/

/-- Rewrite the program counter of the acting thread after the step. -/
macro "nrel_pc_simp" h:ident : tactic => `(tactic| (
  simp only [setPc_pc, upd_same, afterDeadline_pc, afterNotify_pc, childReturn_pc,
    childWakeNext_pc, childScanStart_pc, freeLoopStart_pc, enterChild_pc, leave_pc, addUser_pc, markCalled_pc,
    markFreeing_pc, setAfter_pc, pushObs_pc, publish_pc, delUser_pc] at $h:ident))

/-- The record of a wait call is created by `wait.c/0` and stays the record of the call. -/
theorem step_rid {s s' : State} {e : Event} (hs : step s e = .ok s') (a : Tid)
    (ha : e.actor = some a) {r : Rid} {n : NoteId} (h : (s'.pc a).rid = some (r, n)) :
    (s.pc a).rid = some (r, n) ∨
    (∃ wdl, s.pc a = .wt0 .newRec n wdl ∧ (s.recs r).used = false ∧
      s'.recs r = { used := true, waiting := false, owner := a, note := n, sem := none,
                    posted := 0 }) := by
  cases e
  all_goals step_cases hs
  all_goals simp only [Event.actor, Option.some.injEq, reduceCtorEq] at ha
  all_goals (try subst ha)
  all_goals (try (left; exact h))
  all_goals (try (nrel_pc_simp h))
  all_goals (try (simp at h; done))
  all_goals (try (left; rw [‹s.pc _ = _›]; simpa using h; done))
  all_goals (repeat' split at h)
  all_goals (try (simp at h; done))
  all_goals (try (left; rw [‹s.pc _ = _›]; simpa using h; done))
  -- wait.c/0 creates the record
  · simp only [rid_wt, Option.some.injEq, Prod.mk.injEq] at h
    obtain ⟨h1, h2⟩ := h
    subst h1 h2
    right
    exact ⟨_, by assumption, by assumption, by simp⟩
  -- the stores of note_enqueue / note_dequeue: the guard `r = r'`
  all_goals (
    obtain ⟨_, _, hr, _⟩ := (by assumption : _ = _ ∧ _ = _ ∧ _ = _ ∧ _ = _)
    subst hr
    left; rw [‹s.pc _ = _›]; simpa using h)

/-- The wait loop on record `r` is entered from `note_enqueue` only. -/
theorem step_loopRid {s s' : State} {e : Event} (hs : step s e = .ok s') (a : Tid)
    (ha : e.actor = some a) {r : Rid} (h : (s'.pc a).loopRid = some r) :
    (s.pc a).loopRid = some r ∨ (∃ v n wdl, s.pc a = .wt (.eSt v) n wdl r) := by
  cases e
  all_goals step_cases hs
  all_goals simp only [Event.actor, Option.some.injEq, reduceCtorEq] at ha
  all_goals (try subst ha)
  all_goals (try (left; exact h))
  all_goals (try (nrel_pc_simp h))
  all_goals (try (simp [WPos.inLoop] at h; done))
  all_goals (try (left; rw [‹s.pc _ = _›]; simpa [WPos.inLoop] using h; done))
  all_goals (try (left; rw [‹s.pc _ = _›]; simpa using loopRid_afterDeadlinePc h; done))
  all_goals (try (left; rw [‹s.pc _ = _›]; simpa using loopRid_afterNotifyPc h; done))
  all_goals (repeat' split at h)
  all_goals (try (simp [WPos.inLoop] at h; done))
  all_goals (try (left; rw [‹s.pc _ = _›]; simpa [WPos.inLoop] using h; done))
  all_goals (try (left; rw [‹s.pc _ = _›]; simpa using loopRid_afterDeadlinePc h; done))
  all_goals (try (left; rw [‹s.pc _ = _›]; simpa using loopRid_afterNotifyPc h; done))
  all_goals (
    obtain ⟨_, _, hr, _⟩ := (by assumption : _ = _ ∧ _ = _ ∧ _ = _ ∧ _ = _)
    subst hr
    simp only [loopRid_wt, WPos.inLoop, cond_true, Option.some.injEq] at h
    subst h
    right; exact ⟨_, _, _, by assumption⟩)

/-- The positions that need a queued record are entered with a positive `ready_time`, computed
    under the note's mutex (note.c/5). -/
theorem step_mustQ {s s' : State} {e : Event} (hs : step s e = .ok s') (a : Tid)
    (ha : e.actor = some a) {r : Rid} (h : (s'.pc a).mustQ = some r) :
    (s.pc a).mustQ = some r ∨
    (∃ n nt wdl, s.pc a = .dl .ld2 n nt (.ready2 r wdl) ∧ (s.notes n).ntime.pos) := by
  cases e
  all_goals step_cases hs
  all_goals simp only [Event.actor, Option.some.injEq, reduceCtorEq] at ha
  all_goals (try subst ha)
  all_goals (try (left; exact h))
  all_goals (try (nrel_pc_simp h))
  all_goals (try (simp [mustQ_afterNotifyPc, WPos.sleeps] at h; done))
  all_goals (try (left; rw [‹s.pc _ = _›]; simpa [WPos.sleeps] using h; done))
  all_goals (repeat' split at h)
  all_goals (try (simp [mustQ_afterNotifyPc, WPos.sleeps] at h; done))
  all_goals (try (left; rw [‹s.pc _ = _›]; simpa [WPos.sleeps] using h; done))
  -- ld1 finds the flag set: the ready time is zero
  · exact absurd rfl (mustQ_afterDeadlinePc h).2
  -- ld2 under the mutex
  · rename_i n nt dk hpc _ _ _ _
    simp only [mustQ_dl, DPos.late, true_and] at h
    split at h
    · next hp =>
      cases dk <;> simp at h
      subst h
      right; exact ⟨_, _, _, hpc, hp⟩
    · cases h
  -- unlockRet with a zero ready time
  · exact absurd (mustQ_afterDeadlinePc h).2 (by assumption)
  -- after the clock read
  · obtain ⟨h1, h2⟩ := mustQ_afterDeadlinePc h
    left; rw [‹s.pc _ = _›]
    simp [h1, h2]

end Note
