/-
  Layer `Note`, invariant family P (progress of WAIT_FOR_NO_CHILDREN), for the repaired code
  (/verif/fixes/F4F7/note_fix.diff).  I2 of /verif/fixes/F4F7/NOTES.md: while a thread is inside
  WAIT_FOR_NO_CHILDREN (`n`) and `n->children_adopted == 0`, every note on `n->children` has
  `disconnecting != 0` — each has a disconnector that will remove it (I1).

  This file: the scans of `children` lists in progress (`PC.scans`), what each of them has
  established so far (`ScanClaim`), list lemmas.
-/
import NsyncVerif.Proofs.NoteFixG5
import NsyncVerif.Proofs.NoteVCOnceC

set_option linter.unusedSimpArgs false

namespace Note

/-! ### Lists -/

theorem nextAfter_append {pre post : List NoteId} {c : NoteId} (h : c ∉ pre) :
    nextAfter (pre ++ c :: post) c = post.head? := by
  induction pre with
  | nil => simp [nextAfter]
  | cons x xs ih =>
    have hx : x ≠ c := fun e => h (by simp [e])
    simp only [List.cons_append, nextAfter, hx, if_false]
    exact ih (fun hm => h (List.mem_cons_of_mem _ hm))

theorem erase_append_mid {pre post : List NoteId} {c : NoteId} (h : c ∉ pre) :
    (pre ++ c :: post).erase c = pre ++ post := by
  induction pre with
  | nil => simp
  | cons x xs ih =>
    have hx : x ≠ c := fun e => h (by simp [e])
    have hx' : (x == c) = false := by simp [hx]
    simp only [List.cons_append, List.erase_cons, hx']
    rw [ih (fun hm => h (List.mem_cons_of_mem _ hm))]
    rfl

theorem not_mem_pre_of_nodup {pre post : List NoteId} {c : NoteId}
    (h : (pre ++ c :: post).Nodup) : c ∉ pre := by
  intro hm
  have := (List.nodup_append.mp h).2.2 c hm c (by simp)
  exact this rfl

/-! ### Scans in progress -/

/-- What a scan of `m->children` has established: the list is `pre ++ oc ++ post`, the notes in
    `pre` have been examined and are `disconnecting`, `oc` is the child being examined, `post` are
    the children not yet examined, `nx` is the saved `next` pointer — all of this as long as no
    child has been adopted since (`children_adopted == 0`). -/
def ScanClaim (s : State) (m : NoteId) (oc nx : Option NoteId) : Prop :=
  (s.notes m).adopted = false →
    ∃ pre post, (s.notes m).children = pre ++ (oc.toList ++ post) ∧ post.head? = nx ∧
      ∀ x ∈ pre, (s.notes x).disconnecting ≠ 0

/-- The scan state of the innermost activation of `note_notify_child`. -/
def CPos.scan (f : Frame) : CPos → Option (Option NoteId × Option NoteId)
  | .lockChild c | .lockChildRet c => some (some c, f.next)
  | .unlockChild _ | .unlockChildRet _ => some (none, f.next)
  | .waitCall | .waitRet _ => some (none, none)
  | _ => none

/-- The enclosing activations are inside the recursive call for the note of the next inner one. -/
def outerScans : List Frame → List (NoteId × Option NoteId × Option NoteId)
  | i :: g :: rest => (g.note, some i.note, g.next) :: outerScans (g :: rest)
  | _ => []

def FPos.scan (c : NoteId) (nx : Option NoteId) : FPos → Option (Option NoteId × Option NoteId)
  | .lockChild | .lockChildRet => some (some c, nx)
  | .unlockChild | .unlockChildRet => some (none, nx)
  | .waitCall | .waitRet _ => some (none, none)
  | _ => none

def headScan (m : NoteId) : Option (Option NoteId × Option NoteId) →
    List (NoteId × Option NoteId × Option NoteId)
  | some (oc, nx) => [(m, oc, nx)]
  | none => []

/-- The scans of `children` lists the thread has in progress: (note, child being examined, saved
    `next`). -/
def PC.scans : PC → List (NoteId × Option NoteId × Option NoteId)
  | .chd pos (f :: rest) _ => headScan f.note (pos.scan f) ++ outerScans (f :: rest)
  | .fr pos n _ c nx => headScan n (pos.scan c nx)
  | _ => []

/-- Positions of `notify` after `note_notify_child (n, parent)` has returned, `parent` locked. -/
def NPos.tail : NPos → Bool
  | .unlockPCall | .unlockPRet => true
  | _ => false

structure InvScan (s : State) : Prop where
  claim : ∀ t m oc nx, (m, oc, nx) ∈ (s.pc t).scans → ScanClaim s m oc nx
  /-- `note_notify_child (n, parent)` has returned without disconnecting `n`: another thread is
      disconnecting `n` too -/
  tail : ∀ t pos n p nk, s.pc t = .nfy pos n (some p) nk → pos.tail = true →
    (s.notes n).parent = none ∨ 2 ≤ (s.notes n).disconnecting
  /-- a WAIT_FOR_NO_CHILDREN that found its condition true has not released the mutex, and the
      condition is still true -/
  keptC : ∀ t f rest top, s.pc t = .chd (.waitRet true) (f :: rest) top →
    (s.notes f.note).waitDone = true
  keptF : ∀ t n par c nx, s.pc t = .fr (.waitRet true) n par c nx → (s.notes n).waitDone = true

theorem InvScan.init : InvScan Note.init := by
  refine ⟨?_, ?_, ?_, ?_⟩ <;> simp [Note.init, PC.scans]

end Note
