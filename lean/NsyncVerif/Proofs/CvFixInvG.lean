/-
  Layer `CvFix`: a registered `nsync_waiter_s` of nsync_wait_n belongs to a call in progress — it
  is on the list `mine` of its owner, which is inside nsync_wait_n, in the very call that
  initialised the record (`epoch`).  This is what makes "registered" mean "the memory is valid"
  (C13) for records that live in the caller's stack frame.
-/
import NsyncVerif.Proofs.CvFixInvFAll
import NsyncVerif.Proofs.CvFixTouch

namespace NsyncVerif.CvFix

structure InvG (s : State) : Prop where
  reg : ∀ r, r.isMucv = false → (s.recs r).stat ≠ .idle →
    r ∈ (s.thr (s.recs r).owner).mine ∧ (s.recs r).epoch = (s.thr (s.recs r).owner).epoch

theorem invG_init : InvG init := by
  constructor; simp [init]

/-- General assembly.  A bare record that is registered afterwards was registered before with the
    same owner and epoch — or it is the record just enqueued by its owner; a thread keeps its
    epoch and its list (up to records that became idle) — or its list was empty. -/
theorem invG_gen {s s' : State} (hg : InvG s)
    (hrec : ∀ r, r.isMucv = false → (s'.recs r).stat ≠ .idle →
      ((s.recs r).stat ≠ .idle ∧ (s'.recs r).owner = (s.recs r).owner ∧ (s'.recs r).epoch = (s.recs r).epoch) ∨
      (r ∈ (s'.thr (s'.recs r).owner).mine ∧ (s'.recs r).epoch = (s'.thr (s'.recs r).owner).epoch))
    (hthr : ∀ u, ((s'.thr u).epoch = (s.thr u).epoch ∧
        ∀ q, q ∈ (s.thr u).mine → q ∈ (s'.thr u).mine ∨ (s'.recs q).stat = .idle) ∨ (s.thr u).mine = []) :
    InvG s' := by
  constructor
  intro r hm hni
  rcases hrec r hm hni with ⟨h1, h2, h3⟩ | h
  · obtain ⟨m, e⟩ := hg.reg r hm h1
    rcases hthr (s.recs r).owner with ⟨he, hq⟩ | h0
    · rw [h2, h3]
      exact ⟨(hq r m).resolve_right hni, e.trans he.symm⟩
    · rw [h0] at m; cases m
  · exact h

/-- No thread changes its epoch or its list; registered bare records keep owner and epoch and no
    bare record becomes registered. -/
theorem invG_frame {s s' : State} (hg : InvG s)
    (hrec : ∀ r, r.isMucv = false → (s'.recs r).stat ≠ .idle →
      (s.recs r).stat ≠ .idle ∧ (s'.recs r).owner = (s.recs r).owner ∧ (s'.recs r).epoch = (s.recs r).epoch)
    (hthr : ∀ u, (s'.thr u).epoch = (s.thr u).epoch ∧ (s'.thr u).mine = (s.thr u).mine) : InvG s' :=
  invG_gen hg (fun r hm hni => .inl (hrec r hm hni))
    (fun u => .inl ⟨(hthr u).1, fun q hq => .inl (by rw [(hthr u).2]; exact hq)⟩)

/-- One record changes, all frames but the acting thread's are unchanged, and that one keeps epoch
    and list. -/
theorem invG_one {s s' : State} {t : Tid} {r : Rid} (hg : InvG s)
    (hthr : ∀ u, u ≠ t → s'.thr u = s.thr u)
    (ht : (s'.thr t).epoch = (s.thr t).epoch ∧ (s'.thr t).mine = (s.thr t).mine)
    (hrecs : ∀ q, q ≠ r → s'.recs q = s.recs q)
    (hr : r.isMucv = true ∨ ((s'.recs r).stat ≠ .idle → (s.recs r).stat ≠ .idle ∧
      (s'.recs r).owner = (s.recs r).owner ∧ (s'.recs r).epoch = (s.recs r).epoch)) : InvG s' := by
  refine invG_frame hg ?_ ?_
  · intro q hm hni
    by_cases hq : q = r
    · subst hq
      rcases hr with hr | hr
      · rw [hr] at hm; cases hm
      · exact hr hni
    · rw [hrecs q hq] at hni ⊢; exact ⟨hni, rfl, rfl⟩
  · intro u
    by_cases hu : u = t
    · subst hu; exact ht
    · rw [hthr u hu]; exact ⟨rfl, rfl⟩

/-- Local transitions keep `epoch` and `mine`, or start from an empty list. -/
theorem ltr_mine {s : State} {t : Tid} {e : Event} {x' : Thr} (ha : InvA s) (h : LTr s t e x') :
    (x'.epoch = (s.thr t).epoch ∧ x'.mine = (s.thr t).mine) ∨ (s.thr t).mine = [] := by
  have h0 := (ha.thr t).mine0
  cases h with
  | callWait gen dl note hl => right; exact h0 (by simp [inWaitN, hl])
  | retWait res hl hr => right; rcases hl with hl | hl <;> exact h0 (by simp [inWaitN, hl])
  | callSignal hl => right; exact h0 (by simp [inWaitN, hl])
  | callBroadcast hl => right; exact h0 (by simp [inWaitN, hl])
  | retSignal hl hb => right; exact h0 (by simp [inWaitN, hl])
  | retBroadcast hl hb => right; exact h0 (by simp [inWaitN, hl])
  | callWaitN hl => right; exact h0 (by simp [inWaitN, hl])
  | retWaitN hl hm => right; exact hm
  | callDebug k hl => right; exact h0 (by simp [inWaitN, hl])
  | retDebug k hl hk => right; exact h0 (by simp [inWaitN, hl])
  | dbgLd obs hl ho => left; split <;> simp
  | spinLd site obs hl ho => left; split <;> simp
  | spinLdN obs hl ho => left; split <;> simp
  | sigLd site obs hl hs ho => left; split <;> simp
  | wHeadStay r obs hl hr ho hz => left; split <;> simp
  | wChk y r obs hy hl hr ho hso => left; split <;> cases hy <;> simp
  | wTail y r obs hy hl hr ho => left; cases hy <;> simp
  | _ => left; simp

theorem invG_tr {cfg : Config} {s s' : State} {e : Event} (ha : InvA s) (hb : InvB s) (hf : InvF s) (hg : InvG s)
    (h : Tr cfg s e s') : InvG s' := by
  cases h with
  | same e h => exact hg
  | tick ns h => exact invG_frame hg (fun r _ hni => ⟨hni, rfl, rfl⟩) (fun u => ⟨rfl, rfl⟩)
  | semOther e sem' h => exact invG_frame hg (fun r _ hni => ⟨hni, rfl, rfl⟩) (fun u => ⟨rfl, rfl⟩)
  | loc h =>
    rename_i t x'
    refine invG_gen hg (fun r _ hni => .inl ⟨hni, rfl, rfl⟩) ?_
    intro u
    by_cases hu : u = t
    · subst hu
      rcases ltr_mine ha h with ⟨h1, h2⟩ | h0
      · left; exact ⟨by simp [h1], fun q hq => .inl (by simp [h2]; exact hq)⟩
      · right; exact h0
    · left; exact ⟨by simp [hu], fun q hq => .inl (by simp [hu]; exact hq)⟩
  | acq t exp new obs o n hl hexp hw he ho hn hnew =>
    unfold afterAcquire
    split
    · rename_i hc; simp only at hc
      have hmu := ((ha.thr t).prep (by simp [waitPrep, hl, hc])).2.2
      exact invG_one (t := t) (r := (s.thr t).r) hg (fun u hu => by simp [hu]) (by simp) (fun q hq => by simp [hq])
        (.inl hmu)
    · exact invG_frame hg (fun r _ hni => ⟨hni, rfl, rfl⟩)
        (fun u => by by_cases hu : u = t <;> simp [hu])
    · exact invG_frame hg (fun r _ hni => ⟨hni, rfl, rfl⟩)
        (fun u => by by_cases hu : u = t <;> simp [hu])
    · exact invG_frame hg (fun r _ hni => ⟨hni, rfl, rfl⟩)
        (fun u => by by_cases hu : u = t <;> simp [hu])
    · dsimp only
      have hsub : ∀ q, q ∈ (if (s.thr t).bcast = true then s.queue else sigSelect s.recs s.queue) → q ∈ s.queue := by
        intro q hq
        split at hq
        · exact hq
        · exact (sigSelect_sublist _ _).subset hq
      generalize (if (s.thr t).bcast = true then s.queue else sigSelect s.recs s.queue) = sel at hsub ⊢
      refine invG_frame hg ?_ (fun u => by by_cases hu : u = t <;> simp [hu])
      intro q _ hni
      by_cases hq : q ∈ sel
      · have := (ha.qMem q).mp (hsub q hq)
        simp [hq, this]
      · simpa [hq] using hni
  | relWait t new obs n hl hh hnew hn hsp =>
    exact invG_one (t := t) (r := (s.thr t).r) hg (fun u hu => by simp [hu]) (by simp) (fun q hq => by simp [hq])
      (.inr (by simp))
  | relEnq t new obs n hl hh hnew hn hsp =>
    exact invG_one (t := t) (r := (s.thr t).r) hg (fun u hu => by simp [hu]) (by simp) (fun q hq => by simp [hq])
      (.inr (by simp))
  | relWait2 t new obs n hl hh hnew hn hsp =>
    exact invG_frame hg (fun r _ hni => ⟨hni, rfl, rfl⟩) (fun u => by by_cases hu : u = t <;> simp [hu])
  | relSig t site new obs n hl hs hh hnew hn hsp =>
    exact invG_frame hg (fun r _ hni => ⟨hni, rfl, rfl⟩) (fun u => by by_cases hu : u = t <;> simp [hu])
  | relDeqW t new obs n hl hh hnew hn hsp =>
    exact invG_frame hg (fun r _ hni => ⟨hni, rfl, rfl⟩) (fun u => by by_cases hu : u = t <;> simp [hu])
  | relDbg t new obs n hl hh hnew hn hsp =>
    exact invG_frame hg (fun r _ hni => ⟨hni, rfl, rfl⟩) (fun u => by by_cases hu : u = t <;> simp [hu])
  | relDeq t new obs n hl hh hnew hn hsp =>
    have hidle : (match (s.recs (s.thr t).r).stat with | .listed u => RStat.listed u | _ => RStat.idle) = .idle := by
      rcases (hf.thr t).wqRel hl with ⟨_, _, c⟩ | ⟨_, _, c⟩ <;> simp [c]
    refine invG_gen hg ?_ ?_
    · intro q _ hni
      by_cases hq : q = (s.thr t).r
      · subst hq; exfalso; apply hni; simp; exact hidle
      · left; simpa [hq] using hni
    · intro u
      by_cases hu : u = t
      · subst hu; left; simp
        intro q hq
        by_cases hqr : q = (s.thr u).r
        · right; simp [hqr]; exact hidle
        · left; exact (List.mem_erase_of_ne hqr).mpr hq
      · left; simp [hu]
        intro q hq
        left; exact hq
  | deqSpinExit t r hl hr hw =>
    have hidle : (match (s.recs r).stat with | .listed u => RStat.listed u | _ => RStat.idle) = .idle := by
      cases hst : (s.recs r).stat <;> simp
      rename_i v
      have := hb.lWait r v hst; rw [hw] at this; cases this
    refine invG_gen hg ?_ ?_
    · intro q _ hni
      by_cases hq : q = r
      · subst hq; exfalso; apply hni; simp; exact hidle
      · left; simpa [hq] using hni
    · intro u
      by_cases hu : u = t
      · subst hu; left; simp
        intro q hq
        by_cases hqr : q = r
        · right; simp [hqr]; exact hidle
        · left; exact (List.mem_erase_of_ne hqr).mpr hq
      · left; simp [hu]
        intro q hq
        left; exact hq
  | wHeadExit t r y hy hl hr hw =>
    subst hy
    have hmu : r.isMucv = true := by rw [hr]; exact ((ha.thr t).live (by simp [waitLive, hl])).2.1
    exact invG_one (t := t) (r := r) hg (fun u hu => by simp [hu]) (by simp) (fun q hq => by simp [hq]) (.inl hmu)
  | wCmpEq t r obs hl hr ho he =>
    have hmu : r.isMucv = true := by rw [hr]; exact ((ha.thr t).live (by simp [waitLive, hl])).2.1
    exact invG_one (t := t) (r := r) hg (fun u hu => by simp [hu]) (by simp) (fun q hq => by simp [hq]) (.inl hmu)
  | deqLdQueued t r obs hl hr hw hq =>
    have hst := (ha.qMem r).mp hq
    exact invG_one (t := t) (r := r) hg (fun u hu => by simp [hu]) (by simp) (fun q hq => by simp [hq])
      (.inr (by simp [hst]))
  | wSt1 t r obs hl hm hst =>
    refine invG_one (t := t) (r := r) hg (fun u hu => by simp [hu]) ?_ (fun q hq => by simp [hq]) (.inl hm)
    simp; split <;> simp
  | wClr t r obs hl hr =>
    exact invG_one (t := t) (r := r) hg (fun u hu => by simp [hu]) (by simp) (fun q hq => by simp [hq])
      (.inr (by simp))
  | wake t r obs hl hr =>
    have hst : (s.recs r).stat = .listed t := (ha.lMem t r).mp (head_mem' hr)
    exact invG_one (t := t) (r := r) hg (fun u hu => by simp [hu]) (by simp) (fun q hq => by simp [hq])
      (.inr (by simp [hst]))
  | enqSt t r obs hl hm hst ho he =>
    refine invG_gen hg ?_ ?_
    · intro q _ hni
      by_cases hq : q = r
      · subst hq; right; simp [ho, he]
      · left; simpa [hq] using hni
    · intro u
      by_cases hu : u = t
      · subst hu; left; simp
        intro q hq; left; right; exact hq
      · left; simp [hu]
        intro q hq; left; exact hq
  | deqSt t r obs hl hr =>
    exact invG_one (t := t) (r := r) hg (fun u hu => by simp [hu]) (by simp) (fun q hq => by simp [hq])
      (.inr (by simp))
  | wRmCasOk t r exp new obs hl hr hn ho he =>
    exact invG_one (t := t) (r := r) hg (fun u hu => by simp [hu]) (by simp) (fun q hq => by simp [hq])
      (.inr (by simp))
  | sRcCasOk t site r exp new obs hl hr hn ho he =>
    exact invG_one (t := t) (r := r) hg (fun u hu => by simp [hu]) (by simp) (fun q hq => by simp [hq])
      (.inr (by simp))
  | muMode t obs lt hl hlt =>
    exact invG_one (t := t) (r := (s.thr t).r) hg (fun u hu => by simp [hu]) (by simp) (fun q hq => by simp [hq])
      (.inr (by simp))
  | wwCasOk t exp new obs f rest hl hlist =>
    generalize hxs : transferSet s.recs (firstCantAcquire (s.recs f).lt exp) (s.thr t).list = xs
    have hsub : ∀ q, q ∈ xs → (s.recs q).stat = .listed t := by
      intro q hq
      exact (ha.lMem t q).mp (transferSet_subset _ _ _ q (by rw [hxs]; exact hq))
    refine invG_frame hg ?_ (fun u => by by_cases hu : u = t <;> simp [hu])
    intro q _ hni
    by_cases hq : q ∈ xs
    · simp [hq, hsub q hq]
    · simpa [hq] using hni
  | semVWake t k r q hl hc =>
    exact invG_one (t := t) (r := r) hg (fun u hu => by simp [hu]) (by simp) (fun q hq => by simp [hq])
      (.inr (by simp))
  | semPdRetOkW t k hl =>
    exact invG_frame hg (fun r _ hni => ⟨hni, rfl, rfl⟩) (fun u => by by_cases hu : u = t <;> simp [hu])
  | semPdRetOkC t k hl =>
    exact invG_frame hg (fun r _ hni => ⟨hni, rfl, rfl⟩) (fun u => by by_cases hu : u = t <;> simp [hu])
  | wInit t r hl hm hst =>
    exact invG_one (t := t) (r := r) hg (fun u _ => rfl) ⟨rfl, rfl⟩ (fun q hq => by simp [hq]) (.inl hm)
  | nwInit t r hl hm hst =>
    exact invG_one (t := t) (r := r) hg (fun u _ => rfl) ⟨rfl, rfl⟩ (fun q hq => by simp [hq])
      (.inr (by simp [hst]))
  | fStW t r new hl hf' =>
    exact invG_one (t := t) (r := r) hg (fun u _ => rfl) ⟨rfl, rfl⟩ (fun q hq => by simp [hq]) (.inr (by simp))
  | fCasOk t r exp new obs hl hf' hn ho he =>
    exact invG_one (t := t) (r := r) hg (fun u _ => rfl) ⟨rfl, rfl⟩ (fun q hq => by simp [hq]) (.inr (by simp))

theorem invG_reachable {cfg : Config} {s : State} (h : Reachable cfg s) : InvG s := by
  have : (Inv s ∧ InvF s) ∧ InvG s := by
    refine reachable_induct (P := fun s => (Inv s ∧ InvF s) ∧ InvG s)
      ⟨⟨⟨invA_init, invB_init⟩, invF_init⟩, invG_init⟩ ?_ s h
    intro s e s' ⟨⟨hi, hf⟩, hg⟩ htr
    have hb := invB_tr hi.a hi.b htr
    exact ⟨⟨⟨invA_tr hi.a htr hb.nobad, hb⟩, invF_tr hi.a hi.b hf htr⟩, invG_tr hi.a hi.b hf hg htr⟩
  exact this.2

/-- A registered bare record is alive: its owner is inside the nsync_wait_n call that created it. -/
theorem registered_alive {s : State} (ha : InvA s) (hg : InvG s) (r : Rid) (hm : r.isMucv = false)
    (hni : (s.recs r).stat ≠ .idle) : alive s r = true := by
  obtain ⟨m, e⟩ := hg.reg r hm hni
  unfold alive
  simp only [Bool.and_eq_true, decide_eq_true_eq]
  refine ⟨e, ?_⟩
  cases hw : inWaitN (s.thr (s.recs r).owner)
  · have := (ha.thr _).mine0 hw; rw [this] at m; cases m
  · rfl

end NsyncVerif.CvFix
