import NsyncVerif.Proofs.MuCInv4Ld
/-
  MuC (I_queue): a thread that holds the spinlock puts its own record `k` on mu->waiters.
-/
namespace NsyncVerif.MuC

theorem limbo_mem_ws {p : PC} {k : Wid} (h : p.limbo = some k) : k ∈ p.ws := by
  cases p <;> simp [PC.limbo] at h <;> simp [PC.ws, h]

theorem Inv4.enqueue {s s' : State} (t : Tid) (k : Wid) (h3 : Inv3 s) (h : Inv4 s) (hspin : (s.pc t).spin = true)
    (hq : s'.queue = s.queue ++ [k] ∨ s'.queue = k :: s.queue)
    (hwrk : (s'.wr k).waiting = true ∧ (s'.wr k).owner = some t)
    (hwro : ∀ x, x ≠ k → (s'.wr x).owner = (s.wr x).owner ∧ (s'.wr x).waiting = (s.wr x).waiting)
    (hnq : ¬ Queued s k) (hnw : ∀ u, k ∉ (s.pc u).wakeL) (hown : ∀ u, u ≠ t → k ∉ (s.pc u).ws)
    (hpc : ∀ u, u ≠ t → s'.pc u = s.pc u)
    (hws : ∀ x, x ∈ (s'.pc t).ws → x = k ∨ x ∈ (s.pc t).ws)
    (hunl : (s'.pc t).unl = false) (hunl0 : (s.pc t).unl = false)
    (hwk : (s'.pc t).wakeL = []) (hwk0 : (s.pc t).wakeL = [])
    (hlb : (s'.pc t).limbo = none) (hfin : (s'.pc t).finOf = none) : Inv4 s' := by
  have hsc0 : (s.pc t).scan? = none := by
    cases hp : s.pc t <;> rw [hp] at hunl0 <;> simp [PC.unl] at hunl0 <;> rfl
  have hsc1 : (s'.pc t).scan? = none := by
    cases hp : s'.pc t <;> rw [hp] at hunl <;> simp [PC.unl] at hunl <;> rfl
  have hsc : ∀ u, (s'.pc u).scan? = (s.pc u).scan? := by
    intro u; by_cases hu : u = t
    · subst hu; rw [hsc0, hsc1]
    · rw [hpc u hu]
  have hwkL : ∀ u, (s'.pc u).wakeL = (s.pc u).wakeL := by
    intro u; by_cases hu : u = t
    · subst hu; rw [hwk, hwk0]
    · rw [hpc u hu]
  have hmemq : ∀ x, x ∈ s'.queue ↔ x = k ∨ x ∈ s.queue := by
    intro x; rcases hq with hq | hq <;> rw [hq] <;> simp [or_comm]
  have hQ : ∀ x, Queued s' x ↔ x = k ∨ Queued s x := by
    intro x
    simp only [Queued, hmemq, hsc]
    constructor
    · rintro ((h1 | h1) | h1)
      · exact Or.inl h1
      · exact Or.inr (Or.inl h1)
      · exact Or.inr (Or.inr h1)
    · rintro (h1 | h1 | h1)
      · exact Or.inl (Or.inl h1)
      · exact Or.inl (Or.inr h1)
      · exact Or.inr h1
  have hkq : k ∉ s.queue := fun e => hnq (Or.inl e)
  have hkp : ∀ u, k ∉ (s.pc u).priv := fun u e => by
    obtain ⟨sc, h1, h2⟩ := mem_priv_iff.1 e
    exact hnq (Or.inr ⟨u, sc, h1, h2⟩)
  refine ⟨?_, ?_, ?_, ?_, ?_, ?_, ?_, fun u v x hu hv => by rw [hwkL] at hu hv; exact h.wkd u v x hu hv⟩
  · intro u x hx
    by_cases hu : u = t
    · subst hu
      rcases hws x hx with rfl | hx'
      · exact hwrk.2
      · by_cases hxk : x = k
        · subst hxk; exact hwrk.2
        · rw [(hwro x hxk).1]; exact h.own u x hx'
    · rw [hpc u hu] at hx
      have hxk : x ≠ k := fun e => hown u hu (e ▸ hx)
      rw [(hwro x hxk).1]; exact h.own u x hx
  · intro u v hu hv
    have e : ∀ w, (s'.pc w).unl = (s.pc w).unl := by
      intro w; by_cases hw : w = t
      · subst hw; rw [hunl, hunl0]
      · rw [hpc w hw]
    rw [e] at hu hv; exact h.uniq u v hu hv
  · intro u
    have hnd := h.nd u
    simp only [allOf, PC.priv, hsc, hwkL] at hnd ⊢
    have hk' : k ∉ s.queue ++ (match (s.pc u).scan? with | some sc => sc.lists | none => []) ++ (s.pc u).wakeL := by
      simp only [List.mem_append, not_or]
      exact ⟨⟨hkq, hkp u⟩, hnw u⟩
    rcases hq with hq | hq <;> rw [hq]
    · simp only [List.append_assoc] at hnd hk' ⊢
      rw [← List.append_assoc [k]]
      have : (s.queue ++ ([k] ++ ((match (s.pc u).scan? with | some sc => sc.lists | none => []) ++ (s.pc u).wakeL))).Perm
          (k :: (s.queue ++ ((match (s.pc u).scan? with | some sc => sc.lists | none => []) ++ (s.pc u).wakeL))) := by
        simpa using List.perm_middle
      simp only [List.append_assoc] at this ⊢
      exact (List.Perm.nodup_iff this).2 (List.nodup_cons.2 ⟨hk', hnd⟩)
    · simp only [List.cons_append, List.append_assoc] at hnd hk' ⊢
      exact List.nodup_cons.2 ⟨hk', hnd⟩
  · intro x hx
    rcases (hQ x).1 hx with rfl | hx'
    · exact hwrk.1
    · have hxk : x ≠ k := fun e => hnq (e ▸ hx')
      rw [(hwro x hxk).2]; exact h.wait x hx'
  · intro u x hx
    rw [hwkL] at hx
    have hxk : x ≠ k := fun e => hnw u (e ▸ hx)
    obtain ⟨a, b⟩ := h.wk u x hx
    refine ⟨by rw [(hwro x hxk).2]; exact a, fun hqx => ?_⟩
    rcases (hQ x).1 hqx with e | e
    · exact hxk e
    · exact b e
  · intro u x hx
    by_cases hu : u = t
    · subst hu; rw [hlb] at hx; cases hx
    · rw [hpc u hu] at hx
      have hxk : x ≠ k := fun e => hown u hu (e ▸ limbo_mem_ws hx)
      obtain ⟨a, b, c⟩ := h.limbo u x hx
      refine ⟨by rw [(hwro x hxk).2]; exact a, fun hqx => ?_, fun v => by rw [hwkL]; exact c v⟩
      rcases (hQ x).1 hqx with e | e
      · exact hxk e
      · exact b e
  · intro u f hf
    by_cases hu : u = t
    · subst hu; rw [hfin] at hf; cases hf
    · rw [hpc u hu] at hf
      have := h3.fin_owner hspin hf
      exact absurd this hu

end NsyncVerif.MuC
