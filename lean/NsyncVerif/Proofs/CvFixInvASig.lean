/-
  Layer `CvFix` (cv.c with the repair of F3; adapted from the `Cv` file of the same name): structural invariant — acquisition of the spinlock by signal / broadcast (all the
  unlinking happens here) and the transfer step of wake_waiters.
-/
import NsyncVerif.Proofs.CvFixInvAAcq

namespace NsyncVerif.CvFix

theorem filter_not_contains_self (l : List Rid) : l.filter (fun r => !(l.contains r)) = [] := by
  rw [List.filter_eq_nil_iff]
  intro a ha
  simp [ha]

theorem invA_acq_sig {s : State} (hi : InvA s) (t : Tid) (n : Word) (sel td : List Rid) (ar : Bool) (lnew : Loc)
    (hlocs : lnew = .sRel ∨ lnew = .sRcLd) (hl : (s.thr t).loc = .spCas) (hc : (s.thr t).cont = .sig)
    (hnone : s.holder = none) (hn1 : n.spin = true) (hsp : s.word.spin = false)
    (hfree : ∀ u, (s.thr u).loc.holds = false)
    (hsub : sel.Sublist s.queue) (hbc : (s.thr t).bcast = true → sel = s.queue) :
    InvA { s with word := n, holder := some t, queue := s.queue.filter (fun r => !(sel.contains r)), recs := fun r => if sel.contains r then { s.recs r with stat := .listed t, unl := (s.recs r).unl ++ [Unl.waker t] } else s.recs r, thr := updT s.thr t { s.thr t with list := sel, todo := td, firstRc := true, old := if (s.thr t).bcast then { spin := false, ne := false } else if !s.queue.isEmpty && (s.queue.filter (fun r => !(sel.contains r))).isEmpty then { s.word with ne := false } else s.word, allReaders := ar, loc := lnew } } := by
  tfacts hl
  simp only [hc] at t2 t3 t8
  have hlist : (s.thr t).list = [] := t1 trivial
  have hmine : (s.thr t).mine = [] := t8 (by simp)
  have hselq : ∀ r, r ∈ sel → r ∈ s.queue := fun r h => hsub.subset h
  have hselst : ∀ r, r ∈ sel → (s.recs r).stat = .queued := fun r h => (hi.qMem r).mp (hselq r h)
  have hword := hi.free hnone
  constructor
  · simp [hn1]
  · intro u
    by_cases hu : u = t
    · subst hu
      simp only [updT_apply, if_true]
      rcases hlocs with h | h <;> subst h <;> simp [Loc.holds]
    · simp only [updT_apply, hu, if_false, hfree u]
      simp; exact fun e => hu e.symm
  · intro u e
    have e' : u = t := by simp at e; exact e.symm
    subst e'
    simp only [updT_apply, if_true]
    by_cases hb : (s.thr u).bcast = true
    · simp only [hb, if_true]
      rw [hbc hb, filter_not_contains_self]; simp
    · simp only [hb, if_false]
      generalize hq2 : s.queue.filter (fun r => !(sel.contains r)) = q2
      cases hq : s.queue with
      | nil =>
        rw [hq] at hq2; simp at hq2; subst hq2
        have : s.word.ne = false := by have := hword; rw [hq] at this; simpa using this
        simp [hsp, this]
      | cons a l =>
        have hne : s.word.ne = true := hword.mpr (by rw [hq]; simp)
        cases q2 with
        | nil => simp [hsp]
        | cons b l2 => simp [hsp, hne]
  · intro e; simp at e
  · exact hi.qNd.filter _
  · intro r
    simp only [List.mem_filter]
    by_cases hr : r ∈ sel
    · simp [hr]
    · simp [hr]; exact hi.qMem r
  · intro r
    by_cases hr : r ∈ sel
    · simp [hr]
    · simp [hr]; exact hi.qWait r
  · intro u
    by_cases hu : u = t
    · subst hu; simp only [updT_apply, if_true]; exact hsub.nodup hi.qNd
    · simp only [updT_apply, hu, if_false]; exact hi.lNd u
  · intro u r
    by_cases hu : u = t
    · subst hu
      simp only [updT_apply, if_true]
      by_cases hr : r ∈ sel
      · simp [hr]
      · simp [hr]
        have := hi.lMem u r; rw [hlist] at this; simpa using this
    · simp only [updT_apply, hu, if_false]
      by_cases hr : r ∈ sel
      · simp [hr]
        constructor
        · intro hm; have := (hi.lMem u r).mp hm; rw [hselst r hr] at this; cases this
        · intro e; exact absurd e.symm hu
      · simp [hr]; exact hi.lMem u r
  · intro u
    by_cases hu : u = t
    · subst hu
      rcases hlocs with h | h <;> subst h <;>
        constructor <;> simp [waitLive, waitPrep, inWaitN, Loc.wakePhase, hmine]
    · refine tinvA_other (hi.thr u) (by simp [hu]) ?_ ?_
      · intro q ho hq'
        by_cases hr : q ∈ sel
        · simp only [List.contains_iff_mem, hr, if_true]
          have := hselst q hr
          constructor <;> simp [this, RStat.live, ho]
        · simp only [List.contains_iff_mem, hr, if_false]
          exact RecOK.rfl' hq'
      · intro hb; rw [hfree u] at hb; cases hb
  · intro u hb1 hb2
    by_cases hu : u = t
    · subst hu
      simp only [updT_apply, if_true] at hb1
      simp only
      rw [hbc hb1, filter_not_contains_self]
    · simp only [updT_apply, hu, if_false] at hb2
      have := hfree u
      rcases hb2 with hb2 | hb2 | hb2 <;> simp [hb2, Loc.holds] at this
  · intro r
    by_cases hr : r ∈ sel
    · simp [hr]
    · simp [hr]; exact hi.pWait r


/-- wake_waiters moves the records `xs` of its private list to the mutex queue (cv.c:78-121). -/
theorem invA_transfer {s : State} (hi : InvA s) (t : Tid) (xs : List Rid) (sor : Nat) (hl : (s.thr t).loc = .wwMuCas)
    (hxs : ∀ r, r ∈ xs → r ∈ (s.thr t).list) :
    InvA { s with recs := fun r => if xs.contains r then { s.recs r with stat := .xfer } else s.recs r, thr := updT s.thr t { s.thr t with list := (s.thr t).list.filter (fun r => !(xs.contains r)), setOnRel := sor, loc := .wwRelLd } } := by
  tfacts hl
  have hmine : (s.thr t).mine = [] := t8 trivial
  have hxst : ∀ r, r ∈ xs → (s.recs r).stat = .listed t := fun r h => (hi.lMem t r).mp (hxs r h)
  have hnh : (s.thr t).loc.holds = false := by simp [hl, Loc.holds]
  have hnt : s.holder ≠ some t := fun e => by have := (hi.hold t).mp e; rw [hnh] at this; cases this
  constructor
  · exact hi.spin
  · intro u
    by_cases hu : u = t
    · subst hu; simp [Loc.holds, hnt]
    · simp only [updT_apply, hu, if_false]; exact hi.hold u
  · intro u e
    have hu : u ≠ t := fun h => by subst h; exact hnt e
    simp only [updT_apply, hu, if_false]; exact hi.old u e
  · exact hi.free
  · exact hi.qNd
  · intro r
    by_cases hr : r ∈ xs
    · simp [hr]
      intro hm; have := (hi.qMem r).mp hm; rw [hxst r hr] at this; cases this
    · simp [hr]; exact hi.qMem r
  · intro r
    by_cases hr : r ∈ xs
    · simp [hr]
    · simp [hr]; exact hi.qWait r
  · intro u
    by_cases hu : u = t
    · subst hu; simp only [updT_apply, if_true]; exact (hi.lNd u).filter _
    · simp only [updT_apply, hu, if_false]; exact hi.lNd u
  · intro u r
    by_cases hu : u = t
    · subst hu
      simp only [updT_apply, if_true, List.mem_filter]
      by_cases hr : r ∈ xs
      · simp [hr]
      · simp [hr]; exact hi.lMem u r
    · simp only [updT_apply, hu, if_false]
      by_cases hr : r ∈ xs
      · simp [hr]
        intro hm; have := (hi.lMem u r).mp hm; rw [hxst r hr] at this
        simp at this; exact hu this.symm
      · simp [hr]; exact hi.lMem u r
  · intro u
    by_cases hu : u = t
    · subst hu
      constructor <;> simp [waitLive, waitPrep, inWaitN, Loc.wakePhase, hmine]
    · refine tinvA_other (hi.thr u) (by simp [hu]) ?_ ?_
      · intro q ho hq'
        by_cases hr : q ∈ xs
        · simp only [List.contains_iff_mem, hr, if_true]
          have := hxst q hr
          constructor <;> simp [this, RStat.live, ho]
        · simp only [List.contains_iff_mem, hr, if_false]
          exact RecOK.rfl' hq'
      · intro _ q e
        by_cases hr : q ∈ xs
        · rw [hxst q hr] at e; cases e
        · simp [hr]; exact e
  · intro u hb1 hb2
    by_cases hu : u = t
    · subst hu; simp at hb2
    · simp only [updT_apply, hu, if_false] at hb1 hb2; exact hi.bq u hb1 hb2
  · intro r
    by_cases hr : r ∈ xs
    · simp [hr]
    · simp [hr]; exact hi.pWait r

end NsyncVerif.CvFix
