/-
  Layer `CvFix` (cv.c with the repair of F3; adapted from the `Cv` file of the same name): structural invariant — generic lemma for a transition that changes one record and
  the frame of the acting thread, while no other thread holds the spinlock.
-/
import NsyncVerif.Proofs.CvFixInvASimple

namespace NsyncVerif.CvFix

theorem invA_one {s s' : State} {t : Tid} {r : Rid} (hi : InvA s)
    (hthr : ∀ u, u ≠ t → s'.thr u = s.thr u)
    (hrecs : ∀ q, q ≠ r → s'.recs q = s.recs q)
    (hnot : ∀ u, u ≠ t → (s.thr u).loc.holds = false)
    -- the cv word and the spinlock
    (hspin : s'.word.spin = s'.holder.isSome)
    (hhold : (s'.holder = some t ∧ (s'.thr t).loc.holds = true) ∨ (s'.holder = none ∧ (s'.thr t).loc.holds = false))
    (hold : s'.holder = some t → (s'.thr t).old.spin = false ∧ ((s'.thr t).old.ne = true ↔ s'.queue ≠ []))
    (hfree : s'.holder = none → (s'.word.ne = true ↔ s'.queue ≠ []))
    -- the queue
    (hqNd : s'.queue.Nodup)
    (hqMem : ∀ q, q ∈ s'.queue ↔ (s'.recs q).stat = .queued)
    (hqW : (s'.recs r).stat = .queued ∨ (s'.recs r).stat = .prep → (s'.recs r).waiting = true)
    -- the lists
    (hlNd : (s'.thr t).list.Nodup)
    (hlt : ∀ q, q ∈ (s'.thr t).list ↔ (s'.recs q).stat = .listed t)
    (hlu : ∀ u, u ≠ t → ((s.recs r).stat = .listed u ↔ (s'.recs r).stat = .listed u))
    -- the owner of the record, if it is another thread, keeps its facts
    (hro : (s.recs r).stat ≠ .idle → (s.recs r).owner = t ∨ RecOK (s.recs r) (s'.recs r))
    (ht : TInvA s' t)
    (hb : ∀ u, (s'.thr u).bcast = true →
      ((s'.thr u).loc = .sRcLd ∨ (s'.thr u).loc = .sRcCas ∨ (s'.thr u).loc = .sRel) → s'.queue = []) :
    InvA s' := by
  obtain ⟨a1, a2, a3, a4, a5, a6, a7, a8, a9, a10, a11, a12⟩ := hi
  constructor
  · exact hspin
  · intro u
    by_cases hu : u = t
    · subst hu
      rcases hhold with ⟨h1, h2⟩ | ⟨h1, h2⟩ <;> simp [h1, h2]
    · rw [hthr u hu, hnot u hu]
      rcases hhold with ⟨h1, h2⟩ | ⟨h1, h2⟩ <;> simp [h1]
      exact fun e => hu e.symm
  · intro u e
    have : u = t := by
      rcases hhold with ⟨h1, h2⟩ | ⟨h1, h2⟩
      · rw [h1] at e; cases e; rfl
      · rw [h1] at e; cases e
    subst this
    exact hold e
  · exact hfree
  · exact hqNd
  · exact hqMem
  · intro q e
    by_cases hq : q = r
    · subst hq; exact hqW (.inl e)
    · rw [hrecs q hq] at e ⊢; exact a7 q e
  · intro u
    by_cases hu : u = t
    · subst hu; exact hlNd
    · rw [hthr u hu]; exact a8 u
  · intro u q
    by_cases hu : u = t
    · subst hu; exact hlt q
    · rw [hthr u hu]
      by_cases hq : q = r
      · subst hq; rw [← hlu u hu]; exact a9 u q
      · rw [hrecs q hq]; exact a9 u q
  · intro u
    by_cases hu : u = t
    · subst hu; exact ht
    · refine tinvA_other (a10 u) (hthr u hu) ?_ ?_
      · intro q ho hq'
        by_cases hq : q = r
        · subst hq
          rcases hro hq' with h | h
          · rw [h] at ho; exact absurd ho.symm hu
          · exact h
        · rw [hrecs q hq]; exact RecOK.rfl' hq'
      · intro hb'; rw [hnot u hu] at hb'; cases hb'
  · exact hb
  · intro q e
    by_cases hq : q = r
    · subst hq; exact hqW (.inr e)
    · rw [hrecs q hq] at e ⊢; exact a12 q e


/-- One record changes (neither its old nor its new status is `queued`), the acting thread is
    outside the critical section before and after; cv word, spinlock and queue are untouched. -/
theorem invA_one_nolock {s s' : State} {t : Tid} {r : Rid} (hi : InvA s)
    (hword : s'.word = s.word) (hholder : s'.holder = s.holder) (hqueue : s'.queue = s.queue)
    (hthr : ∀ u, u ≠ t → s'.thr u = s.thr u)
    (hrecs : ∀ q, q ≠ r → s'.recs q = s.recs q)
    (hh1 : (s.thr t).loc.holds = false) (hh2 : (s'.thr t).loc.holds = false)
    (hnq1 : (s.recs r).stat ≠ .queued) (hnq2 : (s'.recs r).stat ≠ .queued)
    (hpW : (s'.recs r).stat = .prep → (s'.recs r).waiting = true)
    (hlNd : (s'.thr t).list.Nodup)
    (hlt : ∀ q, q ∈ (s'.thr t).list ↔ (s'.recs q).stat = .listed t)
    (hlu : ∀ u, u ≠ t → ((s.recs r).stat = .listed u ↔ (s'.recs r).stat = .listed u))
    (hro : (s.recs r).stat ≠ .idle → (s.recs r).owner = t ∨ RecOK (s.recs r) (s'.recs r))
    (ht : TInvA s' t) : InvA s' := by
  obtain ⟨a1, a2, a3, a4, a5, a6, a7, a8, a9, a10, a11, a12⟩ := hi
  have hnt : s.holder ≠ some t := fun e => by have := (a2 t).mp e; rw [hh1] at this; cases this
  constructor
  · rw [hword, hholder]; exact a1
  · intro u
    rw [hholder]
    by_cases hu : u = t
    · subst hu; rw [hh2]; simp [hnt]
    · rw [hthr u hu]; exact a2 u
  · intro u e
    rw [hholder] at e
    have hu : u ≠ t := fun h => by subst h; exact hnt e
    rw [hthr u hu, hqueue]; exact a3 u e
  · rw [hholder, hword, hqueue]; exact a4
  · rw [hqueue]; exact a5
  · intro q
    rw [hqueue]
    by_cases hq : q = r
    · subst hq
      constructor
      · intro h; exact absurd ((a6 q).mp h) hnq1
      · intro h; exact absurd h hnq2
    · rw [hrecs q hq]; exact a6 q
  · intro q e
    by_cases hq : q = r
    · subst hq; exact absurd e hnq2
    · rw [hrecs q hq] at e ⊢; exact a7 q e
  · intro u
    by_cases hu : u = t
    · subst hu; exact hlNd
    · rw [hthr u hu]; exact a8 u
  · intro u q
    by_cases hu : u = t
    · subst hu; exact hlt q
    · rw [hthr u hu]
      by_cases hq : q = r
      · subst hq; rw [← hlu u hu]; exact a9 u q
      · rw [hrecs q hq]; exact a9 u q
  · intro u
    by_cases hu : u = t
    · subst hu; exact ht
    · refine tinvA_other (a10 u) (hthr u hu) ?_ ?_
      · intro q ho hq'
        by_cases hq : q = r
        · subst hq
          rcases hro hq' with h | h
          · rw [h] at ho; exact absurd ho.symm hu
          · exact h
        · rw [hrecs q hq]; exact RecOK.rfl' hq'
      · intro _ q e
        by_cases hq : q = r
        · subst hq; exact absurd e hnq1
        · rw [hrecs q hq]; exact e
  · intro u hb1 hb2
    rw [hqueue]
    by_cases hu : u = t
    · subst hu
      rcases hb2 with hb2 | hb2 | hb2 <;> simp [hb2, Loc.holds] at hh2
    · rw [hthr u hu] at hb1 hb2; exact a11 u hb1 hb2
  · intro q e
    by_cases hq : q = r
    · subst hq; exact hpW e
    · rw [hrecs q hq] at e ⊢; exact a12 q e

end NsyncVerif.CvFix
