import NsyncVerif.Proofs.MuCTLResp
/-
  MuC, `RKeep`: API boundaries, semaphore and note events.
-/
namespace NsyncVerif.MuC

theorem rkeep_call {s s' : State} {t : Tid} {a : Api} (h : stepCall s t a = .ok s') : RKeep s s' t := by
  walk_call h a => rk_tl

theorem rkeep_ret {s s' : State} {t : Tid} {a : Api} {res : Res} (h1 : Inv1 s) (h : stepRet s t a res = .ok s') : RKeep s s' t := by
  have hok := h1.pcok t
  have hheld : s.pc t ≠ .idle → s.held t = none := fun a => h1.held_none a
  walk_ret h => rk_tl

theorem rkeep_sem {cfg : Cfg} {s s' : State} {e : Event} {t : Tid} (h1 : Inv1 s)
    (he : match e with
      | .semPEnter u _ | .semPRet u _ | .semPdEnter u _ _ | .semPdRet u _ _ | .semV u _ | .noteSeen u | .noteNotify u => u = t
      | _ => False)
    (h : step cfg s e = .ok s') : RKeep s s' t := by
  have hok := h1.pcok t
  have hheld : s.pc t ≠ .idle → s.held t = none := fun a => h1.held_none a
  cases e <;> simp only at he <;> subst he
  all_goals walk_sem h => rk_tl

end NsyncVerif.MuC
