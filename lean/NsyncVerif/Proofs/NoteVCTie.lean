/-
  Layer `Note` × vector clocks: the exported site table agrees with the replay driver
  (`Model/NoteDriver.lean`), which decides which log line becomes which model event.

  * `ord_names_tie` (kernel-checked): the order token of the table (`rlx|acq|rel|ar`) is parsed by the
    driver to the order `noteSiteOrd` declares; with `step_orders` (the acceptor rejects any other
    order at that site) an accepted log carries, at every site, exactly the order the clock machine
    uses.
  * the two `#guard`s (evaluated at every build; `String.splitOn` does not reduce in the kernel):
    the site token `<file>/<k>/<function>` of the table is parsed by the driver to the model site.
  The tie of `noteSiteOrd` to the SOURCE (the regenerated table `Gen.sites`) is `noteSitesAgree`.
-/
import NsyncVerif.Proofs.NoteVC
import NsyncVerif.Model.NoteDriver

namespace Note

theorem ord_names_tie :
    (Site.all.all fun s => decide (Driver.parseOrd (ordStr (noteSiteOrd s)) = some (noteSiteOrd s))) = true := by
  decide

#guard Site.all.all fun s => decide (Driver.parseSite (noteSiteName s) = some s)
#guard noteSiteOrdTable.length == 14

end Note
