import NsyncVerif.Model.VC
/-
  Generic facts about the vector-clock machine: clocks only grow, an acquire read imports the
  location's release clock, a release write exports the writer's clock, and the release clock keeps
  dominating a given clock as long as the location is only written by read-modify-writes or by
  release stores of threads that already dominate it (the release-chain lemma).  Their composition is
  the message-passing theorem used for every hand-off of property C03.
-/
namespace NsyncVerif.VC

variable {Loc : Type} [DecidableEq Loc]

theorem Clock.le_refl (a : Clock) : Clock.le a a := fun _ => Nat.le_refl _
theorem Clock.le_trans {a b c : Clock} (h1 : Clock.le a b) (h2 : Clock.le b c) : Clock.le a c :=
  fun i => Nat.le_trans (h1 i) (h2 i)
theorem Clock.le_join_left (a b : Clock) : Clock.le a (Clock.join a b) := fun _ => Nat.le_max_left _ _
theorem Clock.le_join_right (a b : Clock) : Clock.le b (Clock.join a b) := fun _ => Nat.le_max_right _ _
theorem Clock.le_tick (a : Clock) (t : Tid) : Clock.le a (a.tick t) := by
  intro i; unfold Clock.tick; split <;> omega

theorem upd_same {α β : Type} [DecidableEq α] (f : α → β) (a : α) (b : β) : upd f a b a = b := by simp [upd]
theorem upd_other {α β : Type} [DecidableEq α] (f : α → β) {a x : α} (b : β) (h : x ≠ a) : upd f a b x = f x := by
  simp [upd, h]

/-- Clocks only grow. -/
theorem vc_mono (s : St Loc) (e : AEv Loc) (u : Tid) : Clock.le (s.vc u) ((step s e).vc u) := by
  unfold step
  cases e.op <;> simp only
  · split
    · by_cases h : u = e.t
      · subst h; ((try dsimp only); rw [upd_same]); exact Clock.le_join_left _ _
      · ((try dsimp only); rw [upd_other _ _ h]); exact Clock.le_refl _
    · exact Clock.le_refl _
  · by_cases h : u = e.t
    · subst h; ((try dsimp only); rw [upd_same]); exact Clock.le_tick _ _
    · ((try dsimp only); rw [upd_other _ _ h]); exact Clock.le_refl _
  · by_cases h : u = e.t
    · subst h; ((try dsimp only); rw [upd_same])
      split
      · exact Clock.le_trans (Clock.le_join_left _ _) (Clock.le_tick _ _)
      · exact Clock.le_tick _ _
    · ((try dsimp only); rw [upd_other _ _ h]); exact Clock.le_refl _

theorem vc_mono_run (s : St Loc) (es : List (AEv Loc)) (u : Tid) : Clock.le (s.vc u) ((run s es).vc u) := by
  induction es generalizing s with
  | nil => exact Clock.le_refl _
  | cons e es ih => exact Clock.le_trans (vc_mono s e u) (ih (step s e))

/-- An acquire load or acquire RMW imports the release clock of its location. -/
theorem acq_sees_relc (s : St Loc) (e : AEv Loc) (ha : e.ord.isAcq = true) (hop : e.op = .ld ∨ e.op = .rmw) :
    Clock.le (s.relc e.loc) ((step s e).vc e.t) := by
  unfold step
  rcases hop with h | h <;> rw [h] <;> simp only [ha, if_true]
  · ((try dsimp only); rw [upd_same]); exact Clock.le_join_right _ _
  · ((try dsimp only); rw [upd_same]); exact Clock.le_trans (Clock.le_join_right _ _) (Clock.le_tick _ _)

/-- A release store or release RMW exports the writer's clock into the location's release clock. -/
theorem rel_records (s : St Loc) (e : AEv Loc) (hr : e.ord.isRel = true) (hop : e.op = .st ∨ e.op = .rmw) :
    Clock.le (s.vc e.t) ((step s e).relc e.loc) := by
  unfold step
  rcases hop with h | h <;> rw [h] <;> simp only [hr, if_true]
  · ((try dsimp only); rw [upd_same]); exact Clock.le_refl _
  · ((try dsimp only); rw [upd_same])
    split
    · exact Clock.le_trans (Clock.le_join_left _ _) (Clock.le_join_right _ _)
    · exact Clock.le_join_right _ _

/-- An event is harmless for the release sequence on `x` carrying clock `c`: it is not a plain store to
    `x`, unless it is a release store by a thread whose clock already dominates `c`. -/
def Safe (x : Loc) (c : Clock) (s : St Loc) (e : AEv Loc) : Prop :=
  e.loc = x → e.op = .st → (e.ord.isRel = true ∧ Clock.le c (s.vc e.t))

/-- RELEASE CHAIN: a clock carried by the release clock of `x` stays carried across harmless events
    (loads, failed CASes, RMWs of any order, operations on other locations, dominated release stores). -/
theorem release_chain_step (x : Loc) (c : Clock) (s : St Loc) (e : AEv Loc)
    (hc : Clock.le c (s.relc x)) (hs : Safe x c s e) : Clock.le c ((step s e).relc x) := by
  unfold step
  cases hop : e.op <;> simp only
  · split <;> exact hc
  · by_cases hx : x = e.loc
    · subst hx; ((try dsimp only); rw [upd_same])
      have := hs rfl hop
      simp only [this.1, if_true]; exact this.2
    · ((try dsimp only); rw [upd_other _ _ hx]); exact hc
  · by_cases hx : x = e.loc
    · subst hx; ((try dsimp only); rw [upd_same])
      split
      · exact Clock.le_trans hc (Clock.le_join_left _ _)
      · exact hc
    · ((try dsimp only); rw [upd_other _ _ hx]); exact hc

/-- All events of a run are harmless (each judged in the state in which it executes). -/
def SafeRun (x : Loc) (c : Clock) : St Loc → List (AEv Loc) → Prop
  | _, [] => True
  | s, e :: es => Safe x c s e ∧ SafeRun x c (step s e) es

theorem release_chain_run (x : Loc) (c : Clock) (s : St Loc) (es : List (AEv Loc))
    (hc : Clock.le c (s.relc x)) (hs : SafeRun x c s es) : Clock.le c ((run s es).relc x) := by
  induction es generalizing s with
  | nil => exact hc
  | cons e es ih => exact ih (step s e) (release_chain_step x c s e hc hs.1) hs.2

/-- MESSAGE PASSING.  Thread `u` performs a release write on `x`; then any number of events of any threads
    that do not break the release sequence (no relaxed plain store to `x`; release stores to `x` only by
    threads that already saw the message); then thread `t` performs an acquire read of `x`.  Everything
    `u` did before its write happens before everything `t` does after its read. -/
theorem message_passing (s0 : St Loc) (w : AEv Loc) (mid : List (AEv Loc)) (r : AEv Loc)
    (hw_rel : w.ord.isRel = true) (hw_op : w.op = .st ∨ w.op = .rmw)
    (hmid : SafeRun w.loc (s0.vc w.t) (step s0 w) mid)
    (hr_loc : r.loc = w.loc) (hr_acq : r.ord.isAcq = true) (hr_op : r.op = .ld ∨ r.op = .rmw) :
    Clock.le (s0.vc w.t) ((step (run (step s0 w) mid) r).vc r.t) := by
  have h1 := rel_records s0 w hw_rel hw_op
  have h2 := release_chain_run w.loc (s0.vc w.t) (step s0 w) mid h1 hmid
  have h3 := acq_sees_relc (run (step s0 w) mid) r hr_acq hr_op
  rw [hr_loc] at h3
  exact Clock.le_trans h2 h3

/-- Without the acquire on the read (or the release on the write) the edge is NOT credited: a relaxed
    load leaves the reader's clock unchanged. -/
theorem relaxed_load_no_edge (s : St Loc) (e : AEv Loc) (h : e.ord.isAcq = false) (hop : e.op = .ld) :
    (step s e).vc = s.vc := by
  unfold step; rw [hop]; simp [h]

/-- A relaxed plain store wipes the release clock of its location (the release sequence is broken). -/
theorem relaxed_store_breaks (s : St Loc) (e : AEv Loc) (h : e.ord.isRel = false) (hop : e.op = .st) :
    (step s e).relc e.loc = Clock.bot := by
  unfold step; rw [hop]; simp [h, upd]

end NsyncVerif.VC
