/-
  Proofs/WaitNSem.lean — semaphore accounting for nsync_wait_n, part 1: definitions.
  * `binSem evs`: the state of every semaphore under the BINARY flavour after the events `evs` (a V sets it,
    a P that returns 0 clears it; a second V is absorbed).  It is a function of the event sequence alone.
  * `inSleep`: the program points of the do-while of wait.c (scans, and the P).
  * `SemA`: what one accepted step does to the semaphore counts and to the pending posts.
  * the helper functions of the model (dflt, bindSem, postSem, …) satisfy `SemA`.
-/
import NsyncVerif.Proofs.WaitNCvLife2

set_option linter.unusedSimpArgs false
set_option linter.unusedVariables false

namespace WaitN

/-- `e` is a V on semaphore j -/
def isV : Ev → SemId → Bool
  | .semV j', j => j' == j
  | _, _ => false

/-- `e` is a P (with or without deadline) on semaphore j that returns 0, i.e. consumes a token -/
def isPret : Ev → SemId → Bool
  | .pRet j', j => j' == j
  | .pdRet j' false, j => j' == j
  | _, _ => false

/-- binary flavour: V sets the semaphore, a successful P clears it -/
def binStep (b : SemId → Bool) : Event → SemId → Bool
  | .thr _ e => fun j => if isV e j then true else if isPret e j then false else b j
  | .tick _ => b

/-- the binary semaphores after `evs` (all initially 0) -/
def binSem (evs : List Event) : SemId → Bool := evs.foldl binStep (fun _ => false)

theorem binSem_append (evs : List Event) (e : Event) : binSem (evs ++ [e]) = binStep (binSem evs) e := by
  simp [binSem, List.foldl_append]

/-- the do-while of wait.c: the scans over `ready_time (v, &nw[j])` and the P -/
def inSleep : PC → Bool
  | .wCvRT _ | .wCtrRT .loop _ _ | .wND .loop _ _ | .wPdEnter | .wPdWait _ => true
  | _ => false

theorem inCall_of_inSleep {p : PC} (h : inSleep p = true) : inCall p = true := by
  cases p <;> simp [inSleep, inCall] at h ⊢

/-! ### where the program-counter arithmetic of wait.c lands -/

@[simp] theorem relockNext_ne_pd (f : Frame) (j : SemId) : (relockNext f = .wPdWait j) = False := by
  unfold relockNext; split <;> simp
@[simp] theorem finNext_ne_pd (f : Frame) (j : SemId) : (finNext f = .wPdWait j) = False := by
  unfold finNext; split <;> simp
@[simp] theorem deqNext_ne_pd (f : Frame) (k : Nat) (j : SemId) : (deqNext f k = .wPdWait j) = False := by
  unfold deqNext; split
  · split <;> simp
  · simp
@[simp] theorem scanEnd_ne_pd (f : Frame) (j : SemId) : (scanEnd f = .wPdWait j) = False := by
  unfold scanEnd; split <;> simp
@[simp] theorem loopNext_ne_pd (f : Frame) (k : Nat) (j : SemId) : (loopNext f k = .wPdWait j) = False := by
  unfold loopNext; split
  · split <;> simp
  · simp
@[simp] theorem enqNext_ne_pd (f : Frame) (i : Nat) (res : Bool) (j : SemId) : (enqNext f i res = .wPdWait j) = False := by
  unfold enqNext; split
  · simp
  · split
    · split <;> simp
    · simp
@[simp] theorem pollFrom_ne_pd (f : Frame) (l : List ObjId) (i : Nat) (j : SemId) : (pollFrom f l i = .wPdWait j) = False := by
  induction l generalizing i with
  | nil => unfold pollFrom; split <;> (try split) <;> simp
  | cons o rest ih =>
    cases o with
    | cv c => simp only [pollFrom]; exact ih _
    | note n => simp [pollFrom]
    | ctr k => simp [pollFrom]
@[simp] theorem pollNext_ne_pd (f : Frame) (i : Nat) (j : SemId) : (pollNext f i = .wPdWait j) = False := by
  simp [pollNext]

@[simp] theorem inSleep_relockNext (f : Frame) : inSleep (relockNext f) = false := by
  unfold relockNext; split <;> rfl
@[simp] theorem inSleep_finNext (f : Frame) : inSleep (finNext f) = false := by
  unfold finNext; split
  · rfl
  · exact inSleep_relockNext f
@[simp] theorem inSleep_deqNext (f : Frame) (k : Nat) : inSleep (deqNext f k) = false := by
  unfold deqNext; split
  · split <;> rfl
  · simp
theorem inSleep_pollFrom (f : Frame) (hc : 0 < f.count) (l : List ObjId) (i : Nat) : inSleep (pollFrom f l i) = false := by
  induction l generalizing i with
  | nil =>
    unfold pollFrom; split
    · rfl
    · split
      · rfl
      · unfold enqNext; rw [if_pos ⟨rfl, hc⟩]; rfl
  | cons o rest ih =>
    cases o with
    | cv c => simp only [pollFrom]; exact ih _
    | note n => rfl
    | ctr k => rfl

/-- induction over the accepted event sequences, with the binary semaphores alongside -/
theorem reachB_induction {P : State → (SemId → Bool) → Prop} (h0 : P init (fun _ => false))
    (hstep : ∀ s b e s', Reachable s → P s b → step s e = .ok s' → P s' (binStep b e)) :
    ∀ evs s, run init evs = .ok s → P s (binSem evs) := by
  have key : ∀ evs s0 b0 s, Reachable s0 → P s0 b0 → run s0 evs = .ok s → P s (evs.foldl binStep b0) := by
    intro evs
    induction evs with
    | nil => intro s0 b0 s _ hp h; simp [run] at h; subst h; exact hp
    | cons e es ih =>
      intro s0 b0 s hr hp h
      simp only [run] at h
      split at h
      · rename_i s1 hs1
        exact ih s1 (binStep b0 e) s (reachable_step hr hs1) (hstep s0 b0 e s1 hr hp hs1) h
      · cases h
  intro evs s h
  exact key evs init _ s reachable_init h0 h

/-! ### effect of one step on semaphore counts and pending posts -/

structure SemA (s s' : State) (u : Tid) (e : Ev) : Prop where
  /-- an accepted P-return is on a semaphore no nsync_wait_n call uses, or it is the caller's own P -/
  pret : ∀ j, isPret e j = true → s.semUser j = none ∨ (s.pc u = .wPdWait j ∧ ∀ j', s'.pc u ≠ .wPdWait j')
  /-- counts only decrease at P-returns -/
  dec : ∀ j, s'.sem j < s.sem j → isPret e j = true
  /-- a pending post disappears only by the V, which binds the semaphore of the record's call -/
  vpost : ∀ r, s.post u = some r → s'.post u ≠ some r → ∃ j, isV e j = true ∧ 0 < s'.sem j ∧
            ((s.rcd r).live = true → (s.fr (s.rcd r).owner).freed = false → (s'.fr (s.rcd r).owner).sem = some j)

theorem SemA.of_eq {s s' : State} {u : Tid} {e : Ev} (he : ∀ j, isPret e j = false) (hs : s'.sem = s.sem)
    (hp : s'.post u = s.post u) : SemA s s' u e := by
  refine ⟨fun j h => ?_, fun j h => ?_, fun r h1 h2 => ?_⟩
  · rw [he] at h; cases h
  · rw [hs] at h; exact absurd h (Nat.lt_irrefl _)
  · rw [hp] at h2; exact absurd h1 h2

/-- a step that only adds tokens -/
theorem SemA.of_le {s s' : State} {u : Tid} {e : Ev} (he : ∀ j, isPret e j = false) (hs : ∀ j, s.sem j ≤ s'.sem j)
    (hp : s'.post u = s.post u) : SemA s s' u e := by
  refine ⟨fun j h => ?_, fun j h => ?_, fun r h1 h2 => ?_⟩
  · rw [he] at h; cases h
  · exact absurd h (Nat.not_lt.2 (hs j))
  · rw [hp] at h2; exact absurd h1 h2

theorem bindSem_sem {s s' : State} {o : Tid} {j : SemId} (h : bindSem s o j = some s') :
    (s'.fr o).sem = some j ∧ s'.sem = s.sem ∧ s'.post = s.post ∧ s'.pc = s.pc ∧ s'.rcd = s.rcd ∧ s'.obj = s.obj := by
  unfold bindSem at h
  split at h
  · rename_i j' hj
    split at h
    · rename_i he; subst he; cases h; exact ⟨hj, rfl, rfl, rfl, rfl, rfl⟩
    · cases h
  · split at h
    · cases h
    · cases h; simp

theorem postSem_sem {s s' : State} {r : Rid} {j : SemId} (h : postSem s r j = some s') :
    ((s.rcd r).live = true → (s.fr (s.rcd r).owner).freed = false → (s'.fr (s.rcd r).owner).sem = some j)
    ∧ s'.sem = s.sem ∧ s'.post = s.post ∧ s'.pc = s.pc ∧ s'.rcd = s.rcd ∧ s'.obj = s.obj := by
  unfold postSem at h
  split at h
  · have := bindSem_sem h
    exact ⟨fun _ _ => this.1, this.2⟩
  · rename_i hn
    cases h
    refine ⟨fun h1 h2 => ?_, rfl, rfl, rfl, rfl, rfl⟩
    exact absurd ⟨h1, by simp [h2]⟩ hn

theorem isPret_false_of {e : Ev} (h1 : ∀ j, e ≠ .pRet j) (h2 : ∀ j, e ≠ .pdRet j false) : ∀ j, isPret e j = false := by
  intro j
  cases e with
  | pRet j' => exact absurd rfl (h1 j')
  | pdRet j' tmo =>
    cases tmo with
    | true => rfl
    | false => exact absurd rfl (h2 j')
  | _ => rfl

theorem sema_dflt {s s' : State} {u : Tid} {e : Ev} (h : dflt s u e = .ok s') : SemA s s' u e := by
  cases e with
  | semV j =>
    simp only [dflt] at h; cases h
    refine SemA.of_le (fun _ => rfl) (fun j' => ?_) rfl
    simp only [setSem_sem]; split
    · rename_i hj; subst hj; omega
    · omega
  | pRet j =>
    simp only [dflt] at h
    split at h
    · simp at h
    · rename_i hu
      split at h
      · simp at h
      · rename_i n hn
        cases h
        refine ⟨fun j' hj' => .inl ?_, fun j' hlt => ?_, fun r h1 h2 => absurd h1 h2⟩
        · simp [isPret] at hj'; subst hj'; exact hu
        · simp only [setSem_sem] at hlt
          split at hlt
          · rename_i hj; subst hj; simp [isPret]
          · exact absurd hlt (Nat.lt_irrefl _)
  | pdRet j tmo =>
    cases tmo with
    | true => simp only [dflt] at h; cases h; exact SemA.of_eq (fun _ => rfl) rfl rfl
    | false =>
      simp only [dflt] at h
      split at h
      · simp at h
      · rename_i hu
        split at h
        · simp at h
        · rename_i n hn
          cases h
          refine ⟨fun j' hj' => .inl ?_, fun j' hlt => ?_, fun r h1 h2 => absurd h1 h2⟩
          · simp [isPret] at hj'; subst hj'; exact hu
          · simp only [setSem_sem] at hlt
            split at hlt
            · rename_i hj; subst hj; simp [isPret]
            · exact absurd hlt (Nat.lt_irrefl _)
  | _ =>
    (simp only [dflt] at h) <;> (split_ok h) <;> (cases h; exact SemA.of_eq (fun _ => rfl) rfl rfl)

/-- helper functions that touch neither the counts nor the posts -/
theorem semPost_rtDone {s s' : State} {t : Tid} {u : Use} {i : Nat} {time : Deadline} (h : rtDone s t u i time = .ok s') :
    s'.sem = s.sem ∧ s'.post = s.post := by
  unfold rtDone at h
  split_ok h <;> (cases h; exact ⟨rfl, rfl⟩)

theorem semPost_unbindSem (s : State) (t : Tid) : (unbindSem s t).sem = s.sem ∧ (unbindSem s t).post = s.post := by
  unfold unbindSem; split <;> exact ⟨rfl, rfl⟩

theorem semPost_deqDone {s s' : State} {t : Tid} {j : Nat} {res : Bool} (h : deqDone s t j res = .ok s') :
    s'.sem = s.sem ∧ s'.post = s.post := by
  unfold deqDone at h
  dsimp only at h
  split at h
  · cases h; exact ⟨rfl, rfl⟩
  · cases h; exact ⟨(semPost_unbindSem _ t).1, (semPost_unbindSem _ t).2⟩

theorem semPost_afterEnq {s s' : State} {t : Tid} {i : Nat} {res : Bool} (h : afterEnq s t i res = .ok s') :
    s'.sem = s.sem ∧ s'.post = s.post := by
  unfold afterEnq at h
  cases h; exact ⟨rfl, rfl⟩

theorem SemA.of_eq2 {s s' : State} {u : Tid} {e : Ev} (he : ∀ j, isPret e j = false)
    (h : s'.sem = s.sem ∧ s'.post = s.post) : SemA s s' u e :=
  SemA.of_eq he h.1 (by rw [h.2])

/-- a step that creates a pending post (there was none) -/
theorem SemA.of_postNone {s s' : State} {u : Tid} {e : Ev} (he : ∀ j, isPret e j = false) (hs : s'.sem = s.sem)
    (hp : s.post u = none) : SemA s s' u e := by
  refine ⟨fun j h => ?_, fun j h => ?_, fun r h1 h2 => ?_⟩
  · rw [he] at h; cases h
  · rw [hs] at h; exact absurd h (Nat.lt_irrefl _)
  · rw [hp] at h1; cases h1

/-- the V of a waker -/
theorem SemA.of_v {s s1 : State} {u : Tid} {r : Rid} {j : SemId} (hp : s.post u = some r) (hb : postSem s r j = some s1)
    {s' : State} (hs : s'.sem = (s1.setSem j (s1.sem j + 1)).sem) (hf : s'.fr = s1.fr) : SemA s s' u (.semV j) := by
  have hps := postSem_sem hb
  refine ⟨fun j' h => by simp [isPret] at h, fun j' h => ?_, fun r' h1 _ => ?_⟩
  · rw [hs] at h; simp only [setSem_sem] at h
    rw [hps.2.1] at h
    split at h
    · rename_i hj; subst hj; omega
    · exact absurd h (Nat.lt_irrefl _)
  · rw [hp] at h1; cases h1
    refine ⟨j, by simp [isV], ?_, ?_⟩
    · rw [hs]; simp
    · rw [hf]; exact hps.1

theorem sema_spinAcq {s s' : State} {t : Tid} {c : Nat} {st : SpinSt} {mk : SpinSt → PC} {done : PC} {e : Ev}
    (h : spinAcq s t c st mk done e = .ok s') : SemA s s' t e := by
  unfold spinAcq at h
  split_ok h
  all_goals first
    | exact sema_dflt h
    | (cases h; exact SemA.of_eq (fun _ => rfl) rfl rfl)

macro "sema_leaf" h:ident : tactic =>
  `(tactic| first
    | exact sema_dflt $h
    | exact sema_spinAcq $h
    | (have hsp := semPost_rtDone $h; exact SemA.of_eq2 (fun _ => rfl) hsp)
    | (have hsp := semPost_deqDone $h; exact SemA.of_eq2 (fun _ => rfl) hsp)
    | (have hsp := semPost_afterEnq $h; exact SemA.of_eq2 (fun _ => rfl) hsp)
    | (cases $h:ident; first
        | exact SemA.of_eq (fun _ => rfl) rfl rfl
        | exact SemA.of_postNone (fun _ => rfl) rfl (by simp_all)
        | exact SemA.of_v ‹_ = some _› ‹postSem _ _ _ = some _› rfl rfl))

theorem sema_proto {s s' : State} {t : Tid} {e : Ev} (h : proto s t e = .ok s') : SemA s s' t e := by
  unfold proto at h
  split_ok h <;> sema_leaf h

theorem sema_stepOpen {s s' : State} {t : Tid} {e : Ev} (h : stepOpen s t e = .ok s') : SemA s s' t e := by
  unfold stepOpen at h
  split_ok h <;> first | exact sema_proto h | sema_leaf h

end WaitN
