/-
  Composition CvFix × MuX × vector clocks (property C03, cv-signal edge for TRANSFERRED waiters):
  definitions and the one-step facts.

  The joint acceptor is `Model/CvMu.lean`.  Here every joint event is projected to an operation of
  the generic vector-clock machine `NsyncVerif.VC` (`toX`):
    * an event of the CvFix layer exactly as in `Proofs/CvFixVC.lean` (`toVCx` with the declared
      order `siteOrd` of its site; a failed CAS is a relaxed load), except that
        – the location of cv.c's accesses to a mutex word is the word of THAT mutex (`.mu m`), and
        – a foreign access `fLd`/`fSt`/`fCas` takes the order LOGGED with it (no oracle);
    * an event of other code on the word of mutex `m`: load / failed CAS ↦ relaxed load (an
      acquire load would only add edges), successful CAS ↦ read-modify-write with its logged
      order, plain store ↦ plain store with its logged order.
  Only program order and these orders count: no edge from semaphores, marks or the interleaving.

  `JP` = joint acceptor state × clock state × ghosts:
    `cc u`  clock of `u` at its latest `call nsync_cv_signal|broadcast`;
    `xf r`  the latest TRANSFER of record `r` by wake_waiters: who, the waker's clock just before
            its `ATM_CAS_ACQ (&pmu->word, …)` [cv.c/1], its clock at its call;
    `xt t`  `some` transfer iff `t`'s record was in status `xfer` when `t` left its wait loop.
-/
import NsyncVerif.Proofs.CvMuFacts

namespace NsyncVerif.CvMu
open NsyncVerif NsyncVerif.CvFix

/-! ### locations and projection -/

inductive XLoc where
  /-- the cv word -/
  | word
  /-- the word of mutex `m` -/
  | mu (m : MuId)
  /-- `nw.waiting` / `remove_count` of a record -/
  | fld (r : Rid) (f : Fld)
  deriving DecidableEq, Repr

def reloc (m : MuId) : VLoc → XLoc
  | .word => .word
  | .mu => .mu m
  | .fld r f => .fld r f

def relocEv (m : MuId) (a : VC.AEv VLoc) : VC.AEv XLoc := ⟨a.t, a.op, a.ord, reloc m a.loc⟩

def ordV : MuX.Ord → VC.Ord
  | .rlx => .rlx | .acq => .acq | .rel => .rel | .ar => .ar

theorem ordV_isAcq (o : MuX.Ord) : (ordV o).isAcq = o.isAcq := by cases o <;> rfl
theorem ordV_isRel (o : MuX.Ord) : (ordV o).isRel = o.isRel := by cases o <;> rfl
theorem ordX_isAcq (o : VC.Ord) : (ordX o).isAcq = o.isAcq := by cases o <;> rfl
theorem ordV_ordX (o : VC.Ord) : ordV (ordX o) = o := by cases o <;> rfl

/-- Operation of the clock machine of an event of other code on the word of mutex `m`. -/
def muVC (m : MuId) : MuX.Ev → Option (VC.AEv XLoc)
  | .ld t _ => some ⟨t, .ld, .rlx, .mu m⟩
  | .casFail t _ _ => some ⟨t, .ld, .rlx, .mu m⟩
  | .cas t _ _ ord => some ⟨t, .rmw, ordV ord, .mu m⟩
  | .st t _ ord => some ⟨t, .st, ordV ord, .mu m⟩
  | _ => none

/-- Operation of the clock machine of a joint event; `so` = order table of the cv.c sites. -/
def toX (so : Site → VC.Ord) : XEv → Option (VC.AEv XLoc)
  | .cv e m o => (toVCx so o e).map (relocEv m)
  | .mu m x => muVC m x

def xcstepx (so : Site → VC.Ord) (c : VC.St XLoc) (ev : XEv) : VC.St XLoc :=
  match toX so ev with
  | some a => VC.step c a
  | none => c

/-- One joint event on the clock state, with the declared orders. -/
def xcstep (c : VC.St XLoc) (ev : XEv) : VC.St XLoc := xcstepx siteOrd c ev

def xcrunx (so : Site → VC.Ord) : VC.St XLoc → List XEv → VC.St XLoc
  | c, [] => c
  | c, ev :: evs => xcrunx so (xcstepx so c ev) evs

/-- The clocks of a joint event list: only program order and the declared / logged orders count. -/
def xclocks (evs : List XEv) : VC.St XLoc := xcrunx siteOrd VC.St.init evs

/-! ### product state -/

structure JP where
  j : JState
  c : VC.St XLoc
  cc : Tid → VC.Clock
  xf : Rid → Option Wake
  xt : Tid → Option Wake

def jpinit : JP := ⟨jinit, VC.St.init, fun _ => VC.Clock.bot, fun _ => none, fun _ => none⟩

def ccE (cc : Tid → VC.Clock) (c : VC.St XLoc) : Event → Tid → VC.Clock
  | .callSignal t | .callBroadcast t => VC.upd cc t (c.vc t)
  | _ => cc

/-- The records that enter status `xfer` in this step (`s'` = CvFix's successor state). -/
def xfE (p : JP) (s' : State) : Event → Rid → Option Wake
  | .muCas u .wwCas _ _ _ true => fun r =>
    if newly p.j.s s' r = true then some ⟨u, p.c.vc u, p.cc u⟩ else p.xf r
  | _ => p.xf

def xtE (p : JP) : Event → Tid → Option Wake
  | .recLd t .wHead r 0 => VC.upd p.xt t (if (p.j.s.recs r).stat = .xfer then p.xf r else none)
  | .callWait t .. => VC.upd p.xt t none
  | _ => p.xt

/-- The successor product state, given the joint acceptor's successor. -/
def jpnext (p : JP) (ev : XEv) (j' : JState) : JP :=
  match ev with
  | .cv e _ _ => { j := j', c := xcstep p.c ev, cc := ccE p.cc p.c e, xf := xfE p j'.s e, xt := xtE p e }
  | .mu _ _ => { p with j := j', c := xcstep p.c ev }

def jpstep (cfg : Config) (p : JP) (ev : XEv) : Except String JP :=
  match jstep cfg p.j ev with
  | .ok j' => .ok (jpnext p ev j')
  | .error m => .error m

def jprun (cfg : Config) (p : JP) : List XEv → Except String JP
  | [] => .ok p
  | ev :: evs =>
    match jpstep cfg p ev with
    | .ok p' => jprun cfg p' evs
    | .error m => .error m

/-- Reachable product states. -/
def JPReachable (cfg : Config) (p : JP) : Prop := ∃ evs, jprun cfg jpinit evs = .ok p

theorem jpstep_ok {cfg : Config} {p p' : JP} {ev : XEv} (h : jpstep cfg p ev = .ok p') :
    ∃ j', jstep cfg p.j ev = .ok j' ∧ p' = jpnext p ev j' := by
  unfold jpstep at h
  split at h
  · rename_i j' hj; cases h; exact ⟨j', hj, rfl⟩
  · cases h

/-! ### the joint acceptor, step by step -/

theorem chk_ok {α : Type} {c : Prop} [Decidable c] {msg : String} {k : Except String α} {a : α} :
    chk c msg k = .ok a ↔ c ∧ k = .ok a := by
  unfold chk; split <;> simp_all

theorem jstep_cv {cfg : Config} {j j' : JState} {e : Event} {m : MuId} {o : VC.Ord}
    (h : jstep cfg j (.cv e m o) = .ok j') :
    CvFix.step cfg j.s e = .ok j'.s ∧ muxStep j.mx m (muxOf e) = .ok j'.mx ∧
    ghostStep j.s j'.s (fun k => (j'.mx k).sp) (kindCv e m o) j.g = .ok j'.g := by
  simp only [jstep] at h
  split at h
  · cases h
  · rename_i s' hs
    split at h
    · cases h
    · rename_i mx' hm
      split at h
      · cases h
      · rename_i g' hg
        cases h
        exact ⟨hs, hm, hg⟩

theorem jstep_mu {cfg : Config} {j j' : JState} {m : MuId} {x : MuX.Ev}
    (h : jstep cfg j (.mu m x) = .ok j') :
    j'.s = j.s ∧ muxStep j.mx m (some x) = .ok j'.mx ∧
    ghostStep j.s j.s (fun k => (j'.mx k).sp) (kindMu m x) j.g = .ok j'.g := by
  simp only [jstep] at h
  split at h
  · cases h
  · rename_i mx' hm
    split at h
    · cases h
    · rename_i g' hg
      cases h
      exact ⟨rfl, hm, hg⟩

theorem muxStep_none {mx mx' : MuId → MuX.State} {m : MuId} (h : muxStep mx m none = .ok mx') :
    mx' = mx := by
  simp only [muxStep, Except.ok.injEq] at h; exact h.symm

theorem muxStep_some {mx mx' : MuId → MuX.State} {m : MuId} {x : MuX.Ev}
    (h : muxStep mx m (some x) = .ok mx') :
    ∃ mm, MuX.step (mx m) x = .ok mm ∧ mx' = updM mx m mm := by
  simp only [muxStep] at h
  split at h
  · rename_i mm hm; cases h; exact ⟨mm, hm, rfl⟩
  · cases h

theorem updM_same (f : MuId → MuX.State) (m : MuId) (v : MuX.State) : updM f m v m = v := by
  simp [updM]

theorem updM_other (f : MuId → MuX.State) {m k : MuId} (v : MuX.State) (h : k ≠ m) :
    updM f m v k = f k := by
  simp [updM, h]

/-- How the holder of the spinlock of mutex `k` changes in one joint step on mutex `m` with the
    protocol event `x?`. -/
theorem muxStep_sp {mx mx' : MuId → MuX.State} {m : MuId} {x? : Option MuX.Ev}
    (h : muxStep mx m x? = .ok mx') (k : MuId) :
    (mx' k).sp = (mx k).sp ∨
    (k = m ∧ ∃ t exp new ord, x? = some (.cas t exp new ord) ∧ ord.isAcq = true ∧ (mx k).sp = none ∧
      (mx' k).sp = some t) ∨
    (k = m ∧ ∃ x, x? = some x ∧ (mx k).sp = some x.tid ∧ (mx' k).sp = none ∧
      ((∃ t exp new ord, x = .cas t exp new ord) ∨ ∃ t new ord, x = .st t new ord)) := by
  cases x? with
  | none => rw [muxStep_none h]; exact .inl rfl
  | some x =>
    obtain ⟨mm, hm, rfl⟩ := muxStep_some h
    by_cases hk : k = m
    · subst hk
      rw [updM_same]
      rcases mux_sp hm with h1 | ⟨t, exp, new, ord, rfl, h2, h3, h4⟩ | ⟨h1, h2, h3⟩
      · exact .inl h1
      · exact .inr (.inl ⟨rfl, t, exp, new, ord, rfl, h2, h3, h4⟩)
      · exact .inr (.inr ⟨rfl, x, rfl, h1, h2, h3⟩)
    · rw [updM_other _ _ hk]; exact .inl rfl

/-! ### the checks and ghost updates, event by event -/

theorem newly_false_of_xfer {s s' : State} {r : Rid} (h : (s.recs r).stat = .xfer) :
    newly s s' r = false := by
  simp [newly, h]

theorem newly_true {s s' : State} {r : Rid} (h' : (s'.recs r).stat = .xfer)
    (h : (s.recs r).stat ≠ .xfer) : newly s s' r = true := by
  simp [newly, h, h']

/-- Events of other code on a mutex. -/
theorem ghost_mu {s : State} {sp' : MuId → Option Tid} {m : MuId} {x : MuX.Ev} {g g' : Ghost}
    (h : ghostStep s s sp' (kindMu m x) g = .ok g') :
    inTransfer (s.thr x.tid).loc = false ∧ g'.tm = g.tm ∧ g'.xm = g.xm ∧ g'.pub = g.pub ∧
    (∀ v r, g'.got v r = true → g.got v r = true ∨
      (∃ exp new ord, x = .cas v exp new ord ∧ ord.isAcq = true ∧ g.pub r = true ∧ g.xm r = m)) := by
  have other : ∀ v, kindMu m x = .muOther v → v = x.tid →
      inTransfer (s.thr x.tid).loc = false ∧ g'.tm = g.tm ∧ g'.xm = g.xm ∧ g'.pub = g.pub ∧
      (∀ v r, g'.got v r = true → g.got v r = true ∨
        (∃ exp new ord, x = .cas v exp new ord ∧ ord.isAcq = true ∧ g.pub r = true ∧ g.xm r = m)) := by
    intro v hk hv
    rw [hk] at h
    simp only [ghostStep, chk_ok, Except.ok.injEq] at h
    obtain ⟨h1, rfl⟩ := h
    subst hv
    exact ⟨h1, rfl, rfl, rfl, fun v r hg => .inl hg⟩
  cases x with
  | cas t exp new ord =>
    cases ho : ord.isAcq with
    | false => exact other t (by simp [kindMu, ho]) rfl
    | true =>
      have hk : kindMu m (.cas t exp new ord) = .muAcq t m := by simp [kindMu, ho]
      rw [hk] at h
      simp only [ghostStep, chk_ok, Except.ok.injEq] at h
      obtain ⟨h1, rfl⟩ := h
      refine ⟨h1, rfl, rfl, rfl, ?_⟩
      intro v r hg
      simp only [Bool.or_eq_true, Bool.and_eq_true, decide_eq_true_eq] at hg
      rcases hg with hg | ⟨⟨rfl, hp⟩, hx⟩
      · exact .inl hg
      · exact .inr ⟨exp, new, ord, rfl, ho, hp, hx⟩
  | ld t v => exact other t rfl rfl
  | casFail t exp obs => exact other t rfl rfl
  | st t new ord => exact other t rfl rfl
  | call t c => exact other t rfl rfl
  | ret t ok => exact other t rfl rfl
  | annAcq t l => exact other t rfl rfl
  | annRel t l => exact other t rfl rfl

/-- What the checks and ghost updates of an event of the CvFix layer amount to. -/
structure GhostCv (s s' : State) (sp' : MuId → Option Tid) (e : Event) (m : MuId) (o : VC.Ord)
    (g g' : Ghost) : Prop where
  tm : ∀ t, g'.tm t = g.tm t ∨ ∃ exp new obs, e = .muCas t .wwCas exp new obs true
  old : ∀ r, newly s s' r = false → g'.xm r = g.xm r ∧ (∀ v, g'.got v r = g.got v r) ∧
    (g'.pub r = g.pub r ∨ (∃ u exp new obs, e = .muCas u .wwRelCas exp new obs true ∧ m = g.tm u ∧
      (s.recs r).stat = .xfer ∧ (s.recs r).unl = [Unl.waker u] ∧ g'.pub r = true))
  enter : ∀ u exp new obs, e = .muCas u .wwCas exp new obs true →
    sp' m = some u ∧ g'.tm u = m ∧
    ∀ r, newly s s' r = true → g'.xm r = m ∧ g'.pub r = false ∧ ∀ v, g'.got v r = false
  publ : ∀ u exp new obs, e = .muCas u .wwRelCas exp new obs true →
    ∀ r, (s.recs r).stat = .xfer → (s.recs r).unl = [Unl.waker u] → g'.pub r = true
  wake : ∀ v r, e = .fSt v r .waiting 0 → (s.recs r).stat = .xfer → o.isRel = true ∧ g.got v r = true

theorem ghostCv_other {s s' : State} {sp' : MuId → Option Tid} {e : Event} {m : MuId} {o : VC.Ord}
    {g g' : Ghost} (h : ghostStep s s' sp' .other g = .ok g')
    (h1 : ∀ t exp new obs, e ≠ .muCas t .wwCas exp new obs true)
    (h2 : ∀ t exp new obs, e ≠ .muCas t .wwRelCas exp new obs true)
    (h3 : ∀ v r, e ≠ .fSt v r .waiting 0) : GhostCv s s' sp' e m o g g' := by
  simp only [ghostStep, Except.ok.injEq] at h
  subst h
  exact ⟨fun t => .inl rfl, fun r _ => ⟨rfl, fun _ => rfl, .inl rfl⟩,
    fun u exp new obs he => absurd he (h1 u exp new obs),
    fun u exp new obs he => absurd he (h2 u exp new obs),
    fun v r he => absurd he (h3 v r)⟩

theorem ghost_cv {s s' : State} {sp' : MuId → Option Tid} {e : Event} {m : MuId} {o : VC.Ord}
    {g g' : Ghost} (h : ghostStep s s' sp' (kindCv e m o) g = .ok g') :
    GhostCv s s' sp' e m o g g' := by
  cases e
  case muCas t site exp new obs ok =>
    cases ok
    · exact ghostCv_other (by cases site <;> exact h) (by simp) (by simp) (by simp)
    · cases site
      case wwCas =>
        simp only [kindCv, ghostStep, chk_ok, Except.ok.injEq] at h
        obtain ⟨h1, rfl⟩ := h
        refine ⟨?_, ?_, ?_, by simp, by simp⟩
        · intro t'
          by_cases ht : t' = t
          · subst ht; exact .inr ⟨exp, new, obs, rfl⟩
          · left; simp [ht]
        · intro r hn; simp [hn]
        · intro u exp' new' obs' he
          cases he
          exact ⟨h1, by simp, fun r hn => by simp [hn]⟩
      case wwRelCas =>
        simp only [kindCv, ghostStep, chk_ok, Except.ok.injEq] at h
        obtain ⟨h1, rfl⟩ := h
        refine ⟨fun t => .inl rfl, ?_, by simp, ?_, by simp⟩
        · intro r _
          refine ⟨rfl, fun _ => rfl, ?_⟩
          by_cases hc : (s.recs r).stat = .xfer ∧ (s.recs r).unl = [Unl.waker t]
          · exact .inr ⟨t, exp, new, obs, rfl, h1, hc.1, hc.2, by simp [hc.1, hc.2]⟩
          · left
            have : (decide ((s.recs r).stat = RStat.xfer) && decide ((s.recs r).unl = [Unl.waker t])) = false := by
              simpa using hc
            simp [this]
        · intro u exp' new' obs' he r hx hu
          cases he
          simp [hx, hu]
      all_goals exact ghostCv_other h (by simp) (by simp) (by simp)
  case fSt v r f new =>
    cases f
    case rc => exact ghostCv_other h (by simp) (by simp) (by simp)
    case waiting =>
      cases new
      case succ n => exact ghostCv_other h (by simp) (by simp) (by simp)
      case zero =>
        simp only [kindCv, ghostStep] at h
        refine ⟨fun t => ?_, fun r' _ => ?_, by simp, by simp, ?_⟩
        · split at h
          · simp only [chk_ok, Except.ok.injEq] at h; rw [← h.2.2]; exact .inl rfl
          · cases h; exact .inl rfl
        · split at h
          · simp only [chk_ok, Except.ok.injEq] at h; rw [← h.2.2]; exact ⟨rfl, fun _ => rfl, .inl rfl⟩
          · cases h; exact ⟨rfl, fun _ => rfl, .inl rfl⟩
        · intro v' r' he hx
          cases he
          rw [if_pos hx] at h
          simp only [chk_ok] at h
          exact ⟨h.1, h.2.1⟩
  all_goals exact ghostCv_other h (by simp) (by simp) (by simp)

/-! ### one clock step -/

theorem xc_mono (c : VC.St XLoc) (ev : XEv) (u : Tid) :
    VC.Clock.le (c.vc u) ((xcstep c ev).vc u) := by
  unfold xcstep xcstepx
  split
  · exact VC.vc_mono c _ u
  · exact VC.Clock.le_refl _

theorem toX_cv_st {so : Site → VC.Ord} {e : Event} {m : MuId} {o : VC.Ord} {a : VC.AEv XLoc}
    (h : toX so (.cv e m o) = some a) (hop : a.op = .st) : ∃ l, stOn e = some l ∧ a.loc = reloc m l := by
  simp only [toX, Option.map_eq_some_iff] at h
  obtain ⟨b, hb, rfl⟩ := h
  exact ⟨b.loc, toVCx_st hb hop, rfl⟩

/-- A clock carried by the release clock of `x` stays carried by every event of the CvFix layer that
    is not a plain store to `x`. -/
theorem xc_keep_cv (c : VC.St XLoc) (e : Event) (m : MuId) (o : VC.Ord) (x : XLoc) (k : VC.Clock)
    (hs : ∀ l, stOn e = some l → reloc m l ≠ x) (hk : VC.Clock.le k (c.relc x)) :
    VC.Clock.le k ((xcstep c (.cv e m o)).relc x) := by
  unfold xcstep xcstepx
  split
  · rename_i a ha
    refine VC.release_chain_step x k c a hk ?_
    intro hl hop
    obtain ⟨l, h1, h2⟩ := toX_cv_st ha hop
    exact absurd (by rw [← h2]; exact hl) (hs l h1)
  · exact hk

theorem reloc_ne_mu (m k : MuId) (e : Event) (l : VLoc) (h : stOn e = some l) : reloc m l ≠ .mu k := by
  cases l with
  | word => simp [reloc]
  | mu => exact absurd h (stOn_ne_mu e)
  | fld r f => simp [reloc]

/-- … and by every event of other code on a mutex word, provided a plain store to `x` is a release
    store of a thread whose clock covers the carried clock. -/
theorem xc_keep_mu (c : VC.St XLoc) (m : MuId) (x' : MuX.Ev) (x : XLoc) (k : VC.Clock)
    (hs : ∀ t new ord, x' = .st t new ord → x = .mu m → ord.isRel = true ∧ VC.Clock.le k (c.vc t))
    (hk : VC.Clock.le k (c.relc x)) : VC.Clock.le k ((xcstep c (.mu m x')).relc x) := by
  unfold xcstep xcstepx
  split
  · rename_i a ha
    refine VC.release_chain_step x k c a hk ?_
    intro hl hop
    cases x' <;> simp only [toX, muVC, Option.some.injEq, reduceCtorEq] at ha
    all_goals (subst ha; first | cases hop | skip)
    rename_i t new ord
    obtain ⟨h1, h2⟩ := hs t new ord rfl hl.symm
    exact ⟨by simp only [ordV_isRel]; exact h1, h2⟩
  · exact hk

/-- The acquire load of the wait loop [cv.c/10] imports the release clock of `waiting`. -/
theorem xc_wHead (c : VC.St XLoc) (t : Tid) (r : Rid) (obs : Nat) (m : MuId) (o : VC.Ord) :
    VC.Clock.le (c.relc (.fld r .waiting)) ((xcstep c (.cv (.recLd t .wHead r obs) m o)).vc t) :=
  VC.acq_sees_relc c ⟨t, .ld, .acq, .fld r .waiting⟩ rfl (.inl rfl)

/-- A foreign release store exports the writer's clock. -/
theorem xc_fSt (c : VC.St XLoc) (v : Tid) (r : Rid) (new : Nat) (m : MuId) (o : VC.Ord)
    (ho : o.isRel = true) :
    VC.Clock.le (c.vc v) ((xcstep c (.cv (.fSt v r .waiting new) m o)).relc (.fld r .waiting)) :=
  VC.rel_records c ⟨v, .st, o, .fld r .waiting⟩ ho (.inl rfl)

/-- The release CAS of wake_waiters [cv.c/3] exports the waker's clock into the release clock of
    the mutex word. -/
theorem xc_pub (c : VC.St XLoc) (u : Tid) (exp new obs : Nat) (m : MuId) (o : VC.Ord) :
    VC.Clock.le (c.vc u) ((xcstep c (.cv (.muCas u .wwRelCas exp new obs true) m o)).relc (.mu m)) :=
  VC.rel_records c ⟨u, .rmw, .rel, .mu m⟩ rfl (.inr rfl)

/-- A successful acquire CAS of cv.c on a mutex word imports its release clock. -/
theorem xc_cvAcq (c : VC.St XLoc) (u : Tid) (site : MSite) (exp new obs : Nat) (m : MuId) (o : VC.Ord)
    (ha : (siteOrd (mSite site)).isAcq = true) :
    VC.Clock.le (c.relc (.mu m)) ((xcstep c (.cv (.muCas u site exp new obs true) m o)).vc u) :=
  VC.acq_sees_relc c ⟨u, .rmw, siteOrd (mSite site), .mu m⟩ ha (.inr rfl)

/-- A successful acquire CAS of other code on a mutex word imports its release clock. -/
theorem xc_muAcq (c : VC.St XLoc) (t : Tid) (exp new : Nat) (ord : MuX.Ord) (m : MuId)
    (ha : ord.isAcq = true) :
    VC.Clock.le (c.relc (.mu m)) ((xcstep c (.mu m (.cas t exp new ord))).vc t) :=
  VC.acq_sees_relc c ⟨t, .rmw, ordV ord, .mu m⟩ (by rw [ordV_isAcq]; exact ha) (.inr rfl)

/-! ### the sites of other code, for the tie with the regenerated site table -/

/-- The sites of other code whose declared orders the chain uses, for the tie with the regenerated
    site table (`Proofs/TieTransfer.lean`): (file, ordinal, function, macro). -/
def transferSiteRows : List (String × Nat × String × String) :=
  [("cv.c", 1, "wake_waiters", "ATM_CAS_ACQ"),                    -- takes the mutex' queue spinlock
   ("cv.c", 3, "wake_waiters", "ATM_CAS_REL"),                    -- publishes the transfer       (release)
   ("mu.c", 24, "nsync_mu_unlock_slow_", "ATM_CAS_RELACQ"),       -- unlocker takes the spinlock  (acquire)
   ("common.c", 1, "nsync_spin_test_and_set_", "ATM_CAS_ACQ"),    -- … re-takes it after evaluating conditions
   ("mu.c", 28, "nsync_mu_unlock_slow_", "ATM_STORE_REL"),        -- `waiting := 0`               (release)
   ("cv.c", 10, "nsync_cv_wait_with_deadline_generic", "ATM_LOAD_ACQ"),  -- the waiter's loop      (acquire)
   ("mu_wait.c", 1, "mu_try_acquire_after_timeout_or_cancel", "ATM_CAS_ACQ"),   -- takes lock + spinlock
   ("mu_wait.c", 8, "mu_try_acquire_after_timeout_or_cancel", "ATM_STORE_REL"), -- plain stores to the word (ordinals after the repair of F9: one more load at 2)
   ("mu_wait.c", 9, "mu_try_acquire_after_timeout_or_cancel", "ATM_STORE_REL")]

/-- Does a site table ((file, function, macro, location) in source order, as regenerated in
    `NsyncVerif.Gen.sites`) have these macros at these sites? -/
def transferSitesAgree (gen : List (String × String × String × String)) : Bool :=
  transferSiteRows.all (fun row =>
    match (gen.filter (fun g => g.1 == row.1))[row.2.1]? with
    | some g => g.2.1 == row.2.2.1 && g.2.2.1 == row.2.2.2
    | none => false)

/-- The locations (as spelled in the source) into which the library performs a RELAXED plain store
    `ATM_STORE`: record fields and counter fields, never a mutex word. -/
def relaxedStoreLocs : List String :=
  ["&w->remove_count", "&c->value", "&c->waited", "&nw->waiting", "&w->nw.waiting", "&nw.waiting",
   "&nw[i].waiting"]

/-- Is every relaxed plain store of the library a store to one of `relaxedStoreLocs` — so that
    every plain store to a mutex word, anywhere, is an `ATM_STORE_REL`? -/
def muWordStoresRel (gen : List (String × String × String × String)) : Bool :=
  gen.all (fun g => !(g.2.2.1 == "ATM_STORE") || relaxedStoreLocs.contains g.2.2.2)

end NsyncVerif.CvMu
