/-
  Layer `CvFix` (cv.c with the repair of F3; adapted from the `Cv` file of the same name): the sequence-number invariant is preserved by every transition.
-/
import NsyncVerif.Proofs.CvFixInvD

namespace NsyncVerif.CvFix

theorem enc_ne {w : Word} : w.enc / 2 % 2 = 1 ↔ w.ne = true := by
  cases w with | mk sp ne => cases sp <;> cases ne <;> simp [Word.enc]

/-- Nothing published is in the queue when CV_NON_EMPTY is clear. -/
theorem none_published {s : State} (ha : InvA s) (hd : InvD s) (hne : s.word.ne = false) :
    ∀ r, r ∈ s.queue → (s.recs r).pub = false := by
  intro r hr
  cases hh : s.holder with
  | none =>
    have hq : s.queue = [] := by
      cases hq : s.queue with
      | nil => rfl
      | cons a l => have := (ha.free hh).mpr (by rw [hq]; simp); rw [hne] at this; cases this
    rw [hq] at hr; cases hr
  | some h => exact hd.held h hh hne r hr

theorem invD_loc {s : State} {t : Tid} {e : Event} {x' : Thr} (ha : InvA s) (hi : InvD s) (h : LTr s t e x') :
    InvD (s.setThr t x') := by
  by_cases hsl : (∃ site obs, e = .wordLd t site obs) ∧ (s.thr t).loc = .sLd
  · obtain ⟨⟨site, obs, rfl⟩, hl⟩ := hsl
    cases h with
    | sigLd site obs hl' hs ho =>
      obtain ⟨d1, d2, d3, d4, d5⟩ := hi
      constructor
      · intro u
        by_cases hu : u = t
        · subst hu; simp; split <;> simp
        · simp [hu]; exact d1 u
      · exact d2
      · exact d3
      · exact d4
      · intro u hdone r hr hp
        by_cases hu : u = t
        · subst hu
          simp at hdone hr hp ⊢
          by_cases hne : obs / 2 % 2 = 1
          · simp [hne, bcastDone] at hdone
          · have : s.word.ne = false := by
              cases hw : s.word.ne
              · rfl
              · rw [ho] at hne; exact absurd (enc_ne.mpr hw) hne
            have := none_published ha ⟨d1, d2, d3, d4, d5⟩ this r hr
            rw [this] at hp; cases hp
        · simp [hu] at hdone hr hp ⊢; exact d5 u hdone r hr hp
    | spinLd site obs hl' ho => rcases hl' with ⟨_, hl'⟩ | ⟨_, hl'⟩ <;> rw [hl] at hl' <;> cases hl'
    | spinLdN obs hl' ho => rw [hl] at hl'; cases hl'
    | dbgLd obs hl' ho => rw [hl] at hl'; cases hl'
  · refine invD_frame hi rfl (.inl ⟨rfl, rfl⟩) (fun r hr => .inl hr) (fun q => .inl ⟨rfl, rfl, id⟩) ?_
    intro u
    by_cases hu : u = t
    · subst hu
      simp only [setThr_thr, if_true]
      apply ltr_done h
      intro site obs
      by_cases he : e = .wordLd u site obs
      · right; intro hl; exact hsl ⟨⟨site, obs, he⟩, hl⟩
      · left; exact he
    · simp [hu]


/-- the frame condition for the acting thread when its new frame keeps `seq0` and does not enter the
    "done" region unless it was already in it -/
theorem thr_frame {s s' : State} {t : Tid} (ho : ∀ v, v ≠ t → s'.thr v = s.thr v)
    (hs : (s'.thr t).seq0 = (s.thr t).seq0)
    (hd : bcastDone (s'.thr t) = true → bcastDone (s.thr t) = true) (u : Tid) :
    (s'.thr u).seq0 ≤ (s.thr u).seq0 ∧ (bcastDone (s'.thr u) = true → bcastDone (s.thr u) = true) := by
  by_cases hu : u = t
  · subst hu; rw [hs]; exact ⟨Nat.le_refl _, hd⟩
  · rw [ho u hu]; exact ⟨Nat.le_refl _, id⟩

theorem invD_relPub {s : State} (ha : InvA s) (hi : InvD s) (t : Tid) (n : Word) (lnew : Loc)
    (hl : (s.thr t).loc = .wRel ∨ (s.thr t).loc = .nEnqRel) (hln : lnew = .wUnlock ∨ lnew = .nOut) :
    InvD ({ s with word := n, holder := none, seq := s.seq + 1 }.setRec (s.thr t).r
            { s.recs (s.thr t).r with pub := true, enqSeq := s.seq }
          |>.setThr t { s.thr t with loc := lnew }) := by
  have hst : (s.recs (s.thr t).r).stat = .queued := by
    rcases hl with hl | hl
    · exact (ha.thr t).enq (.inr hl)
    · exact ((ha.thr t).nEnq hl).1
  obtain ⟨d1, d2, d3, d4, d5⟩ := hi
  constructor
  · intro u
    by_cases hu : u = t
    · subst hu; simp; exact Nat.le_succ_of_le (d1 u)
    · simp [hu]; exact Nat.le_succ_of_le (d1 u)
  · intro r
    by_cases hr : r = (s.thr t).r
    · subst hr; simp
    · simp [hr]; intro hp; exact Nat.lt_succ_of_lt (d2 r hp)
  · intro h e; simp at e
  · intro r
    by_cases hr : r = (s.thr t).r
    · subst hr; simp [hst]
    · simp [hr]; exact d4 r
  · intro u hdone r hq hp
    have hdone' : bcastDone (s.thr u) = true := by
      by_cases hu : u = t
      · subst hu
        simp [bcastDone] at hdone
        rcases hln with rfl | rfl <;> simp at hdone
      · simpa [hu] using hdone
    have hseq0 : ((({ s with word := n, holder := none, seq := s.seq + 1 }.setRec (s.thr t).r
            { s.recs (s.thr t).r with pub := true, enqSeq := s.seq }).setThr t { s.thr t with loc := lnew }).thr u).seq0
        = (s.thr u).seq0 := by
      by_cases hu : u = t
      · subst hu; simp
      · simp [hu]
    rw [hseq0]
    simp at hq
    by_cases hr : r = (s.thr t).r
    · subst hr; simp; exact d1 u
    · simp [hr] at hp ⊢; exact d5 u hdone' r hq hp

theorem invD_acq_sig {s : State} (hi : InvD s) (t : Tid) (n : Word) (sel td : List Rid) (ar : Bool)
    (o' : Word) (lnew : Loc) (hempty : n.ne = false → s.queue = [])
    (hbc : (s.thr t).bcast = true → sel = s.queue) :
    InvD { s with
      word := n, holder := some t,
      queue := s.queue.filter (fun r => !(sel.contains r)),
      recs := fun r => if sel.contains r then
          { s.recs r with stat := .listed t, unl := (s.recs r).unl ++ [Unl.waker t] } else s.recs r,
      thr := updT s.thr t
        { s.thr t with list := sel, todo := td, firstRc := true, old := o', allReaders := ar, loc := lnew } } := by
  obtain ⟨d1, d2, d3, d4, d5⟩ := hi
  constructor
  · intro u; by_cases hu : u = t
    · subst hu; simpa using d1 u
    · simpa [hu] using d1 u
  · intro r
    by_cases hr : r ∈ sel
    · simpa [hr] using d2 r
    · simpa [hr] using d2 r
  · intro h e1 e2 r hr
    simp at e2
    have hq := hempty e2
    simp [hq] at hr
  · intro r
    by_cases hr : r ∈ sel
    · simp [hr]
    · simpa [hr] using d4 r
  · intro u hdone r hr hp
    by_cases hu : u = t
    · subst hu
      simp only [updT_apply, if_true] at hdone
      have hb : (s.thr u).bcast = true := by
        simp [bcastDone] at hdone; exact hdone.1
      simp only [hbc hb, filter_not_contains_self] at hr
      cases hr
    · simp only [updT_apply, hu, if_false] at hdone ⊢
      have hr' : r ∈ s.queue := (List.mem_filter.mp hr).1
      by_cases hrs : r ∈ sel
      · simp [hrs] at hp ⊢; exact d5 u hdone r hr' hp
      · simp [hrs] at hp ⊢; exact d5 u hdone r hr' hp

set_option maxHeartbeats 1000000 in
theorem invD_acq {cfg : Config} {s : State} (ha : InvA s) (hi : InvD s) (t : Tid) (exp new obs : Nat) (o n : Word)
    (hl : (s.thr t).loc = .spCas) (hexp : exp = (s.thr t).casExp) (hw : obs = s.word.enc) (he : obs = exp)
    (ho : Word.dec? exp = some o) (hn : Word.dec? new = some n)
    (hnew : new = exp + 1 + (if (s.thr t).setNE ∧ exp / 2 % 2 = 0 then 2 else 0)) :
    InvD (afterAcquire { s with word := n, holder := some t } t { s.thr t with old := o }) := by
  have _ := cfg
  obtain ⟨f1, f2, f3, f4, f5, f6⟩ := acq_facts ha hl hexp hw he ho hn hnew
  subst f1
  have hempty : n.ne = false → s.queue = [] := by
    intro hne
    have hne' : s.word.ne = false := by rw [f5] at hne; simp at hne; exact hne.1
    cases hq : s.queue with
    | nil => rfl
    | cons a l => have := (ha.free f3).mpr (by rw [hq]; simp); rw [hne'] at this; cases this
  obtain ⟨d1, d2, d3, d4, d5⟩ := hi
  unfold afterAcquire
  split
  · rename_i hc; simp only at hc
    obtain ⟨hst, _, _⟩ := (ha.thr t).prep (by simp [waitPrep, hl, hc])
    have hpub := d4 _ hst
    constructor
    · intro u; by_cases hu : u = t
      · subst hu; simpa using d1 u
      · simpa [hu] using d1 u
    · intro r; by_cases hr : r = (s.thr t).r
      · subst hr; simpa using d2 _
      · simpa [hr] using d2 r
    · intro h e1 e2 r hr
      simp at e2 hr
      have hq := hempty e2
      rw [hq] at hr; simp at hr; subst hr
      simp [hpub]
    · intro r; by_cases hr : r = (s.thr t).r
      · subst hr; simp
      · simpa [hr] using d4 r
    · intro u hdone r hr hp
      have hu : u ≠ t := by intro e; subst e; simp [bcastDone] at hdone
      simp [hu] at hdone ⊢
      simp at hr
      by_cases hrr : r = (s.thr t).r
      · subst hrr; simp [hpub] at hp
      · simp [hrr] at hp ⊢
        exact d5 u hdone r (hr.resolve_right hrr) hp
  · rename_i hc; simp only at hc
    constructor
    · intro u; by_cases hu : u = t
      · subst hu; simpa using d1 u
      · simpa [hu] using d1 u
    · exact d2
    · intro h e1 e2 r hr
      simp at e2 hr
      rw [hempty e2] at hr; cases hr
    · exact d4
    · intro u hdone r hr hp
      have hu : u ≠ t := by intro e; subst e; simp [bcastDone] at hdone
      simp [hu] at hdone ⊢
      exact d5 u hdone r hr hp
  · rename_i hc; simp only at hc
    constructor
    · intro u; by_cases hu : u = t
      · subst hu; simpa using d1 u
      · simpa [hu] using d1 u
    · exact d2
    · intro h e1 e2 r hr
      simp at e2 hr
      rw [hempty e2] at hr; cases hr
    · exact d4
    · intro u hdone r hr hp
      have hu : u ≠ t := by intro e; subst e; simp [bcastDone] at hdone
      simp [hu] at hdone ⊢
      exact d5 u hdone r hr hp
  · rename_i hc; simp only at hc
    constructor
    · intro u; by_cases hu : u = t
      · subst hu; simpa using d1 u
      · simpa [hu] using d1 u
    · exact d2
    · intro h e1 e2 r hr
      simp at e2 hr
      rw [hempty e2] at hr; cases hr
    · exact d4
    · intro u hdone r hr hp
      have hu : u ≠ t := by intro e; subst e; simp [bcastDone] at hdone
      simp [hu] at hdone ⊢
      exact d5 u hdone r hr hp
  · rename_i hc; simp only at hc
    exact invD_acq_sig ⟨d1, d2, d3, d4, d5⟩ t n _ _ _ _ _ hempty (fun hb => by simp [hb])

set_option maxHeartbeats 1000000 in
theorem invD_tr {cfg : Config} {s s' : State} {e : Event} (ha : InvA s) (hi : InvD s)
    (h : Tr cfg s e s') : InvD s' := by
  cases h with
  | same e h => exact hi
  | tick ns h =>
    exact invD_frame hi rfl (.inl ⟨rfl, rfl⟩) (fun r hr => .inl hr) (fun q => .inl ⟨rfl, rfl, id⟩)
      (fun u => ⟨Nat.le_refl _, id⟩)
  | semOther e sem' h =>
    exact invD_frame hi rfl (.inl ⟨rfl, rfl⟩) (fun r hr => .inl hr) (fun q => .inl ⟨rfl, rfl, id⟩)
      (fun u => ⟨Nat.le_refl _, id⟩)
  | loc h => exact invD_loc ha hi h
  | acq t exp new obs o n hl hexp hw he ho hn hnew => exact invD_acq (cfg := cfg) ha hi t exp new obs o n hl hexp hw he ho hn hnew
  | relWait t new obs n hl hh hnew hn hsp => exact invD_relPub ha hi t n .wUnlock (.inl hl) (.inl rfl)
  | relEnq t new obs n hl hh hnew hn hsp => exact invD_relPub ha hi t n .nOut (.inr hl) (.inr rfl)
  | relWait2 t new obs n hl hh hnew hn hsp =>
    exact invD_frame hi rfl (.inr rfl) (fun r hr => .inl hr) (fun q => .inl ⟨rfl, rfl, id⟩)
      (fun u => thr_frame (t := t) (fun v hv => by simp [hv]) (by simp) (by simp [bcastDone]) u)
  | relDbg t new obs n hl hh hnew hn hsp =>
    exact invD_frame hi rfl (.inr rfl) (fun r hr => .inl hr) (fun q => .inl ⟨rfl, rfl, id⟩)
      (fun u => thr_frame (t := t) (fun v hv => by simp [hv]) (by simp) (by simp [bcastDone]) u)
  | relSig t site new obs n hl hs hh hnew hn hsp =>
    exact invD_frame hi rfl (.inr rfl) (fun r hr => .inl hr) (fun q => .inl ⟨rfl, rfl, id⟩)
      (fun u => thr_frame (t := t) (fun v hv => by simp [hv]) (by simp) (by simp [bcastDone, hl]; intro a _; exact a) u)
  | relDeq t new obs n hl hh hnew hn hsp =>
    refine invD_frame hi rfl (.inr rfl) (fun r hr => .inl hr) ?_ (fun u => thr_frame (t := t) (fun v hv => by simp [hv]) (by simp) (by simp [bcastDone]) u)
    intro q
    by_cases hq : q = (s.thr t).r
    · subst hq
      left; simp
      have := ((ha.thr t).mine _ ((ha.thr t).nDeq (.inr hl)).1).2.2.2
      intro e; cases hst : (s.recs (s.thr t).r).stat <;> simp [hst] at e
    · left; simp [hq]
  | wHeadExit t r y hy hl hr hw =>
    subst hy
    refine invD_frame hi rfl (.inl ⟨rfl, rfl⟩) (fun r hr => .inl hr) ?_ (fun u => thr_frame (t := t) (fun v hv => by simp [hv]) (by simp) (by simp [bcastDone]) u)
    intro q
    by_cases hq : q = r
    · subst hq; left; simp
    · left; simp [hq]
  | wCmpEq t r obs hl hr ho he =>
    refine invD_frame hi rfl (.inl ⟨rfl, rfl⟩) (fun q hq => .inl (List.mem_of_mem_erase hq)) ?_
      (fun u => thr_frame (t := t) (fun v hv => by simp [hv]) (by simp) (by simp [bcastDone]) u)
    intro q
    by_cases hq : q = r
    · subst hq; left; simp
    · left; simp [hq]
  | deqLdQueued t r obs hl hr hw hst =>
    refine invD_frame hi rfl (.inl ⟨rfl, rfl⟩) (fun q hq => .inl (List.mem_of_mem_erase hq)) ?_
      (fun u => thr_frame (t := t) (fun v hv => by simp [hv]) (by simp) (by simp [bcastDone]) u)
    intro q
    by_cases hq : q = r
    · subst hq; left; simp
    · left; simp [hq]
  | relDeqW t new obs n hl hh hnew hn hsp =>
    exact invD_frame hi rfl (.inr rfl) (fun r hr => .inl hr) (fun q => .inl ⟨rfl, rfl, id⟩)
      (fun u => thr_frame (t := t) (fun v hv => by simp [hv]) (by simp) (by simp [bcastDone]) u)
  | deqSpinExit t r hl hr hw =>
    subst hr
    refine invD_frame hi rfl (.inl ⟨rfl, rfl⟩) (fun r hr => .inl hr) ?_ (fun u => thr_frame (t := t) (fun v hv => by simp [hv]) (by simp) (by simp [bcastDone]) u)
    intro q
    by_cases hq : q = (s.thr t).r
    · subst hq
      left; simp
      have := ((ha.thr t).mine _ ((ha.thr t).nSpin (.inr hl)).1).2.2.2
      intro e; cases hst : (s.recs (s.thr t).r).stat <;> simp [hst] at e
    · left; simp [hq]
  | wSt1 t r obs hl hm hst =>
    refine invD_frame hi rfl (.inl ⟨rfl, rfl⟩) (fun q hq => .inl hq) ?_ ?_
    · intro q
      by_cases hq : q = r
      · subst hq; right; simp
      · left; simp [hq]
    · intro u
      by_cases hu : u = t
      · subst hu; simp; split <;> simp [bcastDone]
      · simp [hu]
  | wClr t r obs hl hr =>
    refine invD_frame hi rfl (.inl ⟨rfl, rfl⟩) (fun q hq => .inl hq) ?_ (fun u => thr_frame (t := t) (fun v hv => by simp [hv]) (by simp) (by simp [bcastDone]) u)
    intro q
    by_cases hq : q = r
    · subst hq; left; simp
    · left; simp [hq]
  | wake t r obs hl hr =>
    refine invD_frame hi rfl (.inl ⟨rfl, rfl⟩) (fun q hq => .inl hq) ?_
      (fun u => thr_frame (t := t) (fun v hv => by simp [hv]) (by simp) (by simp [bcastDone, hl]) u)
    intro q
    by_cases hq : q = r
    · subst hq; left; simp; intro e; cases hst : (s.recs q).stat <;> simp [hst] at e ⊢
    · left; simp [hq]
  | enqSt t r obs hl hm hst ho he =>
    refine invD_frame hi rfl (.inl ⟨rfl, rfl⟩) ?_ ?_ (fun u => thr_frame (t := t) (fun v hv => by simp [hv]) (by simp) (by simp [bcastDone]) u)
    · intro q hq
      simp at hq
      rcases hq with hq | hq
      · exact .inl hq
      · subst hq; right; simp
    · intro q
      by_cases hq : q = r
      · subst hq; right; simp
      · left; simp [hq]
  | deqSt t r obs hl hr =>
    refine invD_frame hi rfl (.inl ⟨rfl, rfl⟩) (fun q hq => .inl hq) ?_ (fun u => thr_frame (t := t) (fun v hv => by simp [hv]) (by simp) (by simp [bcastDone]) u)
    intro q
    by_cases hq : q = r
    · subst hq; left; simp
    · left; simp [hq]
  | wRmCasOk t r exp new obs hl hr hn ho he =>
    refine invD_frame hi rfl (.inl ⟨rfl, rfl⟩) (fun q hq => .inl hq) ?_ (fun u => thr_frame (t := t) (fun v hv => by simp [hv]) (by simp) (by simp [bcastDone]) u)
    intro q
    by_cases hq : q = r
    · subst hq; left; simp
    · left; simp [hq]
  | sRcCasOk t site r exp new obs hl hr hn ho he =>
    refine invD_frame hi rfl (.inl ⟨rfl, rfl⟩) (fun q hq => .inl hq) ?_
      (fun u => thr_frame (t := t) (fun v hv => by simp [hv]) (by simp) (by simp [bcastDone, hl]; intro a _; exact a) u)
    intro q
    by_cases hq : q = r
    · subst hq; left; simp
    · left; simp [hq]
  | muMode t obs lt hl hlt =>
    refine invD_frame hi rfl (.inl ⟨rfl, rfl⟩) (fun q hq => .inl hq) ?_ (fun u => thr_frame (t := t) (fun v hv => by simp [hv]) (by simp) (by simp [bcastDone]) u)
    intro q
    by_cases hq : q = (s.thr t).r
    · subst hq; left; simp
    · left; simp [hq]
  | wwCasOk t exp new obs f rest hl hlist =>
    refine invD_frame hi rfl (.inl ⟨rfl, rfl⟩) (fun q hq => .inl hq) ?_ ?_
    · intro q
      left
      dsimp only
      split
      · simp
      · exact ⟨rfl, rfl, id⟩
    · intro u
      by_cases hu : u = t
      · subst hu; simp [bcastDone, hl]
      · simp [hu]
  | semVWake t k r q hl hc =>
    refine invD_frame hi rfl (.inl ⟨rfl, rfl⟩) (fun q hq => .inl hq) ?_
      (fun u => thr_frame (t := t) (fun v hv => by simp [hv]) (by simp) (by simp [bcastDone, hl]; intro a _; exact a) u)
    intro q'
    by_cases hq : q' = r
    · subst hq; left; simp
    · left; simp [hq]
  | semPdRetOkW t k hl =>
    exact invD_frame hi rfl (.inl ⟨rfl, rfl⟩) (fun q hq => .inl hq) (fun q => .inl ⟨rfl, rfl, id⟩)
      (fun u => thr_frame (t := t) (fun v hv => by simp [hv]) (by simp) (by simp [bcastDone]) u)
  | semPdRetOkC t k hl =>
    exact invD_frame hi rfl (.inl ⟨rfl, rfl⟩) (fun q hq => .inl hq) (fun q => .inl ⟨rfl, rfl, id⟩)
      (fun u => thr_frame (t := t) (fun v hv => by simp [hv]) (by simp) (by simp [bcastDone]) u)
  | wInit t r hl hm hst =>
    refine invD_frame hi rfl (.inl ⟨rfl, rfl⟩) (fun q hq => .inl hq) ?_ (fun u => ⟨Nat.le_refl _, id⟩)
    intro q
    by_cases hq : q = r
    · subst hq; left; simp
    · left; simp [hq]
  | nwInit t r hl hm hst =>
    refine invD_frame hi rfl (.inl ⟨rfl, rfl⟩) (fun q hq => .inl hq) ?_ (fun u => ⟨Nat.le_refl _, id⟩)
    intro q
    by_cases hq : q = r
    · subst hq; left; simp
    · left; simp [hq]
  | fStW t r new hl hf =>
    refine invD_frame hi rfl (.inl ⟨rfl, rfl⟩) (fun q hq => .inl hq) ?_ (fun u => ⟨Nat.le_refl _, id⟩)
    intro q
    by_cases hq : q = r
    · subst hq; left; simp
    · left; simp [hq]
  | fCasOk t r exp new obs hl hf hn ho he =>
    refine invD_frame hi rfl (.inl ⟨rfl, rfl⟩) (fun q hq => .inl hq) ?_ (fun u => ⟨Nat.le_refl _, id⟩)
    intro q
    by_cases hq : q = r
    · subst hq; left; simp
    · left; simp [hq]

theorem invD_reachable {cfg : Config} {s : State} (h : Reachable cfg s) : InvD s := by
  have : Inv s ∧ InvD s := by
    refine reachable_induct (P := fun s => Inv s ∧ InvD s) ⟨⟨invA_init, invB_init⟩, invD_init⟩ ?_ s h
    intro s e s' ⟨hi, hd⟩ htr
    have hb := invB_tr hi.a hi.b htr
    exact ⟨⟨invA_tr hi.a htr hb.nobad, hb⟩, invD_tr hi.a hd htr⟩
  exact this.2

end NsyncVerif.CvFix
