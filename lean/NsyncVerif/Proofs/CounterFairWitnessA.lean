/-
  Proofs/CounterFairWitnessA.lean — Counter layer: the loop of the witness "stray posts wake a
  timed-out sleeper for ever".
-/
import NsyncVerif.Proofs.CounterFairLasso

namespace Counter

/-- thread 0 (idle, another layer) posts semaphore 1; thread 1 wakes (`pd_ret 0`), runs ready_time
    (value 1: not ready) and goes back to sleep -/
def strayLoop : List Event :=
  [.thr 0 (.semV 1), .thr 1 (.pdRet 1 false), .thr 1 (.st .rlx .waited 1 1), .thr 1 (.ld .acq .value 1),
   .thr 1 (.pdEnter 1 (some 500))]

theorem stray_loop (s : State) (h1 : s.pc 1 = .wPdWait (some 500) 3 1) (h0 : s.pc 0 = .idle)
    (hsem : s.sh.sem 1 = 0) (hnw : (s.sh.nw 3).sem = some 1) (hw : s.sh.waited = true)
    (hv : s.sh.value = 1) : run s strayLoop = .ok s := by
  obtain ⟨sh, pc⟩ := s
  simp only at h1 h0 hsem hnw hw hv
  simp [strayLoop, run, step, stepThr, dflt, h0, h1, State.mk', State.setPc, Shared.setSem, Shared.bind,
    hsem, hnw, hw, hv, b2n]
  refine ⟨?_, ?_⟩
  · have hs : (fun i => if i = 1 then 0 else if i = 1 then 1 else sh.sem i) = sh.sem := by
      funext i; by_cases hi : i = 1 <;> simp [hi, hsem]
    rw [hs]; cases sh; simp_all
  · funext u; by_cases hu : u = 1 <;> simp [hu, h1]

/-- counter at 1; thread 1 waits with deadline 500, queues, sleeps; the clock reaches 500 -/
def strayPre : List Event := Example.timesOut.take 19 ++ [.tick 500]

def strayA : State := stateAt strayPre strayPre.length

theorem stray_run : run init strayPre = .ok strayA := by
  have h : accepts strayPre = true := by decide
  simp only [accepts, final] at h
  split at h
  · rename_i s hs
    have := stateAt_ge hs (Nat.le_refl strayPre.length)
    rw [strayA, this]; exact hs
  · cases h

theorem strayA_facts : strayA.pc 1 = .wPdWait (some 500) 3 1 ∧ strayA.pc 0 = .idle ∧ strayA.sh.sem 1 = 0 ∧
    (strayA.sh.nw 3).sem = some 1 ∧ strayA.sh.waited = true ∧ strayA.sh.value = 1 ∧ strayA.sh.now = 500 := by
  have h : (final strayPre).map (fun s => decide (s.pc 1 = .wPdWait (some 500) 3 1 ∧ s.pc 0 = .idle ∧
      s.sh.sem 1 = 0 ∧ (s.sh.nw 3).sem = some 1 ∧ s.sh.waited = true ∧ s.sh.value = 1 ∧ s.sh.now = 500))
      = some true := by decide
  simpa [final, stray_run] using h

theorem stray_cycle : run strayA strayLoop = .ok strayA := by
  obtain ⟨a, b, c, d, e, f, _⟩ := strayA_facts
  exact stray_loop strayA a b c d e f

/-- the stem, then stray post / wake-up / back to sleep for ever -/
def strayExec : Exec init := lassoExec strayPre strayLoop strayA stray_run stray_cycle (by decide)

theorem stray_at (m : Nat) {r : Nat} (hr : r < 5) :
    strayExec.ρ (20 + 5 * m + r) = stateFrom strayA (strayLoop.take r) ∧
    strayExec.σ (20 + 5 * m + r) = strayLoop[r]? :=
  lasso_pos stray_run stray_cycle (by decide) m (r := r) hr

theorem stray_loop_pcs : ∀ r, r < 5 → (stateFrom strayA (strayLoop.take r)).pc 1 ≠ .idle ∧
    (stateFrom strayA (strayLoop.take r)).pc 0 = .idle := by decide

theorem stray_weakFair : WeakFair strayExec := by
  apply lasso_weakFair
  intro t
  by_cases h3 : t < 2
  · match t, h3 with
    | 0, _ => exact ⟨0, by decide, Or.inl (stray_loop_pcs 0 (by decide)).2⟩
    | 1, _ => exact ⟨1, by decide, Or.inr (Or.inr (by decide))⟩
  · exact ⟨0, by decide, Or.inl (lasso_idle stray_run stray_cycle 2 (by decide) (by decide) h3 0)⟩

theorem stray_never (j : Nat) (hj : 20 ≤ j) : (strayExec.ρ j).pc 1 ≠ .idle := by
  obtain ⟨m, r, hr, rfl⟩ : ∃ m r, r < 5 ∧ j = 20 + 5 * m + r :=
    ⟨(j - 20) / 5, (j - 20) % 5, Nat.mod_lt _ (by decide), by omega⟩
  rw [(stray_at m hr).1]
  exact (stray_loop_pcs r hr).1

end Counter
