/-
  Proofs/WaitNReady5.lean — `TF` is preserved by the caller's own steps, part 1:
  dflt, stepOpen, counter_ready_time, nsync_note_notified_deadline_.
-/
import NsyncVerif.Proofs.WaitNReady4

set_option linter.unusedSimpArgs false
set_option linter.unusedVariables false

namespace WaitN

/-- what is known about a caller before its own step -/
structure Ctx (s : State) (t : Tid) : Prop where
  own : Own s
  known : Known s
  linv : LInv (s.pc t) (s.fr t)
  tf : TF s (s.pc t) (s.fr t)

theorem shared_dflt {s s' : State} {t : Tid} {e : Ev} (h : dflt s t e = .ok s') :
    s'.obj = s.obj ∧ s'.rcd = s.rcd ∧ s'.now = s.now := by
  unfold dflt at h
  split_ok h <;> (cases h; exact ⟨rfl, rfl, rfl⟩)

theorem tf_dflt {s s' : State} {t : Tid} {e : Ev} (c : Ctx s t) (h : dflt s t e = .ok s') :
    TF s' (s'.pc t) (s'.fr t) := by
  have k := keeps_dflt (t := t) h
  have sh := shared_dflt h
  rw [k.1]
  exact TF.same k.2 (tf_congr sh.1 sh.2.1 sh.2.2 c.tf)

/-- the caller's own step, when it is not an enqueue store, keeps its readiness facts -/
theorem own_stable {s s' : State} {t : Tid} (c : Ctx s t) (hc : inCall (s.pc t) = true) (m : Mono s s' t)
    (hne : ∀ i, s.pc t ≠ .wEnq i (.store true) ∧ s.pc t ≠ .wEnqCv i .store) :
    Stable True s s' (s.fr t) := by
  have st := stable_of_mono (f := s.fr t) m (c.known t hc)
    (by intro _ r _ i hpc; rcases hpc with h | h
        · exact absurd h (hne i).1
        · exact absurd h (hne i).2)
  refine ⟨st.expiry, st.flag, st.zero, st.now, ?_⟩
  intro _ r hr hw
  cases hw' : (s'.rcd r).waiting with
  | false => rfl
  | true =>
    obtain ⟨i, hpc, _⟩ := m.wtrue r hw hw'
    rcases hpc with h | h
    · exact absurd h (hne i).1
    · exact absurd h (hne i).2

theorem tf_stepOpen {s s' : State} {t : Tid} {e : Ev} (c : Ctx s t) (hc : inCall (s.pc t) = true)
    (hne : ∀ i, s.pc t ≠ .wEnq i (.store true) ∧ s.pc t ≠ .wEnqCv i .store)
    (h : stepOpen s t e = .ok s') : TF s' (s'.pc t) (s'.fr t) := by
  have k := keeps_stepOpen (t := t) h
  have st := own_stable c hc (mono_stepOpen h) hne
  rw [k.1]
  exact TF.same k.2 (tf_stable st (.inr trivial) c.tf)

theorem tf_nd_move {s s' : State} {u : Use} {i : Nat} {a b : NDst} {f : Frame} (st : Stable True s s' f)
    (htf : TF s (.wND u i a) f) (hn : NDFat s' f i b) : TF s' (.wND u i b) f := by
  have := tf_stable st (.inr trivial) htf
  cases u <;> simp only [TF] at this ⊢
  · exact ⟨this.1, hn⟩
  · exact ⟨this.1, this.2.1, hn⟩
  · exact ⟨this.1, this.2.1, hn⟩

theorem tf_ctr_move {s s' : State} {u : Use} {i : Nat} {f : Frame} (st : Stable True s s' f)
    (htf : TF s (.wCtrRT u i false) f) (hw : ∀ c, f.objs[i]? = some (.ctr c) → (s'.obj (.ctr c)).flag = true) :
    TF s' (.wCtrRT u i true) f := by
  have := tf_stable st (.inr trivial) htf
  cases u with
  | poll =>
    simp only [TF] at this ⊢
    refine ⟨this.1, fun _ => ?_⟩
    intro k c hk hc
    rcases Nat.lt_or_ge k i with h' | h'
    · exact this.1 k c h' hc
    · have : k = i := by omega
      subst this; exact hw c hc
  | loop => exact this
  | deq => trivial

theorem waited_succ {s : State} {f : Frame} {i : Nat} (h : Waited s f i)
    (hi : ∀ c, f.objs[i]? = some (.ctr c) → (s.obj (.ctr c)).flag = true) : Waited s f (i + 1) := by
  intro k c hk hc
  rcases Nat.lt_or_ge k i with h' | h'
  · exact h k c h' hc
  · have : k = i := by omega
    subst this; exact hi c hc

/-- a `ready_time` call that ends: the facts needed by the three uses -/
theorem tf_rtDone {s s' : State} {t : Tid} {u : Use} {i : Nat} {time : Deadline} {p : PC}
    (hl : LInv p (s.fr t)) (htf : TF s p (s.fr t))
    (hp : (∃ l, p = .wCtrRT u i l ∧ u ≠ .deq) ∨ (∃ st, p = .wND u i st))
    (hwi : u = .poll → ∀ c, (s.fr t).objs[i]? = some (.ctr c) → (s.obj (.ctr c)).flag = true)
    (hready : dlePast time = true → sReady s (s.fr t) i)
    (hnr : dlePast time = false → time = none ∨ ∃ n, (s.fr t).objs[i]? = some (.note n) ∧ time = (s.obj (.note n)).expiry)
    (hn : u = .deq → ∀ n, (s.fr t).objs[i]? = some (.note n) → (s.fr t).why = .readyAt i → noteNotif s n)
    (h : rtDone s t u i time = .ok s') : TF s' (s'.pc t) (s'.fr t) := by
  cases u with
  | poll =>
    rcases hp with ⟨l, rfl, _⟩ | ⟨st, rfl⟩
    · simp only [LInv, TF] at hl htf
      exact tf_rtDone_poll hl.1 hl.2.1 (waited_succ htf.1 (hwi rfl)) hready h
    · simp only [LInv, TF] at hl htf
      exact tf_rtDone_poll hl.1 hl.2.1 (waited_succ htf.1 (hwi rfl)) hready h
  | loop =>
    rcases hp with ⟨l, rfl, _⟩ | ⟨st, rfl⟩
    · simp only [LInv, TF] at hl htf
      exact tf_rtDone_loop hl.1 htf.1 htf.2 hready hnr h
    · simp only [LInv, TF] at hl htf
      exact tf_rtDone_loop hl.1 htf.1 htf.2.1 hready hnr h
  | deq =>
    rcases hp with ⟨l, rfl, hne⟩ | ⟨st, rfl⟩
    · exact absurd rfl hne
    · exact tf_rtDone_deq htf (hn rfl) h

end WaitN
