/-
  Layer `Note` × vector clocks: where a store `notified := 1` comes from (invariant `OInv`).

  Every recorded store of the flag of note `k` was performed
    * at note.c/1 inside an activation `notify (a)` with `a = k` or `a` strictly above `k` in the
      creation order (`Lt`: `a` was on the path from `k` to the root when `k` was created), during
      the API call that activation belongs to — `nsync_note_notify (a)`, or the call
      (`nsync_note_is_notified (a)`, `nsync_note_wait (a, …)`, `nsync_note_notify (a)`, or the
      `nsync_note_new` creating `a`) whose poll of `a` found `a`'s deadline passed; or
    * at note.c/7 by the `nsync_note_new (par, …)` call that is creating `k`, whose intended
      parent `par` is notified (born notified, the F5 repair).
-/
import NsyncVerif.Proofs.NoteVCThr

set_option linter.unusedSimpArgs false

namespace Note
open NsyncVerif

def SetterOk (s : State) (k : NoteId) (g : Setter) : Prop :=
  match g.top with
  | some top => (k = top.n ∨ Lt s top.n k) ∧ g.api = some (top.k.api top.n)
  | none => s.bornNotified k = true ∧ ∃ par dl, g.api = some (.new (some par) dl) ∧ NA s par

def OInv (p : PState) : Prop := ∀ k g, g ∈ p.sets k → SetterOk p.s k g

theorem SetterOk.step {s s' : State} {e : Event} (hr : Reachable s) (hs : step s e = .ok s')
    {k : NoteId} {g : Setter} (h : SetterOk s k g) : SetterOk s' k g := by
  obtain ⟨hA, hN, hS, _, _, _⟩ := hr.inv6
  unfold SetterOk at h ⊢
  cases hg : g.top with
  | some top =>
    rw [hg] at h
    refine ⟨?_, h.2⟩
    rcases h.1 with h1 | h1
    · exact Or.inl h1
    · exact Or.inr (Lt.stable hS hs h1)
  | none =>
    rw [hg] at h
    obtain ⟨h1, par, dl, h2, h3⟩ := h
    exact ⟨(step_stable hs).born k h1, par, dl, h2, NA.step hA hN hs h3⟩

/-- the store of nsync_note_new marks the note born notified -/
theorem newSt_born {s s' : State} {t : Tid} {site : Site} {o : Ord} {k : NoteId} {n ob : Nat}
    {p : NoteId} {dl : Dl} (hs : step s (.stNote t site o k n ob) = .ok s')
    (hpc : s.pc t = .newP .st k p dl) : s'.bornNotified k = true := by
  step_cases hs
  · rename_i h _ _ _; rw [hpc] at h; cases h
  · rename_i h _ _ _; rw [hpc] at h; cases h; simp

theorem oinv_step {p p' : PState} {e : Event} (hr : Reachable p.s) (hc : ∀ t, TClaim p t)
    (ho : OInv p) (hp : pstep p e = .ok p') : OInv p' := by
  obtain ⟨hs, _, _, _, hsets, _, _⟩ := pstep_ok hp
  obtain ⟨hA, hN, hS, _, hL, _⟩ := hr.inv6
  intro k g hg
  rw [hsets] at hg
  cases e with
  | stNote t site o k0 n ob =>
    simp only [gSets] at hg
    by_cases hk : k = k0
    · rw [if_pos hk, List.mem_append] at hg
      rcases hg with hg | hg
      · exact SetterOk.step hr hs (ho k g hg)
      · simp only [List.mem_singleton] at hg
        subst hg
        have hcl := hc t
        unfold TClaim at hcl
        obtain ⟨_, _, _, _, hsite⟩ := stNote_ok hs
        rcases hsite with ⟨_, f, rest, top, hpc, hf, _⟩ | ⟨_, par, dl, hpc, _⟩
        · -- note.c/1
          rw [hpc] at hcl
          have hLc := hL.claim t
          rw [hpc] at hLc
          refine SetterOk.step hr hs ?_
          unfold SetterOk
          simp only [newSetter, hpc, topOf]
          refine ⟨?_, hcl.1⟩
          rw [hk, ← hf]
          cases rest with
          | nil =>
            left
            simpa using hLc.2.2.1
          | cons g gs =>
            right
            have hlast := hLc.2.2.1
            simp only [List.getLast?_cons_cons] at hlast
            cases hl : (g :: gs).getLast? with
            | none => rw [hl] at hlast; cases hlast
            | some l =>
              rw [hl] at hlast
              have hln : l.note = top.n := by simpa using hlast
              have := LClaim.above_head hL hLc l.note
                (List.mem_append_left _ (List.mem_map_of_mem (List.mem_of_getLast? hl)))
              rw [hln] at this
              exact this
        · -- note.c/7
          rw [hpc] at hcl
          have hNc := hN.claim t
          rw [hpc] at hNc
          unfold SetterOk
          simp only [newSetter, hpc, topOf]
          refine ⟨?_, par, dl, hcl, NA.step hA hN hs (hNc.2 rfl)⟩
          rw [hk]; exact newSt_born hs hpc
    · rw [if_neg hk] at hg
      exact SetterOk.step hr hs (ho k g hg)
  | _ => exact SetterOk.step hr hs (ho k g hg)

/-- All three invariants of the product hold in every reachable product state. -/
theorem PReachable.inv3 {p : PState} (h : PReachable p) : VInv p ∧ (∀ t, TClaim p t) ∧ OInv p := by
  refine PReachable.induction (P := fun p => VInv p ∧ (∀ t, TClaim p t) ∧ OInv p)
    ⟨VInv.init, tclaim_init, fun k g hg => by simp [pinit] at hg⟩ ?_ p h
  intro p e p' hr hi hs
  exact ⟨vinv_step hr.s hi.1 hs, tclaim_step hr.s hi.1 hi.2.1 hs, oinv_step hr.s hi.2.1 hi.2.2 hs⟩

end Note
