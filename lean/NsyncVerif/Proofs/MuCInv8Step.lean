import NsyncVerif.Proofs.MuCInv8
/-
  MuC: `Inv8` in every reachable state.
-/
namespace NsyncVerif.MuC

theorem ok8_retPc (r : Ret) : r.pc.ok8 := by cases r <;> simp [Ret.pc, PC.ok8]

theorem ok8_finPc (r : Ret) (l : List Wid) : (finPc r l).ok8 := by
  cases l with
  | nil => exact ok8_retPc r
  | cons k rest => simp [finPc, PC.ok8]

macro "ok8_close" h:ident hs:ident : tactic => `(tactic|
  first
  | (cases $hs:ident; done)
  | (cases $hs:ident
     (first
      | (simp_all [PC.ok8, SL.ok8, SL.entry, SL.fromWait, SL.woken, setFn, mwLoop_eq, loopPc, afterFin_eq, afterWakes_eq, finPc, Ret.pc, uncontended]; done)
      | ((repeat' split) <;> simp_all [PC.ok8, SL.ok8, SL.entry, SL.fromWait, SL.woken, setFn, mwLoop_eq, loopPc, afterFin_eq, afterWakes_eq, finPc, Ret.pc, uncontended])))
  | (exfalso; simp_all; done))

theorem stepLd_ok8 {s s' : State} {t : Tid} {o : Ord} {loc : Loc} {obs : Nat} (h : (s.pc t).ok8)
    (hs : stepLd s t o loc obs = .ok s') : (s'.pc t).ok8 := by
  unfold stepLd at hs
  split at hs
  all_goals (try (rename_i heq; rw [heq] at h))
  all_goals (try dsimp only at hs)
  all_goals (try simp only [ldWord, ldWaiting] at hs)
  all_goals (repeat' split at hs)
  all_goals ok8_close h hs

theorem stepSt_ok8 {s s' : State} {t : Tid} {o : Ord} {loc : Loc} {new obs : Nat} (h : (s.pc t).ok8)
    (hs : stepSt s t o loc new obs = .ok s') : (s'.pc t).ok8 := by
  unfold stepSt at hs
  split at hs
  all_goals (try (rename_i heq; rw [heq] at h))
  all_goals (try dsimp only at hs)
  all_goals (repeat' split at hs)
  all_goals first
    | (cases hs; done)
    | (cases hs; simp_all [PC.ok8, SL.ok8, setFn]; done)
    | (cases hs; (repeat' split) <;> simp_all [PC.ok8, SL.ok8, setFn])

theorem stepCall_ok8 {s s' : State} {t : Tid} {a : Api} (hs : stepCall s t a = .ok s') : (s'.pc t).ok8 := by
  unfold stepCall at hs
  split at hs
  · cases a <;> dsimp only at hs
    all_goals (repeat' split at hs)
    all_goals first
      | (cases hs; done)
      | (cases hs; simp [PC.ok8, setFn])
  · cases hs

theorem stepRet_ok8 {s s' : State} {t : Tid} {a : Api} {res : Res} (hs : stepRet s t a res = .ok s') : (s'.pc t).ok8 := by
  unfold stepRet at hs
  split at hs
  all_goals (try dsimp only at hs)
  all_goals (repeat' split at hs)
  all_goals first
    | (cases hs; done)
    | (cases hs; simp [PC.ok8, setFn, dropW_pc, setHeld_pc]; done)
    | (cases hs; (repeat' split) <;> simp [PC.ok8, setFn, dropW_pc, setHeld_pc])

theorem stepCond_ok8 {s s' : State} {t : Tid} {fn : CFn} {k : Nat} {res : Bool} (h : (s.pc t).ok8)
    (hs : stepCond s t fn k res = .ok s') : (s'.pc t).ok8 := by
  unfold stepCond at hs
  dsimp only at hs
  split at hs
  · repeat' split at hs
    all_goals first
      | (cases hs; done)
      | (cases hs; rw [mwLoop_eq]; simp only [loopPc, setPc_pc, setFn_same]; split <;> simp [PC.ok8])
  · rename_i r sc heq
    rw [heq] at h
    repeat' split at hs
    all_goals first
      | (cases hs; done)
      | exact afterEval_ok8 hs h
  · cases hs

theorem stepCas_ok8 {s s' : State} {t : Tid} {o : Ord} {loc : Loc} {exp new obs : Nat} {ok : Bool} (h : (s.pc t).ok8)
    (hs : stepCas s t o loc exp new obs ok = .ok s') : (s'.pc t).ok8 := by
  unfold stepCas at hs
  split at hs
  all_goals (try (rename_i heq; rw [heq] at h))
  all_goals first
    | (cases hs; done)
    | (rcases casWord_ok hs with ⟨_, _, hs'⟩ | ⟨_, _, hs'⟩ <;> subst hs' <;>
        first
        | (simp only [afterWakes_eq, afterFin_eq, subShare_pc, setPc_pc, setFn_same]
           first | exact ok8_retPc _ | exact ok8_finPc _ _)
        | (simp_all [PC.ok8, SL.ok8, SL.entry, SL.fromWait, SL.woken, setFn, mwLoop_eq, loopPc, afterFin_eq, afterWakes_eq, finPc, Ret.pc, dropW_pc]; done)
        | ((repeat' split) <;> simp_all [PC.ok8, SL.ok8, SL.entry, SL.fromWait, SL.woken, setFn, mwLoop_eq, loopPc, afterFin_eq, afterWakes_eq, finPc, Ret.pc, dropW_pc]))
    | (rcases casWordE_ok hs with ⟨_, _, hs'⟩ | ⟨_, _, hs'⟩
       · first
         | exact afterPickup_ok8 hs' ⟨fun e => by simp at e, fun e => by simp at e⟩
         | exact afterPickup_ok8 hs' h
         | exact scanRun_ok8 _ _ _ _ _ _ hs' h
       · subst hs'; simp_all [PC.ok8, setFn])
    | (split at hs <;> first
         | (cases hs; done)
         | (rcases casWord_ok hs with ⟨_, _, hs'⟩ | ⟨_, _, hs'⟩ <;> subst hs' <;>
             first
             | (simp_all [PC.ok8, setFn]; done)
             | ((repeat' split) <;> simp_all [PC.ok8, setFn])))
    | (repeat' split at hs
       all_goals first
         | (cases hs; done)
         | exact scanRun_ok8 _ _ _ _ _ _ hs h
         | (cases hs; simp_all [PC.ok8, setFn]))

theorem inv8_step {cfg : Cfg} {s s' : State} {e : Event} (h : Inv8 s) (hs : step cfg s e = .ok s') : Inv8 s' := by
  intro u
  by_cases hu : e.tid = some u
  · cases e with
    | call t a => simp only [Event.tid, Option.some.injEq] at hu; subst hu; exact stepCall_ok8 hs
    | ret t a res => simp only [Event.tid, Option.some.injEq] at hu; subst hu; exact stepRet_ok8 hs
    | ld t o loc obs => simp only [Event.tid, Option.some.injEq] at hu; subst hu; exact stepLd_ok8 (h _) hs
    | st t o loc new obs => simp only [Event.tid, Option.some.injEq] at hu; subst hu; exact stepSt_ok8 (h _) hs
    | cas t o loc exp new obs ok => simp only [Event.tid, Option.some.injEq] at hu; subst hu; exact stepCas_ok8 (h _) hs
    | cond t fn k res => simp only [Event.tid, Option.some.injEq] at hu; subst hu; exact stepCond_ok8 (h _) hs
    | semV t k =>
      simp only [Event.tid, Option.some.injEq] at hu; subst hu
      simp only [step] at hs
      repeat' split at hs
      all_goals first
        | (cases hs; done)
        | (cases hs; simp only [afterFin_eq, semPost_pc, setPc_pc, setFn_same]; exact ok8_finPc _ _)
    | semPEnter t k | semPRet t k | semPdEnter t k dl | semPdRet t k b | noteSeen t | noteNotify t =>
      simp only [Event.tid, Option.some.injEq] at hu; subst hu
      have h' := h t
      simp only [step] at hs
      split at hs
      all_goals (try (rename_i heq; rw [heq] at h'))
      all_goals repeat' split at hs
      all_goals first
        | (cases hs; done)
        | (cases hs; simp_all [PC.ok8, SL.ok8, setFn, afterFin_eq, finPc, Ret.pc]; done)
        | (cases hs; (repeat' split) <;> simp_all [PC.ok8, SL.ok8, setFn, afterFin_eq, finPc, Ret.pc])
    | envV k => simp [Event.tid] at hu
    | envSem k n => simp [Event.tid] at hu
    | dataW t x v =>
      simp only [step] at hs
      split at hs
      · cases hs; exact h u
      · cases hs
    | dataR t x v =>
      simp only [step] at hs
      split at hs
      · cases hs; exact h u
      · cases hs
    | tick n => simp [Event.tid] at hu
  · rw [(step_other hs u hu).1]; exact h u

theorem inv8_init : Inv8 init := by intro t; simp [init, PC.ok8]

theorem reachable_inv8 {cfg : Cfg} {s : State} (h : Reachable cfg s) : Inv8 s :=
  reachable_induction (P := Inv8) inv8_init (fun _ _ _ _ hp hs => inv8_step hp hs) s h

end NsyncVerif.MuC
