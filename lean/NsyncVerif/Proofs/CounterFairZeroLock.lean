/-
  Proofs/CounterFairZeroLock.lean — Counter layer, fair release WITHOUT `FiniteArrivals`:
  once the counter is zero and a wait has been called, counter_mu is eventually free for ever
  (`lock_eventually_free_zero`) in every weakly fair execution, however many calls arrive:
  * an add with a non-zero delta that took counter_mu would sit at its CAS for ever (`add_acq_absurd`);
  * a free that took counter_mu frees the object (`free_acq_frees`), after which no call is accepted
    (`finiteArrivals_of_freed`);
  * a wait that is not already past its first ready_time never locks (`lrank0` never grows).
-/
import NsyncVerif.Proofs.CounterFairStep3
import NsyncVerif.Proofs.CounterFairLock

namespace Counter

variable {s0 : State}

theorem step_prog3 (x : Exec s0) {j : Nat} {u : Tid} {e : Ev}
    (h : x.σ j = some (.thr u e)) : Prog3 (x.ρ j) u e (x.ρ (j + 1)) :=
  prog3_stepThr (x.next_some h)

/-! ### the delta of an add that goes through counter_mu is not 0 -/

def DInv (s : State) : Prop := ∀ u d, aDelta (s.pc u) = some d → d ≠ 0

theorem dinv_of_reachable {s : State} (h : Reachable s) : DInv s := by
  refine Reachable.induct (P := DInv) ?_ ?_ h
  · intro u d hp; simp [init, aDelta] at hp
  · intro s e s' hr hp hs
    cases e with
    | tick ns =>
      simp only [step] at hs
      split at hs
      · cases hs; exact hp
      · cases hs
    | thr t ev =>
      have f := facts_stepThr (inv_of_reachable hr) hs
      have g := prog3_stepThr hs
      intro u d hpu
      by_cases hut : u = t
      · subst hut; exact g.dnz (hp _) d hpu
      · rw [f.others u hut] at hpu; exact hp u d hpu

/-! ### freed is for ever, and nothing is called on a freed counter -/

theorem freed_step (x : Exec s0) (hr : Reachable s0) {j : Nat} (h : (x.ρ j).sh.phase = .freed) :
    (x.ρ (j + 1)).sh.phase = .freed := by
  rcases x.step_cases hr j with h1 | ⟨_, _, h1⟩ | ⟨u, e, h1, _, _⟩
  · rw [h1]; exact h
  · rw [h1]; exact h
  · exact (step_prog3 x h1).freedabs h

theorem finiteArrivals_of_freed (x : Exec s0) (hr : Reachable s0) {j0 : Nat}
    (h : (x.ρ j0).sh.phase = .freed) : FiniteArrivals x := by
  have hall : ∀ d, (x.ρ (j0 + d)).sh.phase = .freed := by
    intro d
    induction d with
    | zero => exact h
    | succ d ih => exact freed_step x hr ih
  refine ⟨j0, fun j t e hj he => ?_⟩
  obtain ⟨d, rfl⟩ : ∃ d, j = j0 + d := ⟨j - j0, by omega⟩
  cases hc : e.isCall with
  | false => rfl
  | true => exact absurd (hall d) ((step_prog3 x he).callfreed hc)

/-- the next operation of a thread that cannot be blocked where it is -/
theorem next_move (x : Exec s0) (hf : WeakFair x) {u : Tid} {j : Nat} (hne : (x.ρ j).pc u ≠ .idle)
    (hlw : lockWaitPc ((x.ρ j).pc u) = false) (hpd : ∀ dl k jj, (x.ρ j).pc u ≠ .wPdWait dl k jj) :
    ∃ j1, j ≤ j1 ∧ Moves x u j1 ∧ (x.ρ j1).pc u = (x.ρ j).pc u := by
  have hmv := fair_move x hf (t := u) (i := j) hne (by
    intro j' _ hp
    rintro (⟨dl, k, jj, a, _⟩ | ⟨a, _⟩)
    · rw [hp] at a; exact hpd _ _ _ a
    · rw [hp, hlw] at a; cases a)
  obtain ⟨j1, h1, h2, h3⟩ := first_move' x hmv
  exact ⟨j1, h1, h2, frame_between x h1 h3⟩

/-- a free that has taken counter_mu frees the object -/
theorem free_acq_frees (x : Exec s0) (hr : Reachable s0) (hf : WeakFair x) {u : Tid} {j : Nat}
    (h : (x.ρ j).pc u = .fHeld) : ∃ j', j ≤ j' ∧ (x.ρ j').sh.phase = .freed := by
  obtain ⟨j1, a1, a2, a3⟩ := next_move x hf (u := u) (j := j) (by rw [h]; simp) (by rw [h]; rfl)
    (by rw [h]; simp)
  obtain ⟨e1, he1, _, _⟩ := moves_prog x hr a2
  have b1 : (x.ρ (j1 + 1)).pc u = .fUnlockWait := by
    rcases (step_prog3 x he1).fpath1 (by rw [a3, h]) with c | c
    · exact absurd (by rw [c, a3, h]) a2
    · exact c
  obtain ⟨j2, a4, a5, a6⟩ := next_move x hf (u := u) (j := j1 + 1) (by rw [b1]; simp) (by rw [b1]; rfl)
    (by rw [b1]; simp)
  obtain ⟨e2, he2, _, _⟩ := moves_prog x hr a5
  have b2 : (x.ρ (j2 + 1)).pc u = .fFree := by
    rcases (step_prog3 x he2).fpath2 (by rw [a6, b1]) with c | c
    · exact absurd (by rw [c, a6, b1]) a5
    · exact c
  obtain ⟨j3, a7, a8, a9⟩ := next_move x hf (u := u) (j := j2 + 1) (by rw [b2]; simp) (by rw [b2]; rfl)
    (by rw [b2]; simp)
  obtain ⟨e3, he3, _, _⟩ := moves_prog x hr a8
  rcases (step_prog3 x he3).fpath3 (by rw [a9, b2]) with c | c
  · exact absurd (by rw [c, a9, b2]) a8
  · exact ⟨j3 + 1, by omega, c⟩

/-- at zero (after a wait) no add can be between taking counter_mu and its CAS -/
theorem add_acq_absurd (x : Exec s0) (hr : Reachable s0) (hf : WeakFair x) {i : Nat}
    (hz : ∀ j, i ≤ j → (x.ρ j).sh.value = 0 ∧ (x.ρ j).sh.waited = true) {u : Tid} {d : Int} {j : Nat}
    (hj : i ≤ j) (h : (x.ρ j).pc u = .aLoad d) : False := by
  obtain ⟨j1, a1, a2, a3⟩ := next_move x hf (u := u) (j := j) (by rw [h]; simp) (by rw [h]; rfl)
    (by rw [h]; simp)
  obtain ⟨e1, he1, _, _⟩ := moves_prog x hr a2
  have b1 : (x.ρ (j1 + 1)).pc u = .aCas d 0 := by
    rcases (step_prog3 x he1).apath d (by rw [a3, h]) with c | c
    · exact absurd (by rw [c, a3, h]) a2
    · rw [c, (hz j1 (by omega)).1]
  obtain ⟨j2, a4, a5, a6⟩ := next_move x hf (u := u) (j := j1 + 1) (by rw [b1]; simp) (by rw [b1]; rfl)
    (by rw [b1]; simp)
  obtain ⟨e2, he2, _, _⟩ := moves_prog x hr a5
  have hd : d ≠ 0 := dinv_of_reachable (x.reach hr j2) u d (by rw [a6, b1]; rfl)
  have := (step_prog3 x he2).casstuck d 0 (by rw [a6, b1]) (hz j2 (by omega)).1.symm (hz j2 (by omega)).1
    (hz j2 (by omega)).2 hd
  exact a5 this

/-- Once the counter is zero and a wait has been called, counter_mu is eventually free for ever. -/
theorem lock_eventually_free_zero (x : Exec s0) (hr : Reachable s0) (hf : WeakFair x) {i : Nat}
    (hz : ∀ j, i ≤ j → (x.ρ j).sh.value = 0 ∧ (x.ρ j).sh.waited = true) :
    ∃ n2, ∀ j, n2 ≤ j → (x.ρ j).sh.lockHolder = none := by
  by_cases hfr : ∃ j, (x.ρ j).sh.phase = .freed
  · obtain ⟨j, hj⟩ := hfr
    exact lock_eventually_free x hr hf (finiteArrivals_of_freed x hr hj)
  · apply lock_free_of_no_acq x hr hf
    -- lrank0 never grows, and an acquisition decreases it
    have hstep : ∀ j, i ≤ j → ∀ t, lrank0 ((x.ρ (j + 1)).pc t) ≤ lrank0 ((x.ρ j).pc t)
        ∧ (holds ((x.ρ j).pc t) = false → holds ((x.ρ (j + 1)).pc t) = true →
            lrank0 ((x.ρ (j + 1)).pc t) < lrank0 ((x.ρ j).pc t)) := by
      intro j hj t
      by_cases hm : Moves x t j
      · obtain ⟨e, he, _, _⟩ := moves_prog x hr hm
        have g := step_prog3 x he
        refine ⟨g.lrk0 (hz j hj).1, fun a b => ?_⟩
        rcases g.acqkind a b with c | ⟨d, c⟩ | c
        · obtain ⟨j', _, h2⟩ := free_acq_frees x hr hf c
          exact absurd ⟨j', h2⟩ hfr
        · exact absurd c (fun c => add_acq_absurd x hr hf hz (by omega) c)
        · exact c
      · rw [not_moves_eq hm]
        exact ⟨Nat.le_refl _, fun a b => by rw [a] at b; cases b⟩
    obtain ⟨L, hL⟩ := finite_support (x.reach hr i)
    have hzero : ∀ t, t ∉ L → ∀ d, lrank0 ((x.ρ (i + d)).pc t) = 0 := by
      intro t ht d
      induction d with
      | zero => rw [show i + 0 = i from rfl, hL t ht]; rfl
      | succ d ih =>
        have := (hstep (i + d) (by omega) t).1
        rw [show i + (d + 1) = i + d + 1 by omega]; omega
    obtain ⟨n1, h1, hP⟩ := eventually_list
      (P := fun t j => holds ((x.ρ j).pc t) = false → holds ((x.ρ (j + 1)).pc t) = false) i L (by
        intro t _
        obtain ⟨nt, h1, h2⟩ := mono_stabilizes (fun j => lrank0 ((x.ρ j).pc t)) _ i (Nat.le_refl _)
          (fun j hj => (hstep j hj t).1)
        refine ⟨nt, h1, fun j hj a => ?_⟩
        cases hb : holds ((x.ρ (j + 1)).pc t) with
        | false => rfl
        | true =>
          have := (hstep j (by omega) t).2 a hb
          have e1 := h2 j hj
          have e2 := h2 (j + 1) (by omega)
          omega)
    refine ⟨n1, fun j hj t a => ?_⟩
    by_cases ht : t ∈ L
    · exact hP t ht j hj a
    · cases hb : holds ((x.ρ (j + 1)).pc t) with
      | false => rfl
      | true =>
        exfalso
        have := (hstep j (by omega) t).2 a hb
        obtain ⟨d, hd⟩ : ∃ d, j = i + d := ⟨j - i, by omega⟩
        have z := hzero t ht d
        rw [← hd] at z
        omega

end Counter
