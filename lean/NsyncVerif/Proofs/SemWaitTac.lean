/-
  Proofs/SemWaitTac.lean — tactics for the preservation proofs: `eff_cases he` splits an effect into the
  accepting branches of the step function and rewrites every projection of the new state.
-/
import NsyncVerif.Proofs.SemWaitInv

namespace SemWait

/-- rewrite the projections of an updated state -/
macro "proj_simp" : tactic =>
  `(tactic| simp only [State.posted, State.bind, State.popped, State.inited, State.enqd, State.removed, State.returned, Frame.empty, ite_rec_live, ite_rec_waiting, ite_rec_owner, ite_rec_note, ite_rec_unl, ite_rec_popper, ite_rec_posted, ite_note_known, ite_note_lock, ite_note_flag, ite_note_expiry, ite_note_queue, ite_note_fresh, ite_fr_note, ite_fr_dl, ite_fr_nw, ite_fr_sem, ite_fr_locald, ite_fr_nearer, ite_fr_out, ite_fr_consumed, setNote_note, setNote_rcd, setNote_sem, setNote_semUser, setNote_pc, setNote_fr, setNote_post, setNote_now, setRec_note, setRec_rcd, setRec_sem, setRec_semUser, setRec_pc, setRec_fr, setRec_post, setRec_now, setSem_note, setSem_rcd, setSem_sem, setSem_semUser, setSem_pc, setSem_fr, setSem_post, setSem_now, setSemUser_note, setSemUser_rcd, setSemUser_sem, setSemUser_semUser, setSemUser_pc, setSemUser_fr, setSemUser_post, setSemUser_now, setPc_note, setPc_rcd, setPc_sem, setPc_semUser, setPc_pc, setPc_fr, setPc_post, setPc_now, setFr_note, setFr_rcd, setFr_sem, setFr_semUser, setFr_pc, setFr_fr, setFr_post, setFr_now, setPost_note, setPost_rcd, setPost_sem, setPost_semUser, setPost_pc, setPost_fr, setPost_post, setPost_now, kill_note, kill_rcd, kill_sem, kill_semUser, kill_pc, kill_fr, kill_post, kill_now, unbind_note, unbind_rcd, unbind_sem, unbind_semUser, unbind_pc, unbind_fr, unbind_post, unbind_now])

macro "proj_simp_at" h:ident : tactic =>
  `(tactic| simp only [State.posted, State.bind, State.popped, State.inited, State.enqd, State.removed, State.returned, Frame.empty, ite_rec_live, ite_rec_waiting, ite_rec_owner, ite_rec_note, ite_rec_unl, ite_rec_popper, ite_rec_posted, ite_note_known, ite_note_lock, ite_note_flag, ite_note_expiry, ite_note_queue, ite_note_fresh, ite_fr_note, ite_fr_dl, ite_fr_nw, ite_fr_sem, ite_fr_locald, ite_fr_nearer, ite_fr_out, ite_fr_consumed, setNote_note, setNote_rcd, setNote_sem, setNote_semUser, setNote_pc, setNote_fr, setNote_post, setNote_now, setRec_note, setRec_rcd, setRec_sem, setRec_semUser, setRec_pc, setRec_fr, setRec_post, setRec_now, setSem_note, setSem_rcd, setSem_sem, setSem_semUser, setSem_pc, setSem_fr, setSem_post, setSem_now, setSemUser_note, setSemUser_rcd, setSemUser_sem, setSemUser_semUser, setSemUser_pc, setSemUser_fr, setSemUser_post, setSemUser_now, setPc_note, setPc_rcd, setPc_sem, setPc_semUser, setPc_pc, setPc_fr, setPc_post, setPc_now, setFr_note, setFr_rcd, setFr_sem, setFr_semUser, setFr_pc, setFr_fr, setFr_post, setFr_now, setPost_note, setPost_rcd, setPost_sem, setPost_semUser, setPost_pc, setPost_fr, setPost_post, setPost_now, kill_note, kill_rcd, kill_sem, kill_semUser, kill_pc, kill_fr, kill_post, kill_now, unbind_note, unbind_rcd, unbind_sem, unbind_semUser, unbind_pc, unbind_fr, unbind_post, unbind_now] at $h:ident)

/-- one goal per accepting branch of the step function, projections of the new state rewritten -/
macro "eff_cases" he:ident : tactic =>
  `(tactic| (cases $he:ident <;> (try proj_simp)))

end SemWait
