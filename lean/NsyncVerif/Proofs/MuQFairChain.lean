import NsyncVerif.Proofs.MuQFairStep
/-
  MuQ, fair termination (C02): the ranks of the forced chains.

  Each lemma says: an own step of a thread in a certain class of program points either leaves the
  class in a way the caller can exclude (its stage drops, the word changes, the spinlock is given
  up), or stays in the class and decreases a rank that depends on the thread's program point and on
  the (by then constant) word only.
-/
namespace NsyncVerif.MuQ

/-! ### queued for good: mu_release_spinlock and the wait loop with `waiting` still set -/

def postSL : PC → Option SL
  | .lsRelLd c | .lsRelCas c _ | .lsWaitLd c | .lsPEnter c | .lsPRet c => some c
  | _ => none

/-- Thread `t` has queued itself and its `waiting` flag is (still) set. -/
def Post2 (s : State) (t : Tid) : Prop :=
  ∃ c k, postSL (s.pc t) = some c ∧ c.w = some k ∧ (s.wr k).waiting = true

theorem post2_own {cfg : Cfg} {s s' : State} {t : Tid} {b : Bool} (h : Own cfg s t b s')
    (hp2 : Post2 s t) : Post2 s' t := by
  obtain ⟨c, k, hc, hw, hwt⟩ := hp2
  cases h
  case lsRelLd c' hp =>
    simp [hp, postSL] at hc; subst hc
    exact ⟨c', k, by simp [postSL], hw, hwt⟩
  case lsRelCasOk c' old hp hwd =>
    simp [hp, postSL] at hc; subst hc
    exact ⟨c', k, by simp [postSL], hw, hwt⟩
  case lsRelCasFail c' old hp hwd =>
    simp [hp, postSL] at hc; subst hc
    exact ⟨c', k, by simp [postSL], hw, hwt⟩
  case lsWaitLdT c' k' hp hw' hwt' =>
    simp [hp, postSL] at hc; subst hc
    exact ⟨c', k, by simp [postSL], hw, hwt⟩
  case lsWaitLdF c' k' hp hw' hwt' =>
    simp [hp, postSL] at hc; subst hc
    rw [hw] at hw'; cases hw'
    rw [hwt] at hwt'; cases hwt'
  case pEnter c' hp =>
    simp [hp, postSL] at hc; subst hc
    exact ⟨c', k, by simp [postSL], hw, hwt⟩
  case pRet c' k' hp hw' hs =>
    simp [hp, postSL] at hc; subst hc
    rw [hw] at hw'; cases hw'
    exact ⟨c', k, by simp [postSL], hw, by simp [hwt]⟩
  all_goals (simp_all [postSL]; done)

theorem lsSt_own {cfg : Cfg} {s s' : State} {t : Tid} {b : Bool} {c : SL} (h : Own cfg s t b s')
    (hp : s.pc t = .lsSt c) : Post2 s' t := by
  cases h
  case lsStAdopt c' k hp' hw => exact ⟨{ c' with w := some k }, k, by simp [postSL], rfl, by simp⟩
  case lsStRequeue c' k hp' hw => exact ⟨c', k, by simp [postSL], hw, by simp⟩
  all_goals (simp_all; done)

/-! ### the owner of the spinlock, with a word that no longer changes -/

def spinRank (W : Word) : PC → Nat
  | .lsRelLd _ => 2
  | .lsRelCas _ old => if W = old then 1 else 3
  | .usRcLd _ sc _ => scanRank sc + 6
  | .usRcCas _ sc _ _ => scanRank sc + 5
  | .usFinLd _ f => 2 * f.wake.length + 3
  | .usFinCas _ f old => 2 * f.wake.length + (if W = old then 2 else 4)
  | _ => 0

theorem spinRank_scanAdvance (W : Word) (s : State) (t : Tid) (l : Mode) (sc : Scan) :
    spinRank W ((scanAdvance s t l sc).pc t) + 1 ≤ scanRank sc + 5 := by
  obtain ⟨h1, h2⟩ := scanGo_rank (fun k => (s.wr k).lType) sc.todo sc
  simp only [scanAdvance]
  split
  · rename_i k sc' heq
    obtain ⟨a, b⟩ := h1 k sc' heq
    simp only [setPc, setFn_same, spinRank, scanRank]
    omega
  · rename_i sc' heq
    have := h2 sc' heq
    simp only [setPc, setFn_same, spinRank, mkFin, scanRank]
    omega

theorem spin_own {cfg : Cfg} {s s' : State} {t : Tid} {b : Bool} (h : Own cfg s t b s')
    (hb : b = false) (hsp : (role (s.pc t)).spin = true) (hst : ∀ c, s.pc t ≠ .lsSt c)
    (hw : s'.word = s.word) (hs : s'.sp ≠ none) :
    spinRank s.word (s'.pc t) < spinRank s.word (s.pc t) := by
  cases h
  case lsRelLd c hp => simp [hp, spinRank]
  case lsRelCasOk c old hp hwd => exact absurd rfl hs
  case lsRelCasFail c old hp hwd => simp [hp, spinRank, hwd]
  case usRcLd l sc k obs hp => simp [hp, spinRank]
  case usRcCasOk l sc k old hp =>
    have := spinRank_scanAdvance s.word s t l sc
    have e : spinRank s.word (.usRcCas l sc k old) = scanRank sc + 5 := rfl
    rw [hp, e]; omega
  case usRcCasFail l sc k old hp => cases hb
  case usFinLd l f hp => simp [hp, spinRank]
  case usFinCasOk l f old hp hwd => exact absurd (by simp) hs
  case usFinCasFail l f old hp hwd => simp [hp, spinRank, hwd]
  case lsStAdopt c k hp hwn => exact absurd hp (hst c)
  case lsStRequeue c k hp hwn => exact absurd hp (hst c)
  all_goals (simp_all [role, Role.spin]; done)

/-! ### a thread that owns a share, spinlock free, word constant -/

def rank2 (W : Word) : PC → Nat
  | .lkRet _ | .tryRet _ _ => 7
  | .idle => 6
  | .ulCas0 _ => 5
  | .ulLd _ => 4
  | .ulCas1 _ old | .usCasUnc _ old | .usCasGrab _ old => if W = old then 1 else 3
  | .usLd _ => 2
  | _ => 0

theorem stage2_own {cfg : Cfg} {s s' : State} {t : Tid} {b : Bool} (h : Own cfg s t b s')
    (h2 : stage s t = 2) (h2' : stage s' t = 2) (hw : s'.word = s.word) (hspin : s.word.spin = false) :
    rank2 s.word (s'.pc t) < rank2 s.word (s.pc t) := by
  cases h
  case callAcq l hp hh => simp [stage, hp, hh] at h2
  case callTry l hp hh => simp [stage, hp, hh] at h2
  case callRel l hp hh => simp [hp, rank2]
  case retAcq l hp => simp [hp, rank2]
  case retTryT l hp => simp [hp, rank2]
  case retTryF l hp => simp [stage, hp] at h2
  case ulLdSlow l hp => simp [hp, rank2]
  case ulLdFast l hp => simp [hp, rank2]
  case usLdUnc l hp hu => simp [hp, rank2]
  case usLdGrab l hp hu hs => simp [hp, rank2]
  case usLdSpin l hp hu hs => rw [hspin] at hs; cases hs
  case ulCas0Ok l hp hwd => simp [stage] at h2'
  case ulCas0Fail l hp hwd => simp [hp, rank2]
  case ulCas1Ok l old hp hwd => simp [stage] at h2'
  case ulCas1Fail l old hp hwd => simp [hp, rank2, hwd]
  case usCasUncOk l old hp hwd => simp [stage] at h2'
  case usCasUncFail l old hp hwd => simp [hp, rank2, hwd]
  case usCasGrabOk l old hp hwd => rw [stage_scanAdvance] at h2'; cases h2'
  case usCasGrabFail l old hp hwd => simp [hp, rank2, hwd]
  all_goals (simp_all [stage]; done)

/-! ### a contender that has not queued itself, spinlock free, word constant -/

def preRank (W : Word) : PC → Nat
  | .lkCas0 _ => 7
  | .lkLd _ => 6
  | .lkCas1 _ old => if W = old then 1 else 5
  | .tryCas0 _ => 3
  | .tryLd _ => 2
  | .tryCas1 _ _ => 1
  | .lsLd _ => 3
  | .lsCasAcq _ old | .lsCasEnq _ old => if W = old then 1 else 4
  | _ => 0

theorem pre_own {cfg : Cfg} {s s' : State} {t : Tid} {b : Bool} (h : Own cfg s t b s')
    (hpre : 0 < preRank s.word (s.pc t)) (hk : PcOk s) (h3 : stage s' t = 3) (hw : s'.word = s.word)
    (hspin : s.word.spin = false) :
    0 < preRank s.word (s'.pc t) ∧ preRank s.word (s'.pc t) < preRank s.word (s.pc t) := by
  cases h
  case lkLdB l hp hb => simp [hp, preRank]
  case lkLdF l hp hb => simp [hp, preRank]
  case tryLdB l hp hb => simp [stage] at h3
  case tryLdF l hp hb => simp [hp, preRank]
  case lsLdAcq c hp hb => simp [hp, preRank]
  case lsLdEnq c hp hb hs => simp [hp, preRank]
  case lsLdSpin c hp hb hs => rw [hspin] at hs; cases hs
  case lkCas0Ok l hp hwd => simp [stage] at h3
  case lkCas0Fail l hp hwd => simp [hp, preRank]
  case lkCas1Ok l old hp hwd => simp [stage] at h3
  case lkCas1Fail l old hp hwd => simp [hp, preRank, hwd]
  case tryCas0Ok l hp hwd => simp [stage] at h3
  case tryCas0Fail l hp hwd => simp [hp, preRank]
  case tryCas1Ok l old hp hwd => simp [stage] at h3
  case tryCas1Fail l old hp hwd => simp [stage] at h3
  case lsCasAcqOk c old hp hwd => simp [stage] at h3
  case lsCasAcqFail c old hp hwd => simp [hp, preRank, hwd]
  case lsCasEnqOk c old hp hwd =>
    exfalso
    have hok := hk t; rw [hp] at hok
    have hsp : old.spin = false := hok.2.2.2
    have : enqWord c.l c.clear c.lwl old = old := by rw [← hwd] at hw ⊢; exact hw
    exact enqWord_ne hsp this
  case lsCasEnqFail c old hp hwd => simp [hp, preRank, hwd]
  all_goals (simp_all [preRank]; done)

/-! ### a thread in its wait loop whose `waiting` flag has been cleared -/

def loopSL : PC → Option SL
  | .lsWaitLd c | .lsPEnter c | .lsPRet c => some c
  | _ => none

def loopRank : PC → Nat
  | .lsPEnter _ => 3
  | .lsPRet _ => 2
  | .lsWaitLd _ => 1
  | _ => 0

/-- In the wait loop with `waiting = 0`: the thread has been woken and has not noticed yet. -/
def LoopF (s : State) (t : Tid) : Prop :=
  ∃ c k, loopSL (s.pc t) = some c ∧ c.w = some k ∧ (s.wr k).waiting = false

theorem loopF_own {cfg : Cfg} {s s' : State} {t : Tid} {b : Bool} (h : Own cfg s t b s')
    (hl : LoopF s t) :
    (∃ c, s'.pc t = .lsLd c) ∨ (LoopF s' t ∧ loopRank (s'.pc t) < loopRank (s.pc t)) := by
  obtain ⟨c, k, hc, hw, hwt⟩ := hl
  cases h
  case lsWaitLdT c' k' hp hw' hwt' =>
    simp [hp, loopSL] at hc; subst hc
    rw [hw] at hw'; cases hw'
    rw [hwt] at hwt'; cases hwt'
  case lsWaitLdF c' k' hp hw' hwt' => exact Or.inl ⟨c'.woken, by simp⟩
  case pEnter c' hp =>
    simp [hp, loopSL] at hc; subst hc
    exact Or.inr ⟨⟨c', k, by simp [loopSL], hw, hwt⟩, by simp [hp, loopRank]⟩
  case pRet c' k' hp hw' hs =>
    simp [hp, loopSL] at hc; subst hc
    rw [hw] at hw'; cases hw'
    exact Or.inr ⟨⟨c', k, by simp [loopSL], hw, by simp [hwt]⟩, by simp [hp, loopRank]⟩
  all_goals (simp_all [loopSL]; done)

end NsyncVerif.MuQ
