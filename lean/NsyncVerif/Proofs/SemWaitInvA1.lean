/-
  Proofs/SemWaitInvA1.lean — preservation of the frame / record / semaphore invariant `InvA` by the effects of a
  thread step (part 1).
-/
import NsyncVerif.Proofs.SemWaitTac

namespace SemWait
set_option maxHeartbeats 400000

theorem a_i1 {cfg : Config} {s s' : State} {t : Tid} (hi : InvA s) (he : Eff cfg s t s') :
    ∀ t r, (s'.fr t).nw = some r →
        (s'.rcd r).live = true ∧ (s'.rcd r).owner = t ∧ (s'.rcd r).note = (s'.fr t).note ∧ inCall (s'.pc t) = true := by
  have h1 := hi.i1
  eff_cases he <;> (try cases ‹Use›) <;> grind [inCall, preNw, hasNw, ndNext, nfNext]

theorem a_i2 {cfg : Config} {s s' : State} {t : Tid} (hi : InvA s) (he : Eff cfg s t s') :
    ∀ t, hasNw (s'.pc t) = true → (s'.fr t).nw ≠ none := by
  have h2 := hi.i2
  eff_cases he <;> (try cases ‹Use›) <;> grind [inCall, preNw, hasNw, ndNext, nfNext]

theorem a_i3 {cfg : Config} {s s' : State} {t : Tid} (hi : InvA s) (he : Eff cfg s t s') :
    ∀ t, preNw (s'.pc t) = true → (s'.fr t).nw = none := by
  have h3 := hi.i3
  eff_cases he <;> (try cases ‹Use›) <;> grind [inCall, preNw, hasNw, ndNext, nfNext]

end SemWait
