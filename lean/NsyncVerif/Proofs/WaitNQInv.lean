/-
  Proofs/WaitNQInv.lean — the queue invariant holds in every reachable state in which defect F3 has
  not struck (`s.f3 = false`).
-/
import NsyncVerif.Proofs.WaitNQStep8

set_option linter.unusedSimpArgs false
set_option linter.unusedVariables false

namespace WaitN

theorem f3_bindSem {s s' : State} {o : Tid} {j : SemId} (h : bindSem s o j = some s') : s'.f3 = s.f3 := by
  unfold bindSem at h; split_ok h; all_goals (cases h; try rfl)
theorem f3_postSem {s s' : State} {r : Rid} {j : SemId} (h : postSem s r j = some s') : s'.f3 = s.f3 := by
  unfold postSem at h; split at h
  · exact f3_bindSem h
  · cases h; rfl
theorem f3_unbindSem (s : State) (t : Tid) : (unbindSem s t).f3 = s.f3 := by
  unfold unbindSem; split <;> rfl
theorem f3_dflt {s s' : State} {t : Tid} {e : Ev} (h : dflt s t e = .ok s') : s'.f3 = s.f3 := by
  unfold dflt at h; split_ok h; all_goals (cases h; try rfl)
theorem f3_rtDone {s s' : State} {t : Tid} {u : Use} {i : Nat} {time : Deadline} (h : rtDone s t u i time = .ok s') :
    s'.f3 = s.f3 := by
  unfold rtDone at h; split_ok h; all_goals (cases h; try rfl)
theorem f3_deqDone {s s' : State} {t : Tid} {j : Nat} {res : Bool} (h : deqDone s t j res = .ok s') : s'.f3 = s.f3 := by
  unfold deqDone at h; dsimp only at h; split at h
  · cases h; rfl
  · cases h; exact f3_unbindSem _ _
theorem f3_afterEnq {s s' : State} {t : Tid} {i : Nat} {res : Bool} (h : afterEnq s t i res = .ok s') : s'.f3 = s.f3 := by
  unfold afterEnq at h; cases h; rfl
theorem f3_spinAcq {s s' : State} {t : Tid} {c : Nat} {st : SpinSt} {mk : SpinSt → PC} {done : PC} {e : Ev}
    (h : spinAcq s t c st mk done e = .ok s') : s'.f3 = s.f3 := by
  unfold spinAcq at h; split_ok h
  all_goals first | exact f3_dflt h | (cases h; rfl)

macro "f3_leaf" h:ident : tactic =>
  `(tactic| first
    | exact f3_dflt $h
    | exact f3_rtDone $h
    | exact f3_deqDone $h
    | exact f3_afterEnq $h
    | exact f3_spinAcq $h
    | (cases $h:ident; first
        | rfl
        | (simp only [setPc_f3, setPost_f3, setSem_f3, setMc_f3, setObj_f3, setRec_f3, setFr_f3, kill_f3, ownerRemove_f3]
           first | exact f3_postSem ‹postSem _ _ _ = some _› | exact f3_bindSem ‹bindSem _ _ _ = some _›)
        | (unfold startScan; rfl)))

theorem f3_proto {s s' : State} {t : Tid} {e : Ev} (h : proto s t e = .ok s') : s'.f3 = s.f3 := by
  unfold proto at h; split_ok h <;> f3_leaf h
theorem f3_stepOpen {s s' : State} {t : Tid} {e : Ev} (h : stepOpen s t e = .ok s') : s'.f3 = s.f3 := by
  unfold stepOpen at h; split_ok h <;> first | exact f3_proto h | f3_leaf h

/-- the flag only ever goes from false to true -/
theorem f3_mono {s s' : State} {t : Tid} {e : Ev} (h : stepThr s t e = .ok s') (hf : s'.f3 = false) : s.f3 = false := by
  have key : s'.f3 = s.f3 ∨ s.f3 = false := by
    unfold stepThr at h
    split at h
    · unfold stepIdle at h; split_ok h <;> first | exact .inl (f3_stepOpen h) | exact .inl (by f3_leaf h)
    · simp at h
    · unfold stepSg at h; split_ok h <;> exact .inl (by f3_leaf h)
    · unfold stepCtrRT at h; split_ok h <;> first | exact .inl (by f3_leaf h) | (left; have := f3_rtDone h; simpa using this)
    · unfold stepND at h; split_ok h <;> first | exact .inl (f3_stepOpen h) | exact .inl (by f3_leaf h)
    · unfold stepEnqCv at h; split_ok h <;> first | exact .inl (by f3_leaf h) | (left; have := f3_afterEnq h; simpa using this)
    · unfold stepEnq at h; split_ok h <;> exact .inl (by f3_leaf h)
    · unfold stepDeqCv at h; split_ok h
      all_goals first
        | exact .inl (by f3_leaf h)
        | (left; have := f3_deqDone h; simpa using this)
        | (cases h; simp only [setPc_f3] at hf ⊢; right; simp only [Bool.or_eq_false_iff] at hf; exact hf.1)
    · unfold stepDeq at h; split_ok h <;> exact .inl (by f3_leaf h)
    · unfold stepAlloc at h; split_ok h <;> exact .inl (by f3_leaf h)
    · unfold stepInit at h; split_ok h <;> exact .inl (by f3_leaf h)
    · unfold stepUnlockMu at h; split_ok h <;> exact .inl (by f3_leaf h)
    · unfold stepCvRT at h; split_ok h <;> exact .inl (by f3_leaf h)
    · unfold stepPdEnter at h; split_ok h <;> exact .inl (by f3_leaf h)
    · unfold stepPdWait at h; split_ok h <;> exact .inl (by f3_leaf h)
    · unfold stepFree at h; split_ok h <;> exact .inl (by f3_leaf h)
    · unfold stepRelock at h; split_ok h <;> exact .inl (by f3_leaf h)
    · unfold stepRet at h; split_ok h <;> exact .inl (by f3_leaf h)
  rcases key with k | k
  · rw [← k]; exact hf
  · exact k

theorem qi_init_state : QI init := by
  constructor
  · intro o r hr; simp [init, Obj.init] at hr
  · intro o; simp [init, Obj.init]
  · intro r h; simp [init] at h
  · intro u c l h; simp [init, wk] at h
  · intro u u' c l c' l' _ h; simp [init, wk] at h
  · intro u r h; simp [init] at h
  · intro u h; simp [init] at h
  · intro o _ _ h; simp [init, Obj.init] at h
  · intro n _; simp [init, Obj.init]
  · intro o _; simp [init, Obj.init]
  · intro c; simp [init, Obj.init, ObjId.isCv]
  · intro u h; simp [init] at h

theorem cf_init_state (t : Tid) : CF init t := cf_notInCall (by simp [init, inCall])

/-- own step: dispatch over the program counter -/
theorem qcf_stepThr {s s' : State} {t : Tid} {e : Ev} (c : QCtx s t) (hnodup : RecsNodup s) (hf3 : s'.f3 = false)
    (h : stepThr s t e = .ok s') : QI s' ∧ CF s' t := by
  unfold stepThr at h
  split at h <;> rename_i hpc
  · exact qcf_stepIdle c hpc h
  · simp at h
  · exact qcf_stepSg c hpc h
  · exact qcf_stepCtrRT c hpc h
  · exact qcf_stepND c hpc h
  · exact qcf_stepEnqCv c hpc h
  · exact qcf_stepEnq c hpc h
  · exact qcf_stepDeqCv c hnodup hf3 hpc h
  · exact qcf_stepDeq c hnodup hpc h
  · exact qcf_stepAlloc c hpc h
  · exact qcf_stepInit c hpc h
  · exact qcf_stepUnlockMu c hpc h
  · exact qcf_stepCvRT c hpc h
  · exact qcf_stepPdEnter c hpc h
  · exact qcf_stepPdWait c hpc h
  · exact qcf_stepFree c hpc h
  · exact qcf_stepRelock c hpc h
  · exact qcf_stepRet c hpc h

/-- in every reachable state in which no cv_dequeue has hit the window of defect F3, every waiter record
    is accounted for -/
theorem qinv_of_reachable {s : State} (h : Reachable s) : s.f3 = false → QInv s := by
  refine reachable_induction (P := fun s => s.f3 = false → QInv s) ?_ ?_ h
  · intro _; exact ⟨qi_init_state, cf_init_state⟩
  · intro s s' e hr ih hs hf3
    cases e with
    | tick ns =>
      simp only [step] at hs
      split at hs
      · cases hs
        have q := ih hf3
        exact ⟨qi_transfer q.qi rfl rfl rfl (fun _ => rfl) q.qi.q6 q.qi.q11,
               fun t => cf_congr (q.cf t) rfl (frSame_refl _) rfl rfl⟩
      · simp at hs
    | thr u ev =>
      simp only [step] at hs
      have q := ih (f3_mono hs hf3)
      have hown := own_of_reachable hr
      have hkn := known_of_reachable hr
      have hl := linv_of_reachable hr
      have hown' := qcf_stepThr ⟨hown, hkn, hl, q.qi, q.cf u⟩ (recsNodup_of_reachable hr) hf3 hs
      refine ⟨hown'.1, fun t => ?_⟩
      by_cases ht : t = u
      · subst ht; exact hown'.2
      · exact cf_other ht hown hkn hl (q.cf t) hs

end WaitN
