/-
  Proofs/WaitNQInv.lean — the queue invariant holds in every reachable state.
-/
import NsyncVerif.Proofs.WaitNQStep8

set_option linter.unusedSimpArgs false
set_option linter.unusedVariables false

namespace WaitN

theorem qi_init_state : QI init := by
  constructor
  · intro o r hr; simp [init, Obj.init] at hr
  · intro o; simp [init, Obj.init]
  · intro r h; simp [init] at h
  · intro u c l h; simp [init, wk] at h
  · intro u u' c l c' l' _ h; simp [init, wk] at h
  · intro u r h; simp [init] at h
  · intro u h; simp [init] at h
  · intro o _ _ h; simp [init, Obj.init] at h
  · intro n _; simp [init, Obj.init]
  · intro o _; simp [init, Obj.init]
  · intro c; simp [init, Obj.init, ObjId.isCv]
  · intro u h; simp [init] at h

theorem cf_init_state (t : Tid) : CF init t := cf_notInCall (by simp [init, inCall])

/-- own step: dispatch over the program counter -/
theorem qcf_stepThr {s s' : State} {t : Tid} {e : Ev} (c : QCtx s t) (hnodup : RecsNodup s)
    (h : stepThr s t e = .ok s') : QI s' ∧ CF s' t := by
  unfold stepThr at h
  split at h <;> rename_i hpc
  · exact qcf_stepIdle c hpc h
  · simp at h
  · exact qcf_stepSg c hpc h
  · exact qcf_stepCtrRT c hpc h
  · exact qcf_stepND c hpc h
  · exact qcf_stepEnqCv c hpc h
  · exact qcf_stepEnq c hpc h
  · exact qcf_stepDeqCv c hnodup hpc h
  · exact qcf_stepDeq c hnodup hpc h
  · exact qcf_stepAlloc c hpc h
  · exact qcf_stepInit c hpc h
  · exact qcf_stepUnlockMu c hpc h
  · exact qcf_stepCvRT c hpc h
  · exact qcf_stepPdEnter c hpc h
  · exact qcf_stepPdWait c hpc h
  · exact qcf_stepFree c hpc h
  · exact qcf_stepRelock c hpc h
  · exact qcf_stepRet c hpc h

/-- in every reachable state every waiter record is accounted for -/
theorem qinv_of_reachable {s : State} (h : Reachable s) : QInv s := by
  refine reachable_induction (P := QInv) ?_ ?_ h
  · exact ⟨qi_init_state, cf_init_state⟩
  · intro s s' e hr q hs
    cases e with
    | tick ns =>
      simp only [step] at hs
      split at hs
      · cases hs
        exact ⟨qi_transfer q.qi rfl rfl rfl (fun _ => rfl) q.qi.q6 q.qi.q11,
               fun t => cf_congr (q.cf t) rfl (frSame_refl _) rfl rfl⟩
      · simp at hs
    | thr u ev =>
      simp only [step] at hs
      have hown := own_of_reachable hr
      have hkn := known_of_reachable hr
      have hl := linv_of_reachable hr
      have hown' := qcf_stepThr ⟨hown, hkn, hl, q.qi, q.cf u⟩ (recsNodup_of_reachable hr) hs
      refine ⟨hown'.1, fun t => ?_⟩
      by_cases ht : t = u
      · subst ht; exact hown'.2
      · exact cf_other ht hown hkn hl (q.cf t) hs

end WaitN
