import NsyncVerif.Proofs.MuCChain
/-
  MuC: the ring invariant is preserved by the two operations that touch rings — appending one list
  to another with nsync_maybe_merge_conditions_ at the junction (enqueue at either end, mu.c:403),
  and nsync_remove_from_mu_queue_.
-/
namespace NsyncVerif.MuC

/-- WAIT_CONDITION_EQ is sound on all records. -/
def CeSound (wr : Wid → WRec) : Prop :=
  ∀ a b, condEq (wr a).cond (wr b).cond = true → SameSem (wr a).cond (wr b).cond

theorem getLast?_append_cons (l1 : List Wid) (k : Wid) (l2 : List Wid) :
    (l1 ++ k :: l2).getLast? = (k :: l2).getLast? := by
  rw [List.getLast?_append]
  cases h : (k :: l2).getLast? with
  | none => simp at h
  | some x => simp

theorem chain_append_merge {s : State} {l1 l2 : List Wid} (hnd : (l1 ++ l2).Nodup) (h1 : Chain s.wr l1) (h2 : Chain s.wr l2)
    (hce : CeSound s.wr) : Chain (mergeLinks s l1.getLast? l2.head?).wr (l1 ++ l2) := by
  rw [chain_iff] at h1 h2 ⊢
  have hnd1 : l1.Nodup := (List.nodup_append.mp hnd).1
  have hdisj : ∀ a, a ∈ l1 → ∀ b, b ∈ l2 → a ≠ b := (List.nodup_append.mp hnd).2.2
  have hcond : ∀ x, ((mergeLinks s l1.getLast? l2.head?).wr x).cond = (s.wr x).cond := mergeLinks_cond s l1.getLast? l2.head?
  refine ⟨(links_append l1 l2).2 ⟨?_, ?_, ?_⟩, ?_⟩
  · refine links_congr (fun x _ => hcond x) (fun x hx => ?_) h1.1
    rw [mergeLinks_wr_other]
    intro e
    exact mem_dropLast_ne_last hnd1 e hx rfl
  · refine links_congr_all (fun x _ => hcond x) (fun x hx => ?_) h2.1
    rw [mergeLinks_wr_other]
    intro e
    exact hdisj x (List.mem_of_getLast? e) x hx rfl
  · intro a b ha hb hlnk
    rw [ha] at hlnk
    rw [hcond, hcond]
    rcases mergeLinks_lnk_self s a _ hlnk with e | ⟨b', hb', e⟩
    · have := h1.2 a ha; rw [this] at e; cases e
    · rw [hb] at hb'; cases hb'; exact hce a b e
  · intro q hq
    rw [List.getLast?_append] at hq
    cases h : l2.getLast? with
    | none =>
      have hl2 : l2 = [] := List.getLast?_eq_none_iff.mp h
      rw [h] at hq
      simp only [Option.none_or] at hq
      subst hl2
      have : mergeLinks s l1.getLast? ([] : List Wid).head? = s := by
        unfold mergeLinks; split <;> simp_all
      rw [this]; exact h1.2 q hq
    | some q' =>
      rw [h] at hq
      simp only [Option.some_or, Option.some.injEq] at hq
      subst hq
      rw [mergeLinks_wr_other]
      · exact h2.2 q' h
      · intro e
        exact hdisj q' (List.mem_of_getLast? e) q' (List.mem_of_getLast? h) rfl

theorem chain_remove {s : State} {l1 l2 : List Wid} {k : Wid} (hnd : (l1 ++ k :: l2).Nodup) (hc : Chain s.wr (l1 ++ k :: l2))
    (hce : CeSound s.wr) :
    Chain (removeLinks s l1.getLast? k l2.head?).wr (l1 ++ l2) ∧ ((removeLinks s l1.getLast? k l2.head?).wr k).lnk = false := by
  rw [chain_iff] at hc
  obtain ⟨hL, hoff⟩ := hc
  rw [links_append] at hL
  obtain ⟨hL1, hLk, hJ1⟩ := hL
  rw [links_cons] at hLk
  obtain ⟨hJ2, hL2⟩ := hLk
  simp only [List.head?_cons] at hJ1
  have hnd' := List.nodup_append.mp hnd
  have hnd1 : l1.Nodup := hnd'.1
  have hk1 : k ∉ l1 := fun e => hnd'.2.2 k e k (by simp) rfl
  have hk2 : k ∉ l2 := (List.nodup_cons.mp hnd'.2.1).1
  have hnd2 : l2.Nodup := (List.nodup_cons.mp hnd'.2.1).2
  have hdisj : ∀ a, a ∈ l1 → ∀ b, b ∈ l2 → a ≠ b := fun a ha b hb => hnd'.2.2 a ha b (List.mem_cons_of_mem _ hb)
  have hcond : ∀ p' x, ((removeLinks s p' k l2.head?).wr x).cond = (s.wr x).cond := fun p' x => removeLinks_cond s p' k _ x
  -- `lnk` of `k` when it is the last record
  have hklast : l2 = [] → (s.wr k).lnk = false := by
    intro e; subst e
    exact hoff k (by rw [getLast?_append_cons]; rfl)
  have hl2off : l2 ≠ [] → LastOff s.wr l2 := by
    intro hne q hq
    apply hoff q
    rw [getLast?_append_cons]
    cases l2 with
    | nil => exact absurd rfl hne
    | cons b r => rw [List.getLast?_cons_cons]; exact hq
  rw [chain_iff]
  cases hp : l1.getLast? with
  | none =>
    have hl1 : l1 = [] := List.getLast?_eq_none_iff.mp hp
    subst hl1
    simp only [List.nil_append]
    have hwr : ∀ x, x ≠ k → (removeLinks s none k l2.head?).wr x = s.wr x :=
      fun x hx => removeLinks_wr_other s none k _ x hx (by simp)
    refine ⟨⟨links_congr_all (fun x _ => hcond _ x) (fun x hx => by rw [hwr x (fun e => hk2 (e ▸ hx))]) hL2, ?_⟩, ?_⟩
    · intro q hq
      have hqm := List.mem_of_getLast? hq
      rw [hwr q (fun e => hk2 (e ▸ hqm))]
      exact hl2off (List.ne_nil_of_mem hqm) q hq
    · simp only [removeLinks]
      split
      · exact setLnk_wr_self _ _ _
      · rename_i h; simpa using h
  | some p =>
    have hpm : p ∈ l1 := List.mem_of_getLast? hp
    have hpk : p ≠ k := fun e => hk1 (e ▸ hpm)
    have hwr : ∀ x, x ≠ k → x ≠ p → (removeLinks s (some p) k l2.head?).wr x = s.wr x :=
      fun x hx hxp => removeLinks_wr_other s (some p) k _ x hx (fun e => hxp (by cases e; rfl))
    have hJp := hJ1 p k hp rfl
    -- the new `lnk` of p and k
    have hnew : ((removeLinks s (some p) k l2.head?).wr k).lnk = false ∧
        (((removeLinks s (some p) k l2.head?).wr p).lnk = true →
          ((s.wr p).lnk = true ∧ (s.wr k).lnk = true) ∨
          ((s.wr p).lnk = false ∧ (s.wr k).lnk = false ∧ ∃ n, l2.head? = some n ∧ condEq (s.wr p).cond (s.wr n).cond = true)) := by
      simp only [removeLinks]
      split
      · rename_i hor
        refine ⟨setLnk_wr_self _ _ _, ?_⟩
        rw [setLnk_wr_other _ _ _ _ hpk]
        split
        · rename_i hpl
          rw [setLnk_wr_self]
          intro hkl; exact Or.inl ⟨hpl, hkl⟩
        · rename_i hpl
          intro e; exact absurd e hpl
      · rename_i hor
        simp only [Bool.or_eq_true, not_or, Bool.not_eq_true] at hor
        cases hn : l2.head? with
        | none => exact ⟨hor.2, fun e => by rw [hor.1] at e; cases e⟩
        | some n =>
          dsimp only
          refine ⟨by rw [mergeLinks_wr_other _ _ _ _ (fun e => hpk (by cases e; rfl))]; exact hor.2, ?_⟩
          intro e
          rcases mergeLinks_lnk_self s p _ e with e' | ⟨b, hb, e'⟩
          · rw [hor.1] at e'; cases e'
          · cases hb; exact Or.inr ⟨hor.1, hor.2, n, rfl, e'⟩
    refine ⟨⟨(links_append l1 l2).2 ⟨?_, ?_, ?_⟩, ?_⟩, hnew.1⟩
    · exact links_congr (fun x _ => hcond _ x) (fun x hx => by
        have hx1 := mem_of_mem_dropLast hx
        rw [hwr x (fun e => hk1 (e ▸ hx1)) (mem_dropLast_ne_last hnd1 hp hx)]) hL1
    · refine links_congr_all (fun x _ => hcond _ x) (fun x hx => ?_) hL2
      rw [hwr x (fun e => hk2 (e ▸ hx)) (fun e => hdisj p hpm x hx e.symm)]
    · intro a b ha hb hlnk
      rw [hp] at ha; cases ha
      rw [hcond, hcond]
      rcases hnew.2 hlnk with ⟨e1, e2⟩ | ⟨_, _, n, hn, e⟩
      · exact (hJp e1).trans (hJ2 k b rfl hb e2)
      · rw [hb] at hn; cases hn; exact hce p _ e
    · intro q hq
      rw [List.getLast?_append] at hq
      cases h : l2.getLast? with
      | none =>
        have hl2 : l2 = [] := List.getLast?_eq_none_iff.mp h
        rw [h] at hq
        simp only [Option.none_or] at hq
        rw [hp] at hq; cases hq
        cases hlk : ((removeLinks s (some p) k l2.head?).wr p).lnk with
        | false => rfl
        | true =>
          rcases hnew.2 hlk with ⟨_, e2⟩ | ⟨_, _, n, hn, _⟩
          · rw [hklast hl2] at e2; cases e2
          · rw [hl2] at hn; cases hn
      | some q' =>
        rw [h] at hq
        simp only [Option.some_or, Option.some.injEq] at hq
        subst hq
        have hqm := List.mem_of_getLast? h
        rw [hwr q' (fun e => hk2 (e ▸ hqm)) (fun e => hdisj p hpm q' hqm e.symm)]
        exact hl2off (List.ne_nil_of_mem hqm) q' h

end NsyncVerif.MuC
