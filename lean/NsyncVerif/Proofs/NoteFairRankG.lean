/-
  Layer `Note`, fair termination: the rank of a thread for calls that work on children — the loop
  over a children list (position in the list, stable while the mutex is held), the recursive
  activations of `note_notify_child`, and two global potentials: the number of notes whose flag is
  not yet set (every recursive activation that scans a list has stored a flag) and the number of
  `children_adopted` marks (every rescan clears one; marks are set by adoptions only).
-/
import NsyncVerif.Proofs.NoteFairGen

set_option linter.unusedSimpArgs false

namespace Note

/-! ### position in a children list -/

/-- Number of elements of the list from `c` (inclusive) on; 0 for `none`. -/
def sufLen (l : List NoteId) : Option NoteId → Nat
  | none => 0
  | some c => (l.dropWhile (fun x => x != c)).length

theorem sufLen_le (l : List NoteId) (nx : Option NoteId) : sufLen l nx ≤ l.length := by
  cases nx with
  | none => exact Nat.zero_le _
  | some c =>
    unfold sufLen
    induction l with
    | nil => simp
    | cons x xs ih =>
      simp only [List.dropWhile_cons]
      split
      · exact Nat.le_trans ih (by simp)
      · exact Nat.le_refl _

theorem nextAfter_mem {l : List NoteId} {c d : NoteId} (h : nextAfter l c = some d) : d ∈ l := by
  induction l with
  | nil => cases h
  | cons x xs ih =>
    simp only [nextAfter] at h
    split at h
    · cases xs with
      | nil => cases h
      | cons y ys => simp at h; simp [h]
    · exact List.mem_cons_of_mem _ (ih h)

theorem sufLen_next {l : List NoteId} {c : NoteId} (hn : l.Nodup) (hc : c ∈ l) :
    sufLen l (nextAfter l c) + 1 = sufLen l (some c) := by
  induction l with
  | nil => cases hc
  | cons x xs ih =>
    have hx : x ∉ xs := (List.nodup_cons.mp hn).1
    have hn' : xs.Nodup := (List.nodup_cons.mp hn).2
    by_cases hxc : x = c
    · subst hxc
      simp only [nextAfter, if_true]
      cases xs with
      | nil => simp [sufLen]
      | cons d ys =>
        have hd : x ≠ d := fun e => hx (by simp [e])
        simp [sufLen, List.dropWhile_cons, hd]
    · have hc' : c ∈ xs := by
        rcases List.mem_cons.mp hc with h | h
        · exact absurd h.symm hxc
        · exact h
      simp only [nextAfter, hxc, if_false]
      have e1 : sufLen (x :: xs) (some c) = sufLen xs (some c) := by
        simp [sufLen, List.dropWhile_cons, hxc]
      rw [e1, ← ih hn' hc']
      cases hnx : nextAfter xs c with
      | none => rfl
      | some d =>
        have hd : x ≠ d := fun e => hx (e ▸ nextAfter_mem hnx)
        simp [sufLen, List.dropWhile_cons, hd]

theorem sufLen_head {c : NoteId} {cs : List NoteId} (hn : (c :: cs).Nodup) :
    sufLen (c :: cs) cs.head? = cs.length := by
  have := sufLen_next hn (List.mem_cons_self)
  simp only [nextAfter, if_true] at this
  have e : sufLen (c :: cs) (some c) = cs.length + 1 := by simp [sufLen, List.dropWhile_cons]
  omega

theorem sufLen_erase (l : List NoteId) (a : NoteId) (nx : Option NoteId) :
    sufLen (l.erase a) nx ≤ sufLen l nx := by
  cases nx with
  | none => exact Nat.le_refl _
  | some c =>
    induction l with
    | nil => simp
    | cons x xs ih =>
      by_cases hxa : x = a
      · subst hxa
        simp only [List.erase_cons_head]
        by_cases hxc : x = c
        · subst hxc
          have : sufLen (x :: xs) (some x) = xs.length + 1 := by simp [sufLen, List.dropWhile_cons]
          rw [this]; exact Nat.le_trans (sufLen_le xs _) (by omega)
        · have : sufLen (x :: xs) (some c) = sufLen xs (some c) := by
            simp [sufLen, List.dropWhile_cons, hxc]
          rw [this]; exact Nat.le_refl _
      · have hb : (x == a) = false := by simp [hxa]
        simp only [List.erase_cons, hb, Bool.false_eq_true, if_false]
        by_cases hxc : x = c
        · subst hxc
          simp only [sufLen, List.dropWhile_cons, bne_self_eq_false, Bool.false_eq_true, if_false,
            List.length_cons]
          have := List.length_erase_le (a := a) (l := xs)
          omega
        · have e1 : sufLen (x :: xs.erase a) (some c) = sufLen (xs.erase a) (some c) := by
            simp [sufLen, List.dropWhile_cons, hxc]
          have e2 : sufLen (x :: xs) (some c) = sufLen xs (some c) := by
            simp [sufLen, List.dropWhile_cons, hxc]
          rw [e1, e2]; exact ih

/-! ### the rank -/

def KK : Nat := 12

/-- The children lists of a state. -/
def State.ch (s : State) : NoteId → List NoteId := fun k => (s.notes k).children

/-- The enclosing activations: each is inside the recursive call for one child. -/
def outerW (ch : NoteId → List NoteId) : List Frame → Nat
  | [] => 0
  | g :: rest => KK * (sufLen (ch g.note) g.next + 1) + 3 + outerW ch rest

/-- The innermost activation. -/
def headW (ch : NoteId → List NoteId) (f : Frame) : CPos → Nat
  | .ld => 5
  | .st => 4
  | .wake _ | .semV _ => KK * ((ch f.note).length + 1) + 3
  | .lockChild _ => KK * (sufLen (ch f.note) f.next + 1) + 10
  | .lockChildRet _ => KK * (sufLen (ch f.note) f.next + 1) + 9
  | .unlockChild _ => KK * (sufLen (ch f.note) f.next + 1) + 2
  | .unlockChildRet _ => KK * (sufLen (ch f.note) f.next + 1) + 1
  | .waitCall => 2
  | .waitRet _ => 1

def frW (ch : NoteId → List NoteId) (n : NoteId) (nx : Option NoteId) : FPos → Nat
  | .lockChild => KK * (sufLen (ch n) nx + 1) + 10
  | .lockChildRet => KK * (sufLen (ch n) nx + 1) + 9
  | .unlockChild => KK * (sufLen (ch n) nx + 1) + 2
  | .unlockChildRet => KK * (sufLen (ch n) nx + 1) + 1
  | .waitRet _ => 7
  | p => p.rk

/-- The work of the thread at its position, given the children lists. -/
def wGc (ch : NoteId → List NoteId) : PC → Nat
  | .chd p (f :: rest) top => top.k.after + 4 + headW ch f p + outerW ch rest
  | .fr p n _ _ nx => frW ch n nx p
  | pc => mj pc

def wG (s : State) (pc : PC) : Nat := wGc s.ch pc

theorem outerW_mono {ch' ch : NoteId → List NoteId}
    (h : ∀ k nx, sufLen (ch' k) nx ≤ sufLen (ch k) nx) : ∀ l, outerW ch' l ≤ outerW ch l := by
  intro l
  induction l with
  | nil => exact Nat.le_refl _
  | cons g rest ih =>
    simp only [outerW]
    have := h g.note g.next
    have hk : KK * (sufLen (ch' g.note) g.next + 1) ≤ KK * (sufLen (ch g.note) g.next + 1) :=
      Nat.mul_le_mul_left _ (by omega)
    omega

/-- `nsync_note_free` before its first scan of the children. -/
def phG : PC → Nat
  | .fr p _ _ _ _ =>
    (match p with
     | .lockCall | .lockRet | .tryCall | .tryRet | .sUnlockCall | .sUnlockRet | .sLockPCall
     | .sLockPRet | .sLockNCall | .sLockNRet => 1
     | _ => 0)
  | _ => 0

/-- The global potential: notes not yet notified + `children_adopted` marks (notes below `B`). -/
def PG (B : Nat) (s : State) : Nat :=
  ((List.range B).filter (fun k => (s.notes k).allocated && !(s.notes k).notified)).length +
  ((List.range B).filter (fun k => (s.notes k).adopted)).length

def rankG (B : Nat) (s : State) (t : Tid) : Nat × (Nat × (Nat × Nat)) :=
  (PG B s, (phG (s.pc t), (wG s (s.pc t), mn s (s.pc t))))

/-- Lexicographic product of two relations. -/
def Lex2 {α β : Type} (ra : α → α → Prop) (rb : β → β → Prop) (a b : α × β) : Prop :=
  ra a.1 b.1 ∨ (a.1 = b.1 ∧ rb a.2 b.2)

theorem lex2_wf {α β : Type} {ra : α → α → Prop} {rb : β → β → Prop} (ha : WellFounded ra)
    (hb : WellFounded rb) : WellFounded (Lex2 ra rb) := by
  have : ∀ a b, Acc (Lex2 ra rb) (a, b) := by
    intro a
    induction a using ha.induction with
    | _ a iha =>
      intro b
      induction b using hb.induction with
      | _ b ihb =>
        constructor
        rintro ⟨c, d⟩ h
        rcases h with h | ⟨h1, h2⟩
        · exact iha c h d
        · simp only at h1 h2; subst h1; exact ihb d h2
  exact ⟨fun ⟨a, b⟩ => this a b⟩

/-- The order on ranks. -/
def LtG : Nat × (Nat × (Nat × Nat)) → Nat × (Nat × (Nat × Nat)) → Prop :=
  Lex2 (· < ·) (Lex2 (· < ·) LexLt)

theorem ltG_wf : WellFounded LtG := lex2_wf Nat.lt_wfRel.wf (lex2_wf Nat.lt_wfRel.wf lexLt_wf)

/-- The inner part (phase, work, waiters). -/
def RestLt (a b : Nat × (Nat × Nat)) : Prop := Lex2 (· < ·) LexLt a b

theorem ltG_of {p' p : Nat} {r' r : Nat × (Nat × Nat)} (hle : p' ≤ p)
    (h : p' < p ∨ RestLt r' r) : LtG (p', r') (p, r) := by
  rcases h with h | h
  · exact Or.inl h
  · rcases Nat.lt_or_ge p' p with h' | h'
    · exact Or.inl h'
    · exact Or.inr ⟨Nat.le_antisymm hle h', h⟩

theorem restLt_w {ph : Nat} {w' w m' m : Nat} (h : w' < w) : RestLt (ph, (w', m')) (ph, (w, m)) :=
  Or.inr ⟨rfl, Or.inl h⟩

end Note
