import NsyncVerif.Proofs.MuQSolo
/-
  MuQ: the acceptor never blocks a thread except in P on a semaphore whose count is 0.

  `thread_enabled`: in every reachable state, every thread that is inside a call and is not asleep
  has an accepted next event (a non-failing one: the CAS on `remove_count` it offers succeeds).
  Needs: a free waiter record exists (`fresh_record`: only finitely many records are in use), the
  panic checks of unlock/runlock cannot fire (I_lock), the contract checks of the enqueue store
  cannot fire (I_queue).
-/
namespace NsyncVerif.MuQ

/-! ### only finitely many waiter records are in use -/

def FreshBound (a : AState) : Prop :=
  ∃ N, ∀ k, N ≤ k → (a.wr k).owner = none ∧ (a.wr k).waiting = false

theorem astep_wr {cfg : Cfg} {a a' : AState} (st : AStep cfg a a') :
    ∃ k, ∀ k', k' ≠ k → a'.wr k' = a.wr k' := by
  cases st with
  | acqFresh t l hro hts hb => exact ⟨0, fun _ _ => by simp⟩
  | enterSlow t l hro hts => exact ⟨0, fun _ _ => rfl⟩
  | acqSlow t c hro hts hb =>
    cases hw : c.w with
    | none => exact ⟨0, fun _ _ => by simp [AState.dropW]⟩
    | some k => exact ⟨k, fun k' hk' => by simp [AState.dropW, setFn, hk']⟩
  | enq t c hro hsp hb => exact ⟨0, fun _ _ => rfl⟩
  | adopt t c k hro hw hq ho hwt => exact ⟨k, fun k' hk' => by simp [setFn, hk']⟩
  | requeue t c k hro hw hq => exact ⟨k, fun k' hk' => by simp [setFn, hk']⟩
  | relSpin t c hro => exact ⟨0, fun _ _ => rfl⟩
  | loopWait t c k hro hw hwt => exact ⟨0, fun _ _ => rfl⟩
  | loopWoken t c k hro hw hwt => exact ⟨0, fun _ _ => rfl⟩
  | pRet t c k hro hw hs => exact ⟨k, fun k' hk' => by simp [setFn, hk']⟩
  | release t l hro hts hs hc => exact ⟨0, fun _ _ => by simp⟩
  | grab t l hro hts hs hu hsp => exact ⟨0, fun _ _ => by simp⟩
  | rcDone t sc hro => exact ⟨0, fun _ _ => by simp⟩
  | finish t f hro => exact ⟨0, fun _ _ => rfl⟩
  | wakeStore t k r hro => exact ⟨k, fun k' hk' => by simp [setFn, hk']⟩
  | post t k r hro => exact ⟨k, fun k' hk' => by simp [AState.semPost, setFn, hk']⟩
  | envV k => exact ⟨k, fun k' hk' => by simp [AState.semPost, setFn, hk']⟩
  | envSem k n ho => exact ⟨k, fun k' hk' => by simp [setFn, hk']⟩

theorem freshBound_step {cfg : Cfg} {a a' : AState} (h : FreshBound a) (st : AStep cfg a a') :
    FreshBound a' := by
  obtain ⟨N, hN⟩ := h
  obtain ⟨k, hk⟩ := astep_wr st
  refine ⟨max N (k + 1), fun k' hk' => ?_⟩
  have h1 : N ≤ k' := Nat.le_trans (Nat.le_max_left _ _) hk'
  have h2 : k + 1 ≤ k' := Nat.le_trans (Nat.le_max_right _ _) hk'
  have h3 : k' ≠ k := by intro e; subst e; exact Nat.not_succ_le_self _ h2
  rw [hk k' h3]
  exact hN k' h1

theorem reachable_freshBound {cfg : Cfg} {s : State} (h : Reachable cfg s) : FreshBound (abs s) :=
  reachable_ainv (P := FreshBound) ⟨0, fun _ _ => ⟨rfl, rfl⟩⟩ (fun _ _ hp st => freshBound_step hp st) s h

/-- A free waiter record exists. -/
theorem fresh_record {cfg : Cfg} {s : State} (h : Reachable cfg s) :
    ∃ k, (s.wr k).owner = none ∧ (s.wr k).waiting = false ∧ k ∉ s.queue := by
  obtain ⟨N, hN⟩ := reachable_freshBound h
  obtain ⟨h1, h2⟩ := hN N (Nat.le_refl _)
  refine ⟨N, h1, h2, fun hq => ?_⟩
  have := ((reachable_inv h).queue.inq N hq).1
  rw [h2] at this; cases this

/-! ### enabledness of the helpers -/

theorem casWord_enabled (s : State) (want : Ord) (old nw : Word) (succ fail : State) :
    casWord s want want .word (encode old) (encode nw) (encode s.word)
      (decide (encode s.word = encode old)) old nw succ fail =
      .ok (if decide (encode s.word = encode old) = true then succ else fail) := by
  simp [casWord]

theorem ldWord_enabled (s : State) (next : State) :
    ldWord s .rlx .word (encode s.word) next = .ok next := by
  simp [ldWord]

/-- The share a thread inside a releasing call still owns is in the word (the panic checks of
    nsync_mu_unlock / nsync_mu_runlock / unlock_slow cannot fire). -/
theorem share_in_word {cfg : Cfg} {s : State} (hr : Reachable cfg s) {t : Tid} {l : Mode}
    (hne : s.pc t ≠ .idle) (hs : pcShare (s.pc t) = some l) :
    (l = .W → s.word.wlock = true ∧ s.word.readers = 0) ∧
    (l = .R → s.word.wlock = false ∧ s.word.readers ≠ 0) := by
  have inv := reachable_inv hr
  have hside := reachable_side hr
  have hnone : s.held t = none := held_none_of_active hside.2 hne
  have hts : (abs s).ts t = some l := by simp [abs, tshare, hnone, hs]
  constructor
  · intro hl; subst hl
    have hown := (inv.lock.wown t).2 hts
    have hwl : s.word.wlock = true := by
      have := inv.lock.wl; rw [hown] at this; exact this
    exact ⟨hwl, inv.lock.excl hwl⟩
  · intro hl; subst hl
    have hmem : t ∈ s.rOwners := (inv.lock.rown t).2 hts
    have hrd : s.word.readers ≠ 0 := by
      have h1 : s.word.readers = s.rOwners.length := inv.lock.rd
      rw [h1]; intro h0
      have := List.eq_nil_of_length_eq_zero h0
      rw [this] at hmem; cases hmem
    refine ⟨?_, hrd⟩
    cases hx : s.word.wlock with
    | false => rfl
    | true => exact absurd (inv.lock.excl hx) hrd

/-- The record of a thread that is about to re-queue itself is not queued. -/
theorem requeue_not_queued {cfg : Cfg} {s : State} (hr : Reachable cfg s) {t : Tid} {c : SL} {k : Wid}
    (hp : s.pc t = .lsSt c) (hw : c.w = some k) : k ∉ s.queue := by
  have inv := reachable_inv hr
  intro hq
  obtain ⟨_, t', c', ph', h1, h2, h3⟩ := inv.queue.inq k hq
  have hro : (abs s).ro t = .slow c .st := by simp [abs, hp, role]
  have o1 := (inv.queue.own k t).2 ⟨c, .st, hro, hw⟩
  have o2 := (inv.queue.own k t').2 ⟨c', ph', h1, h2⟩
  rw [o1] at o2
  have : t = t' := Option.some.inj o2
  subst this
  rw [hro] at h1
  simp only [Role.slow.injEq] at h1
  obtain ⟨_, rfl⟩ := h1
  cases h3

def Event.isCall : Event → Bool
  | .call _ _ => true
  | _ => false

end NsyncVerif.MuQ

namespace NsyncVerif.MuQ

/-- Every thread inside a call that is not asleep has an accepted next event; the event offered is
    not a `call` and not a failed CAS on `remove_count`. -/
theorem thread_enabled {cfg : Cfg} {s : State} {t : Tid} (hr : Reachable cfg s)
    (hne : s.pc t ≠ .idle) (hna : ¬ AsleepOnSem s t) :
    ∃ e, e.tid = some t ∧ e.rcFail = false ∧ e.isCall = false ∧ ∃ s', step cfg s e = .ok s' := by
  have hside := reachable_side hr
  have hkt := hside.1 t
  cases hp : s.pc t with
  | idle => exact absurd hp hne
  | lkCas0 l =>
    exact ⟨.cas t .acq .word _ _ _ _, rfl, rfl, rfl, by simp only [step, stepCas, hp]; exact ⟨_, casWord_enabled ..⟩⟩
  | lkLd l =>
    exact ⟨.ld t .rlx .word _, rfl, rfl, rfl, by simp only [step, stepLd, hp]; exact ⟨_, ldWord_enabled ..⟩⟩
  | lkCas1 l old =>
    exact ⟨.cas t .acq .word _ _ _ _, rfl, rfl, rfl, by simp only [step, stepCas, hp]; exact ⟨_, casWord_enabled ..⟩⟩
  | lkRet l =>
    cases l
    · exact ⟨.ret t .lock none, rfl, rfl, rfl, by simp only [step, stepRet, hp]; exact ⟨_, rfl⟩⟩
    · exact ⟨.ret t .rlock none, rfl, rfl, rfl, by simp only [step, stepRet, hp]; exact ⟨_, rfl⟩⟩
  | tryCas0 l =>
    exact ⟨.cas t .acq .word _ _ _ _, rfl, rfl, rfl, by simp only [step, stepCas, hp]; exact ⟨_, casWord_enabled ..⟩⟩
  | tryLd l =>
    exact ⟨.ld t .rlx .word _, rfl, rfl, rfl, by simp only [step, stepLd, hp]; exact ⟨_, ldWord_enabled ..⟩⟩
  | tryCas1 l old =>
    exact ⟨.cas t .acq .word _ _ _ _, rfl, rfl, rfl, by simp only [step, stepCas, hp]; exact ⟨_, casWord_enabled ..⟩⟩
  | tryRet l r =>
    cases l
    · exact ⟨.ret t .trylock (some r), rfl, rfl, rfl, by simp [step, stepRet, hp]⟩
    · exact ⟨.ret t .rtrylock (some r), rfl, rfl, rfl, by simp [step, stepRet, hp]⟩
  | lsLd c =>
    exact ⟨.ld t .rlx .word _, rfl, rfl, rfl, by simp only [step, stepLd, hp]; exact ⟨_, ldWord_enabled ..⟩⟩
  | lsCasAcq c old =>
    exact ⟨.cas t .acq .word _ _ _ _, rfl, rfl, rfl, by simp only [step, stepCas, hp]; exact ⟨_, casWord_enabled ..⟩⟩
  | lsCasEnq c old =>
    exact ⟨.cas t .acq .word _ _ _ _, rfl, rfl, rfl, by simp only [step, stepCas, hp]; exact ⟨_, casWord_enabled ..⟩⟩
  | lsSt c =>
    cases hw : c.w with
    | none =>
      obtain ⟨k, h1, h2, h3⟩ := fresh_record hr
      exact ⟨.st t .rlx (.waiting k) 1 (b2n (s.wr k).waiting), rfl, rfl, rfl, by
        simp [step, stepSt, hp, hw, h1, h2, h3]⟩
    | some k =>
      have h3 := requeue_not_queued hr hp hw
      exact ⟨.st t .rlx (.waiting k) 1 (b2n (s.wr k).waiting), rfl, rfl, rfl, by
        simp [step, stepSt, hp, hw, h3]⟩
  | lsRelLd c =>
    exact ⟨.ld t .rlx .word _, rfl, rfl, rfl, by simp only [step, stepLd, hp]; exact ⟨_, ldWord_enabled ..⟩⟩
  | lsRelCas c old =>
    exact ⟨.cas t .rel .word _ _ _ _, rfl, rfl, rfl, by simp only [step, stepCas, hp]; exact ⟨_, casWord_enabled ..⟩⟩
  | lsWaitLd c =>
    simp only [hp, PC.ok] at hkt
    cases hw : c.w with
    | none => rw [hw] at hkt; cases hkt.2
    | some k =>
      exact ⟨.ld t .acq (.waiting k) (b2n (s.wr k).waiting), rfl, rfl, rfl, by
        simp only [step, stepLd, hp, hw]; simp; split <;> exact ⟨_, rfl⟩⟩
  | lsPEnter c =>
    simp only [hp, PC.ok] at hkt
    cases hw : c.w with
    | none => rw [hw] at hkt; cases hkt.2
    | some k => exact ⟨.semPEnter t k, rfl, rfl, rfl, by simp [step, hp, hw]⟩
  | lsPRet c =>
    simp only [hp, PC.ok] at hkt
    cases hw : c.w with
    | none => rw [hw] at hkt; cases hkt.2
    | some k =>
      have hsem : (s.wr k).sem ≠ 0 := fun h0 => hna ⟨c, k, hp, hw, h0⟩
      exact ⟨.semPRet t k, rfl, rfl, rfl, by simp [step, hp, hw, hsem]⟩
  | ulCas0 l =>
    exact ⟨.cas t .rel .word _ _ _ _, rfl, rfl, rfl, by simp only [step, stepCas, hp]; exact ⟨_, casWord_enabled ..⟩⟩
  | ulLd l =>
    have hsh := share_in_word hr hne (l := l) (by rw [hp]; rfl)
    cases l
    · obtain ⟨h1, h2⟩ := hsh.1 rfl
      exact ⟨.ld t .rlx .word _, rfl, rfl, rfl, by
        simp only [step, stepLd, hp, h1, h2]; exact ⟨_, ldWord_enabled ..⟩⟩
    · obtain ⟨h1, h2⟩ := hsh.2 rfl
      exact ⟨.ld t .rlx .word _, rfl, rfl, rfl, by
        simp only [step, stepLd, hp, h1]; simp only [h2, beq_iff_eq, Bool.false_or, if_false]
        exact ⟨_, ldWord_enabled ..⟩⟩
  | ulCas1 l old =>
    exact ⟨.cas t .rel .word _ _ _ _, rfl, rfl, rfl, by simp only [step, stepCas, hp]; exact ⟨_, casWord_enabled ..⟩⟩
  | ulRet l =>
    cases l
    · exact ⟨.ret t .unlock none, rfl, rfl, rfl, by simp only [step, stepRet, hp]; exact ⟨_, rfl⟩⟩
    · exact ⟨.ret t .runlock none, rfl, rfl, rfl, by simp only [step, stepRet, hp]; exact ⟨_, rfl⟩⟩
  | usLd l =>
    have hsh := share_in_word hr hne (l := l) (by rw [hp]; rfl)
    have hhs : hasShare l s.word = true := by
      cases l
      · exact (hsh.1 rfl).1
      · simp [hasShare, (hsh.2 rfl).2]
    exact ⟨.ld t .rlx .word _, rfl, rfl, rfl, by
      simp only [step, stepLd, hp, hhs]; exact ⟨_, ldWord_enabled ..⟩⟩
  | usCasUnc l old =>
    exact ⟨.cas t .rel .word _ _ _ _, rfl, rfl, rfl, by simp only [step, stepCas, hp]; exact ⟨_, casWord_enabled ..⟩⟩
  | usCasGrab l old =>
    exact ⟨.cas t .ar .word _ _ _ _, rfl, rfl, rfl, by simp only [step, stepCas, hp]; exact ⟨_, casWord_enabled ..⟩⟩
  | usRcLd l sc k =>
    exact ⟨.ld t .rlx (.rc k) 0, rfl, rfl, rfl, by simp [step, stepLd, hp]⟩
  | usRcCas l sc k old =>
    exact ⟨.cas t .rlx (.rc k) old ((old + 1) % 4294967296) old true, rfl, rfl, rfl, by
      simp [step, stepCas, hp]⟩
  | usFinLd l f =>
    exact ⟨.ld t .rlx .word _, rfl, rfl, rfl, by simp only [step, stepLd, hp]; exact ⟨_, ldWord_enabled ..⟩⟩
  | usFinCas l f old =>
    exact ⟨.cas t .rel .word _ _ _ _, rfl, rfl, rfl, by simp only [step, stepCas, hp]; exact ⟨_, casWord_enabled ..⟩⟩
  | usWakeSt l k r =>
    exact ⟨.st t .rel (.waiting k) 0 (b2n (s.wr k).waiting), rfl, rfl, rfl, by simp [step, stepSt, hp]⟩
  | usWakeV l k r =>
    exact ⟨.semV t k, rfl, rfl, rfl, by simp [step, hp]⟩

end NsyncVerif.MuQ
