/-
  Layer `CvFix` (cv.c with the repair of F3; adapted from the `Cv` file of the same name): the structural invariant is preserved by the local transitions.
-/
import NsyncVerif.Proofs.CvFixInvA

namespace NsyncVerif.CvFix

theorem tinvA_congr {s s' : State} {u : Tid} (ht : s'.thr u = s.thr u) (hr : s'.recs = s.recs)
    (h : TInvA s u) : TInvA s' u := by
  obtain ⟨h1, h2, h3, h4, h5, h6, h7, h8, h9, h10, h11⟩ := h
  constructor <;> rw [ht] <;> (try rw [hr]) <;> assumption

/-- Assembling `InvA` after a change of one thread's frame only. -/
theorem invA_setThr {s : State} {t : Tid} (hi : InvA s) (x' : Thr)
    (h1 : x'.loc.holds = (s.thr t).loc.holds) (h2 : x'.list = (s.thr t).list)
    (h3 : s.holder = some t → x'.old.spin = false ∧ (x'.old.ne = true ↔ s.queue ≠ []))
    (h4 : TInvA (s.setThr t x') t)
    (h5 : x'.bcast = true → (x'.loc = .sRcLd ∨ x'.loc = .sRcCas ∨ x'.loc = .sRel) → s.queue = []) :
    InvA (s.setThr t x') := by
  obtain ⟨a1, a2, a3, a4, a5, a6, a7, a8, a9, a10, a11, a12⟩ := hi
  constructor
  · exact a1
  · intro u
    by_cases hu : u = t
    · subst hu; simp [h1]; exact a2 u
    · simp [hu]; exact a2 u
  · intro u hh
    by_cases hu : u = t
    · subst hu; simp; exact h3 hh
    · simp [hu]; exact a3 u hh
  · exact a4
  · exact a5
  · exact a6
  · exact a7
  · intro u
    by_cases hu : u = t
    · subst hu; simp [h2]; exact a8 u
    · simp [hu]; exact a8 u
  · intro u r
    by_cases hu : u = t
    · subst hu; simp [h2]; exact a9 u r
    · simp [hu]; exact a9 u r
  · intro u
    by_cases hu : u = t
    · subst hu; exact h4
    · exact tinvA_congr (s := s) (by simp [hu]) rfl (a10 u)
  · intro u
    by_cases hu : u = t
    · subst hu; simp; exact h5
    · simp [hu]; exact a11 u
  · exact a12

macro "tinv_auto" : tactic =>
  `(tactic| (constructor <;>
      simp_all [waitLive, waitPrep, inWaitN, Loc.wakePhase, Loc.holds, Thr.fresh, RStat.live]))

set_option hygiene false in
macro "loc_case" hl:ident : tactic =>
  `(tactic| (
     simp only [waitLive, waitPrep, inWaitN, Loc.wakePhase, Loc.holds, $hl:ident] at t1 t2 t3 t4 t5 t8 t9 t10 t11 t12 hold hh
     have hbq := hi.bq t
     try simp only [$hl:ident, reduceCtorEq, or_self, or_false, false_or, imp_false, implies_true] at hbq
     refine invA_setThr hi _ ?_ ?_ ?_ ?_ ?_
     rotate_left 4
     · simp [Thr.fresh] <;> simp_all
     · simp [Loc.holds, $hl:ident, Thr.fresh]
     · (try simp [Thr.fresh]) <;> (try simp_all)
     · intro e; simp_all
     · constructor <;> simp [waitLive, waitPrep, inWaitN, Loc.wakePhase, Loc.holds, Thr.fresh] <;> simp_all))

set_option maxHeartbeats 1000000 in
theorem invA_loc_api {s : State} {t : Tid} {e : Event} {x' : Thr} (hi : InvA s) (h : LTr s t e x')
    (he : e.isAtomic = false) : InvA (s.setThr t x') := by
  have ht := hi.thr t
  have hold := hi.old t
  have hh := hi.hold t
  obtain ⟨t1, t2, t3, t4, t5, t6, t7, t8, t9, t10, t11, t12⟩ := ht
  cases h with
  | callWait gen dl note hl => loc_case hl
  | retWait res hl hr => rcases hl with hl | hl <;> loc_case hl
  | callSignal hl => loc_case hl
  | callBroadcast hl => loc_case hl
  | retSignal hl hb => loc_case hl
  | retBroadcast hl hb => loc_case hl
  | callWaitN hl => loc_case hl
  | retWaitN hl hm => loc_case hl
  | relMark op hl ho => loc_case hl
  | lockMark op hl hx ho => loc_case hl
  | relockSlow hl hx => loc_case hl
  | nretUnlock hl => loc_case hl
  | nretLock hl => loc_case hl
  | semPdEnterW k dl hl hk hd => loc_case hl
  | semPdEnterC k dl hl hk hd => loc_case hl
  | semPdRetTimedW k d hl hd hn => loc_case hl
  | semPdRetTimedC k d hl hd hn => loc_case hl
  | noteSeen hl => rcases hl with hl | hl | hl <;> loc_case hl
  | noteNotify hl ht => loc_case hl
  | callDebug k hl => loc_case hl
  | retDebug k hl hk => loc_case hl
  | _ => simp [Event.isAtomic] at he

end NsyncVerif.CvFix
