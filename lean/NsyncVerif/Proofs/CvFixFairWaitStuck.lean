/-
  Layer `CvFix`, liveness: the hypotheses for a finite accepted trace followed by idling in which ONE
  thread is left stuck at a program point at which it is not `Ready` (asleep, or inside another
  layer's code).  Used for the necessity witnesses of Props/C05Fair.lean: every hypothesis holds
  except the one that speaks about that program point.
-/
import NsyncVerif.Proofs.CvFixFairWaitTrace

namespace NsyncVerif.CvFix

variable {cfg : Config}

/-- What holds of a stuck trace. -/
structure StuckHyps {s0 : State} (x : Exec cfg s0) (t0 : Tid) (L : Loc) (N : Nat) : Prop where
  hyps : Hyps x
  finSp : FiniteSpurious x
  stuck : ∀ j, N ≤ j → ((x.ρ j).thr t0).loc = L
  quiet : ∀ j, N ≤ j → x.σ j = none
  sem : (L.asleep = true → ¬ CanWake (x.ρ N) t0) → SemFair x
  mutex : L.inMutex = false → MutexFair x
  alloc : L ≠ .wNew → AllocFair x
  cancel : L.inCancel = false → CancelFair x

theorem stuck_of_trace (evs : List Event) (sf : State) (hrun : run cfg init evs = .ok sf)
    (t0 : Tid) (L : Loc) (hL : (sf.thr t0).loc = L) (hidle : ∀ t, t ≠ t0 → (sf.thr t).loc = .idle)
    (hnr : L = .idle ∨ L.foreign = true ∨ L.asleep = true) :
    StuckHyps (traceExec cfg init evs sf hrun) t0 L evs.length := by
  have hr0 : Reachable cfg init := ⟨[], rfl⟩
  have htl : ∀ j, evs.length ≤ j → (traceExec cfg init evs sf hrun).ρ j = sf :=
    fun j hj => (traceExec_tail hrun hj).1
  have hloc : ∀ j, evs.length ≤ j → ∀ t,
      (t = t0 → (((traceExec cfg init evs sf hrun).ρ j).thr t).loc = L) ∧
      (t ≠ t0 → (((traceExec cfg init evs sf hrun).ρ j).thr t).loc = .idle) := by
    intro j hj t; rw [htl j hj]
    exact ⟨fun h => by rw [h]; exact hL, hidle t⟩
  have hspin : L.spinLoop = false ∧ L.muRel = false := by
    rcases hnr with h | h | h <;> cases L <;> simp_all [Loc.spinLoop, Loc.muRel, Loc.foreign, Loc.asleep]
  have leaves : ∀ t i, t ≠ t0 → (((traceExec cfg init evs sf hrun).ρ i).thr t).loc ≠ .idle →
      ∃ j, i ≤ j ∧ (((traceExec cfg init evs sf hrun).ρ j).thr t).loc ≠
        (((traceExec cfg init evs sf hrun).ρ i).thr t).loc := by
    intro t i ht h
    exact ⟨max i evs.length, by omega, by rw [(hloc _ (by omega) t).2 ht]; exact fun h' => h h'.symm⟩
  have leaves0 : ∀ i, (((traceExec cfg init evs sf hrun).ρ i).thr t0).loc ≠ L →
      ∃ j, i ≤ j ∧ (((traceExec cfg init evs sf hrun).ρ j).thr t0).loc ≠
        (((traceExec cfg init evs sf hrun).ρ i).thr t0).loc := by
    intro i h
    exact ⟨max i evs.length, by omega, by rw [(hloc _ (by omega) t0).1 rfl]; exact fun h' => h h'.symm⟩
  refine ⟨⟨hr0, ?_, ?_, ?_⟩, ?_, fun j hj => (hloc j hj t0).1 rfl, fun j hj => (traceExec_tail hrun hj).2,
    ?_, ?_, ?_, ?_⟩
  · intro t i h
    exfalso
    have hR := h (max i evs.length) (by omega)
    by_cases ht : t = t0
    · have hl := (hloc (max i evs.length) (by omega) t).1 ht
      obtain ⟨r1, r2, r3⟩ := hR
      rw [hl] at r1 r2 r3
      rcases hnr with h' | h' | h'
      · exact r1 h'
      · rw [h'] at r2; cases r2
      · rw [h'] at r3; cases r3
    · exact hR.1 ((hloc _ (by omega) t).2 ht)
  · intro t i h _
    have := h (max i evs.length) (by omega)
    by_cases ht : t = t0
    · rw [(hloc _ (by omega) t).1 ht, hspin.1] at this; cases this
    · rw [(hloc _ (by omega) t).2 ht] at this; cases this
  · intro t i h
    have := h (max i evs.length) (by omega)
    by_cases ht : t = t0
    · rw [(hloc _ (by omega) t).1 ht, hspin.2] at this; cases this
    · rw [(hloc _ (by omega) t).2 ht] at this; cases this
  · intro t
    refine ⟨evs.length, fun j k hj he => ?_⟩
    rw [(traceExec_tail hrun hj).2] at he; cases he
  · intro hcw t i h
    have h1 := h (max i evs.length) (by omega)
    by_cases ht : t = t0
    · subst ht
      have ha : L.asleep = true := by
        rw [← (hloc (max i evs.length) (by omega) t).1 rfl]; exact h1.1
      apply hcw ha
      have := h1.2
      rw [htl _ (by omega)] at this
      rw [htl _ (Nat.le_refl _)]; exact this
    · have := h1.1; rw [(hloc _ (by omega) t).2 ht] at this; cases this
  · intro hm t i h
    by_cases ht : t = t0
    · subst ht
      exact leaves0 i (by intro h'; rw [h', hm] at h; cases h)
    · exact leaves t i ht (by intro h'; rw [h'] at h; cases h)
  · intro hm t i h
    by_cases ht : t = t0
    · subst ht
      obtain ⟨j, h1, h2⟩ := leaves0 i (by rw [h]; exact fun h' => hm h'.symm)
      exact ⟨j, h1, by rw [h] at h2; exact h2⟩
    · obtain ⟨j, h1, h2⟩ := leaves t i ht (by rw [h]; simp)
      exact ⟨j, h1, by rw [h] at h2; exact h2⟩
  · intro hm t i h
    by_cases ht : t = t0
    · subst ht
      exact leaves0 i (by intro h'; rw [h', hm] at h; cases h)
    · exact leaves t i ht (by intro h'; rw [h'] at h; cases h)

/-- `TransferFair` and `PostKept` for a trace (stuck or not) whose named records are `w k`, `k < n`. -/
theorem recHyps_of_trace (evs : List Event) (sf : State) (hrun : run cfg init evs = .ok sf)
    (n : Nat) (hrid : ridsBelow n evs = true) :
    ((∀ j, j ≤ evs.length → ∀ k, k < n →
      ((stateFrom cfg init (evs.take j)).recs (.w k)).stat ≠ .xfer) →
      TransferFair (traceExec cfg init evs sf hrun)) ∧
    ((∀ j, j ≤ evs.length → ∀ k, k < n →
      ((stateFrom cfg init (evs.take j)).recs (.w k)).stat = .woken →
      ((stateFrom cfg init (evs.take j)).recs (.w k)).posted = true →
      ((stateFrom cfg init (evs.take j)).thr ((stateFrom cfg init (evs.take j)).recs (.w k)).owner).loc.asleep = true →
      0 < (stateFrom cfg init (evs.take j)).sem k) →
      PostKept (traceExec cfg init evs sf hrun)) := by
  have hr0 : Reachable cfg init := ⟨[], rfl⟩
  have hst : ∀ j, (traceExec cfg init evs sf hrun).ρ j = stateFrom cfg init (evs.take (min j evs.length)) := by
    intro j
    show stateFrom cfg init (evs.take j) = _
    by_cases h : j ≤ evs.length
    · rw [Nat.min_eq_left h]
    · rw [Nat.min_eq_right (by omega), stateFrom_all hrun (by omega), stateFrom_all hrun (Nat.le_refl _)]
  have hbig : ∀ j k, n ≤ k → (((traceExec cfg init evs sf hrun).ρ j).recs (.w k)).stat = .idle := by
    intro j k hk
    rw [hst]
    exact run_idle _ _ _ hr0 rfl
      (fun e he => ridsBelow_ne hrid hk e (List.mem_of_mem_take he)) (stateFrom_ok hrun _)
  constructor
  · intro hx k i h
    exfalso
    by_cases hk : k < n
    · rw [hst] at h; exact hx _ (Nat.min_le_right _ _) k hk h
    · rw [hbig i k (by omega)] at h; cases h
  · intro hp j k h1 h2 h3 _
    by_cases hk : k < n
    · rw [hst] at h1 h2 h3 ⊢; exact hp _ (Nat.min_le_right _ _) k hk h1 h2 h3
    · rw [hbig j k (by omega)] at h1; cases h1

end NsyncVerif.CvFix
