/-
  Proofs/WaitNFairCount4.lean — WaitN layer, liveness, token counting: for a call that never returns,
  `FiniteStrayPosts x` implies `FiniteWakeups x t` (`finiteWakeups_of_stray`).

  Were the caller woken again and again, it would stay in its sleep loop for ever, with the same records and the same
  semaphore.  The number of its records with `waiting` set does not increase there, so it is eventually constant; from
  then on no record of the call is popped (a pop clears a `waiting` that was set), so no thread comes to owe a post
  for one of them; the finitely many threads that do owe one (`post` has finite support) make it (`ower_posts`) and owe
  nothing afterwards; after that nobody posts the call's semaphore (`FiniteStrayPosts`), its count does not go up any
  more, and every wake-up takes a token: contradiction.
-/
import NsyncVerif.Proofs.WaitNFairCount3

set_option linter.unusedSimpArgs false
set_option linter.unusedVariables false

namespace WaitN

variable {s0 : State}

theorem finiteWakeups_of_stray (x : Exec s0) (H : FairHyps x) (hsp : FiniteStrayPosts x) (t : Tid) (i : Nat)
    (hni : ∀ j, i ≤ j → (x.ρ j).pc t ≠ .idle) : FiniteWakeups x t := by
  have hr := H.reach
  apply Classical.byContradiction
  intro hnf
  have hinf : ∀ n, ∃ j k, n ≤ j ∧ (x.ρ j).pc t = .wPdWait k ∧ x.σ j = some (.thr t (.pdRet k false)) := by
    intro n
    apply Classical.byContradiction
    intro h
    exact hnf ⟨n, fun j k hj hp he => h ⟨j, k, hj, hp, he⟩⟩
  obtain ⟨n0, hn0⟩ := hsp
  obtain ⟨a, k, ha, hpa, _⟩ := hinf (max n0 i)
  have hai : i ≤ a := Nat.le_trans (Nat.le_max_right _ _) ha
  have hn0a : n0 ≤ a := Nat.le_trans (Nat.le_max_left _ _) ha
  -- in the sleep loop for ever
  have hsl : ∀ m, a ≤ m → inSleep ((x.ρ m).pc t) = true := by
    intro m hm
    obtain ⟨a', k', ha', hpa', _⟩ := hinf m
    obtain ⟨d, rfl⟩ : ∃ d, a' = a + d := ⟨a' - a, by omega⟩
    exact inSleep_between x hr t a d (fun m' h1 _ => hni m' (by omega)) (by rw [hpa]; rfl) (by rw [hpa']; rfl) m hm ha'
  have hsem0 : ((x.ρ a).fr t).sem = some k := (sb_of_reachable (x.reach hr a)).b3 t k hpa
  have hconst : ∀ d, ((x.ρ (a + d)).fr t).recs = ((x.ρ a).fr t).recs ∧ ((x.ρ (a + d)).fr t).sem = some k := by
    intro d
    induction d with
    | zero => exact ⟨rfl, hsem0⟩
    | succ d ih =>
      have := sleep_const x hr t (a + d) (hsl _ (by omega)) (hsl (a + d + 1) (by omega))
      exact ⟨this.1.trans ih.1, this.2 k ih.2⟩
  have hrecs : ∀ m, a ≤ m → ((x.ρ m).fr t).recs = ((x.ρ a).fr t).recs := fun m hm => by
    obtain ⟨d, rfl⟩ : ∃ d, m = a + d := ⟨m - a, by omega⟩; exact (hconst d).1
  have hsem : ∀ m, a ≤ m → ((x.ρ m).fr t).sem = some k := fun m hm => by
    obtain ⟨d, rfl⟩ : ∃ d, m = a + d := ⟨m - a, by omega⟩; exact (hconst d).2
  have huser : ∀ m, a ≤ m → (x.ρ m).semUser k = some t := fun m hm =>
    (sb_of_reachable (x.reach hr m)).b1 t k (hsem m hm)
  -- the number of records still marked waiting
  let W : Nat → Nat := fun m => ((((x.ρ a).fr t).recs).filter (fun r => ((x.ρ m).rcd r).waiting)).length
  have hwm : ∀ m, a ≤ m → ∀ r ∈ ((x.ρ a).fr t).recs, ((x.ρ (m + 1)).rcd r).waiting = true → ((x.ρ m).rcd r).waiting = true :=
    fun m hm r hmem hw' => sleep_wfalse x hr t m (hsl m hm) (by rw [hrecs m hm]; exact hmem) hw'
  have hWmono : ∀ m, a ≤ m → W (m + 1) ≤ W m := fun m hm => filter_len_le _ _ _ (hwm m hm)
  obtain ⟨a2, ha2, hWc⟩ := nat_stabilizes W (W a) a rfl hWmono
  -- from a2 on nobody comes to owe a post for a record of the call
  have hnew : ∀ m, a2 ≤ m → ∀ u r, r ∈ ((x.ρ a).fr t).recs → (x.ρ (m + 1)).post u = some r → (x.ρ m).post u = some r := by
    intro m hm u r hmem hp'
    apply Classical.byContradiction
    intro hne
    cases hs : x.σ m with
    | none => rw [x.next_none hs] at hp'; exact hne hp'
    | some ev =>
      have hstep := x.next_some hs
      cases ev with
      | tick ns => rw [(step_tick hstep).1] at hp'; exact hne hp'
      | thr v e =>
        by_cases hv : v = u
        · subst hv
          have hst := step_thr hstep
          have q := (qinv_of_reachable (x.reach hr m)).qi
          rcases (eff_stepThr hst).2 with h | h | ⟨r', h1, h2, h3, h4⟩
          · rw [h] at hp'; exact hne hp'
          · rw [h] at hp'; cases hp'
          · rw [hp'] at h1; cases h1
            have hwt : ((x.ρ m).rcd r).waiting = true := by
              rcases h4 with ⟨c, bc, l, hpc, hhd⟩ | ⟨tl, hq⟩
              · have hmeml : r ∈ l := by
                  cases l with
                  | nil => cases hhd
                  | cons b l' => simp only [List.head?_cons, Option.some.injEq] at hhd; subst hhd; exact List.mem_cons_self ..
                have := (q.q4 v c l (by rw [hpc]; rfl)).2.2 r (by rw [h2]; exact hmeml)
                exact this.2.2.1
              · exact (q.q1 _ r (by rw [hq]; exact List.mem_cons_self ..)).2.2.1
            have hlt : W (m + 1) < W m := filter_len_lt _ _ _ (hwm m (by omega)) ⟨r, hmem, hwt, h3⟩
            have e1 := hWc m hm
            have e2 := hWc (m + 1) (by omega)
            omega
        · rw [(others_stepThr (step_thr hstep) u (fun h => hv h.symm)).2.2.1] at hp'
          exact hne hp'
  have hback : ∀ m1, a2 ≤ m1 → ∀ d u r, r ∈ ((x.ρ a).fr t).recs → (x.ρ (m1 + d)).post u = some r → (x.ρ m1).post u = some r := by
    intro m1 hm1 d
    induction d with
    | zero => intro u r _ h; exact h
    | succ d ih => intro u r hmem h; exact ih u r hmem (hnew (m1 + d) (by omega) u r hmem h)
  -- every thread eventually owes nothing for the call
  have hgone : ∀ u, ∃ mu, a2 ≤ mu ∧ ∀ m, mu ≤ m → ∀ r, r ∈ ((x.ρ a).fr t).recs → (x.ρ m).post u ≠ some r := by
    intro u
    by_cases hO : ∃ r, r ∈ ((x.ρ a).fr t).recs ∧ (x.ρ a2).post u = some r
    · obtain ⟨r, hmem, hp⟩ := hO
      obtain ⟨d, hd⟩ := ower_posts x H a2 u r hp
      refine ⟨a2 + d, by omega, fun m hm r2 hmem2 hp2 => ?_⟩
      obtain ⟨d', rfl⟩ : ∃ d', m = a2 + d + d' := ⟨m - (a2 + d), by omega⟩
      have h1 := hback a2 (Nat.le_refl _) (d + d') u r2 hmem2 (by rw [← Nat.add_assoc]; exact hp2)
      rw [hp] at h1; cases h1
      exact hd (hback (a2 + d) (by omega) d' u r hmem hp2)
    · exact ⟨a2, Nat.le_refl _, fun m hm r hmem hp => by
        obtain ⟨d, rfl⟩ : ∃ d, m = a2 + d := ⟨m - a2, by omega⟩
        exact hO ⟨r, hmem, hback a2 (Nat.le_refl _) d u r hmem hp⟩⟩
  obtain ⟨B, hB⟩ := post_support (x.reach hr a2)
  have hallB : ∀ B', ∃ a3, a2 ≤ a3 ∧ ∀ u, u < B' → ∀ m, a3 ≤ m → ∀ r, r ∈ ((x.ρ a).fr t).recs → (x.ρ m).post u ≠ some r := by
    intro B'
    induction B' with
    | zero => exact ⟨a2, Nat.le_refl _, fun u hu => absurd hu (Nat.not_lt_zero _)⟩
    | succ B' ih =>
      obtain ⟨a3, h1, h2⟩ := ih
      obtain ⟨mu, h3, h4⟩ := hgone B'
      refine ⟨max a3 mu, Nat.le_trans h1 (Nat.le_max_left _ _), fun u hu m hm => ?_⟩
      have hm1 : a3 ≤ m := Nat.le_trans (Nat.le_max_left _ _) hm
      have hm2 : mu ≤ m := Nat.le_trans (Nat.le_max_right _ _) hm
      by_cases hu' : u < B'
      · exact h2 u hu' m hm1
      · have : u = B' := Nat.le_antisymm (Nat.le_of_lt_succ hu) (Nat.not_lt.1 hu')
        subst this; exact h4 m hm2
  obtain ⟨a3, ha3, hnoB⟩ := hallB B
  have hnoO : ∀ u m, a3 ≤ m → ∀ r, r ∈ ((x.ρ a).fr t).recs → (x.ρ m).post u ≠ some r := by
    intro u m hm r hmem hp
    by_cases hu : u < B
    · exact hnoB u hu m hm r hmem hp
    · obtain ⟨d, rfl⟩ : ∃ d, m = a2 + d := ⟨m - a2, by omega⟩
      have := hback a2 (Nat.le_refl _) d u r hmem hp
      rw [hB u (Nat.not_lt.1 hu)] at this; cases this
  -- so nobody posts the call's semaphore any more
  have hnoV : ∀ m, a3 ≤ m → ∀ u, x.σ m ≠ some (.thr u (.semV k)) := by
    intro m hm u he
    obtain ⟨r, hp, hlive, hown⟩ := hn0 m u k (by omega) he t (huser m (by omega))
    have hb := (own_of_reachable (x.reach hr m)).back r hlive
    rw [hown, hrecs m (by omega)] at hb
    exact hnoO u m hm r hb.2.2 hp
  have hsemmono : ∀ m, a3 ≤ m → (x.ρ (m + 1)).sem k ≤ (x.ρ m).sem k := by
    intro m hm
    cases hs : x.σ m with
    | none => rw [x.next_none hs]; exact Nat.le_refl _
    | some ev =>
      have hstep := x.next_some hs
      cases ev with
      | tick ns => rw [(step_tick hstep).1]; exact Nat.le_refl _
      | thr v e =>
        apply Classical.byContradiction
        intro hlt
        have := (eff_stepThr (step_thr hstep)).1 k (by omega)
        rw [this] at hs
        exact hnoV m hm v hs
  have hsemle : ∀ m, a3 ≤ m → ∀ d, (x.ρ (m + d)).sem k ≤ (x.ρ m).sem k := by
    intro m hm d
    induction d with
    | zero => exact Nat.le_refl _
    | succ d ih => exact Nat.le_trans (hsemmono (m + d) (by omega)) ih
  -- and every wake-up takes a token
  have fin : ∀ v m, a3 ≤ m → (x.ρ m).sem k = v → False := by
    intro v
    induction v using Nat.strongRecOn with
    | ind v ih =>
      intro m hm hv
      obtain ⟨j, k', hj, hpj, hej⟩ := hinf m
      have hk' : ((x.ρ j).fr t).sem = some k' := (sb_of_reachable (x.reach hr j)).b3 t k' hpj
      rw [hsem j (by omega)] at hk'
      cases hk'
      have hdec := wake_dec hpj (step_thr (x.next_some hej))
      obtain ⟨d, rfl⟩ : ∃ d, j = m + d := ⟨j - m, by omega⟩
      have hle := hsemle m hm d
      exact ih _ (by omega) (m + d + 1) (by omega) rfl
  exact fin _ a3 (Nat.le_refl _) rfl

end WaitN
