/-
  Layer `CvFix` (cv.c with the repair of F3; adapted from the `Cv` file of the same name): `step … = .ok s'` implies `Tr` — atomics on the cv word.
-/
import NsyncVerif.Proofs.CvFixTr

namespace NsyncVerif.CvFix

theorem need_ok {c : Prop} [Decidable c] {msg : String} {k : Except String State} {s' : State} :
    need c msg k = .ok s' ↔ c ∧ k = .ok s' := by
  unfold need; split <;> simp_all

theorem tr_wordLd {cfg : Config} {s s' : State} {t : Tid} {site : WSite} {obs : Nat}
    (h : stepWordLd s t site obs = .ok s') : Tr cfg s (.wordLd t site obs) s' := by
  unfold stepWordLd at h
  simp only [need_ok] at h
  obtain ⟨ho, h⟩ := h
  split at h
  · rename_i hl; cases h; exact .loc (.spinLd _ _ (.inl ⟨rfl, hl⟩) ho)
  · rename_i hl; cases h; exact .loc (.spinLd _ _ (.inr ⟨rfl, hl⟩) ho)
  · rename_i hl; cases h; exact .loc (.spinLdN _ hl ho)
  · rename_i hl
    simp only [need_ok] at h
    obtain ⟨hb, h⟩ := h
    cases h
    exact .loc (.sigLd _ _ hl (.inl ⟨rfl, hb.trans (by decide)⟩) ho)
  · rename_i hl
    simp only [need_ok] at h
    obtain ⟨hb, h⟩ := h
    cases h
    exact .loc (.sigLd _ _ hl (.inr ⟨rfl, hb.trans (by decide)⟩) ho)
  · rename_i hl; cases h; exact .loc (.dbgLd _ hl ho)
  · cases h

theorem tr_wordCas {cfg : Config} {s s' : State} {t : Tid} {exp new obs : Nat} {ok : Bool}
    (h : stepWordCas s t exp new obs ok = .ok s') : Tr cfg s (.wordCas t exp new obs ok) s' := by
  unfold stepWordCas at h
  simp only [need_ok] at h
  obtain ⟨hl, he, hn, ho, hok, h⟩ := h
  split at h
  · rename_i hk
    split at h
    · rename_i o n ho' hn'
      cases h
      subst hk
      have : obs = exp := by simpa using hok.symm
      exact .acq t exp new obs o n hl he ho this ho' hn' hn
    · cases h
  · rename_i hk
    cases h
    have hk' : ok = false := by simpa using hk
    subst hk'
    have : obs ≠ exp := by simpa using hok.symm
    exact .loc (.casFail _ _ _ hl ho this)

theorem release_ok {s : State} {t : Tid} {new obs : Nat} {k : State → Except String State} {s' : State}
    (h : release s t new obs k = .ok s') :
    s.holder = some t ∧ ∃ n, Word.dec? new = some n ∧ n.spin = false ∧ k { s with word := n, holder := none } = .ok s' := by
  unfold release at h
  simp only [need_ok] at h
  obtain ⟨hh, _, h⟩ := h
  split at h
  · rename_i n hn
    simp only [need_ok] at h
    exact ⟨hh, n, hn, h.1, h.2⟩
  · cases h

theorem tr_wordSt {cfg : Config} {s s' : State} {t : Tid} {site : WSite} {new obs : Nat}
    (h : stepWordSt s t site new obs = .ok s') : Tr cfg s (.wordSt t site new obs) s' := by
  unfold stepWordSt at h
  dsimp only at h
  split at h
  · rename_i hl
    simp only [need_ok] at h
    obtain ⟨hnew, h⟩ := h
    obtain ⟨hh, n, hn, hsp, h⟩ := release_ok h
    cases h
    exact .relWait t new obs n hl hh hnew hn hsp
  · rename_i hl
    simp only [need_ok] at h
    obtain ⟨hnew, h⟩ := h
    obtain ⟨hh, n, hn, hsp, h⟩ := release_ok h
    cases h
    exact .relWait2 t new obs n hl hh hnew hn hsp
  · rename_i hl
    simp only [need_ok] at h
    obtain ⟨hb, hnew, h⟩ := h
    obtain ⟨hh, n, hn, hsp, h⟩ := release_ok h
    cases h
    exact .relSig t _ new obs n hl (.inl ⟨rfl, hb.trans (by decide)⟩) hh hnew hn hsp
  · rename_i hl
    simp only [need_ok] at h
    obtain ⟨hb, hnew, h⟩ := h
    obtain ⟨hh, n, hn, hsp, h⟩ := release_ok h
    cases h
    exact .relSig t _ new obs n hl (.inr ⟨rfl, hb.trans (by decide)⟩) hh hnew hn hsp
  · rename_i hl
    simp only [need_ok] at h
    obtain ⟨hnew, h⟩ := h
    obtain ⟨hh, n, hn, hsp, h⟩ := release_ok h
    cases h
    exact .relEnq t new obs n hl hh hnew hn hsp
  · rename_i hl
    simp only [need_ok] at h
    obtain ⟨hnew, h⟩ := h
    obtain ⟨hh, n, hn, hsp, h⟩ := release_ok h
    cases h
    exact .relDeq t new obs n hl hh hnew hn hsp
  · rename_i hl
    simp only [need_ok] at h
    obtain ⟨hnew, h⟩ := h
    obtain ⟨hh, n, hn, hsp, h⟩ := release_ok h
    cases h
    exact .relDeqW t new obs n hl hh hnew hn hsp
  · rename_i hl
    simp only [need_ok] at h
    obtain ⟨hnew, h⟩ := h
    obtain ⟨hh, n, hn, hsp, h⟩ := release_ok h
    cases h
    exact .relDbg t new obs n hl hh hnew hn hsp
  · cases h

end NsyncVerif.CvFix
