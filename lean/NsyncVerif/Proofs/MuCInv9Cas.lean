import NsyncVerif.Proofs.MuCInv9Ld
/-
  MuC (I_wait): the CAS steps that are local for the invariant.
-/
namespace NsyncVerif.MuC

macro "cas_case9" t:ident h4:ident h:ident heq:ident hs:ident : tactic => `(tactic|
  (rcases casWord_ok $hs with ⟨hw, -, hs'⟩ | ⟨-, -, hs'⟩ <;> subst hs' <;>
    first
    | inv9_local $t $h4 $h $heq
    | (split <;> inv9_local $t $h4 $h $heq)
    | (split <;> first | inv9_local $t $h4 $h $heq | (split <;> inv9_local $t $h4 $h $heq))))

theorem inv9_stepCasB {s s' : State} {t : Tid} {o : Ord} {loc : Loc} {exp new obs : Nat} {ok : Bool} (h1 : Inv1 s) (h4 : Inv4 s) (h : Inv9 s)
    (hp : match s.pc t with
      | .lkCas0 _ | .lkCas1 _ _ | .tryCas0 _ | .tryCas1 _ _ | .lsCasAcq _ _ | .lsCasEnq _ _ | .lsRelCas _ _ | .ulCas0 _ _ | .ulCas1 _ _ _
      | .usCasUnc _ _ | .mwRelCas _ _ _ | .mtCasWW _ _ | .mtRmCas _ _ _ | .mtCasAcq _ _ => True
      | _ => False)
    (hs : stepCas s t o loc exp new obs ok = .ok s') : Inv9 s' := by
  unfold stepCas at hs
  split at hs
  all_goals try (rename_i heq; rw [heq] at hp; exact False.elim hp)
  all_goals try (rename_i hne; split at hp <;> first | exact False.elim hp | (exfalso; simp_all; done))
  · rename_i heq; cas_case9 t h4 h heq hs   -- lkCas0
  · rename_i heq; cas_case9 t h4 h heq hs   -- lkCas1
  · rename_i heq; cas_case9 t h4 h heq hs   -- tryCas0
  · rename_i heq; cas_case9 t h4 h heq hs   -- tryCas1
  · -- lsCasAcq
    rename_i c old heq
    rcases casWord_ok hs with ⟨hw, -, hs'⟩ | ⟨-, -, hs'⟩ <;> subst hs'
    · cases hmw : c.mw with
      | none =>
        simp only []
        cases hcw : c.w with
        | none => simp only [dropW]; inv9_local t h4 h heq
        | some k => simp only [dropW]; inv9_local t h4 h heq
      | some m =>
        have hif : ∀ s1 : State, (if m.cond.isSome = true then setPc s1 t (PC.mwEval m) else mwLoop s1 t m true)
            = setPc s1 t (if m.cond.isSome = true then PC.mwEval m else loopPc m true) := by
          intro s1; split <;> simp [mwLoop_eq]
        simp only [hif]
        split <;> inv9_local t h4 h heq
    · inv9_local t h4 h heq
  · rename_i heq; cas_case9 t h4 h heq hs   -- lsCasEnq
  · rename_i heq; cas_case9 t h4 h heq hs   -- lsRelCas
  · rename_i heq; cas_case9 t h4 h heq hs   -- ulCas0
  · rename_i heq; cas_case9 t h4 h heq hs   -- ulCas1
  · -- usCasUnc
    rename_i r old heq
    have hok := h1.pcok t; rw [heq] at hok
    simp only [afterWakes_eq] at hs
    cases r with
    | ul l nw => cas_case9 t h4 h heq hs
    | mw c =>
      simp only [PC.ok, Ret.ok, MW.inner] at hok
      cas_case9 t h4 h heq hs
  · rename_i heq; cas_case9 t h4 h heq hs   -- mwRelCas
  · rename_i heq; cas_case9 t h4 h heq hs   -- mtCasAcq
  · rename_i heq; cas_case9 t h4 h heq hs   -- mtCasWW
  · rename_i heq; ld_case9 t h4 h heq hs    -- mtRmCas

end NsyncVerif.MuC
