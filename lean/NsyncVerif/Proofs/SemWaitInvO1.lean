/-
  Proofs/SemWaitInvO1.lean — preservation of the invariant by the effects of a thread step: `p1`, `o0`, `o6`.
-/
import NsyncVerif.Proofs.SemWaitTac

namespace SemWait
set_option maxHeartbeats 400000
set_option linter.unusedVariables false

theorem o_p1 {cfg : Config} {s s' : State} {t : Tid} (hc : cfg.noReread = false) (ha : InvA s) (ho : InvO s) (he : Eff cfg s t s') :
    ∀ t, asleep (s'.pc t) = true →
        (s'.fr t).locald = dmin (s'.fr t).dl (s'.note (s'.fr t).note).expiry
        ∧ (s'.fr t).nearer = dlt (s'.fr t).dl (s'.note (s'.fr t).note).expiry := by
  have p1 := ho.p1
  have i5 := ha.i5
  eff_cases he
  case nop  =>
    clear ha ho; clear i5; grind [asleep, ndNext, nfNext]
  case semV j =>
    clear ha ho; clear i5; grind [asleep, ndNext, nfNext]
  case semP j c hu hs =>
    clear ha ho; clear i5; grind [asleep, ndNext, nfNext]
  case lock k hp hl =>
    clear ha ho; clear i5; grind [asleep, ndNext, nfNext]
  case unlock k hp hl hpost hfq =>
    clear ha ho; clear i5; grind [asleep, ndNext, nfNext]
  case setFlag k hp hl hk hf hd =>
    clear ha ho; clear i5; grind [asleep, ndNext, nfNext]
  case born k p hp hk hfr hne hl hf htp =>
    clear ha ho; clear i5; grind [asleep, ndNext, nfNext]
  case pop r tl hp hqu hl hf hpost =>
    clear ha ho; clear i5; grind [asleep, ndNext, nfNext]
  case postDead r j hp hpost hlive =>
    clear ha ho; clear i5; grind [asleep, ndNext, nfNext]
  case postBound r j hp hpost hlive hsem =>
    clear ha ho; clear i5; grind [asleep, ndNext, nfNext]
  case postBind r j hp hpost hlive hsem huser =>
    clear ha ho; clear i5; grind [asleep, ndNext, nfNext]
  case newNote k ex hp hk =>
    clear ha ho; grind [asleep, asleep_inCall]
  case inherit k p hp hk hfr hne =>
    clear ha ho; grind [asleep, asleep_inCall]
  case call n dl hpc hk hpost hl =>
    clear ha ho; clear i5; grind [asleep, ndNext, nfNext]
  case openEnd u hpc hf hl hpost hqu =>
    clear ha ho; cases u <;> (clear i5; grind [asleep, ndNext, nfNext])
  case nd_ld0_set u hpc hf =>
    clear ha ho; cases u <;> (clear i5; grind [asleep, ndNext, nfNext])
  case nd_ld0_clr u hpc hf =>
    clear ha ho; cases u <;> (clear i5; grind [asleep, ndNext, nfNext])
  case nd_lk u hpc hl =>
    clear ha ho; cases u <;> (clear i5; grind [asleep, ndNext, nfNext])
  case nd_ld1 u hpc =>
    clear ha ho; cases u <;> (clear i5; grind [asleep, ndNext, nfNext])
  case nd_ulk_done u obs hpc hl hob =>
    clear ha ho; cases u <;> (clear i5; grind [asleep, ndNext, nfNext])
  case nd_ulk_now u obs hpc hl hob =>
    clear ha ho; cases u <;> (clear i5; grind [asleep, ndNext, nfNext])
  case nd_now_exp u hpc hx =>
    clear ha ho; cases u <;> (clear i5; grind [asleep, ndNext, nfNext])
  case nd_now_ok u hpc hx =>
    clear ha ho; cases u <;> (clear i5; grind [asleep, ndNext, nfNext])
  case nf_lk u hpc hl =>
    clear ha ho; cases u <;> (clear i5; grind [asleep, ndNext, nfNext])
  case nf_ld_ulk u hpc hf =>
    clear ha ho; cases u <;> (clear i5; grind [asleep, ndNext, nfNext])
  case nf_ld_open u hpc hf =>
    clear ha ho; cases u <;> (clear i5; grind [asleep, ndNext, nfNext])
  case nf_ulk u hpc hl =>
    clear ha ho; cases u <;> (clear i5; grind [asleep, ndNext, nfNext])
  case m_init r hpc hlive =>
    clear ha ho; clear i5; grind [asleep, ndNext, nfNext]
  case m_lk1 hpc hl =>
    clear ha ho; clear i5; grind [asleep, ndNext, nfNext]
  case m_ld49_enq r hpc hen hnw =>
    clear ha ho; clear i5; grind [asleep, ndNext, nfNext]
  case m_ld49_no hpc hen =>
    clear ha ho; clear i5; grind [asleep, ndNext, nfNext]
  case m_ulk1 b hpc hl =>
    clear ha ho; clear i5; grind [asleep, ndNext, nfNext]
  case m_pdEnterBound j hpc hsem =>
    clear ha ho; clear i5; grind [asleep, ndNext, nfNext]
  case m_pdEnterBind j hpc hsem huser =>
    clear ha ho; clear i5; grind [asleep, ndNext, nfNext]
  case m_tmoNear j hpc hx hn =>
    clear ha ho; clear i5; grind [asleep, ndNext, nfNext]
  case m_tmoFar j hpc hx hn =>
    clear ha ho; clear i5; grind [asleep, ndNext, nfNext]
  case m_p0 j c hpc hs =>
    clear ha ho; clear i5; grind [asleep, ndNext, nfNext]
  case m_lk2 hpc hl =>
    clear ha ho; clear i5; grind [asleep, ndNext, nfNext]
  case m_ld68_rm r hpc htp hnw hm =>
    clear ha ho; clear i5; grind [asleep, ndNext, nfNext]
  case m_ld68_no hpc htp =>
    clear ha ho; clear i5; grind [asleep, ndNext, nfNext]
  case m_ulk2 hpc hl =>
    clear ha ho; clear i5; grind [asleep, ndNext, nfNext]
  case m_ret hpc =>
    clear ha ho; clear i5; grind [asleep, ndNext, nfNext]

theorem o_o0 {cfg : Config} {s s' : State} {t : Tid} (hc : cfg.noReread = false) (ha : InvA s) (ho : InvO s) (he : Eff cfg s t s') :
    ∀ t, early (s'.pc t) = true → (s'.fr t).out = .cancelled := by
  have o0 := ho.o0
  eff_cases he
  case nop  =>
    clear ha ho; grind [early, ndNext, nfNext]
  case semV j =>
    clear ha ho; grind [early, ndNext, nfNext]
  case semP j c hu hs =>
    clear ha ho; grind [early, ndNext, nfNext]
  case lock k hp hl =>
    clear ha ho; grind [early, ndNext, nfNext]
  case unlock k hp hl hpost hfq =>
    clear ha ho; grind [early, ndNext, nfNext]
  case setFlag k hp hl hk hf hd =>
    clear ha ho; grind [early, ndNext, nfNext]
  case born k p hp hk hfr hne hl hf htp =>
    clear ha ho; grind [early, ndNext, nfNext]
  case pop r tl hp hqu hl hf hpost =>
    clear ha ho; grind [early, ndNext, nfNext]
  case postDead r j hp hpost hlive =>
    clear ha ho; grind [early, ndNext, nfNext]
  case postBound r j hp hpost hlive hsem =>
    clear ha ho; grind [early, ndNext, nfNext]
  case postBind r j hp hpost hlive hsem huser =>
    clear ha ho; grind [early, ndNext, nfNext]
  case newNote k ex hp hk =>
    clear ha ho; grind [early, ndNext, nfNext]
  case inherit k p hp hk hfr hne =>
    clear ha ho; grind [early, ndNext, nfNext]
  case call n dl hpc hk hpost hl =>
    clear ha ho; grind [early, ndNext, nfNext]
  case openEnd u hpc hf hl hpost hqu =>
    clear ha ho; cases u <;> (grind [early, ndNext, nfNext])
  case nd_ld0_set u hpc hf =>
    clear ha ho; cases u <;> (grind [early, ndNext, nfNext])
  case nd_ld0_clr u hpc hf =>
    clear ha ho; cases u <;> (grind [early, ndNext, nfNext])
  case nd_lk u hpc hl =>
    clear ha ho; cases u <;> (grind [early, ndNext, nfNext])
  case nd_ld1 u hpc =>
    clear ha ho; cases u <;> (grind [early, ndNext, nfNext])
  case nd_ulk_done u obs hpc hl hob =>
    clear ha ho; cases u <;> (grind [early, ndNext, nfNext])
  case nd_ulk_now u obs hpc hl hob =>
    clear ha ho; cases u <;> (grind [early, ndNext, nfNext])
  case nd_now_exp u hpc hx =>
    clear ha ho; cases u <;> (grind [early, ndNext, nfNext])
  case nd_now_ok u hpc hx =>
    clear ha ho; cases u <;> (grind [early, ndNext, nfNext])
  case nf_lk u hpc hl =>
    clear ha ho; cases u <;> (grind [early, ndNext, nfNext])
  case nf_ld_ulk u hpc hf =>
    clear ha ho; cases u <;> (grind [early, ndNext, nfNext])
  case nf_ld_open u hpc hf =>
    clear ha ho; cases u <;> (grind [early, ndNext, nfNext])
  case nf_ulk u hpc hl =>
    clear ha ho; cases u <;> (grind [early, ndNext, nfNext])
  case m_init r hpc hlive =>
    clear ha ho; grind [early, ndNext, nfNext]
  case m_lk1 hpc hl =>
    clear ha ho; grind [early, ndNext, nfNext]
  case m_ld49_enq r hpc hen hnw =>
    clear ha ho; grind [early, ndNext, nfNext]
  case m_ld49_no hpc hen =>
    clear ha ho; grind [early, ndNext, nfNext]
  case m_ulk1 b hpc hl =>
    clear ha ho; grind [early, ndNext, nfNext]
  case m_pdEnterBound j hpc hsem =>
    clear ha ho; grind [early, ndNext, nfNext]
  case m_pdEnterBind j hpc hsem huser =>
    clear ha ho; grind [early, ndNext, nfNext]
  case m_tmoNear j hpc hx hn =>
    clear ha ho; grind [early, ndNext, nfNext]
  case m_tmoFar j hpc hx hn =>
    clear ha ho; grind [early, ndNext, nfNext]
  case m_p0 j c hpc hs =>
    clear ha ho; grind [early, ndNext, nfNext]
  case m_lk2 hpc hl =>
    clear ha ho; grind [early, ndNext, nfNext]
  case m_ld68_rm r hpc htp hnw hm =>
    clear ha ho; grind [early, ndNext, nfNext]
  case m_ld68_no hpc htp =>
    clear ha ho; grind [early, ndNext, nfNext]
  case m_ulk2 hpc hl =>
    clear ha ho; grind [early, ndNext, nfNext]
  case m_ret hpc =>
    clear ha ho; grind [early, ndNext, nfNext]

theorem o_o6 {cfg : Config} {s s' : State} {t : Tid} (hc : cfg.noReread = false) (ha : InvA s) (ho : InvO s) (he : Eff cfg s t s') :
    ∀ t, inL65 (s'.pc t) = true → (s'.fr t).out = .cancelled := by
  have o6 := ho.o6
  eff_cases he
  case nop  =>
    clear ha ho; grind [inL65, ndNext, nfNext]
  case semV j =>
    clear ha ho; grind [inL65, ndNext, nfNext]
  case semP j c hu hs =>
    clear ha ho; grind [inL65, ndNext, nfNext]
  case lock k hp hl =>
    clear ha ho; grind [inL65, ndNext, nfNext]
  case unlock k hp hl hpost hfq =>
    clear ha ho; grind [inL65, ndNext, nfNext]
  case setFlag k hp hl hk hf hd =>
    clear ha ho; grind [inL65, ndNext, nfNext]
  case born k p hp hk hfr hne hl hf htp =>
    clear ha ho; grind [inL65, ndNext, nfNext]
  case pop r tl hp hqu hl hf hpost =>
    clear ha ho; grind [inL65, ndNext, nfNext]
  case postDead r j hp hpost hlive =>
    clear ha ho; grind [inL65, ndNext, nfNext]
  case postBound r j hp hpost hlive hsem =>
    clear ha ho; grind [inL65, ndNext, nfNext]
  case postBind r j hp hpost hlive hsem huser =>
    clear ha ho; grind [inL65, ndNext, nfNext]
  case newNote k ex hp hk =>
    clear ha ho; grind [inL65, ndNext, nfNext]
  case inherit k p hp hk hfr hne =>
    clear ha ho; grind [inL65, ndNext, nfNext]
  case call n dl hpc hk hpost hl =>
    clear ha ho; grind [inL65, ndNext, nfNext]
  case openEnd u hpc hf hl hpost hqu =>
    clear ha ho; cases u <;> (grind [inL65, ndNext, nfNext])
  case nd_ld0_set u hpc hf =>
    clear ha ho; cases u <;> (grind [inL65, ndNext, nfNext])
  case nd_ld0_clr u hpc hf =>
    clear ha ho; cases u <;> (grind [inL65, ndNext, nfNext])
  case nd_lk u hpc hl =>
    clear ha ho; cases u <;> (grind [inL65, ndNext, nfNext])
  case nd_ld1 u hpc =>
    clear ha ho; cases u <;> (grind [inL65, ndNext, nfNext])
  case nd_ulk_done u obs hpc hl hob =>
    clear ha ho; cases u <;> (grind [inL65, ndNext, nfNext])
  case nd_ulk_now u obs hpc hl hob =>
    clear ha ho; cases u <;> (grind [inL65, ndNext, nfNext])
  case nd_now_exp u hpc hx =>
    clear ha ho; cases u <;> (grind [inL65, ndNext, nfNext])
  case nd_now_ok u hpc hx =>
    clear ha ho; cases u <;> (grind [inL65, ndNext, nfNext])
  case nf_lk u hpc hl =>
    clear ha ho; cases u <;> (grind [inL65, ndNext, nfNext])
  case nf_ld_ulk u hpc hf =>
    clear ha ho; cases u <;> (grind [inL65, ndNext, nfNext])
  case nf_ld_open u hpc hf =>
    clear ha ho; cases u <;> (grind [inL65, ndNext, nfNext])
  case nf_ulk u hpc hl =>
    clear ha ho; cases u <;> (grind [inL65, ndNext, nfNext])
  case m_init r hpc hlive =>
    clear ha ho; grind [inL65, ndNext, nfNext]
  case m_lk1 hpc hl =>
    clear ha ho; grind [inL65, ndNext, nfNext]
  case m_ld49_enq r hpc hen hnw =>
    clear ha ho; grind [inL65, ndNext, nfNext]
  case m_ld49_no hpc hen =>
    clear ha ho; grind [inL65, ndNext, nfNext]
  case m_ulk1 b hpc hl =>
    clear ha ho; grind [inL65, ndNext, nfNext]
  case m_pdEnterBound j hpc hsem =>
    clear ha ho; grind [inL65, ndNext, nfNext]
  case m_pdEnterBind j hpc hsem huser =>
    clear ha ho; grind [inL65, ndNext, nfNext]
  case m_tmoNear j hpc hx hn =>
    clear ha ho; grind [inL65, ndNext, nfNext]
  case m_tmoFar j hpc hx hn =>
    clear ha ho; grind [inL65, ndNext, nfNext]
  case m_p0 j c hpc hs =>
    clear ha ho; grind [inL65, ndNext, nfNext]
  case m_lk2 hpc hl =>
    clear ha ho; grind [inL65, ndNext, nfNext]
  case m_ld68_rm r hpc htp hnw hm =>
    clear ha ho; grind [inL65, ndNext, nfNext]
  case m_ld68_no hpc htp =>
    clear ha ho; grind [inL65, ndNext, nfNext]
  case m_ulk2 hpc hl =>
    clear ha ho; grind [inL65, ndNext, nfNext]
  case m_ret hpc =>
    clear ha ho; grind [inL65, ndNext, nfNext]

end SemWait
