/-
  Layer `CvFix` (cv.c with the repair of F3; adapted from the `Cv` file of the same name): consequences of the invariants in the form used by Props/C04, C13Cv.
-/
import NsyncVerif.Proofs.CvFixInvBAll
import NsyncVerif.Proofs.CvFixInvC

namespace NsyncVerif.CvFix

/-! ### running concrete traces -/

def runD (cfg : Config) (evs : List Event) : State :=
  match run cfg init evs with
  | .ok s => s
  | .error _ => init

def okRun (cfg : Config) (evs : List Event) : Bool :=
  match run cfg init evs with
  | .ok _ => true
  | .error _ => false

theorem run_runD {cfg : Config} {evs : List Event} (h : okRun cfg evs = true) :
    run cfg init evs = .ok (runD cfg evs) := by
  unfold okRun at h; unfold runD
  split at h
  · rename_i s hs; rw [hs]
  · cases h

theorem reachable_runD {cfg : Config} {evs : List Event} (h : okRun cfg evs = true) :
    Reachable cfg (runD cfg evs) := ⟨evs, run_runD h⟩

theorem run_append {cfg : Config} {s : State} {evs : List Event} {e : Event} :
    run cfg s (evs ++ [e]) = match run cfg s evs with
      | .ok s1 => step cfg s1 e
      | .error m => .error m := by
  induction evs generalizing s with
  | nil => simp only [List.nil_append, run]; cases step cfg s e <;> rfl
  | cons a as ih =>
    simp only [List.cons_append, run]
    cases step cfg s a with
    | ok s1 => exact ih
    | error m => rfl

theorem reachable_step {cfg : Config} {s s' : State} {e : Event} (h : Reachable cfg s)
    (hs : step cfg s e = .ok s') : Reachable cfg s' := by
  obtain ⟨evs, he⟩ := h
  refine ⟨evs ++ [e], ?_⟩
  rw [run_append, he]; exact hs

/-! ### accepted events -/

theorem relMark_accepted {cfg : Config} {s s' : State} {t : Tid} {op : MuOp}
    (hs : step cfg s (.relMark t op) = .ok s') : (s.thr t).loc = .wUnlock := by
  simp only [step, need_ok] at hs; exact hs.1

theorem wCmp_accepted {cfg : Config} {s s' : State} {t : Tid} {r : Rid} {obs : Nat}
    (hs : step cfg s (.recLd t .wCmp r obs) = .ok s') :
    (s.thr t).loc = .wCmp ∧ r = (s.thr t).r ∧ obs = (s.recs r).rc := by
  simp only [step] at hs
  unfold stepRecLd at hs
  split at hs
  · cases hs
  · rename_i y hy
    have hS := settle_inv hy
    dsimp only at hs
    split at hs <;> try contradiction
    rename_i hl
    have := settle_id_of_loc hS (by simp [hl]) (by simp [hl]); subst this
    simp only [need_ok] at hs
    exact ⟨hl, hs.1, hs.2.1⟩

/-- The loop of the wait is left: the record becomes idle. -/
theorem wHead_exit_accepted {cfg : Config} {s s' : State} {t : Tid} {r : Rid}
    (hs : step cfg s (.recLd t .wHead r 0) = .ok s') :
    (s.thr t).loc = .wHead ∧ r = (s.thr t).r ∧ (s'.recs r).stat = .idle ∧ (s'.thr t).loc = .wExit ∧
    (s'.thr t).exitUnl = (s.recs r).unl ∧ (s'.thr t).r = r ∧ (s'.thr t).out = (s.thr t).out := by
  simp only [step] at hs
  unfold stepRecLd at hs
  split at hs
  · cases hs
  · rename_i y hy
    have hS := settle_inv hy
    dsimp only at hs
    split at hs <;> try contradiction
    rename_i hl
    have := settle_id_of_loc hS (by simp [hl]) (by simp [hl]); subst this
    simp only [need_ok] at hs
    obtain ⟨hr, _, hs⟩ := hs
    simp only [if_true] at hs
    cases hs
    subst hr
    simp [hl]

theorem retBroadcast_accepted {cfg : Config} {s s' : State} {t : Tid}
    (hs : step cfg s (.retBroadcast t) = .ok s') : (s.thr t).loc = .kRet ∧ (s.thr t).bcast = true := by
  simp only [step] at hs
  obtain ⟨hok, _⟩ := stepRet_ok hs
  simpa using hok

theorem retSignal_accepted {cfg : Config} {s s' : State} {t : Tid}
    (hs : step cfg s (.retSignal t) = .ok s') : (s.thr t).loc = .kRet ∧ (s.thr t).bcast = false := by
  simp only [step] at hs
  obtain ⟨hok, _⟩ := stepRet_ok hs
  simpa using hok

/-- The successor state of a successful CAS on the cv word by signal / broadcast. -/
theorem acq_sig_state {cfg : Config} {s s' : State} {t : Tid} {exp new obs : Nat}
    (hs : step cfg s (.wordCas t exp new obs true) = .ok s') (hc : (s.thr t).cont = .sig) :
    (s.thr t).loc = .spCas ∧
    s'.queue = s.queue.filter
      (fun r => !((if (s.thr t).bcast then s.queue else sigSelect s.recs s.queue).contains r)) ∧
    (∀ r, s'.recs r =
      if (if (s.thr t).bcast then s.queue else sigSelect s.recs s.queue).contains r then
        { s.recs r with stat := .listed t, unl := (s.recs r).unl ++ [Unl.waker t] } else s.recs r) ∧
    (s'.thr t).list = (if (s.thr t).bcast then s.queue else sigSelect s.recs s.queue) := by
  simp only [step, stepWordCas, need_ok] at hs
  obtain ⟨hl, _, _, _, _, hs⟩ := hs
  simp only [if_true] at hs
  split at hs
  · cases hs
    refine ⟨hl, ?_⟩
    unfold afterAcquire
    simp only [hc]
    refine ⟨trivial, fun r => trivial, ?_⟩
    simp
  · cases hs


/-- `cv_dequeue` returns through the release of the spinlock with `being_woken == 0`. -/
theorem deqRel_accepted {cfg : Config} {s s' : State} {t : Tid} {new obs : Nat}
    (hs : step cfg s (.wordSt t .deqRel new obs) = .ok s') (hl : (s.thr t).loc = .nDeqRel) :
    ∃ n : Word, s' = ({ s with word := n, holder := none }.setRec (s.thr t).r
            { s.recs (s.thr t).r with
                stat := match (s.recs (s.thr t).r).stat with | .listed u => RStat.listed u | _ => RStat.idle }
          |>.setThr t { s.thr t with loc := .nOut, mine := (s.thr t).mine.erase (s.thr t).r }) := by
  simp only [step] at hs
  unfold stepWordSt at hs
  simp only [hl, need_ok] at hs
  obtain ⟨_, hs⟩ := hs
  obtain ⟨_, n, _, _, hs⟩ := release_ok hs
  cases hs
  exact ⟨n, rfl⟩

/-- `cv_dequeue` returns from its wait loop: the load observes `waiting == 0`. -/
theorem deqSpin_exit_accepted {cfg : Config} {s s' : State} {t : Tid} {r : Rid}
    (hs : step cfg s (.recLd t .deqSpin r 0) = .ok s') :
    (s.thr t).loc = .nDeqSpin ∧ r = (s.thr t).r ∧ (s.recs r).waiting = false ∧
    s' = (s.setRec r
            { s.recs r with stat := match (s.recs r).stat with | .listed u => RStat.listed u | _ => RStat.idle }
          |>.setThr t { s.thr t with loc := .nOut, mine := (s.thr t).mine.erase r }) := by
  simp only [step] at hs
  unfold stepRecLd at hs
  split at hs
  · cases hs
  · rename_i y hy
    have hS := settle_inv hy
    dsimp only at hs
    split at hs <;> try contradiction
    rename_i hl
    have := settle_id_of_loc hS (by simp [hl]) (by simp [hl]); subst this
    simp only [need_ok] at hs
    obtain ⟨hr, ho, hs⟩ := hs
    simp only [if_true] at hs
    cases hs
    exact ⟨hl, hr, b2n_eq_zero.mp ho.symm, rfl⟩

/-! ### the selection of nsync_cv_signal -/

theorem pickReaders_readers (recs : Rid → Rec) (l : List Rid) (w : Bool) (r : Rid) (hr : r ∈ l)
    (hrd : isReader recs r = true) : r ∈ pickReaders recs l w := by
  induction l generalizing w with
  | nil => cases hr
  | cons p ps ih =>
    simp only [pickReaders]
    rcases List.mem_cons.mp hr with rfl | hr
    · simp [hrd]
    · split
      · exact List.mem_cons_of_mem _ (ih w hr)
      · split
        · exact ih w hr
        · exact List.mem_cons_of_mem _ (ih true hr)

theorem pickReaders_nonreaders (recs : Rid → Rec) (l : List Rid) (w : Bool) :
    ((pickReaders recs l w).filter (fun r => !isReader recs r)).length ≤ (if w then 0 else 1) := by
  induction l generalizing w with
  | nil => simp [pickReaders]
  | cons p ps ih =>
    simp only [pickReaders]
    by_cases hp : isReader recs p = true
    · simp only [hp, if_true, List.filter_cons, Bool.not_true, Bool.false_eq_true, if_false]
      exact ih w
    · simp only [hp, if_false]
      cases w with
      | true => simpa using ih true
      | false =>
        simp only [Bool.false_eq_true, if_false, List.filter_cons]
        have hp' : (!isReader recs p) = true := by simpa using hp
        simp only [hp', if_true, List.length_cons]
        have := ih true
        simp at this
        simp
        exact this

/-- cv.c:338-383: if the first waiter is a reader, every reader in the queue is selected. -/
theorem sigSelect_readers (recs : Rid → Rec) (f : Rid) (rest : List Rid) (hf : isReader recs f = true)
    (r : Rid) (hr : r ∈ f :: rest) (hrd : isReader recs r = true) : r ∈ sigSelect recs (f :: rest) := by
  simp only [sigSelect, hf, if_true]
  rcases List.mem_cons.mp hr with rfl | hr
  · simp
  · exact List.mem_cons_of_mem _ (pickReaders_readers recs rest false r hr hrd)

/-- … and at most one record that is not a reader. -/
theorem sigSelect_nonreaders (recs : Rid → Rec) (l : List Rid) :
    ((sigSelect recs l).filter (fun r => !isReader recs r)).length ≤ 1 := by
  cases l with
  | nil => simp [sigSelect]
  | cons f rest =>
    simp only [sigSelect]
    by_cases hf : isReader recs f = true
    · simp only [hf, if_true, List.filter_cons, Bool.not_true, Bool.false_eq_true, if_false]
      simpa using pickReaders_nonreaders recs rest false
    · simp only [hf, if_false]
      simp [List.filter_cons]
      split <;> simp

end NsyncVerif.CvFix
