/-
  Layer `CvFix` (cv.c with the repair of F3; adapted from the `Cv` file of the same name): structural invariant — acquisition of the spinlock (continuations wait-enqueue,
  wait-check, wait_n).
-/
import NsyncVerif.Proofs.CvFixInvALock

namespace NsyncVerif.CvFix

theorem acq_words {w n : Word} {b : Bool} (hs : w.spin = false)
    (hn : Word.dec? (w.enc + 1 + (if b = true ∧ w.enc / 2 % 2 = 0 then 2 else 0)) = some n) :
    n.spin = true ∧ n.ne = (w.ne || b) := by
  cases w with | mk sp ne =>
  simp at hs; subst hs
  cases ne <;> cases b <;> simp [Word.enc, Word.dec?] at hn <;> subst hn <;> simp

/-- What the guards of a successful CAS on the cv word say. -/
theorem acq_facts {s : State} (hi : InvA s) {t : Tid} {exp new obs : Nat} {o n : Word}
    (hl : (s.thr t).loc = .spCas) (hexp : exp = (s.thr t).casExp) (hw : obs = s.word.enc) (he : obs = exp)
    (ho : Word.dec? exp = some o) (hn : Word.dec? new = some n)
    (hnew : new = exp + 1 + (if (s.thr t).setNE ∧ exp / 2 % 2 = 0 then 2 else 0)) :
    o = s.word ∧ s.word.spin = false ∧ s.holder = none ∧ n.spin = true ∧ n.ne = (s.word.ne || (s.thr t).setNE) ∧
    (∀ u, (s.thr u).loc.holds = false) := by
  have hev := (hi.thr t).casEven hl
  have e1 : exp = s.word.enc := by rw [← he, hw]
  have hsp : s.word.spin = false := enc_even_spin (by rw [← e1, hexp]; exact hev)
  have hnone : s.holder = none := by
    have := hi.spin; rw [hsp] at this
    cases h : s.holder with
    | none => rfl
    | some v => rw [h] at this; simp at this
  have ho' : o = s.word := by
    rw [e1, enc_dec] at ho; cases ho; rfl
  subst hnew
  rw [e1] at hn
  obtain ⟨n1, n2⟩ := acq_words hsp hn
  exact ⟨ho', hsp, hnone, n1, n2, hi.nobody_holds hsp⟩

/-- Acquisition without any change of records: wait-check (cv.c:252), wait_n (cv.c:463/475) and
    emit_cv_state (debug.c:248). -/
theorem invA_acq_plain {s : State} (hi : InvA s) (t : Tid) (n : Word) (lnew : Loc) (hl : (s.thr t).loc = .spCas)
    (hc : (s.thr t).cont = .waitChk ∧ lnew = .wChk2 ∨ (s.thr t).cont = .waitn ∧ lnew = .nLocked ∨
      (s.thr t).cont = .dbg ∧ lnew = .dWalk)
    (hnone : s.holder = none) (hn1 : n.spin = true)
    (hsp : s.word.spin = false) (hfree : ∀ u, (s.thr u).loc.holds = false) :
    InvA ({ s with word := n, holder := some t }.setThr t { s.thr t with old := s.word, loc := lnew }) := by
  tfacts hl
  have hlist : (s.thr t).list = [] := t1 trivial
  have hln : lnew.holds = true := by rcases hc with ⟨_, h⟩ | ⟨_, h⟩ | ⟨_, h⟩ <;> simp [h, Loc.holds]
  refine invA_one (t := t) (r := (s.thr t).r) hi (fun u hu => by simp [hu]) (fun q _ => rfl) (fun u _ => hfree u)
    (by simp [hn1]) (.inl ⟨rfl, by simpa using hln⟩) (by intro _; simpa [hsp] using hi.free hnone)
    (by simp) hi.qNd hi.qMem (fun h => h.elim (hi.qWait _) (hi.pWait _)) (by simpa using hi.lNd t)
    (by simpa using hi.lMem t) (fun u _ => Iff.rfl) (fun h => .inr (RecOK.rfl' h)) ?_ ?_
  · rcases hc with ⟨hc, rfl⟩ | ⟨hc, rfl⟩ | ⟨hc, rfl⟩
    · simp only [hc] at t2 t3 t8
      constructor <;> simp [waitLive, waitPrep, inWaitN, Loc.wakePhase, hlist] <;> simp_all
    · simp only [hc] at t2 t3 t8
      constructor <;> simp [waitLive, waitPrep, inWaitN, Loc.wakePhase, hlist] <;> simp_all
    · simp only [hc] at t2 t3 t8
      constructor <;> simp [waitLive, waitPrep, inWaitN, Loc.wakePhase, hlist] <;> simp_all
  · intro u hb1 hb2
    by_cases hu : u = t
    · subst hu; rcases hc with ⟨_, rfl⟩ | ⟨_, rfl⟩ | ⟨_, rfl⟩ <;> simp at hb2
    · simp [hu] at hb2
      have := hfree u
      rcases hb2 with hb2 | hb2 | hb2 <;> simp [hb2, Loc.holds] at this

/-- Acquisition by the enqueue of a cv wait (cv.c:228-229). -/
theorem invA_acq_waitEnq {s : State} (hi : InvA s) (t : Tid) (n : Word) (hl : (s.thr t).loc = .spCas)
    (hc : (s.thr t).cont = .waitEnq) (hnone : s.holder = none) (hn1 : n.spin = true)
    (hfree : ∀ u, (s.thr u).loc.holds = false) :
    InvA (({ s with word := n, holder := some t, queue := s.queue ++ [(s.thr t).r] }).setRec (s.thr t).r
            { s.recs (s.thr t).r with stat := .queued }
          |>.setThr t { s.thr t with old := { spin := false, ne := true }, loc := .wEnq }) := by
  tfacts hl
  simp only [hc] at t2 t3 t8
  obtain ⟨hst, hown, hmu⟩ := t2 (by simp)
  have hlist : (s.thr t).list = [] := t1 trivial
  have hrq : (s.thr t).r ∉ s.queue := fun e => by have := (hi.qMem _).mp e; rw [hst] at this; cases this
  have hmine : (s.thr t).mine = [] := t8 (by simp)
  refine invA_one (t := t) (r := (s.thr t).r) hi (fun u hu => by simp [hu]) (fun q hq => by simp [hq])
    (fun u _ => hfree u) (by simp [hn1]) (.inl ⟨rfl, by simp [Loc.holds]⟩) (by simp) (by simp) ?_ ?_
    (by intro _; simpa using hi.pWait _ hst) (by simp [hlist]) ?_ (by simp [hst]) (fun _ => .inl hown) ?_ ?_
  · simp only [setThr_queue, setRec_queue]
    rw [List.nodup_append]
    refine ⟨hi.qNd, by simp, ?_⟩
    intro a ha b hb; simp at hb; subst hb; exact fun e => hrq (e ▸ ha)
  · intro q
    simp only [setThr_queue, setRec_queue, setThr_recs, setRec_recs, List.mem_append, List.mem_singleton]
    by_cases hq : q = (s.thr t).r
    · subst hq; simp
    · simp [hq]; exact hi.qMem q
  · intro q
    simp only [setThr_thr, if_true, setThr_recs, setRec_recs, hlist]
    by_cases hq : q = (s.thr t).r
    · subst hq; simp
    · simp [hq]; have := (hi.lMem t q).mpr; simp [hlist] at this; exact this
  · constructor <;> simp [waitLive, waitPrep, inWaitN, Loc.wakePhase, hlist, hmine, hown, hmu, RStat.live]
  · intro u hb1 hb2
    by_cases hu : u = t
    · subst hu; simp at hb2
    · simp [hu] at hb2
      have := hfree u
      rcases hb2 with hb2 | hb2 | hb2 <;> simp [hb2, Loc.holds] at this

end NsyncVerif.CvFix
