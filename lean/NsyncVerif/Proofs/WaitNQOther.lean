/-
  Proofs/WaitNQOther.lean — the facts `CF` of a caller survive the steps of other threads.
-/
import NsyncVerif.Proofs.WaitNQUpd4

set_option linter.unusedSimpArgs false
set_option linter.unusedVariables false

namespace WaitN

theorem holdsAt_sem (p : PC) (f : Frame) (v) : holdsAt p { f with sem := v } = holdsAt p f := by
  cases p with
  | wEnq i st => cases st <;> rfl
  | wDeq j st => cases st <;> rfl
  | wND u i st => cases st <;> rfl
  | _ => rfl
theorem freshAt_sem (p : PC) (f : Frame) (v) : freshAt p { f with sem := v } = freshAt p f := by
  cases p with
  | wEnqCv i st => cases st <;> rfl
  | wEnq i st => cases st <;> rfl
  | _ => rfl
theorem clearedAt_sem (p : PC) (f : Frame) (v) : clearedAt p { f with sem := v } = clearedAt p f := by
  cases p with
  | wDeq j st => cases st <;> rfl
  | wDeqCv j st => cases st <;> rfl
  | _ => rfl
theorem enqTrueAt_sem (p : PC) (f : Frame) (v) : enqTrueAt p { f with sem := v } = enqTrueAt p f := by
  cases p with
  | wEnq i st => cases st with
    | store b => cases b <;> rfl
    | unlockCall b => cases b <;> rfl
    | _ => rfl
  | _ => rfl
theorem dqIdx_sem (p : PC) (f : Frame) (v) : dqIdx p { f with sem := v } = dqIdx p f := by
  cases p with
  | wND u i st => cases u <;> rfl
  | wDeq j st => cases st <;> rfl
  | _ => rfl

/-- membership of the held object in the call's object list -/
theorem holdsAt_mem {p : PC} {f : Frame} {o : ObjId} (h : holdsAt p f = some o) : o ∈ f.objs := by
  cases p with
  | wEnq i st => cases st <;> simp [holdsAt] at h <;> exact List.mem_of_getElem? h
  | wDeq j st => cases st <;> simp [holdsAt] at h <;> exact List.mem_of_getElem? h
  | wND u i st => cases st <;> simp [holdsAt] at h <;> exact List.mem_of_getElem? h
  | _ => simp [holdsAt] at h

theorem holdsAt_inCall {p : PC} {f : Frame} {o : ObjId} (h : holdsAt p f = some o) : inCall p = true := by
  cases p <;> simp [holdsAt] at h <;> rfl

theorem freshAt_mem {p : PC} {f : Frame} {r : Rid} (h : freshAt p f = some r) : r ∈ f.recs ∧ inCall p = true := by
  cases p with
  | wEnqCv i st => cases st <;> simp [freshAt] at h <;> exact ⟨List.mem_of_getElem? h, rfl⟩
  | wEnq i st => cases st <;> simp [freshAt] at h <;> exact ⟨List.mem_of_getElem? h, rfl⟩
  | _ => simp [freshAt] at h

theorem clearedAt_mem {p : PC} {f : Frame} {r : Rid} (h : clearedAt p f = some r) : r ∈ f.recs ∧ inCall p = true := by
  cases p with
  | wDeq j st => cases st <;> simp [clearedAt] at h <;> exact ⟨List.mem_of_getElem? h, rfl⟩
  | wDeqCv j st => cases st <;> simp [clearedAt] at h <;> exact ⟨List.mem_of_getElem? h, rfl⟩
  | _ => simp [clearedAt] at h

theorem enqTrueAt_holds {p : PC} {f : Frame} {o : ObjId} (h : enqTrueAt p f = some o) : holdsAt p f = some o := by
  cases p with
  | wEnq i st => cases st with
    | store b => cases b <;> simp [enqTrueAt] at h <;> simpa [holdsAt] using h
    | unlockCall b => cases b <;> simp [enqTrueAt] at h <;> simpa [holdsAt] using h
    | _ => simp [enqTrueAt] at h
  | _ => simp [enqTrueAt] at h

/-- frees = 0 at the program points where the caller still works on its records -/
theorem frees_of_freshOrCleared {p : PC} {f : Frame} (hl : LInv p f) (h : (freshAt p f).isSome ∨ (clearedAt p f).isSome) :
    f.frees = 0 := by
  rcases frees_of_linv hl with h1 | h1
  · cases p <;> simp [PostPc, freshAt, clearedAt] at h1 h
  · exact h1

/-- the facts of thread u survive a step of another thread t -/
theorem cf_other {s s' : State} {t u : Tid} {e : Ev} (hne : u ≠ t) (ho : Own s) (hkn : Known s)
    (hl : ∀ x, LInv (s.pc x) (s.fr x)) (hcf : CF s u) (hs : stepThr s t e = .ok s') : CF s' u := by
  obtain ⟨h1, _, _, h4⟩ := others_stepThr hs u hne
  have f2 := frame2_stepThr (hl t) hs
  have m := mono_stepThr hs
  -- a record of u's frame is not one t may enqueue
  have notEnq : ∀ r, r ∈ (s.fr u).recs → inCall (s.pc u) = true → (s.fr u).frees = 0 →
      (s.rcd r).waiting = false → (s'.rcd r).waiting = false := by
    intro r hr hc hf hw
    cases hw' : (s'.rcd r).waiting with
    | false => rfl
    | true =>
      obtain ⟨i, hpc, hri⟩ := m.wtrue r hw hw'
      have hct : inCall (s.pc t) = true := by rcases hpc with h | h <;> rw [h] <;> rfl
      have hft : (s.fr t).frees = 0 := by
        have := hl t
        rcases hpc with h | h <;> rw [h] at this <;> exact this.1.frees
      have o1 := (ho.own u r hc hf hr).2
      have o2 := (ho.own t r hct hft (List.mem_of_getElem? hri)).2
      exact absurd (o1.symm.trans o2) hne
  have hfr : s'.fr u = { s.fr u with sem := (s'.fr u).sem } := h4
  constructor
  · intro o hh
    rw [h1, hfr, holdsAt_sem] at hh
    obtain ⟨a1, a2⟩ := hcf.holds o hh
    have hk := hkn u (holdsAt_inCall hh) o (holdsAt_mem hh)
    have hlk : (s.obj o).lock ≠ some t := by rw [a1]; intro h; cases h; exact hne rfl
    obtain ⟨b1, b2⟩ := f2.obj o hk hlk
    refine ⟨?_, ?_⟩
    · rcases f2.lock o with h | ⟨h, _⟩ | ⟨h, _⟩
      · rw [h]; exact a1
      · rw [a1] at h; cases h
      · rw [a1] at h; cases h; exact absurd rfl hne
    · rw [h1]; intro hn hw; rw [b1]; exact a2 hn (b2 ▸ hw)
  · intro r hh
    rw [h1, hfr, freshAt_sem] at hh
    have hm := freshAt_mem hh
    exact notEnq r hm.1 hm.2 (frees_of_freshOrCleared (hl u) (.inl (by rw [hh]; rfl))) (hcf.fresh r hh)
  · intro r hh
    rw [h1, hfr, clearedAt_sem] at hh
    have hm := clearedAt_mem hh
    exact notEnq r hm.1 hm.2 (frees_of_freshOrCleared (hl u) (.inr (by rw [hh]; rfl))) (hcf.cleared r hh)
  · intro o hh
    rw [h1, hfr, enqTrueAt_sem] at hh
    obtain ⟨a1, a2⟩ := hcf.enqT o hh
    have hh' := enqTrueAt_holds hh
    have hlo := (hcf.holds o hh').1
    have hk := hkn u (holdsAt_inCall hh') o (holdsAt_mem hh')
    have hlk : (s.obj o).lock ≠ some t := by rw [hlo]; intro h; cases h; exact hne rfl
    obtain ⟨b1, b2⟩ := f2.obj o hk hlk
    exact ⟨by rw [b2]; exact a1, fun n hn => by rw [m.expiry o hk]; exact a2 n hn⟩
  · intro hc hf k r hr
    rw [h1] at hc ⊢
    rw [hfr] at hf hr ⊢
    simp only at hf hr
    rw [dqIdx_sem]
    have hmem := List.mem_of_getElem? hr
    have hlo := ho.own u r hc hf hmem
    rcases f2.rcd r hlo.1 with ⟨_, _, _, hd⟩ | ⟨hrt, hct, hft⟩
    · rw [hd]; exact hcf.dq hc hf k r hr
    · exact absurd (hlo.2.symm.trans (ho.own t r hct hft hrt).2) hne

end WaitN
