import NsyncVerif.Proofs.MuCInv7Cas
/-
  MuC, MU_ALL_FALSE: the steps that queue a record (MU_ALL_FALSE is clear), end a scan (the final CAS
  of unlock_slow sets or clears it) or restore the word saved by mu_try_acquire_after_timeout_or_cancel.
-/
namespace NsyncVerif.MuC

theorem spin_of_mtOld {p : PC} {old : Word} (h : p.mtOld = some old) : p.spin = true := by
  cases p <;> simp [PC.mtOld] at h <;> rfl

theorem spin_of_enqPend {p : PC} (h : p.enqPend = true) : p.spin = true := by
  cases p <;> simp [PC.enqPend] at h <;> rfl

theorem Inv3.others_no_spin {s : State} (h3 : Inv3 s) {t : Tid} (ht : (s.pc t).spin = true) (u : Tid) (hu : u ≠ t) :
    (s.pc u).spin = false := by
  cases e : (s.pc u).spin with
  | false => rfl
  | true =>
    have h1 := (h3.own t).2 ht
    have h2 := (h3.own u).2 e
    rw [h1] at h2; cases h2; exact absurd rfl hu

theorem Inv3.no_spin_of_free {s : State} (h3 : Inv3 s) (hw : s.word.spin = false) (u : Tid) : (s.pc u).spin = false := by
  cases e : (s.pc u).spin with
  | false => rfl
  | true =>
    have h2 := (h3.own u).2 e
    have := h3.bit; rw [hw, h2] at this; cases this

/-- An unlocker that has given up the writer bit holds the spinlock. -/
theorem spin_of_nonLate {p : PC} (hok : p.ok) (hok3 : p.ok3) (h : p.nonLate = true) : p.spin = true := by
  cases p <;> simp [PC.nonLate] at h <;> simp_all [PC.spin, PC.ok, PC.ok3, Scan.ok]
  all_goals
    (rename_i sc _
     cases htc : sc.tc with
     | false => rfl
     | true => simp_all)

/-- Nobody but `t` holds the spinlock; `t` leaves MU_ALL_FALSE clear (it may queue records). -/
theorem Inv7.spin_step {s s' : State} (t : Tid) (h : Inv7 s)
    (hsp : ∀ u, u ≠ t → (s.pc u).spin = false)
    (haf : s'.word.af = false)
    (hcnd : ∀ x, Queued s x → (s'.wr x).cond = (s.wr x).cond)
    (hd : s'.data = s.data)
    (hpc : ∀ u, u ≠ t → s'.pc u = s.pc u)
    (hsc : (s'.pc t).scan? = none) (hre : (s'.pc t).reScan = none) (hfin : (s'.pc t).finOf = none) (hmt : (s'.pc t).mtOld = none)
    (hfst : ∀ c, (s'.pc t).mwPost = some c → c.first = false)
    (hnls : ∀ u, (s.pc u).nonLate = true → (s.pc u).spin = true) (hnlt : (s'.pc t).nonLate = false) : Inv7 s' := by
  refine ⟨?_, ?_, fun _ _ => haf, ?_, ?_, ?_, ?_, ?_⟩
  · intro u hu
    by_cases e : u = t
    · subst e; rw [hnlt] at hu; cases hu
    · rw [hpc u e] at hu
      have := hnls u hu; rw [hsp u e] at this; cases this
  · intro u c hc
    by_cases hu : u = t
    · subst hu; exact hfst c hc
    · rw [hpc u hu] at hc; exact h.fst u c hc
  · intro h'; rw [haf] at h'; cases h'
  · intro u old ho
    by_cases e : u = t
    · subst e; rw [hmt] at ho; cases ho
    · rw [hpc u e] at ho
      have := spin_of_mtOld ho; rw [hsp u e] at this; cases this
  · intro u sc hu hsaf k hk
    by_cases e : u = t
    · subst e; rw [hsc] at hu; cases hu
    · rw [hpc u e] at hu
      obtain ⟨a, b⟩ := h.sc u sc hu hsaf k hk
      have hkq : Queued s k := Or.inr ⟨u, sc, hu, by
        simp only [Scan.lists, List.mem_append] at hk ⊢
        rcases hk with e | e
        · exact Or.inl (Or.inl e)
        · exact Or.inl (Or.inr e)⟩
      exact ⟨a, by rw [hd]; exact b.congr (hcnd k hkq)⟩
  · intro u sc hu
    by_cases e : u = t
    · subst e; rw [hre] at hu; cases hu
    · rw [hpc u e] at hu; exact h.re u sc hu
  · intro u f hu
    by_cases e : u = t
    · subst e; rw [hfin] at hu; cases hu
    · rw [hpc u e] at hu
      have := fin_spin hu; rw [hsp u e] at this; cases this

theorem finPc_firstW (r : Ret) (l : List Wid) : (finPc r l).firstW = false := by
  cases l <;> cases r <;> rfl
theorem finPc_susp (r : Ret) (l : List Wid) : (finPc r l).susp = false := by
  cases l <;> cases r <;> rfl
theorem finPc_mwPost (r : Ret) (l : List Wid) : (finPc r l).mwPost = r.mw? := by
  cases l <;> cases r <;> rfl
theorem finPc_reScan (r : Ret) (l : List Wid) : (finPc r l).reScan = none := by
  cases l <;> cases r <;> rfl
theorem finPc_finOf (r : Ret) (l : List Wid) : (finPc r l).finOf = none := by
  cases l <;> cases r <;> rfl
theorem finPc_mtOld (r : Ret) (l : List Wid) : (finPc r l).mtOld = none := by
  cases l <;> cases r <;> rfl
theorem finPc_enqPend (r : Ret) (l : List Wid) : (finPc r l).enqPend = false := by
  cases l <;> cases r <;> rfl
theorem finPc_nonLate (r : Ret) (l : List Wid) : (finPc r l).nonLate = false := by
  cases l <;> cases r <;> rfl
theorem finPc_ne_idle (r : Ret) (l : List Wid) : finPc r l ≠ .idle := by
  cases l <;> cases r <;> simp [finPc, Ret.pc]

theorem inv7_stepCasC {s s' : State} {t : Tid} {o : Ord} {loc : Loc} {exp new obs : Nat} {ok : Bool}
    (h1 : Inv1 s) (h1' : Inv1 s') (h3 : Inv3 s) (h4 : Inv4 s) (h5 : Inv5 s) (h : Inv7 s)
    (hp : match s.pc t with
      | .usFinCas _ _ _ | .mwEnqCas _ _ | .mtCasAcq _ _ => True
      | _ => False)
    (hs : stepCas s t o loc exp new obs ok = .ok s') : Inv7 s' := by
  unfold stepCas at hs
  split at hs
  all_goals try (rename_i heq; rw [heq] at hp; exact False.elim hp)
  all_goals try (rename_i hne; split at hp <;> first | exact False.elim hp | (exfalso; simp_all; done))
  · -- usFinCas: the scan is over; MU_ALL_FALSE is set iff it found every condition false
    rename_i r f old heq
    rcases casWord_ok hs with ⟨hw, -, rfl⟩ | ⟨-, -, rfl⟩
    · rw [afterFin_eq] at h1' ⊢
      have hspin : (s.pc t).spin = true := by rw [heq]; rfl
      have hsp := h3.others_no_spin hspin
      obtain ⟨hcaf, hfin⟩ := h.fin t f (by rw [heq]; rfl)
      have hce := h4.finq t f (by rw [heq]; rfl)
      have hpcs : ∀ u, u ≠ t → (setPc (if f.late = true then { s with word := finWord f old, sp := none, wOwner := none }
          else { s with word := finWord f old, sp := none }) t (finPc r f.wake)).pc u = s.pc u := by
        intro u hu; split <;> simp [setFn, hu]
      have hpct : (setPc (if f.late = true then { s with word := finWord f old, sp := none, wOwner := none }
          else { s with word := finWord f old, sp := none }) t (finPc r f.wake)).pc t = finPc r f.wake := by
        split <;> simp
      have hnounl : ∀ u, u ≠ t → (s.pc u).unl = false := by
        intro u hu
        cases e : (s.pc u).unl with
        | false => rfl
        | true => exact absurd (h4.uniq u t e (by rw [heq]; rfl)) hu
      have hQ : ∀ k, Queued (setPc (if f.late = true then { s with word := finWord f old, sp := none, wOwner := none }
          else { s with word := finWord f old, sp := none }) t (finPc r f.wake)) k → k ∈ s.queue := by
        rintro k (hk | ⟨u, sc, hu, _⟩)
        · split at hk <;> simpa using hk
        · by_cases e : u = t
          · subst e; rw [hpct, finPc_scan] at hu; cases hu
          · rw [hpcs u e] at hu
            have := unl_of_scan hu; rw [hnounl u e] at this; cases this
      refine ⟨?_, ?_, ?_, ?_, ?_, ?_, ?_, ?_⟩
      · intro u hu
        by_cases e : u = t
        · subst e; rw [hpct, finPc_nonLate] at hu; cases hu
        · rw [hpcs u e] at hu
          have := unl_of_nonLate hu; rw [hnounl u e] at this; cases this
      · intro u c hc
        by_cases e : u = t
        · subst e; rw [hpct, finPc_mwPost] at hc; exact h.fst u c (by rw [heq]; exact hc)
        · rw [hpcs u e] at hc; exact h.fst u c hc
      · intro u hu
        by_cases e : u = t
        · subst e; rw [hpct, finPc_enqPend] at hu; cases hu
        · rw [hpcs u e] at hu
          have := spin_of_enqPend hu; rw [hsp u e] at this; cases this
      · intro haf k hk
        have hkq := hQ k hk
        have hafw : (finWord f old).af = true := by split at haf <;> simpa using haf
        have hsaf : f.saf = true ∧ f.cEmpty = false := by
          cases hs1 : f.saf <;> cases hs2 : f.cEmpty <;> simp [finWord, hcaf, hs1, hs2] at hafw ⊢
        obtain ⟨hlate, hcf⟩ := hfin hsaf.1 k hkq
        have hcf' : CondFalse (setPc (if f.late = true then { s with word := finWord f old, sp := none, wOwner := none }
            else { s with word := finWord f old, sp := none }) t (finPc r f.wake)) s.data k :=
          hcf.congr (by split <;> simp)
        refine ⟨hcf'.has, ?_⟩
        intro _ _ d hd
        have hcl : ¬ SecOpen (setPc (if f.late = true then { s with word := finWord f old, sp := none, wOwner := none }
            else { s with word := finWord f old, sp := none }) t (finPc r f.wake)) :=
          not_secOpen_of_free h1' (by simp [hlate])
        rw [refData_closed hcl hd]
        have : (setPc (if f.late = true then { s with word := finWord f old, sp := none, wOwner := none }
            else { s with word := finWord f old, sp := none }) t (finPc r f.wake)).data = s.data := by split <;> simp
        rw [this]; exact hcf'
      · intro u old' ho
        by_cases e : u = t
        · subst e; rw [hpct, finPc_mtOld] at ho; cases ho
        · rw [hpcs u e] at ho
          have := spin_of_mtOld ho; rw [hsp u e] at this; cases this
      · intro u sc hu
        by_cases e : u = t
        · subst e; rw [hpct, finPc_scan] at hu; cases hu
        · rw [hpcs u e] at hu
          have := unl_of_scan hu; rw [hnounl u e] at this; cases this
      · intro u sc hu
        by_cases e : u = t
        · subst e; rw [hpct, finPc_reScan] at hu; cases hu
        · rw [hpcs u e] at hu
          have := unl_of_reScan hu; rw [hnounl u e] at this; cases this
      · intro u f' hu
        by_cases e : u = t
        · subst e; rw [hpct, finPc_finOf] at hu; cases hu
        · rw [hpcs u e] at hu
          have := unl_of_fin hu; rw [hnounl u e] at this; cases this
    · inv7_local t h heq
  · -- mwEnqCas: the record in limbo is queued; the CAS clears MU_ALL_FALSE
    rename_i c old heq
    split at hs
    · cases hs
    · rename_i k hcw
      have hok3 := h3.ok3 t; rw [heq] at hok3
      rcases casWord_ok hs with ⟨hw, -, rfl⟩ | ⟨-, -, rfl⟩
      · have hf7 := h.fst t; rw [heq] at hf7
        refine Inv7.spin_step t h (fun u _ => h3.no_spin_of_free (by rw [hw]; exact hok3) u) (by split <;> simp [enqLast, enqFirst, mwEnqWord])
          (by intro x _; split <;> simp [enqLast, enqFirst, cond_of_merge]) (by split <;> simp [enqLast, enqFirst])
          (by intro u hu; split <;> simp [enqLast, enqFirst, setFn, hu]) (by simp [PC.scan?]) (by simp [PC.reScan]) (by simp [PC.finOf])
          (by simp [PC.mtOld]) (by intro c' hc'; simp [PC.mwPost] at hc'; rw [← hc'])
          (fun u hu => spin_of_nonLate (h1.pcok u) (h3.ok3 u) hu) (by simp [PC.nonLate])
      · inv7_local t h heq
  · -- mtCasAcq: `old_word` is the current word of a free mutex
    rename_i c old heq
    have hok1 := h1.pcok t; rw [heq] at hok1
    rcases casWord_ok hs with ⟨hw, -, rfl⟩ | ⟨-, -, rfl⟩
    · have hfree : s.wOwner = none := h1.lock.noOwner_of_free (by rw [hw]; exact hok1.2.2.2.1)
      have hns := no_susp_of_free h1 hfree
      have hcl := not_secOpen_of_free h1 hfree
      have hf7 := h.fst t; rw [heq] at hf7
      refine Inv7.local t h ?_ (by intro k hk; simpa using hk) (by intro x _; simp) (by simp) (by simp) (Or.inl ⟨?_, ?_⟩)
        (by intro haf; left; simpa [mtAcqWord, ← hw] using haf) (by intro u hu; simp [setFn, hu])
        (by simp [PC.scan?]) (by simp [PC.reScan]) (by simp [PC.finOf]) ?_ ?_ (by simp [PC.enqPend]) (by simp [PC.nonLate])
        (by intro hcb; left; simpa [mtAcqWord, ← hw] using hcb)
      · intro k hk
        exact (queued_same (t := t) (by simp) (by intro u hu; simp [setFn, hu]) (by simp [heq, PC.scan?]) k).1 hk
      · rw [heq]; simp [PC.susp]
      · intro d hd
        have hcl' : ¬ SecOpen ({ setPc s t (PC.mtLdW c old) with word := mtAcqWord old, sp := some t, wOwner := some t } : State) :=
          not_secOpen_of_owner h1' rfl (by simp [h1.held_none (t := t) (by rw [heq]; simp)]) (by simp [PC.firstW])
        rw [refData_closed hcl' hd]
        exact refData_of_closed hcl
      · intro o' ho
        right
        simp only [setPc_pc, setFn_same, PC.mtOld, Option.some.injEq] at ho
        exact ⟨by rw [hw, ho], hns, hcl⟩
      · intro c' hc'; simp only [setPc_pc, setFn_same, PC.mwPost, Option.some.injEq] at hc'
        rw [← hc']; exact hf7 c (by simp [PC.mwPost])
    · inv7_local t h heq

end NsyncVerif.MuC
