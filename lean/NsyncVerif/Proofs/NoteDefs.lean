/-
  Layer `Note`: derived notions used by the invariants and theorems (what a program counter says
  about locks held, the note being created, …).
-/
import NsyncVerif.Proofs.NoteFrame

namespace Note

/-- The continuation belongs to `nsync_note_new` (the note is the one being created). -/
def DK.isNew : DK → Bool
  | .newSelf _ _ => true
  | _ => false

def NK.isNew : NK → Bool
  | .ofDeadline k => k.isNew
  | .ofApi => false

/-- The continuation belongs to an observation (`nsync_note_is_notified` / `nsync_note_wait`). -/
@[simp] def DK.isObs : DK → Bool
  | .isNotified | .ready1 _ | .ready2 _ _ | .dequeue _ _ => true
  | _ => false

@[simp] def NK.isObs : NK → Bool
  | .ofDeadline k => k.isObs
  | .ofApi => false

/-- The note this thread is creating (inside `nsync_note_new`, after `malloc`). -/
def PC.creating : PC → Option NoteId
  | .dl _ n _ k => bif k.isNew then some n else none
  | .nfy _ n _ k => bif k.isNew then some n else none
  | .chd _ _ top => bif top.k.isNew then some top.n else none
  | .newP _ n _ _ => some n
  | .retNew n _ => some n
  | _ => none

@[simp] theorem creating_idle : PC.idle.creating = none := rfl
@[simp] theorem creating_newMalloc (p : Option NoteId) (d : Dl) : (PC.newMalloc p d).creating = none := rfl
@[simp] theorem creating_newRetNull (p : Option NoteId) : (PC.newRetNull p).creating = none := rfl
@[simp] theorem creating_dl (p : DPos) (n : NoteId) (nt : Dl) (k : DK) :
    (PC.dl p n nt k).creating = bif k.isNew then some n else none := rfl
@[simp] theorem creating_nfy (p : NPos) (n : NoteId) (par : Option NoteId) (k : NK) :
    (PC.nfy p n par k).creating = bif k.isNew then some n else none := rfl
@[simp] theorem creating_chd (p : CPos) (stk : List Frame) (top : Top) :
    (PC.chd p stk top).creating = bif top.k.isNew then some top.n else none := rfl
@[simp] theorem creating_newP (p : NewPos) (n par : NoteId) (d : Dl) : (PC.newP p n par d).creating = some n := rfl
@[simp] theorem creating_retNew (n : NoteId) (par : Option NoteId) : (PC.retNew n par).creating = some n := rfl
@[simp] theorem creating_retIs (n : NoteId) (b : Bool) : (PC.retIs n b).creating = none := rfl
@[simp] theorem creating_retNotify (n : NoteId) : (PC.retNotify n).creating = none := rfl
@[simp] theorem creating_retExpiry (n : NoteId) : (PC.retExpiry n).creating = none := rfl
@[simp] theorem creating_fr (p : FPos) (n : NoteId) (par : Option NoteId) (c : NoteId) (nx : Option NoteId) :
    (PC.fr p n par c nx).creating = none := rfl
@[simp] theorem creating_wt0 (p : W0Pos) (n : NoteId) (d : Dl) : (PC.wt0 p n d).creating = none := rfl
@[simp] theorem creating_wt (p : WPos) (n : NoteId) (d : Dl) (r : Rid) : (PC.wt p n d r).creating = none := rfl

@[simp] theorem DK.isNew_isNotified : DK.isNotified.isNew = false := rfl
@[simp] theorem DK.isNew_notifyApi : DK.notifyApi.isNew = false := rfl
@[simp] theorem DK.isNew_newSelf (p : Option NoteId) (d : Dl) : (DK.newSelf p d).isNew = true := rfl
@[simp] theorem DK.isNew_ready1 (d : Dl) : (DK.ready1 d).isNew = false := rfl
@[simp] theorem DK.isNew_ready2 (r : Rid) (d : Dl) : (DK.ready2 r d).isNew = false := rfl
@[simp] theorem DK.isNew_dequeue (r : Rid) (d : Dl) : (DK.dequeue r d).isNew = false := rfl
@[simp] theorem NK.isNew_ofApi : NK.ofApi.isNew = false := rfl
@[simp] theorem NK.isNew_ofDeadline (k : DK) : (NK.ofDeadline k).isNew = k.isNew := rfl

/-- Ancestor-or-self in the current forest. -/
inductive Anc (s : State) : NoteId → NoteId → Prop
  | refl (n : NoteId) : Anc s n n
  | up {a p n : NoteId} : (s.notes n).parent = some p → Anc s a p → Anc s a n

/-- Some note that was ever on the path from `n` to a root had `nsync_note_notify` called on it, or
    its own deadline has passed. -/
def Caused (s : State) (n : NoteId) : Prop :=
  ∃ a, a ∈ s.ancEver n ∧ (s.notifyCalled a = true ∨ ∃ e, s.ownDl a = some e ∧ e ≤ s.now)

end Note
