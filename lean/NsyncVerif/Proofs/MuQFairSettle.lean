import NsyncVerif.Proofs.MuQFairExec
import NsyncVerif.Proofs.MuQFairFinal
/-
  MuQ, fair termination (C02): what becomes true for ever along a fair execution, part 1.

  After the last arrival:
  A  every thread's stage is non-increasing, hence eventually frozen (`stages_freeze`);
  B  from then on no thread is past its point of no return (`no_exit`): such a thread would reach
     its return in finitely many own steps, each of which it eventually takes, and drop to stage 0;
  C  hence no `waiting` flag is cleared any more (`waiting_stays`);
  D  hence every thread takes the spinlock with its enqueue CAS at most once more: eventually
     nobody is at the enqueue store (`no_lsSt`).
-/
namespace NsyncVerif.MuQ

variable {cfg : Cfg} {s0 : State}

/-- No acquisition call arrives from time `n` on. -/
def NoArrivals (x : Exec cfg s0) (n : Nat) : Prop := ∀ j e, n ≤ j → x.σ j = some e → e.isAcqCall = false

/-- No CAS on `remove_count` fails from time `n` on. -/
def NoRcFails (x : Exec cfg s0) (n : Nat) : Prop := ∀ j e, n ≤ j → x.σ j = some e → e.rcFail = false

/-- From time `n` on no step changes anybody's stage. -/
def Frozen (x : Exec cfg s0) (n : Nat) : Prop := ∀ t j, n ≤ j → stage (x.ρ (j + 1)) t = stage (x.ρ j) t

theorem Frozen.mono {x : Exec cfg s0} {n m : Nat} (h : Frozen x n) (hnm : n ≤ m) : Frozen x m :=
  fun t j hj => h t j (by omega)

theorem Frozen.const {x : Exec cfg s0} {n : Nat} (h : Frozen x n) (t : Tid) {i : Nat} (hi : n ≤ i) :
    ∀ d, stage (x.ρ (i + d)) t = stage (x.ρ i) t := by
  intro d
  induction d with
  | zero => rfl
  | succ d ih => rw [show i + (d + 1) = i + d + 1 by omega, h t (i + d) (by omega), ih]

theorem stage_mono (x : Exec cfg s0) (hr : Reachable cfg s0) {n0 : Nat} (hq : NoArrivals x n0) (t : Tid) :
    ∀ j, n0 ≤ j → stage (x.ρ (j + 1)) t ≤ stage (x.ρ j) t := by
  intro j hj
  cases hs : x.σ j with
  | none => rw [x.next_none hs]; exact Nat.le_refl _
  | some e => exact stage_step_le (x.reach hr j) (x.next_some hs) (hq j e hj hs) t

/-- A: the stages freeze. -/
theorem stages_freeze (x : Exec cfg s0) (hr : Reachable cfg s0) {n0 : Nat} (hq : NoArrivals x n0) :
    ∃ n1, n0 ≤ n1 ∧ Frozen x n1 := by
  obtain ⟨L, hL⟩ := reachable_cover (x.reach hr n0)
  have hin : ∀ t ∈ L, ∃ n, n0 ≤ n ∧ ∀ j, n ≤ j → stage (x.ρ (j + 1)) t = stage (x.ρ j) t := by
    intro t _
    obtain ⟨n, hn, hc⟩ := mono_stabilizes (fun j => stage (x.ρ j) t) _ n0 (Nat.le_refl _) (stage_mono x hr hq t)
    exact ⟨n, hn, fun j hj => by have a := hc j hj; have b := hc (j + 1) (by omega); rw [a, b]⟩
  obtain ⟨n1, h1, hP⟩ := eventually_list n0 L hin
  refine ⟨n1, h1, fun t j hj => ?_⟩
  by_cases ht : t ∈ L
  · exact hP t ht j hj
  · have h0 : stage (x.ρ n0) t = 0 := stage_of_ihn (hL t ht)
    have hz : ∀ d, stage (x.ρ (n0 + d)) t = 0 := fun d => by
      have := mono_le (f := fun j => stage (x.ρ j) t) (stage_mono x hr hq t) d
      omega
    have a := hz (j - n0); have b := hz (j + 1 - n0)
    rw [show n0 + (j - n0) = j by omega] at a
    rw [show n0 + (j + 1 - n0) = j + 1 by omega] at b
    rw [a, b]

/-- B: from the freeze on nobody is past its point of no return. -/
theorem no_exit (x : Exec cfg s0) (hr : Reachable cfg s0) (hf : WeakFair x) {n1 : Nat} (hz : Frozen x n1) :
    ∀ t j, n1 ≤ j → exitRank ((x.ρ j).pc t) = 0 := by
  intro t j hj
  have := chain x t n1 (fun j => 0 < exitRank ((x.ρ j).pc t)) (fun j => exitRank ((x.ρ j).pc t))
    (fun j _ hR hnm => by
      obtain ⟨a, _⟩ := not_moves_frame x hnm
      simp only [a]; exact ⟨hR, Nat.le_refl _⟩)
    (fun j hj hR hm => by
      obtain ⟨e, _, hown⟩ := hm.own
      rcases exit_own hown (reachable_side (x.reach hr j)).2 hR with h0 | h1
      · have := hz t j hj
        rw [h0, stage_of_exit hR] at this; cases this
      · exact h1)
    (fun j _ hR => by
      apply fair_move_pc x hf
      · intro h; simp [h, exitRank] at hR
      · intro c h; simp [h, exitRank] at hR)
    j hj
  omega

/-- C: from the freeze on no `waiting` flag is cleared. -/
theorem waiting_stays (x : Exec cfg s0) {n1 : Nat}
    (hx : ∀ t j, n1 ≤ j → exitRank ((x.ρ j).pc t) = 0) (k : Wid) :
    ∀ j, n1 ≤ j → ((x.ρ j).wr k).waiting = true → ((x.ρ (j + 1)).wr k).waiting = true := by
  intro j hj h1
  cases hs : x.σ j with
  | none => rw [x.next_none hs]; exact h1
  | some e =>
    cases h2 : ((x.ρ (j + 1)).wr k).waiting with
    | true => rfl
    | false =>
      obtain ⟨t, l, r, hp⟩ := step_waiting_clear (x.next_some hs) h1 h2
      have := hx t j hj
      simp [hp, exitRank] at this

theorem post2_stable (x : Exec cfg s0) {n1 : Nat}
    (hx : ∀ t j, n1 ≤ j → exitRank ((x.ρ j).pc t) = 0) (t : Tid) :
    ∀ j, n1 ≤ j → Post2 (x.ρ j) t → Post2 (x.ρ (j + 1)) t := by
  intro j hj hp
  by_cases hm : Moves x t j
  · obtain ⟨e, _, hown⟩ := hm.own
    exact post2_own hown hp
  · obtain ⟨c, k, hc, hw, hwt⟩ := hp
    obtain ⟨a, _⟩ := not_moves_frame x hm
    exact ⟨c, k, by rw [a]; exact hc, hw, waiting_stays x hx k j hj hwt⟩

theorem post2_forever (x : Exec cfg s0) {n1 : Nat}
    (hx : ∀ t j, n1 ≤ j → exitRank ((x.ρ j).pc t) = 0) (t : Tid) {i : Nat} (hi : n1 ≤ i)
    (hp : Post2 (x.ρ i) t) : ∀ d, Post2 (x.ρ (i + d)) t := by
  intro d
  induction d with
  | zero => exact hp
  | succ d ih => exact post2_stable x hx t (i + d) (by omega) ih

theorem post2_not_lsSt {s : State} {t : Tid} (h : Post2 s t) (c : SL) : s.pc t ≠ .lsSt c := by
  obtain ⟨c', k, hc, _, _⟩ := h
  intro hp; simp [hp, postSL] at hc

/-- D: eventually nobody is at the enqueue store of lock_slow any more. -/
theorem no_lsSt (x : Exec cfg s0) (hr : Reachable cfg s0) (hf : WeakFair x) {n1 : Nat} (hz : Frozen x n1)
    (hx : ∀ t j, n1 ≤ j → exitRank ((x.ρ j).pc t) = 0) :
    ∃ n2, n1 ≤ n2 ∧ ∀ t j, n2 ≤ j → ∀ c, (x.ρ j).pc t ≠ .lsSt c := by
  obtain ⟨L, hL⟩ := reachable_cover (x.reach hr n1)
  have hin : ∀ t ∈ L, ∃ n, n1 ≤ n ∧ ∀ j, n ≤ j → ∀ c, (x.ρ j).pc t ≠ .lsSt c := by
    intro t _
    by_cases hex : ∃ j, n1 ≤ j ∧ Post2 (x.ρ j) t
    · obtain ⟨i, hi, hp⟩ := hex
      refine ⟨i, hi, fun j hj c => ?_⟩
      have := post2_forever x hx t hi hp (j - i)
      rw [show i + (j - i) = j by omega] at this
      exact post2_not_lsSt this c
    · refine ⟨n1, Nat.le_refl _, fun j hj c hp => ?_⟩
      have hmv : ∃ j', j ≤ j' ∧ Moves x t j' :=
        fair_move_pc x hf (by rw [hp]; simp) (by rw [hp]; simp)
      obtain ⟨j', h1, h2, h3⟩ := first_move' x hmv
      obtain ⟨a, _⟩ := frame_between x h1 h3
      obtain ⟨e, _, hown⟩ := h2.own
      exact hex ⟨j' + 1, by omega, lsSt_own hown (by rw [a]; exact hp)⟩
  obtain ⟨n2, h2, hP⟩ := eventually_list n1 L hin
  refine ⟨n2, h2, fun t j hj c hp => ?_⟩
  by_cases ht : t ∈ L
  · exact hP t ht j hj c hp
  · have h0 : stage (x.ρ n1) t = 0 := stage_of_ihn (hL t ht)
    have := hz.const t (Nat.le_refl n1) (j - n1)
    rw [show n1 + (j - n1) = j by omega, h0] at this
    have := (stage_zero this).1
    rw [hp] at this; cases this

end NsyncVerif.MuQ
