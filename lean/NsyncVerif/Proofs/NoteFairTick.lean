/-
  Layer `Note`, fair termination: an execution whose clock passes every value — a finite accepted
  trace followed by `tick`s for ever (`tickExec`) — and the concrete one used for the non-vacuity
  of `C09_fair_termination_deadline`: a `nsync_note_wait` with a finite deadline on a note that is
  never notified really sleeps, the clock passes the deadline, P returns ETIMEDOUT, the wait
  dequeues itself and returns 0 (`timedExec`).
-/
import NsyncVerif.Proofs.NoteFairWitness
import NsyncVerif.Proofs.NoteFairDl

set_option linter.unusedSimpArgs false

namespace Note

/-- A finite accepted trace from `s`, then one `tick` per time unit for ever. -/
def tickExec (s : State) (evs : List Event) (sf : State) (h : run s evs = .ok sf) : Exec s :=
  { ρ := fun i => if i < evs.length then stateFrom s (evs.take i)
                  else sf.setNow (sf.now + (i - evs.length))
    σ := fun i => if i < evs.length then evs[i]?
                  else some (.tick (sf.now + (i + 1 - evs.length)))
    start := by
      by_cases h0 : 0 < evs.length
      · simp [h0, stateFrom, run]
      · have : evs = [] := by
          cases evs with
          | nil => rfl
          | cons e es => simp at h0
        subst this
        simp only [run, Except.ok.injEq] at h
        subst h
        simp [State.setNow]
    next := by
      intro i
      by_cases hi : i < evs.length
      · simp only [hi, if_true]
        have he : evs[i]? = some evs[i] := List.getElem?_eq_getElem hi
        rw [he]
        have hs := stateFrom_step h hi
        by_cases hi1 : i + 1 < evs.length
        · simp only [hi1, if_true]; exact hs
        · simp only [hi1, if_false]
          have : i + 1 = evs.length := by omega
          rw [this, stateFrom_all h (Nat.le_refl _)] at hs
          rw [hs, this]
          simp [State.setNow]
      · have hi1 : ¬ i + 1 < evs.length := by omega
        simp only [hi, hi1, if_false]
        have hle : (sf.setNow (sf.now + (i - evs.length))).now ≤ sf.now + (i + 1 - evs.length) := by
          simp only [State.setNow]; omega
        simp only [step, need, hle, if_true]
        rfl }

theorem tickExec_tail {s : State} {evs : List Event} {sf : State} (h : run s evs = .ok sf)
    {j : Nat} (hj : evs.length ≤ j) :
    (tickExec s evs sf h).ρ j = sf.setNow (sf.now + (j - evs.length)) ∧
    (tickExec s evs sf h).σ j = some (.tick (sf.now + (j + 1 - evs.length))) := by
  have : ¬ j < evs.length := by omega
  exact ⟨by show (if _ then _ else _) = _; simp [this], by show (if _ then _ else _) = _; simp [this]⟩

theorem tickExec_head {s : State} {evs : List Event} {sf : State} (h : run s evs = .ok sf)
    {j : Nat} (hj : j < evs.length) :
    (tickExec s evs sf h).ρ j = stateFrom s (evs.take j) ∧
    (tickExec s evs sf h).σ j = evs[j]? :=
  ⟨by show (if _ then _ else _) = _; simp [hj], by show (if _ then _ else _) = _; simp [hj]⟩

theorem tickExec_clock {s : State} {evs : List Event} {sf : State} (h : run s evs = .ok sf) :
    ClockAdvances (tickExec s evs sf h) := by
  intro v i
  refine ⟨max i (evs.length + v), by omega, ?_⟩
  rw [(tickExec_tail h (by omega : evs.length ≤ max i (evs.length + v))).1]
  simp only [State.setNow]
  omega

/-! ### the concrete execution -/

/-- `nsync_note_wait (note0, deadline 5)` by `t`: sleeps; the clock goes to 7; ETIMEDOUT; dequeue;
    returns 0. -/
def timedWait (t : Tid) : List Event := [
  .call t (.wait 0 (some 5)), .waitnCall t (some 5), .ld t .dlLd1 .acq 0 0, .lockCall t 0,
  .lockRet t, .ld t .dlLd2 .acq 0 0, .unlockCall t 0, .unlockRet t, .now t 0,
  .stW t .waitInit .rlx 0 0 0, .lockCall t 0, .lockRet t, .ld t .enqLd .acq 0 0,
  .stW t .enqSt1 .rlx 0 1 0, .unlockCall t 0, .unlockRet t,
  .ld t .dlLd1 .acq 0 0, .lockCall t 0, .lockRet t, .ld t .dlLd2 .acq 0 0, .unlockCall t 0,
  .unlockRet t, .now t 0, .pdEnter t 0 (some 5),
  .tick 7,
  .pdRet t 0 true, .ld t .dlLd1 .acq 0 0, .lockCall t 0, .lockRet t, .ld t .dlLd2 .acq 0 0,
  .unlockCall t 0, .unlockRet t, .now t 7,
  .lockCall t 0, .lockRet t, .ld t .deqLd .acq 0 0, .stW t .deqSt .rlx 0 0 1,
  .unlockCall t 0, .unlockRet t, .waitnRet t 1, .ret t (.wait false)]

def timedEvs : List Event := mkRoot 2 ++ timedWait 1

def timedFinal : State := (run init timedEvs).toOption.get (by decide)

theorem timed_run : run init timedEvs = .ok timedFinal := ok_of_isSome _ _

def timedExec : Exec init := tickExec init timedEvs timedFinal timed_run

theorem timed_final_idle (t : Tid) : timedFinal.pc t = .idle := by
  by_cases ht : t < 3
  · have h : timedFinal.pc 0 = .idle ∧ timedFinal.pc 1 = .idle ∧ timedFinal.pc 2 = .idle := by
      decide
    rcases lt3_cases ht with rfl | rfl | rfl
    · exact h.1
    · exact h.2.1
    · exact h.2.2
  · exact (run_untouched timedEvs init timedFinal
      (tidsBelow_ne (n := 3) (by decide) (Nat.le_of_not_lt ht)) timed_run).trans (init_idle t)

theorem timed_tail {j : Nat} (hj : timedEvs.length ≤ j) : ∀ t, (timedExec.ρ j).pc t = .idle := by
  intro t
  rw [show timedExec.ρ j = _ from (tickExec_tail timed_run hj).1]
  exact timed_final_idle t

theorem timed_no_spurious : ∀ j, j < 51 → ∀ t sem, timedEvs[j]? ≠ some (.pdRet t sem false) := by
  intro j hj t sem h
  have : ∀ j, j < 51 → ∀ e, timedEvs[j]? = some e →
      (match e with | .pdRet _ _ false => false | .call _ _ => decide (j < 11) | _ => true) = true := by
    decide
  have := this j hj _ h
  simp at this

/-- All hypotheses of `C09_fair_termination_deadline` hold for `timedExec`. -/
theorem timed_hyps : Reachable init ∧ WeakFair timedExec ∧ LockFair timedExec ∧
    WaitFair timedExec ∧ FiniteArrivals timedExec ∧ ClockAdvances timedExec ∧
    SemSound timedExec := by
  refine ⟨⟨[], rfl⟩, weakFair_of_quiescent _ _ (fun _ hj => timed_tail hj),
    lockFair_of_quiescent _ _ (fun _ hj => timed_tail hj),
    waitFair_of_quiescent _ _ (fun _ hj => timed_tail hj), ⟨timedEvs.length, ?_⟩,
    tickExec_clock timed_run, ?_⟩
  · intro j t a hj he
    rw [show timedExec.σ j = _ from (tickExec_tail timed_run hj).2] at he
    cases he
  · intro j t sem d n wdl r he _
    exfalso
    by_cases hj : j < timedEvs.length
    · rw [show timedExec.σ j = _ from (tickExec_head timed_run hj).2] at he
      exact timed_no_spurious j hj t sem he
    · rw [show timedExec.σ j = _ from (tickExec_tail timed_run (Nat.le_of_not_lt hj)).2] at he
      cases he

end Note
