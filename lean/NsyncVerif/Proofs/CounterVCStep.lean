/-
  Proofs/CounterVCStep.lean — VInv is preserved by the step of an add's successful CAS.
-/
import NsyncVerif.Proofs.CounterVCInv

namespace Counter

open NsyncVerif

theorem vinv_cas {p : PState} {s' : State} {t : Tid} {d : Int} {v x n ob : Nat}
    (hr : Reachable p.s) (hv : VInv p)
    (hs : step p.s (.thr t (.cas .ar .value x n ob true)) = .ok s') (hpc : p.s.pc t = .aCas d v) :
    VInv { s := s', m := vstep p.m (.thr t (.cas .ar .value x n ob true)),
           zeroClock := if p.s.sh.value ≠ 0 ∧ s'.sh.value = 0 then p.m.vc t else p.zeroClock,
           zeroIdx := if p.s.sh.value ≠ 0 ∧ s'.sh.value = 0 then p.adds.length + 1 else p.zeroIdx,
           adds := p.adds ++ [p.m.vc t] } := by
  have hi := inv_of_reachable hr
  have hs' : stepThr p.s t (.cas .ar .value x n ob true) = .ok s' := hs
  have f := facts_stepThr hi hs'
  have g := vcfacts_stepThr hi hs'
  obtain ⟨hcr, hhist, hval, hx⟩ := g.cas d v hpc x n ob rfl
  have hcr' := g.crt' hcr
  let a : VC.AEv Loc := ⟨t, .rmw, .ar, .value⟩
  have hm : vstep p.m (.thr t (.cas .ar .value x n ob true)) = VC.step p.m a := rfl
  have h_rel : VC.Clock.le (p.m.vc t) ((VC.step p.m a).relc .value) :=
    VC.rel_records p.m a rfl (Or.inr rfl)
  have h_acq : VC.Clock.le (p.m.relc .value) ((VC.step p.m a).vc t) :=
    VC.acq_sees_relc p.m a rfl (Or.inr rfl)
  have h_chain : ∀ c, VC.Clock.le c (p.m.relc .value) → VC.Clock.le c ((VC.step p.m a).relc .value) := by
    intro c hc
    exact VC.release_chain_step .value c p.m a hc (by intro _ hop; cases hop)
  have mono : ∀ u, VC.Clock.le (p.m.vc u) ((VC.step p.m a).vc u) := fun u => VC.vc_mono p.m a u
  have hlen := hv.len hcr
  have hnot : seenZero (p.s.pc t) = false ∧ pastStore (p.s.pc t) = false ∧ pcIdx (p.s.pc t) = none
      ∧ pcVal (p.s.pc t) = none := by rw [hpc]; exact ⟨rfl, rfl, rfl, rfl⟩
  rw [hm]
  have hzi : p.zeroIdx ≤ p.adds.length := by
    rcases hv.zi with ⟨h1, _⟩ | ⟨i, h1, h2⟩
    · omega
    · have : i < p.adds.length := by
        rcases Nat.lt_or_ge i p.adds.length with h' | h'
        · exact h'
        · rw [List.getElem?_eq_none h'] at h2; cases h2
      omega
  refine ⟨?_, ?_, ?_, ?_, ?_, ?_, ?_, ?_, ?_⟩
  · intro _; show s'.sh.hist.length = (p.adds ++ [p.m.vc t]).length + 1
    rw [hhist]; simp [hlen]
  · intro hc; show _ ∧ _; rw [hcr'] at hc; cases hc
  · intro c hc
    rcases List.mem_append.1 hc with h1 | h1
    · exact h_chain c (hv.chain c h1)
    · simp at h1; subst h1; exact h_rel
  · show VC.Clock.le (if _ then _ else _) _
    split
    · exact h_rel
    · exact h_chain _ hv.zc
  · show (_ ∧ _) ∨ ∃ i, _ ∧ (p.adds ++ [p.m.vc t])[i]? = some _
    split
    · right; exact ⟨p.adds.length, rfl, by simp⟩
    · rcases hv.zi with h1 | ⟨i, h1, h2⟩
      · left; exact h1
      · right; exact ⟨i, h1, getElem?_append_some h2⟩
  · intro u hu
    by_cases hut : u = t
    · subst hut
      rcases g.seen hu with h1 | ⟨_, h1, _⟩
      · rw [hnot.1] at h1; cases h1
      · cases h1
    · rw [f.others u hut] at hu
      obtain ⟨h1, h2, h3, h4⟩ := hv.seen u hu
      refine ⟨?_, f.zst h3 h2, f.wtd h3, ?_⟩
      · show VC.Clock.le (if _ then _ else _) _
        rw [if_neg (by intro hc; exact hc.1 h2)]
        exact VC.Clock.le_trans h1 (mono u)
      · have hcond : ¬ (p.s.sh.value ≠ 0 ∧ s'.sh.value = 0) := fun hc => hc.1 h2
        simp only [if_neg hcond]
        exact sawUpTo_mono (p := p) (mono u) ⟨[p.m.vc t], rfl⟩ hzi h4
  · intro u hu
    by_cases hut : u = t
    · subst hut
      rcases g.past hu with h1 | h1
      · rw [hnot.2.1] at h1; cases h1
      · exact h1
    · rw [f.others u hut] at hu
      exact f.wtd (hv.past u hu)
  · intro u i hu
    by_cases hut : u = t
    · subst hut
      rcases g.idx i hu with h1 | ⟨h1, _⟩
      · rw [hnot.2.2.1] at h1; cases h1
      · -- the add's own acquire-release CAS: it has seen every earlier add, and itself
        subst h1
        intro j c hj hc
        show VC.Clock.le c ((VC.step p.m a).vc u)
        have hc' : (p.adds ++ [p.m.vc u])[j]? = some c := hc
        by_cases hjl : j < p.adds.length
        · rw [List.getElem?_append_left hjl] at hc'
          exact sawAll hv h_acq j c hc'
        · have : j = p.adds.length := by omega
          subst this
          simp at hc'; subst hc'
          exact mono u
    · rw [f.others u hut] at hu
      have hlt := pcIdx_lt hi hu
      exact sawUpTo_mono (p := p) (mono u) ⟨[p.m.vc t], rfl⟩ (by omega) (hv.idx u i hu)
  · intro u w hu
    by_cases hut : u = t
    · subst hut
      rcases g.val w hu with h1 | ⟨h1, _⟩
      · rw [hnot.2.2.2] at h1; cases h1
      · cases h1
    · rw [f.others u hut] at hu
      obtain ⟨k, hk1, hk2⟩ := hv.val u w hu
      have hlt : k < p.s.sh.hist.length := by
        rcases Nat.lt_or_ge k p.s.sh.hist.length with h' | h'
        · exact h'
        · rw [List.getElem?_eq_none h'] at hk1; cases hk1
      refine ⟨k, ?_, sawUpTo_mono (p := p) (mono u) ⟨[p.m.vc t], rfl⟩ (by omega) hk2⟩
      show s'.sh.hist[k]? = some w
      rw [hhist]; exact getElem?_append_some hk1

end Counter
