/-
  Layer `Note`, invariant family G (no use after free), third part: every note an accepted step
  dereferences (`touches`) is one the acting thread's program counter may dereference (`PC.uses`),
  a child of such a note, or the note `malloc` has just returned; hence none is freed.
-/
import NsyncVerif.Proofs.NoteFixG2

set_option linter.unusedSimpArgs false

namespace Note

theorem touches_uses {s s' : State} {e : Event} (hs : step s e = .ok s') (k : NoteId)
    (hk : k ∈ touches s e) :
    (∃ a, e.actor = some a ∧
      (k ∈ (s.pc a).uses ∨ ∃ j, j ∈ (s.pc a).uses ∧ k ∈ (s.notes j).children)) ∨
    (s.notes k).allocated = false := by
  cases e
  all_goals step_cases hs
  all_goals (try (simp [touches] at hk; done))
  all_goals (try (simp only [touches, ‹s.pc _ = _›] at hk))
  all_goals (try (simp [touches] at hk; done))
  all_goals (first
    | (left
       refine ⟨_, rfl, ?_⟩
       rw [‹s.pc _ = _›]
       simp only [PC.uses, DK.par, NK.par, NPos.usesPar, FPos.usesPar, FPos.usesChild,
         CPos.usesChild, cond_true, cond_false, frameParent, Option.toList] at hk ⊢
       grind)
    | (right
       simp only [Option.toList, List.mem_singleton] at hk
       subst hk; assumption)
    | skip)

/-- A freed note has been allocated. -/
theorem freed_alloc {s : State} (hr : Reachable s) {k : NoteId} (h : (s.notes k).freed = true) :
    (s.notes k).allocated = true :=
  hr.inv6.1.published k (hr.invFP k (hr.invU.freedA k h))

/-- In a state in which `InvLive` holds, no accepted step dereferences a freed note. -/
theorem touches_live {s s' : State} {e : Event} (hr : Reachable s) (hG : InvLive s)
    (hs : step s e = .ok s') (k : NoteId) (hk : k ∈ touches s e) : (s.notes k).freed = false := by
  rcases touches_uses hs k hk with ⟨a, _, h | ⟨j, hj, hkj⟩⟩ | h
  · exact uses_live hr hG a k h
  · exact (hG.child j k hkj).1
  · cases hf : (s.notes k).freed with
    | false => rfl
    | true => rw [freed_alloc hr hf] at h; cases h

end Note
