/-
  Layer `CvFix`, liveness: the cv spinlock.  Every critical section ends (`lock_released`), so the
  spinlock is free again and again (`lock_free_again`, the premise of `SpinFair`), so every thread
  leaves the test-and-set loop (`spin_exits`).  Also: a thread's frame is frozen until its next
  step (`frozen`, `next_move`) and the leads-to rule with a loop that is left by hypothesis
  (`leads_loop`).
-/
import NsyncVerif.Proofs.CvFixFairStep

namespace NsyncVerif.CvFix

variable {cfg : Config} {s0 : State}

theorem Exec.inv (x : Exec cfg s0) (hr : Reachable cfg s0) (i : Nat) : Inv (x.ρ i) :=
  inv_reachable (x.reach hr i)

/-- What happens at a time at which `t` does not move. -/
theorem not_moves (x : Exec cfg s0) {t : Tid} {j : Nat} (h : ¬ Moves x t j) :
    x.σ j = none ∨ (∃ e, x.σ j = some e ∧ e.tid ≠ some t) ∨ x.σ j = some (.noteSeen t) := by
  cases hs : x.σ j with
  | none => exact .inl rfl
  | some e =>
    by_cases ht : e.tid = some t
    · by_cases hn : e = .noteSeen t
      · subst hn; exact .inr (.inr rfl)
      · exact absurd ⟨e, hs, ht, hn⟩ h
    · exact .inr (.inl ⟨e, rfl, ht⟩)

theorem ready_not_cancel {s : State} {t : Tid} (h : Ready s t) :
    (s.thr t).loc.inCancel = false ∧ (s.thr t).loc ≠ .cWait := by
  obtain ⟨_, h2, h3⟩ := h
  constructor
  · cases hl : (s.thr t).loc <;> simp_all [Loc.inCancel, Loc.foreign]
  · intro hl; simp [hl, Loc.asleep] at h3

/-- The frame of a `Ready` thread does not change while it does not move. -/
theorem frozen (x : Exec cfg s0) {t : Tid} {j : Nat} (h : ¬ Moves x t j) (hr : Ready (x.ρ j) t) :
    (x.ρ (j + 1)).thr t = (x.ρ j).thr t := by
  rcases not_moves x h with hn | ⟨e, he, hne⟩ | hn
  · rw [x.next_none hn]
  · exact tr_other (step_tr (x.next_some he)) hne
  · obtain ⟨a, b⟩ := ready_not_cancel hr
    rw [noteSeen_same (x.next_some hn) a b]

theorem ready_congr {s s' : State} {t : Tid} (h : s'.thr t = s.thr t) (hr : Ready s t) : Ready s' t := by
  unfold Ready at *; rw [h]; exact hr

theorem frozen_until (x : Exec cfg s0) {t : Tid} {i : Nat} (hr : Ready (x.ρ i) t) : ∀ d,
    (∀ j, i ≤ j → j < i + d → ¬ Moves x t j) → (x.ρ (i + d)).thr t = (x.ρ i).thr t := by
  intro d
  induction d with
  | zero => intro _; rfl
  | succ d ih =>
    intro h
    have a := ih (fun j h1 h2 => h j h1 (by omega))
    have b := frozen x (h (i + d) (by omega) (by omega)) (ready_congr a hr)
    rw [← a, ← b]; rfl

/-- A `Ready` thread takes its next step, and its frame is unchanged until then. -/
theorem next_move (x : Exec cfg s0) (hw : WeakFair x) {t : Tid} {i : Nat} (hr : Ready (x.ρ i) t) :
    ∃ j, i ≤ j ∧ Moves x t j ∧ (x.ρ j).thr t = (x.ρ i).thr t := by
  have hm : ∃ j, i ≤ j ∧ Moves x t j := by
    apply fair_move x hw
    intro j hj hn
    obtain ⟨d, rfl⟩ : ∃ d, j = i + d := ⟨j - i, by omega⟩
    exact ready_congr (frozen_until x hr d hn) hr
  obtain ⟨j, h1, h2, h3⟩ := first_move' x hm
  obtain ⟨d, rfl⟩ : ∃ d, j = i + d := ⟨j - i, by omega⟩
  exact ⟨i + d, h1, h2, frozen_until x hr d h3⟩

theorem holds_ready {s : State} {t : Tid} (h : (s.thr t).loc.holds = true) : Ready s t := by
  refine ⟨?_, ?_, ?_⟩ <;> cases hl : (s.thr t).loc <;> simp_all [Loc.holds, Loc.foreign, Loc.asleep]

/-- A step at which the holder `t` does not move. -/
theorem hold_stay (x : Exec cfg s0) (hr : Reachable cfg s0) {t : Tid} {j : Nat}
    (hh : (x.ρ j).holder = some t) (hn : ¬ Moves x t j) :
    (x.ρ (j + 1)).holder = some t ∧ rkS (x.ρ (j + 1)) t = rkS (x.ρ j) t := by
  have hi := x.inv hr j
  rcases not_moves x hn with h0 | ⟨e, he, hne⟩ | h0
  · rw [x.next_none h0]; exact ⟨hh, rfl⟩
  · exact hold_other (x.next_some he) hne hi hh
  · obtain ⟨a, b⟩ := ready_not_cancel (holds_ready ((hi.a.hold t).mp hh))
    rw [noteSeen_same (x.next_some h0) a b]; exact ⟨hh, rfl⟩

/-- Every critical section of the cv spinlock ends. -/
theorem lock_released (x : Exec cfg s0) (hr : Reachable cfg s0) (hw : WeakFair x) {t : Tid} {i : Nat}
    (hh : (x.ρ i).holder = some t) : ∃ j, i ≤ j ∧ (x.ρ j).holder = none := by
  refine leads x t (fun j => (x.ρ j).holder = some t) (fun j => (x.ρ j).holder = none)
    (fun j => rkS (x.ρ j) t) ?_ ?_ ?_ i hh
  · intro j hR hn
    obtain ⟨a, b⟩ := hold_stay x hr hR hn
    exact .inr ⟨a, Nat.le_of_eq b⟩
  · intro j hR ⟨e, he, ht, hne⟩
    exact hold_own (x.next_some he) ht hne (x.inv hr j) hR
  · intro j hR
    obtain ⟨j', h1, h2, _⟩ := next_move x hw (holds_ready (((x.inv hr j).a.hold t).mp hR))
    exact ⟨j', h1, h2⟩

/-- The spinlock is free again and again. -/
theorem lock_free_again (x : Exec cfg s0) (hr : Reachable cfg s0) (hw : WeakFair x) (i : Nat) :
    ∃ j, i ≤ j ∧ (x.ρ j).holder = none := by
  cases hh : (x.ρ i).holder with
  | none => exact ⟨i, Nat.le_refl _, hh⟩
  | some t => exact lock_released x hr hw hh

/-- Every thread leaves the test-and-set loop. -/
theorem spin_exits (x : Exec cfg s0) (hr : Reachable cfg s0) (hw : WeakFair x) (hs : SpinFair x)
    (t : Tid) (i : Nat) : ∃ j, i ≤ j ∧ ((x.ρ j).thr t).loc.spinLoop = false := by
  apply Classical.byContradiction
  intro hn
  apply hs t i
  · intro j hj
    cases hl : ((x.ρ j).thr t).loc.spinLoop
    · exact absurd ⟨j, hj, hl⟩ hn
    · rfl
  · intro j _
    exact lock_free_again x hr hw j

/-- The first time at or after `i` at which `P` fails, if there is one. -/
theorem first_not {P : Nat → Prop} : ∀ d i, ¬ P (i + d) →
    ∃ j, i ≤ j ∧ ¬ P j ∧ ∀ j', i ≤ j' → j' < j → P j' := by
  intro d
  induction d with
  | zero => intro i h; exact ⟨i, Nat.le_refl _, h, fun j' h1 h2 => by omega⟩
  | succ d ih =>
    intro i h
    by_cases hi : P i
    · obtain ⟨j, h1, h2, h3⟩ := ih (i + 1) (by rw [show i + 1 + d = i + (d + 1) by omega]; exact h)
      refine ⟨j, by omega, h2, fun j' h4 h5 => ?_⟩
      by_cases hj : j' = i
      · subst hj; exact hi
      · exact h3 j' (by omega) h5
    · exact ⟨i, Nat.le_refl _, hi, fun j' h1 h2 => by omega⟩

/-- Leads-to with a loop `L` that the thread leaves by hypothesis (`hloop`): steps of `t` inside the
    loop do not increase the rank, steps of `t` outside it decrease it. -/
theorem leads_loop (x : Exec cfg s0) (t : Tid) (R G L : Nat → Prop) (rk : Nat → Nat)
    (hstay : ∀ j, R j → ¬ Moves x t j →
      G (j + 1) ∨ (R (j + 1) ∧ rk (j + 1) ≤ rk j ∧ (L (j + 1) → L j)))
    (hmove : ∀ j, R j → ¬ L j → Moves x t j → G (j + 1) ∨ (R (j + 1) ∧ rk (j + 1) < rk j))
    (hmoveL : ∀ j, R j → L j → Moves x t j → G (j + 1) ∨ (R (j + 1) ∧ rk (j + 1) ≤ rk j))
    (hloop : ∀ i, (∀ j, i ≤ j → L j) → False)
    (hlive : ∀ j, R j → ¬ L j → ∃ j', j ≤ j' ∧ Moves x t j') :
    ∀ i, R i → ∃ j, i ≤ j ∧ G j := by
  -- inside the loop: R and the rank bound are kept until the loop is left
  have inloop : ∀ i d, R i → (∀ j, i ≤ j → j < i + d → L j) →
      (∃ j, i ≤ j ∧ G j) ∨ (R (i + d) ∧ rk (i + d) ≤ rk i) := by
    intro i d hR
    induction d with
    | zero => intro _; exact .inr ⟨hR, Nat.le_refl _⟩
    | succ d ih =>
      intro hL
      rcases ih (fun j h1 h2 => hL j h1 (by omega)) with hg | ⟨a, b⟩
      · exact .inl hg
      · have hLd := hL (i + d) (by omega) (by omega)
        by_cases hm : Moves x t (i + d)
        · rcases hmoveL (i + d) a hLd hm with hg | ⟨a', b'⟩
          · exact .inl ⟨i + d + 1, by omega, hg⟩
          · exact .inr ⟨a', by rw [show i + (d + 1) = i + d + 1 by omega]; omega⟩
        · rcases hstay (i + d) a hm with hg | ⟨a', b', _⟩
          · exact .inl ⟨i + d + 1, by omega, hg⟩
          · exact .inr ⟨a', by rw [show i + (d + 1) = i + d + 1 by omega]; omega⟩
  -- outside the loop: until the next move of `t`
  have outloop : ∀ i d, R i → ¬ L i → (∀ j, i ≤ j → j < i + d → ¬ Moves x t j) →
      (∃ j, i ≤ j ∧ G j) ∨ (R (i + d) ∧ rk (i + d) ≤ rk i ∧ ¬ L (i + d)) := by
    intro i d hR hL
    induction d with
    | zero => intro _; exact .inr ⟨hR, Nat.le_refl _, hL⟩
    | succ d ih =>
      intro hn
      rcases ih (fun j h1 h2 => hn j h1 (by omega)) with hg | ⟨a, b, c⟩
      · exact .inl hg
      · rcases hstay (i + d) a (hn (i + d) (by omega) (by omega)) with hg | ⟨a', b', c'⟩
        · exact .inl ⟨i + d + 1, by omega, hg⟩
        · exact .inr ⟨a', by rw [show i + (d + 1) = i + d + 1 by omega]; omega,
            fun hl => c (c' hl)⟩
  have key : ∀ m i, rk i ≤ m → R i → ∃ j, i ≤ j ∧ G j := by
    intro m
    induction m using Nat.strongRecOn with
    | _ m ih =>
      -- first get out of the loop
      have out : ∀ i, rk i ≤ m → R i → ¬ L i → ∃ j, i ≤ j ∧ G j := by
        intro i hm hR hL
        obtain ⟨j', h1, h2, h3⟩ := first_move' x (hlive i hR hL)
        obtain ⟨d, rfl⟩ : ∃ d, j' = i + d := ⟨j' - i, by omega⟩
        rcases outloop i d hR hL h3 with hg | ⟨a, b, c⟩
        · exact hg
        · rcases hmove (i + d) a c h2 with hg | ⟨a', b'⟩
          · exact ⟨i + d + 1, by omega, hg⟩
          · obtain ⟨j, hj, hG⟩ := ih (rk (i + d + 1)) (by omega) (i + d + 1) (Nat.le_refl _) a'
            exact ⟨j, by omega, hG⟩
      intro i hm hR
      by_cases hL : L i
      · have : ∃ j, i ≤ j ∧ ¬ L j := by
          apply Classical.byContradiction; intro hn
          exact hloop i (fun j hj => Classical.byContradiction fun h => hn ⟨j, hj, h⟩)
        obtain ⟨j, hj, hnl⟩ := this
        obtain ⟨d, rfl⟩ : ∃ d, j = i + d := ⟨j - i, by omega⟩
        obtain ⟨j, h1, h2, h3⟩ := first_not d i hnl
        obtain ⟨d', rfl⟩ : ∃ d', j = i + d' := ⟨j - i, by omega⟩
        rcases inloop i d' hR h3 with hg | ⟨a, b⟩
        · exact hg
        · obtain ⟨j, hj, hG⟩ := out (i + d') (by omega) a h2
          exact ⟨j, by omega, hG⟩
      · exact out i hm hR hL
  intro i hR
  exact key (rk i) i (Nat.le_refl _) hR

end NsyncVerif.CvFix
