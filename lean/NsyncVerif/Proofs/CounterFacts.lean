/-
  Proofs/CounterFacts.lean — per-step facts (what one accepted event can change), used by the
  trace-level theorems of C10.
-/
import NsyncVerif.Proofs.CounterStepBase

namespace Counter

/-- the waiter record a program point refers to -/
def pcNw : PC → Option NwId
  | .wEnqLockCall _ k | .wEnqLockWait _ k | .wEnqLoad _ k | .wEnqStore _ k _
  | .wEnqUnlockCall _ k _ | .wEnqUnlockWait _ k _ | .wLoopStore _ k | .wLoopLoad _ k
  | .wPdEnter _ k | .wPdWait _ k _
  | .wDeqLockCall _ k _ | .wDeqLockWait _ k _ | .wDeqLoadV _ k _ | .wDeqLoadW _ k _ _
  | .wDeqStore _ k _ _ | .wDeqUnlockCall _ k _ _ | .wDeqUnlockWait _ k _ _ => some k
  | _ => none

/-- program points of nsync_counter_wait after the first ready_time said "not ready":
    from the record initialisation to the end of dequeue -/
def sleepPath : PC → Bool
  | .wInit _ => true
  | p => (pcNw p).isSome

/-- the thread is an add that made the counter zero and has not released counter_mu yet -/
def wakeLoop : PC → Prop
  | .aLoadWaited _ r _ => r = 0
  | .aHeld _ _ _ wake => wake = true
  | .aPost _ _ _ _ => True
  | _ => False

/-- the delta of the nsync_counter_add call in progress -/
def pcDelta : PC → Option Int
  | .azLoad | .azRet _ => some 0
  | .aLockCall d | .aLockWait d | .aLoad d | .aCas d _ | .aLoadWaited d _ _ | .aHeld d _ _ _
  | .aPost d _ _ _ | .aUnlockWait d _ _ | .aRet d _ _ => some d
  | _ => none

/-- the deadline of the nsync_counter_wait call in progress -/
def pcDl : PC → Option Deadline
  | .w0Store dl | .w0Load dl | .wInit dl | .wEnqLockCall dl _ | .wEnqLockWait dl _ | .wEnqLoad dl _
  | .wEnqStore dl _ _ | .wEnqUnlockCall dl _ _ | .wEnqUnlockWait dl _ _ | .wLoopStore dl _
  | .wLoopLoad dl _ | .wPdEnter dl _ | .wPdWait dl _ _ | .wDeqLockCall dl _ _ | .wDeqLockWait dl _ _
  | .wDeqLoadV dl _ _ | .wDeqLoadW dl _ _ _ | .wDeqStore dl _ _ _ | .wDeqUnlockCall dl _ _ _
  | .wDeqUnlockWait dl _ _ _ | .wFinalLoad dl | .wRet dl _ => some dl
  | _ => none

/-- the event is an atomic access to `nw<k>.waiting` -/
def touches : Ev → NwId → Prop
  | .ld _ (.nwWaiting k') _, k => k' = k
  | .st _ (.nwWaiting k') _ _, k => k' = k
  | .cas _ (.nwWaiting k') _ _ _ _, k => k' = k
  | _, _ => False

structure StepFacts (s : State) (t : Tid) (e : Ev) (s' : State) : Prop where
  others : ∀ u, u ≠ t → s'.pc u = s.pc u
  hist : (s'.sh.hist = s.sh.hist ∧ s'.sh.deltas = s.sh.deltas ∧ s'.sh.value = s.sh.value
            ∧ s'.sh.initial = s.sh.initial)
       ∨ (∃ d v new, s.pc t = .aCas d v ∧ e = .cas .ar .value v new v true ∧ v = s.sh.value
            ∧ s'.sh.hist = s.sh.hist ++ [new] ∧ s'.sh.deltas = s.sh.deltas ++ [d]
            ∧ (new : Int) = (s.sh.value : Int) + d ∧ s'.sh.value = new ∧ s'.sh.initial = s.sh.initial)
       ∨ (∃ v, s.pc t = .newStore v ∧ s.sh.created = false ∧ s'.sh.hist = [v] ∧ s'.sh.value = v)
  zst : s.sh.waited = true → s.sh.value = 0 → s'.sh.value = 0
  wtd : s.sh.waited = true → s'.sh.waited = true
  nosleep : s.sh.value = 0 → sleepPath (s.pc t) = false → sleepPath (s'.pc t) = false
  recs : ∀ k, (s'.sh.nw k).live = true →
      ((s.sh.nw k).live = true ∧ (s'.sh.nw k).owner = (s.sh.nw k).owner
          ∧ (pcNw (s.pc t) = some k → pcNw (s'.pc t) = some k))
      ∨ ((s'.sh.nw k).owner = t ∧ pcNw (s'.pc t) = some k)
  access : ∀ k, touches e k → (s.sh.nw k).live = true → (s.sh.nw k).owner ≠ t →
      s.sh.lockHolder = some t ∧ k ∈ s.sh.waiters ∧ wakeLoop (s.pc t)
  waiters : s.sh.lockHolder ≠ some t → s'.sh.waiters = s.sh.waiters
  delta : ∀ d, pcDelta (s.pc t) = some d → s'.pc t = .idle ∨ pcDelta (s'.pc t) = some d
  dline : ∀ d, pcDl (s.pc t) = some d → s'.pc t = .idle ∨ pcDl (s'.pc t) = some d
  callA : ∀ d, e = .callAdd d → s.pc t = .idle ∧ pcDelta (s'.pc t) = some d
  callW : ∀ d, e = .callWait d → s.pc t = .idle ∧ s'.pc t = .w0Store d

theorem dflt_facts {s s' : State} {idle : Bool} {e : Ev} (t : Tid) (h : dflt s idle e = .ok s') :
    StepFacts s t e s' := by
  unfold dflt at h
  repeat' (split at h)
  all_goals first
    | (cases h; done)
    | (cases h; constructor <;> simp_all [Shared.setSem, touches])

set_option hygiene false in
macro "facts_open" : tactic => `(tactic| (
  have hp := hi.pcs t; rw [hpc] at hp
  have hs := hi.sh
  simp only [stepThr, hpc] at h
  repeat' (split at h)
  all_goals first | (cases h; done) | exact dflt_facts t h | skip
  all_goals (cases h; (try simp only [setPc_eq]))
  all_goals try (have hm := useMu_eq (by assumption); subst hm)
  all_goals simp only [pcInv, pcFacts, holds] at hp))

set_option hygiene false in
macro "facts_tac" : tactic => `(tactic| (
  constructor <;>
    try (first
      | (simp_all [State.mk', Shared.setSem, Shared.setRec, Shared.setSemUser, pcNw, sleepPath, wakeLoop,
          touches, own, woken, pcDelta, pcDl] <;> grind)
      | (simp only [State.mk', Shared.setSem, Shared.setRec, Shared.setSemUser, pcNw, sleepPath, wakeLoop,
          touches, own, woken, pcDelta, pcDl, hpc, ite_live, ite_owner] at * <;> grind)
      | grind)))

end Counter
