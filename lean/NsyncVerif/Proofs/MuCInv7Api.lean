import NsyncVerif.Proofs.MuCInv7St
/-
  MuC, MU_ALL_FALSE: store steps, API boundaries, condition evaluations, client data.
-/
namespace NsyncVerif.MuC

/-- like `inv7_local`, but the goals about conditions (`hcnd`), about the meaning of the hint (`ha1`)
    and about the new value of MU_ALL_FALSE (`haf`) are left to the caller, in this order -/
macro "inv7_local'" t:ident h:ident heq:ident : tactic => `(tactic|
  (have hf7 := ($h).fst $t
   rw [$heq:ident] at hf7
   refine Inv7.local $t $h ?_ ?_ ?hcnd (by simp) (by first | (simp; done) | (simp; intro hnv _; exact hnv)) ?ha1 ?haf ?_ ?_ ?_ ?_ ?_ ?_ ?_ ?_ ?hcb
   case refine_1 =>
     intro k hk
     exact (queued_same (t := $t) (by simp) (by intro u hu; simp [setFn, hu])
        (by rw [$heq:ident]; simp [setFn, PC.scan?, loopPc, finPc, Ret.pc] <;> (repeat' split) <;> simp [PC.scan?]) k).1 hk
   case refine_2 => intro k hk; simpa using hk
   case refine_3 => intro u hu; simp [setFn, hu]
   case refine_4 => pc_fact $heq
   case refine_5 => pc_fact $heq
   case refine_6 => pc_fact $heq
   case refine_7 => intro old ho; left; revert ho; pc_fact $heq
   case refine_8 => pc_fact $heq
   case refine_9 =>
     first
     | (simp [PC.enqPend, setFn, loopPc, finPc, Ret.pc]; done)
     | (simp [PC.enqPend, setFn, loopPc, finPc, Ret.pc, enqWord] <;> (repeat' split) <;> simp_all [PC.enqPend])
   case refine_10 => pc_fact $heq))

theorem not_secOpen_step {s s' : State} (t : Tid) (hcl : ¬ SecOpen s) (hh : s'.held = s.held)
    (hpc : ∀ u, u ≠ t → s'.pc u = s.pc u) (hf : (s'.pc t).firstW = false) : ¬ SecOpen s' := by
  rintro ⟨u, hu⟩
  rw [hh] at hu
  by_cases e : u = t
  · subst e
    rcases hu with hu | hu
    · exact hcl ⟨u, Or.inl hu⟩
    · rw [hf] at hu; cases hu
  · rw [hpc u e] at hu; exact hcl ⟨u, hu⟩

theorem mtRelWord_af (add : Option Mode) (old : Word) : (mtRelWord add old).af = old.af := by
  cases add with
  | none => rfl
  | some m => cases m <;> rfl

theorem inv7_stepSt {s s' : State} {t : Tid} {o : Ord} {loc : Loc} {new obs : Nat}
    (h1 : Inv1 s) (h1' : Inv1 s') (h3 : Inv3 s) (h4 : Inv4 s) (h : Inv7 s)
    (hs : stepSt s t o loc new obs = .ok s') : Inv7 s' := by
  unfold stepSt at hs
  split at hs
  · -- lsSt: MU_ALL_FALSE was cleared by the enqueue CAS
    rename_i c heq
    have hf7 := h.fst t; rw [heq] at hf7
    have hafs : s.word.af = false := h.enq t (by rw [heq]; rfl)
    have hsp := h3.others_no_spin (t := t) (by rw [heq]; rfl)
    dsimp only at hs
    repeat' split at hs
    all_goals first
      | (cases hs; done)
      | skip
    iterate 2
      · rename_i k _ _ _ _ _ hcw hown hwait _
        simp only [Bool.not_eq_true] at hwait
        cases hs
        have hnq : ∀ x, Queued s x → x ≠ k := fun x hx e => by have := h4.wait x hx; rw [e, hwait] at this; cases this
        refine Inv7.spin_step t h hsp (by simpa [enqLast, enqFirst] using hafs)
          (by intro x hx; simp [enqLast, enqFirst, cond_of_merge, setFn, hnq x hx]) (by simp [enqLast, enqFirst])
          (by intro u hu; simp [enqLast, enqFirst, setFn, hu]) (by simp [PC.scan?]) (by simp [PC.reScan]) (by simp [PC.finOf])
          (by simp [PC.mtOld]) (by intro c' hc'; exact hf7 c' (by simpa [PC.mwPost] using hc'))
          (fun u hu => spin_of_nonLate (h1.pcok u) (h3.ok3 u) hu) (by simp [PC.nonLate])
    iterate 2
      · rename_i k _ _ _ _ _ k' hcw hkk hwait _
        simp only [Bool.not_eq_true] at hwait
        cases hs
        have hnq : ∀ x, Queued s x → x ≠ k := fun x hx e => by have := h4.wait x hx; rw [e, hwait] at this; cases this
        refine Inv7.spin_step t h hsp (by simpa [enqLast, enqFirst] using hafs)
          (by intro x hx; simp [enqLast, enqFirst, cond_of_merge, setFn, hnq x hx]) (by simp [enqLast, enqFirst])
          (by intro u hu; simp [enqLast, enqFirst, setFn, hu]) (by simp [PC.scan?]) (by simp [PC.reScan]) (by simp [PC.finOf])
          (by simp [PC.mtOld]) (by intro c' hc'; exact hf7 c' (by simpa [PC.mwPost] using hc'))
          (fun u hu => spin_of_nonLate (h1.pcok u) (h3.ok3 u) hu) (by simp [PC.nonLate])
  · rename_i heq; ld_case7 t h heq hs
  · -- mwStW: the record, on no list, gets the condition of the call
    rename_i c heq
    dsimp only at hs
    repeat' split at hs
    all_goals first
      | (cases hs; done)
      | skip
    · rename_i k _ _ _ _ _ hcw hown hwait
      simp only [Bool.not_eq_true] at hwait
      cases hs
      have hnq : ∀ x, Queued s x → x ≠ k := fun x hx e => by have := h4.wait x hx; rw [e, hwait] at this; cases this
      inv7_local' t h heq
      case hcnd => intro x hx; simp [setFn, hnq x hx]
      case ha1 =>
        left
        refine ⟨by rw [heq]; simp [PC.susp], ?_⟩
        intro d hd
        refine refData_congr (secOpen_congr (by simp) ?_) (by simp) (by simp) hd
        intro u
        by_cases hu : u = t
        · subst hu; simp [heq, PC.firstW]
        · simp [setFn, hu]
      case haf => intro haf; left; simpa using haf
      case hcb => intro hcb; left; simpa using hcb
    · rename_i k _ _ _ _ _ k' hcw hkk hwait
      simp only [Bool.not_eq_true] at hwait
      cases hs
      have hnq : ∀ x, Queued s x → x ≠ k := fun x hx e => by have := h4.wait x hx; rw [e, hwait] at this; cases this
      inv7_local' t h heq
      case hcnd => intro x hx; simp [setFn, hnq x hx]
      case ha1 =>
        left
        refine ⟨by rw [heq]; simp [PC.susp], ?_⟩
        intro d hd
        refine refData_congr (secOpen_congr (by simp) ?_) (by simp) (by simp) hd
        intro u
        by_cases hu : u = t
        · subst hu; simp [heq, PC.firstW]
        · simp [setFn, hu]
      case haf => intro haf; left; simpa using haf
      case hcb => intro hcb; left; simpa using hcb
  · rename_i heq; ld_case7 t h heq hs
  · -- mtStRel: the word stored is built from `old_word`
    rename_i c old ok heq
    have hsp := h3.others_no_spin (t := t) (by rw [heq]; rfl)
    have hheld := h1.held_none (t := t) (by rw [heq]; simp)
    dsimp only at hs
    repeat' split at hs
    all_goals first
      | (cases hs; done)
      | skip
    all_goals
      (cases hs
       inv7_local' t h heq
       case hcnd => intro x _; simp
       case ha1 =>
         left
         refine ⟨by rw [heq]; simp [PC.susp], ?_⟩
         intro d hd
         -- nobody has a write section open before or after
         have hcl : ¬ SecOpen s := not_secOpen_of_owner h1 ((h1.lock.wown t).2 (by rw [h1.share_eq (by rw [heq]; simp), heq]; rfl))
           (by rw [hheld]; simp) (by rw [heq]; rfl)
         rcases hd with ⟨ho, _⟩ | ⟨_, rfl⟩
         · exact absurd ho (not_secOpen_step t hcl (by simp) (by intro u hu; simp [setFn, hu]) (by simp [PC.firstW]))
         · simpa using refData_of_closed hcl
       case haf =>
         intro haf
         right
         have hcl : ¬ SecOpen s := not_secOpen_of_owner h1 ((h1.lock.wown t).2 (by rw [h1.share_eq (by rw [heq]; simp), heq]; rfl))
           (by rw [hheld]; simp) (by rw [heq]; rfl)
         refine ⟨old, by rw [heq]; rfl, by simpa [mtRelWord_af] using haf, ?_, ?_⟩
         · exact not_secOpen_step t hcl (by simp) (by intro u hu; simp [setFn, hu]) (by simp [PC.firstW])
         · intro u hu
           cases e : (s.pc u).enqPend with
           | false => rfl
           | true => have := spin_of_enqPend e; rw [hsp u hu] at this; cases this
       case hcb =>
         intro _
         right
         refine ⟨?_, by simp [PC.nonLate]⟩
         intro u hu
         cases e : (s.pc u).nonLate with
         | false => rfl
         | true => have := spin_of_nonLate (h1.pcok u) (h3.ok3 u) e; rw [hsp u hu] at this; cases this)
  · cases hs

end NsyncVerif.MuC
