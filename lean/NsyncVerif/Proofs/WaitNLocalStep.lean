/-
  Proofs/WaitNLocalStep.lean — preservation of the thread-local invariant by the helper functions
  (dflt, semaphore binding, rtDone, deqDone, afterEnq, startScan, spinAcq, proto, stepOpen).
-/
import NsyncVerif.Proofs.WaitNLocal

namespace WaitN

/-- the step changes neither the program counter of `t` nor (up to the semaphore) its frame -/
def Keeps (s s' : State) (t : Tid) : Prop := s'.pc t = s.pc t ∧ frSame (s.fr t) (s'.fr t)

theorem Keeps.refl (s : State) (t : Tid) : Keeps s s t := ⟨rfl, frSame_refl _⟩

theorem Keeps.trans {s s1 s2 : State} {t : Tid} (a : Keeps s s1 t) (b : Keeps s1 s2 t) : Keeps s s2 t :=
  ⟨b.1.trans a.1, frSame_trans a.2 b.2⟩

theorem Keeps.of_eq {s s' : State} {t : Tid} (h1 : s'.pc t = s.pc t) (h2 : s'.fr t = s.fr t) : Keeps s s' t :=
  ⟨h1, by rw [h2]; exact frSame_refl _⟩

theorem Keeps.linv {s s' : State} {t : Tid} (k : Keeps s s' t) (h : LInv (s.pc t) (s.fr t)) :
    LInv (s'.pc t) (s'.fr t) := by
  rw [k.1]; exact LInv.same k.2 h

macro "keeps_simp" : tactic => `(tactic| (apply Keeps.of_eq <;> (simp; done)))

theorem keeps_bindSem {s s' : State} {t owner : Tid} {j : SemId} (h : bindSem s owner j = some s') :
    Keeps s s' t := by
  unfold bindSem at h
  split at h
  · split at h
    · cases h; exact Keeps.refl _ _
    · cases h
  · split at h
    · cases h
    · cases h
      refine ⟨rfl, ?_⟩
      simp only [setSemUser_fr, setFr_fr]
      split
      · rename_i h; subst h; rfl
      · rfl

theorem keeps_postSem {s s' : State} {t : Tid} {r : Rid} {j : SemId} (h : postSem s r j = some s') :
    Keeps s s' t := by
  unfold postSem at h
  split at h
  · exact keeps_bindSem h
  · cases h; exact Keeps.refl _ _

theorem keeps_dflt {s s' : State} {t : Tid} {e : Ev} (h : dflt s t e = .ok s') : Keeps s s' t := by
  unfold dflt at h
  split_ok h <;> (cases h; first | exact Keeps.refl _ _ | keeps_simp)

/-- leaf closer for steps that only touch the shared state -/
macro "keeps_leaf" h:ident : tactic =>
  `(tactic| first
    | exact keeps_dflt $h
    | (cases $h:ident; first
        | exact Keeps.refl _ _
        | keeps_simp
        | exact Keeps.trans (keeps_postSem ‹postSem _ _ _ = some _›) (by keeps_simp)
        | exact Keeps.trans (keeps_bindSem ‹bindSem _ _ _ = some _›) (by keeps_simp)))

theorem keeps_proto {s s' : State} {t : Tid} {e : Ev} (h : proto s t e = .ok s') : Keeps s s' t := by
  unfold proto at h
  split_ok h <;> keeps_leaf h

theorem keeps_stepOpen {s s' : State} {t : Tid} {e : Ev} (h : stepOpen s t e = .ok s') : Keeps s s' t := by
  unfold stepOpen at h
  split_ok h <;> first | exact keeps_proto h | keeps_leaf h

/-! ### LInv is the same for all sub-states of one waitable call -/

theorem linv_nd {u : Use} {i : Nat} {st st' : NDst} {f : Frame} (h : LInv (.wND u i st) f) : LInv (.wND u i st') f := by
  cases u <;> exact h
theorem linv_ctrRT {u : Use} {i : Nat} {l l' : Bool} {f : Frame} (h : LInv (.wCtrRT u i l) f) : LInv (.wCtrRT u i l') f := by
  cases u <;> exact h
theorem linv_enqCv {i : Nat} {st st' : CvEnqSt} {f : Frame} (h : LInv (.wEnqCv i st) f) : LInv (.wEnqCv i st') f := h
theorem linv_enq {i : Nat} {st st' : EnqSt} {f : Frame} (h : LInv (.wEnq i st) f) : LInv (.wEnq i st') f := h
theorem linv_deqCv {i : Nat} {st st' : CvDeqSt} {f : Frame} (h : LInv (.wDeqCv i st) f) : LInv (.wDeqCv i st') f := h
theorem linv_deq {i : Nat} {st st' : DeqSt} {f : Frame} (h : LInv (.wDeq i st) f) : LInv (.wDeq i st') f := h
theorem linv_pd {j : SemId} {f : Frame} : LInv .wPdEnter f ↔ LInv (.wPdWait j) f := Iff.rfl

/-! ### rtDone -/

theorem linv_rtDone_poll {s s' : State} {t : Tid} {i : Nat} {time : Deadline}
    (hf : Fresh (s.fr t)) (hr : (s.fr t).ready = (s.fr t).count) (hi : i < (s.fr t).count)
    (h : rtDone s t .poll i time = .ok s') : LInv (s'.pc t) (s'.fr t) := by
  unfold rtDone at h
  simp only at h
  split at h
  · cases h
    simp only [setPc_pc, setPc_fr, setFr_fr, if_true, LInv]
    refine ⟨trivial, .inl ⟨{ hf with }, Nat.le_of_lt hi, ?_⟩⟩
    intro h; exact absurd h (Nat.ne_of_lt hi)
  · cases h
    simp only [setPc_pc, setPc_fr, if_true]
    exact linv_pollNext hf hr _

theorem linv_rtDone_loop {s s' : State} {t : Tid} {i : Nat} {time : Deadline}
    (hf : InLoop (s.fr t)) (h : rtDone s t .loop i time = .ok s') : LInv (s'.pc t) (s'.fr t) := by
  unfold rtDone at h
  simp only at h
  cases h
  simp only [setPc_pc, setPc_fr, setFr_fr, if_true]
  apply linv_loopNext
  split
  · exact { hf with whyMin := fun _ => by simp }
  · split
    · rename_i hp hlt
      refine { hf with whyMin := ?_ }
      intro hm; simp only at hm; rw [hm] at hp; exact absurd rfl hp
    · exact hf

theorem linv_rtDone_deq {s s' : State} {t : Tid} {i : Nat} {time : Deadline}
    (hf : LInv (.wND .deq i .ld0) (s.fr t)) (h : rtDone s t .deq i time = .ok s') : LInv (s'.pc t) (s'.fr t) := by
  unfold rtDone at h
  simp only at h
  cases h
  simp only [setPc_pc, setPc_fr, if_true, LInv] at hf ⊢
  exact ⟨hf.1, hf.2.1, hf.2.2.1, .inl hf.2.2.2.1, hf.2.2.2.2⟩

end WaitN
