/-
  Layer `CvFix` (cv.c with the repair of F3; adapted from the `Cv` file of the same name): protocol invariant — local transitions (the loads after the semaphore wait).
-/
import NsyncVerif.Proofs.CvFixInvBLoc3

namespace NsyncVerif.CvFix

set_option maxHeartbeats 1000000 in
theorem invB_loc_atm3 {s : State} {t : Tid} {e : Event} {x' : Thr} (hi : InvB s) (ha : InvA s) (h : LTr s t e x')
    (he : e.isAtomic = true) (he2 : e.isRecLd = true) (he3 : e.isSettle = true) : InvB (s.setThr t x') := by
  have hb := hi.thr t
  obtain ⟨b1, b2, b3, b4, b5, b6, b7, b8, b9, b10, b11, b12, b13, b14⟩ := hb
  have a3 := (ha.thr t).live
  cases h with
  | wChk y r obs hy hl hr ho hso =>
    by_cases hz : obs = 0 <;> simp only [hz, if_true, if_false]
    all_goals
      cases hy with
      | id _ _ => locB_case hl
      | pre h hn => locB_case h
      | postOk h ht => locB_case h
      | postCancel h ht hc hn => locB_case h
      | postTimed h ht hc hd => locB_case h
  | wTail y r obs hy hl hr ho =>
    cases hy with
    | id _ _ => locB_case hl
    | pre h hn => locB_case h
    | postOk h ht => locB_case h
    | postCancel h ht hc hn => locB_case h
    | postTimed h ht hc hd => locB_case h
  | rcLd site r obs hl hs hr ho => rcases hs with ⟨rfl, _⟩ | ⟨rfl, _⟩ <;> simp [Event.isSettle] at he3
  | _ => first | (simp [Event.isAtomic] at he; done) | (simp [Event.isRecLd] at he2; done) | (simp [Event.isSettle] at he3; done)

theorem invB_loc {s : State} {t : Tid} {e : Event} {x' : Thr} (hi : InvB s) (ha : InvA s) (h : LTr s t e x') :
    InvB (s.setThr t x') := by
  cases he : e.isAtomic
  · exact invB_loc_api hi ha h he
  · cases he2 : e.isRecLd
    · exact invB_loc_atm1 hi ha h he he2
    · cases he3 : e.isSettle
      · exact invB_loc_atm2 hi ha h he he2 he3
      · exact invB_loc_atm3 hi ha h he he2 he3

end NsyncVerif.CvFix
