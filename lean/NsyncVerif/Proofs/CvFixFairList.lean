/-
  Layer `CvFix`, liveness: every record a waker has unlinked is woken or transferred
  (`listed_woken`): it leaves the waker's private list only by the transfer to the mutex queue or by
  `waiting := 0`, which is followed by the V of the waker (`wwV_posts`).
-/
import NsyncVerif.Proofs.CvFixFairWake

namespace NsyncVerif.CvFix

/-- How a record leaves the private list of waker `t`. -/
theorem list_own {cfg : Config} {s s' : State} {e : Event} {t : Tid} {r : Rid}
    (hs : step cfg s e = .ok s') (ht : e.tid = some t) (hi : Inv s)
    (hm : r ∈ (s.thr t).list) (hn : r ∉ (s'.thr t).list) :
    (s'.recs r).stat = .xfer ∨ ((s'.thr t).loc = .wwV ∧ ∃ q, (s'.thr t).cur = some (r, q)) := by
  have hl0 := (hi.a.thr t).list0
  have hwp : (s.thr t).loc.wakePhase = true := by
    cases h : (s.thr t).loc.wakePhase
    · rw [hl0 h] at hm; cases hm
    · rfl
  have htr := step_tr hs
  cases htr with
  | same e h hna => exact absurd hm hn
  | tick ns h => exact absurd hm hn
  | semOther e sem' h hopen => exact absurd hm hn
  | loc h =>
    rename_i t0 x'
    have := ltr_tid h
    rw [ht] at this; cases this
    exfalso
    simp only [setThr_thr, if_true] at hn
    cases h with
    | spinLd site obs hl ho => rcases hl with ⟨_, hl⟩ | ⟨_, hl⟩ <;> simp [hl, Loc.wakePhase] at hwp
    | wwRelLd site obs hl => exact hn hm
    | retWait res hl hr => rcases hl with hl | hl <;> simp [hl, Loc.wakePhase] at hwp
    | noteSeen hl => rcases hl with hl | hl | hl <;> simp [hl, Loc.wakePhase] at hwp
    | wChk y r obs hy hl hr ho hso => cases hy <;> simp_all [Loc.wakePhase]
    | wTail y r obs hy hl hr ho => cases hy <;> simp_all [Loc.wakePhase]
    | _ => simp_all [Loc.wakePhase, Thr.fresh]
  | acq t0 exp new obs o n hl hexp hw he ho hn' hnew =>
    simp only [Event.tid, Option.some.injEq] at ht; subst ht
    simp [hl, Loc.wakePhase] at hwp
  | wwCasOk t0 exp new obs f rest hl hlist =>
    simp only [Event.tid, Option.some.injEq] at ht; subst ht
    left
    simp only [updT_apply, if_true, List.mem_filter, not_and, Bool.not_eq_true', Bool.not_eq_false] at hn
    have := hn hm
    simp only [this, if_true]
  | wake t0 r0 obs hl hr =>
    simp only [Event.tid, Option.some.injEq] at ht; subst ht
    right
    simp only [setThr_thr, if_true] at hn ⊢
    refine ⟨trivial, ?_⟩
    cases hlist : (s.thr t0).list with
    | nil => rw [hlist] at hm; cases hm
    | cons a l =>
      rw [hlist] at hr hm hn
      simp only [List.head?_cons, Option.some.injEq] at hr
      simp only [List.tail_cons] at hn
      subst hr
      rcases List.mem_cons.mp hm with h | h
      · subst h; exact ⟨_, rfl⟩
      · exact absurd h hn
  | wInit t0 r0 h hm' hst => exact absurd hm hn
  | nwInit t0 r0 h hm' hst => exact absurd hm hn
  | fStW t0 r0 new h hf => exact absurd hm hn
  | fCasOk t0 r0 exp new obs h hf hn' ho he => exact absurd hm hn
  | _ =>
    simp only [Event.tid, Option.some.injEq] at ht
    replace ht := ht.symm
    subst ht
    simp_all [Loc.wakePhase]

/-- Between `waiting := 0` and the V the only step of the waker is the V. -/
theorem wwV_own {cfg : Config} {s s' : State} {e : Event} {t : Tid}
    (hs : step cfg s e = .ok s') (ht : e.tid = some t) (hne : e ≠ .noteSeen t)
    (hl : (s.thr t).loc = .wwV) : ∃ k, e = .semV t k := by
  have hop : (s.thr t).loc.isOpen = false := by simp [hl, Loc.isOpen]
  have htr := step_tr hs
  cases htr with
  | same e h hna => exact absurd rfl (nonatomic_closed hs ht hna hne hop)
  | tick ns h => simp [Event.tid] at ht
  | semOther e sem' h hopen => have := hopen t ht; rw [hop] at this; cases this
  | loc h =>
    rename_i t0 x'
    have := ltr_tid h
    rw [ht] at this; cases this
    exfalso
    cases h with
    | spinLd site obs hl' ho => rcases hl' with ⟨_, hl'⟩ | ⟨_, hl'⟩ <;> simp [hl] at hl'
    | wwRelLd site obs hl' => rcases hl' with ⟨_, hl'⟩ | ⟨_, hl'⟩ <;> simp [hl] at hl'
    | retWait res hl' hr => rcases hl' with hl' | hl' <;> simp [hl] at hl'
    | noteSeen hl' => rcases hl' with hl' | hl' | hl' <;> simp [hl] at hl'
    | wChk y r obs hy hl' hr ho hso => cases hy <;> simp_all
    | wTail y r obs hy hl' hr ho => cases hy <;> simp_all
    | _ => simp_all
  | semVWake t0 k r q h hc =>
    simp only [Event.tid, Option.some.injEq] at ht; subst ht; exact ⟨k, rfl⟩
  | wInit t0 r h hm hst =>
    simp only [Event.tid, Option.some.injEq] at ht; subst ht; rw [hop] at h; cases h
  | nwInit t0 r h hm hst =>
    simp only [Event.tid, Option.some.injEq] at ht; subst ht; rw [h] at hop; cases hop
  | fStW t0 r new h hf =>
    simp only [Event.tid, Option.some.injEq] at ht; subst ht; rw [hop] at h; cases h
  | fCasOk t0 r exp new obs h hf hn ho he =>
    simp only [Event.tid, Option.some.injEq] at ht; subst ht; rw [hop] at h; cases h
  | _ =>
    simp only [Event.tid, Option.some.injEq] at ht
    replace ht := ht.symm
    subst ht
    simp_all

variable {cfg : Config} {s0 : State}

theorem wakePhase_inWake {x : Thr} (h : x.loc.wakePhase = true) : inWake x = true := by
  unfold inWake; cases hl : x.loc <;> simp_all [Loc.wakePhase]

/-- A step that changes the frame of `t` is a step of `t` (or its `noteSeen`, which changes
    `sawNote` only). -/
theorem list_change (x : Exec cfg s0) {t : Tid} {j : Nat}
    (h : ((x.ρ (j + 1)).thr t).list ≠ ((x.ρ j).thr t).list) :
    ∃ e, x.σ j = some e ∧ e.tid = some t := by
  cases hs : x.σ j with
  | none => rw [x.next_none hs] at h; exact absurd rfl h
  | some e =>
    by_cases ht : e.tid = some t
    · exact ⟨e, rfl, ht⟩
    · rw [tr_other (step_tr (x.next_some hs)) ht] at h; exact absurd rfl h

/-- Every record on the private list of a waker is transferred to the mutex queue, or gets
    `waiting := 0` and then the V of that waker. -/
theorem listed_woken (x : Exec cfg s0) (hy : Hyps x) {t : Tid} {i : Nat} {r : Rid}
    (hm : r ∈ ((x.ρ i).thr t).list) :
    ∃ j, i ≤ j ∧ (((x.ρ j).recs r).stat = .xfer ∨
      ∃ q k, ((x.ρ j).thr t).cur = some (r, q) ∧ x.σ j = some (.semV t k)) := by
  have hi := x.inv hy.reach
  have hwp : ((x.ρ i).thr t).loc.wakePhase = true := by
    cases h : ((x.ρ i).thr t).loc.wakePhase
    · rw [((hi i).a.thr t).list0 h] at hm; cases hm
    · rfl
  obtain ⟨jr, hjr, hret⟩ := waker_returns x hy (wakePhase_inWake hwp)
  have hnr : ¬ (r ∈ ((x.ρ jr).thr t).list) := by
    have hk : ((x.ρ jr).thr t).loc = .kRet := by
      rcases hret with h | h
      · exact (retSignal_accepted (x.next_some h)).1
      · exact (retBroadcast_accepted (x.next_some h)).1
    rw [((hi jr).a.thr t).list0 (by simp [hk, Loc.wakePhase])]; simp
  obtain ⟨d, rfl⟩ : ∃ d, jr = i + d := ⟨jr - i, by omega⟩
  obtain ⟨j, h1, h2, h3⟩ := first_not (P := fun j => r ∈ ((x.ρ j).thr t).list) d i hnr
  have hji : i < j := by
    rcases Nat.lt_or_ge i j with h | h
    · exact h
    · have : j = i := by omega
      subst this; exact absurd hm h2
  obtain ⟨j0, rfl⟩ : ∃ j0, j = j0 + 1 := ⟨j - 1, by omega⟩
  have hm0 := h3 j0 (by omega) (by omega)
  obtain ⟨e, he, ht⟩ := list_change x (t := t) (j := j0) (by
    intro heq; rw [heq] at h2; exact h2 hm0)
  rcases list_own (x.next_some he) ht (hi j0) hm0 h2 with hx | ⟨hl, q, hc⟩
  · exact ⟨j0 + 1, by omega, .inl hx⟩
  · have hrd : Ready (x.ρ (j0 + 1)) t := by
      refine ⟨?_, ?_, ?_⟩ <;> simp [hl, Loc.foreign, Loc.asleep]
    obtain ⟨j', hj', ⟨e', he', ht', hne'⟩, hthr⟩ := next_move x hy.weak hrd
    obtain ⟨k, hk⟩ := wwV_own (x.next_some he') ht' hne' (by rw [hthr]; exact hl)
    exact ⟨j', by omega, .inr ⟨q, k, by rw [hthr]; exact hc, by rw [he', hk]⟩⟩

end NsyncVerif.CvFix
