import NsyncVerif.Proofs.MuQLeadsRun
/-
  MuQ, leads-to (C02): the measure and the loop.

  `stage s t`   3 acquiring · 2 owns a share (return point of lock, client holds, releasing call
                before its release point) · 1 past the release point (wake-ups pending, return
                points of unlock / of a failed try-lock) · 0 idle holding nothing.
                NO step other than the `call` of an acquiring operation increases it.
  `awake3 s t`  1 iff `t` is acquiring and not asleep.
  The measure of a state is the lexicographic pair (Σ stage, Σ awake3) over a finite list of
  threads covering every thread that is not idle-holding-nothing (`Cover`).

  `exists_mover`   while somebody is asleep on the mutex, there is an AWAKE thread, not a fresh
                   contender, that owns a share / is past its release point / is a non-fresh
                   acquirer, and the spinlock is free or its own: the responsible party of
                   `C02_responsible`, made concrete with `woken_not_lost`.
  `round`          running that thread alone (MuQLeadsRun) decreases the measure.
  `leads_to_wake`  iterate until the chosen sleeper is no longer asleep.
-/
namespace NsyncVerif.MuQ

def stage (s : State) (t : Tid) : Nat :=
  match s.pc t with
  | .idle => if s.held t = none then 0 else 2
  | .lkRet _ => 2
  | .tryRet _ true => 2
  | .tryRet _ false => 1
  | .ulCas0 _ | .ulLd _ | .ulCas1 _ _ | .usLd _ | .usCasUnc _ _ | .usCasGrab _ _ => 2
  | .ulRet _ | .usRcLd _ _ _ | .usRcCas _ _ _ _ | .usFinLd _ _ | .usFinCas _ _ _ => 1
  | .usWakeSt _ _ _ | .usWakeV _ _ _ => 1
  | _ => 3

def awake3 (s : State) (t : Tid) : Nat :=
  if stage s t = 3 ∧ asleepB s t = false then 1 else 0

theorem stage_congr {s s' : State} {t : Tid} (h1 : s'.pc t = s.pc t) (h2 : s'.held t = s.held t) :
    stage s' t = stage s t := by
  simp only [stage, h1, h2]

theorem stage_le (s : State) (t : Tid) : stage s t ≤ 3 := by
  simp only [stage]; repeat' split
  all_goals omega

theorem stage_of_slow {s : State} {t : Tid} {c : SL} {ph : Phase} (h : role (s.pc t) = .slow c ph) :
    stage s t = 3 := by
  cases hp : s.pc t <;> simp [hp, role] at h <;> simp [stage, hp]

theorem stage_of_holderLike {s : State} {t : Tid} (h : HolderLike s t) : 1 ≤ stage s t := by
  rcases h with ⟨h1, h2⟩ | h | h
  · simp [stage, h1, h2]
  · cases hp : s.pc t <;> simp [hp, retPc] at h
    · simp [stage, hp]
    · rename_i l r; cases r <;> simp [stage, hp]
  · cases hp : s.pc t <;> simp [hp, relPc] at h <;> simp [stage, hp]

theorem stage_idle_le {s : State} {t : Tid} (h : s.pc t = .idle) : stage s t ≤ 2 := by
  simp only [stage, h]; split <;> omega

theorem stage_done {s : State} {t : Tid} (h1 : s.pc t = .idle) (h2 : s.held t = none) : stage s t = 0 := by
  simp [stage, h1, h2]

/-! ### sums over a list of threads -/

def sumOver (f : Tid → Nat) (L : List Tid) : Nat := (L.map f).sum

theorem sumOver_le {f g : Tid → Nat} : ∀ (L : List Tid), (∀ t ∈ L, g t ≤ f t) → sumOver g L ≤ sumOver f L := by
  intro L
  induction L with
  | nil => intro _; simp [sumOver]
  | cons x xs ih =>
    intro h
    have h1 := h x (by simp)
    have h2 := ih (fun t ht => h t (by simp [ht]))
    simp only [sumOver, List.map_cons, List.sum_cons] at h2 ⊢
    omega

theorem sumOver_lt {f g : Tid → Nat} : ∀ (L : List Tid), (∀ t ∈ L, g t ≤ f t) → ∀ u, u ∈ L → g u < f u →
    sumOver g L < sumOver f L := by
  intro L
  induction L with
  | nil => intro _ u hu; cases hu
  | cons x xs ih =>
    intro h u hu hlt
    have h1 := h x (by simp)
    have hrest : ∀ t ∈ xs, g t ≤ f t := fun t ht => h t (by simp [ht])
    simp only [sumOver, List.map_cons, List.sum_cons]
    rcases List.mem_cons.1 hu with rfl | hu'
    · have := sumOver_le xs hrest
      simp only [sumOver] at this
      omega
    · have := ih hrest u hu' hlt
      simp only [sumOver] at this
      omega

theorem sumOver_bound {f : Tid → Nat} {b : Nat} (hb : ∀ t, f t ≤ b) : ∀ (L : List Tid), sumOver f L ≤ b * L.length := by
  intro L
  induction L with
  | nil => simp [sumOver]
  | cons x xs ih =>
    have := hb x
    simp only [sumOver, List.map_cons, List.sum_cons, List.length_cons, Nat.mul_succ] at ih ⊢
    omega

/-- Every thread outside `L` is idle holding nothing. -/
def Cover (L : List Tid) (s : State) : Prop := ∀ t, t ∉ L → IdleHoldingNothing s t

theorem reachable_cover {cfg : Cfg} {s : State} (h : Reachable cfg s) : ∃ L, Cover L s := by
  refine reachable_induction (P := fun s => ∃ L, Cover L s) ⟨[], fun _ _ => ⟨rfl, rfl⟩⟩ ?_ s h
  intro s e s' _ ⟨L, hL⟩ hs
  cases he : e.tid with
  | none =>
    refine ⟨L, fun t ht => ?_⟩
    have hne : e.tid ≠ some t := by rw [he]; intro h; cases h
    obtain ⟨h1, h2⟩ := hL t ht
    exact ⟨by rw [step_pc_other hs hne]; exact h1, by rw [step_held_other hs hne]; exact h2⟩
  | some u =>
    refine ⟨u :: L, fun t ht => ?_⟩
    have htu : t ≠ u := fun e => ht (by simp [e])
    have htL : t ∉ L := fun hm => ht (by simp [hm])
    obtain ⟨h1, h2⟩ := hL t htL
    obtain ⟨f1, f2⟩ := step_frame hs he t htu
    exact ⟨by rw [f1]; exact h1, by rw [f2]; exact h2⟩

theorem cover_frame {L : List Tid} {s s' : State} {u : Tid} (hc : Cover L s) (hf : Frame u s s')
    (hu : u ∈ L) : Cover L s' := by
  intro t ht
  have htu : t ≠ u := fun e => ht (by rw [e]; exact hu)
  obtain ⟨h1, h2⟩ := hc t ht
  obtain ⟨f1, f2⟩ := hf t htu
  exact ⟨by rw [f1]; exact h1, by rw [f2]; exact h2⟩

/-! ### the mover -/

/-- A thread the schedule can run next: awake, spinlock free or its own, and either a non-fresh
    acquirer inside lock_slow or a thread that owns a share / is past its release point. -/
def Mover (s : State) (u : Tid) : Prop :=
  ¬ AsleepOnSem s u ∧ (s.sp = none ∨ s.sp = some u) ∧
    ((wokenPc (s.pc u) = true ∧ ∃ c ph, role (s.pc u) = .slow c ph) ∨ HolderLike s u)

theorem wake_relPc {p : PC} {k : Wid} (h : k ∈ (role p).wake) : relPc p = true := by
  cases p <;> simp [role, Role.wake] at h <;> rfl

theorem not_asleep_of_relPc {s : State} {u : Tid} (h : relPc (s.pc u) = true) : ¬ AsleepOnSem s u := by
  rintro ⟨c, k, hp, _⟩; rw [hp] at h; cases h

/-- A thread in its wait loop whose record is not queued, with the spinlock free: it, or the
    unlocker that has its record on its wake list, can move. -/
theorem loop_unqueued_mover {cfg : Cfg} {s : State} (hr : Reachable cfg s) (hsp : s.sp = none)
    {f : Tid} {c : SL} {ph : Phase} {k : Wid} (hro : role (s.pc f) = .slow c ph) (hph : ph.inLoop = true)
    (hw : c.w = some k) (hk : k ∉ s.queue) : ∃ u, Mover s u := by
  have hwoken : wokenPc (s.pc f) = true := by
    cases hp : s.pc f <;> simp [hp, role] at hro <;> simp [wokenPc]
    all_goals (obtain ⟨_, rfl⟩ := hro; cases hph)
  rcases woken_not_lost hr hro hph hw hk with ⟨_, h2⟩ | ⟨_, v, hv⟩
  · rcases h2 with h2 | h2 | ⟨v, l, r, hv⟩
    · refine ⟨f, ?_, Or.inl hsp, Or.inl ⟨hwoken, c, ph, hro⟩⟩
      rintro ⟨c', k', hp, _⟩
      rw [hp] at hro; simp [role] at hro; rw [h2] at hro; cases hro.2
    · refine ⟨f, ?_, Or.inl hsp, Or.inl ⟨hwoken, c, ph, hro⟩⟩
      rintro ⟨c', k', hp, hw', hs'⟩
      rw [hp] at hro; simp [role] at hro
      obtain ⟨rfl, _⟩ := hro
      rw [hw] at hw'; cases hw'
      exact h2 hs'
    · have hrel : relPc (s.pc v) = true := by rw [hv]; rfl
      exact ⟨v, not_asleep_of_relPc hrel, Or.inl hsp, Or.inr (Or.inr (Or.inr hrel))⟩
  · have hrel := wake_relPc hv
    exact ⟨v, not_asleep_of_relPc hrel, Or.inl hsp, Or.inr (Or.inr (Or.inr hrel))⟩

theorem share_holderLike {s : State} (hh : HeldIdle s) {t : Tid} (h : shareOf s t ≠ none) : HolderLike s t := by
  cases hx : s.held t with
  | some m => exact Or.inl ⟨hh t (by simp [hx]), by simp [hx]⟩
  | none =>
    right
    simp only [shareOf, tshare, hx] at h
    cases hp : s.pc t <;> simp [hp, pcShare] at h <;> simp [retPc, relPc]

theorem holderLike_not_asleep {s : State} {t : Tid} (h : HolderLike s t) : ¬ AsleepOnSem s t := by
  rintro ⟨c, k, hp, _⟩
  rcases h with ⟨h1, _⟩ | h | h
  · rw [hp] at h1; cases h1
  · rw [hp] at h; cases h
  · rw [hp] at h; cases h

/-- While somebody is asleep on the mutex, somebody responsible for waking it can move. -/
theorem exists_mover {cfg : Cfg} {s : State} {t0 : Tid} (hr : Reachable cfg s) (ha : AsleepOnSem s t0) :
    ∃ u, Mover s u := by
  have inv := reachable_inv hr
  have hside := reachable_side hr
  cases hsp : s.sp with
  | some v =>
    -- the owner of the spinlock moves
    have hv : (role (s.pc v)).spin = true := (inv.spin.own v).1 hsp
    cases hp : s.pc v <;> simp [hp, role, Role.spin] at hv
    case lsSt c =>
      refine ⟨v, ?_, Or.inr hsp, Or.inl ⟨by simp [hp, wokenPc], c, .st, by simp [hp, role]⟩⟩
      rintro ⟨c', k', hp', _⟩; rw [hp] at hp'; cases hp'
    case lsRelLd c =>
      refine ⟨v, ?_, Or.inr hsp, Or.inl ⟨by simp [hp, wokenPc], c, .rel, by simp [hp, role]⟩⟩
      rintro ⟨c', k', hp', _⟩; rw [hp] at hp'; cases hp'
    case lsRelCas c old =>
      refine ⟨v, ?_, Or.inr hsp, Or.inl ⟨by simp [hp, wokenPc], c, .rel, by simp [hp, role]⟩⟩
      rintro ⟨c', k', hp', _⟩; rw [hp] at hp'; cases hp'
    all_goals
      have hrel : relPc (s.pc v) = true := by rw [hp]; rfl
      exact ⟨v, not_asleep_of_relPc hrel, Or.inr hsp, Or.inr (Or.inr (Or.inr hrel))⟩
  | none =>
    obtain ⟨c, k, hp0, hw0, _⟩ := ha
    have hro0 : role (s.pc t0) = .slow c .loopP := by rw [hp0]; rfl
    by_cases hk : k ∈ s.queue
    · rcases responsible hr hk with ⟨t, ht⟩ | ⟨t, ht⟩ | ⟨u, hu⟩
      · have hl := share_holderLike hside.2 ht
        exact ⟨t, holderLike_not_asleep hl, Or.inl hsp, Or.inr hl⟩
      · obtain ⟨c1, ph, hro, hx⟩ := ht
        rcases hx with ⟨rfl, hcl⟩ | ⟨hph, k1, hw1, hk1⟩
        · have hwoken : wokenPc (s.pc t) = true := by
            cases hp : s.pc t <;> simp [hp, role] at hro <;> simp [wokenPc]
            all_goals (obtain ⟨rfl, _⟩ := hro; exact hcl)
          refine ⟨t, ?_, Or.inl hsp, Or.inl ⟨hwoken, c1, .pre, hro⟩⟩
          rintro ⟨c', k', hp', _⟩; rw [hp'] at hro; simp [role] at hro
        · exact loop_unqueued_mover hr hsp hro hph hw1 hk1
      · have := unlocking_holds_spin hr hu
        rw [hsp] at this; cases this
    · exact loop_unqueued_mover hr hsp hro0 rfl hw0 hk

/-! ### one round -/

theorem awake3_congr {s s' : State} {t : Tid} (h1 : s'.pc t = s.pc t) (h2 : s'.held t = s.held t)
    (h3 : asleepB s' t = asleepB s t) : awake3 s' t = awake3 s t := by
  simp only [awake3, stage_congr h1 h2, h3]

theorem awake3_le (s : State) (t : Tid) : awake3 s t ≤ 1 := by
  simp only [awake3]; split <;> omega

/-- Running the mover alone decreases the lexicographic measure. -/
theorem round {cfg : Cfg} {s : State} {L : List Tid} {u : Tid} (hr : Reachable cfg s) (hc : Cover L s)
    (hm : Mover s u) :
    ∃ evs s', RunP cfg QuietStep s evs s' ∧ Frame u s s' ∧ Cover L s' ∧
      (sumOver (stage s') L < sumOver (stage s) L ∨
        (sumOver (stage s') L ≤ sumOver (stage s) L ∧ sumOver (awake3 s') L < sumOver (awake3 s) L)) := by
  obtain ⟨hna, hsp, hcls⟩ := hm
  rcases hcls with ⟨hwoken, c, ph, hro⟩ | hl
  · have hst : stage s u = 3 := stage_of_slow hro
    have huL : u ∈ L := by
      apply Classical.byContradiction; intro hn
      have := (hc u hn).1; rw [this] at hro; cases hro
    obtain ⟨evs, s', hrun, htgt, hf, hfa⟩ := solo_acq_exists hr hwoken hsp
    refine ⟨evs, s', hrun, hf, cover_frame hc hf huL, ?_⟩
    have hothers : ∀ t ∈ L, stage s' t ≤ stage s t := by
      intro t _
      by_cases htu : t = u
      · subst htu; rw [hst]; exact stage_le _ _
      · rw [stage_congr (hf t htu).1 (hf t htu).2]; exact Nat.le_refl _
    rcases htgt with hid | hasl
    · left
      exact sumOver_lt L hothers u huL (by rw [hst]; have := stage_idle_le hid; omega)
    · right
      refine ⟨sumOver_le L hothers, ?_⟩
      have hothersB : ∀ t ∈ L, awake3 s' t ≤ awake3 s t := by
        intro t _
        by_cases htu : t = u
        · subst htu
          have h1 : awake3 s' t = 0 := by
            simp [awake3, (asleepB_iff s' t).2 hasl]
          rw [h1]; exact Nat.zero_le _
        · rw [awake3_congr (hf t htu).1 (hf t htu).2 (hfa t htu)]; exact Nat.le_refl _
      refine sumOver_lt L hothersB u huL ?_
      have h1 : awake3 s' u = 0 := by simp [awake3, (asleepB_iff s' u).2 hasl]
      have h2 : awake3 s u = 1 := by
        have : asleepB s u = false := by
          cases hx : asleepB s u with
          | false => rfl
          | true => exact absurd ((asleepB_iff s u).1 hx) hna
        simp [awake3, hst, this]
      omega
  · have hst := stage_of_holderLike hl
    have huL : u ∈ L := by
      apply Classical.byContradiction; intro hn
      obtain ⟨h1, h2⟩ := hc u hn
      have := stage_done h1 h2; omega
    obtain ⟨evs, s', hrun, hid, hh, hf⟩ := holder_release_exists hr hl hsp
    refine ⟨evs, s', hrun, hf, cover_frame hc hf huL, Or.inl ?_⟩
    have hothers : ∀ t ∈ L, stage s' t ≤ stage s t := by
      intro t _
      by_cases htu : t = u
      · subst htu; rw [stage_done hid hh]; exact Nat.zero_le _
      · rw [stage_congr (hf t htu).1 (hf t htu).2]; exact Nat.le_refl _
    exact sumOver_lt L hothers u huL (by rw [stage_done hid hh]; omega)

/-! ### the loop -/

theorem leads_loop {cfg : Cfg} {L : List Tid} {t0 : Tid} : ∀ (n : Nat) (s : State),
    sumOver (stage s) L * (L.length + 1) + sumOver (awake3 s) L ≤ n →
    Reachable cfg s → Cover L s → AsleepOnSem s t0 →
    ∃ evs s', RunP cfg QuietStep s evs s' ∧ ¬ AsleepOnSem s' t0 ∧ s'.pc t0 = s.pc t0 := by
  intro n
  induction n with
  | zero =>
    intro s hn hr hc ha
    obtain ⟨u, hm⟩ := exists_mover hr ha
    obtain ⟨evs, s', hrun, hf, hc', hdec⟩ := round hr hc hm
    exfalso
    have hb' : sumOver (awake3 s') L ≤ 1 * L.length := sumOver_bound (awake3_le s') L
    have hA0 : sumOver (stage s) L * (L.length + 1) = 0 := by omega
    have hB0 : sumOver (awake3 s) L = 0 := by omega
    rcases hdec with h | ⟨_, h⟩
    · have : sumOver (stage s) L = 0 := by
        rcases Nat.mul_eq_zero.1 hA0 with h0 | h0
        · exact h0
        · omega
      omega
    · omega
  | succ n ih =>
    intro s hn hr hc ha
    obtain ⟨u, hm⟩ := exists_mover hr ha
    have hut : t0 ≠ u := by rintro rfl; exact hm.1 ha
    obtain ⟨evs, s', hrun, hf, hc', hdec⟩ := round hr hc hm
    have hpc0 : s'.pc t0 = s.pc t0 := (hf t0 hut).1
    by_cases ha' : AsleepOnSem s' t0
    · have hmeas : sumOver (stage s') L * (L.length + 1) + sumOver (awake3 s') L ≤ n := by
        have hb' : sumOver (awake3 s') L ≤ 1 * L.length := sumOver_bound (awake3_le s') L
        rcases hdec with h | ⟨h1, h2⟩
        · have h3 : (sumOver (stage s') L + 1) * (L.length + 1) ≤ sumOver (stage s) L * (L.length + 1) :=
            Nat.mul_le_mul_right _ h
          rw [Nat.succ_mul] at h3
          omega
        · have h3 : sumOver (stage s') L * (L.length + 1) ≤ sumOver (stage s) L * (L.length + 1) :=
            Nat.mul_le_mul_right _ h1
          omega
      obtain ⟨evs2, s'', hrun2, hna, hpc⟩ := ih s' hmeas (hrun.reachable hr) hc' ha'
      exact ⟨evs ++ evs2, s'', hrun.append hrun2, hna, by rw [hpc, hpc0]⟩
    · exact ⟨evs, s', hrun, ha', hpc0⟩

/-- LEADS-TO, existential schedule: from every reachable state in which `t0` is asleep on the
    mutex there is a finite schedule, made of `QuietStep`s only (nobody barges, nobody calls a new
    acquisition, the environment posts nothing), in which `t0` itself does not move and after which
    its semaphore has been posted. -/
theorem leads_to_wake {cfg : Cfg} {s : State} {t0 : Tid} (hr : Reachable cfg s) (ha : AsleepOnSem s t0) :
    ∃ evs s', RunP cfg QuietStep s evs s' ∧ ¬ AsleepOnSem s' t0 ∧ s'.pc t0 = s.pc t0 := by
  obtain ⟨L, hL⟩ := reachable_cover hr
  exact leads_loop _ s (Nat.le_refl _) hr hL ha

end NsyncVerif.MuQ
