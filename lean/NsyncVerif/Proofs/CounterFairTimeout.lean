/-
  Proofs/CounterFairTimeout.lean — Counter layer, fair timeouts: a wait whose deadline the clock has
  passed returns (`fair_return_expired`), given weak fairness, finitely many arrivals (counter_mu) and
  finitely many stray semaphore posts (the way back from the sleep costs one unit of the semaphore).
-/
import NsyncVerif.Proofs.CounterFairStep2
import NsyncVerif.Proofs.CounterFairMain

namespace Counter

/-- Only finitely many semaphore posts come from outside the wake loop of nsync_counter_add. -/
def FiniteStrayPosts {s0 : State} (x : Exec s0) : Prop :=
  ∃ n, ∀ j t k, n ≤ j → x.σ j = some (.thr t (.semV k)) → ∃ d r idx w, (x.ρ j).pc t = .aPost d r idx w

variable {s0 : State}

theorem now_step (x : Exec s0) (hr : Reachable s0) (j : Nat) : (x.ρ j).sh.now ≤ (x.ρ (j + 1)).sh.now := by
  rcases x.step_cases hr j with h1 | ⟨_, h1, _⟩ | ⟨u, e, _, g, _⟩
  · rw [h1]; exact Nat.le_refl _
  · exact h1
  · rw [g.now]; exact Nat.le_refl _

theorem now_mono (x : Exec s0) (hr : Reachable s0) (j : Nat) : ∀ d, (x.ρ j).sh.now ≤ (x.ρ (j + d)).sh.now := by
  intro d
  induction d with
  | zero => exact Nat.le_refl _
  | succ d ih => exact Nat.le_trans ih (now_step x hr (j + d))

theorem tpos_of_pcDl {p : PC} {dl : Deadline} (h : pcDl p = some dl) : 0 < tpos p := by
  cases p <;> simp [pcDl] at h <;> simp [tpos]

theorem own_of_pcNw {s : State} (hi : Inv s) {t : Tid} {k : NwId} (h : pcNw (s.pc t) = some k) :
    own s.sh t k := by
  have hp := (hi.pcs t).2
  cases hpc : s.pc t <;> rw [hpc] at h hp <;> simp [pcNw] at h <;> subst h <;> simp only [pcFacts] at hp <;> exact hp.1

theorem step_prog2 (x : Exec s0) (hr : Reachable s0) {j : Nat} {u : Tid} {e : Ev}
    (h : x.σ j = some (.thr u e)) : Prog2 (x.ρ j) u e (x.ρ (j + 1)) :=
  prog2_stepThr (inv_of_reachable (x.reach hr j)) (x.next_some h)

/-- After its deadline a thread inside nsync_counter_wait keeps moving. -/
theorem wait_moves_expired (x : Exec s0) (hr : Reachable s0) (hf : WeakFair x) (ha : FiniteArrivals x)
    {d : Int} {jc : Nat} (hc : d ≤ ((x.ρ jc).sh.now : Int)) {t : Tid} {j0 : Nat} (hj0 : jc ≤ j0)
    (hw : pcDl ((x.ρ j0).pc t) = some (some d)) : ∃ j', j0 ≤ j' ∧ Moves x t j' := by
  apply Classical.byContradiction
  intro hn
  have hnm : ∀ j', j0 ≤ j' → ¬ Moves x t j' := fun j' hj hm => hn ⟨j', hj, hm⟩
  have hpc : ∀ j', j0 ≤ j' → (x.ρ j').pc t = (x.ρ j0).pc t :=
    fun j' hj => frame_between x hj (fun j'' h1 _ => hnm j'' h1)
  obtain ⟨n2, hfree⟩ := lock_eventually_free x hr hf ha
  have hne : (x.ρ j0).pc t ≠ .idle := by intro h; rw [h] at hw; simp [pcDl] at hw
  obtain ⟨j', h3, h4⟩ := fair_move x hf (t := t) (i := max j0 n2) (by rw [hpc _ (by omega)]; exact hne) (by
    intro j' hj _
    rintro (⟨dl', k', j'', a, _, b⟩ | ⟨_, a⟩)
    · have := hpc j' (by omega)
      rw [a] at this
      rw [← this] at hw
      simp only [pcDl, Option.some.injEq] at hw
      subst hw
      apply b
      obtain ⟨dd, rfl⟩ : ∃ dd, j' = jc + dd := ⟨j' - jc, by omega⟩
      have := now_mono x hr jc dd
      simp only [expired]; omega
    · exact a (hfree j' (by omega)))
  exact hnm j' (by omega) h4

/-- the data carried along: the thread is in the wait with deadline `d` or has returned; if it still
    has a record and can go back to sleep, the record's semaphore is bound and delivers ≤ b units -/
def TState (s : State) (t : Tid) (d : Int) (b : Nat) : Prop :=
  (pcDl (s.pc t) = some (some d) ∨ s.pc t = .idle) ∧ tpos (s.pc t) ≤ 24 ∧
  ∀ k, pcNw (s.pc t) = some k → tpos (s.pc t) ≤ 20 ∨
    (∃ jj, (s.sh.nw k).sem = some jj ∧ Bf s.sh k jj ≤ b)

/-- a step in which `t` does not move keeps `TState` -/
theorem tstate_stay (x : Exec s0) (hr : Reachable s0) {ns : Nat}
    (hsp : ∀ j t k, ns ≤ j → x.σ j = some (.thr t (.semV k)) → ∃ d r idx w, (x.ρ j).pc t = .aPost d r idx w)
    {t : Tid} {d : Int} {b : Nat} {j : Nat} (hj : ns ≤ j) (hT : TState (x.ρ j) t d b) (hnm : ¬ Moves x t j) :
    TState (x.ρ (j + 1)) t d b := by
  have hpc := not_moves_eq hnm
  have hi := inv_of_reachable (x.reach hr j)
  have hi' := inv_of_reachable (x.reach hr (j + 1))
  refine ⟨by rw [hpc]; exact hT.1, by rw [hpc]; exact hT.2.1, fun k hk => ?_⟩
  rw [hpc] at hk ⊢
  have h1 := hT.2.1
  rcases hT.2.2 k hk with h0 | ⟨jj, h2, h3⟩
  · exact Or.inl h0
  · right
    refine ⟨jj, ?_⟩
    have hown := own_of_pcNw hi hk
    have hown' : own (x.ρ (j + 1)).sh t k := own_of_pcNw hi' (by rw [hpc]; exact hk)
    rcases x.step_cases hr j with e1 | ⟨_, _, e1⟩ | ⟨u, e, e1, g, f⟩
    · rw [e1]; exact ⟨h2, h3⟩
    · rw [e1]; exact ⟨h2, h3⟩
    · have g2 := step_prog2 x hr e1
      refine ⟨g2.semkeep k jj hown.1 h2 hown'.1, Nat.le_trans (g2.bmono k jj hown.1 h2 ?_ ?_ ?_) h3⟩
      · intro jj' he; subst he; exact hsp j u jj' hj e1
      · intro dl v hpu
        have := own_of_pcNw hi (t := u) (k := k) (by rw [hpu]; rfl)
        have hut : u = t := by rw [← this.2, ← hown.2]
        subst hut; rw [hpu] at h1; simp [tpos] at h1
      · intro dl jj' hpu
        have := own_of_pcNw hi (t := u) (k := k) (by rw [hpu]; rfl)
        have hut : u = t := by rw [← this.2, ← hown.2]
        subst hut; exact hpc

theorem tstate_mono {s : State} {t : Tid} {d : Int} {b b' : Nat} (h : TState s t d b) (hb : b ≤ b') :
    TState s t d b' := by
  refine ⟨h.1, h.2.1, fun k hk => ?_⟩
  rcases h.2.2 k hk with h1 | ⟨jj, h2, h3⟩
  · exact Or.inl h1
  · exact Or.inr ⟨jj, h2, Nat.le_trans h3 hb⟩

/-- core: lexicographic induction on (units the semaphore can deliver, position) -/
theorem fair_return_bound (x : Exec s0) (hr : Reachable s0) (hf : WeakFair x) (ha : FiniteArrivals x)
    {ns : Nat}
    (hsp : ∀ j t k, ns ≤ j → x.σ j = some (.thr t (.semV k)) → ∃ d r idx w, (x.ρ j).pc t = .aPost d r idx w)
    {d : Int} {jc : Nat} (hc : d ≤ ((x.ρ jc).sh.now : Int)) (t : Tid) :
    ∀ b p j, ns ≤ j → jc ≤ j → TState (x.ρ j) t d b → tpos ((x.ρ j).pc t) ≤ p →
      ∃ j', j ≤ j' ∧ (x.ρ j').pc t = .idle := by
  intro b
  induction b using Nat.strongRecOn with
  | ind b ihb =>
    intro p
    induction p with
    | zero =>
      intro j _ _ hT hp
      rcases hT.1 with h | h
      · have := tpos_of_pcDl h; omega
      · exact ⟨j, Nat.le_refl _, h⟩
    | succ p ihp =>
      intro j hjs hjc hT hp
      by_cases hidle : (x.ρ j).pc t = .idle
      · exact ⟨j, Nat.le_refl _, hidle⟩
      have hdl := hT.1.resolve_right hidle
      obtain ⟨j1, h1, h2, h3⟩ := first_move' x (wait_moves_expired x hr hf ha hc hjc hdl)
      obtain ⟨dd, rfl⟩ : ∃ dd, j1 = j + dd := ⟨j1 - j, by omega⟩
      -- up to the move nothing changes for `t`
      have hstay : ∀ d', d' ≤ dd → TState (x.ρ (j + d')) t d b ∧ (x.ρ (j + d')).pc t = (x.ρ j).pc t := by
        intro d'
        induction d' with
        | zero => intro _; exact ⟨hT, rfl⟩
        | succ d' ih =>
          intro hd
          obtain ⟨a, c⟩ := ih (by omega)
          have hnm := h3 (j + d') (by omega) (by omega)
          exact ⟨tstate_stay x hr hsp (Nat.le_trans hjs (Nat.le_add_right _ _)) a hnm, by
            rw [show j + (d' + 1) = j + d' + 1 by omega, not_moves_eq hnm, c]⟩
      obtain ⟨hT1, hpc1⟩ := hstay dd (Nat.le_refl _)
      have hi := inv_of_reachable (x.reach hr (j + dd))
      have hi' := inv_of_reachable (x.reach hr (j + dd + 1))
      obtain ⟨e, he, g, f⟩ := moves_prog x hr h2
      have g2 := step_prog2 x hr he
      have hdl1 : pcDl ((x.ρ (j + dd)).pc t) = some (some d) := by rw [hpc1]; exact hdl
      have hdl' := f.dline _ hdl1
      rcases g2.trank (tpos_of_pcDl hdl1) with a | ⟨a, _, c⟩ | ⟨dl, k, jj, a1, a2, a3, a4, a5⟩
      · exact absurd a h2
      · -- the position decreases
        have q1 := hT1.2.1
        have hT' : TState (x.ρ (j + dd + 1)) t d b := by
          refine ⟨hdl'.symm, by omega, fun k hk => ?_⟩
          by_cases h20 : tpos ((x.ρ (j + dd + 1)).pc t) ≤ 20
          · exact Or.inl h20
          · right
            rcases c k hk with c | c
            · rcases hT1.2.2 k c with q | ⟨jj, q2, q3⟩
              · omega
              · refine ⟨jj, ?_⟩
                have hown := own_of_pcNw hi c
                have hown' := own_of_pcNw hi' hk
                refine ⟨g2.semkeep k jj hown.1 q2 hown'.1, Nat.le_trans (g2.bmono k jj hown.1 q2 ?_ ?_ ?_) q3⟩
                · intro jj' hev; subst hev; exact hsp _ t jj' (by omega) he
                · intro dl v hpu; rw [hpu] at q1; simp [tpos] at q1
                · intro dl jj' hpu
                  rw [hpu] at a
                  have : tpos (PC.wPdWait dl k jj') = 21 := rfl
                  omega
            · rw [c] at a; omega
        obtain ⟨j', q1, q2⟩ := ihp (j + dd + 1) (by omega) (by omega) hT' (by rw [hpc1] at a; omega)
        exact ⟨j', by omega, q2⟩
      · -- back from the sleep: one unit of the semaphore is gone
        have hk : pcNw ((x.ρ (j + dd)).pc t) = some k := by rw [a1]; rfl
        have hsem : ((x.ρ (j + dd)).sh.nw k).sem = some jj := by
          have hp := (hi.pcs t).2; rw [a1] at hp; exact hp.2.2.2.1
        rcases hT1.2.2 k hk with q | ⟨jj', q2, q3⟩
        · rw [a1] at q; simp [tpos] at q
        · rw [hsem] at q2; cases q2
          have hB : Bf (x.ρ (j + dd + 1)).sh k jj + 1 ≤ Bf (x.ρ (j + dd)).sh k jj := by
            simp only [Bf, a4, a5]; omega
          have hT' : TState (x.ρ (j + dd + 1)) t d (b - 1) := by
            refine ⟨hdl'.symm, by rw [a2]; simp [tpos], fun k' hk' => ?_⟩
            rw [a2] at hk' ⊢
            simp only [pcNw, Option.some.injEq] at hk'
            subst hk'
            exact Or.inr ⟨jj, by rw [a4]; exact hsem, by omega⟩
          obtain ⟨j', r1, r2⟩ := ihb (b - 1) (by omega) 24 (j + dd + 1) (by omega) (by omega) hT'
            (by rw [a2]; simp [tpos])
          exact ⟨j', by omega, r2⟩

/-- A wait whose deadline the clock has passed returns. -/
theorem fair_return_expired (x : Exec s0) (hr : Reachable s0) (hf : WeakFair x) (ha : FiniteArrivals x)
    (hs : FiniteStrayPosts x) {d : Int} (hc : ClockAdvances x d) (t : Tid) {i : Nat}
    (hw : pcDl ((x.ρ i).pc t) = some (some d)) : ∃ j, i ≤ j ∧ (x.ρ j).pc t = .idle := by
  obtain ⟨ns, hsp⟩ := hs
  obtain ⟨jc, hc⟩ := hc
  -- go to a time after both thresholds
  have key : ∀ p j, ns ≤ j → jc ≤ j → (pcDl ((x.ρ j).pc t) = some (some d) ∨ (x.ρ j).pc t = .idle) →
      tpos ((x.ρ j).pc t) ≤ p → ∃ j', j ≤ j' ∧ (x.ρ j').pc t = .idle := by
    intro p
    induction p with
    | zero =>
      intro j _ _ h hp
      rcases h with h | h
      · have := tpos_of_pcDl h; omega
      · exact ⟨j, Nat.le_refl _, h⟩
    | succ p ihp =>
      intro j hjs hjc h hp
      by_cases hidle : (x.ρ j).pc t = .idle
      · exact ⟨j, Nat.le_refl _, hidle⟩
      have hdl := h.resolve_right hidle
      have hi := inv_of_reachable (x.reach hr j)
      by_cases hpd : ∃ dl k jj, (x.ρ j).pc t = .wPdWait dl k jj
      · -- asleep: the record is bound
        obtain ⟨dl, k, jj, hp1⟩ := hpd
        have hsem : ((x.ρ j).sh.nw k).sem = some jj := by
          have hp := (hi.pcs t).2; rw [hp1] at hp; exact hp.2.2.2.1
        refine fair_return_bound x hr hf ha hsp hc t (Bf (x.ρ j).sh k jj) _ j hjs hjc
          ⟨Or.inl hdl, by rw [hp1]; simp [tpos], fun k' hk' => ?_⟩ (Nat.le_refl _)
        rw [hp1] at hk' ⊢
        simp only [pcNw, Option.some.injEq] at hk'
        subst hk'
        exact Or.inr ⟨jj, hsem, Nat.le_refl _⟩
      · obtain ⟨j1, h1, h2, h3⟩ := first_move' x (wait_moves_expired x hr hf ha hc hjc hdl)
        have hpc1 : (x.ρ j1).pc t = (x.ρ j).pc t := frame_between x h1 h3
        obtain ⟨e, he, g, f⟩ := moves_prog x hr h2
        have g2 := step_prog2 x hr he
        have hdl1 : pcDl ((x.ρ j1).pc t) = some (some d) := by rw [hpc1]; exact hdl
        rcases g2.trank (tpos_of_pcDl hdl1) with a | ⟨a, _, _⟩ | ⟨dl, k, jj, a1, _⟩
        · exact absurd a h2
        · obtain ⟨j', q1, q2⟩ := ihp (j1 + 1) (by omega) (by omega) (f.dline _ hdl1).symm
            (by rw [hpc1] at a; omega)
          exact ⟨j', by omega, q2⟩
        · exact absurd ⟨dl, k, jj, by rw [← hpc1]; exact a1⟩ hpd
  -- from time i to max i ns jc the thread either returns or is still in the call
  have hpre : ∀ dd, (∃ j, i ≤ j ∧ (x.ρ j).pc t = .idle) ∨ pcDl ((x.ρ (i + dd)).pc t) = some (some d) := by
    intro dd
    induction dd with
    | zero => exact Or.inr hw
    | succ dd ih =>
      rcases ih with ih | ih
      · exact Or.inl ih
      · by_cases hm : Moves x t (i + dd)
        · obtain ⟨e, _, _, f⟩ := moves_prog x hr hm
          rcases f.dline _ ih with a | a
          · exact Or.inl ⟨i + dd + 1, by omega, a⟩
          · exact Or.inr a
        · right; rw [show i + (dd + 1) = i + dd + 1 by omega, not_moves_eq hm]; exact ih
  rcases hpre (ns + jc) with h | h
  · exact h
  · obtain ⟨j', q1, q2⟩ := key _ (i + (ns + jc)) (by omega) (by omega) (Or.inl h) (Nat.le_refl _)
    exact ⟨j', by omega, q2⟩

end Counter
