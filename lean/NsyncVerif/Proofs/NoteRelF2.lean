/-
  Layer `Note`, the current forest: the phases of the acting thread that matter for the forest —
  the `disconnecting` section of `notify` / `nsync_note_free`, the early part of `nsync_note_new`,
  the children loops and the activation stack of `note_notify_child`.
-/
import NsyncVerif.Proofs.NoteRelF

set_option linter.unusedSimpArgs false

namespace Note

/-! ### Definitions -/

/-- Positions of `notify (n)` between `n->disconnecting++` and `n->disconnecting--`. -/
def NPos.inSec : NPos → Bool
  | .lockCall | .lockRet | .ld | .unlockCall | .unlockRet => false
  | _ => true

/-- Positions of `nsync_note_free (n)` between `n->disconnecting++` and `n->disconnecting--`. -/
def FPos.inSec : FPos → Bool
  | .lockCall | .lockRet | .unlockCall | .unlockRet | .free | .ret => false
  | _ => true

/-- The thread has incremented `n->disconnecting` and not yet decremented it; `par` is its local
    `parent` (read from `n->parent` under `n->note_mu` right after the increment). -/
def PC.sec : PC → Option (NoteId × Option NoteId)
  | .nfy pos n par _ => bif pos.inSec then some (n, par) else none
  | .chd _ _ top => some (top.n, top.par)
  | .fr pos n par _ _ => bif pos.inSec then some (n, par) else none
  | _ => none

/-- The notes of the inner activations of `note_notify_child` (all but the outermost one), innermost
    first: before each of these recursive calls the thread has incremented `child->disconnecting`,
    and it decrements it when the call returns (repair of F7). -/
def PC.inner : PC → List NoteId
  | .chd _ stk _ => (stk.map Frame.note).dropLast
  | _ => []

/-- The note the thread is creating, as long as `nsync_note_new` has not reached the point where
    it links the note under its parent (note.c:185). -/
def PC.earlyNew : PC → Option NoteId
  | .dl _ n _ k => bif k.isNew then some n else none
  | .nfy _ n _ k => bif k.isNew then some n else none
  | .chd _ _ top => bif top.k.isNew then some top.n else none
  | .newP pos n _ _ => bif pos.early then some n else none
  | _ => none

theorem earlyNew_creating {pc : PC} {n : NoteId} (h : pc.earlyNew = some n) : pc.creating = some n := by
  cases pc with
  | dl _ _ _ k => cases hk : k.isNew <;> simp_all [PC.earlyNew]
  | nfy _ _ _ k => cases hk : k.isNew <;> simp_all [PC.earlyNew]
  | chd _ _ top => cases hk : top.k.isNew <;> simp_all [PC.earlyNew]
  | newP pos _ _ _ => cases hk : pos.early <;> simp_all [PC.earlyNew]
  | _ => simp [PC.earlyNew] at h

/-! ### Equations -/

@[simp] theorem sec_idle  : PC.idle.sec = none := rfl
@[simp] theorem earlyNew_idle  : PC.idle.earlyNew = none := rfl
@[simp] theorem sec_newMalloc (p : Option NoteId) (d : Dl) : (PC.newMalloc p d).sec = none := rfl
@[simp] theorem earlyNew_newMalloc (p : Option NoteId) (d : Dl) : (PC.newMalloc p d).earlyNew = none := rfl
@[simp] theorem sec_newRetNull (p : Option NoteId) : (PC.newRetNull p).sec = none := rfl
@[simp] theorem earlyNew_newRetNull (p : Option NoteId) : (PC.newRetNull p).earlyNew = none := rfl
@[simp] theorem sec_dl (p : DPos) (n : NoteId) (nt : Dl) (k : DK) : (PC.dl p n nt k).sec = none := rfl
@[simp] theorem earlyNew_dl (p : DPos) (n : NoteId) (nt : Dl) (k : DK) : (PC.dl p n nt k).earlyNew = bif k.isNew then some n else none := rfl
@[simp] theorem sec_nfy (p : NPos) (n : NoteId) (par : Option NoteId) (k : NK) : (PC.nfy p n par k).sec = bif p.inSec then some (n, par) else none := rfl
@[simp] theorem earlyNew_nfy (p : NPos) (n : NoteId) (par : Option NoteId) (k : NK) : (PC.nfy p n par k).earlyNew = bif k.isNew then some n else none := rfl
@[simp] theorem sec_chd (p : CPos) (stk : List Frame) (top : Top) : (PC.chd p stk top).sec = some (top.n, top.par) := rfl
@[simp] theorem earlyNew_chd (p : CPos) (stk : List Frame) (top : Top) : (PC.chd p stk top).earlyNew = bif top.k.isNew then some top.n else none := rfl
@[simp] theorem sec_newP (p : NewPos) (n par : NoteId) (d : Dl) : (PC.newP p n par d).sec = none := rfl
@[simp] theorem earlyNew_newP (p : NewPos) (n par : NoteId) (d : Dl) : (PC.newP p n par d).earlyNew = bif p.early then some n else none := rfl
@[simp] theorem sec_retNew (n : NoteId) (par : Option NoteId) : (PC.retNew n par).sec = none := rfl
@[simp] theorem earlyNew_retNew (n : NoteId) (par : Option NoteId) : (PC.retNew n par).earlyNew = none := rfl
@[simp] theorem sec_retIs (n : NoteId) (b : Bool) : (PC.retIs n b).sec = none := rfl
@[simp] theorem earlyNew_retIs (n : NoteId) (b : Bool) : (PC.retIs n b).earlyNew = none := rfl
@[simp] theorem sec_retNotify (n : NoteId) : (PC.retNotify n).sec = none := rfl
@[simp] theorem earlyNew_retNotify (n : NoteId) : (PC.retNotify n).earlyNew = none := rfl
@[simp] theorem sec_retExpiry (n : NoteId) : (PC.retExpiry n).sec = none := rfl
@[simp] theorem earlyNew_retExpiry (n : NoteId) : (PC.retExpiry n).earlyNew = none := rfl
@[simp] theorem sec_fr (p : FPos) (n : NoteId) (par : Option NoteId) (c : NoteId) (nx : Option NoteId) : (PC.fr p n par c nx).sec = bif p.inSec then some (n, par) else none := rfl
@[simp] theorem earlyNew_fr (p : FPos) (n : NoteId) (par : Option NoteId) (c : NoteId) (nx : Option NoteId) : (PC.fr p n par c nx).earlyNew = none := rfl
@[simp] theorem sec_wt0 (p : W0Pos) (n : NoteId) (d : Dl) : (PC.wt0 p n d).sec = none := rfl
@[simp] theorem earlyNew_wt0 (p : W0Pos) (n : NoteId) (d : Dl) : (PC.wt0 p n d).earlyNew = none := rfl
@[simp] theorem sec_wt (p : WPos) (n : NoteId) (d : Dl) (r : Rid) : (PC.wt p n d r).sec = none := rfl
@[simp] theorem earlyNew_wt (p : WPos) (n : NoteId) (d : Dl) (r : Rid) : (PC.wt p n d r).earlyNew = none := rfl

@[simp] theorem inner_idle : PC.idle.inner = [] := rfl
@[simp] theorem inner_newMalloc (p : Option NoteId) (d : Dl) : (PC.newMalloc p d).inner = [] := rfl
@[simp] theorem inner_newRetNull (p : Option NoteId) : (PC.newRetNull p).inner = [] := rfl
@[simp] theorem inner_dl (p : DPos) (n : NoteId) (nt : Dl) (k : DK) : (PC.dl p n nt k).inner = [] := rfl
@[simp] theorem inner_nfy (p : NPos) (n : NoteId) (par : Option NoteId) (k : NK) : (PC.nfy p n par k).inner = [] := rfl
@[simp] theorem inner_chd (p : CPos) (stk : List Frame) (top : Top) : (PC.chd p stk top).inner = (stk.map Frame.note).dropLast := rfl
@[simp] theorem inner_newP (p : NewPos) (n par : NoteId) (d : Dl) : (PC.newP p n par d).inner = [] := rfl
@[simp] theorem inner_retNew (n : NoteId) (par : Option NoteId) : (PC.retNew n par).inner = [] := rfl
@[simp] theorem inner_retIs (n : NoteId) (b : Bool) : (PC.retIs n b).inner = [] := rfl
@[simp] theorem inner_retNotify (n : NoteId) : (PC.retNotify n).inner = [] := rfl
@[simp] theorem inner_retExpiry (n : NoteId) : (PC.retExpiry n).inner = [] := rfl
@[simp] theorem inner_fr (p : FPos) (n : NoteId) (par : Option NoteId) (c : NoteId) (nx : Option NoteId) : (PC.fr p n par c nx).inner = [] := rfl
@[simp] theorem inner_wt0 (p : W0Pos) (n : NoteId) (d : Dl) : (PC.wt0 p n d).inner = [] := rfl
@[simp] theorem inner_wt (p : WPos) (n : NoteId) (d : Dl) (r : Rid) : (PC.wt p n d r).inner = [] := rfl

/-! ### The phases at the targets of the control transfers -/

@[simp] theorem inner_afterDeadlinePc (n : NoteId) (nt : Dl) (k : DK) :
    (afterDeadlinePc n nt k).inner = [] := by
  cases k <;> simp only [afterDeadlinePc] <;> (try split) <;> (try split) <;> rfl

@[simp] theorem inner_afterNotifyPc (n : NoteId) (k : NK) : (afterNotifyPc n k).inner = [] := by
  cases k with
  | ofApi => rfl
  | ofDeadline dk => exact inner_afterDeadlinePc n (some 0) dk

@[simp] theorem inner_childReturnPc (f : Frame) (rest : List Frame) (top : Top) :
    (childReturnPc f rest top).inner = (rest.map Frame.note).dropLast := by
  unfold childReturnPc
  cases rest with
  | cons g gs => rfl
  | nil => cases top.par <;> rfl

@[simp] theorem inner_childLoopStartPc (cs : List NoteId) (f : Frame) (rest : List Frame)
    (top : Top) :
    (childLoopStartPc cs f rest top).inner = ((f :: rest).map Frame.note).dropLast := by
  cases cs <;> rfl

@[simp] theorem inner_childWakeNextPc (s : State) (f : Frame) (rest : List Frame) (top : Top) :
    (childWakeNextPc s f rest top).inner = ((f :: rest).map Frame.note).dropLast := by
  unfold childWakeNextPc
  split
  · rfl
  · exact inner_childLoopStartPc _ f rest top

@[simp] theorem inner_freeLoopStartPc (cs : List NoteId) (n : NoteId) (par : Option NoteId) :
    (freeLoopStartPc cs n par).inner = [] := by
  cases cs <;> rfl


@[simp] theorem sec_afterDeadlinePc (n : NoteId) (nt : Dl) (k : DK) :
    (afterDeadlinePc n nt k).sec = none := by
  cases k <;> simp only [afterDeadlinePc] <;> (try split) <;> (try split) <;> rfl

@[simp] theorem sec_afterNotifyPc (n : NoteId) (k : NK) : (afterNotifyPc n k).sec = none := by
  cases k with
  | ofApi => rfl
  | ofDeadline dk => exact sec_afterDeadlinePc n (some 0) dk

theorem sec_childReturnPc (f : Frame) (rest : List Frame) (top : Top) :
    (childReturnPc f rest top).sec =
      if rest = [] ∧ top.par = none then none else some (top.n, top.par) := by
  unfold childReturnPc
  cases rest with
  | cons g gs => simp
  | nil => cases h : top.par <;> simp [NPos.inSec, h]

@[simp] theorem sec_childLoopStartPc (cs : List NoteId) (f : Frame) (rest : List Frame)
    (top : Top) : (childLoopStartPc cs f rest top).sec = some (top.n, top.par) := by
  cases cs <;> rfl

@[simp] theorem sec_childWakeNextPc (s : State) (f : Frame) (rest : List Frame) (top : Top) :
    (childWakeNextPc s f rest top).sec = some (top.n, top.par) := by
  unfold childWakeNextPc
  split
  · rfl
  · exact sec_childLoopStartPc _ f rest top

@[simp] theorem sec_freeLoopStartPc (cs : List NoteId) (n : NoteId) (par : Option NoteId) :
    (freeLoopStartPc cs n par).sec = some (n, par) := by
  cases cs <;> rfl

theorem earlyNew_afterDeadlinePc {n : NoteId} {nt : Dl} {k : DK} {c : NoteId}
    (h : (afterDeadlinePc n nt k).earlyNew = some c) : k.isNew = true ∧ c = n := by
  cases k <;> simp only [afterDeadlinePc] at h <;> (try split at h) <;> (try split at h) <;>
    simp_all [NewPos.early]

theorem earlyNew_afterNotifyPc {n : NoteId} {k : NK} {c : NoteId}
    (h : (afterNotifyPc n k).earlyNew = some c) : k.isNew = true ∧ c = n := by
  cases k with
  | ofApi => simp [afterNotifyPc] at h
  | ofDeadline dk => exact earlyNew_afterDeadlinePc (nt := some 0) h

@[simp] theorem earlyNew_childReturnPc (f : Frame) (rest : List Frame) (top : Top) :
    (childReturnPc f rest top).earlyNew = bif top.k.isNew then some top.n else none := by
  unfold childReturnPc
  cases rest with
  | cons g gs => rfl
  | nil => cases top.par <;> rfl

@[simp] theorem earlyNew_childLoopStartPc (cs : List NoteId) (f : Frame) (rest : List Frame)
    (top : Top) :
    (childLoopStartPc cs f rest top).earlyNew = bif top.k.isNew then some top.n else none := by
  cases cs <;> rfl

@[simp] theorem earlyNew_childWakeNextPc (s : State) (f : Frame) (rest : List Frame) (top : Top) :
    (childWakeNextPc s f rest top).earlyNew = bif top.k.isNew then some top.n else none := by
  unfold childWakeNextPc
  split
  · rfl
  · exact earlyNew_childLoopStartPc _ f rest top

@[simp] theorem earlyNew_freeLoopStartPc (cs : List NoteId) (n : NoteId) (par : Option NoteId) :
    (freeLoopStartPc cs n par).earlyNew = none := by
  cases cs <;> rfl

/-! ### The acting thread -/

/-- Rewrite the program counter of the acting thread after the step (in the goal). -/
macro "nrel_pc_simp_goal" : tactic => `(tactic| (
  simp only [setPc_pc, upd_same, afterDeadline_pc, afterNotify_pc, childReturn_pc,
    childWakeNext_pc, childScanStart_pc, freeLoopStart_pc, enterChild_pc, leave_pc, addUser_pc, markCalled_pc,
    markFreeing_pc, setAfter_pc, pushObs_pc, publish_pc, delUser_pc]))

/-- The shapes of the evolution of the `disconnecting` sections of the acting thread `a` (its
    top-level section `sec`, the inner activations `inner`) and of the `disconnecting` counters. -/
def SecStep (s s' : State) (a : Tid) : Prop :=
  ((s'.pc a).sec = (s.pc a).sec ∧ (s'.pc a).inner = (s.pc a).inner ∧
    ∀ n, (s'.notes n).disconnecting = (s.notes n).disconnecting) ∨
  (∃ m par, (s.pc a).sec = none ∧ (s'.pc a).sec = some (m, par) ∧
    (s.pc a).inner = [] ∧ (s'.pc a).inner = [] ∧
    (s.notes m).parent = par ∧ s'.users = s.users ∧ ForestSame s s' ∧
    ∀ n, (s'.notes n).disconnecting =
      if n = m then (s.notes n).disconnecting + 1 else (s.notes n).disconnecting) ∨
  (∃ m par, (s.pc a).sec = some (m, par) ∧ (s'.pc a).sec = none ∧
    (s.pc a).inner = [] ∧ (s'.pc a).inner = [] ∧ s'.users = s.users ∧
    (par = none ∨ (∃ nk, s.pc a = .nfy .unlockPRet m par nk) ∨
      (∃ c nx, s.pc a = .fr .unlockPRet m par c nx)) ∧
    ∀ n, (s'.notes n).disconnecting =
      if n = m then (s.notes n).disconnecting - 1 else (s.notes n).disconnecting) ∨
  (∃ k, (s.notes k).allocated = false ∧ (s'.pc a).sec = (s.pc a).sec ∧
    (s'.pc a).inner = (s.pc a).inner ∧ s'.users = s.users ∧
    (∀ n, n ≠ k → (s'.notes n).disconnecting = (s.notes n).disconnecting) ∧
    (s'.notes k).disconnecting = 0) ∨
  (∃ c, (s'.pc a).sec = (s.pc a).sec ∧ (s'.pc a).inner = c :: (s.pc a).inner ∧
    s'.users = s.users ∧ ForestSame s s' ∧ (s.notes c).disconnecting = 0 ∧
    ∀ n, (s'.notes n).disconnecting =
      if n = c then (s.notes n).disconnecting + 1 else (s.notes n).disconnecting) ∨
  (∃ c, (s'.pc a).sec = (s.pc a).sec ∧ (s.pc a).inner = c :: (s'.pc a).inner ∧
    s'.users = s.users ∧ ((s.notes c).disconnecting = 1 → (s'.notes c).parent = none) ∧
    ∀ n, (s'.notes n).disconnecting =
      if n = c then (s.notes n).disconnecting - 1 else (s.notes n).disconnecting)

/-- An activation of `note_notify_child` returns: an inner one ends its `child->disconnecting`
    bracket, the outermost one, to a `notify` without parent, ends the `disconnecting` section. -/
theorem sec_childReturn_cases (s s1 : State) (t : Tid) (pos : CPos) (f : Frame)
    (rest : List Frame) (top : Top) (hpc : s.pc t = .chd pos (f :: rest) top)
    (hd : ∀ n, (s1.notes n).disconnecting = (s.notes n).disconnecting)
    (hu : s1.users = s.users) : SecStep s (childReturn s1 t f rest top) t := by
  cases rest with
  | cons g gs =>
    -- an inner activation returns
    right; right; right; right; right
    refine ⟨f.note, ?_, ?_, by simpa using hu, ?_, fun n => ?_⟩
    · simp only [childReturn_pc, upd_same, sec_childReturnPc, hpc]; simp
    · simp only [childReturn_pc, upd_same, inner_childReturnPc, hpc, inner_chd, List.map_cons,
        List.dropLast_cons_cons]
    · intro h1
      simp [childUnlinks, frameParent, hd, h1]
    · simp only [childReturn_f_disconnecting, childReturnDec, Option.some.injEq, hd]
      by_cases hn : n = f.note
      · subst hn; simp
      · rw [if_neg (fun h => hn h.symm), if_neg hn]
  | nil =>
    cases hp : top.par with
    | none =>
      right; right; left
      refine ⟨top.n, top.par, by rw [hpc]; rfl, ?_, by rw [hpc]; simp, by simp,
        by simpa using hu, Or.inl hp, fun n => ?_⟩
      · simp only [childReturn_pc, upd_same, sec_childReturnPc, hp]; simp
      · simp only [childReturn_f_disconnecting, childReturnDec, hp, Option.some.injEq, hd]
        by_cases hn : n = top.n
        · subst hn; simp
        · rw [if_neg (fun h => hn h.symm), if_neg hn]
    | some p =>
      left
      refine ⟨?_, by rw [hpc]; simp, fun n => ?_⟩
      · simp only [childReturn_pc, upd_same, sec_childReturnPc, hp, hpc]; simp [hp]
      · simp only [childReturn_f_disconnecting, childReturnDec, hp, hd]; simp

/-- Close the "unchanged" alternative of `step_sec`. -/
macro "nrel_sec_same" : tactic => `(tactic| (
  left
  refine ⟨?_, ?_, fun n => ?_⟩
  · nrel_pc_simp_goal
    rw [‹State.pc _ _ = _›]
    simp [NPos.inSec, FPos.inSec]
  · nrel_pc_simp_goal
    rw [‹State.pc _ _ = _›]
    simp
  · simp))

/-- How the `disconnecting` sections of the acting thread and the `disconnecting` counters
    evolve.  (`hst`: the activation stack of a thread inside `note_notify_child` is not empty,
    `LClaim`.) -/
theorem step_sec {s s' : State} {e : Event} (hs : step s e = .ok s') (a : Tid)
    (ha : e.actor = some a)
    (hst : ∀ pos top, s.pc a ≠ .chd pos [] top) : SecStep s s' a := by
  unfold SecStep
  cases e
  all_goals step_cases hs
  all_goals simp only [Event.actor, Option.some.injEq, reduceCtorEq] at ha
  all_goals (try subst ha)
  all_goals (try (left; exact ⟨rfl, rfl, fun _ => rfl⟩))
  all_goals (try (nrel_sec_same; done))
  -- the childReturn cases
  all_goals (try (
    have hpc := ‹s.pc _ = PC.chd _ _ _›
    exact sec_childReturn_cases s _ _ _ _ _ _ hpc (fun n => by first | rfl | simp)
      (by first | rfl | simp)))
  all_goals (repeat' split)
  all_goals (try (nrel_sec_same; done))
  all_goals (try (
    have hpc := ‹s.pc _ = PC.chd _ _ _›
    exact sec_childReturn_cases s _ _ _ _ _ _ hpc (fun n => by first | rfl | simp)
      (by first | rfl | simp)))
  -- `n->disconnecting++`
  all_goals (try (
    have hpc := ‹s.pc _ = PC.nfy _ _ _ _›
    right; left
    apply Exists.intro; apply Exists.intro
    refine ⟨by rw [hpc]; rfl, ?_, by rw [hpc]; rfl, ?_, ?_, ?_, fun j => ⟨?_, ?_⟩, fun n => ?_⟩
    · nrel_pc_simp_goal; simp only [sec_nfy, sec_chd, NPos.inSec, cond_true]; rfl
    · nrel_pc_simp_goal; simp
    · assumption
    · simp
    · simp
    · simp
    · simp
    done))
  all_goals (try (
    have hpc := ‹s.pc _ = PC.fr FPos.lockRet _ _ _ _›
    right; left
    apply Exists.intro; apply Exists.intro
    refine ⟨by rw [hpc]; rfl, ?_, by rw [hpc]; rfl, ?_, ?_, ?_, fun j => ⟨?_, ?_⟩, fun n => ?_⟩
    · nrel_pc_simp_goal; simp only [sec_fr, sec_freeLoopStartPc, FPos.inSec, cond_true]; rfl
    · nrel_pc_simp_goal; simp
    · assumption
    · simp
    · simp
    · simp
    · simp
    done))
  -- `n->disconnecting--`
  all_goals (try (
    have hpc := ‹s.pc _ = _›
    right; right; left
    refine ⟨_, _, by rw [hpc]; rfl, ?_, by rw [hpc]; rfl, ?_, ?_, ?_, fun n => ?_⟩
    · nrel_pc_simp_goal; simp [NPos.inSec, FPos.inSec]
    · nrel_pc_simp_goal; simp
    · simp
    · first
        | (left; rfl)
        | (right; left; exact ⟨_, hpc⟩)
        | (right; right; exact ⟨_, _, hpc⟩)
    · simp
    done))
  -- `child->disconnecting++`: a new activation
  all_goals (try (
    have hpc := ‹s.pc _ = PC.chd (CPos.lockChildRet _) _ _›
    have hd0 := ‹(s.notes _).disconnecting = 0›
    right; right; right; right; left
    refine ⟨_, ?_, ?_, by simp, fun j => ⟨by simp, by simp⟩, hd0, fun n => by simp⟩
    · nrel_pc_simp_goal; rw [hpc]; rfl
    · nrel_pc_simp_goal
      rw [hpc]
      rename_i stk _ _ _ _
      cases stk with
      | nil => exact absurd hpc (hst _ _)
      | cons g gs => simp
    done))
  -- malloc
  · have hfresh := ‹(s.notes _).allocated = false›
    right; right; right; left
    refine ⟨_, hfresh, ?_, ?_, by simp, fun n hn => ?_, ?_⟩
    · nrel_pc_simp_goal; rw [‹s.pc _ = _›]; rfl
    · nrel_pc_simp_goal; rw [‹s.pc _ = _›]; rfl
    · simp [hn]
    · simp [NoteRec.blank]

/-- The early part of `nsync_note_new` starts with `malloc`. -/
theorem step_earlyNew {s s' : State} {e : Event} (hs : step s e = .ok s') (a : Tid)
    (ha : e.actor = some a) {c : NoteId} (h : (s'.pc a).earlyNew = some c) :
    (s.pc a).earlyNew = some c ∨ (s.notes c).allocated = false := by
  cases e
  all_goals step_cases hs
  all_goals simp only [Event.actor, Option.some.injEq, reduceCtorEq] at ha
  all_goals (try subst ha)
  all_goals (try (left; exact h))
  all_goals (try (nrel_pc_simp h))
  all_goals (try (simp [NewPos.early] at h; done))
  all_goals (try (left; rw [‹s.pc _ = _›]; simpa [NewPos.early] using h; done))
  all_goals (repeat' split at h)
  all_goals (try (simp [NewPos.early] at h; done))
  all_goals (try (left; rw [‹s.pc _ = _›]; simpa [NewPos.early] using h; done))
  all_goals (try (
    left; rw [‹s.pc _ = _›]
    obtain ⟨h1, h2⟩ := earlyNew_afterDeadlinePc h
    subst h2; simp [h1]; done))
  all_goals (try (
    left; rw [‹s.pc _ = _›]
    obtain ⟨h1, h2⟩ := earlyNew_afterNotifyPc h
    subst h2; simpa using h1; done))
  · left; rw [‹s.pc _ = _›]
    obtain ⟨h1, h2⟩ := earlyNew_afterNotifyPc h
    subst h2; simp [h1]
  · right
    simp only [earlyNew_dl, DK.isNew_newSelf, cond_true, Option.some.injEq] at h
    subst h; assumption

end Note
