/-
  Layer `Note`, the current forest: the phases of the acting thread that matter for the forest —
  the `disconnecting` section of `notify` / `nsync_note_free`, the early part of `nsync_note_new`,
  the children loops and the activation stack of `note_notify_child`.
-/
import NsyncVerif.Proofs.NoteRelF

set_option linter.unusedSimpArgs false

namespace Note

/-! ### Definitions -/

/-- Positions of `notify (n)` between `n->disconnecting++` and `n->disconnecting--`. -/
def NPos.inSec : NPos → Bool
  | .lockCall | .lockRet | .ld | .unlockCall | .unlockRet => false
  | _ => true

/-- Positions of `nsync_note_free (n)` between `n->disconnecting++` and `n->disconnecting--`. -/
def FPos.inSec : FPos → Bool
  | .lockCall | .lockRet | .unlockCall | .unlockRet | .free | .ret => false
  | _ => true

/-- The thread has incremented `n->disconnecting` and not yet decremented it; `par` is its local
    `parent` (read from `n->parent` under `n->note_mu` right after the increment). -/
def PC.sec : PC → Option (NoteId × Option NoteId)
  | .nfy pos n par _ => bif pos.inSec then some (n, par) else none
  | .chd _ _ top => some (top.n, top.par)
  | .fr pos n par _ _ => bif pos.inSec then some (n, par) else none
  | _ => none

/-- The note the thread is creating, as long as `nsync_note_new` has not reached the point where
    it links the note under its parent (note.c:185). -/
def PC.earlyNew : PC → Option NoteId
  | .dl _ n _ k => bif k.isNew then some n else none
  | .nfy _ n _ k => bif k.isNew then some n else none
  | .chd _ _ top => bif top.k.isNew then some top.n else none
  | .newP pos n _ _ => bif pos.early then some n else none
  | _ => none

theorem earlyNew_creating {pc : PC} {n : NoteId} (h : pc.earlyNew = some n) : pc.creating = some n := by
  cases pc with
  | dl _ _ _ k => cases hk : k.isNew <;> simp_all [PC.earlyNew]
  | nfy _ _ _ k => cases hk : k.isNew <;> simp_all [PC.earlyNew]
  | chd _ _ top => cases hk : top.k.isNew <;> simp_all [PC.earlyNew]
  | newP pos _ _ _ => cases hk : pos.early <;> simp_all [PC.earlyNew]
  | _ => simp [PC.earlyNew] at h

/-! ### Equations -/

@[simp] theorem sec_idle  : PC.idle.sec = none := rfl
@[simp] theorem earlyNew_idle  : PC.idle.earlyNew = none := rfl
@[simp] theorem sec_newMalloc (p : Option NoteId) (d : Dl) : (PC.newMalloc p d).sec = none := rfl
@[simp] theorem earlyNew_newMalloc (p : Option NoteId) (d : Dl) : (PC.newMalloc p d).earlyNew = none := rfl
@[simp] theorem sec_newRetNull (p : Option NoteId) : (PC.newRetNull p).sec = none := rfl
@[simp] theorem earlyNew_newRetNull (p : Option NoteId) : (PC.newRetNull p).earlyNew = none := rfl
@[simp] theorem sec_dl (p : DPos) (n : NoteId) (nt : Dl) (k : DK) : (PC.dl p n nt k).sec = none := rfl
@[simp] theorem earlyNew_dl (p : DPos) (n : NoteId) (nt : Dl) (k : DK) : (PC.dl p n nt k).earlyNew = bif k.isNew then some n else none := rfl
@[simp] theorem sec_nfy (p : NPos) (n : NoteId) (par : Option NoteId) (k : NK) : (PC.nfy p n par k).sec = bif p.inSec then some (n, par) else none := rfl
@[simp] theorem earlyNew_nfy (p : NPos) (n : NoteId) (par : Option NoteId) (k : NK) : (PC.nfy p n par k).earlyNew = bif k.isNew then some n else none := rfl
@[simp] theorem sec_chd (p : CPos) (stk : List Frame) (top : Top) : (PC.chd p stk top).sec = some (top.n, top.par) := rfl
@[simp] theorem earlyNew_chd (p : CPos) (stk : List Frame) (top : Top) : (PC.chd p stk top).earlyNew = bif top.k.isNew then some top.n else none := rfl
@[simp] theorem sec_newP (p : NewPos) (n par : NoteId) (d : Dl) : (PC.newP p n par d).sec = none := rfl
@[simp] theorem earlyNew_newP (p : NewPos) (n par : NoteId) (d : Dl) : (PC.newP p n par d).earlyNew = bif p.early then some n else none := rfl
@[simp] theorem sec_retNew (n : NoteId) (par : Option NoteId) : (PC.retNew n par).sec = none := rfl
@[simp] theorem earlyNew_retNew (n : NoteId) (par : Option NoteId) : (PC.retNew n par).earlyNew = none := rfl
@[simp] theorem sec_retIs (n : NoteId) (b : Bool) : (PC.retIs n b).sec = none := rfl
@[simp] theorem earlyNew_retIs (n : NoteId) (b : Bool) : (PC.retIs n b).earlyNew = none := rfl
@[simp] theorem sec_retNotify (n : NoteId) : (PC.retNotify n).sec = none := rfl
@[simp] theorem earlyNew_retNotify (n : NoteId) : (PC.retNotify n).earlyNew = none := rfl
@[simp] theorem sec_retExpiry (n : NoteId) : (PC.retExpiry n).sec = none := rfl
@[simp] theorem earlyNew_retExpiry (n : NoteId) : (PC.retExpiry n).earlyNew = none := rfl
@[simp] theorem sec_fr (p : FPos) (n : NoteId) (par : Option NoteId) (c : NoteId) (nx : Option NoteId) : (PC.fr p n par c nx).sec = bif p.inSec then some (n, par) else none := rfl
@[simp] theorem earlyNew_fr (p : FPos) (n : NoteId) (par : Option NoteId) (c : NoteId) (nx : Option NoteId) : (PC.fr p n par c nx).earlyNew = none := rfl
@[simp] theorem sec_wt0 (p : W0Pos) (n : NoteId) (d : Dl) : (PC.wt0 p n d).sec = none := rfl
@[simp] theorem earlyNew_wt0 (p : W0Pos) (n : NoteId) (d : Dl) : (PC.wt0 p n d).earlyNew = none := rfl
@[simp] theorem sec_wt (p : WPos) (n : NoteId) (d : Dl) (r : Rid) : (PC.wt p n d r).sec = none := rfl
@[simp] theorem earlyNew_wt (p : WPos) (n : NoteId) (d : Dl) (r : Rid) : (PC.wt p n d r).earlyNew = none := rfl

/-! ### The phases at the targets of the control transfers -/

@[simp] theorem sec_afterDeadlinePc (n : NoteId) (nt : Dl) (k : DK) :
    (afterDeadlinePc n nt k).sec = none := by
  cases k <;> simp only [afterDeadlinePc] <;> (try split) <;> (try split) <;> rfl

@[simp] theorem sec_afterNotifyPc (n : NoteId) (k : NK) : (afterNotifyPc n k).sec = none := by
  cases k with
  | ofApi => rfl
  | ofDeadline dk => exact sec_afterDeadlinePc n (some 0) dk

theorem sec_childReturnPc (f : Frame) (rest : List Frame) (top : Top) :
    (childReturnPc f rest top).sec =
      if childReturnDec rest top = true then none else some (top.n, top.par) := by
  unfold childReturnPc childReturnDec
  cases rest with
  | cons g gs => rfl
  | nil => cases h : top.par <;> simp [NPos.inSec, h]

@[simp] theorem sec_childLoopStartPc (cs : List NoteId) (f : Frame) (rest : List Frame)
    (top : Top) : (childLoopStartPc cs f rest top).sec = some (top.n, top.par) := by
  cases cs <;> rfl

@[simp] theorem sec_childWakeNextPc (s : State) (f : Frame) (rest : List Frame) (top : Top) :
    (childWakeNextPc s f rest top).sec = some (top.n, top.par) := by
  unfold childWakeNextPc
  split
  · rfl
  · exact sec_childLoopStartPc _ f rest top

@[simp] theorem sec_freeLoopStartPc (cs : List NoteId) (n : NoteId) (par : Option NoteId) :
    (freeLoopStartPc cs n par).sec = some (n, par) := by
  cases cs <;> rfl

theorem earlyNew_afterDeadlinePc {n : NoteId} {nt : Dl} {k : DK} {c : NoteId}
    (h : (afterDeadlinePc n nt k).earlyNew = some c) : k.isNew = true ∧ c = n := by
  cases k <;> simp only [afterDeadlinePc] at h <;> (try split at h) <;> (try split at h) <;>
    simp_all [NewPos.early]

theorem earlyNew_afterNotifyPc {n : NoteId} {k : NK} {c : NoteId}
    (h : (afterNotifyPc n k).earlyNew = some c) : k.isNew = true ∧ c = n := by
  cases k with
  | ofApi => simp [afterNotifyPc] at h
  | ofDeadline dk => exact earlyNew_afterDeadlinePc (nt := some 0) h

@[simp] theorem earlyNew_childReturnPc (f : Frame) (rest : List Frame) (top : Top) :
    (childReturnPc f rest top).earlyNew = bif top.k.isNew then some top.n else none := by
  unfold childReturnPc
  cases rest with
  | cons g gs => rfl
  | nil => cases top.par <;> rfl

@[simp] theorem earlyNew_childLoopStartPc (cs : List NoteId) (f : Frame) (rest : List Frame)
    (top : Top) :
    (childLoopStartPc cs f rest top).earlyNew = bif top.k.isNew then some top.n else none := by
  cases cs <;> rfl

@[simp] theorem earlyNew_childWakeNextPc (s : State) (f : Frame) (rest : List Frame) (top : Top) :
    (childWakeNextPc s f rest top).earlyNew = bif top.k.isNew then some top.n else none := by
  unfold childWakeNextPc
  split
  · rfl
  · exact earlyNew_childLoopStartPc _ f rest top

@[simp] theorem earlyNew_freeLoopStartPc (cs : List NoteId) (n : NoteId) (par : Option NoteId) :
    (freeLoopStartPc cs n par).earlyNew = none := by
  cases cs <;> rfl

/-! ### The acting thread -/

/-- Rewrite the program counter of the acting thread after the step (in the goal). -/
macro "nrel_pc_simp_goal" : tactic => `(tactic| (
  simp only [setPc_pc, upd_same, afterDeadline_pc, afterNotify_pc, childReturn_pc,
    childWakeNext_pc, freeLoopStart_pc, enterChild_pc, leave_pc, addUser_pc, markCalled_pc,
    markFreeing_pc, setAfter_pc, pushObs_pc, publish_pc, delUser_pc]))

/-- An activation of `note_notify_child` returns: the outermost one, to a `notify` without parent,
    ends the `disconnecting` section. -/
theorem sec_childReturn_cases (s s1 : State) (t : Tid) (pos : CPos) (f : Frame)
    (rest : List Frame) (top : Top) (hpc : s.pc t = .chd pos (f :: rest) top)
    (hd : ∀ n, (s1.notes n).disconnecting = (s.notes n).disconnecting)
    (hu : s1.users = s.users) :
    (((childReturn s1 t f rest top).pc t).sec = (s.pc t).sec ∧
      ∀ n, ((childReturn s1 t f rest top).notes n).disconnecting = (s.notes n).disconnecting) ∨
    (∃ m par, (s.pc t).sec = some (m, par) ∧ ((childReturn s1 t f rest top).pc t).sec = none ∧
      (childReturn s1 t f rest top).users = s.users ∧
      ∀ n, ((childReturn s1 t f rest top).notes n).disconnecting =
        if n = m then (s.notes n).disconnecting - 1 else (s.notes n).disconnecting) := by
  by_cases hdec : childReturnDec rest top = true
  · right
    refine ⟨top.n, top.par, by rw [hpc]; rfl, ?_, by simpa using hu, fun n => ?_⟩
    · simp only [childReturn_pc, upd_same]
      rw [sec_childReturnPc, if_pos hdec]
    · simp only [childReturn_f_disconnecting, hdec, true_and, hd]
  · left
    refine ⟨?_, fun n => ?_⟩
    · simp only [childReturn_pc, upd_same]
      rw [sec_childReturnPc, if_neg hdec, hpc]; rfl
    · simp only [childReturn_f_disconnecting, hdec, false_and, if_false, hd]
      simp

/-- Close the "unchanged" alternative of `step_sec`. -/
macro "nrel_sec_same" : tactic => `(tactic| (
  left
  refine ⟨?_, fun n => ?_⟩
  · nrel_pc_simp_goal
    rw [‹State.pc _ _ = _›]
    simp [NPos.inSec, FPos.inSec]
  · simp))

/-- How the `disconnecting` section of the acting thread and the `disconnecting` counters
    evolve. -/
theorem step_sec {s s' : State} {e : Event} (hs : step s e = .ok s') (a : Tid)
    (ha : e.actor = some a) :
    ((s'.pc a).sec = (s.pc a).sec ∧
      ∀ n, (s'.notes n).disconnecting = (s.notes n).disconnecting) ∨
    (∃ m par, (s.pc a).sec = none ∧ (s'.pc a).sec = some (m, par) ∧
      (s.notes m).parent = par ∧ s'.users = s.users ∧ ForestSame s s' ∧
      ∀ n, (s'.notes n).disconnecting =
        if n = m then (s.notes n).disconnecting + 1 else (s.notes n).disconnecting) ∨
    (∃ m par, (s.pc a).sec = some (m, par) ∧ (s'.pc a).sec = none ∧ s'.users = s.users ∧
      ∀ n, (s'.notes n).disconnecting =
        if n = m then (s.notes n).disconnecting - 1 else (s.notes n).disconnecting) ∨
    (∃ k, (s.notes k).allocated = false ∧ (s'.pc a).sec = (s.pc a).sec ∧ s'.users = s.users ∧
      (∀ n, n ≠ k → (s'.notes n).disconnecting = (s.notes n).disconnecting) ∧
      (s'.notes k).disconnecting = 0) := by
  cases e
  all_goals step_cases hs
  all_goals simp only [Event.actor, Option.some.injEq, reduceCtorEq] at ha
  all_goals (try subst ha)
  all_goals (try (left; exact ⟨rfl, fun _ => rfl⟩))
  all_goals (try (nrel_sec_same; done))
  all_goals (repeat' split)
  all_goals (try (nrel_sec_same; done))
  -- `n->disconnecting++`
  all_goals (try (
    have hpc := ‹s.pc _ = PC.nfy _ _ _ _›
    right; left
    apply Exists.intro; apply Exists.intro
    refine ⟨by rw [hpc]; rfl, ?_, ?_, ?_, fun j => ⟨?_, ?_⟩, fun n => ?_⟩
    · nrel_pc_simp_goal; simp only [sec_nfy, sec_chd, NPos.inSec, cond_true]; rfl
    · assumption
    · simp
    · simp
    · simp
    · simp
    done))
  all_goals (try (
    have hpc := ‹s.pc _ = PC.fr FPos.lockRet _ _ _ _›
    right; left
    apply Exists.intro; apply Exists.intro
    refine ⟨by rw [hpc]; rfl, ?_, ?_, ?_, fun j => ⟨?_, ?_⟩, fun n => ?_⟩
    · nrel_pc_simp_goal; simp only [sec_fr, sec_freeLoopStartPc, FPos.inSec, cond_true]; rfl
    · assumption
    · simp
    · simp
    · simp
    · simp
    done))
  -- the childReturn cases (with or without the decrement)
  all_goals (try (
    have hpc := ‹s.pc _ = PC.chd _ _ _›
    refine Or.elim (sec_childReturn_cases s _ _ _ _ _ _ hpc ?_ ?_) Or.inl
      (fun h => Or.inr (Or.inr (Or.inl h)))
    · intro n; first | rfl | simp
    · first | rfl | simp))
  -- `n->disconnecting--`
  all_goals (try (
    have hpc := ‹s.pc _ = _›
    right; right; left
    refine ⟨_, _, by rw [hpc]; rfl, ?_, ?_, fun n => ?_⟩
    · nrel_pc_simp_goal; simp [NPos.inSec, FPos.inSec]
    · simp
    · simp
    done))
  -- malloc
  · have hfresh := ‹(s.notes _).allocated = false›
    right; right; right
    refine ⟨_, hfresh, ?_, by simp, fun n hn => ?_, ?_⟩
    · nrel_pc_simp_goal; rw [‹s.pc _ = _›]; rfl
    · simp [hn]
    · simp [NoteRec.blank]

/-- The early part of `nsync_note_new` starts with `malloc`. -/
theorem step_earlyNew {s s' : State} {e : Event} (hs : step s e = .ok s') (a : Tid)
    (ha : e.actor = some a) {c : NoteId} (h : (s'.pc a).earlyNew = some c) :
    (s.pc a).earlyNew = some c ∨ (s.notes c).allocated = false := by
  cases e
  all_goals step_cases hs
  all_goals simp only [Event.actor, Option.some.injEq, reduceCtorEq] at ha
  all_goals (try subst ha)
  all_goals (try (left; exact h))
  all_goals (try (nrel_pc_simp h))
  all_goals (try (simp [NewPos.early] at h; done))
  all_goals (try (left; rw [‹s.pc _ = _›]; simpa [NewPos.early] using h; done))
  all_goals (repeat' split at h)
  all_goals (try (simp [NewPos.early] at h; done))
  all_goals (try (left; rw [‹s.pc _ = _›]; simpa [NewPos.early] using h; done))
  all_goals (try (
    left; rw [‹s.pc _ = _›]
    obtain ⟨h1, h2⟩ := earlyNew_afterDeadlinePc h
    subst h2; simp [h1]; done))
  all_goals (try (
    left; rw [‹s.pc _ = _›]
    obtain ⟨h1, h2⟩ := earlyNew_afterNotifyPc h
    subst h2; simpa using h1; done))
  · left; rw [‹s.pc _ = _›]
    obtain ⟨h1, h2⟩ := earlyNew_afterNotifyPc h
    subst h2; simp [h1]
  · right
    simp only [earlyNew_dl, DK.isNew_newSelf, cond_true, Option.some.injEq] at h
    subst h; assumption

end Note
