/-
  Futex layer (C12), fair termination: concrete executions.

  A finite accepted trace followed by idling for ever (`traceExec`), a lasso (`lassoExec`: a trace,
  then a loop that takes the state back to itself, for ever), a lasso "up to the ghost counters"
  (`bumpExec`: the loop takes the state back to itself except that posts / takes / succRets have
  grown by one; the acceptor never reads them), and criteria for the fairness hypotheses of such
  executions.
-/
import NsyncVerif.Proofs.FutexFairMain

namespace NsyncVerif.Futex

set_option linter.unusedSimpArgs false
set_option linter.unusedVariables false

theorem run_append_ok : ∀ (a b : List Event) (s s' : State), run s (a ++ b) = .ok s' →
    ∃ s1, run s a = .ok s1 ∧ run s1 b = .ok s' := by
  intro a
  induction a with
  | nil => intro b s s' h; exact ⟨s, rfl, h⟩
  | cons e es ih =>
    intro b s s' h
    simp only [List.cons_append, run] at h ⊢
    cases hs : step s e with
    | ok s1 => rw [hs] at h; exact ih b s1 s' h
    | error m => rw [hs] at h; cases h

/-- The state after `evs` from `s` (`s` itself if the events are not accepted). -/
def stateFrom (s : State) (evs : List Event) : State :=
  match run s evs with
  | .ok s' => s'
  | .error _ => s

theorem stateFrom_ok {s sf : State} {evs : List Event} (h : run s evs = .ok sf) (i : Nat) :
    run s (evs.take i) = .ok (stateFrom s (evs.take i)) := by
  have : run s (evs.take i ++ evs.drop i) = .ok sf := by rw [List.take_append_drop]; exact h
  obtain ⟨s1, h1, _⟩ := run_append_ok _ _ _ _ this
  simp only [stateFrom, h1]

theorem stateFrom_all {s sf : State} {evs : List Event} (h : run s evs = .ok sf) {i : Nat}
    (hi : evs.length ≤ i) : stateFrom s (evs.take i) = sf := by
  simp only [stateFrom, List.take_of_length_le hi, h]

theorem stateFrom_step {s sf : State} {evs : List Event} (h : run s evs = .ok sf) {i : Nat}
    (hi : i < evs.length) :
    step (stateFrom s (evs.take i)) evs[i] = .ok (stateFrom s (evs.take (i + 1))) := by
  have he : evs[i]? = some evs[i] := List.getElem?_eq_getElem hi
  have e : evs.take (i + 1) = evs.take i ++ [evs[i]] := by rw [List.take_add_one, he]; rfl
  have h1 := stateFrom_ok h (i + 1)
  rw [e, run_append, stateFrom_ok h i] at h1
  rw [e]
  simp only [run] at h1
  cases hs : step (stateFrom s (List.take i evs)) evs[i] with
  | ok s1 => rw [hs] at h1; simp at h1; rw [h1, e]
  | error m => rw [hs] at h1; cases h1

/-- The trace is accepted from `s`. -/
def acceptsFrom (s : State) (evs : List Event) : Bool :=
  match run s evs with
  | .ok _ => true
  | .error _ => false

theorem run_of_accepts {s : State} {evs : List Event} (h : acceptsFrom s evs = true) :
    run s evs = .ok (stateFrom s evs) := by
  unfold acceptsFrom at h
  unfold stateFrom
  split at h
  · next s' hs => rw [hs]
  · cases h

/-- A finite accepted trace from `s0`, then nothing for ever. -/
def traceExec (s0 : State) (evs : List Event) (sf : State) (h : run s0 evs = .ok sf) : Exec s0 :=
  { ρ := fun i => stateFrom s0 (evs.take i)
    σ := fun i => evs[i]?
    start := by simp [stateFrom, run]
    next := by
      intro i
      cases he : evs[i]? with
      | none =>
        have hi : evs.length ≤ i := by simpa using he
        show stateFrom s0 (evs.take (i + 1)) = stateFrom s0 (evs.take i)
        rw [stateFrom_all h hi, stateFrom_all h (by omega)]
      | some e =>
        have hi : i < evs.length := by
          apply Classical.byContradiction; intro hc
          have : evs[i]? = none := by simp; omega
          rw [this] at he; cases he
        have : e = evs[i] := by rw [List.getElem?_eq_getElem hi] at he; cases he; rfl
        subst this
        exact stateFrom_step h hi }

theorem traceExec_at {s0 : State} {evs : List Event} {sf : State} (h : run s0 evs = .ok sf) (j : Nat) :
    (traceExec s0 evs sf h).ρ j = stateFrom s0 (evs.take j) ∧ (traceExec s0 evs sf h).σ j = evs[j]? :=
  ⟨rfl, rfl⟩

theorem traceExec_tail {s0 : State} {evs : List Event} {sf : State} (h : run s0 evs = .ok sf) {j : Nat}
    (hj : evs.length ≤ j) : (traceExec s0 evs sf h).ρ j = sf ∧ (traceExec s0 evs sf h).σ j = none :=
  ⟨stateFrom_all h hj, by show evs[j]? = none; simpa using hj⟩

/-- Threads that do not occur in a trace are where they were. -/
theorem run_untouched {t : Tid} : ∀ (evs : List Event) (s s' : State),
    (∀ e ∈ evs, e.tid ≠ some t) → run s evs = .ok s' → s'.pc t = s.pc t := by
  intro evs
  induction evs with
  | nil => intro s s' _ h; simp [run] at h; subst h; rfl
  | cons e es ih =>
    intro s s' hne h
    simp only [run] at h
    cases hs : step s e with
    | error m => rw [hs] at h; cases h
    | ok s1 =>
      rw [hs] at h
      rw [ih s1 s' (fun e' he' => hne e' (by simp [he'])) h, step_pc_other hs (hne e (by simp))]

/-- All events of the trace are by threads `< b` (or ticks). -/
def tidsBelow (b : Nat) (evs : List Event) : Bool :=
  evs.all (fun e => match e.tid with | some t => decide (t < b) | none => true)

theorem untouched_of_tidsBelow {b : Nat} {evs : List Event} {s s' : State} (hb : tidsBelow b evs = true)
    (h : run s evs = .ok s') {t : Nat} (ht : b ≤ t) : s'.pc t = s.pc t := by
  refine run_untouched evs s s' (fun e he htid => ?_) h
  simp only [tidsBelow, List.all_eq_true] at hb
  have := hb e he
  rw [htid] at this
  have h2 : t < b := by simpa using this
  omega

/-! ### criteria -/

variable {s0 : State}

theorem weakFair_of_final (x : Exec s0) (N : Nat)
    (hN : ∀ j, N ≤ j → ∀ t, (x.ρ j).pc t = .idle ∨ inKernel (x.ρ j) t = true) : WeakFair x := by
  intro t i h
  rcases hN (i + N) (by omega) t with h1 | h1
  · exact absurd h1 (h (i + N) (by omega)).1
  · rw [(h (i + N) (by omega)).2] at h1; cases h1

theorem kernelFair_of_final (x : Exec s0) (N : Nat)
    (hN : ∀ j, N ≤ j → ∀ t, kernelDue (x.ρ j) t = false) : KernelFair x := by
  intro t i h
  have := h (i + N) (by omega)
  rw [hN (i + N) (by omega) t] at this; cases this

theorem finiteSpurious_of_tail (x : Exec s0) (N : Nat)
    (hN : ∀ j t r, N ≤ j → x.σ j ≠ some (.fwaitRet t r)) : FiniteSpurious x :=
  ⟨N, fun j t r hj he _ => absurd he (hN j t r hj)⟩

theorem Exec.posts_mono (x : Exec s0) {i j : Nat} (hij : i ≤ j) : (x.ρ i).posts ≤ (x.ρ j).posts := by
  obtain ⟨d, rfl⟩ : ∃ d, j = i + d := ⟨j - i, by omega⟩
  induction d with
  | zero => exact Nat.le_refl _
  | succ d ih =>
    have h1 := ih (by omega)
    have h2 : (x.ρ (i + d)).posts ≤ (x.ρ (i + d + 1)).posts := by
      cases hs : x.σ (i + d) with
      | none => rw [x.next_none hs]; exact Nat.le_refl _
      | some e => exact (step_counters (x.next_some hs)).1
    exact Nat.le_trans h1 h2

theorem boundedPosts_of_tail (x : Exec s0) (N : Nat) (sf : State) (hN : ∀ j, N ≤ j → x.ρ j = sf) :
    BoundedPosts x := by
  refine ⟨sf.posts, fun j => ?_⟩
  have := x.posts_mono (show j ≤ j + N by omega)
  rw [hN (j + N) (by omega)] at this
  exact this

/-! ### a lasso -/

/-- `evs` from `s0`, then `loop` repeated for ever, where `loop` takes the state `sf` reached by
    `evs` back to `sf`. -/
def lassoExec (s0 : State) (evs loop : List Event) (sf : State)
    (h : run s0 evs = .ok sf) (hl : run sf loop = .ok sf) (hp : 0 < loop.length) : Exec s0 :=
  { ρ := fun i => if i < evs.length then stateFrom s0 (evs.take i)
                  else stateFrom sf (loop.take ((i - evs.length) % loop.length))
    σ := fun i => if i < evs.length then evs[i]? else loop[(i - evs.length) % loop.length]?
    start := by
      by_cases h0 : 0 < evs.length
      · simp [h0, stateFrom, run]
      · have : evs = [] := by cases evs <;> simp_all
        subst this; simp [run] at h; subst h; simp [stateFrom, run]
    next := by
      intro i
      have hsf0 : stateFrom sf (loop.take 0) = sf := by simp [stateFrom, run]
      by_cases hi : i < evs.length
      · have he : evs[i]? = some evs[i] := List.getElem?_eq_getElem hi
        simp only [hi, if_true, he]
        have hs := stateFrom_step h hi
        by_cases hi' : i + 1 < evs.length
        · simp only [hi', if_true]; exact hs
        · have : i + 1 - evs.length = 0 := by omega
          simp only [hi', if_false, this, Nat.zero_mod, hsf0]
          rw [← stateFrom_all h (show evs.length ≤ i + 1 by omega)]; exact hs
      · have hi' : ¬ i + 1 < evs.length := by omega
        simp only [hi, hi', if_false]
        have hr : (i - evs.length) % loop.length < loop.length := Nat.mod_lt _ hp
        have he : loop[(i - evs.length) % loop.length]? = some loop[(i - evs.length) % loop.length] :=
          List.getElem?_eq_getElem hr
        simp only [he]
        have hs := stateFrom_step hl hr
        have hsucc : i + 1 - evs.length = (i - evs.length) + 1 := by omega
        by_cases hwrap : (i - evs.length) % loop.length + 1 = loop.length
        · have : (i + 1 - evs.length) % loop.length = 0 := by
            rw [hsucc, Nat.add_mod]
            have : (i - evs.length) % loop.length = loop.length - 1 := by omega
            rw [this]
            by_cases h1 : loop.length = 1
            · rw [h1]
            · rw [Nat.mod_eq_of_lt (show 1 < loop.length by omega)]
              rw [show loop.length - 1 + 1 = loop.length by omega, Nat.mod_self]
          rw [this, hsf0]
          rw [hwrap, List.take_of_length_le (Nat.le_refl _)] at hs
          have : stateFrom sf loop = sf := by simp [stateFrom, hl]
          rw [this] at hs; exact hs
        · have : (i + 1 - evs.length) % loop.length = (i - evs.length) % loop.length + 1 := by
            rw [hsucc, Nat.add_mod]
            by_cases h1 : loop.length = 1
            · omega
            · rw [Nat.mod_eq_of_lt (show 1 < loop.length by omega)]
              exact Nat.mod_eq_of_lt (by omega)
          rw [this]; exact hs }

theorem lassoExec_tail {s0 : State} {evs loop : List Event} {sf : State}
    (h : run s0 evs = .ok sf) (hl : run sf loop = .ok sf) (hp : 0 < loop.length) {j : Nat}
    (hj : evs.length ≤ j) :
    (lassoExec s0 evs loop sf h hl hp).ρ j = stateFrom sf (loop.take ((j - evs.length) % loop.length)) ∧
    (lassoExec s0 evs loop sf h hl hp).σ j = loop[(j - evs.length) % loop.length]? := by
  have : ¬ j < evs.length := by omega
  simp [lassoExec, this]

/-! ### `setPc` algebra for closing a loop -/

@[simp] theorem setPc_same (f : Tid → PC) (t : Tid) (v : PC) : setPc f t v t = v := by simp [setPc]

theorem setPc_other (f : Tid → PC) {t u : Tid} (v : PC) (h : u ≠ t) : setPc f t v u = f u := by
  simp [setPc, h]

@[simp] theorem setPc_setPc (f : Tid → PC) (t : Tid) (v w : PC) : setPc (setPc f t v) t w = setPc f t w := by
  funext u; simp only [setPc]; split <;> rfl

theorem setPc_comm (f : Tid → PC) {t u : Tid} (v w : PC) (h : t ≠ u) :
    setPc (setPc f t v) u w = setPc (setPc f u w) t v := by
  funext z; simp only [setPc]; split <;> split <;> simp_all

theorem setPc_id (f : Tid → PC) (t : Tid) (v : PC) (h : f t = v) : setPc f t v = f := by
  funext u; simp only [setPc]; split
  · next hu => rw [hu, h]
  · rfl

end NsyncVerif.Futex
