import NsyncVerif.Proofs.MuCSpinStep
/-
  MuC: (I_spin) is preserved by the CAS steps.
-/
namespace NsyncVerif.MuC

/-- `s'.word.spin = s.word.spin` for the word updates that leave MU_SPINLOCK alone -/
macro "word_spin" : tactic => `(tactic|
  first
  | (simp; done)
  | (simp_all [acqWord, addWord, relUncWord, relNwWord, subWord, Word.zero, finWord]; done)
  | (simp_all [acqWord, addWord, relUncWord, relNwWord, subWord, Word.zero, finWord] <;> (repeat' split) <;> simp_all))

macro "inv3_localw" t:ident h:ident heq:ident : tactic => `(tactic|
  (have hok := ($h).ok3 $t
   rw [$heq:ident] at hok
   refine Inv3.local $t $h (by word_spin) (by simp) (by intro u hu; simp [setFn, hu]) ?_ ?_
   · (simp_all [PC.spin, loopPc, finPc, Ret.pc]) <;> grind
   · (simp_all [PC.ok3, loopPc, finPc, Ret.pc]) <;> grind))

/-- success/failure of a `casWord` step whose word update keeps MU_SPINLOCK -/
macro "cas_case3" t:ident h:ident heq:ident hs:ident : tactic => `(tactic|
  (rcases casWord_ok $hs with ⟨hw, -, hs'⟩ | ⟨-, -, hs'⟩ <;> subst hs' <;>
    first
    | inv3_localw $t $h $heq
    | (split <;> inv3_localw $t $h $heq)
    | (split <;> first | inv3_localw $t $h $heq | (split <;> inv3_localw $t $h $heq))))

theorem inv3_stepCasB {s s' : State} {t : Tid} {o : Ord} {loc : Loc} {exp new obs : Nat} {ok : Bool} (h : Inv3 s)
    (hp : match s.pc t with
      | .lkCas0 _ | .lkCas1 _ _ | .tryCas0 _ | .tryCas1 _ _ | .lsCasAcq _ _ | .ulCas0 _ _ | .ulCas1 _ _ _
      | .usCasUnc _ _ | .mtCasWW _ _ | .mtRmCas _ _ _ => True
      | _ => False)
    (hs : stepCas s t o loc exp new obs ok = .ok s') : Inv3 s' := by
  unfold stepCas at hs
  split at hs
  all_goals try (rename_i heq; rw [heq] at hp; exact False.elim hp)
  all_goals try (rename_i hne; split at hp <;> first | exact False.elim hp | (exfalso; simp_all; done))
  · rename_i heq; cas_case3 t h heq hs
  · rename_i heq; cas_case3 t h heq hs
  · rename_i heq; cas_case3 t h heq hs
  · rename_i heq; cas_case3 t h heq hs
  · rename_i heq; cas_case3 t h heq hs
  · rename_i heq; cas_case3 t h heq hs
  · rename_i heq; cas_case3 t h heq hs
  · rename_i heq; simp only [afterWakes_eq] at hs; cas_case3 t h heq hs
  · rename_i heq; cas_case3 t h heq hs
  · rename_i heq; ld_case3 t h heq hs

theorem word_spin_free {s : State} (h : Inv3 s) {old : Word} (hw : s.word = old) (ho : old.spin = false) :
    s.word.spin = false := by rw [hw]; exact ho

theorem inv3_stepCasA {s s' : State} {t : Tid} {o : Ord} {loc : Loc} {exp new obs : Nat} {ok : Bool} (h : Inv3 s)
    (hp : match s.pc t with
      | .lsCasEnq _ _ | .lsRelCas _ _ | .usFinCas _ _ _ | .mwEnqCas _ _ | .mwRelCas _ _ _ | .mtCasAcq _ _ => True
      | _ => False)
    (hs : stepCas s t o loc exp new obs ok = .ok s') : Inv3 s' := by
  unfold stepCas at hs
  split at hs
  all_goals try (rename_i heq; rw [heq] at hp; exact False.elim hp)
  all_goals try (rename_i hne; split at hp <;> first | exact False.elim hp | (exfalso; simp_all; done))
  · -- lsCasEnq
    rename_i c old heq
    have hok0 := h.ok3 t; rw [heq] at hok0
    rcases casWord_ok hs with ⟨hw, -, rfl⟩ | ⟨-, -, rfl⟩
    · exact Inv3.take t h (word_spin_free h hw hok0) (by simp [enqWord]) (by simp) (by intro u hu; simp [setFn, hu])
        (by simp [PC.spin]) (by simp [PC.ok3])
    · inv3_local t h heq
  · -- lsRelCas
    rename_i c old heq
    rcases casWord_ok hs with ⟨hw, -, rfl⟩ | ⟨-, -, rfl⟩
    · exact Inv3.give t h (by rw [heq]; rfl) (by simp) (by simp) (by intro u hu; simp [setFn, hu])
        (by simp [PC.spin]) (by simp [PC.ok3])
    · inv3_local t h heq
  · -- usFinCas
    rename_i r f old heq
    rcases casWord_ok hs with ⟨hw, -, rfl⟩ | ⟨-, -, rfl⟩
    · rw [afterFin_eq]
      refine Inv3.give t h (by rw [heq]; rfl) (by split <;> simp [finWord]) (by split <;> simp) (by intro u hu; simp [setFn, hu]) ?_ ?_
      · simp only [setPc_pc, setFn_same]; cases f.wake <;> cases r <;> first | rfl | simp [finPc, Ret.pc, PC.spin]
      · simp only [setPc_pc, setFn_same]; cases f.wake <;> cases r <;> first | trivial | simp [finPc, Ret.pc, PC.ok3]
    · inv3_local t h heq
  · -- mwEnqCas
    rename_i c old heq
    have hok0 := h.ok3 t; rw [heq] at hok0
    split at hs
    · cases hs
    · rcases casWord_ok hs with ⟨hw, -, rfl⟩ | ⟨-, -, rfl⟩
      · exact Inv3.take t h (word_spin_free h hw hok0) (by simp [mwEnqWord, enqLast, enqFirst])
          (by simp [enqLast, enqFirst]) (by intro u hu; simp [setFn, hu])
          (by simp [PC.spin]) (by simp [PC.ok3])
      · inv3_local t h heq
  · -- mwRelCas
    rename_i c old add0 heq
    rcases casWord_ok hs with ⟨hw, -, rfl⟩ | ⟨-, -, rfl⟩
    · exact Inv3.give t h (by rw [heq]; rfl) (by split <;> simp) (by split <;> simp) (by intro u hu; split <;> simp [setFn, hu])
        (by split <;> simp [PC.spin]) (by split <;> simp [PC.ok3])
    · inv3_local t h heq
  · -- mtCasAcq
    rename_i c old heq
    have hok0 := h.ok3 t; rw [heq] at hok0
    rcases casWord_ok hs with ⟨hw, -, rfl⟩ | ⟨-, -, rfl⟩
    · exact Inv3.take t h (word_spin_free h hw hok0) (by simp [mtAcqWord]) (by simp) (by intro u hu; simp [setFn, hu])
        (by simp [PC.spin]) (by simpa [PC.ok3] using hok0)
    · inv3_local t h heq

theorem inv3_stepCasC {s s' : State} {t : Tid} {o : Ord} {loc : Loc} {exp new obs : Nat} {ok : Bool} (h1 : Inv1 s) (h : Inv3 s)
    (hp : match s.pc t with
      | .usCasGrab _ _ | .usRelCas _ _ _ | .usReCas _ _ _ | .usRcCas _ _ _ _ => True
      | _ => False)
    (hs : stepCas s t o loc exp new obs ok = .ok s') : Inv3 s' := by
  unfold stepCas at hs
  split at hs
  all_goals try (rename_i heq; rw [heq] at hp; exact False.elim hp)
  all_goals try (rename_i hne; split at hp <;> first | exact False.elim hp | (exfalso; simp_all; done))
  · -- usCasGrab
    rename_i r old heq
    have hok0 := h.ok3 t; rw [heq] at hok0
    rcases casWordE_ok hs with ⟨hw, -, hs⟩ | ⟨-, -, rfl⟩
    · have hsc0 : Scan.ok { late := old.cond, tc := old.cond, done := [], passed := [], todo := [], wake := [], wt := none,
                            sww := false, saf := true } := fun h => h
      obtain ⟨hf, p, hpc, hsc⟩ := afterPickup_frame hs hsc0
      obtain ⟨hsp, hok⟩ := afterPickup_spin hs
      exact Inv3.take t h (word_spin_free h hw hok0) (by rw [hf.word]; simp [grabWord]) (by rw [hf.sp]; simp)
        (by intro u hu; rw [hpc]; simp [setFn, hu]) hsp hok
    · inv3_local t h heq
  · -- usRelCas
    rename_i r sc old heq
    have hok0 := h.ok3 t; rw [heq] at hok0
    have hok1 := h1.pcok t; rw [heq] at hok1
    rcases casWordE_ok hs with ⟨hw, -, hs⟩ | ⟨-, -, rfl⟩
    · obtain ⟨hf, p, hpc, hsc⟩ := scanRun_frame _ _ t r sc s' hs hok1.2
      obtain ⟨hsp, hok⟩ := scanRun_spin _ _ t r sc s' hs
      exact Inv3.give t h (by rw [heq]; rfl) (by rw [hf.word]) (by rw [hf.sp])
        (by intro u hu; rw [hpc]; simp [setFn, hu]) (by rw [hsp]; simpa [PC.ok3] using hok0) hok
    · inv3_local t h heq
  · -- usReCas
    rename_i r sc old heq
    have hok0 := h.ok3 t; rw [heq] at hok0
    have hok1 := h1.pcok t; rw [heq] at hok1
    rcases casWordE_ok hs with ⟨hw, -, hs⟩ | ⟨-, -, rfl⟩
    · obtain ⟨hf, p, hpc, hsc⟩ := afterPickup_frame hs hok1.2
      obtain ⟨hsp, hok⟩ := afterPickup_spin hs
      exact Inv3.take t h (word_spin_free h hw hok0.1) (by rw [hf.word]) (by rw [hf.sp])
        (by intro u hu; rw [hpc]; simp [setFn, hu]) hsp hok
    · inv3_local t h heq
  · -- usRcCas
    rename_i r sc k old heq
    have hok1 := h1.pcok t; rw [heq] at hok1
    repeat' split at hs
    all_goals first
      | (cases hs; done)
      | skip
    · obtain ⟨hf, p, hpc, hsc⟩ := scanRun_frame _ _ t r sc s' hs hok1.2
      obtain ⟨hsp, hok⟩ := scanRun_spin _ _ t r sc s' hs
      exact Inv3.local t h (by rw [hf.word]) (by rw [hf.sp]) (by intro u hu; rw [hpc]; simp [setFn, hu])
        (by rw [hsp, heq]; rfl) hok
    · cases hs; inv3_local t h heq

end NsyncVerif.MuC
