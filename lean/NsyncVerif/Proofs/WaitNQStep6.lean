/-
  Proofs/WaitNQStep6.lean — `QI ∧ CF` across nsync_cv_signal / nsync_cv_broadcast.
-/
import NsyncVerif.Proofs.WaitNQStep5

set_option linter.unusedSimpArgs false
set_option linter.unusedVariables false

namespace WaitN

theorem qi_spinAcq {s s' : State} {t : Tid} {c : Nat} {st : SpinSt} {mk : SpinSt → PC} {done : PC} {e : Ev}
    (h : QI s) (hw0 : wk (s.pc t) = none) (hpost : s.post t = none) (hmc : s.mc t = .none)
    (hmk : ∀ x, wk (mk x) = none) (hdone : wk done = none)
    (hs : spinAcq s t c st mk done e = .ok s') : QI s' := by
  unfold spinAcq at hs
  split_ok hs
  all_goals first
    | exact qi_dflt h hs
    | (cases hs; exact qi_setPc h hw0 (hmk _) hpost hmc)
    | (cases hs; exact qi_setPc (qi_cvWord h rfl rfl) hw0 hdone hpost hmc)

/-- the unlink step in the general form used for signal (first record) and broadcast (all) -/
theorem qi_sgHeld {s : State} {t : Tid} {c0 : Nat} {bc : Bool} {l q : List Rid} {ob : Obj} (c : QI s)
    (hpc : s.pc t = .sg c0 bc .held) (hsplit : (s.obj (.cv c0)).queue = l ++ q) (hq : ob.queue = q)
    (hk : ob.known = (s.obj (.cv c0)).known) :
    QI (({ (s.setObj (.cv c0) ob) with
            rcd := fun r => if r ∈ l then { (s.setObj (.cv c0) ob).rcd r with unl := Unl.waker } else (s.setObj (.cv c0) ob).rcd r } : State).setPc t
          (.sg c0 bc (if l = [] then .ret else .wake l))) := by
  have hnop : opn (s.pc t) = false := by rw [hpc]; rfl
  have hpost := post_none_of_pc c hnop
  have hmc := mc_none_of_pc c hnop
  have hw0 := wk_none_of_opn hnop
  let f : Rid → Rec := fun r => if r ∈ l then { s.rcd r with unl := Unl.waker } else s.rcd r
  have hg1 : QI { s with rcd := f } := by
    apply qi_recGhost c f <;> intro r <;> simp only [f] <;> split <;> rfl
  by_cases hl : l = []
  · subst hl
    simp only [if_true]
    have hqq : ob.queue = (({ s with rcd := f } : State).obj (.cv c0)).queue := by
      show ob.queue = (s.obj (.cv c0)).queue
      rw [hq, hsplit]; rfl
    exact qi_setPc (s := ({ s with rcd := f } : State).setObj (.cv c0) ob) (p := .sg c0 bc .ret) (qi_cvWord hg1 hqq hk) hw0 rfl hpost hmc
  · simp only [hl, if_false]
    exact qi_unlink (s := { s with rcd := f }) hg1 hsplit hq hk hw0 hpost hmc rfl rfl

theorem qcf_stepSg {s s' : State} {t : Tid} {c0 : Nat} {bc : Bool} {st0 : SgSt} {e : Ev} (c : QCtx s t)
    (hpc : s.pc t = .sg c0 bc st0) (h : stepSg s t c0 bc st0 e = .ok s') : QI s' ∧ CF s' t := by
  refine ⟨?_, cf_notInCall (by rw [(quiet_stepSg hpc h).inCall t, hpc]; rfl)⟩
  unfold stepSg at h
  split at h
  · -- load
    have hnop : opn (s.pc t) = false := by rw [hpc]; rfl
    have hpost := post_none_of_pc c.qi hnop
    have hmc := mc_none_of_pc c.qi hnop
    have hw0 := wk_none_of_opn hnop
    split_ok h
    all_goals first
      | exact qi_dflt c.qi h
      | (cases h; exact qi_setPc c.qi hw0 rfl hpost hmc)
  · -- spin
    have hnop : opn (s.pc t) = false := by rw [hpc]; rfl
    exact qi_spinAcq c.qi (wk_none_of_opn hnop) (post_none_of_pc c.qi hnop) (mc_none_of_pc c.qi hnop)
      (fun _ => rfl) rfl h
  · -- held: unlink under the spinlock
    split at h
    · rename_i c' fn new obs
      cases bc with
      | true =>
        simp only [if_true] at h
        split at h
        · cases h
          exact qi_sgHeld (l := (s.obj (.cv c0)).queue) (q := []) c.qi hpc (by simp) rfl rfl
        · simp at h
      | false =>
        simp only [Bool.false_eq_true, if_false] at h
        split at h
        · cases h
          exact qi_sgHeld (l := (s.obj (.cv c0)).queue.take 1) (q := (s.obj (.cv c0)).queue.drop 1) c.qi hpc
            (List.take_append_drop 1 _).symm (by simp) rfl
        · simp at h
    · exact qi_dflt c.qi h
  · -- wake
    rename_i l
    have hop : opn (s.pc t) = true := by rw [hpc]; rfl
    split at h
    · -- the clearing store
      split at h
      · cases h
        exact qi_clear c.qi (by rw [hpc]; rfl) ‹s.post t = none›
      · simp at h
    · -- the post
      rename_i r hd rest j hpo
      split at h
      · rename_i s1 hps
        cases h
        have hpo : s.post t = some r := ‹s.post t = some r›
        have k := keeps_postSem (t := t) hps
        have h1 := qi_postSem c.qi hps
        have hpo1 : s1.post t = some r := by
          unfold postSem at hps; split at hps
          · unfold bindSem at hps; split_ok hps; all_goals (cases hps; try exact hpo)
          · cases hps; exact hpo
        have hq := qi_sgPost (s := s1.setSem j (s1.sem j + 1)) (c := c0) (t := t) (r0 := hd) (r := r) (rest := rest)
          (p := .sg c0 bc (if rest = [] then .ret else .wake rest)) (qi_setSem h1)
          (by simp only [setSem_pc]; rw [k.1, hpc]; rfl) (by simpa using hpo1)
          (by split <;> simp [wk, *]) (by intro hne; simp [hne, opn])
        exact hq
      · simp at h
    · simp at h
    · exact qi_dflt c.qi h
  · -- ret
    have hnop : opn (s.pc t) = false := by rw [hpc]; rfl
    split at h
    · split at h
      · cases h
        exact qi_setPc c.qi (wk_none_of_opn hnop) rfl (post_none_of_pc c.qi hnop) (mc_none_of_pc c.qi hnop)
      · simp at h
    · exact qi_dflt c.qi h

end WaitN
