/-
  Layer `CvFix` (cv.c with the repair of F3; adapted from the `Cv` file of the same name): protocol invariant — local transitions (atomic operations).
-/
import NsyncVerif.Proofs.CvFixInvBLoc

namespace NsyncVerif.CvFix

/-- Loads of record fields. -/
def Event.isRecLd : Event → Bool
  | .recLd .. => true
  | _ => false

set_option maxHeartbeats 1000000 in
theorem invB_loc_atm1 {s : State} {t : Tid} {e : Event} {x' : Thr} (hi : InvB s) (ha : InvA s) (h : LTr s t e x')
    (he : e.isAtomic = true) (he2 : e.isRecLd = false) : InvB (s.setThr t x') := by
  have hb := hi.thr t
  obtain ⟨b1, b2, b3, b4, b5, b6, b7, b8, b9, b10, b11, b12, b13, b14⟩ := hb
  have a3 := (ha.thr t).live
  cases h with
  | spinLd site obs hl ho => rcases hl with ⟨_, hl⟩ | ⟨_, hl⟩ <;> split <;> locB_case hl
  | spinLdN obs hl ho => split <;> locB_case hl
  | sigLd site obs hl hs ho => split <;> locB_case hl
  | casFail exp new obs hl ho hne => locB_case hl
  | wRmCasFail r exp new obs hl hr => locB_case hl
  | sRcCasFail site r exp new obs hl hr0 => locB_case hl
  | wwLd obs f rest hl hlist => by_cases hc : wantTransfer (s.recs f).lt obs (s.thr t).list.length (s.thr t).allReaders = true <;> simp only [hc, if_true, if_false] <;> locB_case hl
  | wwRelLd site obs hl => rcases hl with ⟨_, hl⟩ | ⟨_, hl⟩ <;> locB_case hl
  | wwCasFail exp new obs hl => locB_case hl
  | wwRelCasOk exp new obs hl => by_cases hz : (s.thr t).list.isEmpty = true <;> simp only [hz, if_true, if_false] <;> locB_case hl
  | wwRelCasFail exp new obs hl => locB_case hl
  | dbgLd obs hl ho => split <;> locB_case hl
  | _ => first | (simp [Event.isAtomic] at he; done) | (simp [Event.isRecLd] at he2; done)

end NsyncVerif.CvFix
