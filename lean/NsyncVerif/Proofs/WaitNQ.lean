/-
  Proofs/WaitNQ.lean — the queue invariant `QI` (where every waiter record is: in its object's queue,
  in the private wake list of a cv signaller, popped by a note / counter waker that still has to post,
  or out), the per-program-point facts `CF` of a caller about the locks it holds and the progress of its
  dequeue loop, and the frame lemma for the steps of other threads.
  (On the code before the repair of defect F3 these statements only held on runs on which no cv_dequeue had
  "removed" a record that a signaller had already unlinked; cv_dequeue now looks for the record in
  pcv->waiters and, if a waker owns it, waits for `waiting == 0`.)
-/
import NsyncVerif.Proofs.WaitNRet

set_option linter.unusedSimpArgs false
set_option linter.unusedVariables false

namespace WaitN

/-- the records a cv signaller has unlinked and not yet cleared -/
def pend (p : Option Rid) (l : List Rid) : List Rid :=
  match p with
  | some _ => l.tail
  | none => l

/-- the wake list of a cv signaller inside wake_waiters -/
def wk (p : PC) : Option (Nat × List Rid) :=
  match p with
  | .sg c _ (.wake l) => some (c, l)
  | _ => none

/-- program points at which a thread may have popped a record and still has to post its semaphore -/
def opn (p : PC) : Bool :=
  match p with
  | .idle | .wND _ _ .nfWake | .sg _ _ (.wake _) => true
  | _ => false

structure QI (s : State) : Prop where
  /-- a queued record is alive, belongs to that object, is marked waiting, and its dequeue has not finished -/
  q1 : ∀ o r, r ∈ (s.obj o).queue →
        (s.rcd r).live = true ∧ (s.rcd r).obj = o ∧ (s.rcd r).waiting = true ∧ (s.rcd r).deqd = false
  q2 : ∀ o, (s.obj o).queue.Nodup
  /-- a live record marked waiting is queued on its object or in a signaller's wake list -/
  q3 : ∀ r, (s.rcd r).live = true → (s.rcd r).waiting = true →
        r ∈ (s.obj (s.rcd r).obj).queue ∨ ∃ u c l, wk (s.pc u) = some (c, l) ∧ r ∈ pend (s.post u) l
  /-- wake lists of cv signallers -/
  q4 : ∀ u c l, wk (s.pc u) = some (c, l) →
        l.Nodup ∧ (∀ r0, s.post u = some r0 → l.head? = some r0) ∧
        ∀ r ∈ pend (s.post u) l, (s.rcd r).live = true ∧ (s.rcd r).obj = .cv c ∧ (s.rcd r).waiting = true
          ∧ (s.rcd r).deqd = false ∧ ∀ o, r ∉ (s.obj o).queue
  q4d : ∀ u u' c l c' l', u ≠ u' → wk (s.pc u) = some (c, l) → wk (s.pc u') = some (c', l') →
        ∀ r, r ∈ pend (s.post u) l → r ∉ pend (s.post u') l'
  /-- a record popped by a note / counter waker that still has to post -/
  q5 : ∀ u r, s.post u = some r → (wk (s.pc u)).isSome = true ∨
        ((s.rcd r).live = true ∧ (s.rcd r).deqd = false ∧ (s.rcd r).obj.isCv = false
          ∧ (s.obj (s.rcd r).obj).lock = some u ∧ (s.rcd r).waiting = false)
  q6 : ∀ u, s.post u ≠ none → s.mc u = .none ∧ opn (s.pc u) = true
  /-- waiters of a ready note / counter are only left queued while somebody holds its mutex -/
  q7 : ∀ o, o.isCv = false → wakeable o (s.obj o) = true → (s.obj o).queue ≠ [] → (s.obj o).lock ≠ none
  q8 : ∀ n, dlePast (s.obj (.note n)).expiry = true → (s.obj (.note n)).queue = []
  q9 : ∀ o, (s.obj o).known = false → (s.obj o).queue = [] ∧ (s.obj o).lock = none
  q10 : ∀ c, (s.obj (.cv c)).known = true
  /-- nested mutex calls are only tracked for protocol-driven threads -/
  q11 : ∀ u, s.mc u ≠ .none → opn (s.pc u) = true ∧ wk (s.pc u) = none

/-- number of dequeue calls the caller has completed (their lock released) -/
def dqIdx (p : PC) (f : Frame) : Nat :=
  match p with
  | .wDeqCv j _ => j
  | .wND .deq j _ => j
  | .wDeq j (.unlockWait _) => j + 1
  | .wDeq j _ => j
  | .wFree | .wRelock | .wRet _ => f.recs.length
  | _ => 0

/-- the object whose mutex the caller holds at this program point (notes and counters) -/
def holdsAt (p : PC) (f : Frame) : Option ObjId :=
  match p with
  | .wEnq i .load | .wEnq i (.store _) | .wEnq i (.unlockCall _) => f.objs[i]?
  | .wDeq j .load | .wDeq j (.loadW _) | .wDeq j (.store _) | .wDeq j (.unlockCall _) => f.objs[j]?
  | .wND _ i .ld1 | .wND _ i (.unlockCall _) | .wND _ i .nfLd0 | .wND _ i .nfLd1 | .wND _ i .nfStore
  | .wND _ i .nfWake | .wND _ i .nfUnlockCall => f.objs[i]?
  | _ => none

def isNfWake (p : PC) : Bool :=
  match p with
  | .wND _ _ .nfWake => true
  | _ => false

/-- the record the caller is about to enqueue and has not touched since its initialisation -/
def freshAt (p : PC) (f : Frame) : Option Rid :=
  match p with
  | .wEnqCv i (.spin _) | .wEnqCv i .store => f.recs[i]?
  | .wEnq i .lockCall | .wEnq i .lockWait | .wEnq i .load | .wEnq i (.store _) => f.recs[i]?
  | _ => none

/-- the record whose dequeue call has decided and cleared `waiting` -/
def clearedAt (p : PC) (f : Frame) : Option Rid :=
  match p with
  | .wDeq j (.unlockCall _) | .wDeq j (.unlockWait _) | .wDeqCv j (.release _) => f.recs[j]?
  | _ => none

/-- the enqueue that has decided to queue the record -/
def enqTrueAt (p : PC) (f : Frame) : Option ObjId :=
  match p with
  | .wEnq i (.store true) | .wEnq i (.unlockCall true) => f.objs[i]?
  | _ => none

/-- facts of a caller about the shared state (locks held, own records) -/
structure CF (s : State) (t : Tid) : Prop where
  holds : ∀ o, holdsAt (s.pc t) (s.fr t) = some o →
            (s.obj o).lock = some t ∧ (isNfWake (s.pc t) = false → wakeable o (s.obj o) = true → (s.obj o).queue = [])
  fresh : ∀ r, freshAt (s.pc t) (s.fr t) = some r → (s.rcd r).waiting = false
  cleared : ∀ r, clearedAt (s.pc t) (s.fr t) = some r → (s.rcd r).waiting = false
  enqT : ∀ o, enqTrueAt (s.pc t) (s.fr t) = some o → wakeable o (s.obj o) = false ∧
            (∀ n, o = .note n → dlePast (s.obj o).expiry = false)
  dq : inCall (s.pc t) = true → (s.fr t).frees = 0 → ∀ k r, (s.fr t).recs[k]? = some r →
            ((s.rcd r).deqd = true ↔ k < dqIdx (s.pc t) (s.fr t))

/-- the whole invariant -/
structure QInv (s : State) : Prop where
  qi : QI s
  cf : ∀ t, CF s t

theorem pend_sub (p : Option Rid) (l : List Rid) : ∀ r, r ∈ pend p l → r ∈ l := by
  intro r hr
  unfold pend at hr
  split at hr
  · exact List.mem_of_mem_tail hr
  · exact hr

/-- `QI` reads the program counters only through `wk` and `opn` -/
theorem qi_transfer {s s' : State} (h : QI s) (ho : s'.obj = s.obj) (hr : s'.rcd = s.rcd) (hp : s'.post = s.post)
    (hwk : ∀ u, wk (s'.pc u) = wk (s.pc u))
    (h6 : ∀ u, s'.post u ≠ none → s'.mc u = .none ∧ opn (s'.pc u) = true)
    (h11 : ∀ u, s'.mc u ≠ .none → opn (s'.pc u) = true ∧ wk (s'.pc u) = none) : QI s' := by
  constructor
  · intro o r; rw [ho, hr]; exact h.q1 o r
  · intro o; rw [ho]; exact h.q2 o
  · intro r; rw [hr, ho, hp]; intro h1 h2
    rcases h.q3 r h1 h2 with h3 | ⟨u, c, l, h3, h4⟩
    · exact .inl h3
    · exact .inr ⟨u, c, l, by rw [hwk]; exact h3, h4⟩
  · intro u c l hw; rw [hwk] at hw; rw [hp, hr, ho]; exact h.q4 u c l hw
  · intro u u' c l c' l' hne h1 h2; rw [hwk] at h1 h2; rw [hp]; exact h.q4d u u' c l c' l' hne h1 h2
  · intro u r hpo; rw [hp] at hpo; rw [hwk, hr, ho]; exact h.q5 u r hpo
  · exact h6
  · intro o; rw [ho]; exact h.q7 o
  · intro n; rw [ho]; exact h.q8 n
  · intro o; rw [ho]; exact h.q9 o
  · intro c; rw [ho]; exact h.q10 c
  · exact h11

end WaitN
