/-
  Layer `CvFix`, liveness, the waiter's side: what a step of a thread inside
  nsync_cv_wait_with_deadline can be (`wait_step`): its program point stays, or moves along the
  edges `WSucc` of the control-flow graph of the wait, with the facts each edge depends on.
-/
import NsyncVerif.Props.C04Fair

namespace NsyncVerif.CvFix

/-- The edges of the control-flow graph of nsync_cv_wait_with_deadline_generic, from frame `x` to
    frame `y`; `w` is `waiting` of the waiter's record before the step, `eqrc` says whether its
    `remove_count` equals the saved one, `u` is the record's list of unlinkers. -/
def WSucc (x y : Thr) (w : Bool) (eqrc : Bool) (u : List Unl) : Prop :=
  match x.loc with
  | .wNew => y.loc = .wMode ∨ (y.loc = .spLd0 ∧ y.cont = .waitEnq)
  | .wMode => y.loc = .spLd0 ∧ y.cont = .waitEnq
  | .spLd0 | .spLd2 | .spCas =>
    (y.loc.spinLoop = true ∧ y.cont = x.cont) ∨ (x.cont = .waitEnq ∧ y.loc = .wEnq) ∨
    (x.cont = .waitChk ∧ y.loc = .wChk2)
  | .wEnq => y.loc = .wRel
  | .wRel => y.loc = .wUnlock
  | .wUnlock => y.loc = .wUnlocking
  | .wUnlocking => y.loc = .wHead
  | .wHead =>
    (w = false ∧ y.loc = .wExit ∧ y.exitUnl = u) ∨
    (w = true ∧ x.semOut = .ok ∧ (y.loc = .wSemEnter ∨ y.loc = .cPre)) ∨
    (w = true ∧ x.semOut ≠ .ok ∧ y.loc = .wChk)
  | .wSemEnter => y.loc = .wSemRet
  | .wSemRet => (y.loc = .wChk ∧ y.semOut = .timedOut) ∨ y.loc = .wTail
  | .cPre => y.loc = .cWait ∨ (y.semOut ≠ .ok ∧ (y.loc = .wTail ∨ (y.loc = .spLd0 ∧ y.cont = .waitChk)))
  | .cWait => y.loc = .cPost
  | .cPost => y.loc = .wHead ∨ (y.semOut ≠ .ok ∧ (y.loc = .wTail ∨ (y.loc = .spLd0 ∧ y.cont = .waitChk)))
  | .wChk => (w = false ∧ y.loc = .wTail) ∨ (w = true ∧ y.loc = .spLd0 ∧ y.cont = .waitChk)
  | .wChk2 => (w = false ∧ y.loc = .wRel2) ∨ (w = true ∧ y.loc = .wCmp)
  | .wCmp => (eqrc = true ∧ y.loc = .wRmLd) ∨ (eqrc = false ∧ y.loc = .wRel2)
  | .wRmLd => y.loc = .wRmCas
  | .wRmCas => y.loc = .wClr ∨ y.loc = .wRmLd
  | .wClr => y.loc = .wRel2
  | .wRel2 => y.loc = .wTail
  | .wTail => y.loc = .wHead
  | .wExit => y.loc = .wLocking ∨ y.loc = .wRelocking
  | .wLocking => y.loc = .wRet
  | .wRelocking => y.loc = .idle
  | .wRet => y.loc = .idle
  | _ => False

/-- What every step of the wait keeps (until the return). -/
def WKeep (x y : Thr) : Prop :=
  (x.loc ≠ .wNew → y.loc ≠ .idle → y.r = x.r) ∧
  (y.loc ≠ .idle → y.dl = x.dl ∧ y.note = x.note) ∧
  (x.loc ≠ .wHead → y.loc ≠ .idle → y.exitUnl = x.exitUnl) ∧
  (x.semOut ≠ .ok → x.loc ≠ .cPost → x.loc ≠ .cPre → x.loc ≠ .wSemRet → y.loc ≠ .idle →
    y.semOut = x.semOut)

theorem wkeep_refl (x : Thr) : WKeep x x :=
  ⟨fun _ _ => rfl, fun _ => ⟨rfl, rfl⟩, fun _ _ => rfl, fun _ _ _ _ _ => rfl⟩

theorem inWait_not_misc {x : Thr} (h : inWait x = true) :
    x.loc ≠ .idle ∧ x.loc ≠ .sLd ∧ x.loc.wakeB = false ∧ x.loc ≠ .nOut ∧ x.loc ≠ .nLocked ∧
    x.loc ≠ .nEnqRel ∧ x.loc ≠ .nDeqSt ∧ x.loc ≠ .nDeqRel ∧ x.loc ≠ .nDeqRelW ∧ x.loc ≠ .nDeqSpin ∧
    x.loc ≠ .dLd ∧ x.loc ≠ .dWalk ∧ x.loc ≠ .dRc ∧ x.loc ≠ .dRet ∧
    (x.loc.spinLoop = true → x.cont = .waitChk ∨ x.cont = .waitEnq) := by
  unfold inWait waitLive waitPrep at h
  cases hl : x.loc <;> simp_all [Loc.wakeB, Loc.spinLoop]

theorem b2n_zero {b : Bool} : b2n b = 0 ↔ b = false := by cases b <;> simp [b2n]

/-- Local transitions of a thread inside the wait. -/
theorem wait_ltr {s : State} {t : Tid} {e : Event} {x' : Thr} (h : LTr s t e x')
    (hw : inWait (s.thr t) = true) :
    ((x'.loc = (s.thr t).loc ∧ x'.cont = (s.thr t).cont ∧
        (e = .noteSeen t ∨ (s.thr t).loc.isOpen = true)) ∨
      WSucc (s.thr t) x' (s.recs (s.thr t).r).waiting
        (decide ((s.recs (s.thr t).r).rc = (s.thr t).saved)) (s.recs (s.thr t).r).unl) ∧
    WKeep (s.thr t) x' ∧ (x'.loc = .idle → ∃ res, e = .retWait t res) := by
  obtain ⟨n1, n2, n3, n4, n5, n6, n7, n8, n9, n10, n11, n12, n13, n14, n15⟩ := inWait_not_misc hw
  cases h with
  | retWait res hl hr =>
    rcases hl with hl | hl <;> simp [hl, WSucc, WKeep, Thr.fresh]
  | spinLd site obs hl ho =>
    have hsp : (s.thr t).loc.spinLoop = true := by
      rcases hl with ⟨_, hl⟩ | ⟨_, hl⟩ <;> simp [hl, Loc.spinLoop]
    refine ⟨.inr ?_, ?_⟩
    · rcases hl with ⟨_, hl⟩ | ⟨_, hl⟩ <;> simp only [WSucc, hl] <;> left <;> split <;> simp [Loc.spinLoop]
    · split <;> simp [WKeep]
  | casFail exp new obs hl ho hne => simp [hl, WSucc, WKeep, Loc.spinLoop]
  | wwRelLd site obs hl => rcases hl with ⟨_, hl⟩ | ⟨_, hl⟩ <;> simp [hl, Loc.wakeB] at n3
  | noteSeen hl => exact ⟨.inl ⟨rfl, rfl, .inl rfl⟩, by simp [WKeep], fun h => by
      rcases hl with hl | hl | hl <;> simp [hl] at h⟩
  | wHeadStay r obs hl hr ho hz =>
    have hwt : (s.recs (s.thr t).r).waiting = true := by
      subst hr
      cases hb : (s.recs (s.thr t).r).waiting
      · rw [hb] at ho; simp [b2n] at ho; exact absurd ho hz
      · rfl
    refine ⟨.inr ?_, ?_⟩
    · simp only [WSucc, hl, hwt]
      by_cases hso : (s.thr t).semOut = .ok
      · simp only [hso, if_true]
        by_cases hn : (s.thr t).note = true <;> simp [hn]
      · simp [hso]
    · refine ⟨?_, ?_⟩
      · split <;> simp [WKeep, hl]
      · intro h; split at h
        · by_cases hn : (s.thr t).note = true <;> simp [hn] at h
        · simp at h
  | wChk y r obs hy hl hr ho hso =>
    have hyr := settle_r hy
    subst hr
    rw [hyr] at ho
    cases hy with
    | id h1 h2 =>
      refine ⟨.inr ?_, ?_⟩
      · simp only [WSucc, hl]
        by_cases hz : obs = 0
        · simp [hz, b2n_zero.mp (ho ▸ hz)]
        · have : (s.recs (s.thr t).r).waiting = true := by
            cases hb : (s.recs (s.thr t).r).waiting
            · rw [hb] at ho; simp [b2n] at ho; exact absurd ho hz
            · rfl
          simp [hz, this]
      · split <;> simp [WKeep]
    | pre h hn =>
      refine ⟨.inr ?_, ?_⟩
      · simp only [WSucc, h]; right; split <;> simp
      · split <;> simp [WKeep, h]
    | postOk h htm => simp at hso
    | postCancel h htm hc hn =>
      refine ⟨.inr ?_, ?_⟩
      · simp only [WSucc, h]; right; split <;> simp
      · split <;> simp [WKeep, h]
    | postTimed h htm hc hd =>
      refine ⟨.inr ?_, ?_⟩
      · simp only [WSucc, h]; right; split <;> simp
      · split <;> simp [WKeep, h]
  | wTail y r obs hy hl hr ho =>
    cases hy with
    | id h1 h2 => simp [hl, WSucc, WKeep]
    | pre h hn => simp at hl
    | postOk h htm => simp [h, WSucc, WKeep]
    | postCancel h htm hc hn => simp at hl
    | postTimed h htm hc hd => simp at hl
  | wChk2 r obs hl hr ho =>
    subst hr
    refine ⟨.inr ?_, by simp [WKeep], by intro h; by_cases hz : obs = 0 <;> simp [hz] at h⟩
    simp only [WSucc, hl]
    by_cases hz : obs = 0
    · simp [hz, b2n_zero.mp (ho ▸ hz)]
    · have : (s.recs (s.thr t).r).waiting = true := by
        cases hb : (s.recs (s.thr t).r).waiting
        · rw [hb] at ho; simp [b2n] at ho; exact absurd ho hz
        · rfl
      simp [hz, this]
  | wCmpNe r obs hl hr ho hne =>
    subst hr
    refine ⟨.inr ?_, by simp [WKeep], by simp⟩
    have : (s.recs (s.thr t).r).rc ≠ (s.thr t).saved := by rw [← ho]; exact hne
    simp [WSucc, hl, this]
  | noteNotify hl htm => simp [hl, WKeep, Loc.isOpen]
  | _ => simp_all [WSucc, WKeep, Thr.fresh, Loc.wakeB, Loc.spinLoop]

/-- Every step of a thread inside the wait. -/
theorem wait_step {cfg : Config} {s s' : State} {e : Event} {t : Tid}
    (hs : step cfg s e = .ok s') (ht : e.tid = some t) (hw : inWait (s.thr t) = true) :
    (((s'.thr t).loc = (s.thr t).loc ∧ (s'.thr t).cont = (s.thr t).cont ∧
        (e = .noteSeen t ∨ (s.thr t).loc.isOpen = true)) ∨
      WSucc (s.thr t) (s'.thr t) (s.recs (s.thr t).r).waiting
        (decide ((s.recs (s.thr t).r).rc = (s.thr t).saved)) (s.recs (s.thr t).r).unl) ∧
    WKeep (s.thr t) (s'.thr t) ∧ ((s'.thr t).loc = .idle → ∃ res, e = .retWait t res) := by
  obtain ⟨n1, n2, n3, n4, n5, n6, n7, n8, n9, n10, n11, n12, n13, n14, n15⟩ := inWait_not_misc hw
  have htr := step_tr hs
  cases htr with
  | same e h hna =>
    refine ⟨.inl ⟨rfl, rfl, ?_⟩, wkeep_refl _, fun h => absurd h n1⟩
    by_cases hn : e = .noteSeen t
    · exact .inl hn
    · cases ho : (s.thr t).loc.isOpen
      · exact absurd rfl (nonatomic_closed hs ht hna hn ho)
      · exact .inr rfl
  | tick ns h => simp [Event.tid] at ht
  | semOther e sem' h hopen =>
    exact ⟨.inl ⟨rfl, rfl, .inr (hopen t ht)⟩, wkeep_refl _, fun h => absurd h n1⟩
  | loc h =>
    rename_i t0 x'
    have := ltr_tid h
    rw [ht] at this; cases this
    simp only [setThr_thr, if_true]
    exact wait_ltr h hw
  | wInit t0 r h hm hst =>
    simp only [Event.tid, Option.some.injEq] at ht; subst ht
    exact ⟨.inl ⟨rfl, rfl, .inr h⟩, wkeep_refl _, fun h => absurd h n1⟩
  | nwInit t0 r h hm hst =>
    simp only [Event.tid, Option.some.injEq] at ht; subst ht
    exact absurd h n4
  | fStW t0 r new h hf =>
    simp only [Event.tid, Option.some.injEq] at ht; subst ht
    exact ⟨.inl ⟨rfl, rfl, .inr h⟩, wkeep_refl _, fun h => absurd h n1⟩
  | fCasOk t0 r exp new obs h hf hn ho he =>
    simp only [Event.tid, Option.some.injEq] at ht; subst ht
    exact ⟨.inl ⟨rfl, rfl, .inr h⟩, wkeep_refl _, fun h => absurd h n1⟩
  | acq t0 exp new obs o n hl hexp hw' he ho hn hnew =>
    simp only [Event.tid, Option.some.injEq] at ht; subst ht
    have hc := n15 (by simp [hl, Loc.spinLoop])
    unfold afterAcquire
    rcases hc with hc | hc <;> simp [hc, hl, WSucc, WKeep]
  | wHeadExit t0 r y hy hl hr hw' =>
    simp only [Event.tid, Option.some.injEq] at ht; subst ht
    subst hy; subst hr
    simp [hl, hw', WSucc, WKeep]
  | wCmpEq t0 r obs hl hr ho he =>
    simp only [Event.tid, Option.some.injEq] at ht; subst ht
    subst hr
    have : (s.recs (s.thr t0).r).rc = (s.thr t0).saved := by rw [← ho]; exact he
    simp [hl, this, WSucc, WKeep]
  | wwCasOk t0 exp new obs f rest hl hlist =>
    simp only [Event.tid, Option.some.injEq] at ht; subst ht
    simp [hl, Loc.wakeB] at n3
  | _ =>
    simp only [Event.tid, Option.some.injEq] at ht
    replace ht := ht.symm
    subst ht
    first
      | (simp_all [WSucc, WKeep, Loc.wakeB]; done)
      | (split <;> simp_all [WSucc, WKeep, Loc.wakeB])

end NsyncVerif.CvFix
