/-
  Layer `CvFix` (cv.c with the repair of F3; adapted from the `Cv` file of the same name): every record a step of cv.c touches is registered with the acting thread (C13).
-/
import NsyncVerif.Proofs.CvFixFacts

namespace NsyncVerif.CvFix

theorem settle_r {x y : Thr} (h : Settle x y) : y.r = x.r := by cases h <;> rfl

theorem settle_live {x y : Thr} (h : Settle x y) (hl : y.loc = .wChk ∨ y.loc = .wTail) : waitLive x = true := by
  cases h with
  | id h1 h2 => rcases hl with hl | hl <;> simp [waitLive, hl]
  | pre h _ => simp [waitLive, h]
  | postOk h _ => simp [waitLive, h]
  | postCancel h _ _ _ => simp [waitLive, h]
  | postTimed h _ _ _ => simp [waitLive, h]

/-- A record (of any kind) touched by cv.c code of a thread that is not its owner is in the queue
    or on the acting thread's private list.  (The V of wake_waiters no longer touches the record:
    there is no third case.) -/
def TouchOK (s : State) (u : Tid) (r : Rid) : Prop :=
  r ∈ s.queue ∨ r ∈ (s.thr u).list

theorem touch_ltr {s : State} {t : Tid} {e : Event} {x' : Thr} (hi : Inv s) (h : LTr s t e x') (r : Rid)
    (hr : r ∈ touches s e) (ho : (s.recs r).owner ≠ t) : TouchOK s t r := by
  have ha := hi.a.thr t
  have hb := hi.b.thr t
  cases h with
  | wRc r' obs hl hr' ho' =>
    simp [touches, hl] at hr; subst hr; subst hr'
    exact absurd (ha.live (by simp [waitLive, hl])).1 ho
  | wHeadStay r' obs hl hr' ho' hz =>
    simp [touches, hl] at hr; subst hr; subst hr'
    exact absurd (ha.live (by simp [waitLive, hl])).1 ho
  | wChk y r' obs hy hl hr' ho' hso =>
    have : touches s (.recLd t .wChk r' obs) = [r'] := by simp [touches]
    rw [this] at hr; simp at hr; subst hr; subst hr'
    rw [settle_r hy] at ho
    exact absurd (ha.live (settle_live hy (.inl hl))).1 ho
  | wChk2 r' obs hl hr' ho' =>
    simp [touches, hl] at hr; subst hr; subst hr'
    exact absurd (ha.live (by simp [waitLive, hl])).1 ho
  | wCmpNe r' obs hl hr' ho' hne =>
    simp [touches, hl] at hr
    rcases hr with hr | hr
    · subst hr; subst hr'
      exact absurd (ha.live (by simp [waitLive, hl])).1 ho
    · exact .inl hr
  | wRmLd r' obs hl hr' ho' =>
    simp [touches, hl] at hr; subst hr; subst hr'
    exact absurd (ha.live (by simp [waitLive, hl])).1 ho
  | wTail y r' obs hy hl hr' ho' =>
    have : touches s (.recLd t .wTail r' obs) = [r'] := by simp [touches]
    rw [this] at hr; simp at hr; subst hr; subst hr'
    rw [settle_r hy] at ho
    exact absurd (ha.live (settle_live hy (.inr hl))).1 ho
  | rcLd site r' obs hl hs hr' ho' =>
    have : touches s (.recLd t site r' obs) = [r'] := by
      rcases hs with ⟨rfl, _⟩ | ⟨rfl, _⟩ <;> simp [touches, hl]
    rw [this] at hr; simp at hr; subst hr
    have : r ∈ (s.thr t).todo := by
      cases htd : (s.thr t).todo with
      | nil => rw [htd] at hr'; simp at hr'
      | cons a l => rw [htd] at hr'; simp at hr'; subst hr'; simp
    exact .inr (hb.todoL r this).1
  | ready r' obs hl hr' ho' =>
    simp [touches, hl] at hr; subst hr
    exact absurd (ha.mine r hr').2.1 ho
  | deqLd0 r' hl hr' ho' =>
    simp [touches, hl] at hr; subst hr
    exact absurd (ha.mine r hr').2.1 ho
  | deqLdGone r' obs hl hr' hw hq =>
    simp only [touches, hl] at hr
    split at hr
    · simp at hr; subst hr; exact absurd (ha.mine r hr').2.1 ho
    · simp at hr
      rcases hr with hr | hr
      · subst hr; exact absurd (ha.mine r hr').2.1 ho
      · exact .inl hr
  | deqSpinStay r' obs hl hr' hw =>
    simp [touches, hl] at hr; subst hr; subst hr'
    exact absurd (ha.mine _ (ha.nSpin (.inr hl)).1).2.1 ho
  | wRmCasFail r' exp new obs hl hr' =>
    simp [touches] at hr; subst hr; subst hr'
    exact absurd (ha.live (by simp [waitLive, hl])).1 ho
  | sRcCasFail site r' exp new obs hl hr' =>
    simp [touches] at hr; subst hr
    have : r ∈ (s.thr t).todo := by
      cases htd : (s.thr t).todo with
      | nil => rw [htd] at hr'; simp at hr'
      | cons a l => rw [htd] at hr'; simp at hr'; subst hr'; simp
    exact .inr (hb.todoL r this).1
  | wwLd obs f rest hl hlist =>
    simp [touches, hlist] at hr; subst hr
    exact .inr (by rw [hlist]; simp)
  | wwRelLd site obs hl => rcases hl with ⟨rfl, _⟩ | ⟨rfl, _⟩ <;> simp [touches] at hr
  | dbgW r' obs hl hq hm ho' =>
    simp [touches, hl] at hr; subst hr
    exact .inl (List.mem_of_getElem? hq)
  | dbgRc r' obs hl hq ho' =>
    simp [touches, hl] at hr; subst hr
    exact .inl (List.mem_of_getElem? hq)
  | _ => simp [touches] at hr


theorem head_mem {l : List Rid} {r : Rid} (h : l.head? = some r) : r ∈ l := by
  cases l with
  | nil => simp at h
  | cons a b => simp at h; subst h; simp

/-- Every record touched by a step of cv.c whose actor is not the record's owner (owner taken
    AFTER the step: the first store of a wait makes the actor the owner) is registered. -/
theorem touch_registered {cfg : Config} {s s' : State} {e : Event} (hi : Inv s) (h : Tr cfg s e s')
    (r : Rid) (hr : r ∈ touches s e) (u : Tid) (hu : e.tid = some u)
    (ho : (s'.recs r).owner ≠ u) : TouchOK s u r := by
  cases h with
  | same e h => rw [h] at hr; cases hr
  | semOther e sem' h => rw [h] at hr; cases hr
  | tick ns h => simp [touches] at hr
  | loc h =>
    rename_i t x'
    have : u = t := by cases h <;> simp [Event.tid] at hu <;> exact hu.symm
    subst this
    exact touch_ltr hi h r hr (by simpa using ho)
  | acq t exp new obs o n hl hexp hw he ho' hn hnew =>
    simp [Event.tid] at hu; subst hu
    have hown : ((afterAcquire { s with word := n, holder := some t } t { s.thr t with old := o }).recs r).owner
        = (s.recs r).owner := by
      unfold afterAcquire
      split
      · simp; split <;> simp_all
      · simp
      · simp
      · simp
      · dsimp only; split <;> (split <;> rfl)
    rw [hown] at ho
    simp only [touches, if_true] at hr
    split at hr
    · rename_i hc
      simp at hr
      rcases hr with hr | hr
      · subst hr
        exact absurd ((hi.a.thr t).prep (by simp [waitPrep, hl, hc])).2.1 ho
      · exact .inl hr
    · rename_i hc
      split at hr
      · exact .inl hr
      · split at hr
        · cases hr
        · rename_i f rest hq
          split at hr
          · exact .inl hr
          · simp at hr; subst hr; exact .inl (by rw [hq]; simp)
    · cases hr
  | relWait t new obs n hl hh hnew hn hsp => simp [touches] at hr
  | relWait2 t new obs n hl hh hnew hn hsp => simp [touches] at hr
  | relSig t site new obs n hl hs hh hnew hn hsp =>
    simp [Event.tid] at hu; subst hu
    have : touches s (.wordSt t site new obs) = ((s.thr t).list.head?).toList := by
      rcases hs with ⟨rfl, _⟩ | ⟨rfl, _⟩ <;> simp [touches]
    rw [this] at hr
    simp at hr
    exact .inr (head_mem hr)
  | relEnq t new obs n hl hh hnew hn hsp => simp [touches] at hr
  | relDeq t new obs n hl hh hnew hn hsp => simp [touches] at hr
  | wHeadExit t r' y hy hl hr' hw =>
    subst hy
    simp [Event.tid] at hu; subst hu
    simp [touches, hl] at hr; subst hr; subst hr'
    simp at ho
    exact absurd ((hi.a.thr t).live (by simp [waitLive, hl])).1 ho
  | wCmpEq t r' obs hl hr' ho' he =>
    simp [Event.tid] at hu; subst hu
    simp [touches, hl] at hr
    rcases hr with hr | hr
    · subst hr; subst hr'
      simp at ho
      exact absurd ((hi.a.thr t).live (by simp [waitLive, hl])).1 ho
    · exact .inl hr
  | deqLdQueued t r' obs hl hr' hw hst =>
    simp [Event.tid] at hu; subst hu
    have hown := ((hi.a.thr t).mine r' hr').2.1
    simp only [touches, hl] at hr
    split at hr
    · simp at hr; subst hr
      have ho2 : (s.recs r).owner ≠ t := by simpa using ho
      exact absurd hown ho2
    · simp at hr
      rcases hr with hr | hr
      · subst hr
        have ho2 : (s.recs r).owner ≠ t := by simpa using ho
        exact absurd hown ho2
      · exact .inl hr
  | relDeqW t new obs n hl hh hnew hn hsp => simp [touches] at hr
  | relDbg t new obs n hl hh hnew hn hsp => simp [touches] at hr; exact .inl hr
  | deqSpinExit t r' hl hr' hw =>
    simp [Event.tid] at hu; subst hu
    simp [touches] at hr; subst hr; subst hr'
    have := ((hi.a.thr t).mine _ ((hi.a.thr t).nSpin (.inr hl)).1).2.1
    have ho2 : (s.recs (s.thr t).r).owner ≠ t := by simpa using ho
    exact absurd this ho2
  | wSt1 t r' obs hl hm hst =>
    simp [Event.tid] at hu; subst hu
    simp [touches] at hr; subst hr
    simp at ho
  | wClr t r' obs hl hr' =>
    simp [Event.tid] at hu; subst hu
    simp [touches] at hr; subst hr; subst hr'
    simp at ho
    exact absurd ((hi.a.thr t).live (by simp [waitLive, hl])).1 ho
  | wake t r' obs hl hr' =>
    simp [Event.tid] at hu; subst hu
    simp [touches] at hr
    rcases hr with hr | hr
    · subst hr; exact .inr (head_mem hr')
    · exact .inr hr
  | enqSt t r' obs hl hm hst ho' he =>
    simp [Event.tid] at hu; subst hu
    simp [touches] at hr
    rcases hr with hr | hr
    · subst hr
      have ho2 : (s.recs r).owner ≠ t := by simpa using ho
      exact absurd ho' ho2
    · exact .inl hr
  | deqSt t r' obs hl hr' =>
    simp [Event.tid] at hu; subst hu
    simp [touches] at hr; subst hr; subst hr'
    have := ((hi.a.thr t).mine _ ((hi.a.thr t).nDeq (.inl hl)).1).2.1
    have ho2 : (s.recs (s.thr t).r).owner ≠ t := by simpa using ho
    exact absurd this ho2
  | wRmCasOk t r' exp new obs hl hr' hn ho' he =>
    simp [Event.tid] at hu; subst hu
    simp [touches] at hr; subst hr; subst hr'
    simp at ho
    exact absurd ((hi.a.thr t).live (by simp [waitLive, hl])).1 ho
  | sRcCasOk t site r' exp new obs hl hr' hn ho' he =>
    simp [Event.tid] at hu; subst hu
    simp [touches] at hr; subst hr
    exact .inr ((hi.b.thr t).todoL r (head_mem hr')).1
  | muMode t obs lt hl hlt => simp [touches] at hr
  | wwCasOk t exp new obs f rest hl hlist =>
    simp [Event.tid] at hu; subst hu
    simp [touches] at hr
    exact .inr hr
  | semVWake t k r' q hl hc => simp [touches] at hr
  | semPdRetOkW t k hl => simp [touches] at hr
  | semPdRetOkC t k hl => simp [touches] at hr
  | wInit t r' hl hm hst => simp [touches] at hr
  | nwInit t r' hl hm hst => simp [touches] at hr
  | fStW t r' new hl hf => simp [touches] at hr
  | fCasOk t r' exp new obs hl hf hn ho' he => simp [touches] at hr


/-- The memory of a stack / heap `nsync_waiter_s` of nsync_wait_n is valid: the call of its owner
    that created it has not returned. -/
def alive (s : State) (r : Rid) : Bool :=
  decide ((s.recs r).epoch = (s.thr (s.recs r).owner).epoch) && inWaitN (s.thr (s.recs r).owner)

end NsyncVerif.CvFix
