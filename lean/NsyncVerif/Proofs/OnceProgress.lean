/-
  Layer `Once`: progress (deadlock freedom).  In every reachable state each thread inside
  run_once either has an accepted next event of its own, or waits for a slot lock whose holder
  has one.  (Fair termination on top of this is a paper argument: a lock holder never blocks,
  every pc sequence is finite except the wait loop, and the wait loop exits once the word is 2.)
-/
import NsyncVerif.Proofs.OnceFacts

namespace Once

/-- The event the C code performs next from the pc of thread `t` (reads see the model memory;
    the cv wait may return for any reason, `0` is chosen). -/
def nextEvent (cfg : Config) (s : State) (t : Tid) : Option Event :=
  match s.pc t with
  | .idle => none
  | .outerLd f => some (.ld t (.outer f.blocking f.arg) .acq f.o (s.word f.o))
  | .implLd f => some (.ld t .impl .acq f.o (s.word f.o))
  | .lock1Call f _ => some (.muLockCall t (cfg.slotOf f.o))
  | .lock1Ret _ _ => some (.muLockRet t)
  | .casTry f => some (.cas t .impl .acq f.o 0 1 (s.word f.o) (decide (s.word f.o = 0)))
  | .casReload f => some (.ld t .impl .rlx f.o (s.word f.o))
  | .wUnlockCall f => some (.muUnlockCall t (cfg.slotOf f.o))
  | .wUnlockRet _ => some (.muUnlockRet t)
  | .wCbStart f => some (.cbStart t f.arg)
  | .wCbEnd f => some (.cbEnd t f.arg)
  | .wLockCall f => some (.muLockCall t (cfg.slotOf f.o))
  | .wLockRet _ => some (.muLockRet t)
  | .wBcastCall f => some (.cvBroadcastCall t (cfg.slotOf f.o))
  | .wBcastRet _ => some (.cvBroadcastRet t)
  | .wStore f => some (.st t .impl .rel f.o 2 (s.word f.o))
  | .waitLd f => some (.ld t .impl .acq f.o (s.word f.o))
  | .cvWaitCall f => some (.cvWaitCall t (cfg.slotOf f.o) (cfg.slotOf f.o))
  | .cvWaitRet _ => some (.cvWaitRet t false)
  | .fUnlockCall f => some (.muUnlockCall t (cfg.slotOf f.o))
  | .fUnlockRet _ => some (.muUnlockRet t)
  | .readyRet f => some (.ret t f.blocking f.arg)

/-- Thread is at a lock acquisition (`ret nsync_mu_lock` / `ret nsync_cv_wait…` pending) for
    slot `k`. -/
def PC.LockWait (cfg : Config) : PC → SlotId → Prop
  | .lock1Ret f _, k | .wLockRet f, k | .cvWaitRet f, k => cfg.slotOf f.o = k
  | _, _ => False

/-- Thread `t` has an own event that the acceptor takes in `s`. -/
def Enabled (cfg : Config) (s : State) (t : Tid) : Prop :=
  ∃ e s', e.tid = some t ∧ step cfg s e = .ok s'

/-- A thread inside run_once whose awaited slot lock (if any) is free can take its next step. -/
theorem enabled_of_lock_free {cfg s t} (hi : Inv cfg s) (hpc : s.pc t ≠ .idle)
    (hfree : ∀ k, (s.pc t).LockWait cfg k → s.lockHolder k = none) : Enabled cfg s t := by
  have hb := hi.blk t
  have hh := hi.held
  cases hp : s.pc t with
  | idle => exact absurd hp hpc
  | _ =>
    all_goals
      simp only [hp, PC.LockWait, PC.BlockingOnly] at hfree hb
      have hh' := fun k => hh k t
      simp only [hp, PC.Holds] at hh'
      refine ⟨(nextEvent cfg s t).get (by simp [nextEvent, hp]), ?_⟩
      simp [nextEvent, hp, step, need, Event.tid, hfree, hb, hh']
      try (split <;> exact ⟨_, rfl⟩)

/-- A thread that holds a slot lock is never blocked: its next step is always accepted. -/
theorem enabled_of_holds {cfg s u k} (hi : Inv cfg s) (hl : s.lockHolder k = some u) :
    Enabled cfg s u := by
  have hH := hi.lock k u hl
  apply enabled_of_lock_free hi
  · intro h; simp [h, PC.Holds] at hH
  · intro k' hw
    cases hp : s.pc u <;> simp [hp, PC.Holds, PC.LockWait] at hH hw

/-- Deadlock freedom of run_once, for any number of threads, once objects and any hashing. -/
theorem progress {cfg s t} (hi : Inv cfg s) (hpc : s.pc t ≠ .idle) :
    Enabled cfg s t ∨
    ∃ k u, (s.pc t).LockWait cfg k ∧ s.lockHolder k = some u ∧ u ≠ t ∧ Enabled cfg s u := by
  by_cases hfree : ∀ k, (s.pc t).LockWait cfg k → s.lockHolder k = none
  · exact .inl (enabled_of_lock_free hi hpc hfree)
  · right
    simp only [Classical.not_forall] at hfree
    obtain ⟨k, hw, hk⟩ := hfree
    cases hl : s.lockHolder k with
    | none => exact absurd hl hk
    | some u =>
      refine ⟨k, u, hw, hl, ?_, enabled_of_holds hi hl⟩
      intro hut
      subst hut
      have hH := hi.lock k u hl
      cases hp : s.pc u <;> simp [hp, PC.Holds, PC.LockWait] at hH hw

end Once
