import NsyncVerif.Proofs.MuCFairWit
/-
  MuC, fair termination: executable criteria for the hypotheses of `C06_fair_termination_full` on a lasso (a finite
  accepted trace followed by a loop repeated for ever), for the necessity witnesses of Props/C06Fair.lean.
-/
namespace NsyncVerif.MuC

variable {cfg : Cfg} {evs loop : List Event} {sf : State}

theorem lasso_head (h : run cfg init evs = .ok sf) (hl : run cfg sf loop = .ok sf) (hp : 0 < loop.length) {j : Nat}
    (hj : j < evs.length) :
    (lassoExec cfg evs loop sf h hl hp).ρ j = stateAt cfg evs j ∧ (lassoExec cfg evs loop sf h hl hp).σ j = evs[j]? := by
  simp [lassoExec, hj]

/-- A state check that holds along the trace and along the loop holds at every time of the lasso. -/
theorem lasso_all (h : run cfg init evs = .ok sf) (hl : run cfg sf loop = .ok sf) (hp : 0 < loop.length)
    (f : State → Bool) (h1 : allStates cfg f init evs = true) (h2 : allStates cfg f sf loop = true) (j : Nat) :
    f ((lassoExec cfg evs loop sf h hl hp).ρ j) = true := by
  by_cases hj : j < evs.length
  · rw [(lasso_head h hl hp hj).1]; exact allStates_stateAt h h1 j
  · rw [(lassoExec_tail h hl hp (by omega)).1]
    exact allStates_take loop sf h2 _ _ (stateFrom_ok hl _)

theorem untouched_loop (h : run cfg init evs = .ok sf) (hl : run cfg sf loop = .ok sf) {T : Nat}
    (hT : tidsBelow T evs = true) (hT2 : tidsBelow T loop = true) {t : Tid} (ht : ¬ t < T) (r : Nat) :
    (stateFrom cfg sf (loop.take r)).pc t = .idle ∧ (stateFrom cfg sf (loop.take r)).held t = none := by
  have hne : ∀ e ∈ loop.take r, e.tid ≠ some t := by
    intro e he htid
    simp only [tidsBelow, List.all_eq_true] at hT2
    have := hT2 e (List.mem_of_mem_take he)
    rw [htid] at this
    exact ht (by simpa using this)
  obtain ⟨a, b⟩ := run_untouched (loop.take r) sf _ hne (stateFrom_ok hl r)
  have := untouched_stateAt h hT ht evs.length
  rw [stateAt_ge h (Nat.le_refl _)] at this
  exact ⟨by rw [a]; exact this.1, by rw [b]; exact this.2⟩

/-- Threads that occur neither in the trace nor in the loop are idle holding nothing at all times. -/
theorem lasso_untouched (h : run cfg init evs = .ok sf) (hl : run cfg sf loop = .ok sf) (hp : 0 < loop.length) {T : Nat}
    (hT : tidsBelow T evs = true) (hT2 : tidsBelow T loop = true) {t : Tid} (ht : ¬ t < T) (j : Nat) :
    ((lassoExec cfg evs loop sf h hl hp).ρ j).pc t = .idle ∧ ((lassoExec cfg evs loop sf h hl hp).ρ j).held t = none := by
  by_cases hj : j < evs.length
  · rw [(lasso_head h hl hp hj).1]; exact untouched_stateAt h hT ht j
  · rw [(lassoExec_tail h hl hp (by omega)).1]; exact untouched_loop h hl hT hT2 ht _

/-- A per-thread check that holds along the trace and along the loop holds for every thread at every time. -/
theorem lasso_all_thr (h : run cfg init evs = .ok sf) (hl : run cfg sf loop = .ok sf) (hp : 0 < loop.length) {T : Nat}
    (hT : tidsBelow T evs = true) (hT2 : tidsBelow T loop = true) (g : State → Tid → Bool)
    (hidle : ∀ s t, s.pc t = .idle → s.held t = none → g s t = true)
    (h1 : allStates cfg (fun s => (List.range T).all (g s)) init evs = true)
    (h2 : allStates cfg (fun s => (List.range T).all (g s)) sf loop = true) (j : Nat) (t : Tid) :
    g ((lassoExec cfg evs loop sf h hl hp).ρ j) t = true := by
  by_cases ht : t < T
  · have := lasso_all h hl hp _ h1 h2 j
    simp only [List.all_eq_true, List.mem_range] at this
    exact this t ht
  · obtain ⟨a, b⟩ := lasso_untouched h hl hp hT hT2 ht j
    exact hidle _ _ a b

theorem lasso_note (h : run cfg init evs = .ok sf) (hl : run cfg sf loop = .ok sf) (hp : 0 < loop.length) {T : Nat}
    (hT : tidsBelow T evs = true) (hT2 : tidsBelow T loop = true)
    (h1 : allStates cfg (fun s => (List.range T).all (noteB s)) init evs = true)
    (h2 : allStates cfg (fun s => (List.range T).all (noteB s)) sf loop = true)
    (hns : (evs ++ loop).all (fun e => !e.isNoteSeen) = true) :
    NoteHonoured (lassoExec cfg evs loop sf h hl hp) := by
  refine ⟨?_, ?_⟩
  · intro j t c dl hpc
    have := lasso_all_thr h hl hp hT hT2 noteB (fun s t a _ => noteB_idle s t a) h1 h2 j t
    simpa [noteB, hpc] using this
  · intro j t c _ _ hσ
    have hmem : Event.noteSeen t ∈ evs ++ loop := by
      by_cases hj : j < evs.length
      · rw [(lasso_head h hl hp hj).2] at hσ
        exact List.mem_append_left _ (List.mem_of_getElem? hσ)
      · rw [(lassoExec_tail h hl hp (by omega)).2] at hσ
        exact List.mem_append_right _ (List.mem_of_getElem? hσ)
    have := (List.all_eq_true.mp hns) _ hmem
    simp [Event.isNoteSeen] at this

theorem lasso_contract (h : run cfg init evs = .ok sf) (hl : run cfg sf loop = .ok sf) (hp : 0 < loop.length)
    (h1 : allStates cfg (fun s => !s.nwViol) init evs = true) (h2 : allStates cfg (fun s => !s.nwViol) sf loop = true) :
    ContractKept (lassoExec cfg evs loop sf h hl hp) := by
  intro j
  have := lasso_all h hl hp _ h1 h2 j
  show ((lassoExec cfg evs loop sf h hl hp).ρ j).nwViol = false
  simpa using this

theorem lasso_clock (h : run cfg init evs = .ok sf) (hl : run cfg sf loop = .ok sf) (hp : 0 < loop.length) {T : Nat}
    (hT : tidsBelow T evs = true) (hT2 : tidsBelow T loop = true)
    (h1 : allStates cfg (fun s => (List.range T).all (clockB s)) init evs = true)
    (h2 : allStates cfg (fun s => (List.range T).all (clockB s)) sf loop = true) :
    ClockAdvances (lassoExec cfg evs loop sf h hl hp) := by
  intro t i c d hpc
  have := lasso_all_thr h hl hp hT hT2 clockB (fun s t a _ => clockB_idle s t a) h1 h2 i t
  refine ⟨i, Nat.le_refl _, Or.inl ?_⟩
  simpa [clockB, hpc] using this

def heldNoneB (s : State) (t : Tid) : Bool := decide (s.held t = none)

/-- Nobody holds the mutex along the loop: holders release. -/
theorem lasso_release (h : run cfg init evs = .ok sf) (hl : run cfg sf loop = .ok sf) (hp : 0 < loop.length) {T : Nat}
    (hT : tidsBelow T evs = true) (hT2 : tidsBelow T loop = true)
    (h2 : allStates cfg (fun s => (List.range T).all (heldNoneB s)) sf loop = true) :
    HoldersRelease (lassoExec cfg evs loop sf h hl hp) := by
  apply holdersRelease_of_quiescent _ (reachable_init cfg) evs.length
  intro j hj t
  rw [(lassoExec_tail h hl hp hj).1]
  by_cases ht : t < T
  · have := allStates_take loop sf h2 _ _ (stateFrom_ok hl ((j - evs.length) % loop.length))
    simp only [List.all_eq_true, List.mem_range, heldNoneB, decide_eq_true_eq] at this
    exact this t ht
  · exact (untouched_loop h hl hT hT2 ht _).2

/-- Every event of the loop satisfies `p`: so does every event of the lasso from the end of the trace on. -/
theorem lasso_events (h : run cfg init evs = .ok sf) (hl : run cfg sf loop = .ok sf) (hp : 0 < loop.length)
    (p : Event → Bool) (hall : loop.all p = true) {j : Nat} (hj : evs.length ≤ j) {e : Event}
    (he : (lassoExec cfg evs loop sf h hl hp).σ j = some e) : p e = true := by
  rw [(lassoExec_tail h hl hp hj).2] at he
  exact (List.all_eq_true.mp hall) e (List.mem_of_getElem? he)

/-- The loop position `r` comes round again and again. -/
theorem lasso_pos (hp : 0 < loop.length) (i : Nat) {r : Nat} (hr : r < loop.length) :
    ∃ j, i ≤ j ∧ evs.length ≤ j ∧ (j - evs.length) % loop.length = r :=
  ⟨evs.length + loop.length * i + r, by
    have : i ≤ loop.length * i := Nat.le_mul_of_pos_left i hp
    omega, by omega, by
    rw [show evs.length + loop.length * i + r - evs.length = r + loop.length * i by omega, Nat.add_mul_mod_self_left]
    exact Nat.mod_eq_of_lt hr⟩

/-- Thread `u` moves at loop position `r0`; every other thread is idle or asleep all along the loop: weakly fair. -/
theorem lasso_weakFair (h : run cfg init evs = .ok sf) (hl : run cfg sf loop = .ok sf) (hp : 0 < loop.length) {T : Nat}
    (hT : tidsBelow T evs = true) (hT2 : tidsBelow T loop = true) (u : Tid) {r0 : Nat} {e0 : Event}
    (hr0 : loop[r0]? = some e0) (hu : e0.tid = some u) (hd : e0.isData = false)
    (h2 : allStates cfg (fun s => (List.range T).all (fun t => decide (t = u) || decide (s.pc t = .idle) || asleepSemB s t))
      sf loop = true) :
    WeakFair (lassoExec cfg evs loop sf h hl hp) := by
  intro t i hne
  by_cases htu : t = u
  · subst htu
    have hr : r0 < loop.length := by
      apply Classical.byContradiction; intro hge
      rw [List.getElem?_eq_none (by omega)] at hr0; cases hr0
    obtain ⟨j, h1, h2', h3⟩ := lasso_pos (evs := evs) hp i hr
    exact ⟨j, e0, h1, by rw [(lassoExec_tail h hl hp h2').2, h3]; exact hr0, hu, hd⟩
  · exfalso
    have hj : evs.length ≤ max i evs.length := by omega
    obtain ⟨a, b⟩ := hne (max i evs.length) (by omega)
    rw [(lassoExec_tail h hl hp hj).1] at a b
    by_cases ht : t < T
    · have := allStates_take loop sf h2 _ _ (stateFrom_ok hl ((max i evs.length - evs.length) % loop.length))
      simp only [List.all_eq_true, List.mem_range, Bool.or_eq_true, decide_eq_true_eq] at this
      rcases this t ht with (c | c) | c
      · exact htu c
      · exact a c
      · exact b ((asleepSemB_iff _ _).1 c)
    · exact a (untouched_loop h hl hT hT2 ht _).1

/-- A state check that holds along the trace from position `n` on and along the loop holds at every time `≥ n`. -/
theorem lasso_from (h : run cfg init evs = .ok sf) (hl : run cfg sf loop = .ok sf) (hp : 0 < loop.length)
    (f : State → Bool) (n : Nat) (h1 : allStates cfg f (stateAt cfg evs n) (evs.drop n) = true)
    (h2 : allStates cfg f sf loop = true) (j : Nat) (hj : n ≤ j) :
    f ((lassoExec cfg evs loop sf h hl hp).ρ j) = true := by
  by_cases hlt : j < evs.length
  · rw [(lasso_head h hl hp hlt).1]; exact allStates_from h n h1 j hj
  · rw [(lassoExec_tail h hl hp (by omega)).1]
    exact allStates_take loop sf h2 _ _ (stateFrom_ok hl _)

theorem setPc_setPc_self {s : State} {t : Tid} {p1 p2 : PC} (h : s.pc t = p2) :
    setPc (setPc s t p1) t p2 = s := by
  cases s
  simp only [setPc, State.mk.injEq, true_and, and_true] at h ⊢
  funext u
  simp only [setFn]
  split
  · rename_i hu; subst hu; exact h.symm
  · rfl

/-- Every thread below `T` either moves somewhere in the loop or is idle or asleep all along the loop: weakly fair. -/
theorem lasso_weakFairB (h : run cfg init evs = .ok sf) (hl : run cfg sf loop = .ok sf) (hp : 0 < loop.length) {T : Nat}
    (hT : tidsBelow T evs = true) (hT2 : tidsBelow T loop = true)
    (h2 : (List.range T).all (fun t => loop.any (fun e => decide (e.tid = some t) && !e.isData) ||
      allStates cfg (fun s => decide (s.pc t = .idle) || asleepSemB s t) sf loop) = true) :
    WeakFair (lassoExec cfg evs loop sf h hl hp) := by
  intro t i hne
  have hstuck : (∀ r, (stateFrom cfg sf (loop.take r)).pc t = .idle ∨ AsleepOnSem (stateFrom cfg sf (loop.take r)) t) → False := by
    intro hs
    have hj : evs.length ≤ max i evs.length := by omega
    obtain ⟨a, b⟩ := hne (max i evs.length) (by omega)
    rw [(lassoExec_tail h hl hp hj).1] at a b
    rcases hs ((max i evs.length - evs.length) % loop.length) with c | c
    · exact a c
    · exact b c
  by_cases ht : t < T
  · simp only [List.all_eq_true, List.mem_range, Bool.or_eq_true] at h2
    rcases h2 t ht with c | c
    · obtain ⟨e0, hmem, he0⟩ := List.any_eq_true.mp c
      obtain ⟨r0, hr0⟩ := List.getElem?_of_mem hmem
      have hr : r0 < loop.length := by
        apply Classical.byContradiction; intro hge
        rw [List.getElem?_eq_none (by omega)] at hr0; cases hr0
      obtain ⟨j, h1, h2', h3⟩ := lasso_pos (evs := evs) hp i hr
      simp only [Bool.and_eq_true, decide_eq_true_eq, Bool.not_eq_true'] at he0
      exact ⟨j, e0, h1, by rw [(lassoExec_tail h hl hp h2').2, h3]; exact hr0, he0.1, he0.2⟩
    · exfalso
      apply hstuck
      intro r
      have := allStates_take loop sf c r _ (stateFrom_ok hl r)
      simp only [Bool.or_eq_true, decide_eq_true_eq] at this
      exact this.imp id (fun e => (asleepSemB_iff _ _).1 e)
  · exact (hstuck (fun r => Or.inl (untouched_loop h hl hT hT2 ht r).1)).elim

/-- Nobody holds the mutex at the head of the loop: every holder calls again. -/
theorem lasso_release_rec (h : run cfg init evs = .ok sf) (hl : run cfg sf loop = .ok sf) (hp : 0 < loop.length) {T : Nat}
    (hT : tidsBelow T evs = true) (h2 : (List.range T).all (heldNoneB sf) = true) :
    HoldersRelease (lassoExec cfg evs loop sf h hl hp) := by
  apply holdersRelease_of_recurrent _ (reachable_init cfg)
  intro i t
  obtain ⟨j, h1, h2', h3⟩ := lasso_pos (evs := evs) hp i (r := 0) hp
  refine ⟨j, h1, ?_⟩
  rw [(lassoExec_tail h hl hp h2').1, h3]
  have e : stateFrom cfg sf (loop.take 0) = sf := by simp [stateFrom, run]
  rw [e]
  by_cases ht : t < T
  · simp only [List.all_eq_true, List.mem_range, heldNoneB, decide_eq_true_eq] at h2
    exact h2 t ht
  · have := untouched_stateAt h hT ht evs.length
    rw [stateAt_ge h (Nat.le_refl _)] at this
    exact this.2

end NsyncVerif.MuC
