/-
  Proofs/WaitNFrame2.lean — what a step of thread u can do to objects whose lock it does not hold and to
  records outside its own frame.
-/
import NsyncVerif.Proofs.WaitNQ

set_option linter.unusedSimpArgs false
set_option linter.unusedVariables false

namespace WaitN

structure Frame2 (s s' : State) (u : Tid) : Prop where
  /-- an object whose lock u does not hold keeps its queue and its readiness -/
  obj : ∀ o, (s.obj o).known = true → (s.obj o).lock ≠ some u →
          (s'.obj o).queue = (s.obj o).queue ∧ wakeable o (s'.obj o) = wakeable o (s.obj o)
  /-- u can only acquire a free lock or release its own -/
  lock : ∀ o, (s'.obj o).lock = (s.obj o).lock ∨ ((s.obj o).lock = none ∧ (s'.obj o).lock = some u)
          ∨ ((s.obj o).lock = some u ∧ (s'.obj o).lock = none)
  /-- live records outside u's frame keep their identity and dequeue mark -/
  rcd : ∀ r, (s.rcd r).live = true →
          ((s'.rcd r).live = true ∧ (s'.rcd r).owner = (s.rcd r).owner ∧ (s'.rcd r).obj = (s.rcd r).obj
            ∧ (s'.rcd r).deqd = (s.rcd r).deqd)
          ∨ (r ∈ (s.fr u).recs ∧ inCall (s.pc u) = true ∧ (s.fr u).frees = 0)

theorem Frame2.refl (s : State) (u : Tid) : Frame2 s s u :=
  ⟨fun _ _ _ => ⟨rfl, rfl⟩, fun _ => .inl rfl, fun _ h => .inl ⟨h, rfl, rfl, rfl⟩⟩

theorem Frame2.of_eq {s s' : State} {u : Tid} (ho : s'.obj = s.obj) (hr : s'.rcd = s.rcd) : Frame2 s s' u := by
  refine ⟨fun o _ _ => by rw [ho]; exact ⟨rfl, rfl⟩, fun o => .inl (by rw [ho]), fun r h => .inl ?_⟩
  rw [hr]; exact ⟨h, rfl, rfl, rfl⟩

theorem Frame2.trans_eq {s s1 s2 : State} {u : Tid} (a : Frame2 s s1 u) (ho : s2.obj = s1.obj) (hr : s2.rcd = s1.rcd) :
    Frame2 s s2 u := by
  refine ⟨fun o h1 h2 => by rw [ho]; exact a.obj o h1 h2, fun o => by rw [ho]; exact a.lock o, fun r h => ?_⟩
  rw [hr]; exact a.rcd r h

macro "frame2_eq" : tactic => `(tactic| (apply Frame2.of_eq <;> (first | rfl | (simp; done))))

/-- explicit `s'`: the three goals after unfolding -/
macro "frame2_tac" : tactic =>
  `(tactic| (constructor <;> intros <;> (try simp at *) <;> (try split) <;> (try simp_all [wakeable, ObjId.isCv]) <;>
      (try (intro hx; subst hx; simp_all [wakeable, ObjId.isCv])) <;> (try grind)))

theorem frame2_bindSem {s s' : State} {u owner : Tid} {j : SemId} (h : bindSem s owner j = some s') : Frame2 s s' u := by
  unfold bindSem at h
  split_ok h
  all_goals (cases h; try first | exact Frame2.refl _ _ | frame2_eq)

theorem frame2_postSem {s s' : State} {u : Tid} {r : Rid} {j : SemId} (h : postSem s r j = some s') : Frame2 s s' u := by
  unfold postSem at h
  split at h
  · exact frame2_bindSem h
  · cases h; exact Frame2.refl _ _

theorem frame2_dflt {s s' : State} {u : Tid} {e : Ev} (h : dflt s u e = .ok s') : Frame2 s s' u := by
  have sh := shared_dflt h
  exact Frame2.of_eq sh.1 sh.2.1

theorem frame2_rtDone {s s' : State} {t : Tid} {u : Use} {i : Nat} {time : Deadline}
    (h : rtDone s t u i time = .ok s') : Frame2 s s' t := by
  have sh := shared_rtDone h
  exact Frame2.of_eq sh.1 sh.2.1

theorem frame2_deqDone {s s' : State} {t : Tid} {j : Nat} {res : Bool} (h : deqDone s t j res = .ok s') : Frame2 s s' t := by
  have sh := shared_deqDone h
  exact Frame2.of_eq sh.1 sh.2.1

theorem frame2_afterEnq {s s' : State} {t : Tid} {i : Nat} {res : Bool} (h : afterEnq s t i res = .ok s') : Frame2 s s' t := by
  have sh := shared_afterEnq h
  exact Frame2.of_eq sh.1 sh.2.1

theorem lock_none_of_even {o : Obj} (h : cvWord o % 2 = 0) : o.lock = none := by
  unfold cvWord at h
  cases hl : o.lock with
  | none => rfl
  | some t => rw [hl] at h; cases o.flag <;> simp [b2n] at h

theorem frame2_spinAcq {s s' : State} {t : Tid} {c : Nat} {st : SpinSt} {mk : SpinSt → PC} {done : PC} {e : Ev}
    (h : spinAcq s t c st mk done e = .ok s') : Frame2 s s' t := by
  unfold spinAcq at h
  split_ok h
  all_goals first
    | exact frame2_dflt h
    | (cases h; first | exact Frame2.refl _ _ | frame2_eq | (frame2_tac; done))
    | (rename_i hg hok
       cases h
       have hn : (s.obj (ObjId.cv c)).lock = none := lock_none_of_even (by
         obtain ⟨_, h2, h3, _, h5, h6⟩ := hok
         rw [hg] at h6
         have h7 := of_decide_eq_true h6.symm
         rw [← h5, h7, h2]; exact h3)
       frame2_tac)

macro "frame2_leaf" h:ident : tactic =>
  `(tactic| first
    | exact frame2_dflt $h
    | exact frame2_rtDone $h
    | exact frame2_deqDone $h
    | exact frame2_afterEnq $h
    | exact frame2_spinAcq $h
    | (cases $h:ident; first
        | exact Frame2.refl _ _
        | frame2_eq
        | (refine Frame2.trans_eq (frame2_postSem ‹postSem _ _ _ = some _›) ?_ ?_ <;> (first | rfl | (simp; done)))
        | (refine Frame2.trans_eq (frame2_bindSem ‹bindSem _ _ _ = some _›) ?_ ?_ <;> (first | rfl | (simp; done)))
        | (frame2_tac; done)))

theorem frame2_proto {s s' : State} {t : Tid} {e : Ev} (h : proto s t e = .ok s') : Frame2 s s' t := by
  unfold proto at h
  split_ok h <;> frame2_leaf h

theorem frame2_stepOpen {s s' : State} {t : Tid} {e : Ev} (h : stepOpen s t e = .ok s') : Frame2 s s' t := by
  unfold stepOpen at h
  split_ok h <;> first | exact frame2_proto h | frame2_leaf h

macro "frame2_leaf2" h:ident : tactic =>
  `(tactic| first
    | frame2_leaf $h
    | exact frame2_stepOpen $h
    | exact frame2_proto $h
    | (have hsh := shared_deqDone $h; refine Frame2.trans_eq (s1 := _) ?_ hsh.1 hsh.2.1; frame2_tac; done)
    | (have hsh := shared_afterEnq $h; refine Frame2.trans_eq (s1 := _) ?_ hsh.1 hsh.2.1; frame2_tac; done)
    | (have hsh := shared_rtDone $h; refine Frame2.trans_eq (s1 := _) ?_ hsh.1 hsh.2.1; frame2_tac; done)
    | (cases $h:ident; unfold startScan; frame2_eq))

theorem frame2_stepSg {s s' : State} {t : Tid} {c : Nat} {bc : Bool} {st : SgSt} {e : Ev}
    (h : stepSg s t c bc st e = .ok s') : Frame2 s s' t := by
  unfold stepSg at h
  split_ok h <;> frame2_leaf2 h

theorem frame2_stepCtrRT {s s' : State} {t : Tid} {u : Use} {i : Nat} {l : Bool} {e : Ev}
    (h : stepCtrRT s t u i l e = .ok s') : Frame2 s s' t := by
  unfold stepCtrRT at h
  split_ok h <;> frame2_leaf2 h

theorem frame2_stepND {s s' : State} {t : Tid} {u : Use} {i : Nat} {st : NDst} {e : Ev}
    (h : stepND s t u i st e = .ok s') : Frame2 s s' t := by
  unfold stepND at h
  split_ok h <;> frame2_leaf2 h

theorem frame2_stepEnqCv {s s' : State} {t : Tid} {i : Nat} {st : CvEnqSt} {e : Ev}
    (h : stepEnqCv s t i st e = .ok s') : Frame2 s s' t := by
  unfold stepEnqCv at h
  split_ok h <;> frame2_leaf2 h

theorem frame2_stepEnq {s s' : State} {t : Tid} {i : Nat} {st : EnqSt} {e : Ev}
    (h : stepEnq s t i st e = .ok s') : Frame2 s s' t := by
  unfold stepEnq at h
  split_ok h <;> frame2_leaf2 h

theorem frame2_stepAlloc {s s' : State} {t : Tid}  {e : Ev}
    (h : stepAlloc s t e = .ok s') : Frame2 s s' t := by
  unfold stepAlloc at h
  split_ok h <;> frame2_leaf2 h

theorem frame2_stepInit {s s' : State} {t : Tid} {i : Nat} {e : Ev}
    (h : stepInit s t i e = .ok s') : Frame2 s s' t := by
  unfold stepInit at h
  split_ok h <;> frame2_leaf2 h

theorem frame2_stepUnlockMu {s s' : State} {t : Tid}  {e : Ev}
    (h : stepUnlockMu s t e = .ok s') : Frame2 s s' t := by
  unfold stepUnlockMu at h
  split_ok h <;> frame2_leaf2 h

theorem frame2_stepCvRT {s s' : State} {t : Tid} {j : Nat} {e : Ev}
    (h : stepCvRT s t j e = .ok s') : Frame2 s s' t := by
  unfold stepCvRT at h
  split_ok h <;> frame2_leaf2 h

theorem frame2_stepPdEnter {s s' : State} {t : Tid}  {e : Ev}
    (h : stepPdEnter s t e = .ok s') : Frame2 s s' t := by
  unfold stepPdEnter at h
  split_ok h <;> frame2_leaf2 h

theorem frame2_stepPdWait {s s' : State} {t : Tid} {j : SemId} {e : Ev}
    (h : stepPdWait s t j e = .ok s') : Frame2 s s' t := by
  unfold stepPdWait at h
  split_ok h <;> frame2_leaf2 h

theorem frame2_stepRelock {s s' : State} {t : Tid}  {e : Ev}
    (h : stepRelock s t e = .ok s') : Frame2 s s' t := by
  unfold stepRelock at h
  split_ok h <;> frame2_leaf2 h

theorem frame2_stepIdle {s s' : State} {t : Tid}  {e : Ev}
    (h : stepIdle s t e = .ok s') : Frame2 s s' t := by
  unfold stepIdle at h
  split_ok h <;> frame2_leaf2 h


/-- records of the caller's own frame: the right disjunct of `Frame2.rcd` -/
theorem frame2_own_rec {s s' : State} {t : Tid} {r0 : Rid} (hc : inCall (s.pc t) = true) (hf : (s.fr t).frees = 0)
    (hr0 : r0 ∈ (s.fr t).recs)
    (hobj : ∀ o, (s.obj o).known = true → (s.obj o).lock ≠ some t →
          (s'.obj o).queue = (s.obj o).queue ∧ wakeable o (s'.obj o) = wakeable o (s.obj o))
    (hlock : ∀ o, (s'.obj o).lock = (s.obj o).lock ∨ ((s.obj o).lock = none ∧ (s'.obj o).lock = some t)
          ∨ ((s.obj o).lock = some t ∧ (s'.obj o).lock = none))
    (hrcd : ∀ r, r ≠ r0 → s'.rcd r = s.rcd r) : Frame2 s s' t := by
  refine ⟨hobj, hlock, fun r hl => ?_⟩
  by_cases hr : r = r0
  · subst hr; exact .inr ⟨hr0, hc, hf⟩
  · rw [hrcd r hr]; exact .inl ⟨hl, rfl, rfl, rfl⟩

theorem frame2_stepDeqCv {s s' : State} {t : Tid} {j : Nat} {st : CvDeqSt} {e : Ev}
    (hpc : s.pc t = .wDeqCv j st) (hl : LInv (.wDeqCv j st) (s.fr t))
    (h : stepDeqCv s t j st e = .ok s') : Frame2 s s' t := by
  have hc : inCall (s.pc t) = true := by rw [hpc]; rfl
  unfold stepDeqCv at h
  split_ok h
  all_goals first
    | frame2_leaf2 h
    | (have hsh := shared_deqDone h
       refine Frame2.trans_eq (s1 := _) ?_ hsh.1 hsh.2.1
       refine frame2_own_rec hc hl.1.frees (List.mem_of_getElem? ‹(s.fr t).recs[j]? = some _›) ?_ ?_ ?_
       · intro o hk hlk; simp <;> grind
       · intro o; simp <;> grind
       · intro r' hr'; simp [hr'])

theorem frame2_stepDeq {s s' : State} {t : Tid} {j : Nat} {st : DeqSt} {e : Ev}
    (hpc : s.pc t = .wDeq j st) (hl : LInv (.wDeq j st) (s.fr t))
    (h : stepDeq s t j st e = .ok s') : Frame2 s s' t := by
  have hc : inCall (s.pc t) = true := by rw [hpc]; rfl
  unfold stepDeq at h
  split_ok h
  all_goals first
    | frame2_leaf2 h
    | (cases h
       refine Frame2.trans_eq (s1 := (s.setObj _ _).setRec _ _) ?_ rfl rfl
       refine frame2_own_rec hc hl.1.frees (List.mem_of_getElem? ‹(s.fr t).recs[j]? = some _›) ?_ ?_ ?_
       · intro o hk hlk; simp; grind
       · intro o; simp; grind
       · intro r' hr'; simp [hr'])

theorem frame2_kill {s : State} {t : Tid} {l : List Rid} (hc : inCall (s.pc t) = true) (hf : (s.fr t).frees = 0)
    (hl : ∀ r ∈ l, r ∈ (s.fr t).recs) : Frame2 s (s.kill l) t := by
  refine ⟨fun _ _ _ => ⟨rfl, rfl⟩, fun _ => .inl rfl, fun r hlive => ?_⟩
  by_cases hr : r ∈ l
  · exact .inr ⟨hl r hr, hc, hf⟩
  · left; simp [hr, hlive]

theorem frame2_stepFree {s s' : State} {t : Tid} {e : Ev}
    (hpc : s.pc t = .wFree) (hl : LInv .wFree (s.fr t)) (h : stepFree s t e = .ok s') : Frame2 s s' t := by
  have hc : inCall (s.pc t) = true := by rw [hpc]; rfl
  unfold stepFree at h
  split_ok h
  all_goals first
    | frame2_leaf2 h
    | (cases h; exact Frame2.trans_eq (frame2_kill hc hl.1.frees (fun _ h => h)) rfl rfl)

theorem frame2_stepRet {s s' : State} {t : Tid} {r : Nat} {e : Ev}
    (hpc : s.pc t = .wRet r) (hl : LInv (.wRet r) (s.fr t)) (h : stepRet s t r e = .ok s') : Frame2 s s' t := by
  have hc : inCall (s.pc t) = true := by rw [hpc]; rfl
  unfold stepRet at h
  dsimp only at h
  split at h
  · split at h
    · cases h
      by_cases hh : (s.fr t).heap.isSome = true
      · simp only [hh, if_true]
        exact Frame2.trans_eq (s1 := s.kill []) (Frame2.of_eq rfl (by funext r; simp)) rfl rfl
      · simp only [hh, if_false]
        exact Frame2.trans_eq (frame2_kill hc (frees_of_linv_ret hl (by simpa using hh)) (fun _ h => h)) rfl rfl
    · simp at h
  · exact frame2_dflt h

theorem frame2_stepThr {s s' : State} {t : Tid} {e : Ev} (hl : LInv (s.pc t) (s.fr t))
    (h : stepThr s t e = .ok s') : Frame2 s s' t := by
  unfold stepThr at h
  split at h <;> rename_i hpc
  · exact frame2_stepIdle h
  · simp at h
  · exact frame2_stepSg h
  · exact frame2_stepCtrRT h
  · exact frame2_stepND h
  · exact frame2_stepEnqCv h
  · exact frame2_stepEnq h
  · exact frame2_stepDeqCv hpc (hpc ▸ hl) h
  · exact frame2_stepDeq hpc (hpc ▸ hl) h
  · exact frame2_stepAlloc h
  · exact frame2_stepInit h
  · exact frame2_stepUnlockMu h
  · exact frame2_stepCvRT h
  · exact frame2_stepPdEnter h
  · exact frame2_stepPdWait h
  · exact frame2_stepFree hpc (hpc ▸ hl) h
  · exact frame2_stepRelock h
  · exact frame2_stepRet hpc (hpc ▸ hl) h

end WaitN
