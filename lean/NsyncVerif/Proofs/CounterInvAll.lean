/- Proofs/CounterInvAll.lean — Reachable → Inv. -/
import NsyncVerif.Proofs.CounterStepA
import NsyncVerif.Proofs.CounterStepB
import NsyncVerif.Proofs.CounterStepC
import NsyncVerif.Proofs.CounterStepD
import NsyncVerif.Proofs.CounterStepE
import NsyncVerif.Proofs.CounterStepM
import NsyncVerif.Proofs.CounterStepN

namespace Counter

theorem inv_stepThr {s s' : State} {t : Tid} {e : Ev} (hi : Inv s) (h : stepThr s t e = .ok s') : Inv s' := by
  cases hpc : s.pc t with
  | idle  => exact inv_idle hi hpc h
  | newMalloc a0 => exact inv_newMalloc hi hpc h
  | newStore a0 => exact inv_newStore hi hpc h
  | newRet a0 => exact inv_newRet hi hpc h
  | fLockCall  => exact inv_fLockCall hi hpc h
  | fLockWait  => exact inv_fLockWait hi hpc h
  | fHeld  => exact inv_fHeld hi hpc h
  | fUnlockWait  => exact inv_fUnlockWait hi hpc h
  | fFree  => exact inv_fFree hi hpc h
  | fRet  => exact inv_fRet hi hpc h
  | valLoad  => exact inv_valLoad hi hpc h
  | valRet a0 => exact inv_valRet hi hpc h
  | azLoad  => exact inv_azLoad hi hpc h
  | azRet a0 => exact inv_azRet hi hpc h
  | aLockCall a0 => exact inv_aLockCall hi hpc h
  | aLockWait a0 => exact inv_aLockWait hi hpc h
  | aLoad a0 => exact inv_aLoad hi hpc h
  | aCas a0 a1 => exact inv_aCas hi hpc h
  | aLoadWaited a0 a1 a2 => exact inv_aLoadWaited hi hpc h
  | aHeld a0 a1 a2 a3 => exact inv_aHeld hi hpc h
  | aPost a0 a1 a2 a3 => exact inv_aPost hi hpc h
  | aUnlockWait a0 a1 a2 => exact inv_aUnlockWait hi hpc h
  | aRet a0 a1 a2 => exact inv_aRet hi hpc h
  | w0Store a0 => exact inv_w0Store hi hpc h
  | w0Load a0 => exact inv_w0Load hi hpc h
  | wInit a0 => exact inv_wInit hi hpc h
  | wEnqLockCall a0 a1 => exact inv_wEnqLockCall hi hpc h
  | wEnqLockWait a0 a1 => exact inv_wEnqLockWait hi hpc h
  | wEnqLoad a0 a1 => exact inv_wEnqLoad hi hpc h
  | wEnqStore a0 a1 a2 => exact inv_wEnqStore hi hpc h
  | wEnqUnlockCall a0 a1 a2 => exact inv_wEnqUnlockCall hi hpc h
  | wEnqUnlockWait a0 a1 a2 => exact inv_wEnqUnlockWait hi hpc h
  | wLoopStore a0 a1 => exact inv_wLoopStore hi hpc h
  | wLoopLoad a0 a1 => exact inv_wLoopLoad hi hpc h
  | wPdEnter a0 a1 => exact inv_wPdEnter hi hpc h
  | wPdWait a0 a1 a2 => exact inv_wPdWait hi hpc h
  | wDeqLockCall a0 a1 a2 => exact inv_wDeqLockCall hi hpc h
  | wDeqLockWait a0 a1 a2 => exact inv_wDeqLockWait hi hpc h
  | wDeqLoadV a0 a1 a2 => exact inv_wDeqLoadV hi hpc h
  | wDeqLoadW a0 a1 a2 a3 => exact inv_wDeqLoadW hi hpc h
  | wDeqStore a0 a1 a2 a3 => exact inv_wDeqStore hi hpc h
  | wDeqUnlockCall a0 a1 a2 a3 => exact inv_wDeqUnlockCall hi hpc h
  | wDeqUnlockWait a0 a1 a2 a3 => exact inv_wDeqUnlockWait hi hpc h
  | wFinalLoad a0 => exact inv_wFinalLoad hi hpc h
  | wRet a0 a1 => exact inv_wRet hi hpc h

theorem inv_step {s s' : State} {e : Event} (hi : Inv s) (h : step s e = .ok s') : Inv s' := by
  cases e with
  | thr t e => exact inv_stepThr hi h
  | tick ns =>
    simp only [step] at h
    split at h
    · cases h
      rename_i hle
      have hs := hi.sh
      refine inv_sh hi ?_ ?_
      · obtain ⟨q1, q2, q3, q4, q5, q6, q7, q8, q9, q10, q11, q12, q13⟩ := hs
        exact ⟨q1, q2, q3, q4, q5, q6, q7, q8, q9, q10, q11, q12, q13⟩
      · intro u
        constructor <;> simp_all [own, woken, semPos]
    · cases h

theorem inv_init : Inv init := by
  refine ⟨?_, ?_⟩
  · constructor <;> simp [init, Shared.init]
  · intro t; simp [init, Shared.init, pcInv, pcFacts, holds]

theorem inv_run {s s' : State} {evs : List Event} (hi : Inv s) (h : run s evs = .ok s') : Inv s' := by
  induction evs generalizing s with
  | nil => simp only [run] at h; cases h; exact hi
  | cons e es ih =>
    simp only [run] at h
    split at h
    · rename_i s1 hs1; exact ih (inv_step hi hs1) h
    · cases h

theorem inv_of_reachable {s : State} (h : Reachable s) : Inv s := by
  obtain ⟨evs, h⟩ := h
  exact inv_run inv_init h

theorem reachable_step {s s' : State} {e : Event} (hr : Reachable s) (h : step s e = .ok s') :
    Reachable s' := by
  obtain ⟨evs, he⟩ := hr
  refine ⟨evs ++ [e], ?_⟩
  have : ∀ (s0 : State) (l : List Event), run s0 l = .ok s → run s0 (l ++ [e]) = .ok s' := by
    intro s0 l
    induction l generalizing s0 with
    | nil => intro h0; simp only [run] at h0; cases h0; simp [run, h]
    | cons x xs ih =>
      intro h0
      simp only [run, List.cons_append] at h0 ⊢
      split at h0
      · rename_i s1 hs1; exact ih _ h0
      · cases h0
  exact this _ _ he

end Counter
