/-
  Layer `Once`: invariant preservation for the loads of the once word, part 1
  (wrapper load once.c:108/119/130/140, first load of nsync_run_once_impl once.c:63).
-/
import NsyncVerif.Proofs.OnceInv

namespace Once

theorem inv_ld_outer {cfg s t f obs} (hi : Inv cfg s) (hp : s.pc t = .outerLd f)
    (hobs : obs = s.word f.o) :
    Inv cfg (s.setPc t (if obs = 2 then .readyRet f else .implLd f)) := by
  inv_finish

theorem inv_ld_impl {cfg s t f obs} (hi : Inv cfg s) (hp : s.pc t = .implLd f)
    (hobs : obs = s.word f.o) :
    Inv cfg (s.setPc t
      (if obs = 2 then .readyRet f
       else if f.blocking then .lock1Call f obs else afterLoc f obs)) := by
  inv_finish

end Once
