/-
Helper lemmas for the Time layer (C18, C15 arithmetic half).
-/
import NsyncVerif.Model.Time

namespace NsyncVerif
namespace Time

/-! ### machine constants -/

theorem NS_IN_S_eq : NS_IN_S = 1000000000 := by decide

theorem million_eq : wrapI32 (1000 * 1000) = 1000000 := by decide

theorem million_toNat : (wrapI32 (1000 * 1000)).toNat = 1000000 := by decide

theorem noDeadline_eq : noDeadline = { sec := 9223372036854775807, nsec := 999999999 } := by decide

theorem InRange64_iff (x : Int) : InRange64 x ↔ -2^63 ≤ x ∧ x < 2^63 := by
  unfold InRange64; constructor <;> intro h <;> omega

/-! ### wrap functions are the identity on representable values, and always land in range -/

theorem wrap64_of_inRange {x : Int} (h : InRange64 x) : wrap64 x = x := by
  unfold InRange64 at h; unfold wrap64; omega

theorem wrap64_inRange (x : Int) : InRange64 (wrap64 x) := by
  unfold InRange64 wrap64; omega

/-- `wrap64` is congruent to its argument modulo 2^64 (two's complement). -/
theorem wrap64_mod (x : Int) : (wrap64 x - x) % 18446744073709551616 = 0 := by
  unfold wrap64; omega

theorem wrapI32_of_inRange {x : Int} (h : -2147483648 ≤ x ∧ x < 2147483648) : wrapI32 x = x := by
  unfold wrapI32; omega

theorem wrapU32_of_lt {x : Nat} (h : x < 4294967296) : wrapU32 x = x := by
  unfold wrapU32; omega

theorem norm_inRange {t : Time} (h : Norm t) : InRange64 t.nsec := by
  unfold Norm at h; unfold InRange64; omega

/-! ### cmp: specification by cases -/

theorem cmp_spec (a b : Time) :
    (cmp a b = 1 ∧ (a.sec > b.sec ∨ (a.sec = b.sec ∧ a.nsec > b.nsec))) ∨
    (cmp a b = 0 ∧ a.sec = b.sec ∧ a.nsec = b.nsec) ∨
    (cmp a b = -1 ∧ (a.sec < b.sec ∨ (a.sec = b.sec ∧ a.nsec < b.nsec))) := by
  unfold cmp b2i wrapI32
  by_cases h1 : a.sec > b.sec <;> by_cases h2 : a.sec < b.sec <;>
    by_cases h3 : a.nsec > b.nsec <;> by_cases h4 : a.nsec < b.nsec <;>
    simp [h1, h2, h3, h4] <;> omega

theorem cmp_range (a b : Time) : cmp a b = -1 ∨ cmp a b = 0 ∨ cmp a b = 1 := by
  have := cmp_spec a b; omega

theorem time_ext {x y : Time} (h1 : x.sec = y.sec) (h2 : x.nsec = y.nsec) : x = y := by
  cases x; cases y; simp only at h1 h2; subst h1; subst h2; rfl

/-! ### add / sub in closed form under the exact no-overflow conditions -/

theorem add_eq_exact {a b : Time} (h : AddNoOverflow a b) :
    add a b =
      if a.nsec + b.nsec ≥ 1000000000 then
        { sec := a.sec + b.sec + 1, nsec := a.nsec + b.nsec - 1000000000 }
      else { sec := a.sec + b.sec, nsec := a.nsec + b.nsec } := by
  unfold AddNoOverflow at h
  rw [NS_IN_S_eq] at h
  obtain ⟨h0, hn, hc⟩ := h
  unfold add
  simp only [NS_IN_S_eq, wrap64_of_inRange hn, wrap64_of_inRange h0]
  split
  · rename_i hge
    rw [wrap64_of_inRange (hc hge).1, wrap64_of_inRange (hc hge).2]
  · rfl

theorem sub_eq_exact {a b : Time} (h : SubNoOverflow a b) :
    sub a b =
      if a.nsec < b.nsec then
        { sec := a.sec - b.sec - 1, nsec := a.nsec + 1000000000 - b.nsec }
      else { sec := a.sec - b.sec, nsec := a.nsec - b.nsec } := by
  unfold SubNoOverflow at h
  rw [NS_IN_S_eq] at h
  obtain ⟨h0, hb, hn⟩ := h
  unfold sub
  simp only [NS_IN_S_eq, wrap64_of_inRange h0]
  split
  · rename_i hlt
    rw [wrap64_of_inRange (hb hlt).1, wrap64_of_inRange (hb hlt).2.1,
        wrap64_of_inRange (hb hlt).2.2]
  · rename_i hge
    rw [wrap64_of_inRange (hn hge)]

/-- The hypotheses of C18_add imply that the C execution is overflow-free. -/
theorem addNoOverflow_of {a b : Time} (ha : Norm a) (hb : Norm b)
    (h1 : InRange64 (a.sec + b.sec + 1)) (h0 : InRange64 (a.sec + b.sec)) :
    AddNoOverflow a b := by
  unfold AddNoOverflow; rw [NS_IN_S_eq]
  unfold Norm at ha hb; unfold InRange64 at *
  omega

theorem subNoOverflow_of {a b : Time} (ha : Norm a) (hb : Norm b)
    (h1 : InRange64 (a.sec - b.sec - 1)) (h0 : InRange64 (a.sec - b.sec)) :
    SubNoOverflow a b := by
  unfold SubNoOverflow; rw [NS_IN_S_eq]
  unfold Norm at ha hb; unfold InRange64 at *
  omega

/-! ### ms / us: the machine expression equals the ideal one (no unsigned wrap) -/

/-- The `unsigned` product `1000 * 1000 * (ms % 1000)` never wraps: it is at most 999000000. -/
theorem ms_nsec_no_wrap (x : Nat) :
    wrapU32 ((wrapI32 (1000 * 1000)).toNat * (x % 1000)) = 1000000 * (x % 1000)
    ∧ 1000000 * (x % 1000) < 4294967296 := by
  rw [million_toNat]; unfold wrapU32; omega

/-- The `unsigned` product `1000 * (us % (1000 * 1000))` never wraps: at most 999999000. -/
theorem us_nsec_no_wrap (x : Nat) :
    wrapU32 (1000 * (x % (wrapI32 (1000 * 1000)).toNat)) = 1000 * (x % 1000000)
    ∧ 1000 * (x % 1000000) < 4294967296 := by
  rw [million_toNat]; unfold wrapU32; omega

theorem ms_eq (x : Nat) (hx : x < 4294967296) :
    ms x = { sec := Int.ofNat (x / 1000), nsec := Int.ofNat (1000000 * (x % 1000)) } := by
  unfold ms sNs
  rw [(ms_nsec_no_wrap x).1]
  show ({ sec := wrap64 (Int.ofNat (x / 1000)), nsec := _ } : Time) = _
  rw [wrap64_of_inRange (x := Int.ofNat (x / 1000)) (by unfold InRange64; simp only [Int.ofNat_eq_natCast]; omega),
      wrap64_of_inRange (by unfold InRange64; simp only [Int.ofNat_eq_natCast]; omega)]

theorem us_eq (x : Nat) (hx : x < 4294967296) :
    us x = { sec := Int.ofNat (x / 1000000), nsec := Int.ofNat (1000 * (x % 1000000)) } := by
  unfold us sNs
  rw [(us_nsec_no_wrap x).1, million_toNat]
  show ({ sec := wrap64 (Int.ofNat (x / 1000000)), nsec := _ } : Time) = _
  rw [wrap64_of_inRange (x := Int.ofNat (x / 1000000)) (by unfold InRange64; simp only [Int.ofNat_eq_natCast]; omega),
      wrap64_of_inRange (by unfold InRange64; simp only [Int.ofNat_eq_natCast]; omega)]

end Time
end NsyncVerif
