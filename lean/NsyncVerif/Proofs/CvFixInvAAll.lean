/-
  Layer `CvFix` (cv.c with the repair of F3; adapted from the `Cv` file of the same name): the structural invariant is preserved by every transition (given that the ghost
  flag `bad` stays false, which `Proofs/CvFixInvB*.lean` establish).
-/
import NsyncVerif.Proofs.CvFixInvASig

namespace NsyncVerif.CvFix

/-- `InvA` looks only at the cv word, the holder, the queue, the records and the frames. -/
theorem invA_congr {s s' : State} (hi : InvA s) (h1 : s'.word = s.word) (h2 : s'.holder = s.holder)
    (h3 : s'.queue = s.queue) (h4 : s'.recs = s.recs) (h5 : s'.thr = s.thr) : InvA s' :=
  invA_recs hi h1 h2 h3 h5 (fun q => by rw [h4]; exact recSame_self hi q)

theorem ite_sRel (b : Bool) :
    (if b = true then Loc.sRel else Loc.sRcLd) = .sRel ∨ (if b = true then Loc.sRel else Loc.sRcLd) = .sRcLd := by
  cases b <;> simp

theorem invA_tr {cfg : Config} {s s' : State} {e : Event} (hi : InvA s) (h : Tr cfg s e s')
    (hbad : s'.bad = false) : InvA s' := by
  cases h with
  | same e h => exact hi
  | tick ns h => exact invA_now hi ns
  | loc h => exact invA_loc hi h
  | acq t exp new obs o n hl hexp hw he ho hn hnew =>
    obtain ⟨f1, f2, f3, f4, f5, f6⟩ := acq_facts hi hl hexp hw he ho hn hnew
    subst f1
    unfold afterAcquire
    split
    · rename_i hc
      simp only at hc
      exact invA_acq_waitEnq hi t n hl hc f3 f4 f6
    · rename_i hc
      simp only at hc
      exact invA_acq_plain hi t n .wChk2 hl (.inl ⟨hc, rfl⟩) f3 f4 f2 f6
    · rename_i hc
      simp only at hc
      exact invA_acq_plain hi t n .nLocked hl (.inr (.inl ⟨hc, rfl⟩)) f3 f4 f2 f6
    · rename_i hc
      simp only at hc
      exact invA_acq_plain hi t n .dWalk hl (.inr (.inr ⟨hc, rfl⟩)) f3 f4 f2 f6
    · rename_i hc
      simp only at hc
      refine invA_acq_sig hi t n _ _ _ _ (ite_sRel _) hl hc f3 f4 f2 f6 ?_ ?_
      · dsimp only; split
        · exact List.Sublist.refl _
        · exact sigSelect_sublist _ _
      · intro hb; dsimp only; simp [hb]
  | relWait t new obs n hl hh hnew hn hsp => exact invA_relWait hi t new n hl hh hnew hn hsp
  | relWait2 t new obs n hl hh hnew hn hsp => exact invA_relWait2 hi t new n hl hh hnew hn hsp
  | relSig t site new obs n hl hs hh hnew hn hsp => exact invA_relSig hi t new n hl hh hnew hn hsp
  | relEnq t new obs n hl hh hnew hn hsp => exact invA_relEnq hi t new n hl hh hnew hn hsp
  | relDeq t new obs n hl hh hnew hn hsp => exact invA_relDeq hi t new n hl hh hnew hn hsp
  | wHeadExit t r y hy hl hr hw =>
    subst hy
    have hb : (s.recs r).stat.registered = false := by
      simp only [setThr_bad, setRec_bad] at hbad
      cases hm : (s.recs r).stat.registered
      · rfl
      · rw [hm] at hbad; simp at hbad
    exact invA_congr (invA_wHeadExit hi t r _ _ hl hr hb) rfl rfl rfl rfl rfl
  | wCmpEq t r obs hl hr ho he =>
    have hst : (s.recs r).stat = .queued := by
      simp only [setThr_bad, setRec_bad] at hbad
      by_cases h : (s.recs r).stat = .queued
      · exact h
      · simp [h] at hbad
    exact invA_congr (invA_wCmpEq hi t r hl hr hst) rfl rfl rfl rfl rfl
  | relDeqW t new obs n hl hh hnew hn hsp => exact invA_relDeqW hi t new n hl hh hnew hn hsp
  | relDbg t new obs n hl hh hnew hn hsp => exact invA_relDbg hi t new n hl hh hnew hn hsp
  | deqLdQueued t r obs hl hr hw hq => exact invA_deqLdQueued hi t r hl hr ((hi.qMem r).mp hq)
  | deqSpinExit t r hl hr hw => exact invA_deqSpinExit hi t r hl hr
  | wSt1 t r obs hl hm hst => exact invA_wSt1 hi t r hl hm hst
  | wClr t r obs hl hr => exact invA_wClr hi t r hl hr
  | wake t r obs hl hr => exact invA_wake hi t r hl hr
  | enqSt t r obs hl hm hst ho he => exact invA_enqSt hi t r hl hm hst ho
  | deqSt t r obs hl hr => exact invA_deqSt hi t r hl hr
  | wRmCasOk t r exp new obs hl hr hn ho he => exact invA_wRmCasOk hi t r new hl hr
  | sRcCasOk t site r exp new obs hl hr hn ho he => exact invA_sRcCasOk hi t r new hl
  | muMode t obs lt hl hlt => exact invA_muMode hi t lt hl
  | wwCasOk t exp new obs f rest hl hlist =>
    exact invA_transfer hi t _ _ hl (transferSet_subset _ _ _)
  | semVWake t k r q hl hc => exact invA_semVWake hi t r _ k _ hl
  | semOther e sem' h => exact invA_sem hi sem'
  | semPdRetOkW t k hl => exact invA_semPdRetOkW hi t _ hl
  | semPdRetOkC t k hl => exact invA_semPdRetOkC hi t _ hl
  | wInit t r hl hm hst => exact invA_wInit hi r hst
  | nwInit t r hl hm hst => exact invA_nwInit hi r t _ hst
  | fStW t r new hl hf => exact invA_fStW hi r _ hf
  | fCasOk t r exp new obs hl hf hn ho he => exact invA_fCasOk hi r new

end NsyncVerif.CvFix
