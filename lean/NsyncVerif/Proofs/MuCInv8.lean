import NsyncVerif.Proofs.MuCOther2
/-
  MuC: two more facts about locals (pc-local invariant `Inv8`):
  * the scan of unlock_slow drops MU_ALL_FALSE from `set_on_release` only after it has decided to wake
    somebody (`wake` non-empty) — so a scan that wakes nobody ends with MU_ALL_FALSE still in
    `set_on_release`;
  * the word a fast-path release CAS expects passed the test that selects the fast path.
-/
namespace NsyncVerif.MuC

def Scan.ok8 (sc : Scan) : Prop := (sc.saf = false → sc.wake ≠ []) ∧ (sc.wt ≠ none → sc.wake ≠ [])

/-- lock_slow: `clear` and the masking of the hint bits go together (mu.c:105-122), a thread that has
    never been woken has no `long_wait`; in the wait loop there is a waiter record. -/
def SL.ok8 (c : SL) : Prop := c.clear = c.ign ∧ (c.ign = false → c.lwl = false)

def PC.ok8 : PC → Prop
  | .lsLd c | .lsCasAcq c _ | .lsSt c => c.ok8
  | .lsCasEnq c old => c.ok8 ∧ blocked c.l c.ign old = true
  | .lsRelLd c | .lsRelCas c _ | .lsWaitLd c | .lsPEnter c | .lsPRet c => c.ok8 ∧ c.w.isSome = true
  | .mwRelLd c => c.w.isSome = true
  | .mwRelCas c old add0 =>
    add0 = (!(subWord c.l old).wlock && (subWord c.l old).readers == 0 && c.hadW && !old.desig) ∧ c.w.isSome = true
  | .usRelLd _ sc | .usRelCas _ sc _ | .usEval _ sc | .usRcLd _ sc _ | .usRcCas _ sc _ _ | .usReLd _ sc | .usReCas _ sc _ => sc.ok8
  | .usFinLd _ f | .usFinCas _ f _ => (f.saf = false → f.wake ≠ []) ∧ f.cDesig = f.wake.isEmpty
  | .ulCas1 .W nw old => (old.waiting && !old.desig && !(nw && old.af)) = false
  | .ulCas1 .R _ old => (old.waiting && !old.desig && old.readers == 1 && !old.af) = false
  | .usCasUnc _ old => uncontended old = true
  | _ => True

def Inv8 (s : State) : Prop := ∀ t, (s.pc t).ok8

def ScanRes.good8 : ScanRes → Prop
  | .eval _ sc' | .remove _ sc' | .iterEnd sc' => sc'.ok8
  | .panic => True

theorem scanGo_ok8 (wr : Wid → WRec) (l : List Wid) (sc : Scan) (h : sc.ok8) : (scanGo wr l sc).good8 := by
  induction l generalizing sc with
  | nil => exact h
  | cons k rest ih =>
    unfold scanGo
    split
    · rename_i hw
      exact ⟨fun _ => h.2 (by rw [hw]; simp), h.2⟩
    · split
      · split
        · exact h
        · trivial
      · by_cases hw : sc.wt = none ∨ (wr k).lType = .R
        · simp only [wakeOrPass, hw, if_true, ScanRes.good8, Scan.ok8]
          exact ⟨fun _ => by simp, fun _ => by simp⟩
        · simp only [wakeOrPass, hw, if_false]
          refine ih _ ⟨fun _ => h.2 (fun e => hw (Or.inl e)), h.2⟩

theorem pickup_ok8 {s : State} {sc sc2 : Scan} (h : (pickup s sc).2 = some sc2) (hok : sc.ok8) : sc2.ok8 := by
  unfold pickup at h
  split at h
  · cases h
  · simp only [Option.some.injEq] at h; subst h; exact hok

theorem scanRun_ok8 : ∀ (n : Nat) (s : State) (t : Tid) (r : Ret) (sc : Scan) (s' : State),
    scanRun n s t r sc = .ok s' → sc.ok8 → (s'.pc t).ok8 := by
  intro n
  induction n with
  | zero => intro s t r sc s' h; simp [scanRun] at h
  | succ n ih =>
    intro s t r sc s' h hok
    unfold scanRun at h
    have hg := scanGo_ok8 s.wr sc.todo sc hok
    split at h
    · cases h
    · rename_i k sc' heq
      rw [heq] at hg
      simp only [Except.ok.injEq] at h; subst h
      simp only [setPc_pc, setFn_same, PC.ok8]; exact hg
    · rename_i k sc' heq
      rw [heq] at hg
      simp only [Except.ok.injEq] at h; subst h
      simp only [setPc_pc, setFn_same, PC.ok8]; exact hg
    · rename_i sc' heq
      rw [heq] at hg
      split at h
      · simp only [Except.ok.injEq] at h; subst h
        simp only [setPc_pc, setFn_same, PC.ok8]; exact hg
      · split at h
        · simp only [Except.ok.injEq] at h; subst h
          simp only [toFin, setPc_pc, setFn_same, PC.ok8, mkFin]
          exact ⟨hg.1, trivial⟩
        · rename_i s1 sc2 hp
          have e2 : (pickup s sc').2 = some sc2 := by rw [hp]
          have hok2 := pickup_ok8 e2 hg
          split at h
          · simp only [Except.ok.injEq] at h; subst h
            simp only [setPc_pc, setFn_same, PC.ok8]; exact hok2
          · exact ih _ t r sc2 s' h hok2

theorem afterPickup_ok8 {s : State} {sc0 : Scan} {t : Tid} {r : Ret} {s' : State}
    (h : afterPickup (pickup s sc0) t r sc0 = .ok s') (hok : sc0.ok8) : (s'.pc t).ok8 := by
  unfold afterPickup at h
  split at h
  · simp only [Except.ok.injEq] at h; subst h
    simp only [toFin, setPc_pc, setFn_same, PC.ok8, mkFin]
    exact ⟨hok.1, trivial⟩
  · rename_i s1 sc2 hp
    have e2 : (pickup s sc0).2 = some sc2 := by rw [hp]
    have hok2 := pickup_ok8 e2 hok
    split at h
    · simp only [Except.ok.injEq] at h; subst h
      simp only [setPc_pc, setFn_same, PC.ok8]; exact hok2
    · exact scanRun_ok8 _ _ t r sc2 s' h hok2

theorem afterEval_ok8 {s : State} {sc : Scan} {t : Tid} {r : Ret} {res : Bool} {s' : State}
    (h : afterEval s t r sc res = .ok s') (hok : sc.ok8) : (s'.pc t).ok8 := by
  unfold afterEval at h
  split at h
  · cases h
  · rename_i k rest hk
    split at h
    · exact scanRun_ok8 3 s t r _ s' h hok
    · by_cases hw : sc.wt = none ∨ (s.wr k).lType = .R
      · simp only [wakeOrPass, hw, if_true, Except.ok.injEq] at h
        subst h
        simp only [setPc_pc, setFn_same, PC.ok8, Scan.ok8]
        exact ⟨fun _ => by simp, fun _ => by simp⟩
      · simp only [wakeOrPass, hw, if_false] at h
        exact scanRun_ok8 3 s t r _ s' h ⟨fun _ => hok.2 (fun e => hw (Or.inl e)), hok.2⟩

end NsyncVerif.MuC
