/-
  Layer `CvFix` × vector clocks: the inductive invariant that carries the cv-signal edge, and its
  preservation by every accepted event, for every oracle of foreign orders.
-/
import NsyncVerif.Proofs.CvFixVCThr

namespace NsyncVerif.CvFix
open NsyncVerif

/-- The edge invariant.
    `woken`  a record in status `woken` (a waker of this cv has stored `waiting := 0` into it and its
             owner has not yet noticed): the ghost `wk r` is that wake-up, its waker is the record's
             unlinker, the waker's clock just before the store is covered by the RELEASE CLOCK of
             `r.waiting`, and covers the waker's clock at its call;
    `call`   a thread's clock covers its clock at its latest signal/broadcast call;
    `seen`   what a thread recorded when it left its wait loop is covered by its clock;
    `exit`   a cv wait past its loop, not transferred, whose instance a waker `u` unlinked, has
             recorded a wake-up by `u`;
    `deq`    a cv_dequeue about to return 0 straight from its load of `waiting`: the wake-up of its
             record is covered by its clock;
    `spin`   the clock of the latest releaser of the cv spinlock is covered by the release clock of
             the cv word. -/
structure VInv (p : PState) : Prop where
  woken : ∀ r, (p.s.recs r).stat = .woken → ∃ w, p.wk r = some w ∧
    (p.s.recs r).unl = [Unl.waker w.by_] ∧ VC.Clock.le w.clk (p.c.relc (.fld r .waiting)) ∧
    VC.Clock.le w.call w.clk
  call : ∀ u, VC.Clock.le (p.cc u) (p.c.vc u)
  seen : ∀ t w, p.xw t = some w → VC.Clock.le w.clk (p.c.vc t) ∧ VC.Clock.le w.call w.clk
  exit : ∀ t, (p.s.thr t).loc.afterLoop = true → (p.s.thr t).xferd = false →
    ∀ u, Unl.waker u ∈ (p.s.thr t).exitUnl → ∃ w, p.xw t = some w ∧ w.by_ = u
  deq : ∀ t, (p.s.thr t).loc = .nDeqRel → (p.s.thr t).wasQ = false →
    ∃ w, p.wk (p.s.thr t).r = some w ∧ VC.Clock.le w.clk (p.c.vc t)
  spin : VC.Clock.le p.lastRel (p.c.relc .word)

theorem vinv_init : VInv pinit := by
  constructor
  · intro r h; simp [pinit, init] at h
  · intro u i; simp [pinit, VC.Clock.bot]
  · intro t w h; simp [pinit] at h
  · intro t h; simp [pinit, init, Loc.afterLoop] at h
  · intro t h; simp [pinit, init] at h
  · intro i; simp [pinit, VC.Clock.bot]

/-! ### the ghost updates, event by event -/

theorem wkUpd_keep (p : PState) (e : Event) (r : Rid) (h : stOn e ≠ some (.fld r .waiting)) :
    wkUpd p e r = p.wk r := by
  cases e <;> try rfl
  case recSt t site r' new obs =>
    cases site <;> try rfl
    simp only [stOn, rFld, ne_eq, Option.some.injEq, VLoc.fld.injEq, and_true] at h
    simp only [wkUpd]
    exact VC.upd_other _ _ (fun hh => h hh.symm)

theorem ccUpd_le (p : PState) (e : Event) (h : ∀ u, VC.Clock.le (p.cc u) (p.c.vc u)) (u : Tid) :
    VC.Clock.le (ccUpd p e u) (p.c.vc u) := by
  cases e <;> try exact h u
  case callSignal t =>
    simp only [ccUpd]
    by_cases hu : u = t
    · subst hu; rw [VC.upd_same]; exact VC.Clock.le_refl _
    · rw [VC.upd_other _ _ hu]; exact h u
  case callBroadcast t =>
    simp only [ccUpd]
    by_cases hu : u = t
    · subst hu; rw [VC.upd_same]; exact VC.Clock.le_refl _
    · rw [VC.upd_other _ _ hu]; exact h u

theorem xwUpd_other (p : PState) (e : Event) (t : Tid) (h : xwTid e ≠ some t) :
    xwUpd p e t = p.xw t := by
  cases e <;> try rfl
  case callWait t' gen dl note =>
    simp only [xwTid, ne_eq, Option.some.injEq] at h
    simp only [xwUpd]
    exact VC.upd_other _ _ (fun hh => h hh.symm)
  case recLd t' site r obs =>
    cases site <;> try rfl
    cases obs with
    | succ k => rfl
    | zero =>
      simp only [xwTid, ne_eq, Option.some.injEq] at h
      simp only [xwUpd]
      exact VC.upd_other _ _ (fun hh => h hh.symm)

theorem xwUpd_cases (p : PState) (e : Event) (t : Tid) :
    xwUpd p e t = p.xw t ∨ xwUpd p e t = none ∨
    ∃ r, e = .recLd t .wHead r 0 ∧
      xwUpd p e t = if (p.s.recs r).stat = .woken then p.wk r else none := by
  by_cases h : xwTid e = some t
  · cases e <;> simp only [xwTid, reduceCtorEq] at h
    case callWait t' gen dl note =>
      cases h
      right; left; simp only [xwUpd]; exact VC.upd_same _ _ _
    case recLd t' site r obs =>
      cases site <;> try (simp at h; done)
      cases obs with
      | succ k => simp at h
      | zero =>
        simp only [Option.some.injEq] at h
        subst h
        right; right
        exact ⟨r, rfl, by simp only [xwUpd]; exact VC.upd_same _ _ _⟩
  · exact .inl (xwUpd_other p e t h)

theorem lrUpd_le (cfg : Config) (o : VC.Ord) (p : PState) (e : Event) (s' : State)
    (hs : step cfg p.s e = .ok s') (h : VC.Clock.le p.lastRel (p.c.relc .word)) :
    VC.Clock.le (lrUpd p e) ((cstep o p.c e).relc .word) := by
  by_cases hw : stOn e = some .word
  · cases e <;> simp only [stOn, reduceCtorEq, Option.some.injEq] at hw
    case wordSt t site new obs => exact cstep_word_st o p.c t site new obs (wordSt_rel hs)
  · have : lrUpd p e = p.lastRel := by
      cases e <;> first | rfl | (simp [stOn] at hw)
    rw [this]
    exact cstep_keep o p.c e .word _ hw h

/-! ### preservation -/

theorem vinv_step {cfg : Config} {fo : Nat → VC.Ord} {p : PState} {e : Event} {s' : State}
    (hi : Inv p.s) (hf : InvF p.s) (hv : VInv p) (hs : step cfg p.s e = .ok s') :
    VInv (pnext fo p e s') := by
  have htr := step_tr hs
  constructor
  · -- woken
    intro r hw'
    rcases woken_entry hi.a htr r hw' with ⟨hw, hu⟩ | ⟨t, obs, rfl, hst, hu⟩
    · obtain ⟨w, h1, h2, h3, h4⟩ := hv.woken r hw
      have hns := woken_no_store hi hs r hw
      refine ⟨w, ?_, ?_, cstep_keep (fo p.n) _ _ _ _ hns h3, h4⟩
      · simp only [pnext]; rw [wkUpd_keep p e r hns]; exact h1
      · simp only [pnext]; rw [hu]; exact h2
    · refine ⟨⟨t, p.c.vc t, p.cc t⟩, ?_, ?_, ?_, hv.call t⟩
      · simp only [pnext, wkUpd]; exact VC.upd_same _ _ _
      · simp only [pnext]; rw [hu]; exact hf.unlL r t hst
      · exact cstep_rel_st (fo p.n) p.c t .wake r 0 obs rfl
  · -- call
    intro u
    exact VC.Clock.le_trans (ccUpd_le p e hv.call u) (cstep_mono (fo p.n) _ _ _)
  · -- seen
    intro t w hx
    simp only [pnext] at hx ⊢
    rcases xwUpd_cases p e t with h | h | ⟨r, rfl, h⟩
    · rw [h] at hx
      obtain ⟨h1, h2⟩ := hv.seen t w hx
      exact ⟨VC.Clock.le_trans h1 (cstep_mono (fo p.n) _ _ _), h2⟩
    · rw [h] at hx; cases hx
    · rw [h] at hx
      split at hx
      · rename_i hw
        obtain ⟨w', h1, _, h3, h4⟩ := hv.woken r hw
        rw [h1] at hx; cases hx
        exact ⟨VC.Clock.le_trans h3 (cstep_acq_ld (fo p.n) p.c t .wHead r 0 rfl), h4⟩
      · cases hx
  · -- exit
    intro t hal hx u hu
    simp only [pnext] at hal hx hu ⊢
    rcases (tfacts_tr hf htr t).exit hal with ⟨h0, h1, h2⟩ | ⟨r, rfl, hl, hr, hw, h1, h2⟩
    · rw [h1] at hx; rw [h2] at hu
      obtain ⟨w, ha, hb⟩ := hv.exit t h0 hx u hu
      refine ⟨w, ?_, hb⟩
      rw [xwUpd_other p e t]
      · exact ha
      · intro hh
        have := xwTid_loc hs hh
        rw [h0] at this; cases this
    · rw [h1] at hx; rw [h2] at hu
      obtain ⟨_, _, hlv⟩ := (hi.a.thr t).live (by simp [waitLive, hl])
      rw [← hr] at hlv
      have hwk : (p.s.recs r).stat = .woken := by
        cases hst : (p.s.recs r).stat with
        | idle => rw [hst] at hlv; simp [RStat.live] at hlv
        | prep => rw [hst] at hlv; simp [RStat.live] at hlv
        | queued => have := hi.a.qWait r hst; rw [hw] at this; cases this
        | listed v => have := hi.b.lWait r v hst; rw [hw] at this; cases this
        | xfer => rw [hst] at hx; simp at hx
        | woken => rfl
        | selfOut => have := hf.unlS r hst; rw [this] at hu; simp at hu
      obtain ⟨w, h1', h2', _, _⟩ := hv.woken r hwk
      rw [h2'] at hu
      simp only [List.mem_singleton, Unl.waker.injEq] at hu
      refine ⟨w, ?_, hu.symm⟩
      simp only [xwUpd, hwk, if_true]
      rw [VC.upd_same]; exact h1'
  · -- deq
    intro t hl hq
    simp only [pnext] at hl hq ⊢
    rcases (tfacts_tr hf htr t).deq hl hq with ⟨h0, h1, h2⟩ | ⟨r, rfl, h2, h3, h4, h5⟩
    · obtain ⟨w, ha, hb⟩ := hv.deq t h0 h1
      have hwk : (p.s.recs (p.s.thr t).r).stat = .woken := by
        rcases (hf.thr t).wqRel h0 with ⟨a, _, _⟩ | ⟨_, _, c⟩
        · rw [h1] at a; cases a
        · exact c
      have hns := woken_no_store hi hs _ hwk
      rw [h2, wkUpd_keep p e _ hns]
      exact ⟨w, ha, VC.Clock.le_trans hb (cstep_mono (fo p.n) _ _ _)⟩
    · have hwk : (p.s.recs r).stat = .woken := by
        rcases deq_entry_stat hi.a hi.b t r h3 h4 with h | ⟨v, h⟩ | h
        · have := hi.a.qWait r h; rw [h5] at this; cases this
        · have := hi.b.lWait r v h; rw [h5] at this; cases this
        · exact h
      obtain ⟨w, h1', _, h3', _⟩ := hv.woken r hwk
      rw [h2]
      exact ⟨w, h1', VC.Clock.le_trans h3' (cstep_acq_ld (fo p.n) p.c t .deqLd r 0 rfl)⟩
  · -- spin
    exact lrUpd_le cfg (fo p.n) p e s' hs hv.spin

theorem vinv_prun {cfg : Config} {fo : Nat → VC.Ord} {evs : List Event} {p p' : PState}
    (hr : Reachable cfg p.s) (hv : VInv p) (h : prun cfg fo p evs = .ok p') : VInv p' := by
  induction evs generalizing p with
  | nil => simp only [prun, Except.ok.injEq] at h; subst h; exact hv
  | cons e es ih =>
    simp only [prun] at h
    split at h
    · rename_i p1 hp
      obtain ⟨s1, hs, rfl⟩ := pstep_ok hp
      exact ih (p := pnext fo p e s1) (reachable_step hr hs)
        (vinv_step (inv_reachable hr) (invF_reachable hr) hv hs) h
    · cases h

theorem vinv_preachable {cfg : Config} {fo : Nat → VC.Ord} {p : PState}
    (h : PReachable cfg fo p) : VInv p := by
  obtain ⟨evs, h⟩ := h
  exact vinv_prun ⟨[], rfl⟩ vinv_init h

end NsyncVerif.CvFix
