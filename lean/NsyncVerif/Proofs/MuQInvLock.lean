import NsyncVerif.Proofs.MuQInv
/-
  MuQ: preservation of (I_lock) and (I_spin) by every abstract step.
-/
namespace NsyncVerif.MuQ

theorem blocked_false_free {l : Mode} {ign : Bool} {w : Word} (h : blocked l ign w = false) :
    w.wlock = false ∧ (l = .W → w.readers = 0) := by
  cases l <;> simp [blocked] at h
  · exact ⟨h.1.1, fun _ => h.1.2⟩
  · exact ⟨h.1, fun h => by cases h⟩

theorem alock_acq {a X : AState} {t : Tid} {l : Mode} {clear lwl : Bool} (h : ALock a)
    (hw : X.word = acqWord l clear lwl a.word) (ho : X.wOwner = a.wOwner) (hr : X.rOwners = a.rOwners)
    (ht : X.ts = a.ts) (hts : a.ts t = none) (hfree : a.word.wlock = false ∧ (l = .W → a.word.readers = 0)) :
    ALock (X.addShare t l) := by
  obtain ⟨a1, a2, a3, a4, a5, a6, a7⟩ := h
  have hnow : a.wOwner = none := by
    cases hx : a.wOwner with
    | none => rfl
    | some u => rw [hx] at a4; simp [hfree.1] at a4
  have htr : t ∉ a.rOwners := fun hm => by rw [a2 t, hts] at hm; cases hm
  cases l
  · refine ⟨?_, ?_, ?_, ?_, ?_, ?_, ?_⟩
    · intro u; simp only [AState.addShare, ht, setFn]
      by_cases hu : u = t
      · subst hu; simp
      · simp only [hu, if_false]; rw [← a1 u, hnow]; simp; exact fun h => hu h.symm
    · intro u; simp only [AState.addShare, hr, ht, setFn]
      by_cases hu : u = t
      · subst hu; simp [htr]
      · simp only [hu, if_false]; exact a2 u
    · simpa [AState.addShare, hr] using a3
    · simp [AState.addShare, hw, acqWord]
    · simp [AState.addShare, hw, acqWord, hr]; exact a5
    · intro _; simp [AState.addShare, hw, acqWord]; exact hfree.2 rfl
    · simp [AState.addShare, hw, acqWord]; exact a7
  · refine ⟨?_, ?_, ?_, ?_, ?_, ?_, ?_⟩
    · intro u; simp only [AState.addShare, ho, ht, setFn]
      by_cases hu : u = t
      · subst hu; simp [hnow]
      · simp only [hu, if_false]; exact a1 u
    · intro u; simp only [AState.addShare, hr, ht, setFn]
      by_cases hu : u = t
      · subst hu; simp
      · simp only [hu, if_false, List.mem_cons, false_or]; exact a2 u
    · simp only [AState.addShare, hr, List.nodup_cons]; exact ⟨htr, a3⟩
    · simp [AState.addShare, hw, acqWord, ho, hnow, hfree.1]
    · simp [AState.addShare, hw, acqWord, hr]; exact a5
    · intro hx; simp [AState.addShare, hw, acqWord, hfree.1] at hx
    · simp [AState.addShare, hw, acqWord]; exact a7

theorem alock_rel {a X : AState} {t : Tid} {l : Mode} (h : ALock a)
    (hw1 : X.word.wlock = (subWord l a.word).wlock) (hw2 : X.word.readers = (subWord l a.word).readers)
    (hw3 : X.word.cond = a.word.cond)
    (ho : X.wOwner = a.wOwner) (hr : X.rOwners = a.rOwners)
    (ht : X.ts = a.ts) (hts : a.ts t = some l) (hs : hasShare l a.word = true) :
    ALock (X.subShare t l) := by
  obtain ⟨a1, a2, a3, a4, a5, a6, a7⟩ := h
  cases l
  · have hown : a.wOwner = some t := (a1 t).2 hts
    have hrd : a.word.readers = 0 := a6 (by simpa [hasShare] using hs)
    refine ⟨?_, ?_, ?_, ?_, ?_, ?_, ?_⟩
    · intro u; simp only [AState.subShare, ht, setFn]
      by_cases hu : u = t
      · subst hu; simp
      · simp only [hu, if_false]; rw [← a1 u, hown]; simp; exact fun h => hu h.symm
    · intro u; simp only [AState.subShare, hr, ht, setFn]
      by_cases hu : u = t
      · subst hu; simp; rw [a2 u, hts]; simp
      · simp only [hu, if_false]; exact a2 u
    · simpa [AState.subShare, hr] using a3
    · simp [AState.subShare, hw1, subWord]
    · simp [AState.subShare, hw2, subWord, hr]; exact a5
    · intro _; simp [AState.subShare, hw2, subWord]; exact hrd
    · simp [AState.subShare, hw3]; exact a7
  · have hmem : t ∈ a.rOwners := (a2 t).2 hts
    have hwl : a.word.wlock = false := by
      cases hx : a.word.wlock with
      | false => rfl
      | true => have := a6 hx; simp [hasShare, this] at hs
    have hnow : a.wOwner ≠ some t := fun hx => by rw [a1 t, hts] at hx; cases hx
    refine ⟨?_, ?_, ?_, ?_, ?_, ?_, ?_⟩
    · intro u; simp only [AState.subShare, ho, ht, setFn]
      by_cases hu : u = t
      · subst hu; simp [hnow]
      · simp only [hu, if_false]; exact a1 u
    · intro u; simp only [AState.subShare, hr, ht, setFn]
      by_cases hu : u = t
      · subst hu; simp [a3.mem_erase_iff]
      · simp only [hu, if_false]; rw [List.mem_erase_of_ne hu]; exact a2 u
    · simp only [AState.subShare, hr]; exact a3.erase t
    · simp [AState.subShare, hw1, subWord, ho]; exact a4
    · simp [AState.subShare, hw2, subWord, hr, List.length_erase_of_mem hmem]; rw [a5]
    · intro hx; simp [AState.subShare, hw1, subWord, hwl] at hx
    · simp [AState.subShare, hw3]; exact a7

theorem alock_step {cfg : Cfg} {a a' : AState} (h : ALock a) (st : AStep cfg a a') : ALock a' := by
  cases st with
  | acqFresh t l hro hts hb => exact alock_acq h rfl rfl rfl rfl hts (blocked_false_free hb)
  | enterSlow t l hro hts => exact h.congr rfl rfl rfl rfl rfl rfl
  | acqSlow t c hro hts hb =>
    exact alock_acq (X := (_ : AState).dropW c.w) (clear := c.clear) (lwl := c.lwl) h (by simp) (by simp) (by simp) (by simp) hts (blocked_false_free hb)
  | enq t c hro hsp hb => exact h.congr rfl rfl rfl rfl rfl rfl
  | adopt t c k hro hw hq ho hwt => exact h.congr rfl rfl rfl rfl rfl rfl
  | requeue t c k hro hw hq => exact h.congr rfl rfl rfl rfl rfl rfl
  | relSpin t c hro => exact h.congr rfl rfl rfl rfl rfl rfl
  | loopWait t c k hro hw hwt => exact h.congr rfl rfl rfl rfl rfl rfl
  | loopWoken t c k hro hw hwt => exact h.congr rfl rfl rfl rfl rfl rfl
  | pRet t c k hro hw hs => exact h.congr rfl rfl rfl rfl rfl rfl
  | release t l hro hts hs hc =>
    refine alock_rel h ?_ ?_ ?_ rfl rfl rfl hts hs <;> cases l <;> rfl
  | grab t l hro hts hs hu hsp =>
    have : ALock (({ a with word := grabWord l a.word, sp := some t } : AState).subShare t l) := by
      refine alock_rel h ?_ ?_ ?_ rfl rfl rfl hts hs <;> cases l <;> rfl
    exact this.congr (by simp) (by simp) (by simp) (by simp) (by simp) (by simp)
  | rcDone t sc hro => exact h.congr (by simp) (by simp) (by simp) (by simp) (by simp) (by simp)
  | finish t f hro =>
    refine h.congr rfl rfl ?_ rfl rfl rfl
    simp [finWord, h.cond]
  | wakeStore t k r hro => exact h.congr rfl rfl rfl rfl rfl rfl
  | post t k r hro => exact h.congr rfl rfl rfl rfl rfl rfl
  | envV k => exact h.congr rfl rfl rfl rfl rfl rfl
  | envSem k n ho => exact h.congr rfl rfl rfl rfl rfl rfl

theorem alock_init : ALock (abs init) := by
  refine ⟨?_, ?_, ?_, ?_, ?_, ?_, ?_⟩ <;> simp [abs, init, tshare, pcShare, Word.zero]

end NsyncVerif.MuQ

namespace NsyncVerif.MuQ

theorem aspin_same {a a' : AState} (h : ASpin a) (hw : a'.word.spin = a.word.spin) (hs : a'.sp = a.sp)
    (hr : ∀ u, (a'.ro u).spin = (a.ro u).spin) : ASpin a' :=
  ⟨fun t => by rw [hs, hr t]; exact h.own t, by rw [hw, hs]; exact h.bit⟩

theorem aspin_take {a a' : AState} {t : Tid} (h : ASpin a) (hfree : a.word.spin = false)
    (hw : a'.word.spin = true) (hs : a'.sp = some t) (hrt : (a'.ro t).spin = true)
    (hro : ∀ u, u ≠ t → a'.ro u = a.ro u) : ASpin a' := by
  have hnone : a.sp = none := by
    cases hx : a.sp with
    | none => rfl
    | some u => have := h.bit; rw [hx, hfree] at this; cases this
  refine ⟨fun u => ?_, by rw [hw, hs]; rfl⟩
  rw [hs]
  by_cases hu : u = t
  · subst hu; simp [hrt]
  · rw [hro u hu, ← h.own u, hnone]; simp; exact fun h => hu h.symm

theorem aspin_give {a a' : AState} {t : Tid} (h : ASpin a) (hown : (a.ro t).spin = true)
    (hw : a'.word.spin = false) (hs : a'.sp = none) (hrt : (a'.ro t).spin = false)
    (hro : ∀ u, u ≠ t → a'.ro u = a.ro u) : ASpin a' := by
  have hsp : a.sp = some t := (h.own t).2 hown
  refine ⟨fun u => ?_, by rw [hw, hs]; rfl⟩
  rw [hs]
  by_cases hu : u = t
  · subst hu; simp [hrt]
  · rw [hro u hu, ← h.own u, hsp]; simp; exact fun h => hu h.symm

theorem spin_setFn {a : AState} {t : Tid} {r : Role} (h : r.spin = (a.ro t).spin) (u : Tid) :
    (setFn a.ro t r u).spin = (a.ro u).spin := by
  simp only [setFn]; split
  · rename_i hu; subst hu; exact h
  · rfl

theorem roleAfter_spin (l : List Wid) : (roleAfter l).spin = false := by cases l <;> rfl

theorem aspin_step {cfg : Cfg} {a a' : AState} (h : ASpin a) (st : AStep cfg a a') : ASpin a' := by
  cases st with
  | acqFresh t l hro hts hb =>
    refine aspin_same h ?_ (by simp) (fun u => by simp)
    cases l <;> simp [acqWord]
  | enterSlow t l hro hts => exact aspin_same h rfl rfl (spin_setFn (by rw [hro]; rfl))
  | acqSlow t c hro hts hb =>
    refine aspin_same h ?_ (by simp) (fun u => by simp; exact spin_setFn (by rw [hro]; rfl) u)
    cases c.l <;> simp [acqWord]
  | enq t c hro hsp hb =>
    exact aspin_take (t := t) h hsp rfl rfl (by simp [Role.spin]) (fun u hu => by simp [setFn, hu])
  | adopt t c k hro hw hq ho hwt => exact aspin_same h rfl rfl (spin_setFn (by rw [hro]; rfl))
  | requeue t c k hro hw hq => exact aspin_same h rfl rfl (spin_setFn (by rw [hro]; rfl))
  | relSpin t c hro =>
    exact aspin_give (t := t) h (by rw [hro]; rfl) rfl rfl (by simp [Role.spin]) (fun u hu => by simp [setFn, hu])
  | loopWait t c k hro hw hwt => exact aspin_same h rfl rfl (spin_setFn (by rw [hro]; rfl))
  | loopWoken t c k hro hw hwt => exact aspin_same h rfl rfl (spin_setFn (by rw [hro]; rfl))
  | pRet t c k hro hw hs => exact aspin_same h rfl rfl (spin_setFn (by rw [hro]; rfl))
  | release t l hro hts hs hc =>
    refine aspin_same h ?_ (by simp) (fun u => by simp)
    cases l <;> simp [relUncWord]
  | grab t l hro hts hs hu hsp =>
    refine aspin_take (t := t) h hsp (by simp [grabWord]) (by simp) ?_ (fun u hu => by rw [AState.advance_ro_other _ _ _ _ hu]; simp)
    rcases AState.advance_ro_self (({ a with word := grabWord l a.word, sp := some t } : AState).subShare t l) t (scan0 a.queue) with ⟨sc', h1⟩ | ⟨f, h1⟩ <;> rw [h1] <;> rfl
  | rcDone t sc hro =>
    refine aspin_same h (by simp) (by simp) (fun u => ?_)
    by_cases hu : u = t
    · subst hu
      rcases AState.advance_ro_self a u sc with ⟨sc', h1⟩ | ⟨f, h1⟩ <;> rw [h1, hro] <;> rfl
    · rw [AState.advance_ro_other _ _ _ _ hu]
  | finish t f hro =>
    exact aspin_give (t := t) h (by rw [hro]; rfl) (by simp [finWord]) rfl (by simp [roleAfter_spin]) (fun u hu => by simp [setFn, hu])
  | wakeStore t k r hro => exact aspin_same h rfl rfl (spin_setFn (by rw [hro]; rfl))
  | post t k r hro =>
    exact aspin_same h rfl rfl (fun u => by simp; exact spin_setFn (by rw [hro, roleAfter_spin]; rfl) u)
  | envV k => exact aspin_same h rfl rfl (fun _ => rfl)
  | envSem k n ho => exact aspin_same h rfl rfl (fun _ => rfl)

theorem aspin_init : ASpin (abs init) := by
  refine ⟨?_, ?_⟩ <;> simp [abs, init, role, Role.spin, Word.zero]

end NsyncVerif.MuQ
