/-
  Proofs/SemWaitInvQ1.lean — preservation of the invariant by the effects of a thread step: `q1`, `q2`.
-/
import NsyncVerif.Proofs.SemWaitInvAux

namespace SemWait
set_option maxHeartbeats 400000
set_option linter.unusedVariables false

theorem q_q1 {cfg : Config} {s s' : State} {t : Tid} (hc : cfg.noReread = false) (ha : InvA s) (hq : InvQ s) (he : Eff cfg s t s') :
    ∀ k r, r ∈ (s'.note k).queue →
        (s'.rcd r).live = true ∧ (s'.rcd r).note = k ∧ enq (s'.pc (s'.rcd r).owner) = true := by
  have q1 := hq.q1
  have q2 := hq.q2
  have k1 := hq.k1
  have e1 := hq.e1
  have i1 := ha.i1
  have i4 := ha.i4
  have h1 := ha.h1
  eff_cases he
  case nop  =>
    clear ha hq; clear q2 k1 e1 i1 i4 h1; grind [enq, ndNext, nfNext]
  case semV j =>
    clear ha hq; clear q2 k1 e1 i1 i4 h1; grind [enq, ndNext, nfNext]
  case semP j c hu hs =>
    clear ha hq; clear q2 k1 e1 i1 i4 h1; grind [enq, ndNext, nfNext]
  case lock k hp hl =>
    clear ha hq; clear q2 k1 e1 i1 i4 h1; grind [enq, ndNext, nfNext]
  case unlock k hp hl hpost hfq =>
    clear ha hq; clear q2 k1 e1 i1 i4 h1; grind [enq, ndNext, nfNext]
  case setFlag k hp hl hk hf hd =>
    clear ha hq; clear q2 k1 e1 i1 i4 h1; grind [enq, ndNext, nfNext]
  case born k p hp hk hfr hne hl hf htp =>
    clear ha hq; clear q2 k1 e1 i1 i4 h1; grind [enq, ndNext, nfNext]
  case pop r tl hp hqu hl hf hpost =>
    clear ha hq; clear q2 k1 e1 i1 i4 h1; grind [enq, ndNext, nfNext]
  case postDead r j hp hpost hlive =>
    clear ha hq; clear q2 k1 e1 i1 i4 h1; grind [enq, ndNext, nfNext]
  case postBound r j hp hpost hlive hsem =>
    clear ha hq; clear q2 k1 e1 i1 i4 h1; grind [enq, ndNext, nfNext]
  case postBind r j hp hpost hlive hsem huser =>
    clear ha hq; clear q2 k1 e1 i1 i4 h1; grind [enq, ndNext, nfNext]
  case newNote k ex hp hk =>
    clear ha hq; clear q2 k1 e1 i1 i4 h1; grind [enq, ndNext, nfNext]
  case inherit k p hp hk hfr hne =>
    clear ha hq; clear q2 k1 e1 i1 i4 h1; grind [enq, ndNext, nfNext]
  case call n dl hpc hk hpost hl =>
    clear ha hq; clear q2 k1 e1 i1 i4 h1; grind [enq, ndNext, nfNext]
  case openEnd u hpc hf hl hpost hqu =>
    clear ha hq; cases u <;> (clear q2 k1 e1 i1 i4 h1; grind [enq, ndNext, nfNext])
  case nd_ld0_set u hpc hf =>
    clear ha hq; cases u <;> (clear q2 k1 e1 i1 i4 h1; grind [enq, ndNext, nfNext])
  case nd_ld0_clr u hpc hf =>
    clear ha hq; cases u <;> (clear q2 k1 e1 i1 i4 h1; grind [enq, ndNext, nfNext])
  case nd_lk u hpc hl =>
    clear ha hq; cases u <;> (clear q2 k1 e1 i1 i4 h1; grind [enq, ndNext, nfNext])
  case nd_ld1 u hpc =>
    clear ha hq; cases u <;> (clear q2 k1 e1 i1 i4 h1; grind [enq, ndNext, nfNext])
  case nd_ulk_done u obs hpc hl hob =>
    clear ha hq; cases u <;> (clear q2 k1 e1 i1 i4 h1; grind [enq, ndNext, nfNext])
  case nd_ulk_now u obs hpc hl hob =>
    clear ha hq; cases u <;> (clear q2 k1 e1 i1 i4 h1; grind [enq, ndNext, nfNext])
  case nd_now_exp u hpc hx =>
    clear ha hq; cases u <;> (clear q2 k1 e1 i1 i4 h1; grind [enq, ndNext, nfNext])
  case nd_now_ok u hpc hx =>
    clear ha hq; cases u <;> (clear q2 k1 e1 i1 i4 h1; grind [enq, ndNext, nfNext])
  case nf_lk u hpc hl =>
    clear ha hq; cases u <;> (clear q2 k1 e1 i1 i4 h1; grind [enq, ndNext, nfNext])
  case nf_ld_ulk u hpc hf =>
    clear ha hq; cases u <;> (clear q2 k1 e1 i1 i4 h1; grind [enq, ndNext, nfNext])
  case nf_ld_open u hpc hf =>
    clear ha hq; cases u <;> (clear q2 k1 e1 i1 i4 h1; grind [enq, ndNext, nfNext])
  case nf_ulk u hpc hl =>
    clear ha hq; cases u <;> (clear q2 k1 e1 i1 i4 h1; grind [enq, ndNext, nfNext])
  case m_init r hpc hlive =>
    clear ha hq; clear q2 k1 e1 i1 i4 h1; grind [enq, ndNext, nfNext]
  case m_lk1 hpc hl =>
    clear ha hq; clear q2 k1 e1 i1 i4 h1; grind [enq, ndNext, nfNext]
  case m_ld49_enq r hpc hen hnw =>
    clear ha hq; clear q2 k1 e1 i4 h1; grind [enq]
  case m_ld49_no hpc hen =>
    clear ha hq; clear q2 k1 e1 i1 i4 h1; grind [enq, ndNext, nfNext]
  case m_ulk1 b hpc hl =>
    clear ha hq; clear q2 k1 e1 i1 i4 h1; grind [enq, ndNext, nfNext]
  case m_pdEnterBound j hpc hsem =>
    clear ha hq; clear q2 k1 e1 i1 i4 h1; grind [enq, ndNext, nfNext]
  case m_pdEnterBind j hpc hsem huser =>
    clear ha hq; clear q2 k1 e1 i1 i4 h1; grind [enq, ndNext, nfNext]
  case m_tmoNear j hpc hx hn =>
    clear ha hq; clear q2 k1 e1 i1 i4 h1; grind [enq, ndNext, nfNext]
  case m_tmoFar j hpc hx hn =>
    clear ha hq; clear q2 k1 e1 i1 i4 h1; grind [enq, ndNext, nfNext]
  case m_p0 j c hpc hs =>
    clear ha hq; clear q2 k1 e1 i1 i4 h1; grind [enq, ndNext, nfNext]
  case m_lk2 hpc hl =>
    clear ha hq; clear q2 k1 e1 i1 i4 h1; grind [enq, ndNext, nfNext]
  case m_ld68_rm r hpc htp hnw hm =>
    clear ha hq; clear k1 e1 h1; grind [enq, List.Nodup.mem_erase_iff]
  case m_ld68_no hpc htp =>
    clear ha hq; clear q2; grind [enq, timePos, protoMode, holdsPc]
  case m_ulk2 hpc hl =>
    clear ha hq; clear q2 k1 e1 i1 i4 h1; grind [enq, ndNext, nfNext]
  case m_ret hpc =>
    clear ha hq; clear q2 k1 e1 i4 h1; grind [enq]

theorem q_q2 {cfg : Config} {s s' : State} {t : Tid} (hc : cfg.noReread = false) (ha : InvA s) (hq : InvQ s) (he : Eff cfg s t s') :
    ∀ k, (s'.note k).queue.Nodup := by
  have q1 := hq.q1
  have q2 := hq.q2
  have i1 := ha.i1
  eff_cases he
  case nop  =>
    clear ha hq; clear q1 i1; grind
  case semV j =>
    clear ha hq; clear q1 i1; grind
  case semP j c hu hs =>
    clear ha hq; clear q1 i1; grind
  case lock k hp hl =>
    clear ha hq; clear q1 i1; grind
  case unlock k hp hl hpost hfq =>
    clear ha hq; clear q1 i1; grind
  case setFlag k hp hl hk hf hd =>
    clear ha hq; clear q1 i1; grind
  case born k p hp hk hfr hne hl hf htp =>
    clear ha hq; clear q1 i1; grind
  case pop r tl hp hqu hl hf hpost =>
    clear ha hq; clear q1 i1; grind [List.nodup_cons]
  case postDead r j hp hpost hlive =>
    clear ha hq; clear q1 i1; grind
  case postBound r j hp hpost hlive hsem =>
    clear ha hq; clear q1 i1; grind
  case postBind r j hp hpost hlive hsem huser =>
    clear ha hq; clear q1 i1; grind
  case newNote k ex hp hk =>
    clear ha hq; clear q1 i1; grind
  case inherit k p hp hk hfr hne =>
    clear ha hq; clear q1 i1; grind
  case call n dl hpc hk hpost hl =>
    clear ha hq; clear q1 i1; grind
  case openEnd u hpc hf hl hpost hqu =>
    clear ha hq; cases u <;> (clear q1 i1; grind)
  case nd_ld0_set u hpc hf =>
    clear ha hq; cases u <;> (clear q1 i1; grind)
  case nd_ld0_clr u hpc hf =>
    clear ha hq; cases u <;> (clear q1 i1; grind)
  case nd_lk u hpc hl =>
    clear ha hq; cases u <;> (clear q1 i1; grind)
  case nd_ld1 u hpc =>
    clear ha hq; cases u <;> (clear q1 i1; grind)
  case nd_ulk_done u obs hpc hl hob =>
    clear ha hq; cases u <;> (clear q1 i1; grind)
  case nd_ulk_now u obs hpc hl hob =>
    clear ha hq; cases u <;> (clear q1 i1; grind)
  case nd_now_exp u hpc hx =>
    clear ha hq; cases u <;> (clear q1 i1; grind)
  case nd_now_ok u hpc hx =>
    clear ha hq; cases u <;> (clear q1 i1; grind)
  case nf_lk u hpc hl =>
    clear ha hq; cases u <;> (clear q1 i1; grind)
  case nf_ld_ulk u hpc hf =>
    clear ha hq; cases u <;> (clear q1 i1; grind)
  case nf_ld_open u hpc hf =>
    clear ha hq; cases u <;> (clear q1 i1; grind)
  case nf_ulk u hpc hl =>
    clear ha hq; cases u <;> (clear q1 i1; grind)
  case m_init r hpc hlive =>
    clear ha hq; clear q1 i1; grind
  case m_lk1 hpc hl =>
    clear ha hq; clear q1 i1; grind
  case m_ld49_enq r hpc hen hnw =>
    clear ha hq; grind [enq, List.nodup_append]
  case m_ld49_no hpc hen =>
    clear ha hq; clear q1 i1; grind
  case m_ulk1 b hpc hl =>
    clear ha hq; clear q1 i1; grind
  case m_pdEnterBound j hpc hsem =>
    clear ha hq; clear q1 i1; grind
  case m_pdEnterBind j hpc hsem huser =>
    clear ha hq; clear q1 i1; grind
  case m_tmoNear j hpc hx hn =>
    clear ha hq; clear q1 i1; grind
  case m_tmoFar j hpc hx hn =>
    clear ha hq; clear q1 i1; grind
  case m_p0 j c hpc hs =>
    clear ha hq; clear q1 i1; grind
  case m_lk2 hpc hl =>
    clear ha hq; clear q1 i1; grind
  case m_ld68_rm r hpc htp hnw hm =>
    clear ha hq; clear q1 i1; grind [List.Nodup.erase]
  case m_ld68_no hpc htp =>
    clear ha hq; clear q1 i1; grind
  case m_ulk2 hpc hl =>
    clear ha hq; clear q1 i1; grind
  case m_ret hpc =>
    clear ha hq; clear q1 i1; grind

end SemWait
