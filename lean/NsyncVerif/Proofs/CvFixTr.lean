/-
  Layer `CvFix` (cv.c with the repair of F3; adapted from the `Cv` file of the same name): the transition relation of the acceptor, one constructor per (event, program point)
  with the guards as hypotheses and the successor state explicit.  `Proofs/CvFixTrStep*.lean` prove
  `step cfg s e = .ok s' → Tr cfg s e s'`; every invariant is then proved by `cases` on `Tr`.
-/
import NsyncVerif.Model.CvFix

namespace NsyncVerif.CvFix

/-- `sem_outcome` settled on return from nsync_sem_wait_with_cancel_ (identity elsewhere). -/
inductive Settle : Thr → Thr → Prop
  | id {x : Thr} (h1 : x.loc ≠ .cPre) (h2 : x.loc ≠ .cPost) : Settle x x
  | pre {x : Thr} (h : x.loc = .cPre) (hn : x.sawNote = true) :
      Settle x { x with semOut := .cancelled, loc := .wChk }
  | postOk {x : Thr} (h : x.loc = .cPost) (ht : x.cTimed = false) :
      Settle x { x with semOut := .ok, loc := .wTail }
  | postCancel {x : Thr} (h : x.loc = .cPost) (ht : x.cTimed = true) (hc : x.cNotified = true)
      (hn : x.sawNote = true) : Settle x { x with semOut := .cancelled, loc := .wChk }
  | postTimed {x : Thr} (h : x.loc = .cPost) (ht : x.cTimed = true) (hc : x.cNotified = false)
      (hd : x.semDl = x.dl) : Settle x { x with semOut := .timedOut, loc := .wChk }

theorem settle_inv {x y : Thr} (h : settleCancel x = .ok y) : Settle x y := by
  unfold settleCancel at h
  split at h
  · rename_i hl
    split at h
    · cases h; exact .pre hl ‹_›
    · cases h
  · rename_i hl
    split at h
    · rename_i hc; cases h; exact .postOk hl (by simpa using hc)
    · rename_i hc
      have ht : x.cTimed = true := by simpa using hc
      split at h
      · split at h
        · cases h; exact .postCancel hl ht ‹_› ‹_›
        · cases h
      · rename_i hcn
        split at h
        · cases h; exact .postTimed hl ht (by simpa using hcn) ‹_›
        · cases h
  · rename_i h1 h2
    cases h
    exact .id (fun e => h1 e) (fun e => h2 e)

/-- Transitions that change nothing but the frame of the acting thread. `x` is the old frame. -/
inductive LTr (s : State) (t : Tid) : Event → Thr → Prop
  | callWait (gen : Bool) (dl : Option Nat) (note : Bool) (h : (s.thr t).loc = .idle) :
      LTr s t (.callWait t gen dl note) { (s.thr t).fresh .wNew with gen := gen, dl := dl, note := note }
  | retWait (res : Outcome) (h : (s.thr t).loc = .wRet ∨ (s.thr t).loc = .wRelocking)
      (hr : res = (s.thr t).out) : LTr s t (.retWait t res) ((s.thr t).fresh .idle)
  | callSignal (h : (s.thr t).loc = .idle) :
      LTr s t (.callSignal t) { (s.thr t).fresh .sLd with bcast := false }
  | callBroadcast (h : (s.thr t).loc = .idle) :
      LTr s t (.callBroadcast t) { (s.thr t).fresh .sLd with bcast := true }
  | retSignal (h : (s.thr t).loc = .kRet) (hb : (s.thr t).bcast = false) :
      LTr s t (.retSignal t) ((s.thr t).fresh .idle)
  | retBroadcast (h : (s.thr t).loc = .kRet) (hb : (s.thr t).bcast = true) :
      LTr s t (.retBroadcast t) ((s.thr t).fresh .idle)
  | callWaitN (h : (s.thr t).loc = .idle) : LTr s t (.callWaitN t) ((s.thr t).fresh .nOut)
  | retWaitN (h : (s.thr t).loc = .nOut) (hm : (s.thr t).mine = []) :
      LTr s t (.retWaitN t) { ((s.thr t).fresh .idle) with epoch := (s.thr t).epoch + 1 }
  | relMark (op : MuOp) (h : (s.thr t).loc = .wUnlock)
      (ho : op = match (s.recs (s.thr t).r).lt with | .gen => MuOp.gen | .R => .rd | .W => .wr) :
      LTr s t (.relMark t op) { s.thr t with loc := .wUnlocking }
  | lockMark (op : MuOp) (h : (s.thr t).loc = .wExit) (hx : (s.thr t).xferd = false)
      (ho : op = match (s.recs (s.thr t).r).lt with | .gen => MuOp.gen | .R => .rd | .W => .wr) :
      LTr s t (.lockMark t op) { s.thr t with loc := .wLocking }
  | relockSlow (h : (s.thr t).loc = .wExit) (hx : (s.thr t).xferd = true) :
      LTr s t (.relockSlow t) { s.thr t with loc := .wRelocking }
  | nretUnlock (h : (s.thr t).loc = .wUnlocking) : LTr s t (.nret t) { s.thr t with loc := .wHead }
  | nretLock (h : (s.thr t).loc = .wLocking) : LTr s t (.nret t) { s.thr t with loc := .wRet }
  | spinLd (site : WSite) (obs : Nat)
      (h : (site = .spin0 ∧ (s.thr t).loc = .spLd0) ∨ (site = .spin2 ∧ (s.thr t).loc = .spLd2))
      (ho : obs = s.word.enc) :
      LTr s t (.wordLd t site obs)
        (if obs % 2 = 1 then { s.thr t with loc := .spLd2 } else { s.thr t with loc := .spCas, casExp := obs })
  | spinLdN (obs : Nat) (h : (s.thr t).loc = .nOut) (ho : obs = s.word.enc) :
      LTr s t (.wordLd t .spin0 obs)
        (if obs % 2 = 1 then { s.thr t with loc := .spLd2, cont := .waitn, setNE := false }
         else { s.thr t with loc := .spCas, casExp := obs, cont := .waitn, setNE := false })
  | sigLd (site : WSite) (obs : Nat) (h : (s.thr t).loc = .sLd)
      (hs : (site = .sigLd ∧ (s.thr t).bcast = false) ∨ (site = .bcLd ∧ (s.thr t).bcast = true))
      (ho : obs = s.word.enc) :
      LTr s t (.wordLd t site obs)
        (if obs / 2 % 2 = 1 then { s.thr t with loc := .spLd0, cont := .sig, setNE := false, seq0 := s.seq }
         else { s.thr t with loc := .kRet, seq0 := s.seq })
  | casFail (exp new obs : Nat) (h : (s.thr t).loc = .spCas) (ho : obs = s.word.enc) (hne : obs ≠ exp) :
      LTr s t (.wordCas t exp new obs false) { s.thr t with loc := .spLd2 }
  | wRc (r : Rid) (obs : Nat) (h : (s.thr t).loc = .wEnq) (hr : r = (s.thr t).r) (ho : obs = (s.recs r).rc) :
      LTr s t (.recLd t .wRc r obs) { s.thr t with saved := obs, loc := .wRel }
  | wHeadStay (r : Rid) (obs : Nat) (h : (s.thr t).loc = .wHead) (hr : r = (s.thr t).r)
      (ho : obs = b2n (s.recs r).waiting) (hz : obs ≠ 0) :
      LTr s t (.recLd t .wHead r obs)
        (if (s.thr t).semOut = .ok then
           { s.thr t with loc := if (s.thr t).note then .cPre else .wSemEnter, cTimed := false, cNotified := false }
         else { s.thr t with loc := .wChk })
  | wChk (y : Thr) (r : Rid) (obs : Nat) (hy : Settle (s.thr t) y) (h : y.loc = .wChk) (hr : r = y.r)
      (ho : obs = b2n (s.recs r).waiting) (hso : y.semOut ≠ .ok) :
      LTr s t (.recLd t .wChk r obs)
        (if obs = 0 then { y with loc := .wTail } else { y with loc := .spLd0, cont := .waitChk, setNE := false })
  | wChk2 (r : Rid) (obs : Nat) (h : (s.thr t).loc = .wChk2) (hr : r = (s.thr t).r)
      (ho : obs = b2n (s.recs r).waiting) :
      LTr s t (.recLd t .wChk2 r obs) { s.thr t with loc := if obs = 0 then .wRel2 else .wCmp }
  | wCmpNe (r : Rid) (obs : Nat) (h : (s.thr t).loc = .wCmp) (hr : r = (s.thr t).r)
      (ho : obs = (s.recs r).rc) (hne : obs ≠ (s.thr t).saved) :
      LTr s t (.recLd t .wCmp r obs) { s.thr t with loc := .wRel2 }
  | wRmLd (r : Rid) (obs : Nat) (h : (s.thr t).loc = .wRmLd) (hr : r = (s.thr t).r)
      (ho : obs = (s.recs r).rc) :
      LTr s t (.recLd t .wRmLd r obs) { s.thr t with casExp := obs, loc := .wRmCas }
  | wTail (y : Thr) (r : Rid) (obs : Nat) (hy : Settle (s.thr t) y) (h : y.loc = .wTail) (hr : r = y.r)
      (ho : obs = b2n (s.recs r).waiting) :
      LTr s t (.recLd t .wTail r obs) { y with loc := .wHead }
  | rcLd (site : RSite) (r : Rid) (obs : Nat) (h : (s.thr t).loc = .sRcLd)
      (hs : (site = .sRcLd (s.thr t).firstRc ∧ (s.thr t).bcast = false) ∨ (site = .bRcLd ∧ (s.thr t).bcast = true))
      (hr : (s.thr t).todo.head? = some r) (ho : obs = (s.recs r).rc) :
      LTr s t (.recLd t site r obs) { s.thr t with casExp := obs, loc := .sRcCas }
  | ready (r : Rid) (obs : Nat) (h : (s.thr t).loc = .nOut) (hr : r ∈ (s.thr t).mine)
      (ho : obs = b2n (s.recs r).waiting) :
      LTr s t (.recLd t .ready r obs) (s.thr t)
  | deqLd0 (r : Rid) (h : (s.thr t).loc = .nLocked) (hr : r ∈ (s.thr t).mine)
      (ho : (s.recs r).waiting = false) :
      LTr s t (.recLd t .deqLd r 0)
        { s.thr t with r := r, old := if s.queue.isEmpty then { (s.thr t).old with ne := false } else (s.thr t).old, wasQ := false, loc := .nDeqRel }
  | deqLdGone (r : Rid) (obs : Nat) (h : (s.thr t).loc = .nLocked) (hr : r ∈ (s.thr t).mine)
      (hw : (s.recs r).waiting = true) (hq : r ∉ s.queue) :
      LTr s t (.recLd t .deqLd r obs)
        { s.thr t with r := r, old := if s.queue.isEmpty then { (s.thr t).old with ne := false } else (s.thr t).old, wasQ := false, loc := .nDeqRelW }
  | deqSpinStay (r : Rid) (obs : Nat) (h : (s.thr t).loc = .nDeqSpin) (hr : r = (s.thr t).r)
      (hw : (s.recs r).waiting = true) :
      LTr s t (.recLd t .deqSpin r obs) (s.thr t)
  | wRmCasFail (r : Rid) (exp new obs : Nat) (h : (s.thr t).loc = .wRmCas) (hr : r = (s.thr t).r) :
      LTr s t (.recCas t .wRmCas r exp new obs false) { s.thr t with loc := .wRmLd }
  | sRcCasFail (site : RSite) (r : Rid) (exp new obs : Nat) (h : (s.thr t).loc = .sRcCas)
      (hr : (s.thr t).todo.head? = some r) :
      LTr s t (.recCas t site r exp new obs false) { s.thr t with loc := .sRcLd }
  | wwLd (obs : Nat) (f : Rid) (rest : List Rid) (h : (s.thr t).loc = .wwMuLd) (hl : (s.thr t).list = f :: rest) :
      LTr s t (.muLd t .wwLd obs)
        { s.thr t with muObs := obs, loc := if wantTransfer (s.recs f).lt obs (s.thr t).list.length (s.thr t).allReaders then .wwMuCas else .wwStore }
  | wwRelLd (site : MSite) (obs : Nat)
      (h : (site = .wwRelLd ∧ (s.thr t).loc = .wwRelLd) ∨ (site = .wwRelLd2 ∧ (s.thr t).loc = .wwRelLd2)) :
      LTr s t (.muLd t site obs) { s.thr t with muObs := obs, loc := .wwRelCas }
  | wwCasFail (exp new obs : Nat) (h : (s.thr t).loc = .wwMuCas) :
      LTr s t (.muCas t .wwCas exp new obs false) { s.thr t with loc := .wwStore }
  | wwRelCasOk (exp new obs : Nat) (h : (s.thr t).loc = .wwRelCas) :
      LTr s t (.muCas t .wwRelCas exp new obs true)
        { s.thr t with loc := if (s.thr t).list.isEmpty then .kRet else .wwStore }
  | wwRelCasFail (exp new obs : Nat) (h : (s.thr t).loc = .wwRelCas) :
      LTr s t (.muCas t .wwRelCas exp new obs false) { s.thr t with loc := .wwRelLd2 }
  | semPdEnterW (k : SemId) (dl : Option Nat) (h : (s.thr t).loc = .wSemEnter) (hk : (s.thr t).r = .w k)
      (hd : dl = (s.thr t).dl) :
      LTr s t (.semPdEnter t k dl) { s.thr t with semDl := dl, loc := .wSemRet }
  | semPdEnterC (k : SemId) (dl : Option Nat) (h : (s.thr t).loc = .cPre) (hk : (s.thr t).r = .w k)
      (hd : dlLe dl (s.thr t).dl = true) :
      LTr s t (.semPdEnter t k dl) { s.thr t with semDl := dl, loc := .cWait }
  | semPdRetTimedW (k : SemId) (d : Nat) (h : (s.thr t).loc = .wSemRet) (hd : (s.thr t).semDl = some d)
      (hn : d ≤ s.now) :
      LTr s t (.semPdRet t k true) { s.thr t with semOut := .timedOut, loc := .wChk }
  | semPdRetTimedC (k : SemId) (d : Nat) (h : (s.thr t).loc = .cWait) (hd : (s.thr t).semDl = some d)
      (hn : d ≤ s.now) :
      LTr s t (.semPdRet t k true) { s.thr t with cTimed := true, loc := .cPost }
  | noteSeen (h : (s.thr t).loc = .cPre ∨ (s.thr t).loc = .cWait ∨ (s.thr t).loc = .cPost) :
      LTr s t (.noteSeen t) { s.thr t with sawNote := true }
  | noteNotify (h : (s.thr t).loc = .cPost) (ht : (s.thr t).cTimed = true) :
      LTr s t (.noteNotify t) { s.thr t with cNotified := true }
  -- observers (debug.c emit_cv_state / emit_waiters)
  | callDebug (k : DKind) (h : (s.thr t).loc = .idle) :
      LTr s t (.callDebug t k) { (s.thr t).fresh .dLd with dk := k }
  | retDebug (k : DKind) (h : (s.thr t).loc = .dRet) (hk : k = (s.thr t).dk) :
      LTr s t (.retDebug t k) ((s.thr t).fresh .idle)
  | dbgLd (obs : Nat) (h : (s.thr t).loc = .dLd) (ho : obs = s.word.enc) :
      LTr s t (.wordLd t .dbgLd obs)
        (if dbgAcquires (s.thr t).dk obs = true
         then { s.thr t with dWord := obs, dIdx := 0, loc := .spLd0, cont := .dbg, setNE := false }
         else { s.thr t with dWord := obs, loc := .dRet })
  | dbgW (r : Rid) (obs : Nat) (h : (s.thr t).loc = .dWalk) (hq : s.queue[(s.thr t).dIdx]? = some r)
      (hm : r.isMucv = true) (ho : obs = b2n (s.recs r).waiting) :
      LTr s t (.recLd t .dbgW r obs) { s.thr t with loc := .dRc }
  | dbgRc (r : Rid) (obs : Nat) (h : (s.thr t).loc = .dRc) (hq : s.queue[(s.thr t).dIdx]? = some r)
      (ho : obs = (s.recs r).rc) :
      LTr s t (.recLd t .dbgRc r obs) { s.thr t with dIdx := (s.thr t).dIdx + 1, loc := .dWalk }

/-- Atomic operations (as opposed to API boundaries, marks, semaphore operations). -/
def Event.isAtomic : Event → Bool
  | .wordLd .. | .wordCas .. | .wordSt .. | .recLd .. | .recSt .. | .recCas .. | .muLd .. | .muCas .. => true
  | _ => false

/-- All transitions. -/
inductive Tr (cfg : Config) : State → Event → State → Prop
  /-- events that leave the state unchanged (and touch no record): none of them is an atomic
      operation of cv.c / debug.c -/
  | same {s : State} (e : Event) (h : touches s e = []) (hna : e.isAtomic = false) : Tr cfg s e s
  | tick {s : State} (ns : Nat) (h : s.now ≤ ns) : Tr cfg s (.tick ns) { s with now := ns }
  | loc {s : State} {t : Tid} {e : Event} {x' : Thr} (h : LTr s t e x') : Tr cfg s e (s.setThr t x')
  -- acquisition of the spinlock
  | acq {s : State} (t : Tid) (exp new obs : Nat) (o n : Word) (h : (s.thr t).loc = .spCas)
      (hexp : exp = (s.thr t).casExp) (hw : obs = s.word.enc) (he : obs = exp) (ho : Word.dec? exp = some o) (hn : Word.dec? new = some n)
      (hnew : new = exp + 1 + (if (s.thr t).setNE ∧ exp / 2 % 2 = 0 then 2 else 0)) :
      Tr cfg s (.wordCas t exp new obs true)
        (afterAcquire { s with word := n, holder := some t } t { s.thr t with old := o })
  -- releases of the spinlock
  | relWait {s : State} (t : Tid) (new obs : Nat) (n : Word) (h : (s.thr t).loc = .wRel)
      (hh : s.holder = some t) (hnew : new = (s.thr t).old.enc) (hn : Word.dec? new = some n) (hsp : n.spin = false) :
      Tr cfg s (.wordSt t .waitRel new obs)
        ({ s with word := n, holder := none, seq := s.seq + 1 }.setRec (s.thr t).r
            { s.recs (s.thr t).r with pub := true, enqSeq := s.seq }
          |>.setThr t { s.thr t with loc := .wUnlock })
  | relWait2 {s : State} (t : Tid) (new obs : Nat) (n : Word) (h : (s.thr t).loc = .wRel2)
      (hh : s.holder = some t) (hnew : new = (s.thr t).old.enc) (hn : Word.dec? new = some n) (hsp : n.spin = false) :
      Tr cfg s (.wordSt t .waitRel2 new obs)
        ({ s with word := n, holder := none }.setThr t { s.thr t with loc := .wTail })
  | relSig {s : State} (t : Tid) (site : WSite) (new obs : Nat) (n : Word) (h : (s.thr t).loc = .sRel)
      (hs : (site = .sigRel ∧ (s.thr t).bcast = false) ∨ (site = .bcRel ∧ (s.thr t).bcast = true))
      (hh : s.holder = some t) (hnew : new = if (s.thr t).bcast then 0 else (s.thr t).old.enc)
      (hn : Word.dec? new = some n) (hsp : n.spin = false) :
      Tr cfg s (.wordSt t site new obs)
        ({ s with word := n, holder := none }.setThr t { s.thr t with loc := wakeEntry s (s.thr t).list })
  | relEnq {s : State} (t : Tid) (new obs : Nat) (n : Word) (h : (s.thr t).loc = .nEnqRel)
      (hh : s.holder = some t) (hnew : new = (s.thr t).old.enc) (hn : Word.dec? new = some n) (hsp : n.spin = false) :
      Tr cfg s (.wordSt t .enqRel new obs)
        ({ s with word := n, holder := none, seq := s.seq + 1 }.setRec (s.thr t).r
            { s.recs (s.thr t).r with pub := true, enqSeq := s.seq }
          |>.setThr t { s.thr t with loc := .nOut })
  | relDeq {s : State} (t : Tid) (new obs : Nat) (n : Word) (h : (s.thr t).loc = .nDeqRel)
      (hh : s.holder = some t) (hnew : new = (s.thr t).old.enc) (hn : Word.dec? new = some n) (hsp : n.spin = false) :
      Tr cfg s (.wordSt t .deqRel new obs)
        ({ s with word := n, holder := none }.setRec (s.thr t).r
            { s.recs (s.thr t).r with stat := match (s.recs (s.thr t).r).stat with | .listed u => RStat.listed u | _ => RStat.idle }
          |>.setThr t { s.thr t with loc := .nOut, mine := (s.thr t).mine.erase (s.thr t).r })
  | relDeqW {s : State} (t : Tid) (new obs : Nat) (n : Word) (h : (s.thr t).loc = .nDeqRelW)
      (hh : s.holder = some t) (hnew : new = (s.thr t).old.enc) (hn : Word.dec? new = some n) (hsp : n.spin = false) :
      Tr cfg s (.wordSt t .deqRel new obs)
        ({ s with word := n, holder := none }.setThr t { s.thr t with loc := .nDeqSpin })
  | relDbg {s : State} (t : Tid) (new obs : Nat) (n : Word) (h : (s.thr t).loc = .dWalk)
      (hh : s.holder = some t) (hnew : new = (s.thr t).old.enc) (hn : Word.dec? new = some n) (hsp : n.spin = false) :
      Tr cfg s (.wordSt t .dbgRel new obs)
        ({ s with word := n, holder := none }.setThr t { s.thr t with loc := .dRet })
  -- loads with an effect on shared state
  | wHeadExit {s : State} (t : Tid) (r : Rid) (y : Thr) (hy : y = s.thr t) (h : y.loc = .wHead) (hr : r = y.r)
      (hw : (s.recs r).waiting = false) :
      Tr cfg s (.recLd t .wHead r 0)
        ({ s with bad := s.bad || (s.recs r).stat.registered }.setRec r
            { s.recs r with stat := .idle }
          |>.setThr t { y with loc := .wExit, xferd := decide ((s.recs r).stat = RStat.xfer), exitUnl := (s.recs r).unl })
  | wCmpEq {s : State} (t : Tid) (r : Rid) (obs : Nat) (h : (s.thr t).loc = .wCmp) (hr : r = (s.thr t).r)
      (ho : obs = (s.recs r).rc) (he : obs = (s.thr t).saved) :
      Tr cfg s (.recLd t .wCmp r obs)
        ({ s with queue := s.queue.erase r, bad := s.bad || decide ((s.recs r).stat ≠ RStat.queued) }.setRec r
            { s.recs r with stat := .selfOut, unl := (s.recs r).unl ++ [Unl.self] }
          |>.setThr t { s.thr t with loc := .wRmLd, old := if (s.queue.erase r).isEmpty then { (s.thr t).old with ne := false } else (s.thr t).old })
  | deqLdQueued {s : State} (t : Tid) (r : Rid) (obs : Nat) (h : (s.thr t).loc = .nLocked) (hr : r ∈ (s.thr t).mine)
      (hw : (s.recs r).waiting = true) (hq : r ∈ s.queue) :
      Tr cfg s (.recLd t .deqLd r obs)
        ({ s with queue := s.queue.erase r }.setRec r
            { s.recs r with stat := .selfOut, unl := (s.recs r).unl ++ [Unl.self] }
          |>.setThr t { s.thr t with r := r, loc := .nDeqSt, wasQ := true, old := if (s.queue.erase r).isEmpty then { (s.thr t).old with ne := false } else (s.thr t).old })
  | deqSpinExit {s : State} (t : Tid) (r : Rid) (h : (s.thr t).loc = .nDeqSpin) (hr : r = (s.thr t).r)
      (hw : (s.recs r).waiting = false) :
      Tr cfg s (.recLd t .deqSpin r 0)
        (s.setRec r
            { s.recs r with stat := match (s.recs r).stat with | .listed u => RStat.listed u | _ => RStat.idle }
          |>.setThr t { s.thr t with loc := .nOut, mine := (s.thr t).mine.erase r })
  -- stores to record fields
  | wSt1 {s : State} (t : Tid) (r : Rid) (obs : Nat) (h : (s.thr t).loc = .wNew) (hm : r.isMucv = true)
      (hst : (s.recs r).stat = .idle) :
      Tr cfg s (.recSt t .wSt1 r 1 obs)
        (s.setRec r { s.recs r with waiting := true, owner := t, stat := .prep, pub := false, unl := [], posted := false, lt := .gen }
          |>.setThr t (if (s.thr t).gen then { s.thr t with r := r, loc := .spLd0, cont := .waitEnq, setNE := true }
                       else { s.thr t with r := r, loc := .wMode }))
  | wClr {s : State} (t : Tid) (r : Rid) (obs : Nat) (h : (s.thr t).loc = .wClr) (hr : r = (s.thr t).r) :
      Tr cfg s (.recSt t .wClr r 0 obs)
        (s.setRec r { s.recs r with waiting := false }
          |>.setThr t { s.thr t with out := (s.thr t).semOut, loc := .wRel2 })
  | wake {s : State} (t : Tid) (r : Rid) (obs : Nat) (h : (s.thr t).loc = .wwStore)
      (hr : (s.thr t).list.head? = some r) :
      Tr cfg s (.recSt t .wake r 0 obs)
        (s.setRec r { s.recs r with waiting := false, stat := match (s.recs r).stat with | .listed _ => .woken | st => st }
          |>.setThr t { s.thr t with list := (s.thr t).list.tail, cur := some (r, (s.recs r).enqSeq), loc := .wwV })
  | enqSt {s : State} (t : Tid) (r : Rid) (obs : Nat) (h : (s.thr t).loc = .nLocked) (hm : r.isMucv = false)
      (hst : (s.recs r).stat = .idle) (ho : (s.recs r).owner = t) (he : (s.recs r).epoch = (s.thr t).epoch) :
      Tr cfg s (.recSt t .enqSt r 1 obs)
        ({ s with queue := s.queue ++ [r] }.setRec r
            { s.recs r with waiting := true, stat := .queued, pub := false, unl := [], posted := false }
          |>.setThr t { s.thr t with r := r, mine := r :: (s.thr t).mine, old := { (s.thr t).old with ne := true }, loc := .nEnqRel })
  | deqSt {s : State} (t : Tid) (r : Rid) (obs : Nat) (h : (s.thr t).loc = .nDeqSt) (hr : r = (s.thr t).r) :
      Tr cfg s (.recSt t .deqSt r 0 obs)
        (s.setRec r { s.recs r with waiting := false } |>.setThr t { s.thr t with loc := .nDeqRel })
  -- remove_count++
  | wRmCasOk {s : State} (t : Tid) (r : Rid) (exp new obs : Nat) (h : (s.thr t).loc = .wRmCas)
      (hr : r = (s.thr t).r) (hn : new = exp + 1) (ho : obs = (s.recs r).rc) (he : obs = exp) :
      Tr cfg s (.recCas t .wRmCas r exp new obs true)
        (s.setRec r { s.recs r with rc := new } |>.setThr t { s.thr t with loc := .wClr })
  | sRcCasOk {s : State} (t : Tid) (site : RSite) (r : Rid) (exp new obs : Nat) (h : (s.thr t).loc = .sRcCas)
      (hr : (s.thr t).todo.head? = some r) (hn : new = exp + 1) (ho : obs = (s.recs r).rc) (he : obs = exp) :
      Tr cfg s (.recCas t site r exp new obs true)
        (s.setRec r { s.recs r with rc := new }
          |>.setThr t { s.thr t with todo := (s.thr t).todo.tail, firstRc := false, loc := if (s.thr t).todo.tail.isEmpty then .sRel else .sRcLd })
  -- mutex word
  | muMode {s : State} (t : Tid) (obs : Nat) (lt : LType) (h : (s.thr t).loc = .wMode) (hl : lt ≠ .gen) :
      Tr cfg s (.muLd t .wMode obs)
        (s.setRec (s.thr t).r { s.recs (s.thr t).r with lt := lt }
          |>.setThr t { s.thr t with loc := .spLd0, cont := .waitEnq, setNE := true })
  | wwCasOk {s : State} (t : Tid) (exp new obs : Nat) (f : Rid) (rest : List Rid) (h : (s.thr t).loc = .wwMuCas)
      (hl : (s.thr t).list = f :: rest) :
      Tr cfg s (.muCas t .wwCas exp new obs true)
        { s with recs := fun r => if (transferSet s.recs (firstCantAcquire (s.recs f).lt exp) (s.thr t).list).contains r then { s.recs r with stat := .xfer } else s.recs r, thr := updT s.thr t { s.thr t with list := (s.thr t).list.filter (fun r => !((transferSet s.recs (firstCantAcquire (s.recs f).lt exp) (s.thr t).list).contains r)), setOnRel := setOnRelease s.recs (firstCantAcquire (s.recs f).lt exp) (s.thr t).list, loc := .wwRelLd } }
  -- semaphores
  | semVWake {s : State} (t : Tid) (k : SemId) (r : Rid) (q : Nat) (h : (s.thr t).loc = .wwV)
      (hc : (s.thr t).cur = some (r, q)) :
      Tr cfg s (.semV t k)
        ({ s with sem := updS s.sem k (vCount cfg (s.sem k)) }.setRec r
            { s.recs r with posted := (s.recs r).posted || (decide ((s.recs r).enqSeq = q) && decide ((s.recs r).stat = RStat.woken)) }
          |>.setThr t { s.thr t with cur := none, loc := if (s.thr t).list.isEmpty then .kRet else .wwStore })
  | semOther {s : State} (e : Event) (sem' : SemId → Nat) (h : touches s e = [])
      (hopen : ∀ t, e.tid = some t → (s.thr t).loc.isOpen = true) :
      Tr cfg s e { s with sem := sem' }
  | semPdRetOkW {s : State} (t : Tid) (k : SemId) (h : (s.thr t).loc = .wSemRet) :
      Tr cfg s (.semPdRet t k false)
        ({ s with sem := updS s.sem k (s.sem k - 1) }.setThr t { s.thr t with loc := .wTail })
  | semPdRetOkC {s : State} (t : Tid) (k : SemId) (h : (s.thr t).loc = .cWait) :
      Tr cfg s (.semPdRet t k false)
        ({ s with sem := updS s.sem k (s.sem k - 1) }.setThr t { s.thr t with cTimed := false, loc := .cPost })
  -- foreign accesses and initialisation
  | wInit {s : State} (t : Tid) (r : Rid) (h : (s.thr t).loc.isOpen = true) (hm : r.isMucv = true)
      (hst : (s.recs r).stat = .idle) :
      Tr cfg s (.wInit t r) (s.setRec r { s.recs r with rc := 0, waiting := false })
  | nwInit {s : State} (t : Tid) (r : Rid) (h : (s.thr t).loc = .nOut) (hm : r.isMucv = false)
      (hst : (s.recs r).stat = .idle) :
      Tr cfg s (.nwInit t r)
        (s.setRec r { s.recs r with waiting := false, owner := t, epoch := (s.thr t).epoch })
  | fStW {s : State} (t : Tid) (r : Rid) (new : Nat) (h : (s.thr t).loc.isOpen = true)
      (hf : foreignOk (s.recs r) = true) :
      Tr cfg s (.fSt t r .waiting new) (s.setRec r { s.recs r with waiting := decide (new = 1) })
  | fCasOk {s : State} (t : Tid) (r : Rid) (exp new obs : Nat) (h : (s.thr t).loc.isOpen = true)
      (hf : foreignOk (s.recs r) = true) (hn : new = exp + 1) (ho : obs = (s.recs r).rc) (he : obs = exp) :
      Tr cfg s (.fCas t r .rc exp new obs true) (s.setRec r { s.recs r with rc := new })

end NsyncVerif.CvFix
