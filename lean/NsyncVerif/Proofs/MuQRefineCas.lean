import NsyncVerif.Proofs.MuQRefineApi
/-
  MuQ refinement, part 3: compare-and-swap steps.
-/
namespace NsyncVerif.MuQ

theorem ts_setFn_none (s : State) (t : Tid) (p : PC) (h : s.held t = none) :
    (fun u => tshare (s.held u) (setFn s.pc t p u)) = setFn (fun u => tshare (s.held u) (s.pc u)) t (pcShare p) := by
  funext u; simp only [setFn]; split
  · rename_i hu; subst hu; simp [tshare, h]
  · rfl

theorem ro_setFn_same (s : State) (t : Tid) (p : PC) (h : role p = role (s.pc t)) :
    (fun u => role (setFn s.pc t p u)) = fun u => role (s.pc u) := by
  funext u; simp only [setFn]; split
  · rename_i hu; subst hu; exact h
  · rfl

theorem addWord_eq (l : Mode) : addWord l = acqWord l false false Word.zero := by cases l <;> rfl

theorem blocked_zero (l : Mode) : blocked l false Word.zero = false := by cases l <;> rfl

theorem relUnc_addWord (l : Mode) : relUncWord l (addWord l) = Word.zero := by cases l <;> rfl

theorem hasShare_addWord (l : Mode) : hasShare l (addWord l) = true := by cases l <;> rfl

/-- Successful acquiring CAS from a quiet program point. -/
theorem refines_acqFresh {cfg : Cfg} (s : State) (t : Tid) (l : Mode) (p : PC)
    (hnone : s.held t = none) (hr0 : role (s.pc t) = .quiet) (hs0 : pcShare (s.pc t) = none)
    (hr : role p = .quiet) (hs : pcShare p = some l) (hb : blocked l false s.word = false) :
    Refines cfg s (addShare { setPc s t p with word := acqWord l false false s.word } t l) := by
  right
  have := AStep.acqFresh (cfg := cfg) (abs s) t l (by simp [abs_ro, hr0]) (by simp [abs_ts, hnone, tshare, hs0])
    (by simpa [abs] using hb)
  refine astep_cast this ?_
  cases l <;>
  · simp only [abs, addShare, AState.addShare, setPc, AState.mk.injEq, true_and]
    refine ⟨?_, ro_setFn_same s t p (by rw [hr, hr0])⟩
    rw [ts_setFn_none s t p hnone, hs]

/-- Successful releasing CAS that does not take the spinlock. -/
theorem refines_release {cfg : Cfg} (s : State) (t : Tid) (l : Mode) (p : PC)
    (hnone : s.held t = none) (hr0 : role (s.pc t) = .quiet) (hs0 : pcShare (s.pc t) = some l)
    (hr : role p = .quiet) (hs : pcShare p = none) (hh : hasShare l s.word = true) (hc : relCond s.word) :
    Refines cfg s (subShare { setPc s t p with word := relUncWord l s.word } t l) := by
  right
  have := AStep.release (cfg := cfg) (abs s) t l (by simp [abs_ro, hr0]) (by simp [abs_ts, hnone, tshare, hs0])
    (by simpa [abs] using hh) (by simpa [abs] using hc)
  refine astep_cast this ?_
  cases l <;>
  · simp only [abs, subShare, AState.subShare, setPc, AState.mk.injEq, true_and]
    refine ⟨?_, ro_setFn_same s t p (by rw [hr, hr0])⟩
    rw [ts_setFn_none s t p hnone, hs]

theorem abs_scanAdvance (s : State) (t : Tid) (l : Mode) (sc : Scan) (hnone : s.held t = none) :
    abs (scanAdvance s t l sc) = (({ abs s with ts := setFn (abs s).ts t none } : AState).advance t sc) := by
  simp only [scanAdvance, AState.advance, abs]
  split
  · rename_i k sc' hg; simp only [hg]
    simp only [setPc, AState.mk.injEq, true_and]
    refine ⟨?_, ro_setFn s t _⟩
    rw [ts_setFn_none s t _ hnone]; rfl
  · rename_i sc' hg; simp only [hg]
    simp only [setPc, AState.mk.injEq, true_and]
    refine ⟨?_, ro_setFn s t _⟩
    rw [ts_setFn_none s t _ hnone]; rfl

theorem side_scanAdvance {s : State} (t : Tid) (l : Mode) (sc : Scan) (hk : PcOk s) (hh : HeldIdle s)
    (hnone : s.held t = none) : PcOk (scanAdvance s t l sc) ∧ HeldIdle (scanAdvance s t l sc) := by
  simp only [scanAdvance]
  split
  · exact side_of_pc t _ hk hh rfl rfl (by simp [PC.ok]) hnone
  · exact side_of_pc t _ hk hh rfl rfl (by simp [PC.ok]) hnone

end NsyncVerif.MuQ

namespace NsyncVerif.MuQ

@[simp] theorem addShare_pc (s : State) (t : Tid) (l : Mode) : (addShare s t l).pc = s.pc := by cases l <;> rfl
@[simp] theorem addShare_held (s : State) (t : Tid) (l : Mode) : (addShare s t l).held = s.held := by cases l <;> rfl
@[simp] theorem subShare_pc (s : State) (t : Tid) (l : Mode) : (subShare s t l).pc = s.pc := by cases l <;> rfl
@[simp] theorem subShare_held (s : State) (t : Tid) (l : Mode) : (subShare s t l).held = s.held := by cases l <;> rfl
@[simp] theorem dropW_pc (s : State) (w : Option Wid) : (dropW s w).pc = s.pc := by cases w <;> rfl
@[simp] theorem dropW_held (s : State) (w : Option Wid) : (dropW s w).held = s.held := by cases w <;> rfl

theorem stepCas_refines {cfg : Cfg} {s s' : State} {t : Tid} {o : Ord} {loc : Loc} {exp new obs : Nat} {ok : Bool}
    (hk : PcOk s) (hh : HeldIdle s) (h : stepCas s t o loc exp new obs ok = .ok s') :
    Refines cfg s s' ∧ PcOk s' ∧ HeldIdle s' := by
  have hkt := hk t
  unfold stepCas at h
  cases hp : s.pc t <;> simp only [hp] at h hkt <;> try (cases h; done)
  all_goals have hnone : s.held t = none := held_none_of_active hh (by rw [hp]; simp)
  case lkCas0 l =>
    rcases casWord_ok h with ⟨hw, _, rfl⟩ | ⟨_, _, rfl⟩
    · refine ⟨?_, side_of_pc t (.lkRet l) hk hh (by simp [setPc]) (by simp [setPc]) (by simp [PC.ok]) hnone⟩
      have := refines_acqFresh (cfg := cfg) s t l (.lkRet l) hnone (by simp [hp, role]) (by simp [hp, pcShare])
        (by simp [role]) (by simp [pcShare]) (by rw [hw]; exact blocked_zero l)
      rw [hw, ← addWord_eq] at this; exact this
    · exact ⟨refines_quiet s t _ (by simp [hp, pcShare]) (by simp [hp, role]), side_setPc t _ hk hh (by simp [PC.ok]) (Or.inl hnone)⟩
  case lkCas1 l old =>
    rcases casWord_ok h with ⟨hw, _, rfl⟩ | ⟨_, _, rfl⟩
    · refine ⟨?_, side_of_pc t (.lkRet l) hk hh (by simp [setPc]) (by simp [setPc]) (by simp [PC.ok]) hnone⟩
      have := refines_acqFresh (cfg := cfg) s t l (.lkRet l) hnone (by simp [hp, role]) (by simp [hp, pcShare])
        (by simp [role]) (by simp [pcShare]) (by rw [hw]; exact hkt)
      rw [hw] at this; exact this
    · refine ⟨refines_ro s t _ (by simp [hp, pcShare]) ?_, side_setPc t _ hk hh ?_ (Or.inl hnone)⟩
      · exact AStep.enterSlow (abs s) t l (by simp [abs_ro, hp, role]) (by simp [abs_ts, hp, hnone, tshare, pcShare])
      · simp [PC.ok, SL.ok, SL.entry, longWaitThreshold]
  case tryCas0 l =>
    rcases casWord_ok h with ⟨hw, _, rfl⟩ | ⟨_, _, rfl⟩
    · refine ⟨?_, side_of_pc t (.tryRet l true) hk hh (by simp [setPc]) (by simp [setPc]) (by simp [PC.ok]) hnone⟩
      have := refines_acqFresh (cfg := cfg) s t l (.tryRet l true) hnone (by simp [hp, role]) (by simp [hp, pcShare])
        (by simp [role]) (by simp [pcShare]) (by rw [hw]; exact blocked_zero l)
      rw [hw, ← addWord_eq] at this; exact this
    · exact ⟨refines_quiet s t _ (by simp [hp, pcShare]) (by simp [hp, role]), side_setPc t _ hk hh (by simp [PC.ok]) (Or.inl hnone)⟩
  case tryCas1 l old =>
    rcases casWord_ok h with ⟨hw, _, rfl⟩ | ⟨_, _, rfl⟩
    · refine ⟨?_, side_of_pc t (.tryRet l true) hk hh (by simp [setPc]) (by simp [setPc]) (by simp [PC.ok]) hnone⟩
      have := refines_acqFresh (cfg := cfg) s t l (.tryRet l true) hnone (by simp [hp, role]) (by simp [hp, pcShare])
        (by simp [role]) (by simp [pcShare]) (by rw [hw]; exact hkt)
      rw [hw] at this; exact this
    · exact ⟨refines_quiet s t _ (by simp [hp, pcShare]) (by simp [hp, role]), side_setPc t _ hk hh (by simp [PC.ok]) (Or.inl hnone)⟩
  case lsCasAcq c old =>
    rcases casWord_ok h with ⟨hw, _, rfl⟩ | ⟨_, _, rfl⟩
    · refine ⟨?_, side_of_pc t (.lkRet c.l) hk hh (by simp [setPc]) (by simp [setPc]) (by simp [PC.ok]) hnone⟩
      right
      have := AStep.acqSlow (cfg := cfg) (abs s) t c (by simp [abs_ro, hp, role])
        (by simp [abs_ts, hp, hnone, tshare, pcShare]) (by simp only [abs]; rw [hw]; exact hkt.2.2)
      refine astep_cast this ?_
      subst hw
      cases hl : c.l <;> cases hcw : c.w <;>
      · simp only [abs, addShare, AState.addShare, dropW, AState.dropW, setPc, AState.mk.injEq, true_and]
        refine ⟨?_, ro_setFn s t _⟩
        rw [ts_setFn_none s t _ hnone]; simp [pcShare]
    · exact ⟨refines_quiet s t _ (by simp [hp, pcShare]) (by simp [hp, role]), side_setPc t _ hk hh (by simp_all [PC.ok]) (Or.inl hnone)⟩
  case lsCasEnq c old =>
    rcases casWord_ok h with ⟨hw, _, rfl⟩ | ⟨_, _, rfl⟩
    · refine ⟨?_, side_of_pc t (.lsSt c) hk hh rfl rfl (by simp_all [PC.ok]) hnone⟩
      right
      subst hw
      have := AStep.enq (cfg := cfg) (abs s) t c (by simp [abs_ro, hp, role])
        (by simpa [abs] using hkt.2.2.2) (by simpa [abs] using hkt.2.2.1)
      refine astep_cast this ?_
      simp only [abs, setPc, AState.mk.injEq, true_and]
      exact ⟨ts_setFn s t _ (by simp [hp, pcShare]), ro_setFn s t _⟩
    · exact ⟨refines_quiet s t _ (by simp [hp, pcShare]) (by simp [hp, role]), side_setPc t _ hk hh (by simp_all [PC.ok]) (Or.inl hnone)⟩
  case lsRelCas c old =>
    rcases casWord_ok h with ⟨hw, _, rfl⟩ | ⟨_, _, rfl⟩
    · refine ⟨?_, side_of_pc t (.lsWaitLd c) hk hh rfl rfl (by simp_all [PC.ok]) hnone⟩
      right
      subst hw
      have := AStep.relSpin (cfg := cfg) (abs s) t c (by simp [abs_ro, hp, role])
      refine astep_cast this ?_
      simp only [abs, setPc, AState.mk.injEq, true_and]
      exact ⟨ts_setFn s t _ (by simp [hp, pcShare]), ro_setFn s t _⟩
    · exact ⟨refines_quiet s t _ (by simp [hp, pcShare]) (by simp [hp, role]), side_setPc t _ hk hh (by simp_all [PC.ok]) (Or.inl hnone)⟩
  case ulCas0 l =>
    rcases casWord_ok h with ⟨hw, _, rfl⟩ | ⟨_, _, rfl⟩
    · refine ⟨?_, side_of_pc t (.ulRet l) hk hh (by simp [setPc]) (by simp [setPc]) (by simp [PC.ok]) hnone⟩
      have := refines_release (cfg := cfg) s t l (.ulRet l) hnone (by simp [hp, role]) (by simp [hp, pcShare])
        (by simp [role]) (by simp [pcShare]) (by rw [hw]; exact hasShare_addWord l)
        (by rw [hw]; intro hx; cases l <;> simp [addWord, Word.zero] at hx)
      rw [hw, relUnc_addWord] at this; exact this
    · exact ⟨refines_quiet s t _ (by simp [hp, pcShare]) (by simp [hp, role]), side_setPc t _ hk hh (by simp [PC.ok]) (Or.inl hnone)⟩
  case ulCas1 l old =>
    rcases casWord_ok h with ⟨hw, _, rfl⟩ | ⟨_, _, rfl⟩
    · refine ⟨?_, side_of_pc t (.ulRet l) hk hh (by simp [setPc]) (by simp [setPc]) (by simp [PC.ok]) hnone⟩
      have := refines_release (cfg := cfg) s t l (.ulRet l) hnone (by simp [hp, role]) (by simp [hp, pcShare])
        (by simp [role]) (by simp [pcShare]) (by rw [hw]; cases l <;> exact hkt.1)
        (by
          rw [hw]; intro hx
          cases l
          · have := hkt.2; simp only [hx, true_and] at this
            left; cases hd : old.desig <;> simp_all
          · have h1 := hkt.1; have h2 := hkt.2
            simp only [hasShare, bne_iff_ne, ne_eq] at h1
            cases hd : old.desig
            · cases ha : old.af
              · right; left; simp only [hx, hd, ha, true_and, and_true] at h2; omega
              · right; right; rfl
            · left; rfl)
      rw [hw] at this; exact this
    · exact ⟨refines_quiet s t _ (by simp [hp, pcShare]) (by simp [hp, role]), side_setPc t _ hk hh (by simp [PC.ok]) (Or.inl hnone)⟩
  case usCasUnc l old =>
    rcases casWord_ok h with ⟨hw, _, rfl⟩ | ⟨_, _, rfl⟩
    · refine ⟨?_, side_of_pc t (.ulRet l) hk hh (by simp [setPc]) (by simp [setPc]) (by simp [PC.ok]) hnone⟩
      have := refines_release (cfg := cfg) s t l (.ulRet l) hnone (by simp [hp, role]) (by simp [hp, pcShare])
        (by simp [role]) (by simp [pcShare]) (by rw [hw]; exact hkt.1)
        (by
          rw [hw]; intro hx
          have h2 := hkt.2
          simp only [uncontended, hx, Bool.not_true, Bool.false_or, Bool.or_eq_true, decide_eq_true_eq,
            Bool.and_eq_true, beq_iff_eq] at h2
          rcases h2 with (h2 | h2) | h2
          · left; exact h2
          · right; left; exact h2
          · right; right; exact h2.2)
      rw [hw] at this; exact this
    · exact ⟨refines_quiet s t _ (by simp [hp, pcShare]) (by simp [hp, role]), side_setPc t _ hk hh (by simp [PC.ok]) (Or.inl hnone)⟩
  case usCasGrab l old =>
    rcases casWord_ok h with ⟨hw, _, rfl⟩ | ⟨_, _, rfl⟩
    · subst hw
      have hside : PcOk (subShare { s with word := grabWord l s.word, sp := some t } t l) ∧
          HeldIdle (subShare { s with word := grabWord l s.word, sp := some t } t l) :=
        side_same hk hh (by simp) (by simp)
      refine ⟨?_, side_scanAdvance t l _ hside.1 hside.2 (by simpa using hnone)⟩
      right
      have := AStep.grab (cfg := cfg) (abs s) t l (by simp [abs_ro, hp, role])
        (by simp [abs_ts, hp, hnone, tshare, pcShare]) (by simpa [abs] using hkt.1)
        (by simpa [abs] using hkt.2.1) (by simpa [abs] using hkt.2.2)
      refine astep_cast this ?_
      rw [abs_scanAdvance _ t l _ (by simpa using hnone)]
      congr 1
      cases l <;> simp [abs, subShare, AState.subShare, scan0]
    · exact ⟨refines_quiet s t _ (by simp [hp, pcShare]) (by simp [hp, role]), side_setPc t _ hk hh (by simp [PC.ok]) (Or.inl hnone)⟩
  case usRcCas l sc k old =>
    split at h; · cases h
    split at h; · cases h
    split at h; · cases h
    split at h; · cases h
    split at h; · cases h
    cases h
    split
    · refine ⟨?_, side_scanAdvance t l _ hk hh hnone⟩
      right
      have := AStep.rcDone (cfg := cfg) (abs s) t sc (by simp [abs_ro, hp, role])
      refine astep_cast this ?_
      rw [abs_scanAdvance _ t l _ hnone]
      congr 1
      have : (abs s).ts t = none := by simp [abs_ts, hp, hnone, tshare, pcShare]
      rw [← this, setFn_self]
    · exact ⟨refines_quiet s t _ (by simp [hp, pcShare]) (by simp [hp, role]), side_setPc t _ hk hh (by simp [PC.ok]) (Or.inl hnone)⟩
  case usFinCas l f old =>
    rcases casWord_ok h with ⟨hw, _, rfl⟩ | ⟨_, _, rfl⟩
    · subst hw
      have hside : PcOk (afterFin { s with word := finWord f s.word, sp := none } t l f.wake) ∧
          HeldIdle (afterFin { s with word := finWord f s.word, sp := none } t l f.wake) := by
        cases f.wake with
        | nil => exact side_of_pc t (.ulRet l) hk hh rfl rfl (by simp [PC.ok]) hnone
        | cons k2 r2 => exact side_of_pc t (.usWakeSt l k2 r2) hk hh rfl rfl (by simp [PC.ok]) hnone
      refine ⟨?_, hside⟩
      right
      have := AStep.finish (cfg := cfg) (abs s) t f (by simp [abs_ro, hp, role])
      refine astep_cast this ?_
      cases f.wake with
      | nil =>
        simp only [abs, afterFin, setPc, roleAfter, AState.mk.injEq, true_and]
        exact ⟨ts_setFn s t _ (by simp [hp, pcShare]), ro_setFn s t _⟩
      | cons k2 r2 =>
        simp only [abs, afterFin, setPc, roleAfter, AState.mk.injEq, true_and]
        exact ⟨ts_setFn s t _ (by simp [hp, pcShare]), ro_setFn s t _⟩
    · exact ⟨refines_quiet s t _ (by simp [hp, pcShare]) (by simp [hp, role]), side_setPc t _ hk hh (by simp [PC.ok]) (Or.inl hnone)⟩

end NsyncVerif.MuQ
