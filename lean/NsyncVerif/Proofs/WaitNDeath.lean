/-
  Proofs/WaitNDeath.lean — the end of a record's lifetime: a record dies only in the `free` / return step
  of its owner, after all dequeue calls of that nsync_wait_n; and what that implies under `QInv`.
-/
import NsyncVerif.Proofs.WaitNTouch

set_option linter.unusedSimpArgs false
set_option linter.unusedVariables false

namespace WaitN

/-- a record that dies in this step: the step is the `free` / return of its owner t, the record is one
    of t's, and its dequeue call is over -/
theorem dies_facts {s s' : State} {ev : Event} {r : Rid} (hr : Reachable s) (hs : step s ev = .ok s')
    (hl : (s.rcd r).live = true) (hd : (s'.rcd r).live = false) :
    ∃ t e, ev = .thr t e ∧ r ∈ (s.fr t).recs ∧ (s.rcd r).owner = t ∧ (s.rcd r).deqd = true
      ∧ (s.pc t = .wFree ∨ ∃ r0, s.pc t = .wRet r0) ∧ (s.fr t).frees = 0 := by
  cases ev with
  | tick ns =>
    simp only [step] at hs
    split at hs
    · cases hs; rw [hl] at hd; cases hd
    · simp at hs
  | thr t e =>
    simp only [step] at hs
    have hq := qinv_of_reachable hr
    have hown := own_of_reachable hr
    have hli := linv_of_reachable hr t
    rcases quiet_or_structural hs with q | st
    · rw [q.live, hl] at hd; cases hd
    · cases st with
      | call mu dl objs nested hpc hne hk hs' =>
        subst hs'; simp only [setPc_rcd, setFr_rcd] at hd; rw [hl] at hd; cases hd
      | init i r0 oid hpc hoid hdead hi hs' =>
        subst hs'
        simp only [setPc_rcd, setFr_rcd, setRec_rcd] at hd
        split at hd
        · cases hd
        · rw [hl] at hd; cases hd
      | free hpc hs' =>
        subst hs'
        simp only [setPc_rcd, setFr_rcd, kill_rcd] at hd
        have hf0 : (s.fr t).frees = 0 := frees_of_linv_free (hpc ▸ hli)
        by_cases hm : r ∈ (s.fr t).recs
        · obtain ⟨k, hk⟩ := List.getElem?_of_mem hm
          have hc : inCall (s.pc t) = true := by rw [hpc]; rfl
          have hdq := ((hq.cf t).dq hc hf0 k r hk).2
          rw [hpc] at hdq
          refine ⟨t, e, rfl, hm, (hown.own t r hc hf0 hm).2, hdq ?_, .inl hpc, hf0⟩
          simp only [dqIdx]
          rcases Nat.lt_or_ge k (s.fr t).recs.length with h' | h'
          · exact h'
          · rw [List.getElem?_eq_none h'] at hk; cases hk
        · simp only [hm, if_false] at hd; rw [hl] at hd; cases hd
      | ret r0 hpc hs' =>
        subst hs'
        simp only [setPc_rcd, setFr_rcd, kill_rcd] at hd
        by_cases hh : (s.fr t).heap.isSome = true
        · rw [if_pos hh] at hd; simp [hl] at hd
        · rw [if_neg hh] at hd
          have hf0 : (s.fr t).frees = 0 := frees_of_linv_ret (hpc ▸ hli) (by simpa using hh)
          by_cases hm : r ∈ (s.fr t).recs
          · obtain ⟨k, hk⟩ := List.getElem?_of_mem hm
            have hc : inCall (s.pc t) = true := by rw [hpc]; rfl
            have hdq := ((hq.cf t).dq hc hf0 k r hk).2
            rw [hpc] at hdq
            refine ⟨t, e, rfl, hm, (hown.own t r hc hf0 hm).2, hdq ?_, .inr ⟨r0, hpc⟩, hf0⟩
            simp only [dqIdx]
            rcases Nat.lt_or_ge k (s.fr t).recs.length with h' | h'
            · exact h'
            · rw [List.getElem?_eq_none h'] at hk; cases hk
          · simp only [hm, if_false] at hd; rw [hl] at hd; cases hd

/-- a record whose dequeue call is over is out of every queue and wake list, and no note / counter waker
    owes it a post -/
theorem deqd_out {s : State} {r : Rid} (h : QI s) (hd : (s.rcd r).deqd = true) :
    (∀ o, r ∉ (s.obj o).queue) ∧ (∀ u c l, wk (s.pc u) = some (c, l) → r ∉ pend (s.post u) l)
    ∧ (∀ u, s.post u = some r → (wk (s.pc u)).isSome = true) := by
  refine ⟨?_, ?_, ?_⟩
  · intro o hm; have := (h.q1 o r hm).2.2.2; rw [hd] at this; cases this
  · intro u c l hw hm; have := ((h.q4 u c l hw).2.2 r hm).2.2.2.1; rw [hd] at this; cases this
  · intro u hp
    rcases h.q5 u r hp with h1 | ⟨_, a2, _⟩
    · exact h1
    · rw [hd] at a2; cases a2

end WaitN
