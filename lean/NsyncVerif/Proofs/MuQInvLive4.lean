import NsyncVerif.Proofs.MuQInvLive3
/-
  MuQ: preservation of ALive, part 4: final CAS, `waiting := 0`, and the assembly.
-/
namespace NsyncVerif.MuQ

theorem alive_finish {a : AState} {t : Tid} {f : Fin} (hq : AQueue a) (hh : AHint a) (h : ALive a)
    (hro : a.ro t = .fin f) :
    ALive { a with word := finWord f a.word, sp := none, ro := setFn a.ro t (roleAfter f.wake) } := by
  have other : ∀ u, u ≠ t → setFn a.ro t (roleAfter f.wake) u = a.ro u := fun u hu => by simp [setFn, hu]
  obtain ⟨e1, e2, e3, e4, e5⟩ := hh.finq t f hro
  obtain ⟨k, hk⟩ := List.exists_mem_of_ne_nil _ e1
  obtain ⟨hknq, _, t', c', ph', hr', hcw', hph'⟩ := hq.wk t k (by rw [hro]; exact hk)
  have ht' : t' ≠ t := fun e => by subst e; rw [hro] at hr'; cases hr'
  have hIF : InFlight { a with word := finWord f a.word, sp := none, ro := setFn a.ro t (roleAfter f.wake) } t' :=
    ⟨c', ph', by show setFn a.ro t _ t' = _; rw [other t' ht']; exact hr', Or.inr ⟨hph', k, hcw', hknq⟩⟩
  have slow_keep : ∀ u c ph, a.ro u = .slow c ph → setFn a.ro t (roleAfter f.wake) u = .slow c ph := by
    intro u c ph hr
    rw [other u (fun e => by subst e; rw [hro] at hr; cases hr)]; exact hr
  refine ⟨fun _ => Or.inl ⟨t', hIF⟩, ?_, ?_, fun _ => Or.inr (Or.inl ⟨t', hIF⟩), ?_⟩
  · intro hx
    obtain ⟨u, c, ph, hr, hc⟩ := h.lw (by simpa [finWord] using hx)
    exact ⟨u, c, ph, slow_keep u c ph hr, hc⟩
  · intro hx
    simp only [finWord, Bool.and_eq_true, Bool.or_eq_true, Bool.not_eq_true'] at hx
    rcases hx.1 with hx1 | hx1
    · obtain ⟨u, c, ph, hr, hc, hp⟩ := h.ww hx1
      exact ⟨u, c, ph, slow_keep u c ph hr, hc, hp⟩
    · obtain ⟨k1, hk1, hl1⟩ := e5 hx1
      obtain ⟨_, u, c, ph, hr, hcw, hph⟩ := hq.inq k1 hk1
      refine ⟨u, c, ph, slow_keep u c ph hr, ?_, Or.inr (by rw [hcw]; rfl)⟩
      rw [← hq.lty u c ph k1 hr hcw]; exact hl1
  · intro u c k1 hr hcw hwt
    have hu : u ≠ t := fun e => by
      subst e
      have : setFn a.ro u (roleAfter f.wake) u = .slow c .loopP := hr
      rw [setFn_same] at this; exact roleAfter_not_slow _ _ _ this
    have hr0 : a.ro u = .slow c .loopP := by rw [← other u hu]; exact hr
    rcases h.post u c k1 hr0 hcw hwt with h1 | ⟨v, r, hv⟩
    · exact Or.inl h1
    · right; refine ⟨v, r, ?_⟩
      show setFn a.ro t _ v = _
      rw [other v (fun e => by subst e; rw [hro] at hv; cases hv)]; exact hv

theorem alive_wakeStore {a : AState} {t : Tid} {k : Wid} {r : List Wid} (h : ALive a)
    (hro : a.ro t = .wakeSt k r) :
    ALive { a with wr := setFn a.wr k { a.wr k with waiting := false }, ro := setFn a.ro t (.wakeV k r) } := by
  have other : ∀ u, u ≠ t → setFn a.ro t (.wakeV k r) u = a.ro u := fun u hu => by simp [setFn, hu]
  have self : setFn a.ro t (.wakeV k r) t = .wakeV k r := by simp [setFn]
  have tIF : ∀ u, InFlight a u →
      InFlight { a with wr := setFn a.wr k { a.wr k with waiting := false }, ro := setFn a.ro t (.wakeV k r) } u := by
    intro u hi
    refine hi.mono (other u ?_) (fun _ hk => hk)
    intro e; subst e; obtain ⟨c, ph, hr, _⟩ := hi; rw [hro] at hr; cases hr
  have tUn : ∀ u, Unlocking a u →
      Unlocking { a with wr := setFn a.wr k { a.wr k with waiting := false }, ro := setFn a.ro t (.wakeV k r) } u := by
    intro u hi
    refine hi.mono (other u ?_)
    intro e; subst e; rcases hi with ⟨sc, hr⟩ | ⟨f, hr⟩ <;> rw [hro] at hr <;> cases hr
  have slow_keep : ∀ u c ph, a.ro u = .slow c ph → setFn a.ro t (.wakeV k r) u = .slow c ph := by
    intro u c ph hr
    rw [other u (fun e => by subst e; rw [hro] at hr; cases hr)]; exact hr
  refine ⟨?_, ?_, ?_, ?_, ?_⟩
  · intro hx
    rcases h.desig hx with ⟨u, hu⟩ | ⟨u, hu⟩
    · exact Or.inl ⟨u, tIF u hu⟩
    · exact Or.inr ⟨u, tUn u hu⟩
  · intro hx
    obtain ⟨u, c, ph, hr, hc⟩ := h.lw hx
    exact ⟨u, c, ph, slow_keep u c ph hr, hc⟩
  · intro hx
    obtain ⟨u, c, ph, hr, hc, hp⟩ := h.ww hx
    exact ⟨u, c, ph, slow_keep u c ph hr, hc, hp⟩
  · intro hn
    have : Need a := by
      rcases hn with hn | ⟨u, c, hr⟩
      · exact Or.inl hn
      · refine Or.inr ⟨u, c, ?_⟩
        have hu : u ≠ t := fun e => by
          subst e
          have : setFn a.ro u (.wakeV k r) u = .slow c .st := hr
          rw [self] at this; cases this
        rw [← other u hu]; exact hr
    exact (h.resp this).mono (fun _ hu => hu) tIF tUn
  · intro u c k1 hr hcw hwt
    by_cases hk : k1 = k
    · subst hk; exact Or.inr ⟨t, r, self⟩
    · have hu : u ≠ t := fun e => by
        subst e
        have : setFn a.ro u (.wakeV k r) u = .slow c .loopP := hr
        rw [self] at this; cases this
      have hr0 : a.ro u = .slow c .loopP := by rw [← other u hu]; exact hr
      have hw0 : (a.wr k1).waiting = false := by
        have : (setFn a.wr k { a.wr k with waiting := false } k1).waiting = false := hwt
        rw [setFn_other _ _ _ _ hk] at this; exact this
      show (setFn a.wr k _ k1).sem ≠ 0 ∨ _
      rw [setFn_other _ _ _ _ hk]
      rcases h.post u c k1 hr0 hcw hw0 with h1 | ⟨v, r1, hv⟩
      · exact Or.inl h1
      · right; refine ⟨v, r1, ?_⟩
        show setFn a.ro t _ v = _
        rw [other v (fun e => by subst e; rw [hro] at hv; cases hv)]; exact hv

end NsyncVerif.MuQ

namespace NsyncVerif.MuQ

theorem alive_post {cfg : Cfg} {a : AState} {t : Tid} {k : Wid} {r : List Wid} (h : ALive a)
    (hro : a.ro t = .wakeV k r) :
    ALive (({ a with ro := setFn a.ro t (roleAfter r) } : AState).semPost cfg k) := by
  have other : ∀ u, u ≠ t → setFn a.ro t (roleAfter r) u = a.ro u := fun u hu => by simp [setFn, hu]
  have tIF : ∀ u, InFlight a u → InFlight (({ a with ro := setFn a.ro t (roleAfter r) } : AState).semPost cfg k) u := by
    intro u hi
    refine hi.mono (other u ?_) (fun _ hk => hk)
    intro e; subst e; obtain ⟨c, ph, hr, _⟩ := hi; rw [hro] at hr; cases hr
  have tUn : ∀ u, Unlocking a u → Unlocking (({ a with ro := setFn a.ro t (roleAfter r) } : AState).semPost cfg k) u := by
    intro u hi
    refine hi.mono (other u ?_)
    intro e; subst e; rcases hi with ⟨sc, hr⟩ | ⟨f, hr⟩ <;> rw [hro] at hr <;> cases hr
  have slow_keep : ∀ u c ph, a.ro u = .slow c ph → setFn a.ro t (roleAfter r) u = .slow c ph := by
    intro u c ph hr
    rw [other u (fun e => by subst e; rw [hro] at hr; cases hr)]; exact hr
  have slow_back : ∀ u c ph, setFn a.ro t (roleAfter r) u = .slow c ph → a.ro u = .slow c ph := by
    intro u c ph hr
    by_cases e : u = t
    · subst e; rw [setFn_same] at hr; exact absurd hr (roleAfter_not_slow _ _ _)
    · rw [other u e] at hr; exact hr
  refine ⟨?_, ?_, ?_, ?_, ?_⟩
  · intro hx
    rcases h.desig hx with ⟨u, hu⟩ | ⟨u, hu⟩
    · exact Or.inl ⟨u, tIF u hu⟩
    · exact Or.inr ⟨u, tUn u hu⟩
  · intro hx
    obtain ⟨u, c, ph, hr, hc⟩ := h.lw hx
    exact ⟨u, c, ph, slow_keep u c ph hr, hc⟩
  · intro hx
    obtain ⟨u, c, ph, hr, hc, hp⟩ := h.ww hx
    exact ⟨u, c, ph, slow_keep u c ph hr, hc, hp⟩
  · intro hn
    have : Need a := by
      rcases hn with hn | ⟨u, c, hr⟩
      · exact Or.inl hn
      · exact Or.inr ⟨u, c, slow_back u c .st hr⟩
    exact (h.resp this).mono (fun _ hu => hu) tIF tUn
  · intro u c k1 hr hcw hwt
    have hr0 := slow_back u c .loopP hr
    by_cases hk : k1 = k
    · subst hk; left
      show (setFn a.wr k1 _ k1).sem ≠ 0
      rw [setFn_same]; show (if cfg.binary = true then 1 else (a.wr k1).sem + 1) ≠ 0
      split <;> omega
    · have hw0 : (a.wr k1).waiting = false := by
        have : (setFn a.wr k _ k1).waiting = false := hwt
        rw [setFn_other _ _ _ _ hk] at this; exact this
      show (setFn a.wr k _ k1).sem ≠ 0 ∨ _
      rw [setFn_other _ _ _ _ hk]
      rcases h.post u c k1 hr0 hcw hw0 with h1 | ⟨v, r1, hv⟩
      · exact Or.inl h1
      · right; refine ⟨v, r1, ?_⟩
        show setFn a.ro t _ v = _
        rw [other v ?_]; exact hv
        intro e; subst e; rw [hro] at hv; cases hv; exact hk rfl

theorem exists_other_reader {l : List Tid} {t : Tid} (hnd : l.Nodup) (hlen : l.length > 1) :
    ∃ u, u ∈ l ∧ u ≠ t := by
  match l, hnd, hlen with
  | x :: y :: r, hnd, _ =>
    by_cases e : x = t
    · refine ⟨y, by simp, ?_⟩
      intro e2; rw [List.nodup_cons] at hnd; apply hnd.1; rw [e, ← e2]; simp
    · exact ⟨x, by simp, e⟩

theorem advance_queue_sub (X : AState) (t : Tid) (sc : Scan) (k : Wid) (h : k ∈ (X.advance t sc).queue) :
    k ∈ X.queue := by
  simp only [AState.advance] at h; split at h
  · exact List.mem_of_mem_erase h
  · exact h

theorem alive_step {cfg : Cfg} {a a' : AState} (hl : ALock a) (hs : ASpin a) (hq : AQueue a) (hh : AHint a)
    (h : ALive a) (st : AStep cfg a a') : ALive a' := by
  cases st with
  | acqFresh t l hro hts hb =>
    refine alive_acquire (t := t) h (Or.inl hro) (by simp; rw [← hro, setFn_self]) (by simp) (by simp [setFn])
      (fun k => by simp) ?_ ?_ ?_
    · intro hx; refine ⟨?_, fun c ph hr => by rw [hro] at hr; cases hr⟩
      cases l <;> simpa [acqWord] using hx
    · intro hx; refine ⟨?_, fun c ph hr => by rw [hro] at hr; cases hr⟩
      cases l <;> simpa [acqWord] using hx
    · intro hx; refine ⟨?_, fun c ph hr => by rw [hro] at hr; cases hr⟩
      cases l <;> simp [acqWord] at hx; exact hx
  | enterSlow t l hro hts => exact alive_simple hq h (Or.inl ⟨t, l, rfl, hro⟩)
  | acqSlow t c hro hts hb =>
    refine alive_acquire (t := t) h (Or.inr ⟨c, hro⟩) (by simp) (by simp) (by simp [setFn]) ?_ ?_ ?_ ?_
    · intro k; cases hcw : c.w with
      | none => simp [AState.dropW]
      | some k0 =>
        simp only [AState.addShare_wr, AState.dropW, setFn]; split
        · rename_i e; subst e; exact ⟨rfl, rfl⟩
        · exact ⟨rfl, rfl⟩
    · intro hx
      have hx' : (acqWord c.l c.clear c.lwl a.word).desig = true := by simpa using hx
      have : a.word.desig = true ∧ c.clear = false := by
        cases hcl : c.l <;> simp [acqWord, hcl] at hx' <;> exact hx'
      exact ⟨this.1, fun c1 ph hr => by rw [hro] at hr; cases hr; exact this.2⟩
    · intro hx
      have hx' : (acqWord c.l c.clear c.lwl a.word).lw = true := by simpa using hx
      have : a.word.lw = true ∧ c.lwl = false := by
        cases hcl : c.l <;> simp [acqWord, hcl] at hx' <;> exact hx'
      exact ⟨this.1, fun c1 ph hr => by rw [hro] at hr; cases hr; exact this.2⟩
    · intro hx
      have hx' : (acqWord c.l c.clear c.lwl a.word).ww = true := by simpa using hx
      cases hcl : c.l with
      | W => simp [acqWord, hcl] at hx'
      | R =>
        simp [acqWord, hcl] at hx'
        exact ⟨hx', fun c1 ph hr => by rw [hro] at hr; cases hr; exact hcl⟩
  | enq t c hro hsp hb => exact alive_enq hl hs hq h hro hsp hb
  | adopt t c k hro hw hkq ho hwt =>
    refine alive_enqueue (c' := { c with w := some k }) (k := k) h hro rfl rfl rfl ?_ rfl rfl ?_ rfl (by simp [setFn])
      (fun k' hk' => by simp [setFn, hk'])
    · intro t' c1 ph1 hr hcw
      have := (hq.own k t').2 ⟨c1, ph1, hr, hcw⟩; rw [ho] at this; cases this
    · intro x; show x ∈ (if c.wc = 0 then a.queue ++ [k] else k :: a.queue) ↔ _
      split <;> simp <;> exact Or.comm
  | requeue t c k hro hw hkq =>
    refine alive_enqueue (c' := c) (k := k) h hro rfl rfl hw ?_ rfl rfl ?_ rfl (by simp [setFn])
      (fun k' hk' => by simp [setFn, hk'])
    · intro t' c1 ph1 hr hcw; exact hq.owner_unique hr hcw hro hw
    · intro x; show x ∈ (if c.wc = 0 then a.queue ++ [k] else k :: a.queue) ↔ _
      split <;> simp <;> exact Or.comm
  | relSpin t c hro => exact alive_simple hq h (Or.inr (Or.inl ⟨t, c, rfl, hro⟩))
  | loopWait t c k hro hw hwt =>
    exact alive_simple hq h (Or.inr (Or.inr (Or.inl ⟨t, c, k, rfl, hro, hw, hwt⟩)))
  | loopWoken t c k hro hw hwt =>
    exact alive_simple hq h (Or.inr (Or.inr (Or.inr ⟨t, c, k, rfl, hro, hw, hwt⟩)))
  | pRet t c k hro hw hsem =>
    have hY : ALive { a with ro := setFn a.ro t (.slow c .loopLd) } := by
      refine alive_role (t := t) h rfl rfl rfl rfl id id id ?_ ?_ ?_ ?_ ?_ ?_ ?_
      · rintro ⟨c1, ph, hr, h1⟩; rw [hro] at hr; cases hr
        rcases h1 with ⟨h1, _⟩ | ⟨_, k1, h2, h3⟩
        · cases h1
        · exact ⟨c, .loopLd, by simp [setFn], Or.inr ⟨rfl, k1, h2, h3⟩⟩
      · rintro (⟨sc, hr⟩ | ⟨f, hr⟩) <;> rw [hro] at hr <;> cases hr
      · intro c1 ph hr hlw; rw [hro] at hr; cases hr; exact ⟨_, _, rfl, hlw⟩
      · intro c1 ph hr hlw hp; rw [hro] at hr; cases hr
        exact ⟨_, _, rfl, hlw, Or.inr (by rw [hw]; rfl)⟩
      · intro c1 hr; cases hr
      · intro c1 k1 hr; cases hr
      · intro k1 r hr; rw [hro] at hr; cases hr
    refine alive_sem hY rfl rfl rfl rfl (fun k1 => ?_) ?_
    · show (setFn a.wr k _ k1).waiting = _
      simp only [setFn]; split
      · rename_i e; subst e; rfl
      · rfl
    · intro u c1 k1 hr hcw hne
      have hu : u ≠ t := fun e => by
        subst e
        have : setFn a.ro u (.slow c .loopLd) u = .slow c1 .loopP := hr
        rw [setFn_same] at this; cases this
      have hr0 : a.ro u = .slow c1 .loopP := by
        have : setFn a.ro t (.slow c .loopLd) u = .slow c1 .loopP := hr
        rw [setFn_other _ _ _ _ hu] at this; exact this
      have hk : k1 ≠ k := fun e => by subst e; exact hu (hq.owner_unique hr0 hcw hro hw)
      show (setFn a.wr k _ k1).sem ≠ 0
      rw [setFn_other _ _ _ _ hk]; exact hne
  | release t l hro hts hsh hc =>
    refine alive_release (t := t) hl hs hh h hro hc ?_ ?_ ?_ ?_ (by simp) (by simp) (by simp)
      (fun u hu => by simp [setFn, hu])
    · intro _ hrd
      have hlen : a.rOwners.length > 1 := by rw [← hl.rd]; exact hrd
      obtain ⟨u, hu1, hu2⟩ := exists_other_reader (t := t) hl.nodup hlen
      exact ⟨u, hu2, by rw [(hl.rown u).1 hu1]; simp⟩
    · cases l <;> simp [relUncWord]
    · cases l <;> simp [relUncWord]
    · cases l <;> simp [relUncWord]
  | grab t l hro hts hsh hu hsp =>
    refine alive_unlocking (t := t) h (AState.advance_ro_self _ t _) ?_ ?_ (by simp) ?_ ?_
      (fun c ph hr => by rw [hro] at hr; cases hr) (fun k r hr => by rw [hro] at hr; cases hr)
    · intro u hu; rw [AState.advance_ro_other _ _ _ _ hu]; simp
    · intro k hk; have := advance_queue_sub _ _ _ _ hk; simpa using this
    · simp [grabWord]; cases l <;> rfl
    · simp [grabWord]; cases l <;> rfl
  | rcDone t sc hro =>
    refine alive_unlocking (t := t) h (AState.advance_ro_self _ t _) ?_ ?_ (by simp) (by simp) (by simp)
      (fun c ph hr => by rw [hro] at hr; cases hr) (fun k r hr => by rw [hro] at hr; cases hr)
    · intro u hu; rw [AState.advance_ro_other _ _ _ _ hu]
    · intro k hk; exact advance_queue_sub _ _ _ _ hk
  | finish t f hro => exact alive_finish hq hh h hro
  | wakeStore t k r hro => exact alive_wakeStore h hro
  | post t k r hro => exact alive_post h hro
  | envV k =>
    refine alive_sem h rfl rfl rfl rfl (fun k1 => (semPost_fields cfg a k k1).2.1) ?_
    intro u c k1 hr hcw hne
    show (setFn a.wr k _ k1).sem ≠ 0
    simp only [setFn]; split
    · rename_i e; subst e; show (if cfg.binary = true then 1 else (a.wr k1).sem + 1) ≠ 0; split <;> omega
    · exact hne
  | envSem k n ho =>
    refine alive_sem h rfl rfl rfl rfl (fun k1 => ?_) ?_
    · show (setFn a.wr k _ k1).waiting = _
      simp only [setFn]; split
      · rename_i e; subst e; rfl
      · rfl
    · intro u c k1 hr hcw hne
      have hk : k1 ≠ k := fun e => by
        subst e; have := (hq.own k1 u).2 ⟨c, .loopP, hr, hcw⟩; rw [ho] at this; cases this
      show (setFn a.wr k _ k1).sem ≠ 0
      rw [setFn_other _ _ _ _ hk]; exact hne

theorem alive_init : ALive (abs init) := by
  refine ⟨?_, ?_, ?_, ?_, ?_⟩
  · simp [abs, init, Word.zero]
  · simp [abs, init, Word.zero]
  · simp [abs, init, Word.zero]
  · rintro (h | ⟨t, c, h⟩)
    · simp [abs, init] at h
    · simp [abs, init, role] at h
  · intro t c k h; simp [abs, init, role] at h

/-- All invariants of the layer. -/
structure AInv (a : AState) : Prop where
  lock : ALock a
  spin : ASpin a
  queue : AQueue a
  hint : AHint a
  live : ALive a

theorem ainv_step {cfg : Cfg} {a a' : AState} (h : AInv a) (st : AStep cfg a a') : AInv a' :=
  ⟨alock_step h.lock st, aspin_step h.spin st, aqueue_step h.spin h.queue st,
   ahint_step h.spin h.queue h.hint st, alive_step h.lock h.spin h.queue h.hint h.live st⟩

theorem ainv_init : AInv (abs init) := ⟨alock_init, aspin_init, aqueue_init, ahint_init, alive_init⟩

end NsyncVerif.MuQ
