/-
  Layer `Note`, fair termination, ALL calls: `gen_returns` (every call returns if the work of
  every thread is bounded, Proofs/NoteFairGen.lean) + `finiteWork_settled` (it is, once the set of
  notes is settled, Proofs/NoteFairPot2.lean) + `settled_gen` (it is settled after the last
  arrival).
-/
import NsyncVerif.Proofs.NoteFairPot2

namespace Note

variable {s0 : State}

/-- BOUNDED WORK holds in every weakly fair execution with finitely many arrivals. -/
theorem finiteWork (x : Exec s0) (hr : Reachable s0) (hw : WeakFair x) (hf : FiniteArrivals x) :
    FiniteWork x := by
  obtain ⟨N, hS⟩ := settled_gen x hr hw hf
  exact finiteWork_settled x hr hS

/-- FAIR TERMINATION, all calls. -/
theorem fair_returns_all (x : Exec s0) (hr : Reachable s0) (hw : WeakFair x) (hl : LockFair x)
    (hwt : WaitFair x) (hf : FiniteArrivals x) {t : Tid} {i : Nat}
    (hp : (x.ρ i).pc t ≠ .idle) (hwe : WaitEndsFlag x t i) :
    ∃ j, i ≤ j ∧ (x.ρ j).pc t = .idle :=
  gen_returns x ⟨hr, hw, hl, hwt, hf, finiteWork x hr hw hf⟩ hp hwe

end Note
