/-
  Proofs/WaitNQuiet2.lean — every accepted step is quiet or one of the four structural steps.
-/
import NsyncVerif.Proofs.WaitNQuiet

set_option linter.unusedSimpArgs false

namespace WaitN

/-- the four steps that change the call structure -/
inductive Structural (s s' : State) (t : Tid) : Prop
  | call (mu : Option MuId) (dl : Deadline) (objs : List ObjId) (nested : Bool)
      (hpc : s.pc t = .idle) (hne : objs ≠ []) (hk : objs.all (fun o => (s.obj o).known) = true)
      (hs : s' = (s.setFr t (Frame.new mu dl objs nested)).setPc t (pollNext (Frame.new mu dl objs nested) 0))
  | init (i : Nat) (r : Rid) (oid : ObjId)
      (hpc : s.pc t = .wInit i) (hoid : (s.fr t).objs[i]? = some oid) (hdead : (s.rcd r).live = false)
      (hi : i = (s.fr t).recs.length)
      (hs : s' = ((s.setRec r { live := true, waiting := false, owner := t, obj := oid, unl := .none, deqd := false }).setFr t
                    { s.fr t with recs := (s.fr t).recs ++ [r] }).setPc t
                    (if oid.isCv then .wEnqCv i (.spin .ld) else .wEnq i .lockCall))
  | free (hpc : s.pc t = .wFree)
      (hs : s' = ((s.kill (s.fr t).recs).setFr t { s.fr t with frees := (s.fr t).frees + 1 }).setPc t
                    (relockNext { s.fr t with frees := (s.fr t).frees + 1 }))
  | ret (r : Nat) (hpc : s.pc t = .wRet r)
      (hs : s' = ((s.kill (if (s.fr t).heap.isSome then [] else (s.fr t).recs)).setFr t Frame.empty).setPc t .idle)

macro "quiet_leaf2" h:ident : tactic =>
  `(tactic| first
    | quiet_leaf $h
    | exact quiet_stepOpen $h
    | exact quiet_proto $h
    | exact quiet_rtDone (by simp_all [inCall]) $h
    | exact quiet_deqDone (by simp_all [inCall]) $h
    | exact quiet_afterEnq (by simp_all [inCall]) $h
    | (refine Quiet.trans ?_ (quiet_rtDone ?_ $h) <;> first | (quiet_tac; done) | (simp_all [inCall]; done))
    | (refine Quiet.trans ?_ (quiet_deqDone ?_ $h) <;> first | (quiet_tac; done) | (simp_all [inCall]; done))
    | (refine Quiet.trans ?_ (quiet_afterEnq ?_ $h) <;> first | (quiet_tac; done) | (simp_all [inCall]; done)))

theorem quiet_post_step {s s1 : State} {t : Tid} {j n : Nat} {x : Option Rid} {p : PC} (q : Quiet s s1)
    (hpc : inCall (s.pc t) = inCall p) : Quiet s (((s1.setSem j n).setPost t x).setPc t p) := by
  refine Quiet.trans q (Quiet.trans (by quiet_tac) (quiet_setPc ?_))
  simp only [setPost_pc, setSem_pc, q.inCall, hpc]

theorem quiet_stepSg {s s' : State} {t : Tid} {c : Nat} {bc : Bool} {st : SgSt} {e : Ev}
    (hpc : s.pc t = .sg c bc st) (h : stepSg s t c bc st e = .ok s') : Quiet s s' := by
  unfold stepSg at h
  split_ok h
  all_goals first
    | exact quiet_spinAcq (by simp [hpc, inCall]) (by simp [hpc, inCall]) h
    | quiet_leaf2 h
    | (cases h; refine quiet_post_step (quiet_postSem ‹postSem _ _ _ = some _›) ?_; simp [hpc, inCall]; done)
    | (cases h; refine quiet_post_step (quiet_postSem ‹postSem _ _ _ = some _›) ?_; simp only [hpc, inCall]; split <;> rfl)

theorem quiet_stepCtrRT {s s' : State} {t : Tid} {u : Use} {i : Nat} {l : Bool} {e : Ev}
    (hpc : s.pc t = .wCtrRT u i l) (h : stepCtrRT s t u i l e = .ok s') : Quiet s s' := by
  unfold stepCtrRT at h
  split_ok h <;> quiet_leaf2 h

theorem quiet_stepND {s s' : State} {t : Tid} {u : Use} {i : Nat} {st : NDst} {e : Ev}
    (hpc : s.pc t = .wND u i st) (h : stepND s t u i st e = .ok s') : Quiet s s' := by
  unfold stepND at h
  split_ok h <;> quiet_leaf2 h

theorem quiet_stepEnqCv {s s' : State} {t : Tid} {i : Nat} {st : CvEnqSt} {e : Ev}
    (hpc : s.pc t = .wEnqCv i st) (h : stepEnqCv s t i st e = .ok s') : Quiet s s' := by
  unfold stepEnqCv at h
  split_ok h
  all_goals first
    | exact quiet_spinAcq (by simp [hpc, inCall]) (by simp [hpc, inCall]) h
    | quiet_leaf2 h

theorem quiet_stepEnq {s s' : State} {t : Tid} {i : Nat} {st : EnqSt} {e : Ev}
    (hpc : s.pc t = .wEnq i st) (h : stepEnq s t i st e = .ok s') : Quiet s s' := by
  unfold stepEnq at h
  split_ok h <;> quiet_leaf2 h

theorem quiet_stepDeqCv {s s' : State} {t : Tid} {j : Nat} {st : CvDeqSt} {e : Ev}
    (hpc : s.pc t = .wDeqCv j st) (h : stepDeqCv s t j st e = .ok s') : Quiet s s' := by
  unfold stepDeqCv at h
  split_ok h
  all_goals first
    | exact quiet_spinAcq (by simp [hpc, inCall]) (by simp [hpc, inCall]) h
    | quiet_leaf2 h

theorem quiet_stepDeq {s s' : State} {t : Tid} {j : Nat} {st : DeqSt} {e : Ev}
    (hpc : s.pc t = .wDeq j st) (h : stepDeq s t j st e = .ok s') : Quiet s s' := by
  unfold stepDeq at h
  split_ok h <;> quiet_leaf2 h

theorem quiet_stepAlloc {s s' : State} {t : Tid} {e : Ev}
    (hpc : s.pc t = .wAlloc) (h : stepAlloc s t e = .ok s') : Quiet s s' := by
  unfold stepAlloc at h
  split_ok h <;> quiet_leaf2 h

theorem quiet_stepUnlockMu {s s' : State} {t : Tid} {e : Ev}
    (hpc : s.pc t = .wUnlock) (h : stepUnlockMu s t e = .ok s') : Quiet s s' := by
  unfold stepUnlockMu at h
  split_ok h <;> quiet_leaf2 h

theorem quiet_stepCvRT {s s' : State} {t : Tid} {j : Nat} {e : Ev}
    (hpc : s.pc t = .wCvRT j) (h : stepCvRT s t j e = .ok s') : Quiet s s' := by
  unfold stepCvRT at h
  split_ok h <;> quiet_leaf2 h

theorem quiet_stepPdEnter {s s' : State} {t : Tid} {e : Ev}
    (hpc : s.pc t = .wPdEnter) (h : stepPdEnter s t e = .ok s') : Quiet s s' := by
  unfold stepPdEnter at h
  split_ok h
  all_goals first
    | quiet_leaf2 h
    | (cases h
       have q := quiet_bindSem ‹bindSem _ _ _ = some _›
       refine Quiet.trans q (quiet_setPc ?_)
       rw [q.inCall, hpc]; rfl)

theorem quiet_stepPdWait {s s' : State} {t : Tid} {j : SemId} {e : Ev}
    (hpc : s.pc t = .wPdWait j) (h : stepPdWait s t j e = .ok s') : Quiet s s' := by
  unfold stepPdWait at h
  split_ok h
  all_goals first
    | quiet_leaf2 h
    | (cases h; refine Quiet.trans (s1 := s.setSem _ _) (by quiet_tac) (quiet_startScan ?_); simp [hpc, inCall])

theorem quiet_stepRelock {s s' : State} {t : Tid} {e : Ev}
    (hpc : s.pc t = .wRelock) (h : stepRelock s t e = .ok s') : Quiet s s' := by
  unfold stepRelock at h
  split_ok h <;> quiet_leaf2 h

/-- every accepted step of a thread is quiet or structural -/
theorem quiet_or_structural {s s' : State} {t : Tid} {e : Ev} (h : stepThr s t e = .ok s') :
    Quiet s s' ∨ Structural s s' t := by
  unfold stepThr at h
  split at h <;> rename_i hpc
  · -- idle
    unfold stepIdle at h
    split_ok h
    · rename_i mu dl objs nested hc
      cases h
      exact .inr (.call mu dl objs nested hpc hc.2.2.1 hc.2.2.2 rfl)
    all_goals first
      | exact .inl (quiet_stepOpen h)
      | (left; quiet_leaf2 h)
  · simp at h
  · exact .inl (quiet_stepSg hpc h)
  · exact .inl (quiet_stepCtrRT hpc h)
  · exact .inl (quiet_stepND hpc h)
  · exact .inl (quiet_stepEnqCv hpc h)
  · exact .inl (quiet_stepEnq hpc h)
  · exact .inl (quiet_stepDeqCv hpc h)
  · exact .inl (quiet_stepDeq hpc h)
  · exact .inl (quiet_stepAlloc hpc h)
  · -- init
    unfold stepInit at h
    dsimp only at h
    split at h
    · rename_i r new obs oid hoid
      split at h
      · rename_i hc
        cases h
        exact .inr (.init _ r oid hpc hoid hc.2.1 hc.2.2.2 rfl)
      · simp at h
    · exact .inl (quiet_dflt h)
  · exact .inl (quiet_stepUnlockMu hpc h)
  · exact .inl (quiet_stepCvRT hpc h)
  · exact .inl (quiet_stepPdEnter hpc h)
  · exact .inl (quiet_stepPdWait hpc h)
  · -- free
    unfold stepFree at h
    split_ok h
    all_goals first
      | exact .inl (quiet_dflt h)
      | (cases h; exact .inr (.free hpc rfl))
  · exact .inl (quiet_stepRelock hpc h)
  · -- ret
    unfold stepRet at h
    dsimp only at h
    split at h
    · split at h
      · cases h; exact .inr (.ret _ hpc rfl)
      · simp at h
    · exact .inl (quiet_dflt h)

end WaitN
