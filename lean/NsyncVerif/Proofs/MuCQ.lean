import NsyncVerif.Proofs.MuCQueueDefs
/-
  MuC: the queue invariant (I_queue) — definitions, and what the plain code of the scan does to the
  lists (a permutation of queue ++ private lists ++ wake list; only `lnk` fields of records change).
-/
namespace NsyncVerif.MuC

def Ret.ws : Ret → List Wid
  | .ul _ _ => []
  | .mw c => c.w.toList

def SL.ws (c : SL) : List Wid :=
  c.w.toList ++ (match c.mw with | some m => m.w.toList | none => [])

/-- The waiter records the thread refers to. -/
def PC.ws : PC → List Wid
  | .lsLd c | .lsCasAcq c _ | .lsCasEnq c _ | .lsSt c | .lsRelLd c | .lsRelCas c _ | .lsWaitLd c | .lsPEnter c | .lsPRet c => c.ws
  | .usLd r | .usCasUnc r _ | .usCasGrab r _ | .usRelLd r _ | .usRelCas r _ _ | .usEval r _ | .usRcLd r _ _ | .usRcCas r _ _ _
  | .usReLd r _ | .usReCas r _ _ | .usFinLd r _ | .usFinCas r _ _ | .usWakeSt r _ _ | .usWakeV r _ _ => r.ws
  | .mwLd0 c | .mwEval c | .mwStW c | .mwRcLd c | .mwEnqLd c | .mwEnqCas c _ | .mwRelLd c | .mwRelCas c _ _ | .mwWaitLd c
  | .mwSem c | .mwPdRet c _ | .mwNotify c | .mwLd244 c | .mwLd255 c | .mwRet c _
  | .mtLd c | .mtCasAcq c _ | .mtCasWW c _ | .mtLdWk c _ | .mtLdW c _ | .mtLdRc c _ | .mtRmLd c _ | .mtRmCas c _ _ | .mtStW c _ | .mtStRel c _ _ => c.w.toList
  | _ => []

/-- Between the grab CAS and the final CAS of unlock_slow. -/
def PC.unl : PC → Bool
  | .usRelLd _ _ | .usRelCas _ _ _ | .usEval _ _ | .usRcLd _ _ _ | .usRcCas _ _ _ _ | .usReLd _ _ | .usReCas _ _ _
  | .usFinLd _ _ | .usFinCas _ _ _ => true
  | _ => false

/-- The waiters on the private lists of the thread. -/
def PC.priv (p : PC) : List Wid :=
  match p.scan? with
  | some sc => sc.lists
  | none => []

/-- The waiters the thread has removed from the queue and whose `waiting` it has still to clear. -/
def PC.wakeL : PC → List Wid
  | .usRelLd _ sc | .usRelCas _ sc _ | .usEval _ sc | .usRcLd _ sc _ | .usRcCas _ sc _ _ | .usReLd _ sc | .usReCas _ sc _ => sc.wake
  | .usFinLd _ f | .usFinCas _ f _ => f.wake
  | .usWakeSt _ k rest => k :: rest
  | .usWakeV _ _ rest => rest
  | _ => []

/-- The record the thread has marked `waiting` but not queued yet (mu_wait.c:198-202), or has taken
    off the queue itself and not yet marked (mu_wait.c:100-101). -/
def PC.limbo : PC → Option Wid
  | .mwRcLd c | .mwEnqLd c | .mwEnqCas c _ | .mtRmLd c _ | .mtRmCas c _ _ | .mtStW c _ => c.w
  | _ => none

def allOf (s : State) (t : Tid) : List Wid := s.queue ++ (s.pc t).priv ++ (s.pc t).wakeL

/-- Records differ at most in `lnk`. -/
def LnkOnly (s s' : State) : Prop :=
  ∀ x, (s'.wr x).owner = (s.wr x).owner ∧ (s'.wr x).waiting = (s.wr x).waiting ∧ (s'.wr x).lType = (s.wr x).lType ∧
    (s'.wr x).sem = (s.wr x).sem ∧ (s'.wr x).cond = (s.wr x).cond ∧ (s'.wr x).rc = (s.wr x).rc

theorem LnkOnly.refl (s : State) : LnkOnly s s := fun _ => ⟨rfl, rfl, rfl, rfl, rfl, rfl⟩

theorem LnkOnly.trans {a b c : State} (h1 : LnkOnly a b) (h2 : LnkOnly b c) : LnkOnly a c := by
  intro x
  obtain ⟨a1, a2, a3, a4, a5, a6⟩ := h1 x
  obtain ⟨b1, b2, b3, b4, b5, b6⟩ := h2 x
  exact ⟨b1.trans a1, b2.trans a2, b3.trans a3, b4.trans a4, b5.trans a5, b6.trans a6⟩

theorem lnkOnly_setLnk (s : State) (k : Wid) (b : Bool) : LnkOnly s (setLnk s k b) := by
  intro x
  simp only [setLnk, setFn]
  split <;> simp_all

theorem lnkOnly_mergeLinks (s : State) (p n : Option Wid) : LnkOnly s (mergeLinks s p n) := by
  unfold mergeLinks
  split
  · split
    · exact lnkOnly_setLnk _ _ _
    · exact LnkOnly.refl _
  · exact LnkOnly.refl _

theorem lnkOnly_removeLinks (s : State) (p : Option Wid) (k : Wid) (n : Option Wid) : LnkOnly s (removeLinks s p k n) := by
  cases p with
  | none =>
    simp only [removeLinks]
    split
    · exact lnkOnly_setLnk _ _ _
    · exact LnkOnly.refl _
  | some q =>
    simp only [removeLinks]
    split
    · refine LnkOnly.trans ?_ (lnkOnly_setLnk _ _ _)
      split
      · exact lnkOnly_setLnk _ _ _
      · exact LnkOnly.refl _
    · cases n with
      | none => exact LnkOnly.refl _
      | some m => exact lnkOnly_mergeLinks _ _ _

theorem lnkOnly_setPc {s s1 : State} (h : LnkOnly s s1) (t : Tid) (p : PC) : LnkOnly s (setPc s1 t p) := h

theorem lnkOnly_pickup (s : State) (sc : Scan) : LnkOnly s (pickup s sc).1 := by
  unfold pickup
  dsimp only
  split <;> exact lnkOnly_mergeLinks _ _ _

end NsyncVerif.MuC
