/-
Layer `Dll` (C17): representation predicates.

* `Linked H xs`   — consecutive elements of `xs` are linked both ways in heap `H`.
* `Ring H xs`     — `xs` is a non-empty, duplicate-free list of non-null addresses and
                    `next`/`prev` are the cyclic successor/predecessor along `xs`
                    (`Linked` on the closed walk `xs ++ [head xs]`).
* `Repr H l xs`   — the handle `l` represents the sequence `xs`: `l = 0 ∧ xs = []`, or
                    `Ring H xs` and `l` is the LAST element of `xs`.
-/
import NsyncVerif.Model.Dll

namespace Dll

/-! ### `Linked` -/

/-- Consecutive elements are linked: `a → b` means `a.next = b` and `b.prev = a`. -/
def Linked (H : Heap) : List Addr → Prop
  | a :: b :: t => H.next a = b ∧ H.prev b = a ∧ Linked H (b :: t)
  | _ => True

@[simp] theorem linked_nil (H : Heap) : Linked H [] = True := by simp [Linked]
@[simp] theorem linked_single (H : Heap) (a : Addr) : Linked H [a] = True := by simp [Linked]
@[simp] theorem linked_cons_cons (H : Heap) (a b : Addr) (t : List Addr) :
    Linked H (a :: b :: t) = (H.next a = b ∧ H.prev b = a ∧ Linked H (b :: t)) := by
  simp [Linked]

/-- A chain splits at any element (which is shared by the two halves). -/
theorem linked_append_cons (H : Heap) (xs : List Addr) (y : Addr) (ys : List Addr) :
    Linked H (xs ++ y :: ys) ↔ Linked H (xs ++ [y]) ∧ Linked H (y :: ys) := by
  induction xs with
  | nil => simp
  | cons x xs ih =>
    cases xs with
    | nil => simp [and_assoc]
    | cons x' xs' =>
      simp only [List.cons_append, linked_cons_cons] at ih ⊢
      rw [ih]
      simp [and_assoc]

@[simp] theorem getLast?_cons_concat (b y : Addr) (m : List Addr) :
    (b :: (m ++ [y])).getLast? = some y := by
  exact List.getLast?_concat (l := b :: m)

theorem getLast?_append_concat (u v : List Addr) (z : Addr) :
    (u ++ (v ++ [z])).getLast? = some z := by
  rw [← List.append_assoc]; exact List.getLast?_concat

/-- Every list is `[]` or `m ++ [z]`. -/
theorem list_nil_or_snoc (xs : List Addr) : xs = [] ∨ ∃ m z, xs = m ++ [z] := by
  rcases List.eq_nil_or_concat xs with h | ⟨m, z, h⟩
  · exact Or.inl h
  · exact Or.inr ⟨m, z, by simp [h]⟩

/-- Every list is `[]`, `[a]`, or `a :: (m ++ [z])`. -/
theorem list_cases3 (xs : List Addr) :
    xs = [] ∨ (∃ a, xs = [a]) ∨ (∃ a m z, xs = a :: (m ++ [z])) := by
  cases xs with
  | nil => simp
  | cons a t =>
    rcases List.eq_nil_or_concat t with h | ⟨m, z, h⟩
    · subst h; simp
    · subst h; exact Or.inr (Or.inr ⟨a, m, z, by simp⟩)

/-- Frame rule for a chain with at least two elements: it reads `next` of all but the last and
`prev` of all but the first element. -/
theorem Linked.frame {H H' : Heap} {a z : Addr} {m : List Addr}
    (h : Linked H (a :: (m ++ [z])))
    (hn : ∀ x ∈ a :: m, H'.next x = H.next x)
    (hp : ∀ x ∈ m ++ [z], H'.prev x = H.prev x) :
    Linked H' (a :: (m ++ [z])) := by
  induction m generalizing a with
  | nil =>
    simp only [List.nil_append, linked_cons_cons, linked_single, and_true] at h ⊢
    rw [hn a (by simp), hp z (by simp)]; exact h
  | cons b m ih =>
    simp only [List.cons_append, linked_cons_cons] at h ⊢
    refine ⟨?_, ?_, ih h.2.2 ?_ ?_⟩
    · rw [hn a (by simp)]; exact h.1
    · rw [hp b (by simp)]; exact h.2.1
    · intro x hx; exact hn x (List.mem_cons_of_mem _ hx)
    · intro x hx; exact hp x (by simp at hx ⊢; exact Or.inr hx)

/-- Frame rule, coarse form: the two heaps agree on every element of the chain. -/
theorem Linked.frame_all {H H' : Heap} {xs : List Addr} (h : Linked H xs)
    (hn : ∀ x ∈ xs, H'.next x = H.next x) (hp : ∀ x ∈ xs, H'.prev x = H.prev x) :
    Linked H' xs := by
  rcases list_cases3 xs with rfl | ⟨a, rfl⟩ | ⟨a, m, z, rfl⟩
  · simp
  · simp
  · refine Linked.frame h ?_ ?_
    · intro x hx; exact hn x (by simp at hx ⊢; rcases hx with h | h <;> simp [h])
    · intro x hx; exact hp x (List.mem_cons_of_mem _ hx)

/-! ### `Ring` -/

/-- `xs` is a ring of heap `H`. -/
def Ring (H : Heap) : List Addr → Prop
  | [] => False
  | a :: t => (a :: t).Nodup ∧ 0 ∉ (a :: t) ∧ Linked H (a :: (t ++ [a]))

@[simp] theorem ring_nil (H : Heap) : Ring H [] = False := rfl

theorem ring_cons (H : Heap) (a : Addr) (t : List Addr) :
    Ring H (a :: t) ↔ (a :: t).Nodup ∧ 0 ∉ (a :: t) ∧ Linked H (a :: (t ++ [a])) := Iff.rfl

theorem Ring.ne_nil {H : Heap} {xs : List Addr} (h : Ring H xs) : xs ≠ [] := by
  cases xs <;> simp_all

theorem Ring.nodup {H : Heap} {xs : List Addr} (h : Ring H xs) : xs.Nodup := by
  cases xs with
  | nil => simp
  | cons a t => exact h.1

theorem Ring.zero_not_mem {H : Heap} {xs : List Addr} (h : Ring H xs) : 0 ∉ xs := by
  cases xs with
  | nil => simp
  | cons a t => exact h.2.1

theorem Ring.ne_zero {H : Heap} {xs : List Addr} (h : Ring H xs) {a : Addr} (ha : a ∈ xs) :
    a ≠ 0 := fun h0 => h.zero_not_mem (h0 ▸ ha)

/-- A singleton ring is a non-null self-linked element. -/
theorem ring_singleton (H : Heap) (a : Addr) :
    Ring H [a] ↔ a ≠ 0 ∧ H.next a = a ∧ H.prev a = a := by
  simp [ring_cons, eq_comm]

/-- A ring with at least two elements: an open chain plus the wrap-around link. -/
theorem ring_cons_concat (H : Heap) (a z : Addr) (m : List Addr) :
    Ring H (a :: (m ++ [z])) ↔
      (a :: (m ++ [z])).Nodup ∧ 0 ∉ (a :: (m ++ [z])) ∧
        Linked H (a :: (m ++ [z])) ∧ H.next z = a ∧ H.prev a = z := by
  rw [ring_cons]
  have : a :: (m ++ [z] ++ [a]) = (a :: m) ++ z :: [a] := by simp
  rw [this, linked_append_cons]
  simp

/-- Rings are invariant under rotation. -/
theorem Ring.rotate {H : Heap} {u v : List Addr} (h : Ring H (u ++ v)) : Ring H (v ++ u) := by
  cases u with
  | nil => simpa using h
  | cons a u =>
    cases v with
    | nil => simpa using h
    | cons b v =>
      rw [List.cons_append, ring_cons] at h ⊢
      obtain ⟨hnd, h0, hl⟩ := h
      refine ⟨?_, ?_, ?_⟩
      · have := (List.perm_append_comm.nodup_iff).mp
          (by simpa using hnd : ((a :: u) ++ (b :: v)).Nodup)
        simpa using this
      · simp only [List.mem_cons, List.mem_append, not_or] at h0 ⊢
        grind
      · have e1 : a :: (u ++ b :: v ++ [a]) = (a :: u) ++ b :: (v ++ [a]) := by simp
        have e2 : b :: (v ++ a :: u ++ [b]) = (b :: v) ++ a :: (u ++ [b]) := by simp
        rw [e1, linked_append_cons] at hl
        rw [e2, linked_append_cons]
        exact ⟨by simpa using hl.2, by simpa using hl.1⟩

/-- Frame rule for rings: the heaps agree on the ring's elements. -/
theorem Ring.frame {H H' : Heap} {xs : List Addr} (h : Ring H xs)
    (hf : ∀ x ∈ xs, H'.next x = H.next x ∧ H'.prev x = H.prev x) : Ring H' xs := by
  cases xs with
  | nil => exact h
  | cons a t =>
    rw [ring_cons] at h ⊢
    refine ⟨h.1, h.2.1, h.2.2.frame_all ?_ ?_⟩
    · intro x hx
      have : x ∈ a :: t := by simp at hx ⊢; grind
      exact (hf x this).1
    · intro x hx
      have : x ∈ a :: t := by simp at hx ⊢; grind
      exact (hf x this).2

/-- Interior links of a ring. -/
theorem Ring.link {H : Heap} {as bs : List Addr} {a b : Addr}
    (h : Ring H (as ++ a :: b :: bs)) : H.next a = b ∧ H.prev b = a := by
  have h' : Ring H (a :: b :: (bs ++ as)) := by simpa using h.rotate
  rw [ring_cons] at h'
  have := h'.2.2
  simp only [List.cons_append, linked_cons_cons] at this
  exact ⟨this.1, this.2.1⟩

/-- The wrap-around link of a ring: last → first. -/
theorem Ring.wrap {H : Heap} {xs : List Addr} {a z : Addr} (h : Ring H xs)
    (ha : xs.head? = some a) (hz : xs.getLast? = some z) : H.next z = a ∧ H.prev a = z := by
  rcases list_cases3 xs with rfl | ⟨b, rfl⟩ | ⟨b, m, y, rfl⟩
  · simp at ha
  · simp at ha hz; subst ha; subst hz
    exact ((ring_singleton H b).mp h).2
  · simp at ha hz; subst ha; subst hz
    exact ((ring_cons_concat H b y m).mp h).2.2.2

/-! ### `Repr` -/

/-- The handle `l` represents the sequence `xs` in heap `H`. -/
def Repr (H : Heap) (l : Addr) (xs : List Addr) : Prop :=
  (xs = [] ∧ l = 0) ∨ (Ring H xs ∧ xs.getLast? = some l)

theorem repr_nil (H : Heap) (l : Addr) : Repr H l [] ↔ l = 0 := by
  simp [Repr]

theorem repr_zero (H : Heap) (xs : List Addr) : Repr H 0 xs ↔ xs = [] := by
  constructor
  · rintro (⟨h, _⟩ | ⟨hr, hl⟩)
    · exact h
    · exact absurd (List.mem_of_getLast? hl) hr.zero_not_mem
  · rintro rfl; exact Or.inl ⟨rfl, rfl⟩

theorem Repr.nodup {H : Heap} {l : Addr} {xs : List Addr} (h : Repr H l xs) : xs.Nodup := by
  rcases h with ⟨rfl, _⟩ | ⟨hr, _⟩
  · simp
  · exact hr.nodup

theorem Repr.zero_not_mem {H : Heap} {l : Addr} {xs : List Addr} (h : Repr H l xs) : 0 ∉ xs := by
  rcases h with ⟨rfl, _⟩ | ⟨hr, _⟩
  · simp
  · exact hr.zero_not_mem

theorem Repr.ring {H : Heap} {l : Addr} {xs : List Addr} (h : Repr H l xs) (hne : xs ≠ []) :
    Ring H xs ∧ xs.getLast? = some l := by
  rcases h with ⟨rfl, _⟩ | h
  · exact absurd rfl hne
  · exact h

theorem Repr.of_ring {H : Heap} {l : Addr} {xs : List Addr} (h : Ring H xs)
    (hl : xs.getLast? = some l) : Repr H l xs := Or.inr ⟨h, hl⟩

/-- `l = 0` exactly for the empty sequence. -/
theorem Repr.handle_eq_zero_iff {H : Heap} {l : Addr} {xs : List Addr} (h : Repr H l xs) :
    l = 0 ↔ xs = [] := by
  constructor
  · rintro rfl; exact (repr_zero H xs).mp h
  · rintro rfl; exact (repr_nil H l).mp h

/-- Frame rule for represented lists. -/
theorem Repr.frame {H H' : Heap} {l : Addr} {xs : List Addr} (h : Repr H l xs)
    (hf : ∀ x ∈ xs, H'.next x = H.next x ∧ H'.prev x = H.prev x) : Repr H' l xs := by
  rcases h with h | ⟨hr, hl⟩
  · exact Or.inl h
  · exact Or.inr ⟨hr.frame hf, hl⟩

end Dll
