/-
  Proofs/CounterRet.lean — which program point accepts an API return / a semaphore event, and who
  the lock holder is when the ghost flags `waking` / `posting` are set.
-/
import NsyncVerif.Proofs.CounterFactsAll

namespace Counter

variable {s s' : State} {t : Tid}

theorem retValue_pc {v : Nat} (h : stepThr s t (.retValue v) = .ok s') : s.pc t = .valRet v := by
  cases hpc : s.pc t <;> simp [stepThr, hpc, dflt, reject] at h ⊢
  split at h
  · rename_i hv; exact hv.symm
  · cases h

theorem retAdd_pc {r : Nat} (h : stepThr s t (.retAdd r) = .ok s') :
    s.pc t = .azRet r ∨ ∃ d idx, s.pc t = .aRet d r idx := by
  cases hpc : s.pc t <;> simp [stepThr, hpc, dflt, reject] at h ⊢
  all_goals split at h
  all_goals first | (rename_i hv; exact hv.symm) | cases h

theorem retWait_pc {r : Nat} (h : stepThr s t (.retWait r) = .ok s') : ∃ dl, s.pc t = .wRet dl r := by
  cases hpc : s.pc t <;> simp [stepThr, hpc, dflt, reject] at h ⊢
  split at h
  · rename_i hv; exact hv.symm
  · cases h

theorem retNew_pc {ok : Bool} (h : stepThr s t (.retNew ok) = .ok s') :
    s.pc t = .newRet ok ∧ s' = s.setPc t .idle := by
  cases hpc : s.pc t <;> simp [stepThr, hpc, dflt, reject] at h ⊢
  split at h
  · rename_i hv; cases h; exact ⟨hv.symm, rfl⟩
  · cases h

/-- the thread holding counter_mu when `waking` is set is an add in its wake loop -/
theorem waking_holder (hi : Inv s) (hw : s.sh.waking = true) :
    ∃ u, s.sh.lockHolder = some u ∧ wakeLoop (s.pc u) := by
  have hs := hi.sh
  cases hl : s.sh.lockHolder with
  | none => have := hs.free hl; simp [hw] at this
  | some u =>
    refine ⟨u, rfl, ?_⟩
    have hp := hi.pcs u
    cases hpu : s.pc u <;> simp_all [pcInv, pcFacts, holds, wakeLoop]
    all_goals grind

/-- … and when `posting = some k` it is exactly between the store and the post for record k -/
theorem posting_holder (hi : Inv s) {k : NwId} (hw : s.sh.posting = some k) :
    ∃ u d r idx, s.sh.lockHolder = some u ∧ s.pc u = .aPost d r idx k := by
  have hs := hi.sh
  cases hl : s.sh.lockHolder with
  | none => have := hs.free hl; simp [hw] at this
  | some u =>
    have hp := hi.pcs u
    cases hpu : s.pc u <;> simp_all [pcInv, pcFacts, holds]

end Counter
