import NsyncVerif.Proofs.MuQInvQueue
/-
  MuQ: preservation of (I_queue), part 3: leaving lock_slow, enqueueing, clearing `waiting`.
-/
namespace NsyncVerif.MuQ

theorem AQueue.of_eq {a a' : AState} (h : AQueue a) (hq : a'.queue = a.queue) (hro : a'.ro = a.ro)
    (hwr : a'.wr = a.wr) : AQueue a' :=
  aqueue_congr h hq hro (fun k => by rw [hwr]; exact ⟨rfl, rfl, rfl⟩)

/-- lock_slow returns: the thread gives its record back. -/
theorem aqueue_leave {a a' : AState} {t : Tid} {c : SL} (h : AQueue a) (hro : a.ro t = .slow c .pre)
    (hq : a'.queue = a.queue) (hr' : a'.ro = setFn a.ro t .quiet)
    (hwr : ∀ k, (a'.wr k).waiting = (a.wr k).waiting ∧ (a'.wr k).lType = (a.wr k).lType ∧
      (a'.wr k).owner = if c.w = some k then none else (a.wr k).owner) : AQueue a' := by
  have huniq := @AQueue.owner_unique a h
  obtain ⟨q1, q2, q3, q4, q5, q6, q7, q8, q9, q10, q11⟩ := h
  have other : ∀ u, u ≠ t → a'.ro u = a.ro u := fun u hu => by rw [hr']; simp [setFn, hu]
  have self : a'.ro t = .quiet := by rw [hr']; simp [setFn]
  have wake_eq : ∀ u, (a'.ro u).wake = (a.ro u).wake := by
    intro u; by_cases hu : u = t
    · subst hu; rw [self, hro]; rfl
    · rw [other u hu]
  have back : ∀ t' c1 ph1, a'.ro t' = .slow c1 ph1 → t' ≠ t ∧ a.ro t' = .slow c1 ph1 := by
    intro t' c1 ph1 hr
    by_cases hu : t' = t
    · subst hu; rw [self] at hr; cases hr
    · exact ⟨hu, by rw [← other t' hu]; exact hr⟩
  have keep : ∀ t' c1 ph1, a.ro t' = .slow c1 ph1 → ph1 ≠ .pre → a'.ro t' = .slow c1 ph1 := by
    intro t' c1 ph1 hr hph
    by_cases hu : t' = t
    · subst hu; rw [hro] at hr; cases hr; exact absurd rfl hph
    · rw [other t' hu]; exact hr
  refine ⟨by rw [hq]; exact q1, ?_, ?_, ?_, ?_, ?_, ?_, ?_, ?_, ?_, ?_⟩
  · intro k hk; rw [hq] at hk
    obtain ⟨hwt, t', c1, ph1, hr, hcw, hph⟩ := q2 k hk
    refine ⟨by rw [(hwr k).1]; exact hwt, t', c1, ph1, keep t' c1 ph1 hr ?_, hcw, hph⟩
    intro h; subst h; simp [Phase.queued] at hph
  · intro k t'
    rw [(hwr k).2.2]
    by_cases hck : c.w = some k
    · simp only [hck, if_true]
      constructor
      · intro h; cases h
      · rintro ⟨c1, ph1, hr, hcw⟩
        obtain ⟨hne, hr0⟩ := back t' c1 ph1 hr
        exact absurd (huniq hr0 hcw hro hck) hne
    · simp only [hck, if_false]
      rw [q3 k t']
      constructor
      · rintro ⟨c1, ph1, hr, hcw⟩
        by_cases hu : t' = t
        · subst hu; rw [hro] at hr; cases hr; exact absurd hcw hck
        · exact ⟨c1, ph1, by rw [other t' hu]; exact hr, hcw⟩
      · rintro ⟨c1, ph1, hr, hcw⟩
        exact ⟨c1, ph1, (back t' c1 ph1 hr).2, hcw⟩
  · intro t' c1 ph1 k hr hcw; rw [(hwr k).2.1]; exact q4 t' c1 ph1 k (back t' c1 ph1 hr).2 hcw
  · intro u k hk; rw [wake_eq u] at hk; rw [hq, (hwr k).1]
    obtain ⟨hnq, hwt, t', c1, ph1, hr, hcw, hph⟩ := q5 u k hk
    refine ⟨hnq, hwt, t', c1, ph1, keep t' c1 ph1 hr ?_, hcw, hph⟩
    intro h; subst h; simp [Phase.inLoop] at hph
  · intro u; rw [wake_eq u]; exact q6 u
  · intro u u' k hk hk'; rw [wake_eq u] at hk; rw [wake_eq u'] at hk'; exact q7 u u' k hk hk'
  · intro k hk; rw [(hwr k).1] at hk; rw [hq]
    rcases q8 k hk with h | ⟨u, hu⟩
    · exact Or.inl h
    · exact Or.inr ⟨u, by rw [wake_eq u]; exact hu⟩
  · intro t' c1 ph1 hr; exact q9 t' c1 ph1 (back t' c1 ph1 hr).2
  · intro t' c1 hr; rw [hq]; exact q10 t' c1 (back t' c1 .rel hr).2
  · intro u sc hr
    by_cases hu : u = t
    · subst hu; rw [self] at hr; cases hr
    · rw [other u hu] at hr; rw [hq]; exact q11 u sc hr

/-- The store `waiting := 1` with the queue insertion (first wait or re-queue). -/
theorem aqueue_enqueue {a a' : AState} {t : Tid} {c : SL} {k : Wid} (h : AQueue a)
    (hro : a.ro t = .slow c .st) (hkq : k ∉ a.queue)
    (hcw : c.w = none ∨ c.w = some k)
    (hk_nw : ∀ u, k ∉ (a.ro u).wake)
    (hk_own : ∀ t' c1 ph1, a.ro t' = .slow c1 ph1 → c1.w = some k → t' = t)
    (hnoscan : ∀ u sc, a.ro u ≠ .scan sc)
    (hq : ∀ x, x ∈ a'.queue ↔ x = k ∨ x ∈ a.queue) (hnd : a'.queue.Nodup)
    (hr' : a'.ro = setFn a.ro t (.slow { c with w := some k } .rel))
    (hwk : (a'.wr k).owner = some t ∧ (a'.wr k).waiting = true ∧ (a'.wr k).lType = c.l)
    (hwo : ∀ k', k' ≠ k → a'.wr k' = a.wr k') : AQueue a' := by
  obtain ⟨q1, q2, q3, q4, q5, q6, q7, q8, q9, q10, q11⟩ := h
  have other : ∀ u, u ≠ t → a'.ro u = a.ro u := fun u hu => by rw [hr']; simp [setFn, hu]
  have self : a'.ro t = .slow { c with w := some k } .rel := by rw [hr']; simp [setFn]
  have wake_eq : ∀ u, (a'.ro u).wake = (a.ro u).wake := by
    intro u; by_cases hu : u = t
    · subst hu; rw [self, hro]; rfl
    · rw [other u hu]
  have keep : ∀ t' c1 ph1, a.ro t' = .slow c1 ph1 → ph1 ≠ .st → a'.ro t' = .slow c1 ph1 := by
    intro t' c1 ph1 hr hph
    by_cases hu : t' = t
    · subst hu; rw [hro] at hr; cases hr; exact absurd rfl hph
    · rw [other t' hu]; exact hr
  refine ⟨hnd, ?_, ?_, ?_, ?_, ?_, ?_, ?_, ?_, ?_, ?_⟩
  · intro k' hk'
    rcases (hq k').1 hk' with h | h
    · subst h; exact ⟨hwk.2.1, t, _, _, self, rfl, rfl⟩
    · have hne : k' ≠ k := fun e => hkq (e ▸ h)
      obtain ⟨hwt, t', c1, ph1, hr, hcw1, hph⟩ := q2 k' h
      refine ⟨by rw [hwo k' hne]; exact hwt, t', c1, ph1, keep t' c1 ph1 hr ?_, hcw1, hph⟩
      intro e; subst e; simp [Phase.queued] at hph
  · intro k' t'
    by_cases hkk : k' = k
    · subst hkk; rw [hwk.1]
      constructor
      · intro e; cases e; exact ⟨_, _, self, rfl⟩
      · rintro ⟨c1, ph1, hr, hcw1⟩
        by_cases hu : t' = t
        · rw [hu]
        · rw [other t' hu] at hr; exact absurd (hk_own t' c1 ph1 hr hcw1) hu
    · rw [hwo k' hkk, q3 k' t']
      by_cases hu : t' = t
      · subst hu
        constructor
        · rintro ⟨c1, ph1, hr, hcw1⟩; rw [hro] at hr; cases hr
          rcases hcw with e | e <;> rw [e] at hcw1 <;> cases hcw1
          exact absurd rfl hkk
        · rintro ⟨c1, ph1, hr, hcw1⟩; rw [self] at hr; cases hr
          simp at hcw1; exact absurd hcw1.symm hkk
      · rw [other t' hu]
  · intro t' c1 ph1 k' hr hcw1
    by_cases hu : t' = t
    · subst hu; rw [self] at hr; cases hr; simp at hcw1; subst hcw1; exact hwk.2.2
    · rw [other t' hu] at hr
      have hne : k' ≠ k := fun e => hu (hk_own t' c1 ph1 hr (e ▸ hcw1))
      rw [hwo k' hne]; exact q4 t' c1 ph1 k' hr hcw1
  · intro u k' hk'; rw [wake_eq u] at hk'
    have hne : k' ≠ k := fun e => hk_nw u (e ▸ hk')
    obtain ⟨hnq, hwt, t', c1, ph1, hr, hcw1, hph⟩ := q5 u k' hk'
    refine ⟨fun hm => ?_, by rw [hwo k' hne]; exact hwt, t', c1, ph1, keep t' c1 ph1 hr ?_, hcw1, hph⟩
    · rcases (hq k').1 hm with e | e
      · exact hne e
      · exact hnq e
    · intro e; subst e; simp [Phase.inLoop] at hph
  · intro u; rw [wake_eq u]; exact q6 u
  · intro u u' k' hk hk'; rw [wake_eq u] at hk; rw [wake_eq u'] at hk'; exact q7 u u' k' hk hk'
  · intro k' hk'
    by_cases hkk : k' = k
    · left; exact (hq k').2 (Or.inl hkk)
    · rw [hwo k' hkk] at hk'
      rcases q8 k' hk' with h | ⟨u, hu⟩
      · left; exact (hq k').2 (Or.inr h)
      · right; exact ⟨u, by rw [wake_eq u]; exact hu⟩
  · intro t' c1 ph1 hr
    by_cases hu : t' = t
    · subst hu; rw [self] at hr; cases hr
      obtain ⟨e1, _, _⟩ := q9 t' c .st hro
      exact ⟨e1, (fun h => by rcases h with h | h <;> cases h), fun _ => rfl⟩
    · rw [other t' hu] at hr; exact q9 t' c1 ph1 hr
  · intro t' c1 hr
    by_cases hu : t' = t
    · subst hu; rw [self] at hr; cases hr; exact ⟨k, rfl, (hq k).2 (Or.inl rfl)⟩
    · rw [other t' hu] at hr
      obtain ⟨k1, e1, e2⟩ := q10 t' c1 hr
      exact ⟨k1, e1, (hq k1).2 (Or.inr e2)⟩
  · intro u sc hr
    by_cases hu : u = t
    · subst hu; rw [self] at hr; cases hr
    · rw [other u hu] at hr; exact absurd hr (hnoscan u sc)

/-- unlock_slow clears `waiting` of the first waiter on its private list. -/
theorem aqueue_wakeStore {a a' : AState} {t : Tid} {k : Wid} {r : List Wid} (h : AQueue a)
    (hro : a.ro t = .wakeSt k r) (hq : a'.queue = a.queue)
    (hr' : a'.ro = setFn a.ro t (.wakeV k r))
    (hwk : (a'.wr k).owner = (a.wr k).owner ∧ (a'.wr k).waiting = false ∧ (a'.wr k).lType = (a.wr k).lType)
    (hwo : ∀ k', k' ≠ k → a'.wr k' = a.wr k') : AQueue a' := by
  obtain ⟨q1, q2, q3, q4, q5, q6, q7, q8, q9, q10, q11⟩ := h
  have other : ∀ u, u ≠ t → a'.ro u = a.ro u := fun u hu => by rw [hr']; simp [setFn, hu]
  have self : a'.ro t = .wakeV k r := by rw [hr']; simp [setFn]
  have hkt : k ∈ (a.ro t).wake := by rw [hro]; simp [Role.wake]
  have wake_sub : ∀ u k', k' ∈ (a'.ro u).wake → k' ∈ (a.ro u).wake ∧ k' ≠ k := by
    intro u k' hk'
    by_cases hu : u = t
    · subst hu; rw [self] at hk'; simp only [Role.wake] at hk'
      have hnd := q6 u; rw [hro] at hnd; simp only [Role.wake, List.nodup_cons] at hnd
      refine ⟨by rw [hro]; simp [Role.wake, hk'], fun e => hnd.1 (e ▸ hk')⟩
    · rw [other u hu] at hk'
      exact ⟨hk', fun e => hu (q7 u t k (e ▸ hk') hkt)⟩
  have slow_eq : ∀ t' c1 ph1, a'.ro t' = .slow c1 ph1 ↔ a.ro t' = .slow c1 ph1 := by
    intro t' c1 ph1
    by_cases hu : t' = t
    · subst hu; rw [self, hro]; simp
    · rw [other t' hu]
  have owner_eq : ∀ k', (a'.wr k').owner = (a.wr k').owner := by
    intro k'; by_cases e : k' = k
    · subst e; exact hwk.1
    · rw [hwo k' e]
  have lty_eq : ∀ k', (a'.wr k').lType = (a.wr k').lType := by
    intro k'; by_cases e : k' = k
    · subst e; exact hwk.2.2
    · rw [hwo k' e]
  refine ⟨by rw [hq]; exact q1, ?_, ?_, ?_, ?_, ?_, ?_, ?_, ?_, ?_, ?_⟩
  · intro k' hk'; rw [hq] at hk'
    have hne : k' ≠ k := fun e => (q5 t k hkt).1 (e ▸ hk')
    obtain ⟨hwt, t', c1, ph1, hr, hcw1, hph⟩ := q2 k' hk'
    exact ⟨by rw [hwo k' hne]; exact hwt, t', c1, ph1, (slow_eq t' c1 ph1).2 hr, hcw1, hph⟩
  · intro k' t'; rw [owner_eq k', q3 k' t']
    constructor
    · rintro ⟨c1, ph1, hr, hcw1⟩; exact ⟨c1, ph1, (slow_eq t' c1 ph1).2 hr, hcw1⟩
    · rintro ⟨c1, ph1, hr, hcw1⟩; exact ⟨c1, ph1, (slow_eq t' c1 ph1).1 hr, hcw1⟩
  · intro t' c1 ph1 k' hr hcw1; rw [lty_eq k']; exact q4 t' c1 ph1 k' ((slow_eq t' c1 ph1).1 hr) hcw1
  · intro u k' hk'
    obtain ⟨h1, hne⟩ := wake_sub u k' hk'
    obtain ⟨hnq, hwt, t', c1, ph1, hr, hcw1, hph⟩ := q5 u k' h1
    exact ⟨by rw [hq]; exact hnq, by rw [hwo k' hne]; exact hwt, t', c1, ph1, (slow_eq t' c1 ph1).2 hr, hcw1, hph⟩
  · intro u
    by_cases hu : u = t
    · subst hu; rw [self]; have hnd := q6 u; rw [hro] at hnd
      simp only [Role.wake, List.nodup_cons] at hnd ⊢; exact hnd.2
    · rw [other u hu]; exact q6 u
  · intro u u' k' hk hk'; exact q7 u u' k' (wake_sub u k' hk).1 (wake_sub u' k' hk').1
  · intro k' hk'
    have hne : k' ≠ k := fun e => by rw [e, hwk.2.1] at hk'; cases hk'
    rw [hwo k' hne] at hk'; rw [hq]
    rcases q8 k' hk' with h | ⟨u, hu⟩
    · exact Or.inl h
    · right; refine ⟨u, ?_⟩
      by_cases hut : u = t
      · subst hut; rw [self]; rw [hro] at hu; simp only [Role.wake, List.mem_cons] at hu ⊢
        rcases hu with e | e
        · exact absurd e hne
        · exact e
      · rw [other u hut]; exact hu
  · intro t' c1 ph1 hr; exact q9 t' c1 ph1 ((slow_eq t' c1 ph1).1 hr)
  · intro t' c1 hr; rw [hq]; exact q10 t' c1 ((slow_eq t' c1 .rel).1 hr)
  · intro u sc hr
    by_cases hu : u = t
    · subst hu; rw [self] at hr; cases hr
    · rw [other u hu] at hr; rw [hq]; exact q11 u sc hr

end NsyncVerif.MuQ
