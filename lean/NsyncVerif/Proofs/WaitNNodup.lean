/-
  Proofs/WaitNNodup.lean — the records of a frame are pairwise distinct.
-/
import NsyncVerif.Proofs.WaitNQStep1

set_option linter.unusedSimpArgs false
set_option linter.unusedVariables false

namespace WaitN

def RecsNodup (s : State) : Prop := ∀ t, (s.fr t).recs.Nodup

theorem recsNodup_of_reachable {s : State} (h : Reachable s) : RecsNodup s := by
  refine reachable_induction (P := RecsNodup) ?_ ?_ h
  · intro t; simp [init, Frame.empty]
  · intro s s' e hr ih hs
    cases e with
    | tick ns =>
      simp only [step] at hs
      split at hs
      · cases hs; exact ih
      · simp at hs
    | thr u ev =>
      simp only [step] at hs
      rcases quiet_or_structural hs with q | st
      · intro t; rw [q.recs]; exact ih t
      · cases st with
        | call mu dl objs nested hpc hne hk hs' =>
          subst hs'; intro t
          by_cases ht : t = u
          · subst ht; simp [Frame.new, Frame.empty]
          · simp [ht]; exact ih t
        | init i r oid hpc hoid hdead hi hs' =>
          subst hs'; intro t
          by_cases ht : t = u
          · subst ht
            simp only [setPc_fr, setFr_fr, if_true]
            have hl := linv_of_reachable hr t
            rw [hpc] at hl
            have hnm : r ∉ (s.fr t).recs := by
              intro hm
              have := (own_of_reachable hr).own t r (by rw [hpc]; rfl) hl.1.frees hm
              rw [hdead] at this; cases this.1
            exact List.nodup_append.2 ⟨ih t, by simp, by intro a ha b hb; simp at hb; subst hb; intro hab; subst hab; exact hnm ha⟩
          · simp [ht]; exact ih t
        | free hpc hs' =>
          subst hs'; intro t
          by_cases ht : t = u
          · subst ht; simp; exact ih t
          · simp [ht]; exact ih t
        | ret r0 hpc hs' =>
          subst hs'; intro t
          by_cases ht : t = u
          · subst ht; simp [Frame.empty]
          · simp [ht]; exact ih t

theorem idx_unique {l : List Rid} (h : l.Nodup) {i j : Nat} {r : Rid} (hi : l[i]? = some r) (hj : l[j]? = some r) : i = j := by
  have hi' := List.getElem?_eq_some_iff.1 hi
  have hj' := List.getElem?_eq_some_iff.1 hj
  obtain ⟨h1, h2⟩ := hi'
  obtain ⟨h3, h4⟩ := hj'
  exact (List.getElem_inj h).1 (h2.trans h4.symm)

end WaitN
