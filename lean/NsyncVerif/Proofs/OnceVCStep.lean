/-
  Layer `Once` × vector clocks: tactics for the preservation of the edge invariant `VInv`;
  the `cb … end` event and the loads of the once word.
-/
import NsyncVerif.Proofs.OnceVC

namespace Once
open NsyncVerif

theorem cstep_cas_acq (c : VC.St OnceId) (t : Tid) (fn : Fn) (o : OnceId) (exp new obs : Nat)
    (ok : Bool) :
    cstep c (.cas t fn .acq o exp new obs ok) =
      if ok = true then
        { vc := VC.upd c.vc t ((VC.Clock.join (c.vc t) (c.relc o)).tick t),
          relc := VC.upd c.relc o (c.relc o) }
      else c := by
  cases ok
  · simp [cstep_cas_fail]
  · simp [cstep_cas_acq_ok]

theorem afterCb_inW {p : PC} {o : OnceId} (h : p.AfterCb o) : p.InW o := by
  cases p <;> simp_all [PC.AfterCb, PC.InW]

/-- Closes one case of `VInv` preservation once successor state and clocks are explicit. -/
macro "vinv_finish" : tactic => `(tactic|
  (constructor <;> dsimp only <;> intros <;>
    grind [upd, VC.upd, afterLoc, PC.Leaving, PC.AfterCb, PC.InW, Inv, VInv, afterCb_inW,
      VC.Clock.le_refl, le_join_of_le_left, le_join_of_le_right, le_tick_of_le]))

/-- The end of the once-function: the ghost `ec` is set to the runner's clock. -/
theorem vinv_step_cbEnd {cfg : Config} {p p' : PState} {t : Tid} {a : Bool} (hi : Inv cfg p.s)
    (hv : VInv p) (h : pstep cfg p (.cbEnd t a) = .ok p') : VInv p' := by
  obtain ⟨s, c, ec⟩ := p
  simp only [pstep] at h
  split at h
  case h_2 => contradiction
  rename_i s' hs
  simp only [Except.ok.injEq] at h
  subst h
  simp only at hi hs
  simp only [step] at hs
  split at hs <;> step_norm hs <;> try contradiction
  rename_i f hpc
  obtain ⟨h1, rfl⟩ := hs
  simp only [cstep, toVC, endUpd, hpc, State.setPc]
  vinv_finish

/-- The loads of the once word (the acquire wait-loop load that observes 2 imports the edge). -/
theorem vinv_step_ld {cfg : Config} {p p' : PState} {t : Tid} {fn : Fn} {ord : Ord} {o : OnceId}
    {obs : Nat} (hi : Inv cfg p.s) (hv : VInv p) (h : pstep cfg p (.ld t fn ord o obs) = .ok p') :
    VInv p' := by
  obtain ⟨s, c, ec⟩ := p
  simp only [pstep] at h
  split at h
  case h_2 => contradiction
  rename_i s' hs
  simp only [Except.ok.injEq] at h
  subst h
  simp only at hi hs
  simp only [step] at hs
  split at hs <;> step_norm hs <;> try contradiction
  all_goals
    obtain ⟨h1, h2, h3, h4, rfl⟩ := hs
    subst_vars
    try simp only [cstep_ld_acq, cstep_ld_rlx]
    simp only [endUpd, State.setPc]
    vinv_finish

end Once
