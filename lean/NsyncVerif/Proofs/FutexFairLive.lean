/-
  Futex layer (C12), fair termination: where the two fairness hypotheses enter.

  `fair_move_awake`   (WeakFair)   a thread inside a call and not queued in the kernel moves;
  `fair_move_due`     (KernelFair) a sleeper that has been woken or has timed out moves;
  `fair_move_posted`  (both)       a sleeper moves if some poster is between its CAS and its wake.
  Nothing else in the development uses `WeakFair` / `KernelFair`.
-/
import NsyncVerif.Proofs.FutexFairRank

namespace NsyncVerif.Futex

set_option linter.unusedSimpArgs false
set_option linter.unusedVariables false

variable {s0 : State}

theorem isSome_markWoken (sl : Option SleepInfo) : (markWoken sl).isSome = sl.isSome := by
  cases sl <;> rfl

theorem inKernel_other {s s' : State} {e : Event} {t : Tid} (hi : Inv s) (hs : step s e = .ok s')
    (hne : e.tid ≠ some t) (h : inKernel s t = false) : inKernel s' t = false := by
  have hpc := step_pc_other hs hne
  unfold inKernel at *
  rw [hpc]
  split
  · next k hk =>
    have hw : (s.pc t).isWaiter = true := by rw [hk]; rfl
    rw [hk] at h
    simp only at h
    rcases step_sleeper_other hi hs hw hne with h' | ⟨h', _⟩
    · rw [h']; exact h
    · rw [h', isSome_markWoken]; exact h
  · rfl

theorem kernelDue_pc {s : State} {t : Tid} (h : kernelDue s t = true) :
    ∃ k si, s.pc t = .wSleep k ∧ s.sleeper = some si ∧ (si.woken = true ∨ expired si.deadline s.now = true) := by
  unfold kernelDue at h
  split at h
  · next k si hk hsl => exact ⟨k, si, hk, hsl, by simpa using h⟩
  · cases h

theorem kernelDue_of {s : State} {t : Tid} {k : WKind} {si : SleepInfo} (hk : s.pc t = .wSleep k)
    (hsl : s.sleeper = some si) (h : si.woken = true ∨ expired si.deadline s.now = true) :
    kernelDue s t = true := by
  unfold kernelDue; rw [hk, hsl]; simpa using h

theorem expired_mono {dl : Option Nat} {a b : Nat} (hab : a ≤ b) (h : expired dl a = true) :
    expired dl b = true := by
  cases dl <;> simp [expired] at * ; omega

theorem kernelDue_other {s s' : State} {e : Event} {t : Tid} (hi : Inv s) (hs : step s e = .ok s')
    (hne : e.tid ≠ some t) (h : kernelDue s t = true) : kernelDue s' t = true := by
  obtain ⟨k, si, hk, hsl, hd⟩ := kernelDue_pc h
  have hpc := step_pc_other hs hne
  have hw : (s.pc t).isWaiter = true := by rw [hk]; rfl
  have hnow := step_now_mono hs
  rcases step_sleeper_other hi hs hw hne with h' | ⟨h', _⟩
  · refine kernelDue_of (by rw [hpc]; exact hk) (by rw [h']; exact hsl) ?_
    rcases hd with hd | hd
    · exact Or.inl hd
    · exact Or.inr (expired_mono hnow hd)
  · exact kernelDue_of (si := { si with woken := true }) (by rw [hpc]; exact hk)
      (by rw [h', hsl]; rfl) (Or.inl rfl)

theorem not_moves_pc (x : Exec s0) {t : Tid} {j : Nat} (h : ¬ Moves x t j) :
    (x.ρ (j + 1)).pc t = (x.ρ j).pc t := by
  cases hs : x.σ j with
  | none => rw [x.next_none hs]
  | some e => exact step_pc_other (x.next_some hs) (fun ht => h ⟨e, hs, ht⟩)

/-- Lift a one-step fact about steps of OTHER threads to "`t` does not move at time `j`". -/
theorem not_moves_lift (x : Exec s0) (hr : Reachable s0) {t : Tid} {P : State → Prop}
    (hP : ∀ s s' e, Inv s → step s e = .ok s' → e.tid ≠ some t → P s → P s') {j : Nat}
    (h : ¬ Moves x t j) (hj : P (x.ρ j)) : P (x.ρ (j + 1)) := by
  cases hs : x.σ j with
  | none => rw [x.next_none hs]; exact hj
  | some e => exact hP _ _ e (x.reach hr j).inv (x.next_some hs) (fun ht => h ⟨e, hs, ht⟩) hj

theorem Exec.now_mono (x : Exec s0) {i j : Nat} (hij : i ≤ j) : (x.ρ i).now ≤ (x.ρ j).now := by
  obtain ⟨d, rfl⟩ : ∃ d, j = i + d := ⟨j - i, by omega⟩
  induction d with
  | zero => exact Nat.le_refl _
  | succ d ih =>
    have h1 := ih (by omega)
    have h2 : (x.ρ (i + d)).now ≤ (x.ρ (i + d + 1)).now := by
      cases hs : x.σ (i + d) with
      | none => rw [x.next_none hs]; exact Nat.le_refl _
      | some e => exact step_now_mono (x.next_some hs)
    exact Nat.le_trans h1 h2

/-- WEAK FAIRNESS: a thread inside a call and not queued in the kernel moves. -/
theorem fair_move_awake (x : Exec s0) (hr : Reachable s0) (hf : WeakFair x) {t : Tid} {j : Nat}
    (h1 : (x.ρ j).pc t ≠ .idle) (h2 : inKernel (x.ρ j) t = false) : ∃ j', j ≤ j' ∧ Moves x t j' := by
  apply Classical.byContradiction
  intro hn
  have hnm : ∀ j', j ≤ j' → ¬ Moves x t j' := fun j' hj hm => hn ⟨j', hj, hm⟩
  have hall : ∀ j', j ≤ j' → (x.ρ j').pc t ≠ .idle ∧ inKernel (x.ρ j') t = false := by
    apply invariant_from x (P := fun s => s.pc t ≠ .idle ∧ inKernel s t = false) _ ⟨h1, h2⟩
    intro j' hj' hP
    exact not_moves_lift x hr (P := fun s => s.pc t ≠ .idle ∧ inKernel s t = false)
      (fun s s' e hi hs hne hP => ⟨by rw [step_pc_other hs hne]; exact hP.1, inKernel_other hi hs hne hP.2⟩)
      (hnm j' hj') hP
  obtain ⟨j', e, hj', he, ht⟩ := hf t j hall
  exact hnm j' hj' ⟨e, he, ht⟩

/-- KERNEL FAIRNESS: a sleeper that has been woken, or whose timeout has passed, moves. -/
theorem fair_move_due (x : Exec s0) (hr : Reachable s0) (kf : KernelFair x) {t : Tid} {j : Nat}
    (h : kernelDue (x.ρ j) t = true) : ∃ j', j ≤ j' ∧ Moves x t j' := by
  apply Classical.byContradiction
  intro hn
  have hnm : ∀ j', j ≤ j' → ¬ Moves x t j' := fun j' hj hm => hn ⟨j', hj, hm⟩
  have hall : ∀ j', j ≤ j' → kernelDue (x.ρ j') t = true := by
    apply invariant_from x (P := fun s => kernelDue s t = true) _ h
    intro j' hj' hP
    exact not_moves_lift x hr (P := fun s => kernelDue s t = true)
      (fun s s' e hi hs hne hP => kernelDue_other hi hs hne hP) (hnm j' hj') hP
  obtain ⟨j', e, hj', he, ht⟩ := kf t j hall
  exact hnm j' hj' ⟨e, he, ht⟩

theorem vWake_awake {s : State} {p : Tid} (h : s.pc p = .vWake) :
    s.pc p ≠ .idle ∧ inKernel s p = false := by
  refine ⟨by rw [h]; simp, ?_⟩
  unfold inKernel; rw [h]

/-- A sleeper moves if some poster is between its CAS and its futex wake: the poster moves (weak
    fairness), its only step marks the sleeper woken, the kernel then owes the return. -/
theorem fair_move_posted (x : Exec s0) (hr : Reachable s0) (hf : WeakFair x) (kf : KernelFair x)
    {t p : Tid} {k : WKind} {j : Nat} (hpc : (x.ρ j).pc t = .wSleep k)
    (hsl : (x.ρ j).sleeper.isSome = true) (hp : (x.ρ j).pc p = .vWake) :
    ∃ j', j ≤ j' ∧ Moves x t j' := by
  apply Classical.byContradiction
  intro hn
  have hnm : ∀ j', j ≤ j' → ¬ Moves x t j' := fun j' hj hm => hn ⟨j', hj, hm⟩
  obtain ⟨j1, hj1, ⟨e, he, hte⟩, hfirst⟩ :=
    first_move' x (fair_move_awake x hr hf (vWake_awake hp).1 (vWake_awake hp).2)
  -- the poster is still at its wake at time j1
  have hp1 : (x.ρ j1).pc p = .vWake :=
    stable_between x (t := p) (P := fun s => s.pc p = .vWake) (n := j)
      (fun j' _ hP hm => by show (x.ρ (j' + 1)).pc p = _; rw [not_moves_pc x hm]; exact hP)
      (Nat.le_refl _) hj1 hfirst hp
  -- the sleeper is still queued at time j1
  have ht1 : (x.ρ j1).pc t = .wSleep k ∧ (x.ρ j1).sleeper.isSome = true := by
    apply invariant_from x (P := fun s => s.pc t = .wSleep k ∧ s.sleeper.isSome = true) (n := j) _ ⟨hpc, hsl⟩ j1 hj1
    intro j' hj' hP
    refine not_moves_lift x hr (P := fun s => s.pc t = .wSleep k ∧ s.sleeper.isSome = true) ?_ (hnm j' hj') hP
    intro s s' e hi hs hne hP
    have hw : (s.pc t).isWaiter = true := by rw [hP.1]; rfl
    refine ⟨by rw [step_pc_other hs hne]; exact hP.1, ?_⟩
    rcases step_sleeper_other hi hs hw hne with h' | ⟨h', _⟩
    · rw [h']; exact hP.2
    · rw [h', isSome_markWoken]; exact hP.2
  have hs := x.next_some he
  have hsl1 := step_vWake_own hs hte hp1
  have hne : e.tid ≠ some t := fun h => hnm j1 hj1 ⟨e, he, h⟩
  obtain ⟨si, hsi⟩ := Option.isSome_iff_exists.1 ht1.2
  have hdue : kernelDue (x.ρ (j1 + 1)) t = true :=
    kernelDue_of (si := { si with woken := true }) (by rw [step_pc_other hs hne]; exact ht1.1)
      (by rw [hsl1, hsi]; rfl) (Or.inl rfl)
  obtain ⟨j', hj', hm⟩ := fair_move_due x hr kf hdue
  exact hnm j' (by omega) hm

end NsyncVerif.Futex
