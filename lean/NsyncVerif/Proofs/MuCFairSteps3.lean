import NsyncVerif.Proofs.MuCFairSteps2
import NsyncVerif.Proofs.MuCFairStraight
/-
  MuC, fair termination, step A: `stage` (3 inside an acquisition — lock / rlock / trylock / rtrylock /
  nsync_mu_wait_with_deadline —, 2 idle holding the mutex, 1 inside a release, 0 idle holding nothing) is not
  increased by any accepted step except the `call` of an acquisition; so after the last arrival every thread's stage
  is non-increasing, hence eventually constant.
-/
namespace NsyncVerif.MuC

def Event.isApi : Event → Bool
  | .call _ _ | .ret _ _ _ => true
  | _ => false

theorem kind_stepCond {s s' : State} {t : Tid} {fn : CFn} {k : Nat} {res : Bool} (h1 : Inv1 s)
    (hs : stepCond s t fn k res = .ok s') : KindKeep (s.pc t) (s'.pc t) := by
  unfold stepCond at hs
  dsimp only at hs
  split at hs
  · rename_i c heq
    repeat' split at hs
    all_goals first
      | (cases hs; done)
      | (cases hs; kind_local heq)
  · rename_i r sc heq
    have hok0 := h1.pcok t; rw [heq] at hok0
    repeat' split at hs
    all_goals first
      | (cases hs; done)
      | skip
    obtain ⟨hf, p, hpc, hsc⟩ := afterEval_frame hs hok0.2.1
    exact kind_of_pc heq (by rw [hpc]) (KindKeep.scan (r := r) (by simp) rfl hsc)
  · cases hs

/-- Every accepted step of thread `t` that is neither a `call`, nor a `ret`, nor a client data access keeps `t` inside
    its call. -/
theorem kind_step {cfg : Cfg} {s s' : State} {e : Event} {t : Tid} (h1 : Inv1 s) (hs : step cfg s e = .ok s')
    (ht : e.tid = some t) (hapi : e.isApi = false) (hd : e.isData = false) : KindKeep (s.pc t) (s'.pc t) := by
  cases e <;> simp only [Event.tid, Option.some.injEq, reduceCtorEq] at ht
  all_goals subst ht
  case call t a => simp [Event.isApi] at hapi
  case ret t a res => simp [Event.isApi] at hapi
  case ld t o loc obs => exact kind_stepLd hs
  case st t o loc new obs => exact kind_stepSt hs
  case cas t o loc exp new obs ok => exact kind_stepCas h1 hs
  case cond t fn k res => exact kind_stepCond h1 hs
  case semPEnter t k =>
    simp only [step] at hs
    split at hs
    · rename_i heq; ld_caseKd heq hs
    · cases hs
  case semPRet t k =>
    simp only [step] at hs
    split at hs
    · rename_i heq; ld_caseKd heq hs
    · cases hs
  case semPdEnter t k dl =>
    simp only [step] at hs
    split at hs
    · rename_i heq; ld_caseKd heq hs
    · cases hs
  case semPdRet t k timedout =>
    simp only [step] at hs
    split at hs
    · rename_i heq; ld_caseKd heq hs
    · cases hs
  case semV t k =>
    simp only [step] at hs
    split at hs
    · rename_i r k' rest heq
      split at hs
      · cases hs
      · cases hs
        rw [afterFin_eq, heq]
        simp only [semPost_pc, setPc_pc, setFn_same]
        cases rest <;> cases r <;> simp [finPc, Ret.pc, KindKeep, PC.rel, Ret.isUl]
    · cases hs
  case dataW t x v => simp [Event.isData] at hd
  case dataR t x v => simp [Event.isData] at hd
  case noteSeen t =>
    simp only [step] at hs
    split at hs
    · rename_i heq; ld_caseKd heq hs
    · cases hs
  case noteNotify t =>
    simp only [step] at hs
    split at hs
    · rename_i heq; ld_caseKd heq hs
    · rename_i heq; ld_caseKd heq hs
    · cases hs

/-! ### the stage -/

def stagePc (held : Option Mode) (p : PC) : Nat :=
  if p = .idle then (if held.isSome then 2 else 0) else if p.rel then 1 else 3

/-- 3 inside an acquisition, 2 idle holding the mutex, 1 inside a release, 0 idle holding nothing. -/
def stage (s : State) (t : Tid) : Nat := stagePc (s.held t) (s.pc t)

theorem stage_le_three (s : State) (t : Tid) : stage s t ≤ 3 := by
  unfold stage stagePc; split <;> split <;> omega

/-- No accepted step of anybody (environment included) increases anybody's stage, except the `call` of an
    acquisition (lock / rlock / trylock / rtrylock / nsync_mu_wait_with_deadline). -/
theorem stage_step {cfg : Cfg} {s s' : State} {e : Event} (hr : Reachable cfg s) (hs : step cfg s e = .ok s')
    (hna : e.isArrival = false) (u : Tid) : stage s' u ≤ stage s u := by
  have h1 := reachable_inv1 hr
  by_cases hu : e.tid = some u
  · by_cases hd : e.isData = true
    · obtain ⟨a, b⟩ := data_step_frame hs hd
      unfold stage; rw [a, b]; exact Nat.le_refl _
    · have hd' : e.isData = false := by cases h : e.isData <;> simp_all
      by_cases hapi : e.isApi = true
      · cases e <;> simp [Event.isApi] at hapi
        · -- call
          rename_i t a
          simp only [Event.tid, Option.some.injEq] at hu; subst hu
          simp only [step, stepCall] at hs
          split at hs
          · rename_i heq
            cases a <;> simp [Event.isArrival] at hna <;> dsimp only at hs
            all_goals (split at hs)
            all_goals first
              | (cases hs; done)
              | (rename_i hh; cases hs; simp [stage, stagePc, heq, hh, setFn, PC.rel])
          · cases hs
        · -- ret
          rename_i t a res
          simp only [Event.tid, Option.some.injEq] at hu; subst hu
          have hni : s.pc t ≠ .idle := by
            intro hi; simp [step, stepRet, hi] at hs
          have hheld := h1.held_none hni
          simp only [step, stepRet] at hs
          split at hs
          all_goals first
            | (cases hs; done)
            | (rename_i heq
               repeat' split at hs
               all_goals first
                 | (cases hs; done)
                 | (cases hs; simp [stage, stagePc, heq, hheld, setFn, PC.rel, setHeld, dropW] <;> (repeat' split) <;> simp_all))
      · have hapi' : e.isApi = false := by cases h : e.isApi <;> simp_all
        obtain ⟨a, b, c⟩ := kind_step h1 hs hu hapi' hd'
        simp [stage, stagePc, a, b, c]
  · obtain ⟨a, b⟩ := step_other hs u hu
    unfold stage; rw [a, b]; exact Nat.le_refl _

end NsyncVerif.MuC
