import NsyncVerif.Proofs.MuCInv4Reach
/-
  MuC: the scan of unlock_slow only moves waiters from the lists to its wake list; the set of queued
  waiters never grows during a scan step.
-/
namespace NsyncVerif.MuC

theorem scanRun_wake : ∀ (n : Nat) (s : State) (t : Tid) (r : Ret) (sc : Scan) (s' : State),
    scanRun n s t r sc = .ok s' → ∀ x, x ∈ sc.wake → x ∈ (s'.pc t).wakeL := by
  intro n
  induction n with
  | zero => intro s t r sc s' h; simp [scanRun] at h
  | succ n ih =>
    intro s t r sc s' h x hx
    unfold scanRun at h
    have hsp := scanGo_lists s.wr sc.todo sc
    split at h
    · cases h
    · rename_i k sc' heq
      rw [heq] at hsp
      simp only [Except.ok.injEq] at h; subst h
      simp [PC.wakeL, hsp.2.1, hx]
    · rename_i k sc' heq
      rw [heq] at hsp
      simp only [Except.ok.injEq] at h; subst h
      simp [PC.wakeL, hsp.2.2, hx]
    · rename_i sc' heq
      rw [heq] at hsp
      split at h
      · simp only [Except.ok.injEq] at h; subst h
        simp [PC.wakeL, hsp.2.1, hx]
      · split at h
        · simp only [Except.ok.injEq] at h; subst h
          simp [toFin, PC.wakeL, mkFin, hsp.2.1, hx]
        · rename_i s1 sc2 hp
          have e2 : (pickup s sc').2 = some sc2 := by rw [hp]
          obtain ⟨_, _, _, _, hwk, _⟩ := pickup_some' e2
          split at h
          · simp only [Except.ok.injEq] at h; subst h
            simp [PC.wakeL, hwk, hsp.2.1, hx]
          · exact ih _ t r sc2 s' h x (by rw [hwk, hsp.2.1]; exact hx)

theorem afterPickup_wake {s : State} {sc0 : Scan} {t : Tid} {r : Ret} {s' : State}
    (h : afterPickup (pickup s sc0) t r sc0 = .ok s') : ∀ x, x ∈ sc0.wake → x ∈ (s'.pc t).wakeL := by
  intro x hx
  unfold afterPickup at h
  split at h
  · simp only [Except.ok.injEq] at h; subst h
    simp [toFin, PC.wakeL, mkFin, hx]
  · rename_i s1 sc2 hp
    have e2 : (pickup s sc0).2 = some sc2 := by rw [hp]
    obtain ⟨_, _, _, _, hwk, _⟩ := pickup_some' e2
    split at h
    · simp only [Except.ok.injEq] at h; subst h
      simp [PC.wakeL, hwk, hx]
    · exact scanRun_wake _ _ t r sc2 s' h x (by rw [hwk]; exact hx)

theorem afterEval_wake {s : State} {sc : Scan} {t : Tid} {r : Ret} {res : Bool} {s' : State}
    (h : afterEval s t r sc res = .ok s') : ∀ x, x ∈ sc.wake → x ∈ (s'.pc t).wakeL := by
  intro x hx
  unfold afterEval at h
  split at h
  · cases h
  · rename_i k rest hk
    split at h
    · exact scanRun_wake 3 s t r _ s' h x hx
    · by_cases hw : sc.wt = none ∨ (s.wr k).lType = .R
      · simp only [wakeOrPass, hw, if_true, Except.ok.injEq] at h
        subst h; simp [PC.wakeL, hx]
      · simp only [wakeOrPass, hw, if_false] at h
        exact scanRun_wake 3 s t r _ s' h x hx

/-- For a step of the unlocker `t` that permutes its lists and only extends its wake list: what is
    queued afterwards was queued before. -/
theorem queued_of_scan {s s' : State} {t : Tid} (h' : Inv4 s')
    (hpc : ∀ u, u ≠ t → s'.pc u = s.pc u)
    (hperm : (allOf s' t).Perm (allOf s t))
    (hoth : ∀ u, u ≠ t → (s.pc u).unl = false)
    (hwake : ∀ x, x ∈ (s.pc t).wakeL → x ∈ (s'.pc t).wakeL) {x : Wid} (hx : Queued s' x) : Queued s x := by
  have hin : x ∈ s'.queue ++ (s'.pc t).priv := by
    rcases hx with hx | ⟨u, sc, h1, h2⟩
    · simp [hx]
    · by_cases hu : u = t
      · subst hu; exact List.mem_append_right _ (mem_priv_iff.2 ⟨sc, h1, h2⟩)
      · have h3 := mem_priv_iff.2 ⟨sc, h1, h2⟩
        rw [hpc u hu, priv_nil_of_not_unl (hoth u hu)] at h3; cases h3
  have hnd := h'.nd t
  simp only [allOf] at hnd
  have hnw : x ∉ (s'.pc t).wakeL := fun e => (List.nodup_append.mp hnd).2.2 x hin x e rfl
  have hall : x ∈ allOf s t := hperm.mem_iff.1 (by simp only [allOf]; exact List.mem_append_left _ hin)
  simp only [allOf, List.mem_append] at hall
  rcases hall with (e | e) | e
  · exact Or.inl e
  · obtain ⟨sc, h1, h2⟩ := mem_priv_iff.1 e
    exact Or.inr ⟨t, sc, h1, h2⟩
  · exact absurd (hwake x e) hnw

end NsyncVerif.MuC
