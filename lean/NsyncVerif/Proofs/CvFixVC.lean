/-
  Layer `CvFix` × vector clocks (property C03, cv-signal edge): definitions.

  The events of the CvFix acceptor (`Model/CvFix.lean`: the current /repo/internal/cv.c, statement
  by statement) carry SITES, not memory orders.  `siteOrd` gives the order each site DECLARES in the
  source (the suffix of its ATM_* macro; the table is exported as `siteOrdTable` so that it can be
  tied to the regenerated site table).  `toVC` projects an event to an operation of the generic
  vector-clock machine (`NsyncVerif.VC`): a load with the order of its site; a failed CAS is a
  relaxed load; a successful CAS is a read-modify-write with the order of its site; a store is a
  plain store with the order of its site.  Locations: the cv word, the mutex word cv.c itself
  looks at (one location: the model has no mutex identity), and the two atomic fields of every
  record.

  FOREIGN accesses (`fLd`/`fSt`/`fCas`: mu.c, mu_wait.c, wait.c, … working on a record that is idle
  or transferred) carry no site.  Their order is taken from an ORACLE `fo : Nat → VC.Ord` indexed by
  the position of the event in the list; every theorem is for ALL oracles, i.e. for every
  assignment of orders to the foreign accesses.

  Not events (and therefore not operations of the machine): the initialising
  `NSYNC_ATOMIC_UINT32_STORE_ (&w->nw.waiting, 0)` of a freshly malloc'ed waiter (common.c:202: not
  an ATM_* site, private memory), and every plain access.

  Nothing else contributes an edge: not the semaphores, not the mutex marks (`relMark`,
  `lockMark`, `relockSlow`: the mutex' own atomics are not in this layer's events), not the
  interleaving.

  `PState` = acceptor state × clock state × ghosts:
    `cc u`   clock of thread `u` at its latest `call nsync_cv_signal|broadcast`;
    `wk r`   the latest wake-up of record `r` by wake_waiters (`ATM_STORE_REL (&p_nw->waiting, 0)`,
             cv.c/5): who, the waker's clock just before the store, its clock at its call;
    `xw t`   what the pooled record of `t`'s cv wait said when `t` left its wait loop
             (`some w` iff the record was in status `woken`, i.e. woken by a waker of this cv);
    `xf r`   the latest TRANSFER of record `r` to the mutex queue by wake_waiters (cv.c:67-114):
             who, the waker's clock just before its `ATM_CAS_ACQ (&pmu->word, …)` [cv.c/1], its
             clock at its call;
    `xt t`   `some` transfer iff `t`'s record was in status `xfer` when `t` left its wait loop;
    `lastRel` clock of the latest releaser of the cv spinlock just before its release store.
-/
import NsyncVerif.Proofs.CvFixInvFAll
import NsyncVerif.Proofs.VC

namespace NsyncVerif.CvFix
open NsyncVerif

/-! ### the declared order of every site -/

/-- The ATM_* call sites the model's events stand for: `<file><k>` = ordinal `k` of the ATM_* macro
    in that file, in source order (the `<file>/<k>/<function>` of the event log). -/
inductive Site where
  | common0 | common1 | common2 | common5 | wait0
  | cv0 | cv1 | cv2 | cv3 | cv4 | cv5 | cv6 | cv7 | cv8 | cv9
  | cv10 | cv11 | cv12 | cv13 | cv14 | cv15 | cv16 | cv17 | cv18 | cv19
  | cv20 | cv21 | cv22 | cv23 | cv24 | cv25 | cv26 | cv27 | cv28 | cv29
  | cv30 | cv31 | cv32 | cv33 | cv34 | cv35
  /-- debug.c: emit_waiters (0, 1) and emit_cv_state (6, 7) -/
  | debug0 | debug1 | debug6 | debug7
  deriving DecidableEq, Repr

def Site.all : List Site :=
  [.common0, .common1, .common2, .common5, .wait0,
   .cv0, .cv1, .cv2, .cv3, .cv4, .cv5, .cv6, .cv7, .cv8, .cv9,
   .cv10, .cv11, .cv12, .cv13, .cv14, .cv15, .cv16, .cv17, .cv18, .cv19,
   .cv20, .cv21, .cv22, .cv23, .cv24, .cv25, .cv26, .cv27, .cv28, .cv29,
   .cv30, .cv31, .cv32, .cv33, .cv34, .cv35, .debug0, .debug1, .debug6, .debug7]

theorem Site.mem_all (s : Site) : s ∈ Site.all := by cases s <;> simp [Site.all]

/-- `<file>/<k>/<function>` as in the event log. -/
def Site.name : Site → String
  | .common0 => "common.c/0/nsync_spin_test_and_set_"
  | .common1 => "common.c/1/nsync_spin_test_and_set_"
  | .common2 => "common.c/2/nsync_spin_test_and_set_"
  | .common5 => "common.c/5/nsync_waiter_new_"
  | .wait0 => "wait.c/0/nsync_wait_n"
  | .cv0 => "cv.c/0/wake_waiters"
  | .cv1 => "cv.c/1/wake_waiters"
  | .cv2 => "cv.c/2/wake_waiters"
  | .cv3 => "cv.c/3/wake_waiters"
  | .cv4 => "cv.c/4/wake_waiters"
  | .cv5 => "cv.c/5/wake_waiters"
  | .cv6 => "cv.c/6/nsync_cv_wait_with_deadline_generic"
  | .cv7 => "cv.c/7/nsync_cv_wait_with_deadline_generic"
  | .cv8 => "cv.c/8/nsync_cv_wait_with_deadline_generic"
  | .cv9 => "cv.c/9/nsync_cv_wait_with_deadline_generic"
  | .cv10 => "cv.c/10/nsync_cv_wait_with_deadline_generic"
  | .cv11 => "cv.c/11/nsync_cv_wait_with_deadline_generic"
  | .cv12 => "cv.c/12/nsync_cv_wait_with_deadline_generic"
  | .cv13 => "cv.c/13/nsync_cv_wait_with_deadline_generic"
  | .cv14 => "cv.c/14/nsync_cv_wait_with_deadline_generic"
  | .cv15 => "cv.c/15/nsync_cv_wait_with_deadline_generic"
  | .cv16 => "cv.c/16/nsync_cv_wait_with_deadline_generic"
  | .cv17 => "cv.c/17/nsync_cv_wait_with_deadline_generic"
  | .cv18 => "cv.c/18/nsync_cv_wait_with_deadline_generic"
  | .cv19 => "cv.c/19/nsync_cv_signal"
  | .cv20 => "cv.c/20/nsync_cv_signal"
  | .cv21 => "cv.c/21/nsync_cv_signal"
  | .cv22 => "cv.c/22/nsync_cv_signal"
  | .cv23 => "cv.c/23/nsync_cv_signal"
  | .cv24 => "cv.c/24/nsync_cv_signal"
  | .cv25 => "cv.c/25/nsync_cv_broadcast"
  | .cv26 => "cv.c/26/nsync_cv_broadcast"
  | .cv27 => "cv.c/27/nsync_cv_broadcast"
  | .cv28 => "cv.c/28/nsync_cv_broadcast"
  | .cv29 => "cv.c/29/cv_ready_time"
  | .cv30 => "cv.c/30/cv_enqueue"
  | .cv31 => "cv.c/31/cv_enqueue"
  | .cv32 => "cv.c/32/cv_dequeue"
  | .cv33 => "cv.c/33/cv_dequeue"
  | .cv34 => "cv.c/34/cv_dequeue"
  | .cv35 => "cv.c/35/cv_dequeue"
  | .debug0 => "debug.c/0/emit_waiters"
  | .debug1 => "debug.c/1/emit_waiters"
  | .debug6 => "debug.c/6/emit_cv_state"
  | .debug7 => "debug.c/7/emit_cv_state"

/-- The order each site declares (for a CAS: the order on success; on failure all three atomic.h
    flavours request relaxed).  Source lines are those of the current /repo/internal files. -/
def siteOrd : Site → VC.Ord
  | .common0 => .rlx   -- common.c:105  old = ATM_LOAD (w)
  | .common1 => .acq   -- common.c:106  ATM_CAS_ACQ (w, old, (old | set) & ~clear)
  | .common2 => .rlx   -- common.c:108  old = ATM_LOAD (w)
  | .common5 => .rlx   -- common.c:204  ATM_STORE (&w->remove_count, 0)
  | .wait0 => .rlx     -- wait.c:54     ATM_STORE (&nw[i].waiting, 0)
  | .cv0 => .rlx       -- cv.c:61   ATM_LOAD (&pmu->word)
  | .cv1 => .acq       -- cv.c:67   ATM_CAS_ACQ (&pmu->word, …)
  | .cv2 => .rlx       -- cv.c:130  ATM_LOAD (&pmu->word)
  | .cv3 => .rel       -- cv.c:131  ATM_CAS_REL (&pmu->word, …)
  | .cv4 => .rlx       -- cv.c:133  ATM_LOAD (&pmu->word)
  | .cv5 => .rel       -- cv.c:149  ATM_STORE_REL (&p_nw->waiting, 0)          <- the waker's store
  | .cv6 => .rlx       -- cv.c:201  ATM_STORE (&w->nw.waiting, 1)
  | .cv7 => .rlx       -- cv.c:215  ATM_LOAD (&cv_mu->word)
  | .cv8 => .rlx       -- cv.c:235  ATM_LOAD (&w->remove_count)
  | .cv9 => .rel       -- cv.c:237  ATM_STORE_REL (&pcv->word, old_word|CV_NON_EMPTY)
  | .cv10 => .acq      -- cv.c:249  while (ATM_LOAD_ACQ (&w->nw.waiting) != 0)  <- the waiter's load
  | .cv11 => .rlx      -- cv.c:254  ATM_LOAD (&w->nw.waiting)
  | .cv12 => .rlx      -- cv.c:264  ATM_LOAD (&w->nw.waiting)
  | .cv13 => .rlx      -- cv.c:265  ATM_LOAD (&w->remove_count)
  | .cv14 => .rlx      -- cv.c:275  ATM_LOAD (&w->remove_count)
  | .cv15 => .rlx      -- cv.c:276  ATM_CAS (&w->remove_count, old_value, old_value+1)
  | .cv16 => .rel      -- cv.c:280  ATM_STORE_REL (&w->nw.waiting, 0)
  | .cv17 => .rel      -- cv.c:284  ATM_STORE_REL (&pcv->word, old_word)
  | .cv18 => .rlx      -- cv.c:287  ATM_LOAD (&w->nw.waiting)
  | .cv19 => .acq      -- cv.c:321  ATM_LOAD_ACQ (&pcv->word)
  | .cv20 => .rlx      -- cv.c:338  ATM_LOAD (&DLL_WAITER (first)->remove_count)
  | .cv21 => .rlx      -- cv.c:339  ATM_CAS (&DLL_WAITER (first)->remove_count, …)
  | .cv22 => .rlx      -- cv.c:379  ATM_LOAD (&DLL_WAITER (p)->remove_count)
  | .cv23 => .rlx      -- cv.c:381  ATM_CAS (&DLL_WAITER (p)->remove_count, …)
  | .cv24 => .rel      -- cv.c:394  ATM_STORE_REL (&pcv->word, old_word)
  | .cv25 => .acq      -- cv.c:405  ATM_LOAD_ACQ (&pcv->word)
  | .cv26 => .rlx      -- cv.c:425  ATM_LOAD (&DLL_WAITER (p)->remove_count)
  | .cv27 => .rlx      -- cv.c:426  ATM_CAS (&DLL_WAITER (p)->remove_count, …)
  | .cv28 => .rel      -- cv.c:432  ATM_STORE_REL (&pcv->word, 0)
  | .cv29 => .acq      -- cv.c:461  ATM_LOAD_ACQ (&nw->waiting)   (cv_ready_time)
  | .cv30 => .rlx      -- cv.c:470  ATM_STORE (&nw->waiting, 1)
  | .cv31 => .rel      -- cv.c:472  ATM_STORE_REL (&pcv->word, old_word | CV_NON_EMPTY)
  | .cv32 => .acq      -- cv.c:482  ATM_LOAD_ACQ (&nw->waiting)   (cv_dequeue)  <- wait_n's load
  | .cv33 => .rlx      -- cv.c:496  ATM_STORE (&nw->waiting, 0)
  | .cv34 => .rel      -- cv.c:508  ATM_STORE_REL (&pcv->word, old_word)
  | .cv35 => .acq      -- cv.c:514  while (ATM_LOAD_ACQ (&nw->waiting) != 0)    <- wait_n's loop (F3 repair)
  | .debug0 => .rlx    -- debug.c:165  ATM_LOAD (&nw->waiting)        (emit_waiters)
  | .debug1 => .rlx    -- debug.c:172  ATM_LOAD (&w->remove_count)    (emit_waiters)
  | .debug6 => .rlx    -- debug.c:245  word = ATM_LOAD (&cv->word)
  | .debug7 => .rel    -- debug.c:258  ATM_STORE_REL (&cv->word, word)   <- the observer's release store

def ordStr : VC.Ord → String
  | .rlx => "rlx" | .acq => "acq" | .rel => "rel" | .ar => "ar"

/-- The table `siteOrd` as data: (site name as in the event log, declared order). -/
def siteOrdTable : List (String × String) := Site.all.map (fun s => (s.name, ordStr (siteOrd s)))

/-- The same information in structured form, for the tie with the regenerated site table
    (`NsyncVerif.Gen.sites`: (file, function, macro, location) in source order). -/
def Site.file : Site → String
  | .common0 | .common1 | .common2 | .common5 => "common.c"
  | .wait0 => "wait.c"
  | .debug0 | .debug1 | .debug6 | .debug7 => "debug.c"
  | _ => "cv.c"

/-- ordinal of the ATM_* macro in its file -/
def Site.k : Site → Nat
  | .common0 => 0 | .common1 => 1 | .common2 => 2 | .common5 => 5 | .wait0 => 0
  | .cv0 => 0 | .cv1 => 1 | .cv2 => 2 | .cv3 => 3 | .cv4 => 4 | .cv5 => 5 | .cv6 => 6 | .cv7 => 7
  | .cv8 => 8 | .cv9 => 9 | .cv10 => 10 | .cv11 => 11 | .cv12 => 12 | .cv13 => 13 | .cv14 => 14
  | .cv15 => 15 | .cv16 => 16 | .cv17 => 17 | .cv18 => 18 | .cv19 => 19 | .cv20 => 20 | .cv21 => 21
  | .cv22 => 22 | .cv23 => 23 | .cv24 => 24 | .cv25 => 25 | .cv26 => 26 | .cv27 => 27 | .cv28 => 28
  | .cv29 => 29 | .cv30 => 30 | .cv31 => 31 | .cv32 => 32 | .cv33 => 33 | .cv34 => 34 | .cv35 => 35
  | .debug0 => 0 | .debug1 => 1 | .debug6 => 6 | .debug7 => 7

def Site.fn : Site → String
  | .common0 | .common1 | .common2 => "nsync_spin_test_and_set_"
  | .common5 => "nsync_waiter_new_"
  | .wait0 => "nsync_wait_n"
  | .cv0 | .cv1 | .cv2 | .cv3 | .cv4 | .cv5 => "wake_waiters"
  | .cv6 | .cv7 | .cv8 | .cv9 | .cv10 | .cv11 | .cv12 | .cv13 | .cv14 | .cv15 | .cv16 | .cv17
  | .cv18 => "nsync_cv_wait_with_deadline_generic"
  | .cv19 | .cv20 | .cv21 | .cv22 | .cv23 | .cv24 => "nsync_cv_signal"
  | .cv25 | .cv26 | .cv27 | .cv28 => "nsync_cv_broadcast"
  | .cv29 => "cv_ready_time"
  | .cv30 | .cv31 => "cv_enqueue"
  | .cv32 | .cv33 | .cv34 | .cv35 => "cv_dequeue"
  | .debug0 | .debug1 => "emit_waiters"
  | .debug6 | .debug7 => "emit_cv_state"

/-- kind of operation: `ld`, `st`, `cas` -/
def Site.op : Site → String
  | .common1 | .cv1 | .cv3 | .cv15 | .cv21 | .cv23 | .cv27 => "cas"
  | .common5 | .wait0 | .cv5 | .cv6 | .cv9 | .cv16 | .cv17 | .cv24 | .cv28 | .cv30 | .cv31 | .cv33
  | .cv34 | .debug7 => "st"
  | _ => "ld"

/-- The ATM_* macro that requests order `o` for an operation of kind `op`. -/
def macroOf (op : String) (o : VC.Ord) : String :=
  if op == "ld" then (match o with | .rlx => "ATM_LOAD" | .acq => "ATM_LOAD_ACQ" | _ => "?")
  else if op == "st" then (match o with | .rlx => "ATM_STORE" | .rel => "ATM_STORE_REL" | _ => "?")
  else (match o with | .rlx => "ATM_CAS" | .acq => "ATM_CAS_ACQ" | .rel => "ATM_CAS_REL" | .ar => "ATM_CAS_RELACQ")

/-- (file, ordinal, function, macro the model assumes at that site) -/
def siteOrdRows : List (String × Nat × String × String) :=
  Site.all.map (fun s => (s.file, s.k, s.fn, macroOf s.op (siteOrd s)))

/-- Does a site table `gen` ((file, function, macro, location) in source order, as regenerated in
    `NsyncVerif.Gen.sites`) have, at every site the model uses, the function and the macro (hence
    the memory order) that `siteOrd` assumes?  Intended use:
    `theorem signal_sites_tie : sitesAgree Gen.sites = true := by decide`. -/
def sitesAgree (gen : List (String × String × String × String)) : Bool :=
  siteOrdRows.all (fun row =>
    match (gen.filter (fun g => g.1 == row.1))[row.2.1]? with
    | some g => g.2.1 == row.2.2.1 && g.2.2.1 == row.2.2.2
    | none => false)

/-! ### model sites ↦ code sites (the table of `Model/CvFixDriver.lean`: `wordSite`, `recSite`, `muSite`) -/

def wSite : WSite → Site
  | .spin0 => .common0 | .spin2 => .common2 | .waitRel => .cv9 | .waitRel2 => .cv17
  | .sigLd => .cv19 | .sigRel => .cv24 | .bcLd => .cv25 | .bcRel => .cv28
  | .enqRel => .cv31 | .deqRel => .cv34 | .dbgLd => .debug6 | .dbgRel => .debug7

def rSite : RSite → Site
  | .wSt1 => .cv6 | .wRc => .cv8 | .wHead => .cv10 | .wChk => .cv11 | .wChk2 => .cv12
  | .wCmp => .cv13 | .wRmLd => .cv14 | .wRmCas => .cv15 | .wClr => .cv16 | .wTail => .cv18
  | .sRcLd true => .cv20 | .sRcCas true => .cv21 | .sRcLd false => .cv22 | .sRcCas false => .cv23
  | .bRcLd => .cv26 | .bRcCas => .cv27
  | .wake => .cv5 | .ready => .cv29 | .enqSt => .cv30 | .deqLd => .cv32 | .deqSt => .cv33
  | .deqSpin => .cv35 | .dbgW => .debug0 | .dbgRc => .debug1

def mSite : MSite → Site
  | .wMode => .cv7 | .wwLd => .cv0 | .wwCas => .cv1 | .wwRelLd => .cv2 | .wwRelCas => .cv3
  | .wwRelLd2 => .cv4

/-- The field of the record a record site works on. -/
def rFld : RSite → Fld
  | .wRc | .wCmp | .wRmLd | .wRmCas | .sRcLd _ | .sRcCas _ | .bRcLd | .bRcCas | .dbgRc => .rc
  | _ => .waiting

/-! ### projection to the clock machine -/

/-- Atomic locations. -/
inductive VLoc where
  /-- the cv word -/
  | word
  /-- the mutex word read and written by wake_waiters / the wait (cv.c/0..4, cv.c/7) -/
  | mu
  /-- `nw.waiting` / `remove_count` of a record -/
  | fld (r : Rid) (f : Fld)
  deriving DecidableEq, Repr

/-- The clock-machine operation of an event; `so` = order table, `o` = order of a foreign access. -/
def toVCx (so : Site → VC.Ord) (o : VC.Ord) : Event → Option (VC.AEv VLoc)
  | .wordLd t site _ => some ⟨t, .ld, so (wSite site), .word⟩
  | .wordCas t _ _ _ ok => some (if ok then ⟨t, .rmw, so .common1, .word⟩ else ⟨t, .ld, .rlx, .word⟩)
  | .wordSt t site _ _ => some ⟨t, .st, so (wSite site), .word⟩
  | .recLd t site r _ => some ⟨t, .ld, so (rSite site), .fld r (rFld site)⟩
  | .recSt t site r _ _ => some ⟨t, .st, so (rSite site), .fld r (rFld site)⟩
  | .recCas t site r _ _ _ ok =>
    some (if ok then ⟨t, .rmw, so (rSite site), .fld r (rFld site)⟩ else ⟨t, .ld, .rlx, .fld r (rFld site)⟩)
  | .muLd t site _ => some ⟨t, .ld, so (mSite site), .mu⟩
  | .muCas t site _ _ _ ok => some (if ok then ⟨t, .rmw, so (mSite site), .mu⟩ else ⟨t, .ld, .rlx, .mu⟩)
  | .wInit t r => some ⟨t, .st, so .common5, .fld r .rc⟩
  | .nwInit t r => some ⟨t, .st, so .wait0, .fld r .waiting⟩
  | .fLd t r f _ => some ⟨t, .ld, o, .fld r f⟩
  | .fSt t r f _ => some ⟨t, .st, o, .fld r f⟩
  | .fCas t r f _ _ _ ok => some (if ok then ⟨t, .rmw, o, .fld r f⟩ else ⟨t, .ld, .rlx, .fld r f⟩)
  | _ => none

/-- With the declared orders. -/
def toVC (o : VC.Ord) (e : Event) : Option (VC.AEv VLoc) := toVCx siteOrd o e

/-- One event on the clock state. -/
def cstepx (so : Site → VC.Ord) (o : VC.Ord) (c : VC.St VLoc) (e : Event) : VC.St VLoc :=
  match toVCx so o e with
  | some a => VC.step c a
  | none => c

def cstep (o : VC.Ord) (c : VC.St VLoc) (e : Event) : VC.St VLoc := cstepx siteOrd o c e

/-- The clock state after an event list; the `n`-th event (from `n0`) takes its foreign order from
    `fo n`. -/
def crunx (so : Site → VC.Ord) (fo : Nat → VC.Ord) : Nat → VC.St VLoc → List Event → VC.St VLoc
  | _, c, [] => c
  | n, c, e :: es => crunx so fo (n + 1) (cstepx so (fo n) c e) es

/-- The clocks of an event list under the declared orders: only program order and the declared
    orders count. -/
def clocks (fo : Nat → VC.Ord) (evs : List Event) : VC.St VLoc := crunx siteOrd fo 0 VC.St.init evs

/-- The location a plain store of the event writes. -/
def stOn : Event → Option VLoc
  | .wordSt .. => some .word
  | .recSt _ site r _ _ => some (.fld r (rFld site))
  | .wInit _ r => some (.fld r .rc)
  | .nwInit _ r => some (.fld r .waiting)
  | .fSt _ r f _ => some (.fld r f)
  | _ => none

theorem toVCx_st {so : Site → VC.Ord} {o : VC.Ord} {e : Event} {a : VC.AEv VLoc}
    (h : toVCx so o e = some a) (hop : a.op = .st) : stOn e = some a.loc := by
  cases e <;> simp only [toVCx, stOn, Option.some.injEq, reduceCtorEq] at h ⊢
  all_goals first
    | (subst h; first | rfl | cases hop)
    | (split at h <;> subst h <;> cases hop)

theorem crunx_append (so : Site → VC.Ord) (fo : Nat → VC.Ord) (n : Nat) (c : VC.St VLoc)
    (a b : List Event) :
    crunx so fo n c (a ++ b) = crunx so fo (n + a.length) (crunx so fo n c a) b := by
  induction a generalizing n c with
  | nil => rfl
  | cons e es ih =>
    simp only [List.cons_append, crunx, List.length_cons]
    rw [ih]; congr 1; omega

theorem clocks_snoc (fo : Nat → VC.Ord) (evs : List Event) (e : Event) :
    clocks fo (evs ++ [e]) = cstep (fo evs.length) (clocks fo evs) e := by
  unfold clocks
  rw [crunx_append]
  simp [crunx, cstep]

/-! ### generic facts about one clock step -/

theorem cstep_mono (o : VC.Ord) (c : VC.St VLoc) (e : Event) (u : Tid) :
    VC.Clock.le (c.vc u) ((cstep o c e).vc u) := by
  unfold cstep cstepx
  split
  · exact VC.vc_mono c _ u
  · exact VC.Clock.le_refl _

/-- A clock carried by the release clock of `x` stays carried by every event that is not a plain
    store to `x`. -/
theorem cstep_keep (o : VC.Ord) (c : VC.St VLoc) (e : Event) (x : VLoc) (k : VC.Clock)
    (hs : stOn e ≠ some x) (hk : VC.Clock.le k (c.relc x)) :
    VC.Clock.le k ((cstep o c e).relc x) := by
  unfold cstep cstepx
  split
  · rename_i a ha
    refine VC.release_chain_step x k c a hk ?_
    intro hl hop
    exact absurd (by rw [← hl]; exact toVCx_st ha hop) hs
  · exact hk

/-- An acquire load imports the release clock of its location. -/
theorem cstep_acq_ld (o : VC.Ord) (c : VC.St VLoc) (t : Tid) (site : RSite) (r : Rid) (obs : Nat)
    (ha : (siteOrd (rSite site)).isAcq = true) :
    VC.Clock.le (c.relc (.fld r (rFld site))) ((cstep o c (.recLd t site r obs)).vc t) :=
  VC.acq_sees_relc c ⟨t, .ld, siteOrd (rSite site), .fld r (rFld site)⟩ ha (.inl rfl)

/-- A release store exports the writer's clock. -/
theorem cstep_rel_st (o : VC.Ord) (c : VC.St VLoc) (t : Tid) (site : RSite) (r : Rid) (new obs : Nat)
    (hr : (siteOrd (rSite site)).isRel = true) :
    VC.Clock.le (c.vc t) ((cstep o c (.recSt t site r new obs)).relc (.fld r (rFld site))) :=
  VC.rel_records c ⟨t, .st, siteOrd (rSite site), .fld r (rFld site)⟩ hr (.inl rfl)

theorem cstep_word_st (o : VC.Ord) (c : VC.St VLoc) (t : Tid) (site : WSite) (new obs : Nat)
    (hr : (siteOrd (wSite site)).isRel = true) :
    VC.Clock.le (c.vc t) ((cstep o c (.wordSt t site new obs)).relc .word) :=
  VC.rel_records c ⟨t, .st, siteOrd (wSite site), .word⟩ hr (.inl rfl)

theorem cstep_word_cas (o : VC.Ord) (c : VC.St VLoc) (t : Tid) (exp new obs : Nat) :
    VC.Clock.le (c.relc .word) ((cstep o c (.wordCas t exp new obs true)).vc t) :=
  VC.acq_sees_relc c ⟨t, .rmw, siteOrd .common1, .word⟩ rfl (.inr rfl)

theorem cstep_mu_cas_rel (o : VC.Ord) (c : VC.St VLoc) (t : Tid) (exp new obs : Nat) :
    VC.Clock.le (c.vc t) ((cstep o c (.muCas t .wwRelCas exp new obs true)).relc .mu) :=
  VC.rel_records c ⟨t, .rmw, siteOrd .cv3, .mu⟩ rfl (.inr rfl)

/-! ### product state -/

/-- A wake-up of a record by wake_waiters. -/
structure Wake where
  /-- the waker -/
  by_ : Tid
  /-- the waker's clock just before its `ATM_STORE_REL (&p_nw->waiting, 0)` -/
  clk : VC.Clock
  /-- the waker's clock at its `call nsync_cv_signal|broadcast` -/
  call : VC.Clock

structure PState where
  s : State
  c : VC.St VLoc
  /-- number of events so far (index into the oracle) -/
  n : Nat
  cc : Tid → VC.Clock
  wk : Rid → Option Wake
  xw : Tid → Option Wake
  xf : Rid → Option Wake
  xt : Tid → Option Wake
  lastRel : VC.Clock

def pinit : PState :=
  ⟨init, VC.St.init, 0, fun _ => VC.Clock.bot, fun _ => none, fun _ => none, fun _ => none,
    fun _ => none, VC.Clock.bot⟩

def ccUpd (p : PState) : Event → Tid → VC.Clock
  | .callSignal t | .callBroadcast t => VC.upd p.cc t (p.c.vc t)
  | _ => p.cc

def wkUpd (p : PState) : Event → Rid → Option Wake
  | .recSt t .wake r _ _ => VC.upd p.wk r (some ⟨t, p.c.vc t, p.cc t⟩)
  | _ => p.wk

def xwUpd (p : PState) : Event → Tid → Option Wake
  | .recLd t .wHead r 0 => VC.upd p.xw t (if (p.s.recs r).stat = .woken then p.wk r else none)
  | .callWait t .. => VC.upd p.xw t none
  | _ => p.xw

/-- The records that enter status `xfer` in this step (`s'` = the acceptor's successor state). -/
def xfUpd (p : PState) (s' : State) : Event → Rid → Option Wake
  | .muCas u .wwCas _ _ _ true => fun r =>
    if (s'.recs r).stat = .xfer ∧ (p.s.recs r).stat ≠ .xfer then some ⟨u, p.c.vc u, p.cc u⟩ else p.xf r
  | _ => p.xf

def xtUpd (p : PState) : Event → Tid → Option Wake
  | .recLd t .wHead r 0 => VC.upd p.xt t (if (p.s.recs r).stat = .xfer then p.xf r else none)
  | .callWait t .. => VC.upd p.xt t none
  | _ => p.xt

def lrUpd (p : PState) : Event → VC.Clock
  | .wordSt t .. => p.c.vc t
  | _ => p.lastRel

/-- The successor product state, given the acceptor's successor. -/
def pnext (fo : Nat → VC.Ord) (p : PState) (e : Event) (s' : State) : PState :=
  { s := s', c := cstep (fo p.n) p.c e, n := p.n + 1,
    cc := ccUpd p e, wk := wkUpd p e, xw := xwUpd p e, xf := xfUpd p s' e, xt := xtUpd p e,
    lastRel := lrUpd p e }

def pstep (cfg : Config) (fo : Nat → VC.Ord) (p : PState) (e : Event) : Except String PState :=
  match step cfg p.s e with
  | .ok s' => .ok (pnext fo p e s')
  | .error m => .error m

def prun (cfg : Config) (fo : Nat → VC.Ord) (p : PState) : List Event → Except String PState
  | [] => .ok p
  | e :: es =>
    match pstep cfg fo p e with
    | .ok p' => prun cfg fo p' es
    | .error m => .error m

/-- Reachable product states. -/
def PReachable (cfg : Config) (fo : Nat → VC.Ord) (p : PState) : Prop :=
  ∃ evs, prun cfg fo pinit evs = .ok p

theorem pstep_ok {cfg : Config} {fo : Nat → VC.Ord} {p p' : PState} {e : Event}
    (h : pstep cfg fo p e = .ok p') : ∃ s', step cfg p.s e = .ok s' ∧ p' = pnext fo p e s' := by
  unfold pstep at h
  split at h
  · rename_i s' hs; cases h; exact ⟨s', hs, rfl⟩
  · cases h

/-- The product run is the acceptor's run decorated with clocks and ghosts: it accepts exactly the
    same event lists … -/
theorem prun_of_run {cfg : Config} {fo : Nat → VC.Ord} {evs : List Event} {p : PState} {s' : State}
    (h : run cfg p.s evs = .ok s') : ∃ p', prun cfg fo p evs = .ok p' ∧ p'.s = s' := by
  induction evs generalizing p with
  | nil => simp only [run, Except.ok.injEq] at h; exact ⟨p, rfl, h⟩
  | cons e es ih =>
    simp only [run] at h
    split at h
    · rename_i s1 hs
      obtain ⟨p', h1, h2⟩ := ih (p := pnext fo p e s1) h
      exact ⟨p', by simp [prun, pstep, hs, h1], h2⟩
    · cases h

/-- … its acceptor component is the acceptor's state, its clock component is the clock machine run
    over the projected events, and `n` counts the events. -/
theorem run_of_prun {cfg : Config} {fo : Nat → VC.Ord} {evs : List Event} {p p' : PState}
    (h : prun cfg fo p evs = .ok p') :
    run cfg p.s evs = .ok p'.s ∧ p'.c = crunx siteOrd fo p.n p.c evs ∧ p'.n = p.n + evs.length := by
  induction evs generalizing p with
  | nil => simp only [prun, Except.ok.injEq] at h; subst h; exact ⟨rfl, rfl, rfl⟩
  | cons e es ih =>
    simp only [prun] at h
    split at h
    · rename_i p1 hp
      obtain ⟨s1, hs, rfl⟩ := pstep_ok hp
      obtain ⟨h1, h2, h3⟩ := ih h
      refine ⟨by simp only [run, hs]; exact h1, ?_, ?_⟩
      · rw [h2]; rfl
      · rw [h3]; simp only [pnext, List.length_cons]; omega
    · cases h

theorem prun_append {cfg : Config} {fo : Nat → VC.Ord} {a b : List Event} {p p' : PState} :
    prun cfg fo p (a ++ b) = .ok p' ↔ ∃ p1, prun cfg fo p a = .ok p1 ∧ prun cfg fo p1 b = .ok p' := by
  induction a generalizing p with
  | nil => simp [prun]
  | cons e es ih =>
    simp only [List.cons_append, prun]
    cases pstep cfg fo p e with
    | ok p1 => exact ih
    | error m => simp

theorem preachable_step {cfg : Config} {fo : Nat → VC.Ord} {p p' : PState} {e : Event}
    (h : PReachable cfg fo p) (hs : pstep cfg fo p e = .ok p') : PReachable cfg fo p' := by
  obtain ⟨evs, he⟩ := h
  exact ⟨evs ++ [e], prun_append.mpr ⟨p, he, by simp [prun, hs]⟩⟩

theorem preachable_reachable {cfg : Config} {fo : Nat → VC.Ord} {p : PState}
    (h : PReachable cfg fo p) : Reachable cfg p.s := by
  obtain ⟨evs, h⟩ := h
  exact ⟨evs, (run_of_prun h).1⟩

theorem preachable_clocks {cfg : Config} {fo : Nat → VC.Ord} {p : PState} {evs : List Event}
    (h : prun cfg fo pinit evs = .ok p) : p.c = clocks fo evs ∧ p.n = evs.length := by
  obtain ⟨_, h2, h3⟩ := run_of_prun h
  exact ⟨h2, by simpa [pinit] using h3⟩

end NsyncVerif.CvFix
