import NsyncVerif.Proofs.MuCFairMain
import NsyncVerif.Proofs.MuCFairStraight
/-
  MuC, fair termination: an execution in which, from some time on, no thread takes a step of the library any more
  has settled (`SettledFrom`): what is missing for `C06_fair_quiescence_or_sleepers_full` is a pure termination
  statement — only finitely many library steps happen.
-/
namespace NsyncVerif.MuC

variable {cfg : Cfg} {s0 : State}

/-- From time `N` on no thread takes a step of the library. -/
def NoStepsFrom (x : Exec cfg s0) (N : Nat) : Prop := ∀ j, N ≤ j → ∀ t, ¬ RMoves x t j

/-- What is left open: only finitely many library steps happen.  NOT PROVED. -/
def C06_fair_finite_steps_full : Prop :=
  ∀ (cfg : Cfg) (s0 : State) (x : Exec cfg s0), FairHyps x → ∃ N, NoStepsFrom x N

/-- What a step that is neither a library step nor an environment post can change. -/
structure Quiet (s s' : State) : Prop where
  pc : s'.pc = s.pc
  held : s'.held = s.held
  now : s.now ≤ s'.now
  wr : ∀ k, (s.wr k).owner ≠ none → (s'.wr k).sem = (s.wr k).sem ∧ (s'.wr k).owner = (s.wr k).owner

theorem Quiet.refl (s : State) : Quiet s s := ⟨rfl, rfl, Int.le_refl _, fun _ _ => ⟨rfl, rfl⟩⟩

theorem Quiet.trans {a b c : State} (h1 : Quiet a b) (h2 : Quiet b c) : Quiet a c := by
  refine ⟨h2.pc.trans h1.pc, h2.held.trans h1.held, Int.le_trans h1.now h2.now, fun k hk => ?_⟩
  obtain ⟨a1, a2⟩ := h1.wr k hk
  obtain ⟨b1, b2⟩ := h2.wr k (by rw [a2]; exact hk)
  exact ⟨b1.trans a1, b2.trans a2⟩

theorem quiet_step {s s' : State} {e : Event} (h : step cfg s e = .ok s') (hd : ∀ t, e.tid = some t → e.isData = true)
    (hv : e.isEnvV = false) : Quiet s s' := by
  cases e
  case envV k => simp [Event.isEnvV] at hv
  case envSem k n =>
    simp only [step] at h
    split at h
    · rename_i ho
      cases h
      refine ⟨rfl, rfl, Int.le_refl _, fun k' hk' => ?_⟩
      have : k' ≠ k := fun e => hk' (e ▸ ho)
      simp [setFn, this]
    · cases h
  case tick n =>
    simp only [step] at h
    split at h
    · rename_i hle; cases h; exact ⟨rfl, rfl, hle, fun _ _ => ⟨rfl, rfl⟩⟩
    · cases h
  case dataW t x v =>
    simp only [step] at h
    split at h
    · cases h; exact ⟨rfl, rfl, Int.le_refl _, fun _ _ => ⟨rfl, rfl⟩⟩
    · cases h
  case dataR t x v =>
    simp only [step] at h
    split at h
    · cases h; exact Quiet.refl _
    · cases h
  all_goals (have := hd _ rfl; simp [Event.isData] at this)

/-- After the last library step and the last environment post the state is frozen. -/
theorem quiet_from (x : Exec cfg s0) {N : Nat} (hN : NoStepsFrom x N) (hv : ∀ j e, N ≤ j → x.σ j = some e → e.isEnvV = false) :
    ∀ d, Quiet (x.ρ N) (x.ρ (N + d)) := by
  intro d
  induction d with
  | zero => exact Quiet.refl _
  | succ d ih =>
    refine ih.trans ?_
    cases he : x.σ (N + d) with
    | none => rw [show N + (d + 1) = N + d + 1 by omega, x.next_none he]; exact Quiet.refl _
    | some e =>
      refine quiet_step (x.next_some he) (fun t ht => ?_) (hv _ e (by omega) he)
      cases hdt : e.isData with
      | true => rfl
      | false => exact absurd ⟨e, he, ht, hdt⟩ (hN (N + d) (by omega) t)

theorem quiet_between (x : Exec cfg s0) {N : Nat} (hN : NoStepsFrom x N)
    (hv : ∀ j e, N ≤ j → x.σ j = some e → e.isEnvV = false) {i j : Nat} (hi : N ≤ i) (hij : i ≤ j) :
    Quiet (x.ρ i) (x.ρ j) := by
  obtain ⟨d, rfl⟩ : ∃ d, j = i + d := ⟨j - i, by omega⟩
  exact quiet_from x (N := i) (fun j' h1 t => hN j' (by omega) t) (fun j' e h1 h2 => hv j' e (by omega) h2) d

/-- Being awake persists while nothing moves. -/
theorem awake_persists {s s' : State} {t : Tid} (h4 : Inv4 s) (hq : Quiet s s') (hna : ¬ AsleepOnSem s t) :
    ¬ AsleepOnSem s' t := by
  rintro (⟨c, k, a, b, d⟩ | ⟨c, k, dl, a, b, d, f⟩)
  · rw [hq.pc] at a
    have hown := h4.own t k (by rw [a]; simp [PC.ws, SL.ws, b])
    rw [(hq.wr k (by rw [hown]; simp)).1] at d
    exact hna (Or.inl ⟨c, k, a, b, d⟩)
  · rw [hq.pc] at a
    have hown := h4.own t k (by rw [a]; simp [PC.ws, b])
    rw [(hq.wr k (by rw [hown]; simp)).1] at d
    exact hna (Or.inr ⟨c, k, dl, a, b, d, fun d' hd' => Int.lt_of_le_of_lt hq.now (f d' hd')⟩)

/-- An execution in which nothing moves any more has settled. -/
theorem settled_of_no_steps (x : Exec cfg s0) (hy : FairHyps x) {N : Nat} (hN : NoStepsFrom x N) :
    ∃ n, SettledFrom x n := by
  obtain ⟨nv, hnv⟩ := hy.envPosts
  obtain ⟨na, hna⟩ := hy.arrivals
  let M := max N (max nv na)
  have hNM : NoStepsFrom x M := fun j hj t => hN j (by omega) t
  have hv : ∀ j e, M ≤ j → x.σ j = some e → e.isEnvV = false := fun j e hj he => hnv j e (by omega) he
  refine ⟨M, fun j hj t => ?_⟩
  have hpc : ∀ j', j ≤ j' → (x.ρ j').pc t = (x.ρ j).pc t := fun j' h => by rw [(quiet_between x hNM hv hj h).pc]
  have h4 : ∀ j', Inv4 (x.ρ j') := fun j' => reachable_inv4 (x.reach hy.reach j')
  -- the thread is never awake inside a call
  have hsleep : ∀ j', j ≤ j' → (x.ρ j').pc t ≠ .idle → AsleepOnSem (x.ρ j') t := by
    intro j' hj' hne
    apply Classical.byContradiction
    intro hna'
    obtain ⟨j2, e, h1, h2, h3, h5⟩ := hy.fair t j' (fun j2 hj2 =>
      ⟨by rw [hpc j2 (by omega), ← hpc j' hj']; exact hne,
       awake_persists (h4 j') (quiet_between x hNM hv (by omega) hj2) hna'⟩)
    exact hNM j2 (by omega) t ⟨e, h2, h3, h5⟩
  by_cases hidle : (x.ρ j).pc t = .idle
  · left
    refine ⟨hidle, ?_⟩
    -- an idle holder would have to call, and a call is a library step
    apply Classical.byContradiction
    intro hh
    obtain ⟨j2, a, h1, h2⟩ := hy.release t j hh
    exact hNM j2 (by omega) t ⟨_, h2, rfl, rfl⟩
  · right
    rcases hsleep j (Nat.le_refl _) hidle with ⟨c, k, a, b, d⟩ | ⟨c, k, dl, a, b, d, f⟩
    · exact Or.inl ⟨c, k, a, b, d⟩
    · cases dl with
      | none => exact Or.inr ⟨c, k, a, b, d⟩
      | some dd =>
        -- the clock passes the deadline; then the thread is awake
        exfalso
        obtain ⟨j2, h1, h2⟩ := hy.clock t j c dd a
        rcases h2 with h2 | h2
        · rcases hsleep j2 h1 (by rw [hpc j2 h1]; exact hidle) with ⟨c', k', a', _⟩ | ⟨c', k', dl', a', b', d', f'⟩
          · rw [hpc j2 h1, a] at a'; cases a'
          · rw [hpc j2 h1, a] at a'; cases a'
            have := f' dd rfl
            omega
        · exact h2 (by rw [hpc j2 h1]; exact a)

end NsyncVerif.MuC
