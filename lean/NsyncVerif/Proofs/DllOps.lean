/-
Layer `Dll` (C17): effect of `remove` and `spliceAfter` on rings.
-/
import NsyncVerif.Proofs.DllRing

namespace Dll

/-! ### Pointwise description of the heaps produced by the operations -/

theorem remove_next (H : Heap) (l e x : Addr) :
    (remove H l e).1.next x =
      if x = e then e else if x = H.prev e then H.next e else H.next x := by
  simp [remove, Heap.setNext, Heap.setPrev]

theorem remove_prev (H : Heap) (l e x : Addr) :
    (remove H l e).1.prev x =
      if x = e then e else if x = H.next e then H.prev e else H.prev x := by
  simp [remove, Heap.setNext, Heap.setPrev]

theorem remove_container (H : Heap) (l e : Addr) :
    (remove H l e).1.container = H.container := by
  simp [remove, Heap.setNext, Heap.setPrev]

theorem remove_handle (H : Heap) (l e : Addr) :
    (remove H l e).2 = if l = e then (if H.prev l = l then 0 else H.prev l) else l := by
  simp [remove]

theorem splice_next (H : Heap) (p n x : Addr) :
    (spliceAfter H p n).next x =
      if x = H.prev n then H.next p else if x = p then n else H.next x := by
  simp [spliceAfter, Heap.setNext, Heap.setPrev]

theorem splice_prev (H : Heap) (p n x : Addr) :
    (spliceAfter H p n).prev x =
      if x = H.next p then H.prev n else if x = n then p else H.prev x := by
  simp [spliceAfter, Heap.setNext, Heap.setPrev]

theorem splice_container (H : Heap) (p n : Addr) :
    (spliceAfter H p n).container = H.container := by
  simp [spliceAfter, Heap.setNext, Heap.setPrev]

/-! ### `remove` on a ring, element at the head of the ring's list -/

/-- Removing the head `e` of a ring `e :: t` (`t ≠ []`) leaves the ring `t`. -/
theorem ring_remove_head {H : Heap} {e l : Addr} {t : List Addr}
    (h : Ring H (e :: t)) (ht : t ≠ []) : Ring (remove H l e).1 t := by
  rcases list_cases3 t with rfl | ⟨z, rfl⟩ | ⟨a, m, z, rfl⟩
  · exact absurd rfl ht
  · have h' := (ring_cons_concat H e z []).mp h
    simp only [List.nil_append, linked_cons_cons, linked_single] at h'
    obtain ⟨hnd, h0, ⟨hez, hze, _⟩, hz, he⟩ := h'
    rw [ring_singleton, remove_next, remove_prev]
    simp at hnd h0
    grind
  · have h' := (ring_cons_concat H e z (a :: m)).mp (by simpa using h)
    simp only [List.cons_append, linked_cons_cons] at h'
    obtain ⟨hnd, h0, ⟨hea, hae, hl⟩, hz, he⟩ := h'
    rw [ring_cons_concat]
    simp only [List.nodup_cons, List.mem_cons, List.mem_append, List.nodup_append,
      not_or] at hnd h0
    refine ⟨?_, ?_, hl.frame ?_ ?_, ?_, ?_⟩
    · simp only [List.nodup_cons, List.mem_append, List.nodup_append]; grind
    · simp only [List.mem_cons, List.mem_append]; grind
    · intro x hx
      rw [remove_next]
      simp only [List.mem_cons] at hx
      grind
    · intro x hx
      rw [remove_prev]
      simp only [List.mem_append, List.mem_singleton] at hx
      grind
    · rw [remove_next]; grind
    · rw [remove_prev]; grind

/-- After `remove`, `e` is a self-linked singleton. -/
theorem remove_self (H : Heap) (l e : Addr) :
    (remove H l e).1.next e = e ∧ (remove H l e).1.prev e = e := by
  simp [remove_next, remove_prev]

/-- `remove` only writes cells of the ring that contains `e`. -/
theorem remove_frame {H : Heap} {e l : Addr} {xs : List Addr} (h : Ring H xs) (he : e ∈ xs)
    {x : Addr} (hx : x ∉ xs) :
    (remove H l e).1.next x = H.next x ∧ (remove H l e).1.prev x = H.prev x := by
  obtain ⟨as, bs, rfl, _⟩ := List.eq_append_cons_of_mem he
  have h' : Ring H (e :: (bs ++ as)) := by simpa using h.rotate
  have hx' : x ≠ e ∧ x ∉ bs ++ as := by simp at hx ⊢; grind
  rw [remove_next, remove_prev]
  rcases list_cases3 (bs ++ as) with h0 | ⟨z, h0⟩ | ⟨a, m, z, h0⟩
  · rw [h0] at h'
    have := (ring_singleton H e).mp h'
    grind
  · rw [h0] at h' hx'
    have := (ring_cons_concat H e z []).mp h'
    simp at this hx'
    grind
  · rw [h0] at h' hx'
    have := (ring_cons_concat H e z (a :: m)).mp (by simpa using h')
    simp at this hx'
    grind

/-! ### `spliceAfter` on two disjoint rings -/

/-- Frame for the `p` part of a splice: the open chain `p_2nd … p` keeps its interior links. -/
theorem splice_frame_p {H : Heap} {p n p2 : Addr} {ps' : List Addr}
    (hl : Linked H (p2 :: (ps' ++ [p]))) (hnext : H.next p = p2)
    (h1 : H.prev n ∉ p2 :: ps') (h2 : p ∉ p2 :: ps')
    (h3 : p2 ∉ ps' ++ [p]) (h4 : n ∉ ps' ++ [p]) :
    Linked (spliceAfter H p n) (p2 :: (ps' ++ [p])) := by
  refine hl.frame ?_ ?_
  · intro x hx; rw [splice_next]; grind
  · intro x hx; rw [splice_prev]; grind

/-- Frame for the `n` part of a splice: the open chain `n … n_last` keeps its interior links. -/
theorem splice_frame_n {H : Heap} {p n nl : Addr} {ns' : List Addr}
    (hl : Linked H (n :: (ns' ++ [nl]))) (hprev : H.prev n = nl)
    (h1 : nl ∉ n :: ns') (h2 : p ∉ n :: ns')
    (h3 : H.next p ∉ ns' ++ [nl]) (h4 : n ∉ ns' ++ [nl]) :
    Linked (spliceAfter H p n) (n :: (ns' ++ [nl])) := by
  refine hl.frame ?_ ?_
  · intro x hx; rw [splice_next]; grind
  · intro x hx; rw [splice_prev]; grind

/-- `p :: ps` and `n :: ns` disjoint rings; afterwards `p :: n :: ns ++ ps` is a ring. -/
theorem ring_splice {H : Heap} {p n : Addr} {ps ns : List Addr}
    (hp : Ring H (p :: ps)) (hn : Ring H (n :: ns))
    (hd : ∀ x ∈ p :: ps, x ∉ n :: ns) :
    Ring (spliceAfter H p n) (p :: ((n :: ns) ++ ps)) := by
  have hndp := hp.nodup
  have hndn := hn.nodup
  have h0p := hp.zero_not_mem
  have h0n := hn.zero_not_mem
  rw [ring_cons]
  refine ⟨?_, ?_, ?_⟩
  · simp only [List.nodup_cons, List.mem_cons, List.mem_append, List.nodup_append,
      List.cons_append, not_or] at hndp hndn hd ⊢
    grind
  · simp only [List.mem_cons, List.mem_append, List.cons_append, not_or] at h0p h0n ⊢
    grind
  · -- the closed walk  p → n … n_last → p_2nd … → p
    simp only [List.nodup_cons, List.mem_cons, not_or] at hndp hndn hd
    have e1 : p :: ((n :: ns) ++ ps ++ [p]) = [p] ++ n :: (ns ++ (ps ++ [p])) := by simp
    rw [e1, linked_append_cons]
    refine ⟨?_, ?_⟩
    · simp only [List.cons_append, List.nil_append, linked_cons_cons, linked_single, and_true,
        splice_next, splice_prev]
      rcases list_nil_or_snoc ns with rfl | ⟨ns', nl, rfl⟩
      · have := (ring_singleton H n).mp hn
        rcases ps with _ | ⟨p2, ps'⟩
        · have := (ring_singleton H p).mp hp
          grind
        · have := (ring_cons H p (p2 :: ps')).mp hp
          simp only [List.cons_append, linked_cons_cons] at this
          grind
      · have := (ring_cons_concat H n nl ns').mp hn
        simp only [List.mem_append, List.mem_singleton, List.nodup_append] at hndn hd this
        rcases ps with _ | ⟨p2, ps'⟩
        · have := (ring_singleton H p).mp hp
          grind
        · have := (ring_cons H p (p2 :: ps')).mp hp
          simp only [List.cons_append, linked_cons_cons] at this
          grind
    · rcases list_nil_or_snoc ns with rfl | ⟨ns', nl, rfl⟩
      · have hn1 := (ring_singleton H n).mp hn
        rcases ps with _ | ⟨p2, ps'⟩
        · have := (ring_singleton H p).mp hp
          simp only [List.nil_append, linked_cons_cons, linked_single, and_true,
            splice_next, splice_prev]
          grind
        · have hp1 := (ring_cons H p (p2 :: ps')).mp hp
          simp only [List.cons_append, linked_cons_cons] at hp1
          simp only [List.nil_append, List.cons_append, linked_cons_cons]
          refine ⟨?_, ?_, splice_frame_p hp1.2.2.2.2 hp1.2.2.1 ?_ ?_ ?_ ?_⟩
          · rw [splice_next]; grind
          · rw [splice_prev]; grind
          all_goals
            simp only [List.nodup_cons, List.mem_cons, List.mem_append, not_or] at hndp hd ⊢
            grind
      · have hn1 := (ring_cons_concat H n nl ns').mp hn
        simp only [List.mem_append, List.mem_singleton, List.nodup_append] at hndn hd
        have e2 : n :: (ns' ++ [nl] ++ (ps ++ [p])) = (n :: ns') ++ nl :: (ps ++ [p]) := by simp
        rw [e2, linked_append_cons]
        refine ⟨?_, ?_⟩
        · refine splice_frame_n hn1.2.2.1 hn1.2.2.2.2 ?_ ?_ ?_ ?_
          · simp only [List.mem_cons, not_or]; grind
          · simp only [List.mem_cons, not_or]; grind
          · rcases ps with _ | ⟨p2, ps'⟩
            · have := (ring_singleton H p).mp hp
              simp only [List.mem_append, List.mem_singleton, not_or]; grind
            · have hp1 := (ring_cons H p (p2 :: ps')).mp hp
              simp only [List.cons_append, linked_cons_cons] at hp1
              simp only [List.mem_append, List.mem_singleton, not_or]; grind
          · simp only [List.mem_append, List.mem_singleton, not_or]; grind
        · rcases ps with _ | ⟨p2, ps'⟩
          · have := (ring_singleton H p).mp hp
            simp only [List.nil_append, linked_cons_cons, linked_single, and_true,
              splice_next, splice_prev]
            grind
          · have hp1 := (ring_cons H p (p2 :: ps')).mp hp
            simp only [List.cons_append, linked_cons_cons] at hp1
            simp only [List.cons_append, linked_cons_cons]
            refine ⟨?_, ?_, splice_frame_p hp1.2.2.2.2 hp1.2.2.1 ?_ ?_ ?_ ?_⟩
            · rw [splice_next]; grind
            · rw [splice_prev]; grind
            all_goals
              simp only [List.nodup_cons, List.mem_cons, List.mem_append, not_or] at hndp hd ⊢
              grind

end Dll
