/- Proofs/CounterStepBase.lean — lemmas and tactic macros shared by the per-program-point preservation lemmas. -/
import NsyncVerif.Proofs.CounterRely

namespace Counter

theorem setPc_eq (s : State) (t : Tid) (p : PC) : s.setPc t p = State.mk' s.sh s t p := rfl

theorem Rely.refl (sh : Shared) (u : Tid) : Rely sh sh u := by
  constructor <;> simp_all

theorem inv_mk' {s : State} {sh' : Shared} {t : Tid} {p' : PC} (hi : Inv s) (hsh : ShInv sh')
    (hp : pcInv sh' t p') (hr : ∀ u, u ≠ t → Rely s.sh sh' u) : Inv (State.mk' sh' s t p') := by
  refine ⟨hsh, fun u => ?_⟩
  by_cases hu : u = t
  · subst hu; simpa [State.mk'] using hp
  · simp only [State.mk', hu, if_false]
    exact pcInv_rely (hr u hu) (hi.pcs u)

theorem inv_sh {s : State} {sh' : Shared} (hi : Inv s) (hsh : ShInv sh')
    (hr : ∀ u, Rely s.sh sh' u) : Inv { s with sh := sh' } :=
  ⟨hsh, fun u => pcInv_rely (hr u) (hi.pcs u)⟩

theorem rely_semUp (sh : Shared) (j : SemId) (u : Tid) : Rely sh (sh.setSem j (sh.sem j + 1)) u := by
  constructor <;> simp_all [Shared.setSem, own, woken, semPos]
  all_goals grind

theorem rely_semDown (sh : Shared) (hs : ShInv sh) (j : SemId) (n : Nat) (hu : sh.semUser j = none)
    (u : Tid) : Rely sh (sh.setSem j n) u := by
  have := hs.semu
  constructor <;> simp_all [Shared.setSem, own, woken, semPos]
  all_goals grind

theorem shInv_setSem {sh : Shared} (hs : ShInv sh) (j : SemId) (n : Nat) : ShInv (sh.setSem j n) := by
  obtain ⟨a, b, c, d, e, f, g, h, i, j', k, l, m⟩ := hs
  exact ⟨a, b, c, d, e, f, g, h, i, j', k, l, m⟩

theorem inv_dflt {s s' : State} {idle : Bool} {e : Ev} (hi : Inv s) (h : dflt s idle e = .ok s') :
    Inv s' := by
  unfold dflt at h
  repeat' (split at h)
  all_goals first
    | (cases h; done)
    | (cases h; exact hi)
    | (cases h; exact inv_sh hi (shInv_setSem hi.sh _ _) (fun u => rely_semUp _ _ u))
    | (cases h; exact inv_sh hi (shInv_setSem hi.sh _ _) (fun u => rely_semDown _ hi.sh _ _ (by assumption) u))
    | skip

end Counter

namespace Counter

theorem mem_of_getLast? {α} {l : List α} {a : α} (h : l.getLast? = some a) : a ∈ l := by
  cases l with
  | nil => simp at h
  | cons x xs =>
    rw [List.getLast?_eq_some_getLast (by simp)] at h
    injection h with h; rw [← h]; exact List.getLast_mem _

theorem value_mem_hist {sh : Shared} (hs : ShInv sh) (hc : sh.created = true) : sh.value ∈ sh.hist :=
  mem_of_getLast? (hs.last hc)

theorem useMu_eq {sh sh' : Shared} {m : MuId} (h : sh.useMu m = some sh') :
    sh' = { sh with mu := some m } := by
  unfold Shared.useMu at h
  split at h
  · cases h; rfl
  · split at h
    · cases h; cases sh; simp_all
    · cases h

theorem bind_eq {sh sh' : Shared} {k : NwId} {j : SemId} (h : sh.bind k j = some sh') :
    (sh' = sh ∧ (sh.nw k).sem = some j) ∨
    ((sh.nw k).sem = none ∧ sh.semUser j = none ∧
      sh' = (sh.setRec k { sh.nw k with sem := some j }).setSemUser j (some k)) := by
  unfold Shared.bind at h
  split at h
  · split at h
    · cases h; left; simp_all
    · cases h
  · split at h
    · cases h
    · cases h; right; simp_all

set_option hygiene false in
/-- open one program-point case: `hp` = facts of the acting thread, `hs` = shared invariant;
    leaves one goal triple (ShInv / pcInv / Rely) per accepted transition -/
macro "step_open" : tactic => `(tactic| (
  have hp := hi.pcs t; rw [hpc] at hp
  have hs := hi.sh
  simp only [stepThr, hpc] at h
  repeat' (split at h)
  all_goals first | (cases h; done) | exact inv_dflt hi h | skip
  all_goals (cases h; (try simp only [setPc_eq]); apply inv_mk' hi)
  all_goals try (have hm := useMu_eq (by assumption); subst hm)
  all_goals simp only [pcInv, pcFacts, holds] at hp))

set_option hygiene false in
macro "destruct_hs" : tactic => `(tactic|
  obtain ⟨q1, q2, q3, q4, q5, q6, q7, q8, q9, q10, q11, q12, q13⟩ := hs)

macro "unf" : tactic => `(tactic|
  simp_all [Shared.setSem, Shared.setRec, Shared.setSemUser, Shared.release, own, woken, semPos])

macro "unf2" : tactic => `(tactic|
  simp only [Shared.setSem, Shared.setRec, Shared.setSemUser, Shared.release, own, woken, semPos,
    ite_live, ite_waiting, ite_sem, ite_owner, ne_eq, Bool.false_eq_true, iff_false, iff_true] at *)

set_option hygiene false in
macro "rely_tac" : tactic => `(tactic| (
  intro u hu
  first
    | exact Rely.refl _ _
    | (destruct_hs
       constructor <;> try (first | (unf <;> grind) | (unf2 <;> grind) | grind))))

set_option hygiene false in
macro "pcinv_tac" : tactic => `(tactic| (
  have hvm := @value_mem_hist _ hs
  have hdp := @expired_of_dlePast
  destruct_hs
  simp only [pcInv, pcFacts, holds]
  try (first | (unf <;> grind) | (unf2 <;> grind) | grind)))

set_option hygiene false in
macro "shinv_tac" : tactic => `(tactic| (
  first
    | exact hs
    | (destruct_hs
       constructor <;> try (first | (unf <;> grind) | (unf2 <;> grind) | grind))))

end Counter
