import NsyncVerif.Gen.Sites
import NsyncVerif.Proofs.NoteVC
/-
  Tie lemma (T-gen) for the note edge of C03: the order `noteSiteOrd` gives to each atomic site of
  note.c / wait.c (and the NOTIFIED_TIME macro of common.h) that the product Note × vector clocks uses
  is the order the macro at that site of /repo's CURRENT source requests (regenerated `Gen.sites`).
-/
namespace NsyncVerif.Tie
theorem note_sites_tie : Note.noteSitesAgree Gen.sites = true := by decide
end NsyncVerif.Tie
