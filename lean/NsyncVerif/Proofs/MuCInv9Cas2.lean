import NsyncVerif.Proofs.MuCInv9Cas
/-
  MuC (I_wait): the steps that continue with the plain code of the scan.
-/
namespace NsyncVerif.MuC

theorem scanPc_waitRec {r : Ret} {late : Bool} {p : PC} (h : ScanPc r late p) : p.waitRec = r.w? := by
  cases p <;> simp [ScanPc] at h <;> simp [PC.waitRec, h]

theorem scanPc_wmode {r : Ret} {late : Bool} {p : PC} (h : ScanPc r late p) : p.wmode = r.wmode := by
  cases p <;> simp [ScanPc] at h <;> simp [PC.wmode, h]

theorem scanPc_pwait {r : Ret} {late : Bool} {p : PC} (h : ScanPc r late p) : p.pwait = none := by
  cases p <;> simp [ScanPc] at h <;> rfl

theorem scanPc_limboL {r : Ret} {late : Bool} {p : PC} (h : ScanPc r late p) : p.limboL = none := by
  cases p <;> simp [ScanPc] at h <;> rfl

theorem scanPc_hlRec {r : Ret} {late : Bool} {p : PC} (h : ScanPc r late p) : p.hlRec = none := by
  cases p <;> simp [ScanPc] at h <;> rfl

theorem listed_iff_allOf {s : State} (t : Tid) (hoth : ∀ u, u ≠ t → (s.pc u).unl = false) (x : Wid) :
    Listed s x ↔ x ∈ allOf s t ∨ ∃ u, u ≠ t ∧ x ∈ (s.pc u).wakeL := by
  simp only [Listed, allOf, List.mem_append]
  constructor
  · rintro (hq | ⟨u, hu⟩)
    · rcases hq with hq | ⟨u, sc, h1, h2⟩
      · exact Or.inl (Or.inl (Or.inl hq))
      · by_cases e : u = t
        · subst e; exact Or.inl (Or.inl (Or.inr (mem_priv_iff.2 ⟨sc, h1, h2⟩)))
        · have := unl_of_scan h1; rw [hoth u e] at this; cases this
    · by_cases e : u = t
      · subst e; exact Or.inl (Or.inr hu)
      · exact Or.inr ⟨u, e, hu⟩
  · rintro (((hq | hp) | hw) | ⟨u, _, hu⟩)
    · exact Or.inl (Or.inl hq)
    · obtain ⟨sc, h1, h2⟩ := mem_priv_iff.1 hp
      exact Or.inl (Or.inr ⟨t, sc, h1, h2⟩)
    · exact Or.inr ⟨t, hw⟩
    · exact Or.inr ⟨u, hu⟩

/-- A step of the unlocker `t` that permutes queue, private lists and wake list. -/
theorem Inv9.scan_step {s s' : State} (t : Tid) (h4 : Inv4 s) (h4' : Inv4 s') (h : Inv9 s)
    (hwr : ∀ x, (s'.wr x).waiting = (s.wr x).waiting ∧ (s'.wr x).lType = (s.wr x).lType ∧ (s'.wr x).sem = (s.wr x).sem)
    (hw : s.word.waiting = true → s'.word.waiting = true)
    (hpc : ∀ u, u ≠ t → s'.pc u = s.pc u)
    (hperm : (allOf s' t).Perm (allOf s t))
    (hoth : ∀ u, u ≠ t → (s.pc u).unl = false)
    (hwake : ∀ x, x ∈ (s.pc t).wakeL → x ∈ (s'.pc t).wakeL)
    (hnv : ∀ r k rest, s.pc t ≠ .usWakeV r k rest)
    (henq : (s'.pc t).enqPend = false) (hmt : (s'.pc t).mtOld = none)
    (hrec : (s'.pc t).waitRec = (s.pc t).waitRec) (hwm : (s'.pc t).wmode = (s.pc t).wmode)
    (hpw : (s'.pc t).pwait = none) (hlm : (s'.pc t).limboL = none) (hhl : (s'.pc t).hlRec = none) : Inv9 s' := by
  have hoth' : ∀ u, u ≠ t → (s'.pc u).unl = false := fun u hu => by rw [hpc u hu]; exact hoth u hu
  have hL : ∀ x, Listed s' x ↔ Listed s x := by
    intro x
    rw [listed_iff_allOf t hoth', listed_iff_allOf t hoth, hperm.mem_iff]
    constructor
    · rintro (a | ⟨u, hu, b⟩)
      · exact Or.inl a
      · exact Or.inr ⟨u, hu, by rw [← hpc u hu]; exact b⟩
    · rintro (a | ⟨u, hu, b⟩)
      · exact Or.inl a
      · exact Or.inr ⟨u, hu, by rw [hpc u hu]; exact b⟩
  refine Inv9.step t h4 h (fun x => (hL x).1) (fun x hx => queued_of_scan h4' hpc hperm hoth hwake hx)
    (fun x hx _ => (hL x).2 hx) (fun x => ⟨(hwr x).1, (hwr x).2.1, by rw [(hwr x).2.2]; exact id⟩) hw hpc
    (fun r k rest hv => absurd hv (hnv r k rest)) (by rw [henq]; intro e; cases e) (by rw [hmt]; intro o e; cases e)
    (Or.inl ⟨hrec, fun _ => hwm, fun x _ hx => (hL x).2 hx⟩) (by rw [hpw]; intro k e; cases e) (by rw [hlm]; intro k l e; cases e) (by rw [hhl]; intro k e; cases e)

theorem inv9_stepCasA {s s' : State} {t : Tid} {o : Ord} {loc : Loc} {exp new obs : Nat} {ok : Bool}
    (h1 : Inv1 s) (h3 : Inv3 s) (h4 : Inv4 s) (h4' : Inv4 s') (h : Inv9 s)
    (hp : match s.pc t with
      | .usCasGrab _ _ | .usRelCas _ _ _ | .usReCas _ _ _ | .usRcCas _ _ _ _ => True
      | _ => False)
    (hs : stepCas s t o loc exp new obs ok = .ok s') : Inv9 s' := by
  unfold stepCas at hs
  split at hs
  all_goals try (rename_i heq; rw [heq] at hp; exact False.elim hp)
  all_goals try (rename_i hne; split at hp <;> first | exact False.elim hp | (exfalso; simp_all; done))
  · -- usCasGrab
    rename_i r old heq
    have hok3 := h3.ok3 t; rw [heq] at hok3
    rcases casWordE_ok hs with ⟨hw, -, hs⟩ | ⟨-, -, rfl⟩
    · have hsc0 : Scan.ok { late := old.cond, tc := old.cond, done := [], passed := [], todo := [], wake := [], wt := none,
                            sww := false, saf := true } := fun h => h
      obtain ⟨hf, p, hpc, hsc⟩ := afterPickup_frame hs hsc0
      obtain ⟨hlo, hperm⟩ := afterPickup_lists hs
      have hwk := afterPickup_wake hs
      have hpt : ScanPc r old.cond (s'.pc t) := by rw [hpc]; simpa using hsc
      have hsh : shareOf s t ≠ none := by
        rw [h1.share_eq (by rw [heq]; simp), heq]; simp [pcShare]
      have hoth := no_unl_at_grab h1 h3 hsh (by rw [hw]; exact hok3)
      refine Inv9.scan_step t h4 h4' h (fun x => by have := hlo x; simp at this; exact ⟨this.2.1, this.2.2.1, this.2.2.2.1⟩)
        ?_ (by intro u hu; rw [hpc]; simp [setFn, hu]) ?_ hoth
        (by intro x hx; rw [heq] at hx; simp [PC.wakeL] at hx) (by intro r' k' rest hv; rw [heq] at hv; cases hv)
        (scanPc_enqPend hpt) (scanPc_mtOld hpt) ?_ ?_ (scanPc_pwait hpt) (scanPc_limboL hpt) (scanPc_hlRec hpt)
      · rw [hf.word]; simp [grabWord, hw]; cases r.mode <;> simp [subWord]
      · refine hperm.trans ?_
        simp [allOf, heq, PC.priv, PC.scan?, PC.wakeL, Scan.lists]
      · rw [scanPc_waitRec hpt, heq]; rfl
      · rw [scanPc_wmode hpt, heq]; rfl
    · inv9_local t h4 h heq
  · -- usRelCas
    rename_i r sc old heq
    have hok1 := h1.pcok t; rw [heq] at hok1
    rcases casWordE_ok hs with ⟨hw, -, hs⟩ | ⟨-, -, rfl⟩
    · obtain ⟨hf, p, hpc, hsc⟩ := scanRun_frame _ _ t r sc s' hs hok1.2
      obtain ⟨hlo, hperm⟩ := scanRun_lists _ _ t r sc s' hs
      have hwk := scanRun_wake _ _ t r sc s' hs
      have hpt : ScanPc r sc.late (s'.pc t) := by rw [hpc]; simpa using hsc
      refine Inv9.scan_step t h4 h4' h (fun x => ⟨(hlo x).2.1, (hlo x).2.2.1, (hlo x).2.2.2.1⟩)
        (by rw [hf.word]; simp [hw]) (by intro u hu; rw [hpc]; simp [setFn, hu]) ?_ ?_
        (by intro x hx; rw [heq] at hx; exact hwk x hx) (by intro r' k' rest hv; rw [heq] at hv; cases hv)
        (scanPc_enqPend hpt) (scanPc_mtOld hpt) ?_ ?_ (scanPc_pwait hpt) (scanPc_limboL hpt) (scanPc_hlRec hpt)
      · refine hperm.trans ?_
        simp [allOf, heq, PC.priv, PC.scan?, PC.wakeL]
      · intro u hu
        cases e : (s.pc u).unl with
        | false => rfl
        | true => exact absurd (h4.uniq u t e (by rw [heq]; rfl)) hu
      · rw [scanPc_waitRec hpt, heq]; rfl
      · rw [scanPc_wmode hpt, heq]; rfl
    · inv9_local t h4 h heq
  · -- usReCas
    rename_i r sc old heq
    have hok1 := h1.pcok t; rw [heq] at hok1
    rcases casWordE_ok hs with ⟨hw, -, hs⟩ | ⟨-, -, rfl⟩
    · obtain ⟨hf, p, hpc, hsc⟩ := afterPickup_frame hs hok1.2
      obtain ⟨hlo, hperm⟩ := afterPickup_lists hs
      have hwk := afterPickup_wake hs
      have hpt : ScanPc r sc.late (s'.pc t) := by rw [hpc]; simpa using hsc
      refine Inv9.scan_step t h4 h4' h (fun x => ⟨(hlo x).2.1, (hlo x).2.2.1, (hlo x).2.2.2.1⟩)
        (by rw [hf.word]; simp [hw]) (by intro u hu; rw [hpc]; simp [setFn, hu]) ?_ ?_
        (by intro x hx; rw [heq] at hx; exact hwk x hx) (by intro r' k' rest hv; rw [heq] at hv; cases hv)
        (scanPc_enqPend hpt) (scanPc_mtOld hpt) ?_ ?_ (scanPc_pwait hpt) (scanPc_limboL hpt) (scanPc_hlRec hpt)
      · refine hperm.trans ?_
        simp [allOf, heq, PC.priv, PC.scan?, PC.wakeL]
      · intro u hu
        cases e : (s.pc u).unl with
        | false => rfl
        | true => exact absurd (h4.uniq u t e (by rw [heq]; rfl)) hu
      · rw [scanPc_waitRec hpt, heq]; rfl
      · rw [scanPc_wmode hpt, heq]; rfl
    · inv9_local t h4 h heq
  · -- usRcCas
    rename_i r sc k old heq
    have hok1 := h1.pcok t; rw [heq] at hok1
    repeat' split at hs
    all_goals first
      | (cases hs; done)
      | skip
    · obtain ⟨hf, p, hpc, hsc⟩ := scanRun_frame _ _ t r sc s' hs hok1.2
      obtain ⟨hlo, hperm⟩ := scanRun_lists _ _ t r sc s' hs
      have hwk := scanRun_wake _ _ t r sc s' hs
      have hpt : ScanPc r sc.late (s'.pc t) := by rw [hpc]; simpa using hsc
      refine Inv9.scan_step t h4 h4' h ?_
        (by rw [hf.word]; simp) (by intro u hu; rw [hpc]; simp [setFn, hu]) ?_ ?_
        (by intro x hx; rw [heq] at hx; exact hwk x hx) (by intro r' k' rest hv; rw [heq] at hv; cases hv)
        (scanPc_enqPend hpt) (scanPc_mtOld hpt) ?_ ?_ (scanPc_pwait hpt) (scanPc_limboL hpt) (scanPc_hlRec hpt)
      · intro x
        have := hlo x
        simp only [setFn] at this
        refine ⟨?_, ?_, ?_⟩
        · rw [this.2.1]; split <;> simp_all
        · rw [this.2.2.1]; split <;> simp_all
        · rw [this.2.2.2.1]; split <;> simp_all
      · refine hperm.trans ?_
        simp [allOf, heq, PC.priv, PC.scan?, PC.wakeL]
      · intro u hu
        cases e : (s.pc u).unl with
        | false => rfl
        | true => exact absurd (h4.uniq u t e (by rw [heq]; rfl)) hu
      · rw [scanPc_waitRec hpt, heq]; rfl
      · rw [scanPc_wmode hpt, heq]; rfl
    · cases hs; inv9_local t h4 h heq

end NsyncVerif.MuC
