/-
  Layer `CvFix` (cv.c with the repair of F3; adapted from the `Cv` file of the same name): `InvE` is preserved by every transition.
-/
import NsyncVerif.Proofs.CvFixInvE

namespace NsyncVerif.CvFix

/-- frame condition for the acting thread of a non-local transition that keeps `cur` and stays off the V -/
theorem thrE_frame {s s' : State} {t : Tid} (ho : ∀ v, v ≠ t → s'.thr v = s.thr v)
    (hc : (s'.thr t).cur = (s.thr t).cur) (hl : ((s'.thr t).loc = .wwV ↔ (s.thr t).loc = .wwV)) (u : Tid) :
    (s'.thr u).cur = (s.thr u).cur ∧ ((s'.thr u).loc = .wwV ↔ (s.thr u).loc = .wwV) := by
  by_cases hu : u = t
  · subst hu; exact ⟨hc, hl⟩
  · rw [ho u hu]; exact ⟨rfl, Iff.rfl⟩

/-- records other than `r` unchanged, `r` is not woken afterwards -/
theorem ite_ne_wwV (b : Bool) : (if b = true then Loc.sRel else Loc.sRcLd) ≠ .wwV := by
  cases b <;> simp

theorem head_mem' {l : List Rid} {r : Rid} (h : l.head? = some r) : r ∈ l := by
  cases l with
  | nil => simp at h
  | cons a b => simp at h; subst h; simp

theorem recE_notWoken {s s' : State} {r : Rid} (ho : ∀ q, q ≠ r → s'.recs q = s.recs q)
    (hr : (s'.recs r).stat ≠ .woken) (q : Rid) (hw : (s'.recs q).stat = .woken) :
    (s.recs q).stat = .woken ∧ (s'.recs q).enqSeq = (s.recs q).enqSeq ∧
    ((s.recs q).posted = true → (s'.recs q).posted = true) := by
  by_cases hq : q = r
  · subst hq; exact absurd hw hr
  · rw [ho q hq] at hw ⊢; exact ⟨hw, rfl, id⟩

/-- records other than `r` unchanged, `r` keeps status, `enqSeq` and `posted` -/
theorem recE_same {s s' : State} {r : Rid} (ho : ∀ q, q ≠ r → s'.recs q = s.recs q)
    (h1 : (s'.recs r).stat = (s.recs r).stat) (h2 : (s'.recs r).enqSeq = (s.recs r).enqSeq)
    (h3 : (s'.recs r).posted = (s.recs r).posted) (q : Rid) (hw : (s'.recs q).stat = .woken) :
    (s.recs q).stat = .woken ∧ (s'.recs q).enqSeq = (s.recs q).enqSeq ∧
    ((s.recs q).posted = true → (s'.recs q).posted = true) := by
  by_cases hq : q = r
  · subst hq; rw [h1] at hw; exact ⟨hw, h2, by rw [h3]; exact id⟩
  · rw [ho q hq] at hw ⊢; exact ⟨hw, rfl, id⟩

set_option maxHeartbeats 1000000 in
theorem invE_tr {cfg : Config} {s s' : State} {e : Event} (ha : InvA s) (hi : InvE s) (h : Tr cfg s e s') :
    InvE s' := by
  cases h with
  | same e h => exact hi
  | tick ns h => exact invE_frame hi (fun u => ⟨rfl, Iff.rfl⟩) (fun r hw => ⟨hw, rfl, id⟩)
  | semOther e sem' h => exact invE_frame hi (fun u => ⟨rfl, Iff.rfl⟩) (fun r hw => ⟨hw, rfl, id⟩)
  | loc h =>
    rename_i t x'
    have := ltr_cur hi h
    exact invE_frame hi (fun u => thrE_frame (t := t) (fun v hv => by simp [hv]) (by simpa using this.1)
      (by simpa using this.2) u) (fun r hw => ⟨hw, rfl, id⟩)
  | acq t exp new obs o n hl hexp hw he ho hn hnew =>
    unfold afterAcquire
    split
    · refine invE_frame hi (fun u => thrE_frame (t := t) (fun v hv => by simp [hv]) (by simp) (by simp [hl]) u) ?_
      exact recE_notWoken (r := (s.thr t).r) (fun q hq => by simp [hq]) (by simp)
    · exact invE_frame hi (fun u => thrE_frame (t := t) (fun v hv => by simp [hv]) (by simp) (by simp [hl]) u)
        (fun r hw => ⟨hw, rfl, id⟩)
    · exact invE_frame hi (fun u => thrE_frame (t := t) (fun v hv => by simp [hv]) (by simp) (by simp [hl]) u)
        (fun r hw => ⟨hw, rfl, id⟩)
    · exact invE_frame hi (fun u => thrE_frame (t := t) (fun v hv => by simp [hv]) (by simp) (by simp [hl]) u)
        (fun r hw => ⟨hw, rfl, id⟩)
    · dsimp only
      generalize (if (s.thr t).bcast = true then s.queue else sigSelect s.recs s.queue) = sel
      refine invE_frame hi (fun u => thrE_frame (t := t) (fun v hv => by simp [hv]) (by simp) ?_ u) ?_
      · simp only [updT_apply, if_true, hl]
        constructor
        · intro h; exact absurd h (ite_ne_wwV _)
        · intro h; cases h
      · intro r hw
        by_cases hr : r ∈ sel
        · simp [hr] at hw
        · simp [hr] at hw ⊢; exact hw
  | relWait t new obs n hl hh hnew hn hsp =>
    refine invE_frame hi (fun u => thrE_frame (t := t) (fun v hv => by simp [hv]) (by simp) (by simp [hl]) u) ?_
    have hst := (ha.thr t).enq (.inr hl)
    exact recE_notWoken (r := (s.thr t).r) (fun q hq => by simp [hq]) (by simp [hst])
  | relEnq t new obs n hl hh hnew hn hsp =>
    refine invE_frame hi (fun u => thrE_frame (t := t) (fun v hv => by simp [hv]) (by simp) (by simp [hl]) u) ?_
    have hst := ((ha.thr t).nEnq hl).1
    exact recE_notWoken (r := (s.thr t).r) (fun q hq => by simp [hq]) (by simp [hst])
  | relWait2 t new obs n hl hh hnew hn hsp =>
    exact invE_frame hi (fun u => thrE_frame (t := t) (fun v hv => by simp [hv]) (by simp) (by simp [hl]) u)
      (fun r hw => ⟨hw, rfl, id⟩)
  | relDbg t new obs n hl hh hnew hn hsp =>
    exact invE_frame hi (fun u => thrE_frame (t := t) (fun v hv => by simp [hv]) (by simp) (by simp [hl]) u)
      (fun r hw => ⟨hw, rfl, id⟩)
  | relSig t site new obs n hl hs hh hnew hn hsp =>
    refine invE_frame hi (fun u => thrE_frame (t := t) (fun v hv => by simp [hv]) (by simp) ?_ u)
      (fun r hw => ⟨hw, rfl, id⟩)
    simp [hl]
    rcases wakeEntry_cases s (s.thr t).list with ⟨_, hw⟩ | ⟨_, hw | hw⟩ <;> simp [hw]
  | relDeq t new obs n hl hh hnew hn hsp =>
    refine invE_frame hi (fun u => thrE_frame (t := t) (fun v hv => by simp [hv]) (by simp) (by simp [hl]) u) ?_
    refine recE_notWoken (r := (s.thr t).r) (fun q hq => by simp [hq]) ?_
    simp; cases (s.recs (s.thr t).r).stat <;> simp
  | wHeadExit t r y hy hl hr hw =>
    subst hy
    refine invE_frame hi (fun u => thrE_frame (t := t) (fun v hv => by simp [hv]) (by simp) (by simp [hl]) u) ?_
    exact recE_notWoken (r := r) (fun q hq => by simp [hq]) (by simp)
  | wCmpEq t r obs hl hr ho he =>
    refine invE_frame hi (fun u => thrE_frame (t := t) (fun v hv => by simp [hv]) (by simp) (by simp [hl]) u) ?_
    exact recE_notWoken (r := r) (fun q hq => by simp [hq]) (by simp)
  | deqLdQueued t r obs hl hr hw hst =>
    refine invE_frame hi (fun u => thrE_frame (t := t) (fun v hv => by simp [hv]) (by simp) (by simp [hl]) u) ?_
    exact recE_notWoken (r := r) (fun q hq => by simp [hq]) (by simp)
  | relDeqW t new obs n hl hh hnew hn hsp =>
    exact invE_frame hi (fun u => thrE_frame (t := t) (fun v hv => by simp [hv]) (by simp) (by simp [hl]) u)
      (fun r hw => ⟨hw, rfl, id⟩)
  | deqSpinExit t r hl hr hw =>
    refine invE_frame hi (fun u => thrE_frame (t := t) (fun v hv => by simp [hv]) (by simp) (by simp [hl]) u) ?_
    refine recE_notWoken (r := r) (fun q hq => by simp [hq]) ?_
    simp; cases (s.recs r).stat <;> simp
  | wSt1 t r obs hl hm hst =>
    refine invE_frame hi (fun u => thrE_frame (t := t) (fun v hv => by simp [hv]) (by simp; split <;> simp)
      (by simp [hl]; split <;> simp) u) ?_
    exact recE_notWoken (r := r) (fun q hq => by simp [hq]) (by simp)
  | wClr t r obs hl hr =>
    refine invE_frame hi (fun u => thrE_frame (t := t) (fun v hv => by simp [hv]) (by simp) (by simp [hl]) u) ?_
    exact recE_same (r := r) (fun q hq => by simp [hq]) (by simp) (by simp) (by simp)
  | wake t r obs hl hr =>
    -- the waker enters the V with `cur = (r, enqSeq r)`
    obtain ⟨e1, e2⟩ := hi
    have hst : (s.recs r).stat = .listed t := (ha.lMem t r).mp (head_mem' hr)
    constructor
    · intro u
      by_cases hu : u = t
      · subst hu; simp
      · simp [hu]; exact e1 u
    · intro q hw
      by_cases hq : q = r
      · subst hq
        right
        exact ⟨t, by simp, by simp⟩
      · simp [hq] at hw ⊢
        rcases e2 q hw with hp | ⟨u, hc, hlu⟩
        · exact .inl hp
        · have hu : u ≠ t := by intro e; subst e; rw [hl] at hlu; cases hlu
          exact .inr ⟨u, by simp [hu]; exact hc, by simp [hu]; exact hlu⟩
  | enqSt t r obs hl hm hst ho he =>
    refine invE_frame hi (fun u => thrE_frame (t := t) (fun v hv => by simp [hv]) (by simp) (by simp [hl]) u) ?_
    exact recE_notWoken (r := r) (fun q hq => by simp [hq]) (by simp)
  | deqSt t r obs hl hr =>
    refine invE_frame hi (fun u => thrE_frame (t := t) (fun v hv => by simp [hv]) (by simp) (by simp [hl]) u) ?_
    exact recE_same (r := r) (fun q hq => by simp [hq]) (by simp) (by simp) (by simp)
  | wRmCasOk t r exp new obs hl hr hn ho he =>
    refine invE_frame hi (fun u => thrE_frame (t := t) (fun v hv => by simp [hv]) (by simp) (by simp [hl]) u) ?_
    exact recE_same (r := r) (fun q hq => by simp [hq]) (by simp) (by simp) (by simp)
  | sRcCasOk t site r exp new obs hl hr hn ho he =>
    refine invE_frame hi (fun u => thrE_frame (t := t) (fun v hv => by simp [hv]) (by simp)
      (by simp only [setThr_thr, if_true, hl]; exact ⟨fun h => absurd h (ite_ne_wwV _), fun h => by cases h⟩) u) ?_
    exact recE_same (r := r) (fun q hq => by simp [hq]) (by simp) (by simp) (by simp)
  | muMode t obs lt hl hlt =>
    refine invE_frame hi (fun u => thrE_frame (t := t) (fun v hv => by simp [hv]) (by simp) (by simp [hl]) u) ?_
    exact recE_same (r := (s.thr t).r) (fun q hq => by simp [hq]) (by simp) (by simp) (by simp)
  | wwCasOk t exp new obs f rest hl hlist =>
    refine invE_frame hi ?_ ?_
    · intro u
      by_cases hu : u = t
      · subst hu; simp [hl]
      · simp [hu]
    · intro r hw
      generalize transferSet s.recs (firstCantAcquire (s.recs f).lt exp) (s.thr t).list = xs at hw ⊢
      by_cases hr : r ∈ xs
      · simp [hr] at hw
      · simp [hr] at hw ⊢; exact hw
  | semVWake t k r q hl hc =>
    -- the waker leaves the V: the instance it was posting (if still the same) becomes `posted`
    obtain ⟨e1, e2⟩ := hi
    constructor
    · intro u
      by_cases hu : u = t
      · subst hu; simp; split <;> simp
      · simp [hu]; exact e1 u
    · intro q' hw
      by_cases hq : q' = r
      · subst hq
        simp at hw ⊢
        rcases e2 q' hw with hp | ⟨u, hcu, hlu⟩
        · exact .inl (.inl hp)
        · by_cases hu : u = t
          · subst hu
            rw [hc] at hcu; simp at hcu
            exact .inl (.inr ⟨hcu.symm, hw⟩)
          · exact .inr ⟨u, by simp [hu]; exact hcu, by simp [hu]; exact hlu⟩
      · simp [hq] at hw ⊢
        rcases e2 q' hw with hp | ⟨u, hcu, hlu⟩
        · exact .inl hp
        · have hu : u ≠ t := by
            intro e; subst e; rw [hc] at hcu; simp at hcu; exact hq hcu.1.symm
          exact .inr ⟨u, by simp [hu]; exact hcu, by simp [hu]; exact hlu⟩
  | semPdRetOkW t k hl =>
    exact invE_frame hi (fun u => thrE_frame (t := t) (fun v hv => by simp [hv]) (by simp) (by simp [hl]) u)
      (fun r hw => ⟨hw, rfl, id⟩)
  | semPdRetOkC t k hl =>
    exact invE_frame hi (fun u => thrE_frame (t := t) (fun v hv => by simp [hv]) (by simp) (by simp [hl]) u)
      (fun r hw => ⟨hw, rfl, id⟩)
  | wInit t r hl hm hst =>
    exact invE_frame hi (fun u => ⟨rfl, Iff.rfl⟩)
      (recE_same (r := r) (fun q hq => by simp [hq]) (by simp) (by simp) (by simp))
  | nwInit t r hl hm hst =>
    exact invE_frame hi (fun u => ⟨rfl, Iff.rfl⟩)
      (recE_same (r := r) (fun q hq => by simp [hq]) (by simp) (by simp) (by simp))
  | fStW t r new hl hf =>
    exact invE_frame hi (fun u => ⟨rfl, Iff.rfl⟩)
      (recE_same (r := r) (fun q hq => by simp [hq]) (by simp) (by simp) (by simp))
  | fCasOk t r exp new obs hl hf hn ho he =>
    exact invE_frame hi (fun u => ⟨rfl, Iff.rfl⟩)
      (recE_same (r := r) (fun q hq => by simp [hq]) (by simp) (by simp) (by simp))

theorem invE_reachable {cfg : Config} {s : State} (h : Reachable cfg s) : InvE s := by
  have : Inv s ∧ InvE s := by
    refine reachable_induct (P := fun s => Inv s ∧ InvE s) ⟨⟨invA_init, invB_init⟩, invE_init⟩ ?_ s h
    intro s e s' ⟨hi, he⟩ htr
    have hb := invB_tr hi.a hi.b htr
    exact ⟨⟨invA_tr hi.a htr hb.nobad, hb⟩, invE_tr hi.a he htr⟩
  exact this.2

end NsyncVerif.CvFix
