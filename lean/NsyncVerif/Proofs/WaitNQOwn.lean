/-
  Proofs/WaitNQOwn.lean — infrastructure for the caller's own steps: what `QI` says about a thread that
  is not at a waker program point, moves of the program counter, landing lemmas for `CF`.
-/
import NsyncVerif.Proofs.WaitNQOther

set_option linter.unusedSimpArgs false
set_option linter.unusedVariables false

namespace WaitN

structure QCtx (s : State) (t : Tid) : Prop where
  own : Own s
  known : Known s
  linv : ∀ x, LInv (s.pc x) (s.fr x)
  qi : QI s
  cf : CF s t

theorem post_none_of_pc {s : State} {t : Tid} (h : QI s) (hp : opn (s.pc t) = false) : s.post t = none := by
  cases hpo : s.post t with
  | none => rfl
  | some r => have := (h.q6 t (by rw [hpo]; simp)).2; rw [hp] at this; cases this

theorem mc_none_of_pc {s : State} {t : Tid} (h : QI s) (hp : opn (s.pc t) = false) : s.mc t = .none := by
  cases hm : s.mc t with
  | none => rfl
  | locking o => have := (h.q11 t (by rw [hm]; simp)).1; rw [hp] at this; cases this
  | unlocking => have := (h.q11 t (by rw [hm]; simp)).1; rw [hp] at this; cases this

theorem wk_none_of_opn {p : PC} (h : opn p = false) : wk p = none := by
  cases p with
  | sg c bc st => cases st <;> simp [opn] at h <;> rfl
  | _ => rfl

/-- `QI` does not read frames or semaphores -/
theorem qi_setFr {s : State} {t : Tid} {f : Frame} (h : QI s) : QI (s.setFr t f) :=
  qi_transfer h rfl rfl rfl (fun _ => rfl) h.q6 h.q11
theorem qi_setSem {s : State} {j n : Nat} (h : QI s) : QI (s.setSem j n) :=
  qi_transfer h rfl rfl rfl (fun _ => rfl) h.q6 h.q11
theorem qi_setSemUser {s : State} {j : Nat} {u : Option Tid} (h : QI s) : QI (s.setSemUser j u) :=
  qi_transfer h rfl rfl rfl (fun _ => rfl) h.q6 h.q11

/-- the program counter of a thread with no pending post and no nested call moves between
    program points that are not inside wake_waiters -/
theorem qi_setPc {s : State} {t : Tid} {p : PC} (h : QI s) (hw0 : wk (s.pc t) = none) (hw1 : wk p = none)
    (hpost : s.post t = none) (hmc : s.mc t = .none) : QI (s.setPc t p) := by
  refine qi_transfer h rfl rfl rfl ?_ ?_ ?_
  · intro u; simp only [setPc_pc]; split
    · rename_i hu; subst hu; rw [hw0, hw1]
    · rfl
  · intro u hpo
    simp only [setPc_post, setPc_mc, setPc_pc] at hpo ⊢
    by_cases hu : u = t
    · subst hu; exact absurd hpost hpo
    · simp only [hu, if_false]; exact h.q6 u hpo
  · intro u hm
    simp only [setPc_mc, setPc_pc] at hm ⊢
    by_cases hu : u = t
    · subst hu; exact absurd hmc hm
    · simp only [hu, if_false]; exact h.q11 u hm

theorem qi_bindSem {s s' : State} {owner : Tid} {j : SemId} (h : QI s) (hb : bindSem s owner j = some s') : QI s' := by
  unfold bindSem at hb
  split_ok hb
  all_goals (cases hb; try first | exact h | exact qi_setSemUser (qi_setFr h))

theorem qi_postSem {s s' : State} {r : Rid} {j : SemId} (h : QI s) (hb : postSem s r j = some s') : QI s' := by
  unfold postSem at hb
  split at hb
  · exact qi_bindSem h hb
  · cases hb; exact h

theorem qi_unbindSem {s : State} {t : Tid} (h : QI s) : QI (unbindSem s t) := by
  unfold unbindSem
  split
  · exact qi_setSemUser (qi_setFr h)
  · exact qi_setFr h

theorem qi_dflt {s s' : State} {t : Tid} {e : Ev} (h : QI s) (hd : dflt s t e = .ok s') : QI s' := by
  unfold dflt at hd
  split_ok hd
  all_goals (cases hd; first | exact h | exact qi_setSem h)

/-! ### `CF` when nothing it reads changes -/

/-- `CF` of thread t reads: pc t, the objects / records / frees of its frame, and the shared objects and
    records -/
theorem cf_congr {s s' : State} {t : Tid} (h : CF s t) (hpc : s'.pc t = s.pc t)
    (hf : frSame (s.fr t) (s'.fr t)) (ho : s'.obj = s.obj) (hr : s'.rcd = s.rcd) : CF s' t := by
  have hfr : s'.fr t = { s.fr t with sem := (s'.fr t).sem } := hf
  constructor
  · intro o hh; rw [hpc, hfr, holdsAt_sem] at hh; rw [ho, hpc]; exact h.holds o hh
  · intro r hh; rw [hpc, hfr, freshAt_sem] at hh; rw [hr]; exact h.fresh r hh
  · intro r hh; rw [hpc, hfr, clearedAt_sem] at hh; rw [hr]; exact h.cleared r hh
  · intro o hh; rw [hpc, hfr, enqTrueAt_sem] at hh; rw [ho]; exact h.enqT o hh
  · intro hc hf0 k r hk
    rw [hpc] at hc ⊢
    rw [hfr] at hf0 hk ⊢
    rw [dqIdx_sem, hr]
    exact h.dq hc hf0 k r hk

theorem cf_dflt {s s' : State} {t : Tid} {e : Ev} (h : CF s t) (hd : dflt s t e = .ok s') : CF s' t := by
  have k := keeps_dflt (t := t) hd
  have sh := shared_dflt hd
  exact cf_congr h k.1 k.2 sh.1 sh.2.1

/-! ### landing -/

/-- program points at which the caller holds no lock and is not in the middle of an enqueue / dequeue -/
def Plain (p : PC) (f : Frame) : Prop :=
  holdsAt p f = none ∧ freshAt p f = none ∧ clearedAt p f = none ∧ enqTrueAt p f = none

theorem plain_relockNext (f : Frame) : Plain (relockNext f) f := by
  unfold relockNext; split <;> exact ⟨rfl, rfl, rfl, rfl⟩
theorem plain_finNext (f : Frame) : Plain (finNext f) f := by
  unfold finNext; split
  · exact ⟨rfl, rfl, rfl, rfl⟩
  · exact plain_relockNext f
theorem plain_deqNext (f : Frame) (j : Nat) : Plain (deqNext f j) f := by
  unfold deqNext; split
  · split <;> exact ⟨rfl, rfl, rfl, rfl⟩
  · exact plain_finNext f
theorem plain_scanEnd (f : Frame) : Plain (scanEnd f) f := by
  unfold scanEnd; split
  · exact plain_deqNext f 0
  · exact ⟨rfl, rfl, rfl, rfl⟩
theorem plain_loopNext (f : Frame) (j : Nat) : Plain (loopNext f j) f := by
  unfold loopNext; split
  · split <;> exact ⟨rfl, rfl, rfl, rfl⟩
  · exact plain_scanEnd f
theorem plain_enqNext (f : Frame) (i : Nat) (res : Bool) : Plain (enqNext f i res) f := by
  unfold enqNext; split
  · exact ⟨rfl, rfl, rfl, rfl⟩
  · split
    · split
      · exact ⟨rfl, rfl, rfl, rfl⟩
      · exact plain_loopNext f 0
    · exact plain_deqNext f 0
theorem plain_pollFrom (f : Frame) (l : List ObjId) (i : Nat) : Plain (pollFrom f l i) f := by
  induction l generalizing i with
  | nil =>
    unfold pollFrom; split
    · exact ⟨rfl, rfl, rfl, rfl⟩
    · split
      · exact ⟨rfl, rfl, rfl, rfl⟩
      · exact plain_enqNext f 0 true
  | cons o rest ih =>
    cases o with
    | cv c => simp only [pollFrom]; exact ih _
    | note n => exact ⟨rfl, rfl, rfl, rfl⟩
    | ctr k => exact ⟨rfl, rfl, rfl, rfl⟩
theorem plain_pollNext (f : Frame) (i : Nat) : Plain (pollNext f i) f := plain_pollFrom f _ i

theorem dqIdx_relockNext (f : Frame) : dqIdx (relockNext f) f = f.recs.length := by
  unfold relockNext; split <;> rfl
theorem dqIdx_finNext (f : Frame) : dqIdx (finNext f) f = f.recs.length := by
  unfold finNext; split
  · rfl
  · exact dqIdx_relockNext f
theorem dqIdx_deqNext {f : Frame} {j : Nat} (h : j ≤ f.recs.length) (hc : f.recs.length ≤ f.count) :
    dqIdx (deqNext f j) f = j := by
  unfold deqNext; split
  · rename_i hj
    split
    · rfl
    · rfl
    · rfl
    · rename_i hn
      have : j < f.count := Nat.lt_of_lt_of_le hj hc
      obtain ⟨o, ho⟩ := objs_get_of_lt this
      rw [ho] at hn; cases hn
  · rw [dqIdx_finNext]; omega
theorem dqIdx_scanEnd (f : Frame) (hc : f.recs.length ≤ f.count) : dqIdx (scanEnd f) f = 0 := by
  unfold scanEnd; split
  · exact dqIdx_deqNext (Nat.zero_le _) hc
  · rfl
theorem dqIdx_loopNext (f : Frame) (j : Nat) (hc : f.recs.length ≤ f.count) : dqIdx (loopNext f j) f = 0 := by
  unfold loopNext; split
  · split <;> rfl
  · exact dqIdx_scanEnd f hc
theorem dqIdx_enqNext (f : Frame) (i : Nat) (res : Bool) (hc : f.recs.length ≤ f.count) : dqIdx (enqNext f i res) f = 0 := by
  unfold enqNext; split
  · rfl
  · split
    · split
      · rfl
      · exact dqIdx_loopNext f 0 hc
    · exact dqIdx_deqNext (Nat.zero_le _) hc
theorem dqIdx_pollFrom (f : Frame) (hr : f.recs = []) (l : List ObjId) (i : Nat) : dqIdx (pollFrom f l i) f = 0 := by
  induction l generalizing i with
  | nil =>
    unfold pollFrom; split
    · simp [dqIdx, hr]
    · split
      · rfl
      · exact dqIdx_enqNext f 0 true (by rw [hr]; exact Nat.zero_le _)
  | cons o rest ih =>
    cases o with
    | cv c => simp only [pollFrom]; exact ih _
    | note n => rfl
    | ctr k => rfl

/-- the caller lands at a plain program point; its records keep their dequeue marks -/
theorem cf_plain {s' : State} {t : Tid} (hp : Plain (s'.pc t) (s'.fr t))
    (hdq : inCall (s'.pc t) = true → (s'.fr t).frees = 0 → ∀ k r, (s'.fr t).recs[k]? = some r →
            ((s'.rcd r).deqd = true ↔ k < dqIdx (s'.pc t) (s'.fr t))) : CF s' t := by
  obtain ⟨h1, h2, h3, h4⟩ := hp
  exact ⟨fun o hh => (by rw [h1] at hh; cases hh), fun r hh => (by rw [h2] at hh; cases hh),
         fun r hh => (by rw [h3] at hh; cases hh), fun o hh => (by rw [h4] at hh; cases hh), hdq⟩

end WaitN
