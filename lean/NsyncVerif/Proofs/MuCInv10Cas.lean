import NsyncVerif.Proofs.MuCInv10Scan
/-
  MuC, Inv10: CAS steps.
-/
namespace NsyncVerif.MuC

macro "cas_case10" t:ident h:ident heq:ident hs:ident : tactic => `(tactic|
  (rcases casWord_ok $hs with ⟨hw, -, hs'⟩ | ⟨-, -, hs'⟩ <;> subst hs' <;>
    first
    | inv10_local $t $h $heq
    | (split <;> inv10_local $t $h $heq)
    | (split <;> first | inv10_local $t $h $heq | (split <;> inv10_local $t $h $heq))))

theorem inv10_stepCasB {s s' : State} {t : Tid} {o : Ord} {loc : Loc} {exp new obs : Nat} {ok : Bool} (h : Inv10 s)
    (hp : match s.pc t with
      | .lkCas0 _ | .lkCas1 _ _ | .tryCas0 _ | .tryCas1 _ _ | .lsCasAcq _ _ | .lsCasEnq _ _ | .lsRelCas _ _ | .ulCas0 _ _ | .ulCas1 _ _ _
      | .usCasUnc _ _ | .mwRelCas _ _ _ | .mtCasWW _ _ | .mtRmCas _ _ _ | .mtCasAcq _ _ | .usFinCas _ _ _ => True
      | _ => False)
    (hs : stepCas s t o loc exp new obs ok = .ok s') : Inv10 s' := by
  unfold stepCas at hs
  split at hs
  all_goals try (rename_i heq; rw [heq] at hp; exact False.elim hp)
  all_goals try (rename_i hne; split at hp <;> first | exact False.elim hp | (exfalso; simp_all; done))
  · rename_i heq; cas_case10 t h heq hs   -- lkCas0
  · rename_i heq; cas_case10 t h heq hs   -- lkCas1
  · rename_i heq; cas_case10 t h heq hs   -- tryCas0
  · rename_i heq; cas_case10 t h heq hs   -- tryCas1
  · -- lsCasAcq
    rename_i c old heq
    rcases casWord_ok hs with ⟨hw, -, hs'⟩ | ⟨-, -, hs'⟩ <;> subst hs'
    · cases hmw : c.mw with
      | none =>
        simp only []
        cases hcw : c.w with
        | none => simp only [dropW]; inv10_local t h heq
        | some k => simp only [dropW]; inv10_local t h heq
      | some m =>
        have hif : ∀ s1 : State, (if m.cond.isSome = true then setPc s1 t (PC.mwEval m) else mwLoop s1 t m true)
            = setPc s1 t (if m.cond.isSome = true then PC.mwEval m else loopPc m true) := by
          intro s1; split <;> simp [mwLoop_eq]
        simp only [hif]
        split <;> inv10_local t h heq
    · inv10_local t h heq
  · rename_i heq; cas_case10 t h heq hs   -- lsCasEnq
  · rename_i heq; cas_case10 t h heq hs   -- lsRelCas
  · rename_i heq; cas_case10 t h heq hs   -- ulCas0
  · rename_i heq; cas_case10 t h heq hs   -- ulCas1
  · rename_i r old heq; simp only [afterWakes_eq] at hs; cases r <;> cas_case10 t h heq hs   -- usCasUnc
  · -- usFinCas
    rename_i r f old heq
    rcases casWord_ok hs with ⟨hw, -, rfl⟩ | ⟨-, -, rfl⟩
    · rw [afterFin_eq]
      refine Inv10.local t h ?_ (by split <;> simp) (by intro x; split <;> simp) (by split <;> simp)
        (by intro u hu; split <;> simp [setFn, hu]) ?_ ?_ ?_ ?_
      · intro k hk
        refine (queued_same (t := t) (by split <;> simp) (by intro u hu; split <;> simp [setFn, hu]) ?_ k).1 hk
        simp only [setPc_pc, setFn_same, heq, finPc_scan]; rfl
      · intro c hc; simp only [setPc_pc, setFn_same] at hc; cases hw' : f.wake <;> cases r <;> simp [hw', finPc, Ret.pc, PC.mwPre] at hc
      · intro c hc; simp only [setPc_pc, setFn_same] at hc; cases hw' : f.wake <;> cases r <;> simp [hw', finPc, Ret.pc, PC.mwRel] at hc
      · intro sc hc; simp only [setPc_pc, setFn_same, finPc_scan] at hc; cases hc
      · intro f' hc; simp only [setPc_pc, setFn_same, finPc_finOf] at hc; cases hc
    · inv10_local t h heq
  · rename_i heq; cas_case10 t h heq hs   -- mwRelCas
  · rename_i heq; cas_case10 t h heq hs   -- mtCasAcq
  · rename_i heq; cas_case10 t h heq hs   -- mtCasWW
  · rename_i heq; ld_case10 t h heq hs    -- mtRmCas

theorem scanPc_mwPre {r : Ret} {late : Bool} {p : PC} (h : ScanPc r late p) : p.mwPre = none := by
  cases p <;> simp [ScanPc] at h <;> rfl
theorem scanPc_mwRel {r : Ret} {late : Bool} {p : PC} (h : ScanPc r late p) : p.mwRel = none := by
  cases p <;> simp [ScanPc] at h <;> rfl
theorem scanPc_late_scan {r : Ret} {late : Bool} {p : PC} {sc : Scan} (h : ScanPc r late p) (hs : p.scan? = some sc) : sc.late = late := by
  cases p <;> simp [ScanPc] at h <;> simp [PC.scan?] at hs <;> subst hs <;> simp [h]
theorem scanPc_late_fin {r : Ret} {late : Bool} {p : PC} {f : Fin} (h : ScanPc r late p) (hs : p.finOf = some f) : f.late = late := by
  cases p <;> simp [ScanPc] at h <;> simp [PC.finOf] at hs <;> subst hs <;> simp [h]

/-- A step of the unlocker `t` that ends in the plain code of the scan. -/
theorem Inv10.scan_step {s s' : State} (t : Tid) (r : Ret) (late : Bool) (h : Inv10 s) (h4' : Inv4 s')
    (hat : ScanAt10 (fun k => PassedW s late k) s' t) (hpt : ScanPc r late (s'.pc t))
    (hwr : ∀ x, (s'.wr x).lType = (s.wr x).lType ∧ (s'.wr x).cond = (s.wr x).cond)
    (hd : s'.data = s.data)
    (hpc : ∀ u, u ≠ t → s'.pc u = s.pc u)
    (hperm : (allOf s' t).Perm (allOf s t))
    (hoth : ∀ u, u ≠ t → (s.pc u).unl = false)
    (hwake : ∀ x, x ∈ (s.pc t).wakeL → x ∈ (s'.pc t).wakeL) : Inv10 s' := by
  have hQ : ∀ k, Queued s' k → Queued s k := fun k hk => queued_of_scan h4' hpc hperm hoth hwake hk
  refine ⟨?_, ?_, ?_, ?_⟩
  · intro u c hu
    rw [hd]
    by_cases e : u = t
    · subst e; rw [scanPc_mwPre hpt] at hu; cases hu
    · rw [hpc u e] at hu; exact h.pcf u c hu
  · intro u c k hu hk hh x hx
    by_cases e : u = t
    · subst e; rw [scanPc_mwRel hpt] at hu; cases hu
    · rw [hpc u e] at hu; exact h.prel u c k hu hk hh x (hQ x hx)
  · intro u sc hu hs
    by_cases e : u = t
    · subst e
      obtain ⟨k, hk, hp⟩ := hat.1 sc hu hs
      rw [scanPc_late_scan hpt hu]
      exact ⟨k, hk, hp.congr (hwr k).1 (hwr k).2 hd⟩
    · rw [hpc u e] at hu
      have := unl_of_scan hu; rw [hoth u e] at this; cases this
  · intro u f hu hs
    by_cases e : u = t
    · subst e
      obtain ⟨k, hk, hp⟩ := hat.2 f hu hs
      rw [scanPc_late_fin hpt hu]
      exact ⟨k, hk, hp.congr (hwr k).1 (hwr k).2 hd⟩
    · rw [hpc u e] at hu
      have := unl_of_fin hu; rw [hoth u e] at this; cases this

theorem passedW_none {s s1 : State} (hl : LnkOnly s s1) (late : Bool) (k : Wid) (h1 : (s1.wr k).lType = .W) (h2 : (s1.wr k).cond = none) :
    PassedW s late k := by
  refine ⟨by rw [← (hl k).2.2.1]; exact h1, Or.inl ?_⟩
  rw [← (hl k).2.2.2.2.1]; exact h2

theorem inv10_stepCasA {s s' : State} {t : Tid} {o : Ord} {loc : Loc} {exp new obs : Nat} {ok : Bool}
    (h1 : Inv1 s) (h3 : Inv3 s) (h4 : Inv4 s) (h4' : Inv4 s') (h : Inv10 s)
    (hp : match s.pc t with
      | .usCasGrab _ _ | .usRelCas _ _ _ | .usReCas _ _ _ | .usRcCas _ _ _ _ => True
      | _ => False)
    (hs : stepCas s t o loc exp new obs ok = .ok s') : Inv10 s' := by
  unfold stepCas at hs
  split at hs
  all_goals try (rename_i heq; rw [heq] at hp; exact False.elim hp)
  all_goals try (rename_i hne; split at hp <;> first | exact False.elim hp | (exfalso; simp_all; done))
  · -- usCasGrab
    rename_i r old heq
    have hok3 := h3.ok3 t; rw [heq] at hok3
    rcases casWordE_ok hs with ⟨hw, -, hs⟩ | ⟨-, -, rfl⟩
    · have hsc0 : Scan.ok { late := old.cond, tc := old.cond, done := [], passed := [], todo := [], wake := [], wt := none,
                            sww := false, saf := true } := fun h => h
      obtain ⟨hf, p, hpc, hsc⟩ := afterPickup_frame hs hsc0
      obtain ⟨hlo, hperm⟩ := afterPickup_lists hs
      have hwk := afterPickup_wake hs
      have hpt : ScanPc r old.cond (s'.pc t) := by rw [hpc]; simpa using hsc
      have hsh : shareOf s t ≠ none := by
        rw [h1.share_eq (by rw [heq]; simp), heq]; simp [pcShare]
      have hoth := no_unl_at_grab h1 h3 hsh (by rw [hw]; exact hok3)
      have hlo' : LnkOnly s s' := fun x => by have := hlo x; simpa using this
      have hat := afterPickup_sww (PW := fun k => PassedW s old.cond k) hs
        (fun s1 hl k a b => passedW_none (s := s) (s1 := s1) (fun x => by have := hl x; simpa using this) _ k a b)
        (by intro e; simp at e)
      refine Inv10.scan_step t r old.cond h h4' hat hpt (fun x => ⟨(hlo' x).2.2.1, (hlo' x).2.2.2.2.1⟩) (by rw [hf.data]; simp)
        (by intro u hu; rw [hpc]; simp [setFn, hu]) ?_ hoth (by intro x hx; rw [heq] at hx; simp [PC.wakeL] at hx)
      refine hperm.trans ?_
      simp [allOf, heq, PC.priv, PC.scan?, PC.wakeL, Scan.lists]
    · inv10_local t h heq
  · -- usRelCas
    rename_i r sc old heq
    have hok1 := h1.pcok t; rw [heq] at hok1
    rcases casWordE_ok hs with ⟨hw, -, hs⟩ | ⟨-, -, rfl⟩
    · obtain ⟨hf, p, hpc, hsc⟩ := scanRun_frame _ _ t r sc s' hs hok1.2
      obtain ⟨hlo, hperm⟩ := scanRun_lists _ _ t r sc s' hs
      have hwk := scanRun_wake _ _ t r sc s' hs
      have hpt : ScanPc r sc.late (s'.pc t) := by rw [hpc]; simpa using hsc
      have hlo' : LnkOnly s s' := fun x => by have := hlo x; simpa using this
      have hat := scanRun_sww (fun k => PassedW s sc.late k) _ _ t r sc s' hs
        (fun k a b => passedW_none (LnkOnly.refl s) _ k a b)
        (fun s1 hl k a b => passedW_none (s := s) (s1 := s1) (fun x => by have := hl x; simpa using this) _ k a b)
        (h.sww t sc (by rw [heq]; rfl))
      refine Inv10.scan_step t r sc.late h h4' hat hpt (fun x => ⟨(hlo' x).2.2.1, (hlo' x).2.2.2.2.1⟩) (by rw [hf.data])
        (by intro u hu; rw [hpc]; simp [setFn, hu]) ?_ ?_ (by intro x hx; rw [heq] at hx; exact hwk x hx)
      · refine hperm.trans ?_
        simp [allOf, heq, PC.priv, PC.scan?, PC.wakeL]
      · intro u hu
        cases e : (s.pc u).unl with
        | false => rfl
        | true => exact absurd (h4.uniq u t e (by rw [heq]; rfl)) hu
    · inv10_local t h heq
  · -- usReCas
    rename_i r sc old heq
    have hok1 := h1.pcok t; rw [heq] at hok1
    rcases casWordE_ok hs with ⟨hw, -, hs⟩ | ⟨-, -, rfl⟩
    · obtain ⟨hf, p, hpc, hsc⟩ := afterPickup_frame hs hok1.2
      obtain ⟨hlo, hperm⟩ := afterPickup_lists hs
      have hwk := afterPickup_wake hs
      have hpt : ScanPc r sc.late (s'.pc t) := by rw [hpc]; simpa using hsc
      have hlo' : LnkOnly s s' := fun x => by have := hlo x; simpa using this
      have hat := afterPickup_sww (PW := fun k => PassedW s sc.late k) hs
        (fun s1 hl k a b => passedW_none (s := s) (s1 := s1) (fun x => by have := hl x; simpa using this) _ k a b)
        (h.sww t sc (by rw [heq]; rfl))
      refine Inv10.scan_step t r sc.late h h4' hat hpt (fun x => ⟨(hlo' x).2.2.1, (hlo' x).2.2.2.2.1⟩) (by rw [hf.data])
        (by intro u hu; rw [hpc]; simp [setFn, hu]) ?_ ?_ (by intro x hx; rw [heq] at hx; exact hwk x hx)
      · refine hperm.trans ?_
        simp [allOf, heq, PC.priv, PC.scan?, PC.wakeL]
      · intro u hu
        cases e : (s.pc u).unl with
        | false => rfl
        | true => exact absurd (h4.uniq u t e (by rw [heq]; rfl)) hu
    · inv10_local t h heq
  · -- usRcCas
    rename_i r sc k old heq
    have hok1 := h1.pcok t; rw [heq] at hok1
    repeat' split at hs
    all_goals first
      | (cases hs; done)
      | skip
    · obtain ⟨hf, p, hpc, hsc⟩ := scanRun_frame _ _ t r sc s' hs hok1.2
      obtain ⟨hlo, hperm⟩ := scanRun_lists _ _ t r sc s' hs
      have hwk := scanRun_wake _ _ t r sc s' hs
      have hpt : ScanPc r sc.late (s'.pc t) := by rw [hpc]; simpa using hsc
      have hlo' : ∀ x, (s'.wr x).lType = (s.wr x).lType ∧ (s'.wr x).cond = (s.wr x).cond := by
        intro x
        have := hlo x
        simp only [setFn] at this
        refine ⟨?_, ?_⟩
        · rw [this.2.2.1]; split <;> simp_all
        · rw [this.2.2.2.2.1]; split <;> simp_all
      have hrc : ∀ s1 : State, LnkOnly { s with wr := setFn s.wr k { s.wr k with rc := new } } s1 → ∀ x,
          (s1.wr x).lType = (s.wr x).lType ∧ (s1.wr x).cond = (s.wr x).cond := by
        intro s1 hl x
        have := hl x
        simp only [setFn] at this
        refine ⟨?_, ?_⟩
        · rw [this.2.2.1]; split <;> simp_all
        · rw [this.2.2.2.2.1]; split <;> simp_all
      have hat := scanRun_sww (fun k => PassedW s sc.late k) _ _ t r sc s' hs
        (fun x a b => ⟨by rw [← (hrc _ (LnkOnly.refl _) x).1]; exact a, Or.inl (by rw [← (hrc _ (LnkOnly.refl _) x).2]; exact b)⟩)
        (fun s1 hl x a b => ⟨by rw [← (hrc s1 hl x).1]; exact a, Or.inl (by rw [← (hrc s1 hl x).2]; exact b)⟩)
        (h.sww t sc (by rw [heq]; rfl))
      refine Inv10.scan_step t r sc.late h h4' hat hpt hlo' (by rw [hf.data])
        (by intro u hu; rw [hpc]; simp [setFn, hu]) ?_ ?_ (by intro x hx; rw [heq] at hx; exact hwk x hx)
      · refine hperm.trans ?_
        simp [allOf, heq, PC.priv, PC.scan?, PC.wakeL]
      · intro u hu
        cases e : (s.pc u).unl with
        | false => rfl
        | true => exact absurd (h4.uniq u t e (by rw [heq]; rfl)) hu
    · cases hs; inv10_local t h heq

end NsyncVerif.MuC
