import NsyncVerif.Proofs.MuX
/-
  Happens-before over the MuX protocol: the release clock of the mutex word always dominates the
  clocks of all past release points, and a writer-bit owner's clock dominates them too (which is what
  makes the plain release-stores of mu_wait.c sound for the release sequence).
-/
namespace NsyncVerif.MuX

theorem VC.le_refl (a : VC) : VC.le a a := fun _ => Nat.le_refl _
theorem VC.le_trans {a b c : VC} (h1 : VC.le a b) (h2 : VC.le b c) : VC.le a c := fun i => Nat.le_trans (h1 i) (h2 i)
theorem VC.le_join_left (a b : VC) : VC.le a (VC.join a b) := fun i => Nat.le_max_left _ _
theorem VC.le_join_right (a b : VC) : VC.le b (VC.join a b) := fun i => Nat.le_max_right _ _
theorem VC.join_le {a b c : VC} (h1 : VC.le a c) (h2 : VC.le b c) : VC.le (VC.join a b) c :=
  fun i => Nat.max_le.mpr ⟨h1 i, h2 i⟩
theorem VC.bot_le (a : VC) : VC.le VC.bot a := fun _ => Nat.zero_le _

structure VInv (s : State) : Prop where
  v1 : VC.le s.released s.relc
  v3 : ∀ t, s.w = some t → VC.le s.released (s.vc t)

theorem vinv_init : VInv init := by
  constructor
  · intro i; simp [init, VC.bot]
  · intro t h; simp [init] at h

/-- the clock a thread has after a write dominates the one it had before, joined with the word's
    release clock if the write is an acquire RMW -/
theorem clocks_vc_self (s : State) (t : Tid) (ord : Ord) (rmw rp : Bool) :
    VC.le (s.vc t) ((clocks s t ord rmw rp).1 t) ∧
    (ord.isAcq = true → rmw = true → VC.le s.relc ((clocks s t ord rmw rp).1 t)) := by
  unfold clocks
  simp only [setFn]
  constructor
  · intro i
    simp only [if_true]
    split <;> split <;> simp [VC.join] <;> omega
  · intro ha hr i
    simp only [if_true, ha, hr, Bool.and_self]
    split <;> simp [VC.join] <;> omega

theorem clocks_vc_other (s : State) (t u : Tid) (ord : Ord) (rmw rp : Bool) (h : u ≠ t) :
    (clocks s t ord rmw rp).1 u = s.vc u := by
  unfold clocks
  simp [setFn, h]

theorem lockPart_w {s : State} {t : Tid} {d : LockDelta} {w' : Option Tid} {rs' : List Tid}
    (h : lockPart s t d = .ok (w', rs')) :
    (w' = s.w ∧ (d = .same ∨ d = .addR ∨ d = .subR)) ∨
    (w' = some t ∧ (d = .addW ∨ d = .r2w)) ∨
    (w' = none ∧ s.w = some t ∧ (d = .subW ∨ d = .w2r)) := by
  cases d <;> simp only [lockPart] at h
  · cases h; left; exact ⟨rfl, Or.inl rfl⟩
  · split at h
    · cases h; right; left; exact ⟨rfl, Or.inl rfl⟩
    · cases h
  · split at h
    · cases h; left; exact ⟨rfl, Or.inr (Or.inl rfl)⟩
    · cases h
  · split at h
    · rename_i hc; cases h; right; right; exact ⟨rfl, hc.1, Or.inl rfl⟩
    · cases h
  · split at h
    · cases h; left; exact ⟨rfl, Or.inr (Or.inr rfl)⟩
    · cases h
  · split at h
    · cases h; right; left; exact ⟨rfl, Or.inr rfl⟩
    · cases h
  · split at h
    · rename_i hc; cases h; right; right; exact ⟨rfl, hc.1, Or.inr rfl⟩
    · cases h

/-- A release point by `t` while another thread owns the writer bit is impossible. -/
theorem no_release_under_writer {s : State} (hi : Inv s) {t u : Tid} (hu : s.w = some u) (hne : u ≠ t)
    {d : LockDelta} {w' : Option Tid} {rs' : List Tid} (h : lockPart s t d = .ok (w', rs'))
    (hrp : isReleasePoint d = true) : False := by
  cases d <;> simp [isReleasePoint] at hrp
  · simp only [lockPart] at h
    split at h
    · rename_i hc; rw [hu] at hc; exact hne (by injection hc.1)
    · cases h
  · simp only [lockPart] at h
    split at h
    · rename_i hc
      have := hi.wx (by rw [hu]; rfl)
      rw [this] at hc; exact absurd hc.1 (by simp)
    · cases h

theorem applyWrite_vinv {s s' : State} {t : Tid} {new : Nat} {ord : Ord} {rmw : Bool} (hi : Inv s) (hv : VInv s)
    (hst : rmw = false → s.w = some t ∧ ord.isRel = true)
    (h : applyWrite s t new ord rmw = .ok s') : VInv s' := by
  unfold applyWrite at h
  simp only at h
  split at h
  · cases h
  · rename_i ld hld
    split at h
    · cases h
    · rename_i w' rs' hr1
      split at h
      · cases h
      · rename_i hacq
        split at h
        · cases h
        · rename_i hrel
          -- facts about the clocks, independent of the spin part
          have key : VC.le (clocks s t ord rmw (isReleasePoint ld)).2.2 (clocks s t ord rmw (isReleasePoint ld)).2.1 ∧
              (∀ u, w' = some u → VC.le (clocks s t ord rmw (isReleasePoint ld)).2.2 ((clocks s t ord rmw (isReleasePoint ld)).1 u)) := by
            have hw := lockPart_w hr1
            have hself := clocks_vc_self s t ord rmw (isReleasePoint ld)
            constructor
            · -- V1
              cases hr : rmw with
              | true =>
                cases hrp : isReleasePoint ld with
                | true =>
                  have hnr : needsRel ld (spinDelta (decode s.word) (decode new)) = true := by
                    cases ld <;> simp [isReleasePoint] at hrp <;> simp [needsRel]
                  have hor : ord.isRel = true := by
                    cases ho : ord.isRel with
                    | true => rfl
                    | false => simp [hnr, ho] at hrel
                  intro i
                  simp only [clocks, hr, hor, if_true]
                  have := hv.v1 i
                  simp [VC.join]; omega
                | false =>
                  intro i
                  have h1 := hv.v1 i
                  by_cases hor : ord.isRel = true
                  · simp only [clocks, hor, if_true]
                    exact Nat.le_trans h1 (Nat.le_max_left _ _)
                  · have hor' : ord.isRel = false := by cases h : ord.isRel <;> simp_all
                    simp only [clocks, hor', if_true]
                    exact h1
              | false =>
                obtain ⟨hwt, hor⟩ := hst hr
                have h3 := hv.v3 t hwt
                intro i
                simp only [clocks, hr, hor, if_true]
                have := h3 i
                split <;> simp [VC.join] <;> omega
            · -- V3
              intro u hu
              by_cases hut : u = t
              · subst hut
                -- released' ≤ vc' u
                have hrp : isReleasePoint ld = false := by
                  rcases hw with ⟨_, h | h | h⟩ | ⟨_, h | h⟩ | ⟨hn, _, _⟩
                  · subst h; rfl
                  · subst h; rfl
                  · subst h
                    -- subR with w' = s.w = some u: impossible, but harmless: show contradiction
                    exfalso
                    simp only [lockPart] at hr1
                    split at hr1
                    · rename_i hc
                      cases hr1
                      have := hi.wx (by rw [hu]; rfl)
                      rw [this] at hc; exact absurd hc.1 (by simp)
                    · cases hr1
                  · subst h; rfl
                  · subst h; rfl
                  · rw [hn] at hu; cases hu
                rw [hrp]
                have hrel0 : (clocks s u ord rmw false).2.2 = s.released := by simp [clocks]
                rw [hrel0]
                rcases hw with ⟨hsame, _⟩ | ⟨_, hd⟩ | ⟨hn, _, _⟩
                · rw [hsame] at hu
                  exact VC.le_trans (hv.v3 u hu) (by rw [← hrp]; exact hself.1)
                · -- addW / r2w: acquire RMW
                  have hna : needsAcq ld (spinDelta (decode s.word) (decode new)) = true := by
                    rcases hd with h | h <;> subst h <;> simp [needsAcq]
                  have hoa : ord.isAcq = true := by
                    cases ho : ord.isAcq with
                    | true => rfl
                    | false => simp [hna, ho] at hacq
                  have hrm : rmw = true := by
                    cases hr : rmw with
                    | true => rfl
                    | false =>
                      obtain ⟨hwt, _⟩ := hst hr
                      -- a store by the writer-bit owner cannot be addW / r2w (they need share none / R)
                      exfalso
                      rcases hd with h | h <;> subst h <;> simp only [lockPart] at hr1
                      · split at hr1
                        · rename_i hsh; have := (shareOf_none hsh).1; exact this hwt
                        · cases hr1
                      · split at hr1
                        · rename_i hc
                          have := hi.wx (by rw [hwt]; rfl)
                          rw [this] at hc; exact absurd hc.1 (by simp)
                        · cases hr1
                  exact VC.le_trans hv.v1 (by rw [← hrp]; exact hself.2 hoa hrm)
                · rw [hn] at hu; cases hu
              · -- another thread owns the writer bit after the write: it did before
                have hwu : s.w = some u := by
                  rcases hw with ⟨hsame, _⟩ | ⟨ht, _⟩ | ⟨hn, _, _⟩
                  · rw [hsame] at hu; exact hu
                  · rw [ht] at hu; injection hu with h; exact absurd h.symm hut
                  · rw [hn] at hu; cases hu
                have hrp : isReleasePoint ld = false := by
                  cases hrp : isReleasePoint ld with
                  | false => rfl
                  | true => exact absurd (no_release_under_writer hi hwu hut hr1 hrp) id
                rw [hrp, clocks_vc_other s t u ord rmw false hut]
                have hrel0 : (clocks s t ord rmw false).2.2 = s.released := by simp [clocks]
                rw [hrel0]
                exact hv.v3 u hwu
          -- now the spin part: it does not touch the clocks
          generalize hck : clocks s t ord rmw (isReleasePoint ld) = ck at h key
          obtain ⟨vc', relc', released'⟩ := ck
          simp only at h key
          split at h
          · cases h; exact ⟨key.1, key.2⟩
          · split at h
            · cases h; exact ⟨key.1, key.2⟩
            · cases h
          · split at h
            · cases h; exact ⟨key.1, key.2⟩
            · cases h

theorem step_vinv {s s' : State} {e : Ev} (hi : Inv s) (hv : VInv s) (h : step s e = .ok s') : VInv s' := by
  cases e with
  | ld t v => simp [step] at h; split at h <;> cases h; exact hv
  | casFail t exp obs => simp [step] at h; split at h <;> cases h; exact hv
  | cas t exp new ord =>
    simp only [step] at h
    split at h
    · split at h
      · cases h
      · exact applyWrite_vinv hi hv (by intro hc; cases hc) h
    · cases h
  | st t new ord =>
    simp only [step] at h
    split at h
    · rename_i hc
      split at h
      · cases h
      · split at h
        · rename_i ho
          exact applyWrite_vinv hi hv (fun _ => ⟨hc.2, ho⟩) h
        · cases h
    · cases h
  | call t c =>
    simp only [step] at h
    split at h
    · cases h
    · cases c <;> simp only at h <;> first | (cases h; exact ⟨hv.v1, hv.v3⟩) | (split at h <;> first | (cases h; exact ⟨hv.v1, hv.v3⟩) | cases h)
  | ret t ok =>
    simp only [step] at h
    split at h
    · cases h
    · split at h
      · split at h
        · cases h; exact ⟨hv.v1, hv.v3⟩
        · cases h
      · split at h
        · cases h; exact ⟨hv.v1, hv.v3⟩
        · cases h
    · split at h
      · cases h; exact ⟨hv.v1, hv.v3⟩
      · cases h
    · split at h
      · cases h; exact ⟨hv.v1, hv.v3⟩
      · cases h
    · split at h
      · cases h; exact ⟨hv.v1, hv.v3⟩
      · cases h
  | annAcq t l =>
    simp only [step] at h
    split at h
    · cases h
    split at h
    · cases h; exact ⟨hv.v1, hv.v3⟩
    · cases h
  | annRel t l =>
    simp only [step] at h
    split at h
    · cases h
    split at h
    · cases h; exact ⟨hv.v1, hv.v3⟩
    · cases h

theorem run_inv_vinv {s s' : State} {evs : List Ev} (hi : Inv s) (hv : VInv s) (h : run s evs = .ok s') :
    Inv s' ∧ VInv s' := by
  induction evs generalizing s with
  | nil => simp [run] at h; cases h; exact ⟨hi, hv⟩
  | cons e es ih =>
    simp only [run] at h
    split at h
    · rename_i s1 hs1; exact ih (step_inv hi hs1) (step_vinv hi hv hs1) h
    · cases h

theorem reachable_vinv {s : State} (h : Reachable s) : VInv s := by
  obtain ⟨evs, he⟩ := h
  exact (run_inv_vinv inv_init vinv_init he).2

end NsyncVerif.MuX
