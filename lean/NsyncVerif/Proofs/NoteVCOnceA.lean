/-
  Layer `Note`: towards "each `notified` flag is stored at most once" (facts about the acceptor
  alone).  Part A: the EARLY creation phase of a note — from its `malloc` until its creator has
  either linked it under its parent, or stored its flag (note.c/7), or is about to return it — and
  the notes that are past it for good (`NE`); users of a note are users of a published note.
-/
import NsyncVerif.Proofs.NoteVCStep
import NsyncVerif.Proofs.NoteInvU

set_option linter.unusedSimpArgs false

namespace Note

/-- The note this thread is creating and has neither linked nor finished with yet. -/
def PC.early : PC → Option NoteId
  | .dl _ n _ k => bif k.isNew then some n else none
  | .nfy _ n _ k => bif k.isNew then some n else none
  | .chd _ _ top => bif top.k.isNew then some top.n else none
  | .newP pos n _ _ =>
    match pos with
    | .lockCall | .lockRet | .ld | .st => some n
    | _ => none
  | _ => none

theorem early_creating {pc : PC} {k : NoteId} (h : pc.early = some k) : pc.creating = some k := by
  cases pc <;> simp [PC.early] at h ⊢
  all_goals (try exact h)
  rename_i pos n p dl
  cases pos <;> simp at h <;> exact h

@[simp] theorem early_afterDeadlinePc (n : NoteId) (nt : Dl) (k : DK) :
    (afterDeadlinePc n nt k).early =
      match k with
      | .newSelf (some _) _ => if nt.pos then some n else none
      | _ => none := by
  cases k with
  | isNotified => simp [afterDeadlinePc, PC.early]
  | notifyApi => by_cases h : nt.pos <;> simp [afterDeadlinePc, h, PC.early]
  | newSelf par dl => by_cases h : nt.pos <;> cases par <;> simp [afterDeadlinePc, h, PC.early]
  | ready1 wdl => by_cases h : nt.pos ∧ wdl.pos <;> simp [afterDeadlinePc, h, PC.early]
  | ready2 r wdl => by_cases h : (Dl.min wdl nt).pos <;> simp [afterDeadlinePc, h, PC.early]
  | dequeue r wdl => simp [afterDeadlinePc, PC.early]

@[simp] theorem early_afterNotifyPc (n : NoteId) (k : NK) : (afterNotifyPc n k).early = none := by
  cases k with
  | ofApi => rfl
  | ofDeadline dk =>
    simp only [afterNotifyPc, early_afterDeadlinePc]
    cases dk with
    | newSelf par dl => cases par <;> simp [Dl.pos]
    | _ => rfl

@[simp] theorem early_childReturnPc (f : Frame) (rest : List Frame) (top : Top) :
    (childReturnPc f rest top).early = bif top.k.isNew then some top.n else none := by
  unfold childReturnPc
  cases rest with
  | cons g gs => rfl
  | nil => cases h : top.par <;> rfl

@[simp] theorem early_childLoopStartPc (cs : List NoteId) (f : Frame) (rest : List Frame)
    (top : Top) :
    (childLoopStartPc cs f rest top).early = bif top.k.isNew then some top.n else none := by
  cases cs <;> rfl

@[simp] theorem early_childWakeNextPc (s : State) (f : Frame) (rest : List Frame) (top : Top) :
    (childWakeNextPc s f rest top).early = bif top.k.isNew then some top.n else none := by
  unfold childWakeNextPc; split
  · rfl
  · simp

@[simp] theorem early_freeLoopStartPc (cs : List NoteId) (n : NoteId) (par : Option NoteId) :
    (freeLoopStartPc cs n par).early = none := by
  cases cs <;> rfl

theorem early_of_after {pos : DPos} {n : NoteId} {nt nt' : Dl} {dk : DK} {k : NoteId}
    (h : (afterDeadlinePc n nt dk).early = some k) : (PC.dl pos n nt' dk).early = some k := by
  rw [early_afterDeadlinePc] at h
  cases dk with
  | newSelf par dl =>
    cases par with
    | none => simp at h
    | some p =>
      simp only at h
      split at h
      · simpa [PC.early] using h
      · cases h
  | _ => simp at h

/-- NE: the note is allocated and no thread is in the early phase of creating it. -/
def NE (s : State) (k : NoteId) : Prop :=
  (s.notes k).allocated = true ∧ ∀ a, (s.pc a).early ≠ some k

/-- A thread enters the early phase of a note only by the `malloc` that allocates it. -/
theorem step_early {s s' : State} {e : Event} (hs : step s e = .ok s') (a : Tid)
    (ha : e.actor = some a) (k : NoteId) (h : (s'.pc a).early = some k) :
    (s.pc a).early = some k ∨ (s.notes k).allocated = false := by
  cases e
  all_goals step_cases hs
  all_goals simp only [Event.actor, Option.some.injEq, reduceCtorEq] at ha
  all_goals (try subst ha)
  all_goals (try (left; rw [‹s.pc _ = _›]; exact h))
  all_goals (try (simp only [setPc_pc, upd_same, afterDeadline_pc, afterNotify_pc, childReturn_pc,
    childWakeNext_pc, childScanStart_pc, freeLoopStart_pc, enterChild_pc, leave_pc, addUser_pc, markCalled_pc,
    markFreeing_pc, setAfter_pc, pushObs_pc, publish_pc, delUser_pc, markBorn_pc, allocNote_pc] at h))
  all_goals (try (exact Or.inl (by rw [‹s.pc _ = _›]; exact early_of_after h)))
  all_goals (try simp only [early_afterNotifyPc, early_childReturnPc,
    early_childLoopStartPc, early_childWakeNextPc, early_freeLoopStartPc] at h)
  all_goals (try (cases h; done))
  all_goals (try (simp [PC.early] at h; done))
  all_goals (try (left; rw [‹s.pc _ = _›]; simpa [PC.early] using h))
  all_goals (try (exact Or.inl h))
  · rename_i hfresh
    right
    simp [PC.early] at h
    rw [← h]; exact hfresh

/-- NE is stable: allocation is for ever, and the early phase of `k` can only be entered by the
    `malloc` of `k`. -/
theorem NE.step {s s' : State} {e : Event} (hs : step s e = .ok s') {k : NoteId} (h : NE s k) :
    NE s' k := by
  refine ⟨(step_stable hs).alloc k h.1, ?_⟩
  intro a he
  by_cases ha : e.actor = some a
  · rcases step_early hs a ha k he with h1 | h1
    · exact h.2 a h1
    · rw [h.1] at h1; cases h1
  · rw [step_pc_other hs a ha] at he
    exact h.2 a he

/-- A thread becomes a user of a note only by an API call on a live (hence published) note. -/
theorem step_users_pub {s s' : State} {e : Event} (hs : step s e = .ok s') (t : Tid) (n : NoteId)
    (h : t ∈ s'.users n) : t ∈ s.users n ∨ s.published n = true := by
  cases e
  all_goals step_cases hs
  all_goals (try (left; exact h))
  all_goals (try (left; simpa using h))
  all_goals (repeat' split at h)
  all_goals (try (left; simpa using h))
  all_goals (try (
    simp only [setPc_users, addUser_users, markCalled_users, markFreeing_users, setAfter_users,
      pushObs_users, publish_users, leave_users, upd_apply] at h
    split at h
    · next hn =>
      subst hn
      first
        | (right; exact (by assumption : s.Live _).2.1)
        | (left; exact List.mem_of_mem_erase h)
    · left; exact h))

/-- Users of a note are users of a note that `nsync_note_new` has returned. -/
def InvUP (s : State) : Prop := ∀ t n, t ∈ s.users n → s.published n = true

theorem InvUP.init : InvUP Note.init := by
  intro t n h; simp [Note.init] at h

theorem step_invUP {s s' : State} {e : Event} (h : InvUP s) (hs : step s e = .ok s') : InvUP s' := by
  intro t n ht
  rcases step_users_pub hs t n ht with h1 | h1
  · exact (step_stable hs).published n (h t n h1)
  · exact (step_stable hs).published n h1

theorem Reachable.invUP {s : State} (h : Reachable s) : InvUP s := by
  refine Reachable.induction (P := InvUP) InvUP.init ?_ s h
  intro s e s' _ hi hs
  exact step_invUP hi hs

/-- The note an API call was made on (not the note being created) is published. -/
theorem Reachable.arg_published {s : State} (hr : Reachable s) {t : Tid} {n : NoteId}
    (h : (s.pc t).arg = some n) : s.published n = true :=
  hr.invUP t n ((hr.invU.users t n).mpr h)

end Note
