import NsyncVerif.Proofs.MuQLeads
/-
  MuQ (C02): every reachable state can be completed.

  `drain`: from every reachable state there is a finite schedule without any new acquisition call
  (every `call` in it is the unlock / runlock of a holder), without environment events, at the end
  of which EVERY thread is idle holding nothing: every pending lock / rlock / trylock / rtrylock /
  unlock / runlock has returned, every sleeper has been woken, acquired and released.  Here fresh
  contenders move too (unlike in `leads_to_wake`).
-/
namespace NsyncVerif.MuQ

/-- The step is taken by a thread that is not idle-holding-nothing: no new acquisition, no
    environment event. -/
def NoNewCall (s : State) (e : Event) : Prop := ∃ u, e.tid = some u ∧ ¬ IdleHoldingNothing s u

theorem RunP.mono {cfg : Cfg} {P Q : State → Event → Prop} {s s' : State} {evs : List Event}
    (h : RunP cfg P s evs s') (hpq : ∀ s e, P s e → Q s e) : RunP cfg Q s evs s' := by
  induction h with
  | nil s => exact .nil s
  | cons hp hs _ ih => exact .cons (hpq _ _ hp) hs ih

theorem quiet_noNewCall (s : State) (e : Event) (h : QuietStep s e) : NoNewCall s e := by
  obtain ⟨u, h1, _, h3⟩ := h; exact ⟨u, h1, h3⟩

/-- Any acquiring thread (fresh or not), with the spinlock free or its own, can be run alone until
    it has returned or is asleep. -/
theorem solo_acq_exists_any {cfg : Cfg} {s : State} {u : Tid} (hr : Reachable cfg s)
    (hpc : acqPc (s.pc u) = true) (hsp : s.sp = none ∨ s.sp = some u) :
    ∃ evs s', RunP cfg NoNewCall s evs s' ∧ (s'.pc u = .idle ∨ AsleepOnSem s' u) ∧ FrameA u s s' := by
  obtain ⟨M, hM⟩ := reachable_semBound hr
  refine runP_wf (cfg := cfg) (P := NoNewCall)
    (fun s => Reachable cfg s ∧ (∀ k, (s.wr k).sem ≤ M) ∧ acqPc (s.pc u) = true ∧ (s.sp = none ∨ s.sp = some u))
    (fun s => s.pc u = .idle ∨ AsleepOnSem s u) (FrameA u) (fun s => acqRank M s.word s.wr (s.pc u))
    (FrameA.refl u) (fun _ _ _ => FrameA.trans) ?_ _ s (Nat.le_refl _) ⟨hr, hM, hpc, hsp⟩
  intro s ⟨hr, hM, hpc, hsp⟩ htgt
  have hne : s.pc u ≠ .idle := fun h => htgt (Or.inl h)
  have hna : ¬ AsleepOnSem s u := fun h => htgt (Or.inr h)
  obtain ⟨e, he, _, _, s', hs⟩ := thread_enabled hr hne hna
  refine ⟨e, s', ⟨u, he, fun h => hne h.1⟩, hs,
    ⟨step_frame hs he, fun t ht => acq_step_asleep_other hr hpc he hs ht⟩, ?_⟩
  rcases solo_acq_step hr hM hpc hsp he hs with hid | ⟨hM', hpc', hsp', hrk⟩
  · exact Or.inl (Or.inl hid)
  · exact Or.inr ⟨⟨reachable_step hr hs, hM', hpc', hsp'⟩, hrk⟩

/-- A thread the draining schedule can run next. -/
def MoverAny (s : State) (u : Tid) : Prop :=
  ¬ AsleepOnSem s u ∧ (s.sp = none ∨ s.sp = some u) ∧
    ((acqPc (s.pc u) = true ∧ retPc (s.pc u) = false) ∨ HolderLike s u)

theorem classify {s : State} {t : Tid} (h : ¬ IdleHoldingNothing s t) :
    (acqPc (s.pc t) = true ∧ retPc (s.pc t) = false) ∨ HolderLike s t := by
  cases hp : s.pc t
  case idle =>
    right; left
    exact ⟨hp, fun hn => h ⟨hp, hn⟩⟩
  all_goals first
    | (left; exact ⟨rfl, rfl⟩)
    | (right; right; left; simp [hp, retPc]; done)
    | (right; right; right; simp [hp, relPc]; done)

theorem exists_moverAny {cfg : Cfg} {s : State} (hr : Reachable cfg s) {t : Tid}
    (hnd : ¬ IdleHoldingNothing s t) (hna : ¬ AsleepOnSem s t) : ∃ u, MoverAny s u := by
  have inv := reachable_inv hr
  cases hsp : s.sp with
  | none => exact ⟨t, hna, Or.inl hsp, classify hnd⟩
  | some v =>
    have hv : (role (s.pc v)).spin = true := (inv.spin.own v).1 hsp
    have hnd' : ¬ IdleHoldingNothing s v := by
      rintro ⟨h1, _⟩; rw [h1] at hv; cases hv
    have hna' : ¬ AsleepOnSem s v := by
      rintro ⟨c, k, hp, _⟩; rw [hp] at hv; cases hv
    exact ⟨v, hna', Or.inr hsp, classify hnd'⟩

theorem stage_of_acq {s : State} {t : Tid} (h1 : acqPc (s.pc t) = true) (h2 : retPc (s.pc t) = false) :
    stage s t = 3 := by
  cases hp : s.pc t <;> simp [hp, acqPc, retPc] at h1 h2 <;> simp [stage, hp]

theorem roundAny {cfg : Cfg} {s : State} {L : List Tid} {u : Tid} (hr : Reachable cfg s) (hc : Cover L s)
    (hm : MoverAny s u) :
    ∃ evs s', RunP cfg NoNewCall s evs s' ∧ Cover L s' ∧
      (sumOver (stage s') L < sumOver (stage s) L ∨
        (sumOver (stage s') L ≤ sumOver (stage s) L ∧ sumOver (awake3 s') L < sumOver (awake3 s) L)) := by
  obtain ⟨hna, hsp, hcls⟩ := hm
  rcases hcls with ⟨hacq, hnret⟩ | hl
  · have hst : stage s u = 3 := stage_of_acq hacq hnret
    have huL : u ∈ L := by
      apply Classical.byContradiction; intro hn
      have := (hc u hn).1; rw [this] at hacq; cases hacq
    obtain ⟨evs, s', hrun, htgt, hf, hfa⟩ := solo_acq_exists_any hr hacq hsp
    refine ⟨evs, s', hrun, cover_frame hc hf huL, ?_⟩
    have hothers : ∀ t ∈ L, stage s' t ≤ stage s t := by
      intro t _
      by_cases htu : t = u
      · subst htu; rw [hst]; exact stage_le _ _
      · rw [stage_congr (hf t htu).1 (hf t htu).2]; exact Nat.le_refl _
    rcases htgt with hid | hasl
    · left
      exact sumOver_lt L hothers u huL (by rw [hst]; have := stage_idle_le hid; omega)
    · right
      refine ⟨sumOver_le L hothers, ?_⟩
      have hothersB : ∀ t ∈ L, awake3 s' t ≤ awake3 s t := by
        intro t _
        by_cases htu : t = u
        · subst htu
          have h1 : awake3 s' t = 0 := by
            simp [awake3, (asleepB_iff s' t).2 hasl]
          rw [h1]; exact Nat.zero_le _
        · rw [awake3_congr (hf t htu).1 (hf t htu).2 (hfa t htu)]; exact Nat.le_refl _
      refine sumOver_lt L hothersB u huL ?_
      have h1 : awake3 s' u = 0 := by simp [awake3, (asleepB_iff s' u).2 hasl]
      have h2 : awake3 s u = 1 := by
        have : asleepB s u = false := by
          cases hx : asleepB s u with
          | false => rfl
          | true => exact absurd ((asleepB_iff s u).1 hx) hna
        simp [awake3, hst, this]
      omega
  · have hst := stage_of_holderLike hl
    have huL : u ∈ L := by
      apply Classical.byContradiction; intro hn
      obtain ⟨h1, h2⟩ := hc u hn
      have := stage_done h1 h2; omega
    obtain ⟨evs, s', hrun, hid, hh, hf⟩ := holder_release_exists hr hl hsp
    refine ⟨evs, s', hrun.mono quiet_noNewCall, cover_frame hc hf huL, Or.inl ?_⟩
    have hothers : ∀ t ∈ L, stage s' t ≤ stage s t := by
      intro t _
      by_cases htu : t = u
      · subst htu; rw [stage_done hid hh]; exact Nat.zero_le _
      · rw [stage_congr (hf t htu).1 (hf t htu).2]; exact Nat.le_refl _
    exact sumOver_lt L hothers u huL (by rw [stage_done hid hh]; omega)

theorem drain_loop {cfg : Cfg} {L : List Tid} : ∀ (n : Nat) (s : State),
    sumOver (stage s) L * (L.length + 1) + sumOver (awake3 s) L ≤ n →
    Reachable cfg s → Cover L s →
    ∃ evs s', RunP cfg NoNewCall s evs s' ∧ ∀ t, IdleHoldingNothing s' t := by
  intro n
  induction n with
  | zero =>
    intro s hn hr hc
    by_cases hall : ∀ t, IdleHoldingNothing s t ∨ AsleepOnSem s t
    · exact ⟨[], s, .nil s, no_stuck_state hr hall⟩
    · exfalso
      have ⟨t, ht⟩ := Classical.not_forall.1 hall
      obtain ⟨u, hm⟩ := exists_moverAny hr (fun h => ht (Or.inl h)) (fun h => ht (Or.inr h))
      obtain ⟨evs, s', hrun, hc', hdec⟩ := roundAny hr hc hm
      have hA0 : sumOver (stage s) L * (L.length + 1) = 0 := by omega
      have hB0 : sumOver (awake3 s) L = 0 := by omega
      rcases hdec with h | ⟨_, h⟩
      · have : sumOver (stage s) L = 0 := by
          rcases Nat.mul_eq_zero.1 hA0 with h0 | h0
          · exact h0
          · omega
        omega
      · omega
  | succ n ih =>
    intro s hn hr hc
    by_cases hall : ∀ t, IdleHoldingNothing s t ∨ AsleepOnSem s t
    · exact ⟨[], s, .nil s, no_stuck_state hr hall⟩
    · have ⟨t, ht⟩ := Classical.not_forall.1 hall
      obtain ⟨u, hm⟩ := exists_moverAny hr (fun h => ht (Or.inl h)) (fun h => ht (Or.inr h))
      obtain ⟨evs, s', hrun, hc', hdec⟩ := roundAny hr hc hm
      have hmeas : sumOver (stage s') L * (L.length + 1) + sumOver (awake3 s') L ≤ n := by
        have hb' : sumOver (awake3 s') L ≤ 1 * L.length := sumOver_bound (awake3_le s') L
        rcases hdec with h | ⟨h1, h2⟩
        · have h3 : (sumOver (stage s') L + 1) * (L.length + 1) ≤ sumOver (stage s) L * (L.length + 1) :=
            Nat.mul_le_mul_right _ h
          rw [Nat.succ_mul] at h3
          omega
        · have h3 : sumOver (stage s') L * (L.length + 1) ≤ sumOver (stage s) L * (L.length + 1) :=
            Nat.mul_le_mul_right _ h1
          omega
      obtain ⟨evs2, s'', hrun2, hdone⟩ := ih s' hmeas (hrun.reachable hr) hc'
      exact ⟨evs ++ evs2, s'', hrun.append hrun2, hdone⟩

/-- Every reachable state can be completed. -/
theorem drain {cfg : Cfg} {s : State} (hr : Reachable cfg s) :
    ∃ evs s', RunP cfg NoNewCall s evs s' ∧ ∀ t, IdleHoldingNothing s' t := by
  obtain ⟨L, hL⟩ := reachable_cover hr
  exact drain_loop _ s (Nat.le_refl _) hr hL

end NsyncVerif.MuQ
