/-
  Proofs/WaitNFairStep2.lean — WaitN layer, liveness: `Prog` for the enqueue / dequeue step functions.
-/
import NsyncVerif.Proofs.WaitNFairStep1

set_option linter.unusedSimpArgs false
set_option linter.unusedVariables false

namespace WaitN

/-- closes `Prog s s' t e` at an accepting leaf `h` of a step function (`hpc`: the program point before) -/
macro "prog_leaf" hpc:ident h:ident : tactic => `(tactic| first
  | exact prog_dflt $h
  | (cases $h:ident; exact Prog.stutter rfl rfl (frSame_refl _))
  | (cases $h:ident
     refine Prog.dec ?_ ?_ ?_ <;> first
       | (simp; done)
       | (simp [rk, $hpc:ident, rank, base, ndR, enqR, cvEnqR, cvDeqR, deqR, Frame.count]; done)
       | (simp [rk, $hpc:ident, rank, base, ndR, enqR, cvEnqR, cvDeqR, deqR, Frame.count]; omega)))

theorem prog_stepEnq {s s' : State} {t : Tid} {i : Nat} {st : EnqSt} {e : Ev} (hpc : s.pc t = .wEnq i st)
    (h : stepEnq s t i st e = .ok s') : Prog s s' t e := by
  unfold stepEnq at h
  split_ok h
  all_goals first
    | prog_leaf hpc h
    | exact prog_afterEnq (by simp [rk, hpc, rank, enqR]) h

theorem prog_stepEnqCv {s s' : State} {t : Tid} {i : Nat} {st : CvEnqSt} {e : Ev} (hpc : s.pc t = .wEnqCv i st)
    (h : stepEnqCv s t i st e = .ok s') : Prog s s' t e := by
  unfold stepEnqCv at h
  split_ok h
  all_goals first
    | prog_leaf hpc h
    | exact prog_spinAcq (mk := fun x => .wEnqCv i (.spin x)) hpc (fun _ => rfl) (fun _ _ _ => rfl) (fun _ _ _ _ => rfl)
        (fun _ _ _ => by simp [rank, cvEnqR]) h
    | exact Prog.congr (s0 := s.setObj _ _) rfl rfl rfl (prog_afterEnq (by simp [rk, hpc, rank, cvEnqR]) h)

theorem prog_stepDeq {s s' : State} {t : Tid} {j : Nat} {st : DeqSt} {e : Ev} (hpc : s.pc t = .wDeq j st)
    (h : stepDeq s t j st e = .ok s') : Prog s s' t e := by
  unfold stepDeq at h
  split_ok h
  all_goals first
    | prog_leaf hpc h
    | exact prog_deqDone (lt_count_of_objs ‹_›) (by simp [rk, hpc, rank, deqR]) h

theorem prog_stepDeqCv {s s' : State} {t : Tid} {j : Nat} {st : CvDeqSt} {e : Ev} (hpc : s.pc t = .wDeqCv j st)
    (h : stepDeqCv s t j st e = .ok s') : Prog s s' t e := by
  unfold stepDeqCv at h
  split_ok h
  all_goals first
    | prog_leaf hpc h
    | exact prog_spinAcq (mk := fun x => .wDeqCv j (.spin x)) hpc (fun _ => rfl) (fun _ _ _ => rfl) (fun _ _ _ _ => rfl)
        (fun _ _ _ => by simp [rank, cvDeqR]) h
    | exact Prog.congr (s0 := (s.setObj _ _).setRec _ _) rfl rfl rfl
        (prog_deqDone (lt_count_of_objs ‹_›) (by simp [rk, hpc, rank, cvDeqR]) h)
    | exact Prog.congr (s0 := s.setRec _ _) rfl rfl rfl
        (prog_deqDone (lt_count_of_objs ‹_›) (by simp [rk, hpc, rank, cvDeqR]) h)

end WaitN
