import NsyncVerif.Proofs.MuCInv7
/-
  MuC, MU_ALL_FALSE: tactics for the steps that are local for the invariant; load steps.
-/
namespace NsyncVerif.MuC

/-- `s'.word.af → s.word.af` for the word updates that keep or clear MU_ALL_FALSE -/
macro "word_af" : tactic => `(tactic|
  first
  | (simp; done)
  | (simp_all [acqWord, addWord, relUncWord, relNwWord, subWord, Word.zero, enqWord, mwEnqWord, mtAcqWord, grabWord]; done)
  | (simp_all [acqWord, addWord, relUncWord, relNwWord, subWord, Word.zero, enqWord, mwEnqWord, mtAcqWord, grabWord] <;>
      (repeat' split) <;> simp_all))

macro "pc_fact" heq:ident : tactic => `(tactic|
  (try rw [$heq:ident]
   (simp_all [PC.firstW, PC.mwPost, PC.susp, PC.nonLate, PC.scan?, PC.reScan, PC.finOf, PC.mtOld, PC.enqPend, Ret.mw?, Ret.dirty, setFn, loopPc, finPc,
      Ret.pc, SL.entry, SL.fromWait, SL.woken]) <;> grind))

/-- `s'.word.cond → s.word.cond` for the word updates that keep or clear MU_CONDITION -/
macro "word_cond_rev" : tactic => `(tactic|
  first
  | (simp; done)
  | (simp_all [acqWord, addWord, relUncWord, relNwWord, subWord, Word.zero, enqWord, mtAcqWord, grabWord]; done)
  | (simp_all [acqWord, addWord, relUncWord, relNwWord, subWord, Word.zero, enqWord, mtAcqWord, grabWord] <;>
      (repeat' split) <;> simp_all))

/-- steps that change nothing the invariant speaks about -/
macro "inv7_local" t:ident h:ident heq:ident : tactic => `(tactic|
  (have hf7 := ($h).fst $t
   rw [$heq:ident] at hf7
   refine Inv7.local $t $h ?_ ?_ ?_ (by simp) (by simp) ?_ ?_ ?_ ?_ ?_ ?_ ?_ ?_ ?_ ?_ ?_
   · intro k hk
     exact (queued_same (t := $t) (by simp) (by intro u hu; simp [setFn, hu])
        (by rw [$heq:ident]; simp [setFn, PC.scan?, loopPc, finPc, Ret.pc] <;> (repeat' split) <;> simp [PC.scan?]) k).1 hk
   · intro k hk; simpa using hk
   · intro x _; (simp [setFn]) <;> (try split) <;> simp_all
   · first
     | (left
        refine ⟨?_, ?_⟩
        · pc_fact $heq
        · intro d hd
          refine refData_congr (secOpen_congr (by simp) ?_) (by simp) (by simp) hd
          intro u
          by_cases hu : u = $t
          · subst hu; pc_fact $heq
          · simp [setFn, hu])
     | (right; left; simp_all [relUncWord, Word.zero, Ret.mode]; done)
   · intro haf; left; revert haf; word_af
   · intro u hu; simp [setFn, hu]
   · pc_fact $heq
   · pc_fact $heq
   · pc_fact $heq
   · intro old ho; left; revert ho; pc_fact $heq
   · pc_fact $heq
   · first
     | (simp [PC.enqPend, setFn, loopPc, finPc, Ret.pc]; done)
     | (simp [PC.enqPend, setFn, loopPc, finPc, Ret.pc, enqWord] <;> (repeat' split) <;> simp_all [PC.enqPend])
   · pc_fact $heq
   · intro hcb; left; revert hcb; word_cond_rev))

macro "ld_case7" t:ident h:ident heq:ident hs:ident : tactic => `(tactic|
  (try dsimp only at $hs:ident
   try simp only [ldWord, ldWaiting] at $hs:ident
   repeat' split at $hs:ident
   all_goals first
     | (cases $hs:ident; done)
     | (cases $hs:ident; inv7_local $t $h $heq)
     | (cases $hs:ident; split <;> inv7_local $t $h $heq)))

theorem inv7_stepLd {s s' : State} {t : Tid} {o : Ord} {loc : Loc} {obs : Nat} (h : Inv7 s)
    (hs : stepLd s t o loc obs = .ok s') : Inv7 s' := by
  unfold stepLd at hs
  split at hs
  all_goals first
    | (rename_i heq; ld_case7 t h heq hs)
    | skip
  -- mtLdRc: the waiter removes itself
  rename_i c old heq
  dsimp only at hs
  repeat' split at hs
  all_goals first
    | (cases hs; done)
    | (cases hs; inv7_local t h heq)
    | skip
  rename_i k hk _ _ _ _ hmem
  cases hs
  have hlo : LnkOnly s (setPc (dequeue s k) t (PC.mtRmLd c old)) := lnkOnly_removeLinks _ _ _ _
  have hf7 := h.fst t; rw [heq] at hf7
  refine Inv7.local t h ?_ ?_ (fun x _ => (hlo x).2.2.2.2.1) (by simp [dequeue]) (by simp [dequeue]) (Or.inl ⟨?_, ?_⟩)
    (by intro haf; left; simpa [dequeue] using haf) (by intro u hu; simp [dequeue, setFn, hu]) ?_ ?_ ?_ ?_ ?_ ?_
    (by simp [PC.nonLate]) (by intro hcb; left; simpa [dequeue] using hcb)
  · intro x hx
    refine queued_mono (s := s) ?_ ?_ hx
    · intro y hy; simp [dequeue] at hy; exact List.mem_of_mem_erase hy
    · intro u; by_cases hu : u = t
      · subst hu; simp [heq, PC.scan?]
      · simp [dequeue, setFn, hu]
  · intro y hy; simp [dequeue] at hy; exact List.mem_of_mem_erase hy
  · simp [heq, PC.susp]
  · intro d hd
    refine refData_congr (secOpen_congr (by simp [dequeue]) ?_) (by simp [dequeue]) (by simp [dequeue]) hd
    intro u
    by_cases hu : u = t
    · subst hu; simp [heq, PC.firstW]
    · simp [dequeue, setFn, hu]
  · simp [PC.scan?]
  · simp [PC.reScan]
  · simp [PC.finOf]
  · intro old' ho; left; simpa [heq, PC.mtOld] using ho
  · simpa [heq, PC.mwPost] using hf7
  · simp [PC.enqPend]

end NsyncVerif.MuC
