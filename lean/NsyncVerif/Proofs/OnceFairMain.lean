/-
  Layer `Once`, fair termination (C07): the proof.

  Chain of leads-to facts, each by a local rank (`leads`):
  (A) `lock_free_again`   every slot lock is free again and again (rank `relRank` of its holder;
                          a holder is `Ready`, so weak fairness makes it move);
  (B) `eventually_moves`  every thread inside a call moves again: library code not at a lock
                          acquisition by `WeakFair`, a lock acquisition by (A) + `LockFair`, the
                          client's function by `InitReturns`;
  (C) `word1_to_2`        word 1 leads to word 2 (rank `wRank` of the winner, (B));
  (D) `word0_to_nz`       word 0 with a caller inside leads to word ≠ 0 (rank `zRank`, (B));
  (E) `done_returns`      word 2 leads to the caller's return (rank `dRank`, (B)).
-/
import NsyncVerif.Proofs.OnceFairStep

namespace Once

variable {cfg : Config} {s0 : State}

/-- The hypotheses of the theorem, bundled. -/
structure FairHyps (x : Exec cfg s0) : Prop where
  reach : Reachable cfg s0
  wf : WeakFair x
  lf : LockFair x
  ir : InitReturns x

theorem word2_stable (x : Exec cfg s0) (hr : Reachable cfg s0) {o : OnceId} {i : Nat}
    (h : (x.ρ i).word o = 2) : ∀ j, i ≤ j → (x.ρ j).word o = 2 := by
  intro j hj
  obtain ⟨d, rfl⟩ : ∃ d, j = i + d := ⟨j - i, by omega⟩
  induction d with
  | zero => exact h
  | succ d ih =>
    have ih' := ih (by omega)
    show (x.ρ (i + d + 1)).word o = 2
    cases hs : x.σ (i + d) with
    | none => rw [x.next_none hs]; exact ih'
    | some e => exact word2_step (x.inv hr _) (x.next_some hs) ih'

theorem word2_next (x : Exec cfg s0) (hr : Reachable cfg s0) {o : OnceId} {i : Nat}
    (h : (x.ρ i).word o = 2) : (x.ρ (i + 1)).word o = 2 :=
  word2_stable x hr h (i + 1) (by omega)

/-- (A) Every slot lock is free again and again. -/
theorem lock_free_again (x : Exec cfg s0) (H : FairHyps x) (k : SlotId) (i : Nat) :
    ∃ j, i ≤ j ∧ (x.ρ j).lockHolder k = none := by
  cases hl : (x.ρ i).lockHolder k with
  | none => exact ⟨i, Nat.le_refl _, hl⟩
  | some h =>
    refine leads x h (fun j => (x.ρ j).lockHolder k = some h) (fun j => (x.ρ j).lockHolder k = none)
      (fun j => relRank ((x.ρ j).pc h)) ?_ ?_ ?_ i hl
    · intro j hR hnm
      refine .inr ?_
      rw [not_moves_pc x hnm]
      refine ⟨?_, Nat.le_refl _⟩
      cases hs : x.σ j with
      | none => rw [x.next_none hs]; exact hR
      | some e => exact holder_other (x.next_some hs) (fun ht => hnm ⟨e, hs, ht⟩) hR
    · rintro j hR ⟨e, hs, ht⟩
      exact holder_move (x.inv H.reach j) (x.next_some hs) ht hR
    · intro j hR
      apply fair_move x H.wf
      intro j' hj' hnm
      have hpc := pc_between x hj' hnm
      have hH := (x.inv H.reach j).lock k h hR
      have : ((x.ρ j').pc h).Holds cfg k := by rw [hpc]; exact hH
      exact ready_of_holds this

/-- (B) Every thread inside a call moves again. -/
theorem eventually_moves (x : Exec cfg s0) (H : FairHyps x) {t : Tid} {i : Nat}
    (hp : (x.ρ i).pc t ≠ .idle) : ∃ j, i ≤ j ∧ Moves x t j := by
  apply Classical.byContradiction
  intro hn
  have hnm : ∀ j, i ≤ j → ¬ Moves x t j := fun j hj hm => hn ⟨j, hj, hm⟩
  have hpc : ∀ j, i ≤ j → (x.ρ j).pc t = (x.ρ i).pc t :=
    fun j hj => pc_between x hj (fun j' h1 _ => hnm j' h1)
  by_cases hU : ((x.ρ i).pc t).InUser
  · -- the client's function
    cases hq : (x.ρ i).pc t <;> simp only [hq, PC.InUser] at hU
    rename_i f
    obtain ⟨j, hj, hs⟩ := H.ir t i f hq
    exact hnm j hj ⟨_, hs, rfl⟩
  · by_cases hL : ∃ k, ((x.ρ i).pc t).LockWait cfg k
    · -- a lock acquisition
      obtain ⟨k, hk⟩ := hL
      obtain ⟨j, hj, hm⟩ := H.lf t k i (fun j hj => by rw [hpc j hj]; exact hk)
        (fun j _ => lock_free_again x H k j)
      exact hnm j hj hm
    · -- library code that nothing blocks
      obtain ⟨j, hj, hm⟩ := H.wf t i (fun j hj => by
        rw [Ready, hpc j hj]
        exact ⟨hp, hU, fun k hk => absurd ⟨k, hk⟩ hL⟩)
      exact hnm j hj hm

/-- (C) Word 1 leads to word 2: the winner is in flight and completes. -/
theorem word1_to_2 (x : Exec cfg s0) (H : FairHyps x) {o : OnceId} {i : Nat}
    (h1 : (x.ρ i).word o = 1) : ∃ j, i ≤ j ∧ (x.ρ j).word o = 2 := by
  obtain ⟨w, _, hin, _⟩ := (x.inv H.reach i).w1 o h1
  refine leads x w (fun j => ((x.ρ j).pc w).InW o) (fun j => (x.ρ j).word o = 2)
    (fun j => wRank ((x.ρ j).pc w)) ?_ ?_ ?_ i hin
  · intro j hR hnm
    refine .inr ?_
    rw [not_moves_pc x hnm]
    exact ⟨hR, Nat.le_refl _⟩
  · rintro j hR ⟨e, hs, ht⟩
    exact winner_move (x.next_some hs) ht hR
  · intro j hR
    apply eventually_moves x H
    intro hp; simp [hp, PC.InW] at hR

/-- (D) Word 0 with a caller inside leads to a non-zero word. -/
theorem word0_to_nz (x : Exec cfg s0) (H : FairHyps x) {t : Tid} {f : Frame} {i : Nat}
    (hf : ((x.ρ i).pc t).frame? = some f) (h0 : (x.ρ i).word f.o = 0) :
    ∃ j, i ≤ j ∧ (x.ρ j).word f.o ≠ 0 := by
  refine leads x t (fun j => ((x.ρ j).pc t).frame? = some f ∧ (x.ρ j).word f.o = 0)
    (fun j => (x.ρ j).word f.o ≠ 0) (fun j => zRank ((x.ρ j).pc t)) ?_ ?_ ?_ i ⟨hf, h0⟩
  · intro j hR hnm
    by_cases hz : (x.ρ (j + 1)).word f.o = 0
    · refine .inr ?_
      rw [not_moves_pc x hnm]
      exact ⟨⟨hR.1, hz⟩, Nat.le_refl _⟩
    · exact .inl hz
  · rintro j hR ⟨e, hs, ht⟩
    rcases zero_move (x.inv H.reach j) (x.next_some hs) ht hR.1 hR.2 with hz | ⟨a, b⟩
    · exact .inl hz
    · by_cases hz : (x.ρ (j + 1)).word f.o = 0
      · exact .inr ⟨⟨a, hz⟩, b⟩
      · exact .inl hz
  · intro j hR
    apply eventually_moves x H
    intro hp; simp [hp, PC.frame?] at hR

/-- The word of the once object of a call in progress eventually is 2. -/
theorem word_to_2 (x : Exec cfg s0) (H : FairHyps x) {t : Tid} {f : Frame} {i : Nat}
    (hf : ((x.ρ i).pc t).frame? = some f) : ∃ j, i ≤ j ∧ (x.ρ j).word f.o = 2 := by
  have from_nz : ∀ j, (x.ρ j).word f.o ≠ 0 → ∃ j', j ≤ j' ∧ (x.ρ j').word f.o = 2 := by
    intro j hnz
    have hle := (x.inv H.reach j).word_le f.o
    by_cases h2 : (x.ρ j).word f.o = 2
    · exact ⟨j, Nat.le_refl _, h2⟩
    · exact word1_to_2 x H (by omega)
  by_cases h0 : (x.ρ i).word f.o = 0
  · obtain ⟨j, hj, hnz⟩ := word0_to_nz x H hf h0
    obtain ⟨j', hj', h2⟩ := from_nz j hnz
    exact ⟨j', by omega, h2⟩
  · exact from_nz i h0

/-- (E) Word 2 leads to the return of the caller. -/
theorem done_returns (x : Exec cfg s0) (H : FairHyps x) {t : Tid} {f : Frame} {i : Nat}
    (hf : ((x.ρ i).pc t).frame? = some f) (h2 : (x.ρ i).word f.o = 2) :
    ∃ j, i ≤ j ∧ (x.ρ j).pc t = .idle := by
  refine leads x t (fun j => ((x.ρ j).pc t).frame? = some f ∧ (x.ρ j).word f.o = 2)
    (fun j => (x.ρ j).pc t = .idle) (fun j => dRank ((x.ρ j).pc t)) ?_ ?_ ?_ i ⟨hf, h2⟩
  · intro j hR hnm
    refine .inr ?_
    rw [not_moves_pc x hnm]
    exact ⟨⟨hR.1, word2_next x H.reach hR.2⟩, Nat.le_refl _⟩
  · rintro j hR ⟨e, hs, ht⟩
    have hd := done_move (x.inv H.reach j) (x.next_some hs) ht hR.1 hR.2
    rcases frame_step (x.next_some hs) hR.1 with a | a
    · exact .inr ⟨⟨a, word2_next x H.reach hR.2⟩, hd⟩
    · exact .inl a
  · intro j hR
    apply eventually_moves x H
    intro hp; simp [hp, PC.frame?] at hR

/-- A thread keeps its frame until it is idle. -/
theorem frame_persist (x : Exec cfg s0) {t : Tid} {f : Frame} {i : Nat}
    (hf : ((x.ρ i).pc t).frame? = some f) : ∀ d,
    (∃ j, i ≤ j ∧ j ≤ i + d ∧ (x.ρ j).pc t = .idle) ∨ ((x.ρ (i + d)).pc t).frame? = some f := by
  intro d
  induction d with
  | zero => exact .inr hf
  | succ d ih =>
    rcases ih with ⟨j, h1, h2, h3⟩ | a
    · exact .inl ⟨j, h1, by omega, h3⟩
    · show _ ∨ ((x.ρ (i + d + 1)).pc t).frame? = some f
      cases hs : x.σ (i + d) with
      | none => rw [x.next_none hs]; exact .inr a
      | some e =>
        rcases frame_step (x.next_some hs) a with b | b
        · exact .inr b
        · exact .inl ⟨i + d + 1, by omega, by omega, b⟩

/-- Main theorem: every call returns. -/
theorem fair_returns (x : Exec cfg s0) (H : FairHyps x) {t : Tid} {i : Nat}
    (hp : (x.ρ i).pc t ≠ .idle) : ∃ j, i ≤ j ∧ (x.ρ j).pc t = .idle := by
  obtain ⟨f, hf⟩ : ∃ f, ((x.ρ i).pc t).frame? = some f := by
    cases hq : (x.ρ i).pc t <;> simp [hq, PC.frame?] at hp ⊢
  obtain ⟨j, hj, h2⟩ := word_to_2 x H hf
  obtain ⟨d, rfl⟩ : ∃ d, j = i + d := ⟨j - i, by omega⟩
  rcases frame_persist x hf d with ⟨j', h1, _, h3⟩ | a
  · exact ⟨j', h1, h3⟩
  · obtain ⟨j', h1, h3⟩ := done_returns x H a h2
    exact ⟨j', by omega, h3⟩

/-- The first time at or after `i` at which `t` is idle. -/
theorem first_idle (x : Exec cfg s0) {t : Tid} : ∀ d i, (x.ρ i).pc t ≠ .idle →
    (x.ρ (i + d)).pc t = .idle →
    ∃ j, i ≤ j ∧ (x.ρ (j + 1)).pc t = .idle ∧ ∀ j', i ≤ j' → j' ≤ j → (x.ρ j').pc t ≠ .idle := by
  intro d
  induction d with
  | zero => intro i h1 h2; exact absurd h2 h1
  | succ d ih =>
    intro i h1 h2
    by_cases hn : (x.ρ (i + 1)).pc t = .idle
    · exact ⟨i, Nat.le_refl _, hn, fun j' a b => by
        have : j' = i := by omega
        subst this; exact h1⟩
    · obtain ⟨j, a, b, c⟩ := ih (i + 1) hn (by rw [show i + 1 + d = i + (d + 1) by omega]; exact h2)
      refine ⟨j, by omega, b, fun j' a' b' => ?_⟩
      by_cases hj : j' = i
      · subst hj; exact h1
      · exact c j' (by omega) b'

/-- … and at its return the initializer has run exactly once and ended. -/
theorem fair_returns_once (x : Exec cfg s0) (H : FairHyps x) {t : Tid} {f : Frame} {i : Nat}
    (hf : ((x.ρ i).pc t).frame? = some f) :
    ∃ j, i ≤ j ∧ x.σ j = some (.ret t f.blocking f.arg) ∧ (x.ρ (j + 1)).pc t = .idle ∧
      (t, f.o) ∈ (x.ρ (j + 1)).returned ∧
      ∃ w, (x.ρ (j + 1)).winner f.o = some w ∧ (x.ρ (j + 1)).fStarts f.o = [w] ∧
        (x.ρ (j + 1)).fEnds f.o = [w] ∧ (x.ρ (j + 1)).word f.o = 2 := by
  have hp : (x.ρ i).pc t ≠ .idle := by intro h; simp [h, PC.frame?] at hf
  obtain ⟨j0, hj0, hidle⟩ := fair_returns x H hp
  obtain ⟨d, rfl⟩ : ∃ d, j0 = i + d := ⟨j0 - i, by omega⟩
  obtain ⟨j, hj, hnext, hbefore⟩ := first_idle x d i hp hidle
  obtain ⟨d', rfl⟩ : ∃ d', j = i + d' := ⟨j - i, by omega⟩
  have hfj : ((x.ρ (i + d')).pc t).frame? = some f := by
    rcases frame_persist x hf d' with ⟨j', h1, h2, h3⟩ | a
    · exact absurd h3 (hbefore j' h1 h2)
    · exact a
  have hpj := hbefore (i + d') (by omega) (Nat.le_refl _)
  cases hs : x.σ (i + d') with
  | none => rw [x.next_none hs] at hnext; exact absurd hnext hpj
  | some e =>
    obtain ⟨f', hq, he, hret⟩ := to_idle (x.next_some hs) hpj hnext
    have : f' = f := by simpa [hq, PC.frame?] using hfj
    subst this
    have hmem : (t, f'.o) ∈ (x.ρ (i + d' + 1)).returned := by rw [hret]; simp
    exact ⟨i + d', by omega, by rw [hs, he], hnext, hmem,
      C07_exactly_once (x.reach H.reach _) hmem⟩

end Once
