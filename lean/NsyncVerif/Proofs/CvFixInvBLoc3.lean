/-
  Layer `CvFix` (cv.c with the repair of F3; adapted from the `Cv` file of the same name): protocol invariant — local transitions (loads of record fields).
-/
import NsyncVerif.Proofs.CvFixInvBLoc2

namespace NsyncVerif.CvFix

/-- The two loads at which control returns from nsync_sem_wait_with_cancel_. -/
def Event.isSettle : Event → Bool
  | .recLd _ .wChk .. | .recLd _ .wTail .. => true
  | _ => false

set_option maxHeartbeats 1000000 in
theorem invB_loc_atm2 {s : State} {t : Tid} {e : Event} {x' : Thr} (hi : InvB s) (ha : InvA s) (h : LTr s t e x')
    (he : e.isAtomic = true) (he2 : e.isRecLd = true) (he3 : e.isSettle = false) : InvB (s.setThr t x') := by
  have hb := hi.thr t
  obtain ⟨b1, b2, b3, b4, b5, b6, b7, b8, b9, b10, b11, b12, b13, b14⟩ := hb
  have a3 := (ha.thr t).live
  cases h with
  | wRc r obs hl hr ho =>
    have a4 := (ha.thr t).enq (.inl hl)
    subst hr
    locB_case hl
  | wHeadStay r obs hl hr ho hz =>
    have hw : (s.recs (s.thr t).r).waiting = true := by
      subst hr
      cases hb : (s.recs (s.thr t).r).waiting
      · rw [hb] at ho; simp [b2n] at ho; exact absurd ho hz
      · rfl
    split
    · by_cases hn : (s.thr t).note = true <;> simp only [hn, if_true, if_false] <;> locB_case hl
    · locB_case hl
  | wChk2 r obs hl hr ho => by_cases hz : obs = 0 <;> simp only [hz, if_true, if_false] <;> locB_case hl
  | wCmpNe r obs hl hr ho hne => locB_case hl
  | wRmLd r obs hl hr ho => locB_case hl
  | rcLd site r obs hl hs hr ho => locB_case hl
  | ready r obs hl hr ho => rw [setThr_self]; exact hi
  | deqLd0 r hl hr ho =>
    by_cases hz : s.queue.isEmpty = true <;> simp only [hz, if_true, if_false] <;> locB_case hl
  | deqLdGone r obs hl hr hw hq =>
    by_cases hz : s.queue.isEmpty = true <;> simp only [hz, if_true, if_false] <;> locB_case hl
  | deqSpinStay r obs hl hr hw => rw [setThr_self]; exact hi
  | dbgW r obs hl hq hm ho => locB_case hl
  | dbgRc r obs hl hq ho => locB_case hl
  | _ => first | (simp [Event.isAtomic] at he; done) | (simp [Event.isRecLd] at he2; done) | (simp [Event.isSettle] at he3; done)

end NsyncVerif.CvFix
