import NsyncVerif.Proofs.MuCInv4Enq
/-
  MuC (I_queue): stores — `waiting := 1` (mark), `waiting := 0` (unmark), enqueue in lock_slow.
-/
namespace NsyncVerif.MuC

/-- `t` sets `waiting := 1` on its record `k`, which is on no list, and enters limbo. -/
theorem Inv4.mark {s s' : State} (t : Tid) (k : Wid) (h : Inv4 s)
    (hq : s'.queue = s.queue)
    (hwrk : (s'.wr k).waiting = true ∧ (s'.wr k).owner = some t)
    (hwro : ∀ x, x ≠ k → (s'.wr x).owner = (s.wr x).owner ∧ (s'.wr x).waiting = (s.wr x).waiting)
    (hw0 : (s.wr k).waiting = false) (hown : ∀ u, u ≠ t → k ∉ (s.pc u).ws)
    (hpc : ∀ u, u ≠ t → s'.pc u = s.pc u)
    (hws : ∀ x, x ∈ (s'.pc t).ws → x = k ∨ x ∈ (s.pc t).ws)
    (hunl : (s'.pc t).unl = false) (hunl0 : (s.pc t).unl = false)
    (hwk : (s'.pc t).wakeL = []) (hwk0 : (s.pc t).wakeL = [])
    (hlb : (s'.pc t).limbo = some k) (hfin : (s'.pc t).finOf = none) (hfin0 : (s.pc t).finOf = none) : Inv4 s' := by
  have hsc0 : (s.pc t).scan? = none := by
    cases hp : s.pc t <;> rw [hp] at hunl0 <;> simp [PC.unl] at hunl0 <;> rfl
  have hsc1 : (s'.pc t).scan? = none := by
    cases hp : s'.pc t <;> rw [hp] at hunl <;> simp [PC.unl] at hunl <;> rfl
  have hsc : ∀ u, (s'.pc u).scan? = (s.pc u).scan? := by
    intro u; by_cases hu : u = t
    · subst hu; rw [hsc0, hsc1]
    · rw [hpc u hu]
  have hwkL : ∀ u, (s'.pc u).wakeL = (s.pc u).wakeL := by
    intro u; by_cases hu : u = t
    · subst hu; rw [hwk, hwk0]
    · rw [hpc u hu]
  have hQ := queued_congr hq hsc
  have hnq : ¬ Queued s k := fun e => by have := h.wait k e; rw [hw0] at this; cases this
  have hnw : ∀ u, k ∉ (s.pc u).wakeL := fun u e => by have := (h.wk u k e).1; rw [hw0] at this; cases this
  refine ⟨?_, ?_, ?_, ?_, ?_, ?_, ?_, fun u v x hu hv => by rw [hwkL] at hu hv; exact h.wkd u v x hu hv⟩
  · intro u x hx
    by_cases hu : u = t
    · subst hu
      rcases hws x hx with rfl | hx'
      · exact hwrk.2
      · by_cases hxk : x = k
        · subst hxk; exact hwrk.2
        · rw [(hwro x hxk).1]; exact h.own u x hx'
    · rw [hpc u hu] at hx
      have hxk : x ≠ k := fun e => hown u hu (e ▸ hx)
      rw [(hwro x hxk).1]; exact h.own u x hx
  · intro u v hu hv
    have e : ∀ w, (s'.pc w).unl = (s.pc w).unl := by
      intro w; by_cases hw : w = t
      · subst hw; rw [hunl, hunl0]
      · rw [hpc w hw]
    rw [e] at hu hv; exact h.uniq u v hu hv
  · intro u
    have : allOf s' u = allOf s u := by simp only [allOf, hq, PC.priv, hsc, hwkL]
    rw [this]; exact h.nd u
  · intro x hx
    have hx' := (hQ x).1 hx
    have hxk : x ≠ k := fun e => hnq (e ▸ hx')
    rw [(hwro x hxk).2]; exact h.wait x hx'
  · intro u x hx
    rw [hwkL] at hx
    have hxk : x ≠ k := fun e => hnw u (e ▸ hx)
    obtain ⟨a, b⟩ := h.wk u x hx
    exact ⟨by rw [(hwro x hxk).2]; exact a, by rw [hQ]; exact b⟩
  · intro u x hx
    by_cases hu : u = t
    · subst hu; rw [hlb] at hx; cases hx
      exact ⟨hwrk.1, by rw [hQ]; exact hnq, fun v => by rw [hwkL]; exact hnw v⟩
    · rw [hpc u hu] at hx
      have hxk : x ≠ k := fun e => hown u hu (e ▸ limbo_mem_ws hx)
      obtain ⟨a, b, c⟩ := h.limbo u x hx
      exact ⟨by rw [(hwro x hxk).2]; exact a, by rw [hQ]; exact b, fun v => by rw [hwkL]; exact c v⟩
  · intro u f hf
    by_cases hu : u = t
    · subst hu; rw [hfin] at hf; cases hf
    · rw [hpc u hu] at hf; rw [hq]; exact h.finq u f hf

/-- `t` clears `waiting` of a record `k` that is on no list and (afterwards) on no wake list. -/
theorem Inv4.unmark {s s' : State} (t : Tid) (k : Wid) (h : Inv4 s)
    (hq : s'.queue = s.queue)
    (hwro : ∀ x, (s'.wr x).owner = (s.wr x).owner ∧ (x ≠ k → (s'.wr x).waiting = (s.wr x).waiting))
    (hnq : ¬ Queued s k) (hnw : ∀ u, u ≠ t → k ∉ (s.pc u).wakeL) (hnl : ∀ u, u ≠ t → (s.pc u).limbo ≠ some k)
    (hpc : ∀ u, u ≠ t → s'.pc u = s.pc u)
    (hws : ∀ x, x ∈ (s'.pc t).ws → x ∈ (s.pc t).ws)
    (hunl : (s'.pc t).unl = (s.pc t).unl) (hsc : (s'.pc t).scan? = (s.pc t).scan?)
    (hwk : ∀ x, x ∈ (s'.pc t).wakeL → x ∈ (s.pc t).wakeL ∧ x ≠ k)
    (hwksub : List.Sublist (s'.pc t).wakeL (s.pc t).wakeL)
    (hlb : (s'.pc t).limbo = none) (hfin : (s'.pc t).finOf = (s.pc t).finOf) : Inv4 s' := by
  have hsc' : ∀ u, (s'.pc u).scan? = (s.pc u).scan? := by
    intro u; by_cases hu : u = t
    · subst hu; exact hsc
    · rw [hpc u hu]
  have hQ := queued_congr hq hsc'
  refine ⟨?_, ?_, ?_, ?_, ?_, ?_, ?_, ?_⟩
  · intro u x hx
    rw [(hwro x).1]
    by_cases hu : u = t
    · subst hu; exact h.own u x (hws x hx)
    · rw [hpc u hu] at hx; exact h.own u x hx
  · intro u v hu hv
    have e : ∀ w, (s'.pc w).unl = (s.pc w).unl := by
      intro w; by_cases hw : w = t
      · subst hw; exact hunl
      · rw [hpc w hw]
    rw [e] at hu hv; exact h.uniq u v hu hv
  · intro u
    have hnd := h.nd u
    by_cases hu : u = t
    · subst hu
      simp only [allOf, hq, PC.priv, hsc] at hnd ⊢
      exact List.Nodup.sublist (List.Sublist.append_left hwksub _) hnd
    · simp only [allOf, hq, hpc u hu] at hnd ⊢; exact hnd
  · intro x hx
    have hx' := (hQ x).1 hx
    have hxk : x ≠ k := fun e => hnq (e ▸ hx')
    rw [(hwro x).2 hxk]; exact h.wait x hx'
  · intro u x hx
    by_cases hu : u = t
    · subst hu
      obtain ⟨hx1, hxk⟩ := hwk x hx
      obtain ⟨a, b⟩ := h.wk u x hx1
      exact ⟨by rw [(hwro x).2 hxk]; exact a, by rw [hQ]; exact b⟩
    · rw [hpc u hu] at hx
      have hxk : x ≠ k := fun e => hnw u hu (e ▸ hx)
      obtain ⟨a, b⟩ := h.wk u x hx
      exact ⟨by rw [(hwro x).2 hxk]; exact a, by rw [hQ]; exact b⟩
  · intro u x hx
    by_cases hu : u = t
    · subst hu; rw [hlb] at hx; cases hx
    · rw [hpc u hu] at hx
      have hxk : x ≠ k := fun e => hnl u hu (e ▸ hx)
      obtain ⟨a, b, c⟩ := h.limbo u x hx
      refine ⟨by rw [(hwro x).2 hxk]; exact a, by rw [hQ]; exact b, fun v => ?_⟩
      by_cases hv : v = t
      · subst hv; exact fun e => c v (hwk x e).1
      · rw [hpc v hv]; exact c v
  · intro u f hf
    have hf' : (s.pc u).finOf = some f := by
      by_cases hu : u = t
      · subst hu; rw [← hfin]; exact hf
      · rw [← hpc u hu]; exact hf
    rw [hq]; exact h.finq u f hf'
  · intro u v x hu hv
    have hu' : x ∈ (s.pc u).wakeL := by
      by_cases e : u = t
      · subst e; exact (hwk x hu).1
      · rw [hpc u e] at hu; exact hu
    have hv' : x ∈ (s.pc v).wakeL := by
      by_cases e : v = t
      · subst e; exact (hwk x hv).1
      · rw [hpc v e] at hv; exact hv
    exact h.wkd u v x hu' hv'

end NsyncVerif.MuC

namespace NsyncVerif.MuC

theorem wr_of_merge (s : State) (p n : Option Wid) (x : Wid) :
    ((mergeLinks s p n).wr x).owner = (s.wr x).owner ∧ ((mergeLinks s p n).wr x).waiting = (s.wr x).waiting :=
  ⟨(lnkOnly_mergeLinks s p n x).1, (lnkOnly_mergeLinks s p n x).2.1⟩

theorem inv4_stepSt {s s' : State} {t : Tid} {o : Ord} {loc : Loc} {new obs : Nat} (h3 : Inv3 s) (h : Inv4 s)
    (hs : stepSt s t o loc new obs = .ok s') : Inv4 s' := by
  unfold stepSt at hs
  split at hs
  · -- lsSt: mark and enqueue
    rename_i c heq
    dsimp only at hs
    repeat' split at hs
    all_goals first
      | (cases hs; done)
      | skip
    iterate 2
      · -- adoption of a fresh record
        rename_i k _ _ _ _ _ hcw hown hwait _
        simp only [Decidable.not_not, Bool.not_eq_true] at hown hwait
        cases hs
        refine Inv4.enqueue t k h3 h (by rw [heq]; rfl) ?_ ?_ ?_ ?_ ?_ ?_ (by intro u hu; simp [enqLast, enqFirst, setFn, hu])
          ?_ (by simp [PC.unl]) (by rw [heq]; rfl) (by simp [PC.wakeL]) (by rw [heq]; rfl)
          (by simp [PC.limbo]) (by simp [PC.finOf])
        · simp [enqLast, enqFirst]
        · simp [enqLast, enqFirst, wr_of_merge, setFn]
        · intro x hx; simp [enqLast, enqFirst, wr_of_merge, setFn, hx]
        · intro e; have := h.wait k e; rw [hwait] at this; cases this
        · intro u e; have := (h.wk u k e).1; rw [hwait] at this; cases this
        · intro u _ e; have := h.own u k e; rw [hown] at this; cases this
        · intro x hx
          have : x ∈ (PC.lsRelLd { c with w := some k }).ws := by simpa using hx
          rw [heq]
          simp only [PC.ws, SL.ws, hcw] at this ⊢
          simp at this ⊢
          rcases this with e | e
          · exact Or.inl e
          · exact Or.inr e
    iterate 2
      · -- the thread's own record again
        rename_i k _ _ _ _ _ k' hcw hkk hwait _
        simp only [Decidable.not_not, Bool.not_eq_true] at hkk hwait
        subst hkk
        cases hs
        have hmem : k ∈ (s.pc t).ws := by rw [heq]; simp [PC.ws, SL.ws, hcw]
        have hown := h.own t k hmem
        refine Inv4.enqueue t k h3 h (by rw [heq]; rfl) ?_ ?_ ?_ ?_ ?_ ?_ (by intro u hu; simp [enqLast, enqFirst, setFn, hu])
          ?_ (by simp [PC.unl]) (by rw [heq]; rfl) (by simp [PC.wakeL]) (by rw [heq]; rfl)
          (by simp [PC.limbo]) (by simp [PC.finOf])
        · simp [enqLast, enqFirst]
        · simp [enqLast, enqFirst, wr_of_merge, setFn, hown]
        · intro x hx; simp [enqLast, enqFirst, wr_of_merge, setFn, hx]
        · intro e; have := h.wait k e; rw [hwait] at this; cases this
        · intro u e; have := (h.wk u k e).1; rw [hwait] at this; cases this
        · intro u hu e; have := h.own u k e; rw [hown] at this; cases this; exact hu rfl
        · intro x hx
          have : x ∈ (PC.lsRelLd c).ws := by simpa using hx
          rw [heq]; exact Or.inr (by simpa [PC.ws] using this)
  · -- usWakeSt: `waiting := 0` of the next waiter to wake
    rename_i r k rest heq
    repeat' split at hs
    all_goals first
      | (cases hs; done)
      | skip
    cases hs
    have hnd := h.nd t
    have hkw : k ∈ (s.pc t).wakeL := by rw [heq]; simp [PC.wakeL]
    have hkr : k ∉ rest := by
      simp only [allOf, heq, PC.wakeL] at hnd
      have := (List.nodup_append.mp hnd).2.1
      exact (List.nodup_cons.mp this).1
    refine Inv4.unmark t k h (by simp) ?_ (h.wk t k hkw).2 ?_ ?_ (by intro u hu; simp [setFn, hu])
      (by rw [heq]; simp [PC.ws]) (by rw [heq]; simp [PC.unl]) (by rw [heq]; simp [PC.scan?]) ?_ ?_ (by simp [PC.limbo])
      (by rw [heq]; simp [PC.finOf])
    · intro x; simp only [setPc_wr, setFn]; constructor
      · split <;> simp_all
      · intro hx; simp [hx]
    · intro u hu e; exact hu (h.wkd u t k e hkw)
    · intro u _ e; exact (h.limbo u k e).2.2 t hkw
    · intro x hx
      simp only [setPc_pc, setFn_same, PC.wakeL] at hx
      rw [heq]; simp only [PC.wakeL]
      exact ⟨List.mem_cons_of_mem _ hx, fun e => hkr (e ▸ hx)⟩
    · rw [heq]; simp [PC.wakeL]
  · -- mwStW: `waiting := 1` (mu_wait.c:198)
    rename_i c heq
    dsimp only at hs
    repeat' split at hs
    all_goals first
      | (cases hs; done)
      | skip
    · rename_i k _ _ _ _ _ hcw hown hwait
      simp only [Decidable.not_not, Bool.not_eq_true] at hown hwait
      cases hs
      refine Inv4.mark t k h (by simp) (by simp [setFn]) (by intro x hx; simp [setFn, hx]) hwait ?_
        (by intro u hu; simp [setFn, hu]) ?_ (by simp [PC.unl]) (by rw [heq]; rfl) (by simp [PC.wakeL]) (by rw [heq]; rfl)
        (by simp [PC.limbo]) (by simp [PC.finOf]) (by rw [heq]; rfl)
      · intro u _ e; have := h.own u k e; rw [hown] at this; cases this
      · intro x hx; left; simpa [PC.ws] using hx
    · rename_i k _ _ _ _ _ k' hcw hkk hwait
      simp only [Decidable.not_not, Bool.not_eq_true] at hkk hwait
      subst hkk
      cases hs
      have hmem : k ∈ (s.pc t).ws := by rw [heq]; simp [PC.ws, hcw]
      have hown := h.own t k hmem
      refine Inv4.mark t k h (by simp) (by simp [setFn, hown]) (by intro x hx; simp [setFn, hx]) hwait ?_
        (by intro u hu; simp [setFn, hu]) ?_ (by simp [PC.unl]) (by rw [heq]; rfl) (by simp [PC.wakeL]) (by rw [heq]; rfl)
        (by simp [PC.limbo, hcw]) (by simp [PC.finOf]) (by rw [heq]; rfl)
      · intro u hu e; have := h.own u k e; rw [hown] at this; cases this; exact hu rfl
      · intro x hx; right; rw [heq]; simpa [PC.ws] using hx
  · -- mtStW: `waiting := 0` by the waiter that removed itself
    rename_i c old heq
    dsimp only at hs
    repeat' split at hs
    all_goals first
      | (cases hs; done)
      | skip
    rename_i k hcw _ _ _ _
    cases hs
    have hlb : (s.pc t).limbo = some k := by rw [heq]; simp [PC.limbo, hcw]
    obtain ⟨_, hnq, hnw⟩ := h.limbo t k hlb
    refine Inv4.unmark t k h (by simp) ?_ hnq (fun u _ => hnw u) ?_ (by intro u hu; simp [setFn, hu])
      (by rw [heq]; simp [PC.ws]) (by rw [heq]; simp [PC.unl]) (by rw [heq]; simp [PC.scan?]) (by simp [PC.wakeL])
      (by rw [heq]; simp [PC.wakeL]) (by simp [PC.limbo]) (by rw [heq]; simp [PC.finOf])
    · intro x; simp only [setPc_wr, setFn]; constructor
      · split <;> simp_all
      · intro hx; simp [hx]
    · intro u hu e
      have h1 := h.own u k (limbo_mem_ws e)
      have h2 := h.own t k (limbo_mem_ws hlb)
      rw [h1] at h2; cases h2; exact hu rfl
  · -- mtStRel
    rename_i heq; ld_case4 t h heq hs
  · cases hs

end NsyncVerif.MuC
