/-
  Layer `CvFix`: `InvF` is preserved by every transition.
-/
import NsyncVerif.Proofs.CvFixInvF

namespace NsyncVerif.CvFix

/-- Local transitions: the only ones that end inside the dequeue phase are the two outcomes of the
    load of `nw->waiting` in cv_dequeue that do not remove anything, and the wait loop. -/
theorem ltr_deq {s : State} {t : Tid} {e : Event} {x' : Thr} (ha : InvA s) (hb : InvB s) (hf : InvF s)
    (h : LTr s t e x') : TInvF (s.setThr t x') t := by
  cases h with
  | deqLd0 r hl hr ho =>
    have hu : (∃ u, (s.recs r).unl = [Unl.waker u]) ∧ (s.recs r).stat = .woken := by
      rcases deq_entry_stat ha hb t r hl hr with h | ⟨u, h⟩ | h
      · have := ha.qWait r h; rw [ho] at this; cases this
      · have := hb.lWait r u h; rw [ho] at this; cases this
      · exact ⟨hf.unlW r (.inl h), h⟩
    constructor <;> simp
    exact hu
  | deqLdGone r obs hl hr hw hq =>
    have hu : ∃ u, (s.recs r).unl = [Unl.waker u] := by
      rcases deq_entry_stat ha hb t r hl hr with h | ⟨u, h⟩ | h
      · exact absurd ((ha.qMem r).mpr h) hq
      · exact ⟨u, hf.unlL r u h⟩
      · have := hb.wokenW r h; rw [hw] at this; cases this
    constructor <;> simp
    exact hu
  | deqSpinStay r obs hl hr hw => rw [setThr_self]; exact hf.thr t
  | spinLd site obs hl ho => refine tinvF_out ?_; simp; split <;> simp [Loc.deqPhase]
  | spinLdN obs hl ho => refine tinvF_out ?_; simp; split <;> simp [Loc.deqPhase]
  | sigLd site obs hl hs ho => refine tinvF_out ?_; simp; split <;> simp [Loc.deqPhase]
  | wHeadStay r obs hl hr ho hz =>
    refine tinvF_out ?_; simp; split
    · by_cases hn : (s.thr t).note = true <;> simp [hn, Loc.deqPhase]
    · simp [Loc.deqPhase]
  | wChk y r obs hy hl hr ho hso => refine tinvF_out ?_; simp; split <;> simp [Loc.deqPhase]
  | wChk2 r obs hl hr ho => refine tinvF_out ?_; simp; split <;> simp [Loc.deqPhase]
  | wwLd obs f rest hl hlist => refine tinvF_out ?_; simp; split <;> simp [Loc.deqPhase]
  | wwRelCasOk exp new obs hl => refine tinvF_out ?_; simp; split <;> simp [Loc.deqPhase]
  | ready r obs hl hr ho => refine tinvF_out ?_; simp [hl, Loc.deqPhase]
  | noteSeen hl => refine tinvF_out ?_; rcases hl with hl | hl | hl <;> simp [hl, Loc.deqPhase]
  | noteNotify hl ht => refine tinvF_out ?_; simp [hl, Loc.deqPhase]
  | dbgLd obs hl ho => refine tinvF_out ?_; simp; split <;> simp [Loc.deqPhase]
  | _ => refine tinvF_out ?_; simp [Loc.deqPhase, Thr.fresh]

theorem ite_sRel_deq (b : Bool) : (if b = true then Loc.sRel else Loc.sRcLd).deqPhase = false := by
  cases b <;> rfl

theorem invF_tr {cfg : Config} {s s' : State} {e : Event} (ha : InvA s) (hb : InvB s) (hf : InvF s)
    (h : Tr cfg s e s') : InvF s' := by
  cases h with
  | same e h => exact hf
  | tick ns h => exact invF_frame (t := 0) ha hf (fun u _ => rfl) (fun q => ⟨rfl, rfl⟩) (tinvF_keep (hf.thr 0) rfl (fun _ => rfl) (fun _ => rfl))
  | semOther e sem' h => exact invF_frame (t := 0) ha hf (fun u _ => rfl) (fun q => ⟨rfl, rfl⟩) (tinvF_keep (hf.thr 0) rfl (fun _ => rfl) (fun _ => rfl))
  | loc h =>
    rename_i t x'
    exact invF_frame (t := t) ha hf (fun u hu => by simp [hu]) (fun q => ⟨rfl, rfl⟩) (ltr_deq ha hb hf h)
  | acq t exp new obs o n hl hexp hw he ho hn hnew =>
    unfold afterAcquire
    split
    · -- waitEnq: prep → queued
      rename_i hc; simp only at hc
      have hst := ((ha.thr t).prep (by simp [waitPrep, hl, hc])).1
      refine invF_one (t := t) (r := (s.thr t).r) ha hf (fun u hu => by simp [hu]) (fun q hq => by simp [hq])
        (.inl (by simp)) (.inr (.inr (.inl hst))) (by simp) (by simp) (by simp) (by simpa using hf.unl1 _) ?_
      refine tinvF_out ?_; simp [Loc.deqPhase]
    · refine invF_frame (t := t) ha hf (fun u hu => by simp [hu]) (fun q => ⟨rfl, rfl⟩) ?_
      refine tinvF_out ?_; simp [Loc.deqPhase]
    · refine invF_frame (t := t) ha hf (fun u hu => by simp [hu]) (fun q => ⟨rfl, rfl⟩) ?_
      refine tinvF_out ?_; simp [Loc.deqPhase]
    · refine invF_frame (t := t) ha hf (fun u hu => by simp [hu]) (fun q => ⟨rfl, rfl⟩) ?_
      refine tinvF_out ?_; simp [Loc.deqPhase]
    · -- signal / broadcast: the selected records go from the queue to the private list
      dsimp only
      have hsub : ∀ q, q ∈ (if (s.thr t).bcast = true then s.queue else sigSelect s.recs s.queue) → q ∈ s.queue := by
        intro q hq
        split at hq
        · exact hq
        · exact (sigSelect_sublist _ _).subset hq
      generalize (if (s.thr t).bcast = true then s.queue else sigSelect s.recs s.queue) = sel at hsub ⊢
      have hselq : ∀ q, q ∈ sel → (s.recs q).stat = .queued := fun q hq => (ha.qMem q).mp (hsub q hq)
      refine invF_gen (t := t) ha hf (fun u hu => by simp [hu]) ?_ ?_ ?_ ?_ ?_ ?_ ?_
      · intro q
        by_cases hq : q ∈ sel
        · exact .inr (.inr (.inr (hselq q hq)))
        · left; simp [hq]
      · intro q
        by_cases hq : q ∈ sel
        · exact .inr (.inr (.inr (.inl (hselq q hq))))
        · left; simp [hq]
      · intro q
        by_cases hq : q ∈ sel
        · simp [hq]
        · simpa [hq] using hf.unlS q
      · intro q u
        by_cases hq : q ∈ sel
        · simp [hq, hb.unlQ q (.inl (hselq q hq))]
        · simpa [hq] using hf.unlL q u
      · intro q
        by_cases hq : q ∈ sel
        · simp [hq]
        · simpa [hq] using hf.unlW q
      · intro q
        by_cases hq : q ∈ sel
        · simp [hq, hb.unlQ q (.inl (hselq q hq))]
        · simpa [hq] using hf.unl1 q
      · refine tinvF_out ?_
        simp only [updT_apply, if_true]
        exact ite_sRel_deq _
  | relWait t new obs n hl hh hnew hn hsp =>
    refine invF_frame (t := t) ha hf (fun u hu => by simp [hu])
      (fun q => by by_cases hq : q = (s.thr t).r <;> simp [hq]) ?_
    refine tinvF_out ?_; simp [Loc.deqPhase]
  | relEnq t new obs n hl hh hnew hn hsp =>
    refine invF_frame (t := t) ha hf (fun u hu => by simp [hu])
      (fun q => by by_cases hq : q = (s.thr t).r <;> simp [hq]) ?_
    refine tinvF_out ?_; simp [Loc.deqPhase]
  | relWait2 t new obs n hl hh hnew hn hsp =>
    refine invF_frame (t := t) ha hf (fun u hu => by simp [hu]) (fun q => ⟨rfl, rfl⟩) ?_
    refine tinvF_out ?_; simp [Loc.deqPhase]
  | relDbg t new obs n hl hh hnew hn hsp =>
    refine invF_frame (t := t) ha hf (fun u hu => by simp [hu]) (fun q => ⟨rfl, rfl⟩) ?_
    refine tinvF_out ?_; simp [Loc.deqPhase]
  | relSig t site new obs n hl hs hh hnew hn hsp =>
    refine invF_frame (t := t) ha hf (fun u hu => by simp [hu]) (fun q => ⟨rfl, rfl⟩) ?_
    refine tinvF_out ?_
    simp
    rcases wakeEntry_cases s (s.thr t).list with ⟨_, hw⟩ | ⟨_, hw | hw⟩ <;> simp [hw, Loc.deqPhase]
  | relDeq t new obs n hl hh hnew hn hsp =>
    have hown := ((ha.thr t).mine _ ((ha.thr t).nDeq (.inr hl)).1).2.1
    refine invF_one (t := t) (r := (s.thr t).r) ha hf (fun u hu => by simp [hu]) (fun q hq => by simp [hq])
      (.inl (by simp)) (.inr (.inr (.inr (.inr (.inr hown))))) ?_ ?_ ?_ (by simpa using hf.unl1 _) ?_
    · simp; cases (s.recs (s.thr t).r).stat <;> simp
    · intro u; simp
      cases hst : (s.recs (s.thr t).r).stat <;> simp
      intro e; subst e; exact hf.unlL _ _ hst
    · simp; cases (s.recs (s.thr t).r).stat <;> simp
    · refine tinvF_out ?_; simp [Loc.deqPhase]
  | relDeqW t new obs n hl hh hnew hn hsp =>
    refine invF_frame (t := t) ha hf (fun u hu => by simp [hu]) (fun q => ⟨rfl, rfl⟩) ?_
    have := (hf.thr t).wqW (.inl hl)
    constructor <;> simp
    exact this
  | wHeadExit t r y hy hl hr hw =>
    subst hy
    have hown : (s.recs r).owner = t := by rw [hr]; exact ((ha.thr t).live (by simp [waitLive, hl])).1
    refine invF_one (t := t) (r := r) ha hf (fun u hu => by simp [hu]) (fun q hq => by simp [hq])
      (.inl (by simp)) (.inr (.inr (.inr (.inr (.inr hown))))) (by simp) (by simp) (by simp) (by simpa using hf.unl1 _) ?_
    refine tinvF_out ?_; simp [Loc.deqPhase]
  | wCmpEq t r obs hl hr ho he =>
    have hq := (invB_wCmpEq hb ha t r obs hl hr ho he).1
    refine invF_one (t := t) (r := r) ha hf (fun u hu => by simp [hu]) (fun q hq => by simp [hq])
      (.inr (.inr (.inr hq))) (.inr (.inr (.inr (.inl hq)))) (by simp [hb.unlQ r (.inl hq)]) (by simp) (by simp)
      (by simp [hb.unlQ r (.inl hq)]) ?_
    refine tinvF_out ?_; simp [Loc.deqPhase]
  | deqLdQueued t r obs hl hr hw hq =>
    have hst := (ha.qMem r).mp hq
    refine invF_one (t := t) (r := r) ha hf (fun u hu => by simp [hu]) (fun q hq => by simp [hq])
      (.inr (.inr (.inr hst))) (.inr (.inr (.inr (.inl hst)))) (by simp [hb.unlQ r (.inl hst)]) (by simp) (by simp)
      (by simp [hb.unlQ r (.inl hst)]) ?_
    constructor <;> simp [hb.unlQ r (.inl hst)]
  | deqSpinExit t r hl hr hw =>
    have hown : (s.recs r).owner = t := by rw [hr]; exact ((ha.thr t).mine _ ((ha.thr t).nSpin (.inr hl)).1).2.1
    refine invF_one (t := t) (r := r) ha hf (fun u hu => by simp [hu]) (fun q hq => by simp [hq])
      (.inl (by simp)) (.inr (.inr (.inr (.inr (.inr hown))))) ?_ ?_ ?_ (by simpa using hf.unl1 _) ?_
    · simp; cases (s.recs r).stat <;> simp
    · intro u; simp
      cases hst : (s.recs r).stat <;> simp
      intro e; subst e; exact hf.unlL _ _ hst
    · simp; cases (s.recs r).stat <;> simp
    · refine tinvF_out ?_; simp [Loc.deqPhase]
  | wSt1 t r obs hl hm hst =>
    refine invF_one (t := t) (r := r) ha hf (fun u hu => by simp [hu]) (fun q hq => by simp [hq])
      (.inr (.inl hst)) (.inr (.inl hst)) (by simp) (by simp) (by simp) (by simp) ?_
    refine tinvF_out ?_; simp; split <;> simp [Loc.deqPhase]
  | wClr t r obs hl hr =>
    refine invF_frame (t := t) ha hf (fun u hu => by simp [hu])
      (fun q => by by_cases hq : q = r <;> simp [hq]) ?_
    refine tinvF_out ?_; simp [Loc.deqPhase]
  | wake t r obs hl hr =>
    have hst : (s.recs r).stat = .listed t := (ha.lMem t r).mp (head_mem' hr)
    refine invF_one (t := t) (r := r) ha hf (fun u hu => by simp [hu]) (fun q hq => by simp [hq])
      (.inl (by simp)) (.inr (.inr (.inr (.inr (.inl ⟨t, hst⟩))))) (by simp [hst]) (by simp [hst]) ?_ (by simpa using hf.unl1 _) ?_
    · intro _; exact ⟨t, by simpa using hf.unlL r t hst⟩
    · refine tinvF_out ?_; simp [Loc.deqPhase]
  | enqSt t r obs hl hm hst ho he =>
    refine invF_one (t := t) (r := r) ha hf (fun u hu => by simp [hu]) (fun q hq => by simp [hq])
      (.inr (.inl hst)) (.inr (.inl hst)) (by simp) (by simp) (by simp) (by simp) ?_
    refine tinvF_out ?_; simp [Loc.deqPhase]
  | deqSt t r obs hl hr =>
    subst hr
    refine invF_frame (t := t) ha hf (fun u hu => by simp [hu])
      (fun q => by by_cases hq : q = (s.thr t).r <;> simp [hq]) ?_
    have := (hf.thr t).wqSt hl
    have hso := (hb.thr t).deqS hl
    constructor <;> simp
    exact .inl ⟨this.1, this.2, hso⟩
  | wRmCasOk t r exp new obs hl hr hn ho he =>
    refine invF_frame (t := t) ha hf (fun u hu => by simp [hu])
      (fun q => by by_cases hq : q = r <;> simp [hq]) ?_
    refine tinvF_out ?_; simp [Loc.deqPhase]
  | sRcCasOk t site r exp new obs hl hr hn ho he =>
    refine invF_frame (t := t) ha hf (fun u hu => by simp [hu])
      (fun q => by by_cases hq : q = r <;> simp [hq]) ?_
    refine tinvF_out ?_
    simp only [setThr_thr, if_true]
    exact ite_sRel_deq _
  | muMode t obs lt hl hlt =>
    refine invF_frame (t := t) ha hf (fun u hu => by simp [hu])
      (fun q => by by_cases hq : q = (s.thr t).r <;> simp [hq]) ?_
    refine tinvF_out ?_; simp [Loc.deqPhase]
  | wwCasOk t exp new obs f rest hl hlist =>
    generalize hxs : transferSet s.recs (firstCantAcquire (s.recs f).lt exp) (s.thr t).list = xs
    have hsub : ∀ q, q ∈ xs → (s.recs q).stat = .listed t := by
      intro q hq
      exact (ha.lMem t q).mp (transferSet_subset _ _ _ q (by rw [hxs]; exact hq))
    refine invF_gen (t := t) ha hf (fun u hu => by simp [hu]) ?_ ?_ ?_ ?_ ?_ ?_ ?_
    · intro q; left; by_cases hq : q ∈ xs <;> simp [hq]
    · intro q
      by_cases hq : q ∈ xs
      · exact .inr (.inr (.inr (.inr (.inl ⟨t, hsub q hq⟩))))
      · left; simp [hq]
    · intro q
      by_cases hq : q ∈ xs
      · simp [hq]
      · simpa [hq] using hf.unlS q
    · intro q u
      by_cases hq : q ∈ xs
      · simp [hq]
      · simpa [hq] using hf.unlL q u
    · intro q
      by_cases hq : q ∈ xs
      · simp [hq]; exact ⟨t, hf.unlL q t (hsub q hq)⟩
      · simpa [hq] using hf.unlW q
    · intro q
      by_cases hq : q ∈ xs
      · simpa [hq] using hf.unl1 q
      · simpa [hq] using hf.unl1 q
    · refine tinvF_out ?_; simp [Loc.deqPhase]
  | semVWake t k r q hl hc =>
    refine invF_frame (t := t) ha hf (fun u hu => by simp [hu])
      (fun q => by by_cases hq : q = r <;> simp [hq]) ?_
    refine tinvF_out ?_; simp; split <;> simp [Loc.deqPhase]
  | semPdRetOkW t k hl =>
    refine invF_frame (t := t) ha hf (fun u hu => by simp [hu]) (fun q => ⟨rfl, rfl⟩) ?_
    refine tinvF_out ?_; simp [Loc.deqPhase]
  | semPdRetOkC t k hl =>
    refine invF_frame (t := t) ha hf (fun u hu => by simp [hu]) (fun q => ⟨rfl, rfl⟩) ?_
    refine tinvF_out ?_; simp [Loc.deqPhase]
  | wInit t r hl hm hst =>
    exact invF_frame (t := t) ha hf (fun u _ => rfl) (fun q => by by_cases hq : q = r <;> simp [hq])
      (tinvF_keep (hf.thr t) rfl (fun _ => by by_cases hq : (s.thr t).r = r <;> simp [hq])
        (fun _ => by by_cases hq : (s.thr t).r = r <;> simp [hq]))
  | nwInit t r hl hm hst =>
    exact invF_frame (t := t) ha hf (fun u _ => rfl) (fun q => by by_cases hq : q = r <;> simp [hq])
      (tinvF_keep (hf.thr t) rfl (fun _ => by by_cases hq : (s.thr t).r = r <;> simp [hq])
        (fun _ => by by_cases hq : (s.thr t).r = r <;> simp [hq]))
  | fStW t r new hl hf' =>
    exact invF_frame (t := t) ha hf (fun u _ => rfl) (fun q => by by_cases hq : q = r <;> simp [hq])
      (tinvF_keep (hf.thr t) rfl (fun _ => by by_cases hq : (s.thr t).r = r <;> simp [hq])
        (fun _ => by by_cases hq : (s.thr t).r = r <;> simp [hq]))
  | fCasOk t r exp new obs hl hf' hn ho he =>
    exact invF_frame (t := t) ha hf (fun u _ => rfl) (fun q => by by_cases hq : q = r <;> simp [hq])
      (tinvF_keep (hf.thr t) rfl (fun _ => by by_cases hq : (s.thr t).r = r <;> simp [hq])
        (fun _ => by by_cases hq : (s.thr t).r = r <;> simp [hq]))

theorem invF_reachable {cfg : Config} {s : State} (h : Reachable cfg s) : InvF s := by
  have : Inv s ∧ InvF s := by
    refine reachable_induct (P := fun s => Inv s ∧ InvF s) ⟨⟨invA_init, invB_init⟩, invF_init⟩ ?_ s h
    intro s e s' ⟨hi, hf⟩ htr
    have hb := invB_tr hi.a hi.b htr
    exact ⟨⟨invA_tr hi.a htr hb.nobad, hb⟩, invF_tr hi.a hi.b hf htr⟩
  exact this.2

end NsyncVerif.CvFix
