import NsyncVerif.Proofs.MuCOther
/-
  MuC: a step changes neither pc nor `held` of the other threads (CAS steps, the remaining events, runs).
-/
namespace NsyncVerif.MuC

macro "other_simp" : tactic => `(tactic|
  (intro u hu
   first
   | (simp [setFn, hu, mwLoop_eq, afterFin_eq, afterWakes_eq, dequeue, enqLast, enqFirst, setHeld, dropW]; done)
   | ((repeat' split) <;> simp [setFn, hu, mwLoop_eq, afterFin_eq, afterWakes_eq, dequeue, enqLast, enqFirst, setHeld, dropW] <;>
       (repeat' split) <;> simp_all [setFn])))

theorem sameOther_of_eq {s s1 s' : State} {t : Tid} (h : SameOther s1 s' t) (hpc : s1.pc = s.pc) (hh : s1.held = s.held) :
    SameOther s s' t := by
  intro u hu
  obtain ⟨a, b⟩ := h u hu
  exact ⟨by rw [a, hpc], by rw [b, hh]⟩

theorem stepCas_other {s s' : State} {t : Tid} {o : Ord} {loc : Loc} {exp new obs : Nat} {ok : Bool}
    (h : stepCas s t o loc exp new obs ok = .ok s') : SameOther s s' t := by
  unfold stepCas at h
  split at h
  all_goals first
    | (cases h; done)
    | (rcases casWord_ok h with ⟨_, _, hs'⟩ | ⟨_, _, hs'⟩ <;> subst hs' <;> other_simp)
    | (rcases casWordE_ok h with ⟨_, _, hs'⟩ | ⟨_, _, hs'⟩
       · first
         | exact sameOther_of_eq (afterPickup_other hs') (by simp) (by simp)
         | exact sameOther_of_eq (scanRun_other _ _ _ _ _ _ hs') (by simp) (by simp)
       · subst hs'; other_simp)
    | (split at h <;> first
         | (cases h; done)
         | (rcases casWord_ok h with ⟨_, _, hs'⟩ | ⟨_, _, hs'⟩ <;> subst hs' <;> other_simp))
    | (repeat' split at h
       all_goals first
         | (cases h; done)
         | exact sameOther_of_eq (scanRun_other _ _ _ _ _ _ h) (by simp) (by simp)
         | (cases h; other_simp))

theorem step_other {cfg : Cfg} {s s' : State} {e : Event} (h : step cfg s e = .ok s') (u : Tid) (hu : e.tid ≠ some u) :
    s'.pc u = s.pc u ∧ s'.held u = s.held u := by
  cases e with
  | call t a => exact stepCall_other h u (by simpa [Event.tid] using Ne.symm hu)
  | ret t a res => exact stepRet_other h u (by simpa [Event.tid] using Ne.symm hu)
  | ld t o loc obs => exact stepLd_other h u (by simpa [Event.tid] using Ne.symm hu)
  | st t o loc new obs => exact stepSt_other h u (by simpa [Event.tid] using Ne.symm hu)
  | cas t o loc exp new obs ok => exact stepCas_other h u (by simpa [Event.tid] using Ne.symm hu)
  | cond t fn k res => exact stepCond_other h u (by simpa [Event.tid] using Ne.symm hu)
  | semPEnter t k | semPRet t k | semPdEnter t k dl | semPdRet t k b | semV t k | noteSeen t | noteNotify t =>
    have hut : u ≠ t := by simpa [Event.tid] using Ne.symm hu
    simp only [step] at h
    repeat' split at h
    all_goals first
      | (cases h; done)
      | (cases h; simp [setFn, hut, afterFin_eq])
  | envV k => simp only [step] at h; cases h; simp
  | envSem k n =>
    simp only [step] at h
    split at h
    · cases h; simp
    · cases h
  | dataW t x v =>
    simp only [step] at h
    split at h
    · cases h; simp
    · cases h
  | dataR t x v =>
    simp only [step] at h
    split at h
    · cases h; simp
    · cases h
  | tick n =>
    simp only [step] at h
    split at h
    · cases h; simp
    · cases h

/-- A thread that takes no step in a run keeps its program point and its `held`. -/
theorem run_other {cfg : Cfg} (u : Tid) : ∀ (evs : List Event) (s s' : State), (∀ e, e ∈ evs → e.tid ≠ some u) →
    run cfg s evs = .ok s' → s'.pc u = s.pc u ∧ s'.held u = s.held u := by
  intro evs
  induction evs with
  | nil => intro s s' _ h; simp [run] at h; cases h; exact ⟨rfl, rfl⟩
  | cons e es ih =>
    intro s s' hne h
    simp only [run] at h
    split at h
    · rename_i s1 hs1
      obtain ⟨a, b⟩ := step_other hs1 u (hne e (by simp))
      obtain ⟨c, d⟩ := ih s1 s' (fun e' he' => hne e' (List.mem_cons_of_mem _ he')) h
      exact ⟨c.trans a, d.trans b⟩
    · cases h

end NsyncVerif.MuC
