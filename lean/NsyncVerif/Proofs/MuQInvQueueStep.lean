import NsyncVerif.Proofs.MuQInvQueue2
import NsyncVerif.Proofs.MuQInvQueue3
/-
  MuQ: (I_queue) is preserved by every abstract step.
-/
namespace NsyncVerif.MuQ

theorem ASpin.no_spin_of_free {a : AState} (h : ASpin a) (hf : a.word.spin = false) (u : Tid) :
    (a.ro u).spin = false := by
  cases hx : (a.ro u).spin with
  | false => rfl
  | true =>
    have := (h.own u).2 hx
    have hb := h.bit; rw [this, hf] at hb; cases hb

theorem ASpin.unique {a : AState} (h : ASpin a) {t u : Tid} (ht : (a.ro t).spin = true)
    (hu : (a.ro u).spin = true) : u = t := by
  have e1 := (h.own t).2 ht
  have e2 := (h.own u).2 hu
  rw [e1] at e2; exact (Option.some.inj e2).symm

theorem SL.with_w_self {c : SL} {k : Wid} (h : c.w = some k) : ({ c with w := some k } : SL) = c := by
  cases c; simp_all

theorem semPost_fields (cfg : Cfg) (a : AState) (k k' : Wid) :
    ((a.semPost cfg k).wr k').owner = (a.wr k').owner ∧ ((a.semPost cfg k).wr k').waiting = (a.wr k').waiting ∧
      ((a.semPost cfg k).wr k').lType = (a.wr k').lType := by
  simp only [AState.semPost, setFn]; split
  · rename_i e; subst e; exact ⟨rfl, rfl, rfl⟩
  · exact ⟨rfl, rfl, rfl⟩

theorem aqueue_step {cfg : Cfg} {a a' : AState} (hs : ASpin a) (h : AQueue a) (st : AStep cfg a a') :
    AQueue a' := by
  cases st with
  | acqFresh t l hro hts hb => exact h.of_eq (by simp) (by simp) (by simp)
  | enterSlow t l hro hts =>
    refine aqueue_role_plain h (fun c ph hr => by rw [hro] at hr; cases hr) ?_ (by rw [hro]; rfl)
      (fun sc hr => by cases hr)
    intro c ph hr; cases hr
    exact ⟨rfl, by simp [SL.ok, SL.entry, longWaitThreshold], rfl, Or.inl rfl⟩
  | acqSlow t c hro hts hb =>
    refine aqueue_leave h hro (by simp) (by simp) ?_
    intro k
    cases hcw : c.w with
    | none => simp [AState.dropW]
    | some k0 =>
      simp only [AState.addShare_wr, AState.dropW, Option.some.injEq]
      by_cases hk : k = k0
      · subst hk; simp [setFn]
      · have : ¬ k0 = k := fun e => hk e.symm
        simp [setFn, hk, this]
  | enq t c hro hsp hb =>
    obtain ⟨e1, e2, e3⟩ := h.slok t c .pre hro
    have := aqueue_phase (ph' := .st) h hro rfl rfl (fun hq => by simp [Phase.queued] at hq)
      (fun hq => by simp [Phase.inLoop] at hq) ⟨e1, fun _ => e2 (Or.inl rfl), fun hq => by simp [Phase.queued] at hq⟩
      (fun e => by cases e)
    exact this.of_eq rfl rfl rfl
  | adopt t c k hro hw hq ho hwt =>
    have hsp : (a.ro t).spin = true := by rw [hro]; rfl
    refine aqueue_enqueue (k := k) h hro hq (Or.inl hw) ?_ ?_ ?_ ?_ ?_ rfl ⟨by simp [setFn], by simp [setFn], by simp [setFn]⟩
      (fun k' hk' => by simp [setFn, hk'])
    · intro u hu; have := (h.wk u k hu).2.1; rw [hwt] at this; cases this
    · intro t' c1 ph1 hr hcw
      have := (h.own k t').2 ⟨c1, ph1, hr, hcw⟩; rw [ho] at this; cases this
    · intro u sc hr
      have hu : (a.ro u).spin = true := by rw [hr]; rfl
      have := hs.unique hsp hu; subst this; rw [hro] at hr; cases hr
    · intro x; show x ∈ (if c.wc = 0 then a.queue ++ [k] else k :: a.queue) ↔ _
      split <;> simp <;> exact Or.comm
    · show (if c.wc = 0 then a.queue ++ [k] else k :: a.queue).Nodup
      split
      · rw [List.nodup_append]; refine ⟨h.nodup, by simp, ?_⟩
        intro x hx y hy; simp at hy; subst hy; intro e; subst e; exact hq hx
      · rw [List.nodup_cons]; exact ⟨hq, h.nodup⟩
  | requeue t c k hro hw hq =>
    have hsp : (a.ro t).spin = true := by rw [hro]; rfl
    refine aqueue_enqueue (k := k) h hro hq (Or.inr hw) ?_ ?_ ?_ ?_ ?_ (by rw [SL.with_w_self hw])
      ⟨?_, by simp [setFn], ?_⟩ (fun k' hk' => by simp [setFn, hk'])
    · intro u hu
      obtain ⟨_, _, t', c1, ph1, hr, hcw, hph⟩ := h.wk u k hu
      have := h.owner_unique hr hcw hro hw; subst this
      rw [hro] at hr; cases hr; simp [Phase.inLoop] at hph
    · intro t' c1 ph1 hr hcw; exact h.owner_unique hr hcw hro hw
    · intro u sc hr
      have hu : (a.ro u).spin = true := by rw [hr]; rfl
      have := hs.unique hsp hu; subst this; rw [hro] at hr; cases hr
    · intro x; show x ∈ (if c.wc = 0 then a.queue ++ [k] else k :: a.queue) ↔ _
      split <;> simp <;> exact Or.comm
    · show (if c.wc = 0 then a.queue ++ [k] else k :: a.queue).Nodup
      split
      · rw [List.nodup_append]; refine ⟨h.nodup, by simp, ?_⟩
        intro x hx y hy; simp at hy; subst hy; intro e; subst e; exact hq hx
      · rw [List.nodup_cons]; exact ⟨hq, h.nodup⟩
    · simp only [setFn, if_true]; exact (h.own k t).2 ⟨c, .st, hro, hw⟩
    · simp only [setFn, if_true]; exact h.lty t c .st k hro hw
  | relSpin t c hro =>
    obtain ⟨e1, e2, e3⟩ := h.slok t c .rel hro
    have := aqueue_phase (ph' := .loopLd) h hro rfl rfl (fun _ => Or.inl rfl)
      (fun hq => by simp [Phase.inLoop] at hq) ⟨e1, (fun e => by rcases e with e | e <;> cases e), fun _ => e3 rfl⟩
      (fun e => by cases e)
    exact this.of_eq rfl rfl rfl
  | loopWait t c k hro hw hwt =>
    obtain ⟨e1, e2, e3⟩ := h.slok t c .loopLd hro
    have := aqueue_phase (ph' := .loopP) h hro rfl rfl (fun _ => Or.inl rfl)
      (fun _ => Or.inl rfl) ⟨e1, (fun e => by rcases e with e | e <;> cases e), fun _ => e3 rfl⟩
      (fun e => by cases e)
    exact this.of_eq rfl rfl rfl
  | loopWoken t c k hro hw hwt =>
    obtain ⟨e1, e2, e3⟩ := h.slok t c .loopLd hro
    have := aqueue_phase (c' := c.woken) (ph' := .pre) h hro rfl rfl
      (fun _ => Or.inr (fun k' hk' hm => by
        rw [hw] at hk'; cases hk'
        have := (h.inq k hm).1; rw [hwt] at this; cases this))
      (fun _ => Or.inr (fun k' hk' u hm => by
        rw [hw] at hk'; cases hk'
        have := (h.wk u k hm).2.1; rw [hwt] at this; cases this))
      ⟨SL.ok_woken e1, fun _ => by show c.w.isSome = true; exact e3 rfl, fun hq => by simp [Phase.queued] at hq⟩
      (fun e => by cases e)
    exact this.of_eq rfl rfl rfl
  | pRet t c k hro hw hsem =>
    obtain ⟨e1, e2, e3⟩ := h.slok t c .loopP hro
    have := aqueue_phase (ph' := .loopLd) h hro rfl rfl (fun _ => Or.inl rfl)
      (fun _ => Or.inl rfl) ⟨e1, (fun e => by rcases e with e | e <;> cases e), fun _ => e3 rfl⟩
      (fun e => by cases e)
    refine aqueue_congr this rfl rfl (fun k' => ?_)
    show ((setFn a.wr k _ k').owner = _ ∧ _)
    simp only [setFn]; split
    · rename_i e; subst e; exact ⟨rfl, rfl, rfl⟩
    · exact ⟨rfl, rfl, rfl⟩
  | release t l hro hts hsh hc => exact h.of_eq (by simp) (by simp) (by simp)
  | grab t l hro hts hsh hu hsp =>
    have hX : AQueue (({ a with word := grabWord l a.word, sp := some t } : AState).subShare t l) :=
      h.of_eq (by simp) (by simp) (by simp)
    refine aqueue_advance hX (by simp [hro, scan0, Role.wake]) (by simp [hro]) ⟨[], by simp [scan0]⟩ ?_
    intro u _; simp only [AState.subShare_ro]; exact hs.no_spin_of_free hsp u
  | rcDone t sc hro =>
    refine aqueue_advance h (by rw [hro]; rfl) (by simp [hro]) (h.scant t sc hro) ?_
    intro u hu
    cases hx : (a.ro u).spin with
    | false => rfl
    | true => exact absurd (hs.unique (by rw [hro]; rfl) hx) hu
  | finish t f hro =>
    have := aqueue_role_plain (r1 := roleAfter f.wake) h (fun c ph hr => by rw [hro] at hr; cases hr)
      (fun c ph hr => absurd hr (roleAfter_not_slow _ c ph)) (by rw [hro, roleAfter_wake]; rfl)
      (fun sc hr => absurd hr (roleAfter_not_scan _ sc))
    exact this.of_eq rfl rfl rfl
  | wakeStore t k r hro =>
    exact aqueue_wakeStore h hro rfl rfl ⟨by simp [setFn], by simp [setFn], by simp [setFn]⟩
      (fun k' hk' => by simp [setFn, hk'])
  | post t k r hro =>
    have := aqueue_role_plain (r1 := roleAfter r) h (fun c ph hr => by rw [hro] at hr; cases hr)
      (fun c ph hr => absurd hr (roleAfter_not_slow _ c ph)) (by rw [hro, roleAfter_wake]; rfl)
      (fun sc hr => absurd hr (roleAfter_not_scan _ sc))
    exact aqueue_congr this rfl rfl (fun k' => semPost_fields cfg _ k k')
  | envV k => exact aqueue_congr h rfl rfl (fun k' => semPost_fields cfg _ k k')
  | envSem k n ho =>
    refine aqueue_congr h rfl rfl (fun k' => ?_)
    show ((setFn a.wr k _ k').owner = _ ∧ _)
    simp only [setFn]; split
    · rename_i e; subst e; exact ⟨rfl, rfl, rfl⟩
    · exact ⟨rfl, rfl, rfl⟩

theorem aqueue_init : AQueue (abs init) := by
  refine ⟨?_, ?_, ?_, ?_, ?_, ?_, ?_, ?_, ?_, ?_, ?_⟩ <;> simp [abs, init, role, Role.wake]

end NsyncVerif.MuQ
